# C13 — margin positions agree with pool totals and are liquidated only when unhealthy
LEAN_MODULES = ["Sif.Props.C13"]
EXTRACT = [{"group": "margin", "passes": ["marginkeys", "marginparams"]}]
FAMILIES = [
    {"name": "margin", "family": "margin", "group": "margin", "driver": "drv_margin",
     "n_quick": 60000, "n_thorough": 400000, "seeds_thorough": 5},
]
RULE = ("margin (L1, real SifchainApp, real margin+clp keepers and message servers): histories of 30-90 operations on 3-5 pools (cusdc, ceth "
        "plus 1-3 of cethx, ceths, cethsif1, cusd, ceth/rowan, ceth/x, cETH, CETH: symbols that are byte prefixes of one another, a symbol "
        "that is another symbol plus the start of a bech32 address, the only separator a denom may contain, case variants; `_` is not a "
        "valid denom character) of "
        "random depth (10^18..10^27 native, external/native ratio 10^-3..10^3) with random parameters (leverage max 1.5..10, pool-open threshold 0.1/0.5/0.9/0.93/0.99/1 at set-up and changed by MsgUpdateParams, safety factor "
        "0 (exactly), 10^-18, 0.5..1.6, epoch length 1..7, fund percentages 0..1, incremental payment on/off, max open positions 3 or 10000): Open (both "
        "collateral directions, amounts 0..3x pool depth, leverage 1..max+1 and 1.001/1.005/1.0099/1.01 (health in the hundreds), SHORT, unknown pool, both-native, both-non-native, same asset "
        "twice), Close (owner, outsider, unknown id), AdminClose/ForceClose (administrator and non-administrators, with/without fund cut), "
        "BeginBlocker every block (epoch boundaries with interest, liquidations), real clp Swap/AddLiquidity/RemoveLiquidity moving the "
        "price by up to 60% of depth, administrator parameter changes (including fund addresses set to a blocked recipient — the margin module account, the sdk fee_collector module account or the "
        "clp module account itself, the sender of every fund payment —, safety factor "
        "1.5/2/10/100, the real MsgAdminCloseAll with and without the fund cut, either or both fund addresses left out of MsgUpdateParams = stored empty, fund percentages 0/0.1/0.5/1, all while positions "
        "are open; the message is encoded, decoded, ValidateBasic'ed and sent through the message server), plus 15 directed histories per "
        "run (the configurations of F14/F14b/F14c; all ten pools at once with positions on both sides of each, two epoch hooks, every "
        "position closed; safety factor exactly 0 with positions pushed below health 1.05 and 1 by a swap, then 10^-18, 1, 1.05, 100 at "
        "successive epoch hooks; two positions of opposite direction in one 10^24/10^24 pool, the earlier (address order) large and under "
        "water, the later 15x and below the safety factor before the hook but above it at its turn; four healthy positions per pool on both "
        "collateral sides, then the real MsgAdminCloseAll with the fund cut (safety factor 100) and MsgUpdateParams to 2 and 10: the hook "
        "liquidates positions that still have value, collateral and fund share leave the module; pool-open threshold 0.93 with "
        "leveraged opens locking the pool (a further open refused) and owner closes while it is locked, mid-epoch and at a boundary, "
        "both collateral sides; opens SOLVED to land exactly on the safety factor (health == 1.05 resp. 1.5, found by trial opens on "
        "discarded branches with the factor set to 0 and the stored position valued by CLPSwap; leverage max 20) with the neighbours one "
        "unit of collateral above and below, both collateral sides; positions of leverage 1.001..1.02 on both sides while MsgAdminCloseAll (factor 100) and then factor 1000 are "
        "in force at epoch hooks; both fund addresses = the clp module account with fund percentages 0.5 through an interest epoch, a "
        "mid-epoch Close, AdminClose with the fund cut and AdminCloseAll; interest fund address empty: hook, mid-epoch Close, AdminClose; force-close fund address empty: AdminClose "
        "with/without fund cut, liquidation).  After every operation: full state dump compared "
        "with the model (pools: 13 fields, positions: 13 fields, counters, 7 accounts x 3 denoms) and MarginOK judged on the "
        "implementation's dump per pool with exact symbol matching, and the backing identity of C01 restricted to this world (c01.marginbacking: for every "
        "token, bank balance of the clp module account = sum over pools of balance + custody) judged on the bank's and keeper's dumps; "
        "after every successful Open: health, collateral taken, asset pair; after every removal by message: closer; "
        "after every epoch hook: each removed position's health AT ITS TURN against the stored safety factor — observed through "
        "Keeper.BeginBlocker only: the hook is run on discarded branches of the live state from which that position and the later "
        "positions of its pool were taken out (DestroyMTP), and the position is valued in the pool that run leaves — by the keeper's UpdateMTPHealth (c13.forced) and, independently of it, "
        "by the Lean predicate forcedStateOK on the dumped position and pool record (c13.forcedstate).  non-trivial = distinct successful "
        "Open/Close/AdminClose or epoch-boundary BeginBlocker line")
TRUSTED_BASE = [
    "Lean 4.33.0 kernel; axioms propext, Classical.choice, Quot.sound (audited per theorem on every run)",
    "hand-written Lean model of x/margin (keeper.go, msg_server.go, admin_msg_server.go, abci.go, calculations.go) and of the clp swap "
    "calculator it calls (lead's Sif.Model.Clp.Calc), tied to the Go code only by differential execution (state dumps after every operation)",
    "fact translator extract/margin/params.go (a parameter getter is `field` only if its body is exactly `return k.GetParams(ctx).<Field>`)",
    "fact translator extract/margin/keys.go (syntactic classification of the key constructors of x/margin/types/keys.go and of "
    "Keeper.GetMTPsForPool; anything unrecognised becomes `unknown` and fails the obligation)",
    "Go harness (set-up, line protocol, the prefix runs of Keeper.BeginBlocker on discarded branches used to observe each removed "
    "position's health at its turn; only exported keeper/message-server API is called, no internal helper of the hook) and the Lean driver's parser",
    "cosmos-sdk x/bank (send, blocked recipients), x/auth module accounts, store/cachekv branching: modelled, exercised by the correspondence",
    "environment value: the interest rate InterestRateComputation returns per pool and epoch (math.Pow via GetSQFromBlocks); the theorems hold for every value",
    "decimal->float64->big.Rat conversion (Dec.MustFloat64, Rat.SetFloat64) modelled exactly for normal doubles (Sif.F64), exercised by the correspondence",
]
ASSUMPTIONS = [
    "the only unparsable fund-address string in a history is the empty one (an omitted field); the getters panic on it, as on any "
    "other string that is not a bech32 account address",
    "the 64-bit position-id counter does not wrap (mtpCount + number of Opens < 2^64)",
    "WF: distinct position keys and pool symbols, no pool of the native asset, ids handed out by the counter (holds from an empty "
    "margin store; genesis import of positions does not restore the counters — DESIGN observation O2 — and is outside the histories)",
    "address strings of equal length (bech32 of 20-byte addresses): store order of positions = (address, id)",
    "pools are neither created nor removed in mid-history (x/clp DecommissionPool of a pool with open positions is outside the model)",
    "theorems are about the repaired code (fixes/F14.diff, F14b.diff, F14c.diff applied in /repo's working tree); the pinned variants are refuted by the pinned_* theorems",
]
UNPROVED = [
    "c01.marginbacking (clp module balance = sum of pool balance + custody per token) is a decidable predicate judged on the "
    "implementation after every message and hook and implied for the model only through the exact bank+pool correspondence; it is "
    "not proved as an invariant of the model",
    "forced_only_unhealthy / beginBlocker_forces_only_unhealthy compare with the health the hook computes when the position's turn "
    "comes (before that block's interest payment — stale by one payment — as the code does); no theorem says a position *below* the "
    "safety factor is always liquidated (the liquidation may fail and is then skipped)",
    "bank-account locality (only clp module, trader, the two fund addresses) is proved for Open, Close, AdminClose/ForceClose; for the "
    "BeginBlocker it is only covered by the exact bank correspondence after every hook",
    "no theorem relates MarginOK to x/clp's own messages beyond the environment step of `run` (swaps and liquidity changes are modelled as "
    "arbitrary changes of the two balance fields; that they do not touch custody/liabilities is checked on the implementation after every clp operation)",
    "conservation of value in amounts (what the trader gets back equals swap result minus liabilities minus fund cut) is part of the exact "
    "correspondence, not of a theorem",
]
MANIFEST = {
    "text": "Lean 4 theorems over a model of x/margin that sequences every SetPool/SetMTP/bank write: MarginOK (pool custody and "
            "liabilities per side = sums over positions, open counter = number of positions) is preserved by Open/Close/AdminClose/"
            "ForceClose on every exit, by the non-atomic BeginBlocker on every exit of every position's processing and for every interest "
            "rate, and along every history; closed positions disappear; only owner or administrator closes by message; Open implies "
            "health > safety factor and takes exactly the collateral; Close/AdminClose touch only trader, clp module and fund accounts; "
            "a position removed while the hook processes it was at or below the safety factor. Tied to the Go code by exact differential execution of real keepers on generated histories and by "
            "judging the same predicates on the implementation's dumped state after every operation.",
    "note": "Theorems are about the repaired tree (three defects of the pinned tree — F14 failed fund transfer persists a half-updated "
            "position, F14b liquidation failing after TakeOutCustody, F14c positions between two non-native assets — are reproduced by the "
            "check when a patch is reverted and refuted in Lean by kernel-checked witnesses). Not proved, only tested on the "
            "implementation: bank-account locality of the hook, amounts paid out. Trusted: Lean "
            "kernel, hand-written model (tied by correspondence only), harness/driver, x/bank and store branching as modelled, interest "
            "rate as an environment value.",
    "technique": "Lean 4 proof + differential correspondence (model vs real Go)",
    "design_ref": "4/C13",
}
