# C13 — margin positions agree with pool totals and are liquidated only when unhealthy
LEAN_MODULES = ["Sif.Props.C13"]
EXTRACT = []
FAMILIES = [
    {"name": "margin", "family": "margin", "group": "margin", "driver": "drv_margin",
     "n_quick": 60000, "n_thorough": 400000, "seeds_thorough": 4},
]
RULE = "see MANIFEST"
TRUSTED_BASE = []
ASSUMPTIONS = []
UNPROVED = ["everything (skeleton)"]
MANIFEST = {"text": "skeleton", "note": "skeleton", "technique": "Lean 4 proof + differential correspondence (model vs real Go)", "design_ref": "4/C13"}
