# C05 — bridge prophecies need the whitelisted-power threshold and are final
LEAN_MODULES = ["Sif.Props.C05"]
EXTRACT = [{"group": "bridge", "passes": ["bridgefacts"]}]
FAMILIES = [
    {"name": "bridge_oracle", "family": "bridge_oracle", "group": "bridge", "driver": "drv_bridge",
     "n_quick": 200, "n_thorough": 1500, "seeds_thorough": 3},
]
RULE = ("bridge_oracle: L1 histories on the real oracle/ethbridge keepers of a full SifchainApp with a real staking keeper: 1-8 validators "
        "with chosen powers (ties, zero power, boundary vectors 10p-7t in {-1,0,1,..}, totals up to 2^48), bonded flags, whitelists with "
        "duplicates / non-validators, the staking lifecycle with the real staking keeper between claims (Jail: out of the power index at once while status stays Bonded; Unjail; the EndBlocker's validator-set update), the threshold judged against the power-index view (GetBondedValidatorsByPower) of the stored state, administrative transactions of two messages on one cache context written only if both succeed (whitelist edit + failing or succeeding second message) followed by a claim of the validator concerned, block steps that run the real oracle / ethbridge EndBlock and BeginBlock hooks and jump 1, 10, 100800, 100801 or 10^6 blocks ahead (late and replayed claims after them), restarts from the exported genesis, validator / signer / receiver address fields in the canonical or the all-upper-case bech32 spelling (same bytes), admin add/remove and staking changes interleaved with claims, 1-3 events with 1-3 contents each, late and "
        "duplicate claims; every history executed 8x in-process, the raw bytes of the oracle and ethbridge stores digested after each execution and compared with the first (storeBytesSame) (Go map order re-rolled). Directed: the F2 shape, de-whitelisted claimants on both "
        "sides, threshold boundaries, zero total power, the same validator claiming twice under two spellings with 40 % power. After every message the canonical state (whitelist, prophecies with both claim maps, peggy "
        "list, pause, fee receiver, blacklist, all balances, supply) is compared with the Lean model; chk lines evaluate Spec.C05.prophecyWF / "
        "sameMembers (the stored whitelist names exactly the validators of the ledger of administrative operations that took effect: genesis list, adds, removes) / thresholdMet and acceptedClaimantOK (against that ledger) / viewIsStore (keeper view of the whitelist = raw store) / reportedIsStored and finalByLedger (finality against the ledger of the statuses the claim messages REPORTED: FAILED as well as SUCCESS prophecies refuse every later claim, read back the same, move no balance) / finalStable / finalKept (a prophecy once seen finalised is what the keeper still returns after block jumps, restarts and late claims) on the implementation's dumps. non-trivial = distinct accepted message, or a chk on a non-pending prophecy")
TRUSTED_BASE = [
    "Lean 4.33.0 kernel; axioms propext, Classical.choice, Quot.sound (audited per theorem on every run)",
    "hand-written Lean model of x/oracle and x/ethbridge (Sif/Model/Oracle.lean, EthBridge.lean, BridgeBank.lean), tied by the regenerated facts "
    "of Sif/Generated/BridgeConsts.lean (threshold constant and its use in app.go, comparison operators, guard and error order of ProcessClaim, "
    "whitelist guard of the tally) and by differential execution against the real keepers",
    "x/staking is environment: the validator set (operator, PotentialConsensusPower, counted by GetBondedValidatorsByPower, IsBonded) is an input of every step, observed from the real staking keeper after real Jail / Unjail / validator-set updates; GetBondedValidatorsByPower "
    "is assumed to return exactly the bonded validators (<= MaxValidators = 100) with distinct operator addresses",
    "json.Marshal/Unmarshal of OracleClaimContent is injective and round-trips on (receiver, amount, symbol, token contract, claim type)",
    "IEEE-754: F64.sigDiv is the correctly rounded double quotient for quotients in [1/2,1); Go converts integers below 2^53 exactly",
    "Go harness, line protocol, drv_bridge parser; cosmos-sdk x/bank, x/auth, store (modelled, exercised by the correspondence)",
]
ASSUMPTIONS = [
    "total whitelisted bonded power < 2^48 whole rowan (DESIGN section 5); no int64 overflow in the power sums",
    "validators known to staking have distinct operator addresses (ValsWF); every stored tally is well-formed (OStateWF, proved invariant from the empty store)",
    "the iteration order of the Go map ClaimValidators is some permutation of its entries (hypothesis `ord l ~ l`, discharged for every such order)",
]
UNPROVED = [
    "float_test_matches_integer_Statement: the float64 threshold test equals the integer test for ALL totals — only the envelope t < 2^48 is proved "
    "(float_test_matches_integer_partial); that F64.sigDiv is IEEE-754 division outside the binade [1/2,1) is not formalised",
    "GetBondedValidatorsByPower truncation at MaxValidators and int64 overflow of power sums are outside the model",
]
MANIFEST = {
    "text": "Lean 4 theorems over a model of ProcessClaim / FindHighestClaim / processCompletion and the ethbridge handlers: rejection of non-whitelisted, "
            "unbonded and duplicate claimants; well-formed tallies as an invariant; SUCCESS implies 10*support >= 7*total > 0 over currently whitelisted bonded "
            "validators with identical content; finality for single claims and for arbitrary histories (status, final claim, tally, every balance); "
            "independence of the Go map iteration order for processCompletion, ProcessClaim and every delivered message. Tied to the code by regenerated "
            "facts and by differential execution of generated histories on the real keepers (4 in-process repetitions per history), the theorems' own "
            "predicates being evaluated on the implementation's dumps.",
    "note": "Defect F2 (claims of de-whitelisted validators counted) reproduced by the check, repaired by fixes/F2.diff; model and theorems are about the "
            "repaired code. The float64 test is proved equal to the integer test only for totals < 2^48 (partial). Trusted: kernel, hand-written model + "
            "correspondence, staking as environment, JSON encoding of claim contents, IEEE-754 division model.",
    "technique": "Lean 4 proof + regenerated facts + differential correspondence (model vs real Go keepers)",
    "design_ref": "4/C05",
}
