# C07 — peg supply conservation on lock/burn; pause and blacklist stop exports
LEAN_MODULES = ["Sif.Props.C07"]
EXTRACT = [{"group": "bridge", "passes": ["bridgefacts"]}]
FAMILIES = [
    {"name": "bridge_peg", "family": "bridge_peg", "group": "bridge", "driver": "drv_bridge",
     "n_quick": 200, "n_thorough": 1500, "seeds_thorough": 3},
]
RULE = ("bridge_peg: L1 histories of lock / burn / claim / pause / blacklist / fee-receiver / rescue / whitelist messages on the real keepers: "
        "fee receiver unset and set (also set to the sender, to module accounts), ceth burned with the receiver unset, ceth locked with the receiver "
        "unset (duplicate-denomination panic), fees below / at / above the floor and of extreme sign and size (-1, -2^63, -2^63-1, -10^19, -amount, 2^63, 2^64, 2^255; also with the fee token itself burned, no fee receiver, the module holding earlier fees), amounts above the balance, invalid denominations, chain ids 0 and "
        "negative, receivers in eight spellings (EIP-55, lower, upper, un-prefixed, 0X, EIP-55 with 1 / 2 / half of its letters flipped) and non-addresses, blacklists with several spellings; "
        "worlds whose ethbridge genesis lists 3-6 peggy tokens in arrival (unsorted) order through the real InitGenesis, holders locking and burning every listed token; claim symbols differing in case only / prefixes of one another / starting with the pegged prefix (usdt USDT Usdt usd usdtx cusdt …), each minted denomination then locked and burned by its holder; 8 executions per history. Judged on the implementation's observations: Spec.C07.pegStep (payable from the pre-balances with a non-negative fee, balances, supply, exactly one event), gateOK "
        "(pause as the RAW STORE flag says — also after multi-message transactions whose un-pause is discarded with a failing later message, same block and next —, address-level blacklist, native/pegged where pegged = in the stored list OR minted by a lock credit earlier in the history; burn of a minted token never refused as native), peggyRegOK (after a SUCCESS claim the stored list = old list + exactly the credited denomination), supplyOK (supply = genesis + credits - locks - burns per denomination after every message). "
        "non-trivial = distinct accepted message, or a gate chk with the bridge paused or the receiver listed")
TRUSTED_BASE = [
    "Lean 4.33.0 kernel; axioms propext, Classical.choice, Quot.sound (audited per theorem on every run)",
    "hand-written Lean model of ProcessLock / ProcessBurn / Lock / Burn / SetPause / SetBlacklist / UpdateCethReceiverAccount / RescueCeth and the used "
    "part of x/bank, tied by regenerated facts (guards of Lock/Burn and ProcessLock/ProcessBurn, CethSymbol, fee floors, blacklist normalisation) and "
    "by differential execution against the real keepers",
    "common.Address.Hex() (EIP-55) is injective on 20-byte addresses: the model compares the 20-byte values where the code compares canonical strings",
    "baseapp's transaction wrapper reproduced by the harness; account sequences (an event attribute) outside the model; Go harness, drv_bridge parser",
]
ASSUMPTIONS = [
    "module accounts are exactly the blocked recipients (app.go); the ethbridge module account has minter+burner permissions",
    "blacklist entries reachable by messages / genesis import (stored normalised); raw entries written by an older binary are outside the model",
]
UNPROVED = [
    "events are modelled as the handler's output value: that the Go handler emits no second lock/burn event is tied by the correspondence only "
    "(x/bank's own 'burn' coin event is a different event and is filtered by its attributes)",
    "IBC / other modules changing supply are outside 'through the bridge'",
]
MANIFEST = {
    "text": "Lean 4 theorems over a model of the lock/burn path: a successful lock or burn debits the sender by the amount (and the fee in ceth), credits "
            "the fee to the configured receiver or else the ethbridge module account (incl. Symbol = ceth with no receiver), lowers supply by the amount, "
            "changes nothing else and yields exactly one event with the message's values; any failure (pause, address-level blacklist, wrong kind of token, "
            "insufficient funds, panics) changes nothing; per denomination supply + locks + burns = initial supply + approved credits over every history of "
            "bridge messages (induction). Tied by regenerated facts and differential execution on the real keepers with the predicates evaluated on the "
            "implementation's balances, supply and events.",
    "note": "Defect F11 (blacklist compared spellings) reproduced by the check, repaired by fixes/F11.diff (normalise on store and on lookup); model and "
            "theorems are about the repaired code. Trusted: kernel, hand-written model + correspondence, x/bank as modelled, EIP-55 injectivity.",
    "technique": "Lean 4 proof + regenerated facts + differential correspondence (model vs real Go keepers)",
    "design_ref": "4/C07",
}
