# C17 — the relayer scans contiguously after 50 confirmations and resumes without gaps
LEAN_MODULES = ["Sif.Props.C17"]
EXTRACT = [{"group": "relayer", "passes": ["relayerloop"]}]
FAMILIES = [
    # n = number of scripted schedules; each is played against the REAL EthereumSub.Start goroutine in its own
    # child process (24 in parallel; every event-bearing iteration costs the loop's fixed 10 s sleep)
    {"name": "relayloop", "family": "relayloop", "group": "relayer", "driver": "drv_relayloop",
     "n_quick": 24, "n_thorough": 96, "seeds_thorough": 3},
]
RULE = ("relayloop: scripted header schedules (gaps, repeats, lower heads, heads below the depth, bursts), bridge events "
        "placed inside and at the boundaries of the scanned ranges, FilterLogs failures, process kills at six points of "
        "an iteration (on eth_getLogs before the reply; after the reply on the account query; on broadcast_tx_commit "
        "before it is recorded; 1.5 s and 6 s after the broadcast was answered, i.e. during the loop's sleep before DB.Put; "
        "after DB.Put) and between iterations, restart on the same LevelDB directory; one schedule in three has LARGE distances between "
        "cursor and confirmed head (pre-seeded cursor far behind the first header, header gaps/bursts, long runs of failed queries: "
        "10^3..10^5 blocks, events placed just beyond cursor + 1000/2000/5000/10000 and on the last confirmed block); one in four has ONE "
        "range with 25-70 events, several per block, laid out so that every multiple of 10/16/20/25/32/50 events falls inside a block, "
        "killed on / after the k-th broadcast or right after the k-th cursor write of the iteration (k = 1..4; the child reacts to however "
        "many broadcasts and LevelDB writes the loop under test performs per iteration), restarted and continued; one directed schedule "
        "and one random schedule in twelve have a SLOW log query on a range with events: the fake node holds the eth_getLogs answer back "
        "for 26 s (or until the loop visibly moves on without it) and then answers with the correct logs, or with an error, or answers an "
        "error first and is slow on a retry if the loop retries; one schedule in three (and a directed one) mixes UNCONVERTIBLE but "
        "emittable bridge events into ranges that hold good ones — same block before/after a good event, neighbouring block — with a "
        "recipient whose bech32 checksum is wrong, an operator address, a truncated or empty recipient, or 'eth' from a non-null token "
        "(`nonce!block` in the placement): the judge demands every GOOD confirmed event below the persisted cursor, an unconvertible "
        "one may be skipped, never its neighbours; GRACEFUL stops — SIGTERM or SIGINT sent to the child while the log query is being served, "
        "between query and broadcast, while the broadcast is served, during the loop's sleep (two directed schedules + one random iteration "
        "in ten) — after which the loop does whatever it does, Start returns, and the process is restarted on the same LevelDB; a STALLED sifnode "
        "endpoint ('za': the account query of an iteration's submission is accepted and not answered; a loop that waits is answered after "
        "33 s, a loop that goes on without the answer is killed after its next cursor write) — one directed schedule in BOTH tiers (it runs in "
        "parallel with the others and sets the quick tier's wall time of about 55-60 s) plus rare random ones; non-trivial = distinct schedule "
        "(every schedule has at least 4 header deliveries that reach the log query)")
TRUSTED_BASE = [
    "Lean 4.33.0 kernel; axioms propext, Classical.choice, Quot.sound (audited per theorem on every run)",
    "hand-written Lean model of the loop body (Sif/Model/Relayer/Loop.lean), tied (1) by the regenerated facts of "
    "Sif/Generated/RelayerLoop.lean (statement order, operands, constant 50, continue branch, start-up read) and "
    "(2) by trace equality against the real EthereumSub.Start goroutine",
    "the fact translator extract/relayer/loop.go (its syntactic classification of the statements of the newHead case)",
    "the L3 harness: fake Ethereum JSON-RPC node (geth rpc.Server over websocket), fake Tendermint client, the observing "
    "goleveldb storage wrapper (journal writes = DB.Put), process kill by os.Exit of the child",
    "goroutine/select scheduling of the real loop, goleveldb durability on process death (data in the OS page cache), "
    "go-ethereum ethclient/rpc, cosmos-sdk client/tx — exercised by the correspondence, not modelled",
    "duplicate claims after a re-submission are rejected by the chain (C05) — at-least-once is the stated guarantee",
]
ASSUMPTIONS = [
    "fault model: header arrival patterns, log-query failures and process crashes; a submission FAILURE (broadcast error, "
    "observation O4) still advances the cursor in the code and is outside the property's fault model",
    "the Ethereum node answers eth_getLogs(lo..hi) with exactly the bridge events of those blocks (no reorg below 50 confirmations)",
    "one relayer process per LevelDB directory",
    "'block b handed to the submitter' stands for all bridge events of block b; their faithful translation is C16",
]
UNPROVED = [
    "goroutine scheduling, LevelDB durability and process-kill semantics are not modelled (tested by the L3 correspondence only)",
    "the composition 'events of the queried range -> claims' inside handleEthereumEvent is covered by the L3 runs "
    "(claims received = events placed in the range) and by C16, not by a theorem of this property",
]
MANIFEST = {
    "text": "Lean 4 theorems over a step-function model of the scanning loop, for every header schedule, query-failure pattern "
            "and crash point (induction over arbitrary input lists): submitted ranges are >= 50 blocks behind the newest header, "
            "queries are contiguous, the cursor is written only after the range was handled, no block between the first scanned "
            "block and the persisted cursor is skipped across crashes; restated per bridge event for every placement of events in "
            "blocks (raw_trace_admissible, raw_gap_free) in an alphabet that allows several broadcasts and several cursor writes per "
            "iteration: a cursor write is admissible only if every event in the blocks below it was broadcast before.  Tied to the source by regenerated facts about "
            "EthereumSub.Start (decide obligations) and by trace equality with the REAL Start goroutine run against in-process "
            "fake Ethereum/Tendermint endpoints with scripted kills and restarts on the same LevelDB.",
    "note": "Trusted: Lean kernel (+propext, Classical.choice, Quot.sound); the hand-written model, tied by facts + L3 traces; "
            "the fact translator's statement classification; the L3 harness (fake nodes, storage wrapper, os.Exit as crash). "
            "Tested only, not proved: goroutine scheduling, LevelDB durability, the event->claim composition inside "
            "handleEthereumEvent.  Submission failures advance the cursor (O4) and are outside the fault model.",
    "technique": "Lean 4 proof (invariant + induction over schedules) + regenerated facts + differential correspondence on the real loop",
    "design_ref": "4/C17",
}
