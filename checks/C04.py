# C04 — no free value: round trips never profit, existing providers are not diluted
LEAN_MODULES = ["Sif.Props.C04"]
EXTRACT = []
CHK_PREDS = ["c04."]
FAMILIES = [
    {"name": "ammrt", "family": "ammrt", "driver": "drv_amm", "n_quick": 4000, "n_thorough": 40000, "seeds_thorough": 4},
]
RULE = ("ammrt: L1 round trips on the real message server over pools of assorted depth ratios (1..2^95), fee settings in [0,1] and "
        "ratio-shifting rates in [0,1]: swap there-and-back, add (one-sided / nearly symmetric / arbitrary) then remove the units received, "
        "backing per unit across every message with ratio shifting off; measured amounts judged by Spec.C04 (swapBackOK, addRemoveOK, backingOK) "
        "and the state compared with the model after every message; every run opens with pools of few, valuable units (emptied to 1..8 units, refilled by "
        "fee-rate-1 swaps to ~10^24 per side) into which newcomers add 0..3 base units and from which the holder removes by basis points (claims of a fraction of a unit); non-trivial = a distinct message that succeeded")
TRUSTED_BASE = [
    "Lean 4.33.0 kernel; axioms propext, Classical.choice, Quot.sound (audited per theorem on every run)",
    "hand-written Lean model of the clp calculators and handlers, tied by differential execution",
    "Go harness + line protocol + driver parser",
]
ASSUMPTIONS = ["fee rates in [0,1]; ratio-shifting rate in [0,1] for the round-trip clauses and 0 for the backing clause (as the property states)",
               "dust as quantified in DESIGN.md 4/C04; the swap-equivalent of clause 3 is the fee-free constant-product output at the current ratio-shifting rate"]
UNPROVED = [
    "addRemove_Statement (clauses 2 and 3) is proved for symmetric additions (addRemove_symmetric_partial); for the two asymmetric branches it is stated in full and judged on every implementation round trip, not proved (needs the closed-form asymmetric swap-amount lemma, DESIGN 4/C04 SwapAmountSound)",
    "clause 4 (backing per unit) is proved for swaps (swap_backing_nondecreasing), for additions without internal swap (backing_add_noswap_partial), for removals by units (backing_removeUnits) and by basis points (backing_removeBps); for asymmetric additions backing_add_Statement is stated and judged on every implementation message, not proved",
]
MANIFEST = {
    "text": "Clause 1 (swap there-and-back never returns more than sent, all depths/amounts/fees/rates >= 0), clause 4 (backing per unit) for swaps, symmetric additions and both kinds of removal (all magnitudes, exact Dec/Uint rounding, dust of DESIGN 4/C04), and clauses 2-3 for symmetric additions are Lean theorems over the exact calculators; for asymmetric additions clauses 2-4 are stated in full in Lean and judged by decidable Lean predicates on real round trips (not proved). Model tied to the Go code by L1 differential execution.",
    "note": "Partial: for asymmetric additions (internal square-root swap amount) the clauses are judged on implementation outputs only. Trusted: Lean kernel (+3 standard axioms), hand-written model tied by the correspondence, harness/driver.",
    "technique": "Lean 4 proof (rational inequalities over the swap formula) + Lean-judged differential round trips",
    "design_ref": "4/C04",
}
