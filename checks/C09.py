# C09 — state-machine determinism: same blocks, same state and results
import os, json, re

LEAN_MODULES = ["Sif.Props.C09"]
EXTRACT = [{"group": "replay", "passes": ["mapranges", "pkgvars"]}]
FAMILIES = [
    # -n = N, the number of executions of every history (pilot + fresh instances, half of the re-executions in
    # separate OS processes); the main history has 40 + 2N blocks
    {"name": "replay", "family": "replay", "group": "replay", "driver": "drv_replay",
     "n_quick": 8, "n_thorough": 64, "seeds_thorough": 4},
]
RULE = ("replay: one generated all-module history (5 pools, 14 providers incl. a blocked recipient, LPPD, depth rewards in "
        "wallet and pool mode, epoch bucket payouts in both modes, ratio shifting (float code), liquidity protection, "
        "rejected transactions [edit X, message that READS X, failing send] for the registry (permissions, decimals, deregister, set), the admin table, the oracle "
        "whitelist and the clp policies, each followed by a restart point of the restarted mode; directed history poolless-prefix (no pool in the first blocks, so "
        "transactions and not block hooks are the first readers; rejected [redecimal ceth, refused swap]; then the first pools; restart before every block); "
        "ACCEPTED administrator edits of objects that block hooks read — a pooled denom re-registered with other decimals, swap-fee / rewards / "
        "liquidity-protection policies, whitelist member removed and re-added — each followed by a restart point; every epoch end of the pilot is put on a `chk epochEnd` line (old start, duration, new start, counters read from the state; the block times of all histories lie years before the wall clock), judged by Sif.Spec.C09.epochEndOK; directed history many-claims (ten whitelisted validators of powers 1x7, 10, 10, 13 all reporting different contents for one Ethereum event, in several orders: more than eight distinct conflicting claims on a pending prophecy); directed history staking-cap (20 validators of 5 %; signed transactions of 5-8 MsgDelegate / MsgBeginRedelegate to distinct validators, one of them over the 6.6 % cap at a random position: rejected in the ante handler after gas-metered projections; accepted multi-delegations too); directed history size-thresholds (one margin pool with about 140 open positions — MaxPageLimit is 100 — visited by the margin hook in every block, a dispensation with 45 recipients run 20 at a time, a restart before every block); directed history margin-stress-queue (five margin pools kept under the removal-queue threshold for 56 blocks with small, moving interest rates: the float term of GetSQFromBlocks is evaluated about 270 times); worker processes also differ in CPU features (GODEBUG=cpu.fma=off, cpu.all=off; effect recorded as cpu_probe in stats.json); executions are compared line by line within a CPU-behaviour group and by one cpu-features.<history> line across groups; conflicting bridge claims with tied power, lock/burn, dispensation create/run/claim, margin open/close/"
        "force-close + hook liquidations, registry/admin/bank messages; in every block 1-2 transactions that FAIL INSIDE a handler after "
        "gas-charged work, for every module: dispensation create with an empty-coins output among many recipients / without funds, "
        "run by a wrong runner, clp swap below minimum, remove/unlock more units than held, unpayable add/bucket, refused pool, "
        "repeated or post-final bridge claims, unpayable burn, low-fee lock, margin opens refused (borrow too high, too small, "
        "disabled pool), missing positions, privileged messages from users, two-message transactions whose second message "
        "fails) plus three directed histories (de-whitelisted "
        "claimants with a three-way power tie; genesis providers without accounts paid by LPPD / by the epoch hook), "
        "each executed N times (N = 8 quick, 64 thorough) in fresh application instances, half of the re-executions in "
        "separate OS processes whose ENVIRONMENT differs (profiles inherited / far: TZ=Pacific/Kiritimati, GOMAXPROCS=1, tr_TR locale, other HOME/HOSTNAME/USER/"
        "TMPDIR/cwd / utc / west: TZ=America/Anchorage, de_DE locale; every second in-process execution runs with time.Local = +14:00), in three modes that must agree: plain, twin (serves Simulate of admin edits of shared objects, gRPC "
        "queries and CheckTx of the next block between blocks), restarted (new app object on the same DB twice on the way); the history "
        "also has rejected two-message transactions whose FIRST message edits a shared decoded object (existing registry entry replaced, "
        "deregister, set registry, admin removal, whitelist removal, policy update) followed by a failing send; stateless-invalid transactions are included; one `chk allEqual` line per block (N app hashes), per block (N EndBlock validator/"
        "param updates) and per transaction (N tuples Code:Codespace:Data:GasWanted:GasUsed), judged by "
        "Sif.Spec.C09.allEqualN.  non-trivial = distinct transaction line or block line")
TRUSTED_BASE = [
    "Lean 4.33.0 kernel; axioms propext, Classical.choice, Quot.sound (audited per theorem on every run)",
    "fact translator extract/replay/pkgvars.go (go/types): package-level variables written outside init (assignment to the variable / its "
    "fields / elements, address taken, method called); audited list Sif.Spec.C09.auditedPkgVars — state kept behind pointers held in "
    "struct fields of keepers (not package-level) is NOT seen by this pass, only by the twin/restart re-executions",
    "time.flow facts (in mapranges.go): for every time.Now/Since/Until call, whether it is passed straight to a telemetry function or, if assigned to a variable, the list of "
    "everything that consumes the variable in that function; audited in Sif.Spec.C09.allowedUses (a wall-clock value may reach telemetry and one log line only)",
    "environment facts (in mapranges.go): time.Unix/UnixMilli/UnixMicro/Local/LoadLocation/Parse*, rendering or re-zoning of time.Time values "
    "(String/Format/Local/In/…), os.Getenv/Hostname/Getwd/UserHomeDir/TempDir, runtime.NumCPU/GOMAXPROCS/GOOS/GOARCH per function, audited in "
    "Sif.Spec.C09.allowedUses; provenance of a rendered time (block header vs. locally built) is judged by the reviewer, not by the pass",
    "fact translator extract/replay/mapranges.go (go/types via golang.org/x/tools/go/packages v0.29.0): its notion of map-typed "
    "range operand, of float-typed expression, and its exclusion rule (directories client, simulation, test, testutil, "
    "testhelpers, mock(s); files *_test.go, test_*.go, *_simulation.go)",
    "the reviewed coverage table Sif.Spec.C09.coveredRanges / allowedUses (which theorem or reason covers which site) — "
    "a human judgement, pinned to the exact loop bodies by the regenerated facts",
    "hand-written Lean models of the map-ranging computations (Sif/Model/Determinism.lean); they abstract the per-iteration "
    "work to 'reads and writes only its own keys' (pool record, per-asset component) — that abstraction is NOT checked "
    "against the Go code by a proof, only exercised by the re-execution",
    "NOT covered by any theorem (test only): the Go runtime's map iteration order and hash seeds, float code generation "
    "(math.Pow, float64 division, Dec->float64 conversions), the cosmos-sdk modules, baseapp, IAVL, protobuf/JSON encoders",
    "Go harness harness/replay (pilot + re-execution, worker processes), line protocol, drv_replay parser",
]
ASSUMPTIONS = [
    "the F25 tag is attached by position only (transaction whose messages fail ValidateBasic, decided by the pilot from the messages alone; block index equal "
    "to a restart point of the restarted mode), never by looking at the outcome",
    "transfer_perm: sum of payouts <= module balance (consequence of C01 solvency and rate <= 1) and every recipient already has an auth account",
    "pool-update loops: the map's pool pointers denote pairwise distinct pool symbols (GetPools yields one object per store key)",
    "tally_perm_invariant: claim contents distinct (map keys), counted powers sum <= total whitelisted bonded power (holds with repair F2), "
    "threshold predicate implies a strict majority (0.7 in float64 for powers < 2^48: argued, modelled exactly by C05)",
    "events, logs and query answers are not consensus state (Tendermint 0.34 hashes Code, Data, GasWanted, GasUsed of DeliverTx only)",
]
UNPROVED = [
    "F29 (known finding): the two float sites that call math.Pow with a fractional exponent (margin GetSQFromBlocks, clp PolicyStart) are NOT independent of the CPU "
    "(FMA3 / architecture); the design's bit-determinism argument for them is wrong.  On a host without FMA3 the cpu.fma=off variation is vacuous (see cpu_probe in the evidence)",
    "F25 (known finding, cosmos-sdk): GasUsed of a stateless-invalid transaction in the first block after a node restart is NOT run-independent; "
    "everything else about that block (app hash, other results) is, as far as the re-executions show",
    "bit-identical app hash across runs/processes on the REAL code: only tested by N-fold re-execution (Go map order, IAVL, encoders are outside the model)",
    "float determinism of PolicyStart (math.Pow), GetSQFromBlocks (math.Pow, math.E), CalcMTPInterestLiabilities/CheckMinLiabilities (Dec->float64), "
    "processCompletion (float64 division): argued in DESIGN 4/C09, not proved; exercised by re-execution on one platform only",
    "that each iteration of the remaining map-ranging loops touches only its own keys (the premise 'local step' of the perm theorems) is read off the "
    "code by hand and pinned by the call list of the loop body; it is not derived from the Go source by a proof",
    "gas independence of map order is argued (the only in-transaction map range, FindHighestClaim, touches no store); tested by comparing GasUsed",
]
MANIFEST = {
    "text": ("Lean 4 theorems: for a model of every remaining map-ranging computation of the consensus code (pool-record updates after LPPD and depth "
             "rewards, the logged sum, the oracle tally) the resulting state is the same for every permutation of the iteration order, by List.Perm "
             "induction; for the two payout loops that ranged over maps before repair F20 the order-independence is proved under 'recipients have "
             "accounts' with a machine-checked counterexample without it (account numbers are assigned in creation order), and the repaired code sorts "
             "the keys.  Tie 1: a go/types scan regenerates every range-over-map site (with loop body calls and exits) and every float/math/time/rand/"
             "goroutine use; `decide` obligations require each to be a reviewed, covered site.  Tie 2 (a TEST, not a proof): the real application is "
             "driven through InitChain/BeginBlock/DeliverTx/EndBlock/Commit with signed transactions on generated all-module histories, N = 8/64 times "
             "in fresh instances and separate processes; app hashes and DeliverTx {Code,Data,GasWanted,GasUsed} are judged equal by a Lean predicate."),
    "note": ("KNOWN FINDING F29 (tags cpu-features.margin-stress-queue / cpu-features.main): nodes with and without FMA3 commit different app hashes because math.Pow(x, fractional y) "
             "calls the assembly math.Exp; reproduced by worker processes started with GODEBUG=cpu.fma=off.  A change that swaps one such routine for another (math.Exp for math.Pow) "
             "shows the same symptom under the same tag; it is told apart only by the float-site fact obligation.  "
             "KNOWN FINDING F25 (tag txresult.restarted.validatebasic.gasused, directed history restart-validatebasic, hit on every run): a node restarted just "
             "before a block reports another GasUsed (GasWanted 0) for the transactions of that block that fail the stateless ValidateBasic — baseapp.runTx reads the "
             "block's shared infinite gas meter before the ante handler installs the tx meter, and x/capability's InitMemStore charges 15127 more gas on that meter in "
             "the first BeginBlock after a start; code, data, GasWanted and the app hash agree; cause in cosmos-sdk v0.45.16, not repairable in sifnode.  For such a "
             "transaction in the first block after a restart the harness judges code/data/GasWanted across all executions and GasUsed within the not-restarted and "
             "within the restarted executions under the ordinary tags; only the comparison of GasUsed across the two groups carries the F25 tag.  "
             "Proof covers the LOGIC of order-independence on hand-written models and the completeness of the site list; it cannot cover the Go runtime's "
             "map order, float code generation, IAVL or encoders — those are only exercised by re-execution on this machine.  Found and repaired: F20 "
             "(LPPD / epoch payouts in Go-map order create accounts in nondeterministic order when providers from a hand-made genesis have no account: "
             "app hashes diverged between runs); confirms F2's consensus impact (tied claims of de-whitelisted validators: final claim chosen by map order)."),
    "technique": "Lean 4 proof (perm-invariance + regenerated site list) + N-fold differential re-execution of the real app (test)",
    "design_ref": "4/C09",
}


def extra(ctx):
    """When a tie-1 obligation no longer checks, name the sites (so the replay file says which loop / float use is new)."""
    if ctx["lean"]["ok"]:
        return
    src = ("import Sif.Spec.C09\nimport Sif.Generated.MapRanges\nimport Sif.Generated.PkgVars\nopen Sif.Spec.C09 Sif.Generated.MapRanges\n"
           "#eval (\"package-level variables written outside init that are not audited\", (unauditedPkgVars Sif.Generated.PkgVars.pkgVars).map (fun v => (v.pkg, v.name, v.ty, v.writes)))\n"
           "#eval (uncoveredRanges mapRanges).map (fun s => (s.pkg, s.fn, s.operand, s.calls, s.exits, s.next))\n"
           "#eval (unallowedUses nondetUses).map (fun s => (s.pkg, s.fn, s.kind, s.n))\n#eval loadErrors\n")
    p = os.path.join(ctx["cache"], "audit", "C09_sites.lean")
    os.makedirs(os.path.dirname(p), exist_ok=True)
    open(p, "w").write(src)
    ctx["sh"](["lake", "build", "Sif.Spec.C09", "Sif.Generated.MapRanges", "Sif.Generated.PkgVars"], cwd=os.path.join(ctx["root"], "lean"))
    rc, out = ctx["sh"](["lake", "env", "lean", p], cwd=os.path.join(ctx["root"], "lean"))
    for b in ctx["broken"]:
        if b["kind"] == "proof":
            b["what"] += ("\nmap-range sites not covered by an order-independence theorem / uses not in the allowed list / load errors "
                          "(from the regenerated facts):\n" + out[-3000:])
