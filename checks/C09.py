# C09 — state-machine determinism (work in progress: tie 1 only; the re-execution family follows)
LEAN_MODULES = ["Sif.Props.C09"]
EXTRACT = [{"group": "replay", "passes": ["mapranges"]}]
FAMILIES = []
RULE = ""
TRUSTED_BASE = []
ASSUMPTIONS = []
UNPROVED = []
MANIFEST = {"text": "", "note": "", "technique": "", "design_ref": "4/C09"}
