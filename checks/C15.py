# C15 — liquidity removal requires a matured, unexpired, unconsumed unlock request
LEAN_MODULES = ["Sif.Props.C15"]
EXTRACT = []
FAMILIES = [
    {"name": "unlock", "family": "unlock", "group": "perm", "driver": "drv_unlock",
     "n_quick": 60000, "n_thorough": 400000, "seeds_thorough": 4},
]
RULE = ("unlock: L1 histories (sifapp.Setup, real clp message servers, one cached context per message, "
        "ctx.WithBlockHeight) of 160 messages each: unlock / cancel-unlock / remove-by-basis-points / remove-units / add by "
        "4 providers in 2 pools, heights advanced by 0..60 blocks or exactly onto L-1, L, L+C-1, L+C after one of the provider's "
        "requests, lock and cancel periods drawn from {0,1,3,50,10^6} (+ rare 2^62, 2^63-1, 2^63, 2^64-1 to exercise the int64 "
        "wrap of the model) and changed by the admin (UpdateRewardsParams) in 8% of the steps; per history a configuration is "
        "drawn: raw external:native ratio of each pool in {1:1, 100:1}, which pools are margin enabled (x/margin Params.Pools), clp "
        "EnableRemovalQueue on/off, RemovalQueueThreshold in {0, 0.1, 0.95, 1}, margin liabilities written into the margin pools "
        "(none / external 10% / external 5% + native 2%); the clp BeginBlocker/EndBlocker run once per new height; on one new "
        "height in six the pool creator funds the rewards buckets (MsgAddLiquidityToRewardsBucket) and the rewards epoch-end hook "
        "(Keeper.AfterEpochEnd, identifier `hour`) runs, in re-investment mode in two of three histories (wallet mode otherwise; rewards lock "
        "period 0..2): the units it adds to each record are an environment value for the model, the unlock lists must not move (model answer "
        "+ chk c15.genuine against the judge's request ledger); the outcome of the "
        "margin-health stage of every removal (pass / queue / block / panic) is computed on the pre-state with the implementation's own "
        "functions and given to the model, which must reproduce ErrQueued / ErrRemovalsBlockedByHealth as refusals that change nothing; "
        "every third history starts with a directed list-length script "
        "(lock period 2/3/10/50, cancel period 10^6; one provider files 15, 16, 17, 18, 31, 32, 33, 40, 64, 100 or 101 requests of 1..3 units "
        "one block apart, then requests half of its units two blocks later, then tries to remove exactly that half at the maturity of the "
        "newest small request, one block before the large request's own maturity, and at it); the admin RAISES the lock period by 1..47 blocks in a third "
        "of the parameter changes (requests matured under the old period are young under the new one); the judge keeps per provider the list "
        "of unlock requests the implementation ACCEPTED with the height at which the harness ran the message (chk c15.request), and every "
        "time any stored unlock list changes (any message, hook or parameter change) chk c15.genuine requires the stored units dated q to "
        "be within the units requested at q; chk c15.removereal judges every removal / decrease on the stored records cut down to those "
        "real requests; the units an add mints are taken from CalculatePoolUnits on the pre-state, not from before/after; after EVERY message and hook "
        "the records of all 5 providers of both pools are compared with their records before: any fall of anybody's units (gross of the "
        "computed mint), whatever caused it, is judged by c15.remove / c15.consume / c15.once like a removal, and any change of a record "
        "other than the signer's is shown to the model (obs); after every message the result "
        "class and the provider's stored record (units, unlock list) are compared with the Lean model, and 5 chk predicates are "
        "judged on the implementation's own before/after records; non-trivial = distinct accepted message")
TRUSTED_BASE = [
    "Lean 4.33.0 kernel; axioms propext, Classical.choice, Quot.sound (audited per theorem on every run)",
    "hand-written Lean model Sif/Model/Unlock.lean of UnlockLiquidity, CancelUnlockLiquidity, PruneUnlockRecords, "
    "UseUnlockedLiquidity, the unit bookkeeping of RemoveLiquidity / RemoveLiquidityUnits / AddLiquidity and UpdateRewardsParams; "
    "tied to the Go code only by differential execution against the real message servers",
    "the payout arithmetic of a removal (pool depths, coins, margin health, removal queue) is NOT in the model: the harness keeps "
    "pools deep, margin and the queue disabled, and any failure from there would show as class err.other (a correspondence break)",
    "registry / pool-existence guards of the removal handlers are taken as passed (C12 covers them)",
    "Go harness + line protocol + drv_unlock parser; the judge's ledger for each_unit_once is built by the driver from the "
    "implementation's answers",
    "cosmos-sdk store/CacheContext (a refused message leaves no write), protobuf round trip of the LP record",
]
ASSUMPTIONS = [
    "operating envelope for the meaning of 'matured'/'expired': heights >= 0, stored requests not from the future, L + C + h < 2^62 "
    "(beyond it int64(lockPeriod) wraps: theorem lock_period_wrap_observation records that a period >= 2^63 matures requests at once; "
    "UpdateRewardsParams validates nothing) — the chk predicate c15.remove claims nothing outside the envelope",
    "outstanding_le_units: block heights of the history do not decrease and are < 2^63",
    "units minted by AddLiquidity are an environment value (observed from the implementation)",
]
UNPROVED = [
    "No theorem covers the payout part of the removal handlers (whether a removal that passes the unlock check later fails for "
    "pool depth, margin health or the removal queue); such a failure only makes the removal refused, which is the safe direction.",
    "ProcessRemovalQueue is not modelled: on this tree it is unreachable (QueueRemoval is only called right before `return nil, "
    "types.ErrQueued`, an error, so the entry is rolled back — O5; genesis does not carry the queue). The model states that (a queued "
    "removal is a refusal that changes nothing: removal_queued_is_refused) and the harness, with the queue enabled in half of the "
    "histories, would see any unit change it caused (any_decrease_requires_matured is the theorem; c15.remove on every decrease the test).",
    "A panic of the payout calculation itself (CalculateWithdrawal{,FromUnits}, run by the handler before the unlock check) is an environment "
    "value too (`calcpanic:<pool units>`, computed by running the real function on the pre-state); the driver accepts it only when the stored "
    "facts explain it (the provider record holds 0 units — an add that mints 0 units leaves such a record and a removal by basis points then "
    "divides by zero — or the pool has 0 units); otherwise the model answers as if the calculation had passed, so a calculation that panics on "
    "ordinary inputs is a mismatch, not a prediction.",
    "The margin-health outcome (pass/queue/block/panic) is an environment value computed by the harness with the implementation's own "
    "CalculateWithdrawal*, ExtractDebt, CalculatePoolHealth, GetRemovalQueueThreshold, IsPoolEnabled, IsRemovalQueueEnabled.",
    "LPPD and margin hooks are not run by this family (the clp Begin/EndBlocker and the rewards epoch-end hook are); no reward periods / "
    "LPPD policies are configured here.",
    "No separate abstract-ledger state machine is defined: the refinement is stated per message (code decision with int64 wrap, "
    "aliasing and zero records = the spec's matured/expired/usable over mathematical integers) and per history (ledger invariants).",
]
MANIFEST = {
    "text": "Lean 4 theorems over an operation-by-operation model of the clp unlock bookkeeping (int64 wrap, pointer aliasing of "
            "UseUnlockedLiquidity, lingering zero records included): every accepted removal is covered by matured, unexpired requests "
            "of the provider (inside the envelope L+C+h<2^62) and consumes what it burns; along every history burned-under-lock + "
            "outstanding <= requested (no unit used twice) and outstanding <= units; lock period 0 never refuses for lack of requests; "
            "the periods current at removal time are the ones applied; a refused message changes nothing. Tied to the Go code by L1 "
            "differential histories on the real message servers and by judging the same decidable predicates on the implementation's "
            "own records.",
    "note": "Proved for all states/histories of the model; the model is tied to the code by testing only (correspondence). Trusted: "
            "Lean kernel (+propext, Classical.choice, Quot.sound), the hand-written model, harness/driver parsing, cosmos-sdk "
            "CacheContext and store. Payout arithmetic of removals, margin health and the removal queue are outside the model. "
            "Outside the envelope (lock period >= 2^63) the code matures requests at once — recorded as an observation, not checked.",
    "technique": "Lean 4 proof (invariants by induction over histories + per-message refinement to a spec over mathematical integers) "
                 "+ L1 differential correspondence",
    "design_ref": "4/C15",
}

# the unlock family also serves C02 (chk c02.units / c02.burn): those lines are judged by bin/check C02
CHK_PREDS = ["c15."]
