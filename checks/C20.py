# C20 — policy-driven issuance is bounded: ecosystem mint cap and AMM reward allocations
LEAN_MODULES = ["Sif.Props.C20"]
EXTRACT = [{"group": "disp", "passes": ["dispconsts", "mintcallers", "disphooks", "accureset", "blockshare", "migrations", "mintsource"]}]
FAMILIES = [
    {"name": "mint", "family": "mint", "group": "disp", "driver": "drv_issue", "n_quick": 6000, "n_thorough": 60000, "seeds_thorough": 3},
    {"name": "dispmsgs", "family": "disp", "group": "disp", "driver": "drv_disp", "n_quick": 600, "n_thorough": 6000, "seeds_thorough": 2},
    {"name": "bridgecredit", "family": "bridgecredit", "group": "disp", "driver": "drv_issue", "n_quick": 1500, "n_thorough": 15000, "seeds_thorough": 3},
    {"name": "restart", "family": "restart", "group": "disp", "driver": "drv_issue", "n_quick": 400, "n_thorough": 4000, "seeds_thorough": 3},
    {"name": "rwedits", "family": "rwedits", "group": "disp", "driver": "drv_issue", "n_quick": 3000, "n_thorough": 30000, "seeds_thorough": 4},
    {"name": "rewards", "family": "rewards", "group": "disp", "driver": "drv_issue", "n_quick": 6000, "n_thorough": 60000, "seeds_thorough": 4},
]
RULE = ("mint: real dispensation BeginBlocker on the real keeper/bank, block headers of chain id sifchain-1 / sifchain-testnet-1 / sifchain-devnet-1 / localnet / empty / another "
        "(also the genesis chain id of the full-app restart family), judged against the regenerated compiled-in 225 rowan per block and the 350,000,000 cap; block histories with the counter started 0..6 blocks below the cap "
        "(remainders 0, 1, perBlock-1, random), at the cap, above it, at 0, absent; ecosystem pool blocked (send fails) in half of the runs; "
        "coins arriving at the module account / pool in between. rewards: real clp EndBlocker over 1-3 sequential reward periods per schedule "
        "(lengths 1..12, gaps, allocation 0 / <30 / 1000 / up to 2^100, mod 0..6 and > length, distribute flag, default multiplier 0..2, one pool "
        "multiplier 0..2.4), four schedules in a row per chain (the accumulator left by one enters the next), 1-3 pools with changing depth incl. 0, "
        "providers joining/leaving (every pool keeps a provider), one provider blocked (its share is burned); a third of the chains 'tiny': one pool with 2-6 providers of equal units, "
        "distribute mode, allocation 1..3 base units per block or 1..40 per period; after every EndBlocker: created = paid to providers + credited to pools, module growth = pool credits. restart: full SifchainApp on a persistent DB through "
        "BeginBlock/EndBlock/Commit, counter started 1..6 blocks below the cap, two adjacent reward periods, application object re-opened from "
        "the DB after 1/3 of the blocks. dispmsgs: the C11 message histories with the total supply compared across every message. "
        "rwedits: the reward-period list EDITED while a period runs, through real MsgAddRewardPeriodRequest messages (ValidateBasic, clp.NewHandler on a "
        "CacheContext, delivered in a block before its EndBlocker): a running period with mod 2..10 cut between two distribution blocks (accumulator "
        "non-zero) by a replacing set starting at the cut / 1, 2, 5 blocks later, by a set [B, A, C] whose first period overtakes A and outlasts it, by "
        "the same overlapping set from the beginning, by switching rewards off and adding a period later; plus the F27 histories (tag ...midflight): an "
        "overlapping period listed AFTER the running one taking over when that one ends between two distribution blocks, and an accepted edit changing "
        "the running period's own allocation / mod / end, and a list that keeps the running period unchanged (same id) but puts an overlapping, earlier-started period ahead of it (the cut block a distribution block of that period), preceded by two directed small-number histories of that kind; per-period totals kept per "
        "(start,end,allocation,mod) of the period that is current by the harness's own ledger of submitted lists (first period of the last accepted list covering the height). "
        "extreme period shapes (tag ...extreme; a third of the rwedits chains and two directed ones): lengths 2^61..2^64-1 (end = MaxInt64, MaxUint64, "
        "start+4e18-1, start+2^61, random 62-64 bit; start 0, 1, at / right after the current height), allocation = k*length + {-4..+4} (k = 1, small, "
        "random, maximal) or near 2^128-1, one pool of multiplier 1 so that the per-block bound floor(allocation/length)*mod is tight, first 6 blocks. "
        "software upgrades in the restart family: scenarios none / one upgrade of a chain whose stored module version map is the released one (dispensation 2, clp 5) / "
        "an upgrade with no version change / two upgrades; in two thirds of the upgrade chains two OVERLAPPING reward periods sit around the upgrade height (P0 listed first, "
        "ending in the block before the upgrade on a non-distribution block of its mod, P1 listed after it and current from the upgrade block on; tag ...per-block.after-upgrade); the plan is scheduled with UpgradeKeeper.ScheduleUpgrade two blocks ahead, at the upgrade height the app is "
        "re-opened from its DB as the new release (version.Version = plan name, so the app's own SetupHandlers registers the RunMigrations handler) and the x/upgrade "
        "BeginBlocker applies it; judged: per-block mint step across the upgrade block (tag app.upgrade.mint-state-preserved) and counter = initial + created <= cap after every block. "
        "bridgecredit: block histories (dispensation BeginBlocker, messages on a CacheContext, clp EndBlocker with a reward period) with ethbridge claims through the real "
        "handler by 2-4 bonded whitelisted validators (powers 40/40/20, 34/33/33, 25x4, 60/30/10, 70/20/10, 50/50; sometimes one not whitelisted) on 2-5 events (burn of rowan, "
        "lock of eth, lock of a token called rowan): first witnesses, the witness reaching consensus, late witnesses, duplicates while pending, conflicting amounts, and identical "
        "claims re-sent after finalisation (a third of all claims); judged per transaction (rowan created only by the claim that takes its prophecy from not-final to SUCCESS, "
        "exactly the credited amount) and after every block (supply delta = counter delta + rewards created + approved credits read back from the oracle keeper, each prophecy once). "
        "bank parameters in the restart family: in a quarter of the blocks the bank's SendEnabled parameters are rewritten (rowan frozen by entry, by default, or enabled again); after every BeginBlock: "
        "eco-pool delta = counter delta and the dispensation module account unchanged (tag app.beginblock.mint-reaches-eco-pool). Only this family runs the WIRED application (keepers as app.go hands them to "
        "the modules); the keeper-level families (mint, rewards, rwedits, bridgecredit, dispmsgs) call hooks and handlers on the app's exported keepers with the plain bank keeper and cannot see wrappers introduced in app wiring. "
        "non-trivial = a block that created coins / an accepted message")
TRUSTED_BASE = [
    "Lean 4.33.0 kernel; axioms propext, Classical.choice, Quot.sound (audited per theorem on every run)",
    "hand-written Lean models of x/dispensation BeginBlocker + mint controller and of the reward part of x/clp EndBlocker, tied by differential execution against the real keepers / the real app",
    "the pool split of a block's reward distribution (calcPoolDistribution, sdk.Dec; property C18) is an environment value of the model; only the running clamp of CollectPoolRewardTuples and mint/transfer/burn-remainder are modelled",
    "the fact translator passes dispconsts, mintcallers (syntactic go/ast: calls recognised by selector name), disphooks, accureset, blockshare, migrations (callee closure by function name, 4 levels, within the module's own packages)",
    "Go harness + line protocol + driver parser",
    "cosmos-sdk x/bank (modelled: mint, send, burn, blocked recipients), module.Manager (runs BeginBlock once per entry of SetOrderBeginBlockers), baseapp/IAVL persistence (exercised by the restart family)",
]
ASSUMPTIONS = [
    "starting counter <= cap for mint_counter (above the cap nothing is minted: mint_nothing_after_cap)",
    "ecosystem pool address != dispensation module address (mint_held)",
    "reward periods inside the envelope of DESIGN section 5 (start <= end < 2^62, mod < 2^62, allocation < 2^128 — enforced by ValidateBasic after F5/F13) "
    "arbitrarily overlapping and arbitrarily edited between blocks (rewards_*_all_histories); histories start at a height >= 1 with an accumulator within the invariant accuInvR (e.g. empty)",
    "per-block theorem: the accumulator invariant holds at the first block of the history (e.g. empty accumulator, or the history contains the period's first block)",
    "cosmos x/mint (SDK inflation module, also wired into the app) is outside /repo/x and /repo/app and not covered by cap_const; the envelope excludes a token registry that aliases a foreign voucher to rowan (ibctransfer helper)",
]
UNPROVED = [
    "bridge credits: whether consensus is reached (the oracle's threshold, whitelist, duplicate and conflicting-claim logic) is C05/C06 and enters the C20 model as environment values; the C20 theorem (bridge_credit_once) is about the rule that a finalised prophecy is never credited again, tied by the bridgecredit family.",
    "'every rewarded coin ends up in a pool or a provider's account': judged on the implementation after every EndBlocker (rewardsAccountedOK: created = paid to providers + credited to pools; module growth = pool credits) and trivially true of the issuance model (rewards_accounted_model: the transfer / burn outcome is an environment value); the per-provider split and pool solvency are C18 / C01. Observation: in distribute mode a pool WITHOUT any provider gets its reward credited to its native balance while the coins are burnt with the undistributed remainder — only reachable from a pool that has units but no provider, which C02's units invariant excludes; the generator keeps a provider in every pool.",
    "the `_partial` theorems (rewards_per_block/_per_period on fixed non-overlapping schedules; rewards_*_edits_partial under cleanSwitches) are about the model of the tree with only F10 repaired and are kept with their hypotheses and the decide'd witnesses overlap_residual / edit_midflight_residual; the claims for the current tree are rewards_per_block_all_histories / rewards_per_period_all_histories (no hypothesis on switching). The cumulative clause (rewards_entitlement) is stated for the F10-level model on a fixed list only.",
    "cap_const is a syntactic call-site fact (go/ast): an indirect mint through a new wrapper defined outside x/ and app/, or through reflection, is not seen. The dynamic side (messages_create_nothing + supply check on every dispensation message) covers the dispensation messages only; admin messages of other modules are C08/C10.",
    "restart: proved as 'the step functions are functions of the stored state' (mint_restart, rewards_restart) and exercised on the real app with re-opened DB; IAVL/commit durability itself is trusted.",
    "no-panic along whole reward histories is proved per block (rewards_step_no_panic, accumulator < 2^255), not as a history theorem.",
]
MANIFEST = {
    "text": "Lean 4 theorems: (a) ecosystem mint — for every cap, per-block amount, starting counter <= cap, number of blocks, bank state and "
            "send failure pattern: counter_n = min(c0 + n*perBlock, cap), exactly the remainder in the last block, nothing afterwards, counter "
            "increase = supply increase (also when the send to the ecosystem pool fails), minted coins held by pool or module account; "
            "(b) AMM depth rewards, model of the repaired EndBlocker — per block (nothing off distribution blocks, <= floor(alloc/len) in a "
            "period's first block, <= mod*floor(alloc/len) later), per period (<= allocation), cumulative (<= sum of per-block entitlements), for "
            "all schedules of non-overlapping periods in the envelope, all pool splits/transfer failures/burns, and — with the accumulator kept in the "
            "model state across AddRewardPeriod edits — for ALL sequences of (edit | block) steps, overlapping lists included, on the model of the tree "
            "with F27 repaired (rewards_per_block_all_histories, rewards_per_period_all_histories); a decide'd witness that the "
            "pinned tree violates the per-block and per-period clauses (F10); (c) regenerated facts closed by decide: every MintCoins / "
            "SetMintController / AddMintAmount / DistributeDepthRewards call site, every KVStore write of x/dispensation, every reference to "
            "MintControllerPrefix, the cap literal = 350,000,000 rowan, the dispensation module registered exactly once among the begin blockers (F22); "
            "plus messages_create_nothing for the dispensation messages. Tied by differential execution of the real BeginBlocker, the real clp "
            "EndBlocker, the full app with DB restarts, with the predicates judged on the implementation's observations.",
    "note": "Defects reproduced and repaired: F27 (new: a reward period that becomes current in mid-flight — overlapping period listed after the running one, or an edit of the running period's own parameters — paid out its predecessor's accumulator; fixes/F27.diff: EndBlocker keeps the accumulator only for the period that covered the previous height, AddRewardPeriod zeroes it unless that period is unchanged), F10 (reward accumulator carried across a period boundary; fixes/F10.diff) and new F22 (dispensation "
            "BeginBlocker registered twice in app.go: 450 instead of 225 rowan per block; fixes/F22.diff). Trusted: Lean kernel, hand-written "
            "models (correspondence only), the per-pool split as environment value, syntactic call-site extractor, x/bank, module.Manager, "
            "IAVL. Not proved: destination of rewarded coins (C01/C18), overlapping/replaced reward periods (residual observation), see unproved_statements.",
    "technique": "Lean 4 proof (induction over block histories) + regenerated facts (decide) + differential correspondence (model vs real Go, L1 and full app with restarts)",
    "design_ref": "4/C20",
}
