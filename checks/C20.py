# C20 — policy-driven issuance is bounded: ecosystem mint cap and AMM reward allocations
LEAN_MODULES = ["Sif.Props.C20"]
EXTRACT = [{"group": "disp", "passes": ["dispconsts", "mintcallers", "disphooks"]}]
FAMILIES = [
    {"name": "mint", "family": "mint", "group": "disp", "driver": "drv_issue", "n_quick": 6000, "n_thorough": 60000, "seeds_thorough": 3},
    {"name": "dispmsgs", "family": "disp", "group": "disp", "driver": "drv_disp", "n_quick": 600, "n_thorough": 6000, "seeds_thorough": 2},
    {"name": "restart", "family": "restart", "group": "disp", "driver": "drv_issue", "n_quick": 400, "n_thorough": 4000, "seeds_thorough": 3},
    {"name": "rewards", "family": "rewards", "group": "disp", "driver": "drv_issue", "n_quick": 6000, "n_thorough": 60000, "seeds_thorough": 4},
]
RULE = ("mint: real dispensation BeginBlocker on the real keeper/bank, block histories with the counter started 0..6 blocks below the cap "
        "(remainders 0, 1, perBlock-1, random), at the cap, above it, at 0, absent; ecosystem pool blocked (send fails) in half of the runs; "
        "coins arriving at the module account / pool in between; non-trivial = a block that minted")
TRUSTED_BASE = [
    "Lean 4.33.0 kernel; axioms propext, Classical.choice, Quot.sound (audited per theorem on every run)",
    "hand-written Lean model of x/dispensation BeginBlocker + mint controller, tied by differential execution against the real keeper",
    "Go harness + line protocol + driver parser",
    "cosmos-sdk x/bank (modelled: mint, send, blocked recipients), exercised by the correspondence",
]
ASSUMPTIONS = ["starting counter <= cap for mint_counter (above the cap nothing is minted: mint_nothing_after_cap)",
               "ecosystem pool address != dispensation module address (mint_held)"]
UNPROVED = []
MANIFEST = {
    "text": "under construction",
    "note": "under construction",
    "technique": "Lean 4 proof + differential correspondence (model vs real Go) + regenerated facts",
    "design_ref": "4/C20",
}
