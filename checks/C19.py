# C19 — fee floors and validator-concentration rules hold however a message is wrapped
LEAN_MODULES = ["Sif.Props.C19"]
EXTRACT = [{"group": "ante", "passes": ["ante"]}]
FAMILIES = [
    {"name": "antefee", "family": "antefee", "group": "ante", "driver": "drv_ante", "n_quick": 20000, "n_thorough": 150000, "seeds_thorough": 3},
    {"name": "antecom", "family": "antecom", "group": "ante", "driver": "drv_ante", "n_quick": 15000, "n_thorough": 100000, "seeds_thorough": 3},
    {"name": "antetx", "family": "antetx", "group": "ante", "driver": "drv_ante", "n_quick": 1500, "n_thorough": 12000, "seeds_thorough": 3},
    # genesis transactions ARE inside the property's quantifier ("every transaction the chain executes"): x/genutil delivers every
    # gentx through BaseApp.DeliverTx, the full ante chain runs at height 0, and genutil does not restrict what a gentx contains
    {"name": "antegen", "family": "antegen", "group": "ante", "driver": "drv_ante", "n_quick": 1, "n_thorough": 1, "seeds_thorough": 1},
]
CHK_PREDS = ["c19."]
RULE = ("antefee: the real AdjustGasPriceDecorator.AnteHandle on transactions of 0-4 top-level messages drawn from all 89 message types the app "
        "registers (half of them from the nine floored kinds), each possibly an authz.MsgExec tree of depth <= 3 (10%: <= 6), fee coins around "
        "each floor (0, 1, 0.01, 0.1 rowan, SubmitProposalFee, +-1, random), other/duplicate/look-alike denoms, SubmitProposalFee default or "
        "0 / random / near a floor; every registered type also alone and wrapped once. "
        "antecom: the real ValidateMinCommissionDecorator.AnteHandle against staking-keeper state with 0-25 validators (bonded/unbonded/unbonding, "
        "tokens 0..2^100), create/edit validator with rates around 5%, (re)delegations with amounts within +-2 of the 6.6% boundary, unknown and "
        "malformed validator addresses, trees as above. antetx: full app, signed txs through DeliverTx, one per block, 20 validators of 5% each: "
        "sends/multisends/proposals, validator edits/creations, (re)delegations, direct and wrapped to depth 3, a third of the delegations split over 2-3 messages of one "
        "transaction (one of them wrapped) with the sum at the boundary; a quarter of the transactions: a fresh account creates its validator (self-delegation a) and delegates b to it in the "
        "same transaction (direct / nested), a+b at the 6.6% boundary, b alone far below; executed effects observed. antecom also: one transaction in six creates a validator (three fresh "
        "addresses, upper- or lower-case) and then delegates / redelegates to it, directly or nested, with value + amount around the boundary. "
        "Jailed validators: antecom - a quarter of the validators are jailed, a third of the delegations are signed by the target's own operator account; antetx - a fifth of the transactions delegate to one of three validators "
        "jailed (staking keeper Jail, as a downtime slash does) by its operator (2/3) or somebody else, 1e13 below / at / above the boundary, direct or wrapped, half of the executed self-delegations followed by MsgUnjail; "
        "the cap predicate is judged on the target's tokens over bonded + not-bonded stake whatever its status. "
        "antegen: 22 chains started through the real InitChain from genesis files carrying gentxs (x/genutil -> DeliverTx at height 0): MsgCreateValidator at 1%, 5%-1e-18, 5%, 10% commission, "
        "direct and wrapped once / twice in MsgExec; MsgSend with fee 0 / 0.1 rowan - 1 / 0.1 rowan, direct and wrapped; 20 gentx validators of 5% each plus a gentx MsgDelegate 1e13 below / above the 6.6% "
        "boundary, direct and wrapped twice. InitChain panicking = refused; otherwise the created validator's commission, the fee, the target's tokens/total are judged by the same predicates. "
        "non-trivial = distinct operation line (distinct transaction and state).")
TRUSTED_BASE = [
    "Lean 4.33.0 kernel; axioms propext, Classical.choice, Quot.sound (audited per theorem on every run)",
    "fact translator extract/ante (go/ast, ~450 lines): its recognition of the if/else-if chain, of sdk.MaxInt vs plain assignment, of the "
    "recursive authz.MsgExec unwrap (flattenMsgs shape / case *authz.MsgExec recursion); unrecognised shapes are emitted as unknown/none and fail the obligations",
    "hand-written Lean model of the parts the translator does not cover (string matching, the fold, the rowan-fee loop, comparisons, sdk.Dec Quo/Mul of "
    "the projected voting power), tied by differential execution of the real decorators (families antefee, antecom)",
    "Go harness + line protocol + drv_ante parser; the harness's reading of staking/bank state (the same keeper calls the decorator makes)",
    "cosmos-sdk v0.45.16 modelled, not verified: authz.MsgExec.GetMessages returns exactly the wrapped messages and authz dispatches exactly those; "
    "baseapp runs the ante chain before any message; x/staking executes a (re)delegation of exactly Amount; sdk.Dec/sdk.Int arithmetic",
    "type URLs are ASCII (strings.ToLower = per-character ASCII lowering)",
]
ASSUMPTIONS = [
    "SubmitProposalFee >= 0 (sdk.Uint)",
    "fee coin amounts >= 0 (tx.ValidateBasic); staking amounts >= 0 (MsgDelegate/MsgBeginRedelegate.ValidateBasic, also applied by MsgExec.ValidateBasic to wrapped messages)",
    "validator tokens and pool balances >= 0",
    "clause 3: every (re)delegation is judged against the stake as it will be when it executes = the state the transaction starts from plus what its earlier messages add "
    "(pendingStake, F23 repair); that the earlier messages execute exactly as announced is staking's behaviour (modelled, observed by family antetx)",
    "sums of admitted amounts stay below 2^255 (sdk.Int.Add would panic; the model uses unbounded integers)",
]
UNPROVED = [
    "a MsgCreateValidator's own self-delegation is not capped (by design: the rule is about delegations and redelegations); it counts as stake of the new validator for every later (re)delegation of the same transaction",
    "a redelegation's source validator loses tokens and a MsgUndelegate / MsgCreateValidator of the same transaction changes nobody's share upward; these are ignored "
    "(conservative): the theorem bounds every validator that RECEIVES stake through the transaction by tokens-before + everything the transaction adds to it",
    "that DeliverTx runs these two decorators on every transaction and that authz executes exactly the wrapped messages is modelled (trusted base), exercised by family antetx, not proved",
    "fee floors of message kinds the property does not name (e.g. MsgAddLiquidityToRewardsBucket, which the code also floors) are not part of the theorem",
]
MANIFEST = {
    "text": "Lean 4 theorems fee_floor, commission_floor(+_edit), power_cap(+_redelegate), staking_rules over a message tree with authz.MsgExec nested to any depth "
            "(structural induction), stated over the table regenerated from app/ante/ante.go and commission.go on every run (substrings, amounts, overwrite-vs-max, "
            "MsgExec unwrap, 5% and 6.6%), including the exact sdk.Dec rounding of the 6.6% test; tied by differential execution of the real decorators over all 89 "
            "registered message types and by judging executed effects of signed transactions through DeliverTx with the theorems' own predicates.",
    "note": "Proved for all transactions/nestings/fees/stakes: accepted by the modelled decorators => floors, 5%, 6.6% hold for every wrapped message. Tested only: that the "
            "model equals the Go decorators (differential), that DeliverTx applies them and authz executes exactly the wrapped messages (L2 effects). Trusted: Lean kernel, "
            "fact translator's shape recognition, harness, cosmos-sdk. The 6.6% rule is cumulative over the messages of a transaction (pendingStake).",
    "technique": "Lean 4 proof over regenerated facts + differential correspondence (model vs real Go) + L2 executed-effect predicates",
    "design_ref": "4/C19",
}
