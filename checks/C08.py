# C08 — privileged messages have no effect unless signed by the matching admin role
LEAN_MODULES = ["Sif.Props.C08"]
EXTRACT = [{"group": "auth", "passes": ["auth"]}]
FAMILIES = [
    {"name": "auth", "family": "auth", "group": "auth", "driver": "drv_auth", "n_quick": 12000, "n_thorough": 120000, "seeds_thorough": 4},
    {"name": "authtx", "family": "authtx", "group": "auth", "driver": "drv_auth", "n_quick": 2500, "n_thorough": 10000, "seeds_thorough": 3},
]
CHK_PREDS = ["c08."]
RULE = ("auth (L1): the real handlers obtained from the app's MsgServiceRouter (x/admin, tokenregistry, clp, margin, ethbridge) on a cached context per message, written back only on success. "
        "Phase 1: all 28 non-table-changing privileged handlers x 14 signers (one per admin role, one with two roles, a second ADMIN, the oracle admin, "
        "two clp-whitelist members, three without any role). Phase 2: random AddAccount/RemoveAccount (role x account drawn from 6 x 14; signer mostly an ADMIN holder, "
        "1/6 anybody) each followed by six messages of random privileged handlers, three of them signed by the account just granted/revoked. Payloads valid. "
        "Every line also carries a hash over all key/value pairs of all 23 mounted IAVL/DB stores before and after the handler. "
        "authtx (L2): the full app through BeginBlock/DeliverTx/EndBlock/Commit with signed zero-fee transactions, one per block: every privileged handler (29: MsgUpdateSwapFeeParams is "
        "subject to the 0.1-rowan ante floor and left to L1) direct and wrapped in authz.MsgExec by its role holder and by a stranger, plus spoofed (msg.Signer = a role holder, "
        "transaction signed by a stranger; directly and as MsgExec without grant); then the table evolving through AddAccount/RemoveAccount transactions. Hash over all stores but auth. "
        "Chain id is a dimension: worlds 0 and 2 run under chain id sifchain-1 (main net), world 1 under one of sifchain-testnet-1, \"\", foochainid, sifchain-devnet-1 (L1: the context's chain id; L2: block header and sign doc). "
        "Accounts: the 14 matrix accounts plus every address of x/admin/types ProdAdminAccounts()/InitialAdminAccounts(), read at run time (5 on this tree); at L2 nobody has their keys, their messages are run through app.Simulate with a forged signature. "
        "Three worlds per run and family (a `reset` line between them): (2) sparse: ADMIN for two accounts, ETHBRIDGE only for a compiled-in address, NO stored holder for any other role - full matrix (L1) / all compiled-in addresses x all handlers (L2), "
        "then the last ETHBRIDGE holder is removed and tries again; the world ends with an ADMIN endgame: the current ADMIN holders are removed one by one by the one standing last (each removed account's very next "
        "message is sent), the last retires itself and then tries SetParams / AddAccount(ADMIN, itself) / RemoveAccount, every former holder tries once more; (0) every role store populated, (1) the single-value admin field EMPTY (oracle admin_address \"\", as in the default oracle genesis; no message can "
        "set it) and a clp whitelist listing only a stranger (the clp genesis refuses an empty one) - in world 1 both families run the full matrix handler x 14 accounts, so every role holder tries the messages of every other role. "
        "Margin world (both worlds, both families; set-up through keepers and the real Open/Swap handlers): pool xxx 1e26/1e26 enabled for margin, safety factor 1.05, a trader's two 2x LONG positions, a whale swap that more than halves the "
        "price - both positions unhealthy, so MsgForceClose (position 1) and MsgAdminClose (position 2) SUCCEED for a MARGIN holder and the guard is the only thing that refuses. L1: epoch length 10, height 13; all 14 accounts probe both "
        "messages on a branch that is never written (sim lines, exact). L2: epoch length 1e6 (no block is an epoch boundary); the 12 accounts without MARGIN send both messages as signed transactions (direct / wrapped), then one holder each closes them. "
        "Later in the histories the positions are gone and the two handlers are judged by chk lines only. "
        "Worlds: the three role stores come from the genesis file (InitGenesis): x/admin entries for the set-up roles in canonical lower case plus, each with probability 3/4, entries in other "
        "spellings (MARGIN for #11 [always], ADMIN for #12, CLPDEX for #13, TOKENREGISTRY for #5 in upper case; PMTPREWARDS for a non-address; ETHBRIDGE for a mixed-case, invalid spelling); the oracle admin "
        "and one clp-whitelist member in upper or lower case. The cfg lines give the x/admin table from the RAW store keys. Directed: a genesis upper-case entry is used, 'removed' under the canonical "
        "spelling (accepted), used again; export->import round trips of the x/admin state (ExportGenesis, wipe, InitGenesis) at the start and 1 iteration in 40 (L1) / once (L2). "
        "Spellings: bech32 is case-insensitive, so every account also has an all-upper-case spelling. AddAccount/RemoveAccount name the account, independently per message, in lower case (5/8), "
        "in upper case (2/8) or by a string that is no address (1/8) - so roles get granted under one spelling and removed under another; the Signer field (1 message in 5) and the other "
        "address-typed payload fields (WhitelistedAddress, CethReceiverAccount, CosmosReceiver, Validator; 1 in 4) use the upper-case form; directed histories grant/use/remove/use in lower case, "
        "in upper case, and grant-lower/remove-upper/use/remove-lower/use. "
        "Dropped state branches (1 iteration in 4, both families): a transaction by an ADMIN (sometimes by anybody) [AddAccount or RemoveAccount(role, account); SetParams (a role lookup); optionally a "
        "lookup for another role; a message that fails behind the guard] which fails as a whole, or the same messages merely simulated (L1: a CacheContext never written; L2: app.Simulate with a "
        "signature forged by a stranger) - then, in a later transaction, a message of that account to a handler asking for that role. The model is exact: a failed or simulated transaction changes nothing. "
        "Every single-message line also carries what the RAW key/value pairs of the admin, oracle and clp stores say the signer holds (chk c08.stored: accepted => held as stored); "
        "failed multi-message transactions at L2 carry the multistore hash (chk c08.txatomic). "
        "After every accepted RemoveAccount the real IsAdminAccount is asked whether the decoded account still holds the role (chk c08.removed). "
        "non-trivial = distinct (handler, signer, payload) message line.")
TRUSTED_BASE = [
    "Lean 4.33.0 kernel; axioms propext, Classical.choice, Quot.sound (audited per theorem on every run)",
    "fact translator extract/auth (go/ast, ~650 lines): its notions of 'state-writing call' (store.Set/Delete, non-getter methods of keepers outside the repository, "
    "intra-repo callees followed to depth 3, name prefixes for unresolved methods), of 'top-level guard' (if !AUTH(..) { ..return .., <non-nil err> } as a top-level "
    "statement of the handler, or of a callee whose error the handler returns), of non-nil error expressions (Err* values, Wrap of them, errors.New/Errorf), and its "
    "tracing of the signer through AccAddressFromBech32 and callee parameters; unrecognised shapes become `unknown` and fail the obligations",
    "the abstract handler model (statements, guard, body) is a model of Go control flow for the shapes the translator accepts; tied to the real handlers by the matrix run",
    "Go harness + line protocol + drv_auth; multistore hash over the stores of rootmulti.Store.GetStores() of type IAVL/DB",
    "cosmos-sdk: CacheContext isolates a message's writes; baseapp keeps them only on nil error (modelled as `deliver`)",
]
ASSUMPTIONS = [
    "IsAdminAccount compares the stored address strings with AccAddress.String() (canonical lower case); valid bech32 spellings are single-case, so canonical = lower-cased",
    "the oracle admin account and the clp decommission whitelist are set only by genesis (no message changes them)",
    "the canonical string of the account a spelling denotes (AccAddressFromBech32(..).String()) is an environment value supplied by the harness from cosmos-sdk's bech32 code",
]
UNPROVED = [
    "an ABSENT clp whitelist key is covered by the theorem absent_whitelist_authorises_nobody only: the clp genesis panics on an empty whitelist, so no world has it",
    "entries put into the role table by genesis (not by a message) may be spelled non-canonically; they never authorise anyone (fact adminCompare = stringEq, exercised by the genesis worlds) and "
    "cannot be removed by message (F24 repair rejects the spelling); export/import round trips are exercised for x/admin only, not for the oracle admin / clp whitelist",
    "that each real handler is an instance of the abstract 'statements; guard; body' model with the recorded statement kinds is established by the syntactic translator and "
    "exercised by the matrix (result class + whole-multistore hash), not proved from Go semantics",
    "bodies of the handlers after the guard (what an authorised message does) are not modelled here, except AddAccount/RemoveAccount on the role table",
    "ante-level effects of a refused transaction (fee deduction, sequence increment) are outside this property (excluded by its statement)",
    "authz grants: a role holder who grants a MsgExec authorisation to another account delegates its role for that message type by design; not modelled, not exercised",
]
MANIFEST = {
    "text": "Lean 4 theorems: guard_first_no_effect / refused_no_effect_delivered (any handler whose guard precedes every write cannot change state for a refused signer; over an "
            "abstract handler semantics, any state type), roles_do_not_leak, removal_immediate/removal_exact/grant_*/removal_then_refused over the x/admin role-table model for all "
            "tables and histories, and the 30-handler table closed by `decide` over records regenerated from the six msg servers on every run (guard first, expected store and role, "
            "guard applied to the field GetSigners() returns, non-nil error on refusal; any new handler containing an authorisation call must satisfy the same). Tied by a matrix run of "
            "the real msg servers x 14 signer classes x evolving role table with result class and whole-multistore hash compared against the Lean role-table model.",
    "note": "Proved: the generic no-effect theorem, the role-table algebra, the table obligations over generated facts. Tested only: that the Go handlers behave as the records say "
            "(accept/refuse equals the model, refused => multistore hash unchanged) on the generated matrix. Trusted: the syntactic fact translator's classification of statements and guards, "
            "harness, cosmos-sdk store/cache semantics.",
    "technique": "Lean 4 proof over regenerated facts + differential correspondence (role-table model vs real msg servers) with whole-state hashing",
    "design_ref": "4/C08",
}
