# C01 — AMM solvency
LEAN_MODULES = ["Sif.Props.C01"]
EXTRACT = []
FAMILIES = [
    {"name": "ammdir", "family": "ammdir", "driver": "drv_amm", "n_quick": 1, "n_thorough": 1},
    {"name": "amm", "family": "amm", "driver": "drv_amm", "n_quick": 2500, "n_thorough": 20000, "seeds_thorough": 4},
    # margin processing (open / close / admin close / interest / liquidation, fund parameters): the margin family of
    # C13 judges the backing identity of C01 on the keeper's and bank's dumps (chk c01.marginbacking)
    {"name": "margin", "family": "margin", "group": "margin", "driver": "drv_margin", "n_quick": 60000, "n_thorough": 400000, "seeds_thorough": 2},
]
RULE = ("amm: random L1 histories (60 ops each: create/add sym+asym/remove bps+units/swap 3 routes/bucket/epoch/endblock with LPPD and "
        "depth rewards/decommission/policy changes) on the real clp keeper; ammdir: directed histories of DESIGN 4/C01 (D26: two provider-distribution periods sharing a block — the first listed one is in force); "
        "after every op the full state is compared with the model and Spec.C01.solvent is judged on the implementation's dump; "
        "non-trivial = a distinct message or hook that succeeded; margin: the L1 margin histories of C13 (real margin and clp keepers), where after every message and hook the exact backing identity (clp module balance = sum of pool balance + custody, per token) is judged by Spec.C13.backingOK")
TRUSTED_BASE = [
    "Lean 4.33.0 kernel; axioms propext, Classical.choice, Quot.sound (audited per theorem on every run)",
    "hand-written Lean model of the clp handlers and hooks (lean/Sif/Model/Clp), tied by state-for-state differential execution against the real keeper",
    "Go harness + line protocol + driver parser; x/bank, baseapp cache-context discipline (modelled)",
]
ASSUMPTIONS = ["removal queue disabled and removal lock period 0 in the correspondence histories (pools may be margin-enabled and carry liabilities / custody; liquidity protection on or off, any threshold asset)",
               "map iterations modelled in sorted order (order-independence is C09)"]
UNPROVED = [
    "clp.EndBlocker is proved solvent under EndBlockOK: LPPD block rate in [0,1] (enforced by ValidateBasic) and, in distribute mode, every rewarded pool has a provider record; the latter is an invariant of reachable states (the last provider can never withdraw 100%: ErrPoolTooShallow) argued in DESIGN.md, not proved; without it the code records a reward on the pool while the coins are burned",
    "margin open/close/interest messages are outside the clp model slice of the theorems (custody and liabilities enter as configured pool fields); for them the backing identity is judged on every state of the margin family (chk c01.marginbacking), not proved",
    "exact-equality clause: proved for every history of user messages (create, add, remove, remove-units, swap on both routes, bucket funding — messages_keep_slack_partial, reachable_exact_messages_partial: from genesis the module account holds exactly the recorded amounts); for decommissions (remainder <= the refund budget) and for the block hooks (minted rewards that cannot be paid are burned again) the equality is judged on every implementation state (chk c01.exact), not proved (Exact_Statement is the full statement)",
]
MANIFEST = {
    "text": "Solvency invariant (module balance covers pools + custody + buckets for every token) proved in Lean for every history of AMM messages and hooks over an exact model of the clp handlers; model tied to the Go keeper by state-for-state differential execution; the invariant predicate itself judged on every implementation state.",
    "note": "Trusted: Lean kernel (+3 standard axioms), hand-written model tied only by the correspondence, harness/driver, x/bank semantics. Margin messages are out of this slice (custody enters as configured pool fields).",
    "technique": "Lean 4 invariant proof by induction over operations + differential correspondence",
    "design_ref": "4/C01",
}
CHK_PREDS = ["c01."]
