# C12 — token-registry permissions gate every AMM operation and IBC export
LEAN_MODULES = ["Sif.Props.C12"]
EXTRACT = [{"group": "perm", "passes": ["perms", "lookup", "settoken"]}]
FAMILIES = [
    {"name": "perm", "family": "perm", "group": "perm", "driver": "drv_perm",
     "n_quick": 3000, "n_thorough": 40000, "seeds_thorough": 3},
]
RULE = ("perm: L1 on the real clp / tokenregistry message servers and the real ibctransfer wrapper (sifapp.Setup, every trial on a "
        "discarded cache of a base state with two pools). (a) exhaustive matrix: 13 message shapes (CreatePool, RemoveLiquidity, "
        "RemoveLiquidityUnits, AddLiquidity symmetric / selling native (two shapes) / buying native (two shapes), Swap rowan->ext, "
        "ext->rowan, ext->ext, Transfer amount>0 and amount 0) x entry absent or present with each of the 32 subsets of "
        "{CLP, IBCEXPORT, IBCIMPORT, DISABLE_BUY, DISABLE_SELL} for EACH token the message names (33x33 for two-token messages) x "
        "unit_denom in {empty, self, other} for transfers; (b) n random trials: random registries (duplicates, aliases, shuffled) set "
        "through MsgSetRegistry, then 1-4 rounds of [MsgRegister | MsgDeregister] + one message; (c) L0: GetLiquidityAddSymmetryState "
        "on ratios at and around equality; (d) 2+n/60 transaction histories of 45 transactions on a chain whose committed state evolves: "
        "each transaction runs ALL its messages on ONE CacheContext, stops at the first failing message and is written back only if all "
        "succeeded and it is not a simulation (baseapp runMsgs); shapes [edit, message rigged to fail after the guards], [edit, message], "
        "[1-3 messages], [edit], simulated [edit(, message)]; four of five transactions share the block height of their predecessor; (e) unregistered denoms that other entries name: "
        "8 bank denoms (funded; 2 of them with a pool and an LP) that appear in the registry ONLY as the base_denom / unit_denom / "
        "ibc_counterparty_denom / display_name / display_symbol / external_symbol of an IBC-voucher shaped entry (denom ibc/<hash>) or of "
        "an ordinary entry, or are prefixes / suffixes / case variants of registered denoms (cusd, cusdcx, Cusdc, CUSDC, owan): every "
        "message kind and swap route naming them x each of those fields (and all at once) x carrier with full permissions / random "
        "permissions x the named denom having no entry / an own entry without / with permissions, plus n/4 random ones; one message in "
        "five of the transaction histories names such a denom and a quarter of their edits are voucher shaped; (f) re-registration of an "
        "ALREADY registered denom (cusdc with a pool, cdash without, rowan) through MsgRegister with an empty (nil and zero-length), "
        "shrunk, grown or identical permission list, changed decimals, changed unit denom (13 shapes), followed at once by every gated "
        "message on that denom. (g) pools carrying margin liabilities (written on the "
        "stored pool as x/margin's Borrow leaves them; 4 fixed and n/6 random configurations), where the raw balance ratio and the depth "
        "ratio CalculatePoolUnits classifies by differ: adds exactly at the raw ratio, exactly at the depth ratio, at three points strictly "
        "between them, one base unit off, and outside on both sides, under all 16 combinations of DISABLE_BUY / DISABLE_SELL on rowan and on "
        "the pool token; the judge classifies by the depths (balance + liabilities) read from the stored pool. "
        "(h) counterparty links between REGISTERED entries: the "
        "sent token names another registered denom as ibc_counterparty_denom (sometimes also base_denom; link back in some), decimals of the "
        "two entries from {0,6,10,18,20}, permission masks with / without IBCEXPORT on either side, 4 token pairs incl. rowan, then in a third "
        "of the trials IBCEXPORT is flipped on the sent denom alone by MsgRegister and the transfer repeated (+ n/6 random). "
        "(i) spellings: MsgRegister / MsgDeregister for a denom "
        "differing only in letter case from a listed one (cusdc/CUSDC/Cusdc, cdash/cDASH, rowan/Rowan, ibc/<HASH> vs ibc/<hash>, both "
        "directions; 9 mask combinations + deregister, + n/8 random), judged at the edit by c12.regstored (an accepted register of X changes "
        "exactly X's entry, a deregister removes exactly X) and followed by the gated messages on both spellings. "
        "Every registry message is rendered from the message as SENT (the handler gets its own copy) and has its own "
        "chk c12.regstored: the registry as stored afterwards (raw KV bytes) equals the edit applied to the registry as stored before. Compared: registry after every edit, pass/refuse of every message (transfer: refused by the "
        "wrapper or reached the ibc-go stub), whether a refused handler wrote to its own cached state. chk: accepted => decision table "
        "holds on the registry AS STORED (bytes read from the tokenregistry KV store of the context the message ran on and decoded, "
        "not through the keeper's GetRegistry); refused => digest of all 23 KV stores unchanged. non-trivial = distinct message line")
TRUSTED_BASE = [
    "Lean 4.33.0 kernel; axioms propext, Classical.choice, Quot.sound (audited per theorem on every run)",
    "fact translator extract/perm/perms.go (go/ast, syntactic): its recognition of the guard shapes, of 'the failing branch returns "
    "a non-nil error', and of 'state-writing call' (any call rooted at the handler's receiver or taking ctx whose name does not "
    "start with Get/Is/Exists/Check/Has/Calc/Validate/…); unrecognised registry calls become Guard.unknown and fail the obligation",
    "fact pass `settoken` (same translator): fields of stored entries SetToken reads, assignments into the incoming entry, verbatim "
    "replace / append",
    "fact pass `lookup` (same translator): which entry fields GetEntry's body selects, its successful returns, the Denom-equality "
    "guard of the one inside the range loop; CheckEntryPermissions' body is not translated (tied by the matrix only)",
    "hand-written Lean model of GetEntry / CheckEntryPermissions / SetToken / RemoveToken / GetLiquidityAddSymmetryState, tied by "
    "differential execution; the handler model is 'regenerated guards, then an arbitrary body, inside the transaction wrapper'",
    "ibc-go behind the wrapper is a stub at L1 (only 'reached or not' is observed); CheckEntryPermissions on a nil entry is a panic "
    "(modelled as refusal)",
    "Go harness + line protocol + drv_perm parser; cosmos-sdk CacheContext/store iteration for the state digest",
]
ASSUMPTIONS = [
    "'The token' of a liquidity message is the pool's external token; rowan's CLP flag is consulted by Swap only (DESIGN 4/C12 reading)",
    "the AMM body after the guards is arbitrary in the theorems; in the correspondence the harness keeps it succeeding "
    "(deep pools, funded signer, liquidity protection and margin off)",
    "registry edits are made by an authorised TOKENREGISTRY admin (authorisation itself is C08)",
]
UNPROVED = [
    "The theorems are over the guard prologue as DATA regenerated from the source; that the Go handlers execute those guards in "
    "that order with nothing else refusing on registry grounds is established by the translator (trusted) and the L1 matrix (test).",
    "L2 (signed transactions through ante/baseapp, real ibc-go with a closed channel) is not run; the transaction wrapper is "
    "modelled (deliver, deliverTx) and exercised at L1 with one cached context per transaction (one or several messages, rollback, "
    "simulation).",
    "IBC import (OnRecvPacket whitelist conversion) is outside the property and the model.",
]
MANIFEST = {
    "text": "Lean 4: the registry guards of the five AMM handlers and of the IBC Transfer wrapper are regenerated from the current "
            "source (go/ast) and proved by `decide` to equal the decision table; for every registry and message the table's guards "
            "pass iff the property's condition holds (CLP on the external token / on both swap tokens, DISABLE_SELL of the sold and "
            "DISABLE_BUY of the bought token also for the hidden swap of an asymmetric add whose direction is proved to be the "
            "cross-multiplication R*a ? r*A, registered + not alias + IBCEXPORT + positive amount for export); over 'guards then any "
            "body inside the tx wrapper': missing permission => refused and state unchanged (no write precedes a guard), accepted "
            "=> permissions held, registry edits decide the very next message, Deregister blocks everything on that token. Tied by an "
            "exhaustive L1 permission matrix and random edit/message histories on the real message servers.",
    "note": "Proved: decision logic for all registries/messages/bodies/edit histories over regenerated guard data. Tested only: that "
            "the Go handlers behave as their guard data says (L1 matrix, exhaustive over permission subsets of the named tokens). "
            "Trusted: Lean kernel (+3 standard axioms), the syntactic fact translator, harness/driver, cosmos-sdk cache contexts; "
            "ibc-go is stubbed behind the wrapper; no L2 run.",
    "technique": "Lean 4 proof (decision logic + regenerated facts closed by decide) + exhaustive L1 permission matrix",
    "design_ref": "4/C12",
}
