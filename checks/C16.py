# C16 — the relayer translates bridge events faithfully in both directions
LEAN_MODULES = ["Sif.Props.C16"]
EXTRACT = []
FAMILIES = [
    {"name": "relayxlate", "family": "relayxlate", "group": "relayer", "driver": "drv_relayxlate",
     "n_quick": 40000, "n_thorough": 400000, "seeds_thorough": 3},
    # the batch path: real handleEthereumEvent -> RelayToCosmos -> tx.BroadcastTx, claims decoded from the signed tx
    {"name": "relaybatch", "family": "relaybatch", "group": "relayer", "driver": "drv_relayxlate",
     "n_quick": 6000, "n_thorough": 60000, "seeds_thorough": 3},
    # loop level: the REAL EthereumSub.Start scans a range whose transactions carry several logs (bridge bank's and a foreign
    # contract's with the same event signatures); receipts are served; the broadcast claims are decoded in full
    {"name": "relaylogs", "family": "relaylogs", "group": "relayer", "driver": "drv_relayxlate",
     "n_quick": 24, "n_thorough": 96, "seeds_thorough": 3},
]
RULE = ("relayxlate: per 8 cases — 2 direct EthereumEventToEthBridgeClaim calls and 1 through real ABI packing + logToEvent "
        "(20-byte addresses incl. null, amounts 0..2^256+ and negative, chain ids / nonces around 2^63 and 2^64 and negative, "
        "symbols of any case with 'c' anywhere, non-ASCII and invalid UTF-8 symbols, recipients valid / upper-case / mixed-case / "
        "bad checksum / truncated / wrong prefix / empty / random bytes, claim types 0..3, three symbol tables); 3 "
        "BurnLockEventToCosmosMsg calls on attribute lists with missing / duplicated / reordered / foreign attributes and corrupt "
        "values (base-0 integer texts, separators, signs, hex receivers with and without prefix); prophecy ids of neighbouring "
        "(nonce, sender) pairs or AttributesToEthereumBridgeClaim; 1 composition case: the real msgServer.Lock/Burn on a real "
        "keeper set emits its event, the real parser translates it.  non-trivial = distinct input that was translated (not refused).  "
        "Symbols include whitespace-padded and otherwise odd texts ('ETH ', ' usdt', tab/newline padded, inner blanks, blank-only, NUL, "
        "JSON-special characters).  For every translated claim with a valid-UTF-8 symbol the content the chain derives from it "
        "(CreateOracleClaimFromEthClaim -> CreateEthClaimFromOracleString) is read back and judged against the ORIGINAL event; pairs of "
        "events differing in symbol padding / case / inner blanks (and sometimes amount, token, type) compare their content texts.  "
        "relaylogs: 1-4 transactions in a scanned range, each with 1-3 logs — bridge-bank LogLock/LogBurn, bridge-bank logs of other "
        "events, FOREIGN-contract logs with the same topics[0] and other data before/after the bank's log, two or three bank events in one "
        "transaction — scanned by the real Start goroutine against the fake node (eth_getLogs honours the address filter, "
        "eth_getTransactionReceipt serves all logs of the transaction); the claims of the broadcast transaction, decoded in full, must be the "
        "faithful translation of exactly the bank's lock/burn logs, each once, in order (each case costs the loop's 10 s sleep; 24 in parallel).  "
        "relaybatch: batches of 0-6 events (mixed lock/burn/other, one chain id and increasing nonces mostly, repeated nonces, "
        "malformed events at first/middle/last position, ASCII symbols) through the real handleEthereumEvent -> RelayToCosmos -> "
        "tx.BroadcastTx with an in-memory keyring and a recording stub node; claims decoded from the signed tx; non-trivial = "
        "distinct batch with at least one submitted claim")
TRUSTED_BASE = [
    "Lean 4.33.0 kernel; axioms propext, Classical.choice, Quot.sound (audited per theorem on every run)",
    "hand-written Lean model of cmd/ebrelayer/txs/parser.go, the prophecy id of x/ethbridge/types/claim.go and the lock/burn "
    "event emitters of x/ethbridge/keeper/msg_server.go, tied by differential execution against the real Go functions",
    "Go harness + line protocol + driver parsing; hooks cmd/ebrelayer/{txs,relayer}/export_verif.go (build tag verif)",
    "cosmos-sdk bech32 encode/decode (enters the model as the environment function Env.bech32; the harness decodes the claim's "
    "receiver/validator text back to bytes), go-ethereum common.Address.Hex EIP-55 letter case (harness lower-cases), "
    "go-ethereum ABI packing/unpacking, math/big SetString (modelled operation by operation, exercised by the correspondence)",
    "Go strings.ToLower on strings containing a byte >= 0x80 (environment function Env.lower; ASCII path is modelled and proved)",
]
ASSUMPTIONS = [
    "envelope for the narrowing clause: chain ids and nonces in [0, 2^63) (outside it big.Int.Int64 wraps; modelled, stated by narrowing_range)",
    "claim identity is injective per chain id (one relayer watches one chain); across chain ids the unseparated concatenation can collide (O1, decide-d witness)",
    "the symbol table is one-to-one (bimap built from a JSON object with distinct values)",
    "64-bit platform: int(x) and int64(x) are the identity on int64",
]
UNPROVED = [
    "recipient fidelity is proved as 'the decoded address bytes are copied'; bech32 itself is not modelled",
    "non-ASCII lower-casing is a parameter of the model (Env.lower)",
    "ABI decoding in logToEvent is not modelled: the log2claim stream ties the composition ABI-pack -> logToEvent -> claim to the same model function by testing only",
    "composition with the chain is proved against the model of the emitters (emitAttrs), which is tied to msgServer.Lock/Burn by the L1 "
    "correspondence (real keepers, real event manager), not by a full ABCI (L2) run",
    "batch path: symbols of the relaybatch family are ASCII (the Unicode ToLower path is exercised by relayxlate only); signing, "
    "tx encoding and BroadcastTx are cosmos-sdk code (the claims are read back from the signed bytes)",
    "claim content: the model packs the five content fields verbatim; the JSON codec of the content text is not modelled (tested: read-back "
    "fields equal the event's, distinct events give distinct texts; symbols that are not valid UTF-8 are excluded because encoding/json replaces them)",
    "AttributesToEthereumBridgeClaim (replay helper; last-wins, no completeness check) is modelled and differential-tested, no theorem",
]
MANIFEST = {
    "text": "Lean 4 theorems over a model of the relayer's two translation functions for every event field value and every attribute "
            "list: field fidelity in both directions, rejection of malformed events and of incomplete attribute lists, no-wrap narrowing "
            "below 2^63, prophecy-id injectivity per chain, burn symbol = attribute minus exactly the leading 'c' (iff), decimal "
            "round trip through SetString, composition with the chain's own lock/burn emitters; the content the chain derives from the relayed claim carries the event's fields with the symbol exactly as relayed (content_faithful, content_distinct); and for the batch the relayer actually submits (handleEthereumEvent -> RelayToCosmos): one claim per submittable event, in order, each faithful to its own event, distinct ids.  Tied to the Go code by differential "
            "execution of the real functions (incl. real ABI packing + logToEvent, the real msgServer emitting real events, and the real batch path with claims decoded from the signed transaction) and by "
            "evaluating the theorems' own decidable predicates on the implementation's outputs.",
    "note": "Trusted: Lean kernel (+propext, Classical.choice, Quot.sound); hand-written model tied only by the correspondence run; "
            "bech32, EIP-55 casing, ABI codec, Unicode lower-casing enter as environment values / are normalised by the harness. "
            "Defects reproduced and repaired: F6 (SplitAfter burn symbol) and F6b (incomplete attribute list accepted when another "
            "attribute is repeated) — patches fixes/F6.diff, fixes/F6b.diff applied to the working tree.",
    "technique": "Lean 4 proof + differential correspondence (model vs real Go)",
    "design_ref": "4/C16",
}
