# C16 — the relayer translates bridge events faithfully in both directions
LEAN_MODULES = ["Sif.Props.C16"]
EXTRACT = []
FAMILIES = [
    {"name": "relayxlate", "family": "relayxlate", "group": "relayer", "driver": "drv_relayxlate",
     "n_quick": 40000, "n_thorough": 400000, "seeds_thorough": 3},
]
RULE = "tbd"
TRUSTED_BASE = []
ASSUMPTIONS = []
UNPROVED = []
MANIFEST = {"text": "tbd", "note": "tbd", "technique": "Lean 4 proof + differential correspondence (model vs real Go)", "design_ref": "4/C16"}
