# C03 — swaps settle exactly, within constant-product bounds
LEAN_MODULES = ["Sif.Props.C03"]
EXTRACT = []
FAMILIES = [
    {"name": "ammdir", "family": "ammdir", "driver": "drv_amm", "n_quick": 1, "n_thorough": 1},
    {"name": "calc", "family": "calc", "n_quick": 60000, "n_thorough": 600000, "seeds_thorough": 3},
    {"name": "amm", "family": "amm", "driver": "drv_amm", "n_quick": 2500, "n_thorough": 20000, "seeds_thorough": 4},
    {"name": "ammrt", "family": "ammrt", "driver": "drv_amm", "n_quick": 2500, "n_thorough": 20000, "seeds_thorough": 3},
]
RULE = ("amm: L1 histories on the real message server (three swap routes, fee overrides, ratio-shifting rates, liabilities) with the "
        "balance changes of ALL known accounts judged by Spec.C03.settleOK and the whole state compared with the model; 1 random swap in 4 "
        "(and every route of the fee-override history) also with the stated minimum at the exact output (accepted), one above it and ~0.5% above it (refused), "
        "the exact output measured by the same message on a discarded copy of the state; discarded transactions (accepted admin changes of the running rate, "
        "the fee parameters, the symmetry threshold, the rewards parameters on a branch that is dropped) before swaps of the same block; running rate and fee "
        "parameters the bound is judged against are decoded from the raw store, not read through the keeper; ammdir D27: a policy compounding the running rate to 2^25-1 through the real BeginBlocker, swaps bounded with the stored rate; "
        "calc: CalcSwapResult on log-uniform depths 1..2^110, amounts to 2^128, boundary values, fee rates in [0,1], "
        "ratio-shifting rates 0..1e6; non-trivial = distinct input with a non-zero pool and amount")
TRUSTED_BASE = [
    "Lean 4.33.0 kernel; axioms propext, Classical.choice, Quot.sound (audited per theorem on every run)",
    "hand-written Lean model of x/clp calculators, tied by differential execution against the real Go functions",
    "Go harness + line protocol + sifdrv parser",
    "math/big, cosmos-sdk sdk.Uint/sdk.Dec (modelled, exercised by the correspondence)",
]
ASSUMPTIONS = ["the signer is not the module account (it has no key)", "fee rate in [0,1] (enforced by MsgUpdateSwapFeeParams.ValidateBasic)", "ratio-shifting running rate >= 0"]
UNPROVED = []
MANIFEST = {
    "text": "Lean 4 theorems over an exact model of the swap calculators and the swap handler (bounds for every depth, amount, fee and rate; exact settlement), tied to the Go code by differential execution of the real functions and by evaluating the theorems' own decidable predicates on the implementation's outputs.",
    "note": "Trusted: Lean kernel (+propext, Classical.choice, Quot.sound), hand-written model tied only by the correspondence run, harness/driver parsing, math/big and sdk number types, x/bank (modelled).",
    "technique": "Lean 4 proof + differential correspondence (model vs real Go)",
    "design_ref": "4/C03",
}
CHK_PREDS = ["c03."]
