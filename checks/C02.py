# C02 — pool units = sum of provider units; removals bounded
LEAN_MODULES = ["Sif.Props.C02"]
EXTRACT = []
FAMILIES = [
    {"name": "ammdir", "family": "ammdir", "driver": "drv_amm", "n_quick": 1, "n_thorough": 1},
    {"name": "amm", "family": "amm", "driver": "drv_amm", "n_quick": 2500, "n_thorough": 20000, "seeds_thorough": 4},
    {"name": "ammrt", "family": "ammrt", "driver": "drv_amm", "n_quick": 2500, "n_thorough": 20000, "seeds_thorough": 3},
    # histories WITH unlock records (lock / cancel periods > 0, unlock, cancel, removals that use records up exactly, admin
    # parameter changes, margin-enabled pools, removal queue on/off): the unlock family of C15 judges the units invariant on
    # the keeper's own records after every transaction and hook (chk c02.units: pool units = sum of ALL provider records of
    # the pool) and that an accepted remove-units burns exactly what it says (chk c02.burn)
    {"name": "unlock", "family": "unlock", "group": "perm", "driver": "drv_unlock", "n_quick": 30000, "n_thorough": 300000, "seeds_thorough": 2},
]
RULE = ("one add in eight is signed under the all-upper-case bech32 spelling of the same account (model told the account); ammdir D28: pools with 100 / 101 / 102 providers decommissioned next to a pool sorting after them; the state dump reads pools and providers with a raw prefix iterator, not through the keeper's list getters; "
        "amm: random L1 histories (60 ops each: create/add sym+asym/remove bps+units/swap 3 routes/bucket/epoch/endblock with LPPD and "
        "depth rewards/decommission/policy changes) on the real clp keeper; ammdir: directed histories of DESIGN 4/C02; "
        "after every op the full state is compared with the model and Spec.C01.unitsOK is judged on the implementation's dump; "
        "unlock (family of C15, lock periods 0..10^6, unlock/cancel/remove/add by 4 providers + a whale in 2 pools, 160 messages per history): "
        "after every transaction and clp hook Spec.C15.poolUnitsOK (pool units = sum of every provider record of the pool, read from the keeper) "
        "and Spec.C15.burnOK are judged on the implementation (the provider records are also compared with the C15 model); "
        "non-trivial = a distinct message or hook that succeeded")
TRUSTED_BASE = [
    "Lean 4.33.0 kernel; axioms propext, Classical.choice, Quot.sound (audited per theorem on every run)",
    "hand-written Lean model of the clp handlers and hooks (lean/Sif/Model/Clp), tied by state-for-state differential execution against the real keeper",
    "Go harness + line protocol + driver parser; x/bank, baseapp cache-context discipline (modelled)",
]
ASSUMPTIONS = ["removal queue disabled and removal lock period 0 in the amm correspondence histories; the unlock family adds histories with lock periods > 0 and unlock records, where only the provider records (C15 model) are compared and the units invariant is judged as an observation (pools may be margin-enabled and carry liabilities / custody; liquidity protection on or off, any threshold asset)",
               "map iterations modelled in sorted order (order-independence is C09)"]
UNPROVED = [
    "reachable_units_Statement holds only outside finding F17 (AddLiquidity into a pool with an empty side resets pool units): proved as reachable_units_partial under RunOK",
    "payout bound of removals: proved for both calculators (removeUnits_payout_le_prorata, removeBps_payout_le_prorata) and judged on every real removal (c02.payout); the step from the calculator to the handler's bank transfer is the model's finishRemoval, tied by correspondence",
    "removal queue: the clp param EnableRemovalQueue is never persisted by the code, so queued-removal processing cannot be switched on and is not modelled; margin-enabled pools and the pool-health gate of removals are in the slice",
]
MANIFEST = {
    "text": "Units invariant (pool units = sum of provider units, every provider record belongs to a pool) and removal bounds proved in Lean over an exact model of the clp handlers; model tied to the Go keeper by state-for-state differential execution; the invariant predicate itself judged on every implementation state.",
    "note": "Trusted: Lean kernel (+3 standard axioms), hand-written model tied only by the correspondence, harness/driver, x/bank semantics. Margin messages are out of this slice (custody enters as configured pool fields).",
    "technique": "Lean 4 invariant proof by induction over operations + differential correspondence",
    "design_ref": "4/C02",
}
CHK_PREDS = ["c02."]
