# C18 — reward and distribution payouts are pro rata to provider units
LEAN_MODULES = ["Sif.Props.C18"]
EXTRACT = []
CHK_PREDS = ["c18."]
FAMILIES = [
    {"name": "dist", "family": "dist", "driver": "drv_calc", "n_quick": 40000, "n_thorough": 400000, "seeds_thorough": 3},
    {"name": "amm", "family": "amm", "driver": "drv_amm", "n_quick": 2500, "n_thorough": 20000, "seeds_thorough": 4},
    {"name": "ammdir", "family": "ammdir", "driver": "drv_amm", "n_quick": 1, "n_thorough": 1},
]
RULE = ("dist: L0 on the real collectors (CalcProviderDistributionAmount, CollectProviderDistribution with 1..200 providers over equal / "
        "dominant / dust / random unit vectors, CollectPoolRewardTuples with multipliers 0..10, epoch bucket shares) — payout vectors "
        "compared with the model and judged by Spec.C18 (fairOne, fairPool, fairSplit); amm/ammdir: L1 histories with LPPD, depth "
        "rewards (both modes) and epoch payouts, state compared with the model, recipients of every hook judged by "
        "Spec.C18.recipientsOK; ammdir D23 pays the buckets through the REAL x/epochs BeginBlocker (rewards epoch hour / day / week, block times "
        "stepping over hour, day and week boundaries where several epochs end in one block): whether the rewards epoch is due is read from the "
        "stored epoch infos, and the same epoch predicates are judged; the wallet-mode shares are also judged with eligibility from the harness's own ledger "
        "of accepted creates / adds / removals (epochSharesByLedgerOK; D24: two epochs closer than the lock period, pool mode then wallet mode); D25: 201 pools (more than any page size) in one LPPD block and one depth-reward block, all records read from the raw store; non-trivial = a distinct collector call that returned amounts")
TRUSTED_BASE = [
    "Lean 4.33.0 kernel; axioms propext, Classical.choice, Quot.sound (audited per theorem on every run)",
    "hand-written Lean model of the clp collectors and hooks, tied by differential execution (L0 and L1)",
    "Go harness + line protocol + driver parser; sdk.Dec banker's rounding (modelled exactly, exercised by the correspondence)",
]
ASSUMPTIONS = ["block rates in [0,1], multipliers in [0,10]; providers' units sum to at most the pool units (C02) for the lower bound"]
UNPROVED = [
    "n-provider lower bound |paid_i - share_i*D| <= n*(1 + D*1e-18) after the running clamp: proved for the epoch bucket payout (bucket_amounts_fair, with fix F26) and for one pool's LPPD / depth-reward payout (pool_payouts_fair), any number of providers",
    "depth split: the per-pool upper bound (reward <= weighted share of the block distribution + rounding) is proved for any number of pools (depth_reward_le_weighted_share) and the unclamped lower bound per pool (pool_distribution_ge_weighted_share); the total weight td is the sum of the pools' weights up to n/2 units of 1e-18 (total_weight_is_weight_sum); the composition (share of the exact weight sum, all pools, with the remaining-amount clamp) is judged on every real EndBlocker (splitObservedOK), not stated as one theorem",
    "ineligible accounts receive nothing: judged on every L1 hook (recipientsOK; for the epoch hook also against the harness's own ledger of accepted adds: eligibleByLedgerOK; for provider distributions per account and per pool: lppdSharesOK — each account gains the sum of its shares of the pools it is a provider OF), not proved as a theorem",
]
MANIFEST = {
    "text": "Lean 4 theorems over exact models of the three payout collectors (sdk.Dec banker's rounding included): a provider's amount is within 1 base unit + 1e-18*D of its share for all magnitudes; pool payouts sum to at most rnd(rate*balance) for any number of providers; depth rewards sum to at most the block distribution; the epoch bucket amounts of any number of providers add up to at most the bucket and each is within 1 + (n+1)*B*1e-18 of its share (bucket_amounts_fair); the providers of one pool in an LPPD / depth-reward payout are each within (n+1)*(1 + D*1e-18) + 1/2 of their share (pool_payouts_fair). The L1 predicates epochSharesOK (every eligible provider's wallet gain) and splitObservedOK (per-pool depth rewards of one real EndBlocker) judge the hooks themselves. Tied to the Go collectors by L0/L1 differential execution with Lean-judged payout vectors.",
    "note": "Trusted: Lean kernel (+3 standard axioms), hand-written model tied only by the correspondence, harness/driver. The per-pool weighted split of depth rewards and 'ineligible receive nothing' are judged on implementation outputs, not proved.",
    "technique": "Lean 4 proof (rational error bounds of fixed-point rounding) + differential correspondence",
    "design_ref": "4/C18",
}
