LEAN_MODULES = ["Sif.Props.C06"]
EXTRACT = [{"group": "bridge", "passes": ["bridgefacts"]}]
FAMILIES = [
    {"name": "bridge_credit", "family": "bridge_credit", "group": "bridge", "driver": "drv_bridge",
     "n_quick": 150, "n_thorough": 1500, "seeds_thorough": 3},
]
RULE = ""
TRUSTED_BASE = []
ASSUMPTIONS = []
UNPROVED = []
MANIFEST = {"text": "", "note": "", "technique": "Lean 4 proof + differential correspondence (model vs real Go)", "design_ref": "4/C06"}
