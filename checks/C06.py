# C06 — each bridged Ethereum event is credited at most once, as agreed
LEAN_MODULES = ["Sif.Props.C06"]
EXTRACT = [{"group": "bridge", "passes": ["bridgefacts"]}]
FAMILIES = [
    {"name": "bridge_credit", "family": "bridge_credit", "group": "bridge", "driver": "drv_bridge",
     "n_quick": 200, "n_thorough": 1500, "seeds_thorough": 3},
]
RULE = ("bridge_credit: L1 claim histories on the real keepers (ValidateBasic + ethbridge.NewHandler on a cached context written only on success): "
        "conflicting contents, late and duplicate claims, claims after finalisation, zero / negative / 2^256-1 amounts, invalid denominations, "
        "a conflicting claim completing a prophecy whose winning content is another one after the whitelisted bonded power shrank (whitelist removal, unbonding, loss of power of validators that never claimed; directed + a scenario generator for 1/4 of the histories), symbols differing in case only / by a leading c (usdc USDC Usdc cusdc cUSDC, eth ETH ceth …) credited in the same history, claim symbols of JSON-special text (quotes, backslashes, braces, commas, text reading as further amount / cosmos_receiver / claim_type members), judged against the contents of the accepted claim MESSAGES (creditFromMessages), unspecified claim type, receivers that are module (blocked) accounts, other spellings of the Ethereum sender (another prophecy id), "
        "interleaved with whitelist edits, staking changes, locks and burns, and restarts from the exported genesis in mid-history (real oracle + ethbridge ExportGenesis, codec JSON, InitGenesis on emptied stores, bank and staking carried; the credit ledger persists across them; judged by Spec.C06.restartCarries) followed by re-sent, late and conflicting claims; 8 executions per history. After every claim message the balances and "
        "supply before/after are judged by Spec.C06.creditStep; a per-prophecy ledger of observed credits by Spec.C06.ledgerOK. "
        "non-trivial = distinct accepted message, or a chk line around a balance change")
TRUSTED_BASE = [
    "a restart from the exported genesis is the identity on the model state (Step.restart); that the real export/import carries the bridge state is tied by the correspondence only (chk carry on every generated restart)",
    "Lean 4.33.0 kernel; axioms propext, Classical.choice, Quot.sound (audited per theorem on every run)",
    "hand-written Lean model of x/oracle, x/ethbridge and the used part of x/bank (mint / send / blocked recipients / 256-bit overflow panic / "
    "zero coins dropped / denomination regex), tied by regenerated facts (the guard of the only ProcessSuccessfulClaim call, PeggedCoinPrefix) and "
    "by differential execution against the real keepers",
    "baseapp's transaction wrapper (cache written only on success, panics recovered) — reproduced by the harness with CacheContext + recover",
    "json.Marshal/Unmarshal of OracleClaimContent round-trips; staking as environment; Go harness, line protocol, drv_bridge parser",
]
ASSUMPTIONS = [
    "C05's assumptions for the statements that go through the tally (well-formed tallies, distinct validator addresses)",
    "prophecyId_injective_fixed_chain: Ethereum senders of equal length (the 42-character form)",
]
UNPROVED = [
    "across chain ids the prophecy id is not injective (prophecyId_not_injective_across_chains, observation O1): two events can share a tally, "
    "which can suppress a credit but not duplicate one",
    "the L2 path (signed transactions through baseapp) is not exercised here; the wrapper is the harness's",
]
MANIFEST = {
    "text": "Lean 4 theorems over a model of CreateEthBridgeClaim / ProcessSuccessfulClaim on top of the oracle model: coins move iff the message was "
            "accepted and turned its prophecy SUCCESS in that very step, then exactly the credit of the final claim (receiver, amount, 'c'+symbol for a lock, "
            "symbol for a burn) and nothing else; over any history the credits for one prophecy id are none or exactly that one; failed or panicking claims "
            "change nothing; a lock credit puts the token in the peggy list for good (not lockable, burnable); prophecy ids are injective for a fixed chain id. "
            "Tied by regenerated facts and differential execution of claim histories on the real keepers with the predicates evaluated on the implementation's balances.",
    "note": "Holds on the tree repaired for F2. Trusted: kernel, hand-written model + correspondence, x/bank semantics as modelled, JSON encoding, "
            "the harness's transaction wrapper standing in for baseapp.",
    "technique": "Lean 4 proof + regenerated facts + differential correspondence (model vs real Go keepers)",
    "design_ref": "4/C06",
}
