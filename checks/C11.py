# C11 — dispensation pays each record exactly once from escrowed funds
LEAN_MODULES = ["Sif.Props.C11"]
EXTRACT = [{"group": "disp", "passes": ["dispconsts"]}]
FAMILIES = [
    {"name": "disp", "family": "disp", "group": "disp", "driver": "drv_disp", "n_quick": 2500, "n_thorough": 25000, "seeds_thorough": 4},
]
RULE = ("disp: L1 histories on the real dispensation keeper (sifapp.SetupWithBlacklist, CacheContext per message, ValidateBasic first): "
        "create-distribution (1-5 outputs, duplicate recipients, 1-3 denoms, amounts 1..2^70, blocked recipients = blacklisted address and "
        "two module accounts, invalid coins/addresses/types, poor distributors), run-distribution (aimed at a pending record 90%; other runner/"
        "name/type 25%; counts 1..20 and 0, 21, -1), create-claim, blocks with the real BeginBlocker, funding, transfers; a directed "
        "runner-merge history; after every operation the whole module store (iteration order, raw keys) and 33 balances are compared with the "
        "model and the escrow / ledger / run / claims predicates are judged on the implementation's dump; non-trivial = accepted create/run/claim")
TRUSTED_BASE = [
    "Lean 4.33.0 kernel; axioms propext, Classical.choice, Quot.sound (audited per theorem on every run)",
    "hand-written Lean model of x/dispensation (msg_server, executors, records, claims, keys, ValidateBasic), tied by differential execution against the real keeper",
    "Go harness + line protocol + driver parser; the harness' bookkeeping of observed 'created' outputs and observed balance deltas ('paid') for the ledger predicate",
    "cosmos-sdk x/bank (modelled: SendCoins, blocked recipients of SendCoinsFromModuleToAccount, MintCoins), sdk.Coins.Add/IsValid (modelled), bech32 address validity (abstracted as a predicate; the harness uses real bech32 addresses and 'bad_addr')",
    "baseapp's per-transaction cache (modelled by `deliver`: error or panic discards all writes)",
]
ASSUMPTIONS = [
    "the module account never signs: distributor != module account, no bank transfer out of the module account other than the module's own code (opOK)",
    "ecosystem pool address != module account (cfgOK)",
    "recipients / runners are bech32 addresses (contain no '_') for the key-injectivity theorems",
    "histories start from the empty module store (genesis import of records is not modelled)",
]
UNPROVED = []
MANIFEST = {
    "text": "under construction",
    "note": "under construction",
    "technique": "Lean 4 proof (refinement + invariants over histories) + differential correspondence (model vs real keeper) + regenerated facts",
    "design_ref": "4/C11",
}
