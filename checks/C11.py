# C11 — dispensation pays each record exactly once from escrowed funds
LEAN_MODULES = ["Sif.Props.C11"]
EXTRACT = [{"group": "disp", "passes": ["dispconsts"]}]
FAMILIES = [
    {"name": "disp", "family": "disp", "group": "disp", "driver": "drv_disp", "n_quick": 2500, "n_thorough": 25000, "seeds_thorough": 4},
]
RULE = ("disp: L1 histories on the real dispensation keeper (sifapp.SetupWithBlacklist, CacheContext per message, ValidateBasic first): "
        "create-distribution (1-5 outputs, duplicate recipients, 1-3 denoms, amounts 1..2^70, a fifth of the recipients spelled in UPPER-CASE bech32 (same account; also both spellings in one distribution), blocked recipients = blacklisted address and "
        "two module accounts, invalid coins/addresses/types, poor distributors), run-distribution (aimed at a pending record 90%; other runner/"
        "name/type 25%; counts 1..20 and 0, 21, -1), create-claim (a third in the account's other spelling), blocks with the real BeginBlocker, funding, transfers; a directed "
        "runner-merge history; a directed big distribution (26-36 recipients) with same-block run messages whose counts sum to exactly 20 / 19 / 21 followed by further small runs; a directed same-block history create(runner A)/run/claims re-filed/create(same distributor+type, runner B, overlapping recipients)/runs (full and partial); after every operation the whole module store (iteration order, raw keys) and 33 balances are compared with the "
        "model and the escrow / ledger / run / claims predicates are judged on the implementation's dump; non-trivial = accepted create/run/claim")
TRUSTED_BASE = [
    "Lean 4.33.0 kernel; axioms propext, Classical.choice, Quot.sound (audited per theorem on every run)",
    "hand-written Lean model of x/dispensation (msg_server, executors, records, claims, keys, ValidateBasic), tied by differential execution against the real keeper",
    "Go harness + line protocol + driver parser; the harness' bookkeeping of observed 'created' outputs and observed balance deltas ('paid') for the ledger predicate",
    "cosmos-sdk x/bank (modelled: SendCoins, blocked recipients of SendCoinsFromModuleToAccount, MintCoins), sdk.Coins.Add/IsValid (modelled), bech32 address validity (abstracted as a predicate; the harness uses real bech32 addresses and 'bad_addr')",
    "baseapp's per-transaction cache (modelled by `deliver`: error or panic discards all writes)",
]
ASSUMPTIONS = [
    "the module account never signs: distributor != module account, no bank transfer out of the module account other than the module's own code (opOK)",
    "ecosystem pool address != module account (cfgOK)",
    "recipients / runners are bech32 addresses (contain no '_') for the key-injectivity theorems; a spelling (lower / all-upper case) and the account it decodes to are distinct in the model: record and distribution keys use the spelling, the bank, the blocked list and — since fix F28 — the claim keys use the account",
    "histories start from the empty module store (genesis import of records is not modelled)",
]
UNPROVED = [
    "create_accepts (converse of the refusal theorems): a ValidateBasic-valid create message for a new (name,type,runner) from a distributor "
    "holding the total IS accepted — needs 'Coins.Add preserves validity' for the model's SetDistributionRecord check; not proved, exercised "
    "by the correspondence only (create.ok lines). The proved direction: accepted => new distribution, funds moved exactly, outputs recorded "
    "exactly (create_refines); existing distribution or insufficient funds => refused (create_rejects_*); refused => nothing changes.",
    "'a key leaves pending exactly once and never returns' is FALSE for the code and not claimed: a later create in the same block (other runner) "
    "re-creates a key that was already paid. What is proved instead: the per-key ledger equation paid + pending + failed = created over every "
    "history (paid_at_most_once) and, within one run, nothing enters pending (run_refines).",
    "genesis import of distribution records (InitGenesis) and the legacy v39/v42 migrations are not modelled; histories start from the empty store.",
]
MANIFEST = {
    "text": "Lean 4 theorems over a hand-written model of x/dispensation (create / run / claim handlers, ValidateBasic, key functions, "
            "ChangeRecordStatus, transaction all-or-nothing): refinement theorems per message (create_refines, run_refines, one_claim_per_type, "
            "claim_deleted_on_pay, run_pays_from_escrow, create_moves_exactly_outputs, run_leaver_paid_or_failed (nothing is silently dropped), run_wrong_runner_pays_nothing, run_at_most_count, refused_changes_nothing), key-injectivity lemmas, and two "
            "invariants proved by induction over ALL histories of messages, blocks, funding and transfers: escrow_covers (module balance >= "
            "pending + failed, per denom) and paid_at_most_once (per record key: paid + pending + failed = created). Tied to the code by "
            "regenerated facts (store prefixes, constants) and by differential execution of the real keeper (whole module store incl. raw keys and "
            "iteration order, 33 balances after every operation) with the theorems' own predicates judged on the implementation's dumps.",
    "note": "Defect F28 (claims keyed by the spelling of the address: two claims of one type per account, claim not deleted when the record uses the other spelling) found by the spelling generators and repaired in /repo (fb5757434); reverting it is reported under disp.claim.one-per-account-and-type. Runner-merge semantics stated as in the code (second create in a block merges and overwrites AuthorizedRunner; replayed on the real "
            "keeper by a directed history). Trusted: Lean kernel (+propext, Classical.choice, Quot.sound), the hand-written model (tied only by the "
            "correspondence), harness/driver parsing and the harness' bookkeeping of observed created/paid amounts, x/bank and sdk.Coins (modelled), "
            "bech32 validity (abstracted), baseapp's per-tx cache (modelled). Unproved: converse acceptance of create (see unproved_statements).",
    "technique": "Lean 4 proof (refinement + invariants over histories) + differential correspondence (model vs real keeper) + regenerated facts",
    "design_ref": "4/C11",
}
