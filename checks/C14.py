# C14 — genesis export/import is lossless for everything the genesis format carries
import os

LEAN_MODULES = ["Sif.Props.C14"]
EXTRACT = [{"group": "replay", "passes": ["genesis"]}]
FAMILIES = [
    # -n = number of random all-module histories that are exported / imported / exported; 3n random documents
    {"name": "genesis", "family": "genesis", "group": "replay", "driver": "drv_genesis",
     "n_quick": 10, "n_thorough": 80, "seeds_thorough": 3},
]
RULE = ("genesis: (a) n random all-module histories (12-52 blocks of the C09 generator: pools, providers with unlock "
        "records and reward amounts, buckets, reward/LPPD/PMTP/liquidity-protection/swap-fee policies incl. per-token fees, "
        "pending+successful+failed prophecies, whitelist, peggy tokens, distributions with pending/completed/failed records, "
        "claims, margin positions, registry entries, admin accounts) -> app.ExportAppStateAndValidators -> fresh app "
        "InitChain at the exported height + Commit -> export again; per Sifchain module `chk docEq` on the two JSON sections, "
        "`chk epochsRebased` for epochs; ~60 gRPC queries through baseapp.Query on both apps; the imported chain's STORE against the original chain's store, "
        "key by key, for the 13 carried record collections (admin accounts, pools, providers, buckets, pending/completed/failed distribution records, distributions, "
        "claims, blacklist, positions, prophecies, registry) — not only export vs re-export; histories set parameters to a MEANINGFUL zero through the live messages (margin fund percentages / thresholds via MsgUpdateParams, "
        "MsgAdminCloseAll without fund cut, clp swap fee 0, liquidity protection off, rewards periods 0, LPPD rate 0, bridge pause) and the generated documents contain "
        "zero Dec/Uint/Int values in a quarter / sixth of the fields; one directed history big-collections crosses the list-size thresholds of every exported collection (210 pools, 465 providers, 120 margin positions, 210 prophecies, 250 distribution records, 211 registry entries; page limits in the code are 100 / 200, dispensation pays 20 records per run); histories set and replace the ethbridge blacklist with real addresses in several capitalisations and with elements that are not addresses (empty, ENS name, bech32, wrong-length hex), generated documents likewise; histories contain a MsgSetRegistry that lists a denom twice with differing copies followed by a MsgRegister on that denom (generated documents carry duplicated registry entries too); histories contain same-block create/run/create distributions (one "
        "distributor, two runners, overlapping recipient: a COMPLETED and a PENDING record with the same name, type and recipient).  (b) 3n reflection-generated "
        "well-formed genesis documents (every field of every GenesisState populated, unique keys, ValidateGenesis ok): "
        "import -> export equals the document as a set of items, import again -> export identical.  non-trivial = section "
        "or answer longer than 40 bytes")
TRUSTED_BASE = [
    "Lean 4.33.0 kernel; axioms propext, Classical.choice, Quot.sound (audited per theorem on every run)",
    "fact translator extract/replay/genesis.go (go/types): which functions count as InitGenesis/ExportGenesis (by name, in the "
    "module's non-test packages), its def-use closure from a field to the calls that store it / from the exported value to the "
    "calls it comes from",
    "the reviewed (setter, getter) table Sif.Spec.C14.reviewed",
    "thin hand-written Lean model of a prefix-keyed store and of export/init for collection-under-prefix modules "
    "(Sif/Model/Genesis.lean); encodings (protobuf, amino/proto JSON, sdk number types) are NOT modelled: the real "
    "assurance for them is the differential export/import run (translation validation, a test)",
    "the list of carried collections/prefixes compared in the raw store comparison (harness/replay/genesis.go carriedCollections) is hand-written; "
    "single-value keys (params, pause, receiver, whitelists) are compared through export and queries only, because import legitimately creates keys the "
    "original chain never wrote (e.g. ethbridge pause)",
    "Go harness harness/replay/genesis.go, gendoc.go (canonicalisation: JSON compaction; for documents: arrays as sets); "
    "line protocol; drv_genesis parser",
    "cosmos-sdk module manager, baseapp.InitChain/Commit/Query, IAVL (exercised, not modelled)",
]
ASSUMPTIONS = [
    "the `h` of epochsRebased is the height of the header InitChain runs InitGenesis with: the InitialHeight the harness passes if it is > 1, else 0 "
    "(cosmos-sdk v0.45 baseapp sets the header height only for InitialHeight > 1); one generated document in eight is imported at InitialHeight 1",
    "init_export theorems: the store is key-sorted without duplicate keys and every record is stored under the key computed "
    "from its own fields (WF) — what the keepers' Set* functions do by construction",
    "documents: well-formed = ValidateGenesis accepts and no two items of a collection share a store key; Ethereum addresses "
    "of the blacklist in canonical (EIP-55) spelling (import normalises spellings since repair F11)",
    "key-function injectivity: symbols contain no '_' (sdk denom grammar), bech32 addresses contain no '_'",
]
UNPROVED = [
    "that the real InitGenesis/ExportGenesis of the eight modules ARE instances of the modelled collection-under-prefix scheme "
    "(same key functions, iteration in key order, decode . encode = id) is not proved; it is pinned by the regenerated "
    "(setter, getter) facts and tested by the export/import/export differential on histories and generated documents",
    "protobuf / JSON encoding round trips (sdk.Uint, sdk.Dec, Coins, timestamps, enum names) — tested only",
    "parameters stored as single values (clp/margin params, registry, pause, ceth receiver, whitelists) are covered by the facts "
    "and the differential only; the generic theorem is about collections",
    "state the genesis format does not carry (clp reward accumulator, symmetry threshold and removal queue; margin MTPCount/"
    "OpenMTPCount, whitelist and SQ begin blocks; dispensation MintController; admin Params) is outside the property; the "
    "harness reports it under stats.observations and never judges it",
]
MANIFEST = {
    "text": ("Lean 4: generic theorem for collection-under-prefix modules — on a key-sorted store whose records sit under the key "
             "computed from their own fields, init (export s) = the part of s under the carried prefix, hence export . init . export "
             "= export; frame lemma for disjoint prefixes; for a well-formed document export (init g) is a permutation of g; "
             "injectivity of the Sifchain key functions (pool, symbol_address provider, admin account, MTP, prophecy, distribution "
             "record/claim keys); the epochs re-base as the one stated exception.  Tie 1: go/types scan of every GenesisState field "
             "with the calls that store and export it; `decide`: every field is written and read, through the reviewed calls.  "
             "Tie 2 (translation validation on the real app, the real assurance for encodings): export -> InitChain -> export on "
             "random all-module histories and on reflection-generated documents, plus ~60 gRPC queries on both apps, judged by "
             "Lean predicates."),
    "note": ("The proof is on a thin model (sorted association list, abstract encode/decode); that the Go modules follow it is pinned by "
             "facts and tested, not proved.  Observed and reported, not violations: state outside the genesis format (margin counters and "
             "whitelist, dispensation mint controller, clp symmetry threshold / accumulator, admin params) is lost on export/import."),
    "technique": "Lean 4 proof on a thin store model + regenerated field coverage + translation validation (export/import/export on the real app)",
    "design_ref": "4/C14",
}


def extra(ctx):
    if ctx["lean"]["ok"]:
        return
    src = ("import Sif.Spec.C14\nimport Sif.Generated.Genesis\nopen Sif.Spec.C14 Sif.Generated.Genesis\n"
           "#eval (\"never consumed by InitGenesis\", unwritten fields)\n#eval (\"never produced by ExportGenesis\", unread fields)\n"
           "#eval (\"setter/getter differ from the reviewed table\", unreviewed fields)\n#eval modules\n#eval loadErrors\n")
    p = os.path.join(ctx["cache"], "audit", "C14_fields.lean")
    os.makedirs(os.path.dirname(p), exist_ok=True)
    open(p, "w").write(src)
    ctx["sh"](["lake", "build", "Sif.Spec.C14", "Sif.Generated.Genesis"], cwd=os.path.join(ctx["root"], "lean"))
    rc, out = ctx["sh"](["lake", "env", "lean", p], cwd=os.path.join(ctx["root"], "lean"))
    for b in ctx["broken"]:
        if b["kind"] == "proof":
            b["what"] += "\ngenesis fields that fail the coverage obligations (from the regenerated facts):\n" + out[-3000:]
