# C10 — block processing never panics for user histories or accepted policy settings
LEAN_MODULES = ["Sif.Props.C10"]
EXTRACT = [{"group": "policy", "passes": ["validate"]}]
CHK_PREDS = ["c10."]
FAMILIES = [
    {"name": "policy", "family": "policy", "group": "policy", "driver": "drv_policy",
     "n_quick": 1200, "n_thorough": 12000, "seeds_thorough": 2},
    {"name": "userhist", "family": "userhist", "group": "policy", "driver": "drv_policy",
     "n_quick": 500, "n_thorough": 6000, "seeds_thorough": 2},
    {"name": "confine", "family": "confine", "group": "policy", "driver": "drv_policy",
     "n_quick": 300, "n_thorough": 3000, "seeds_thorough": 2},
]
RULE = ("policy (L1, family 2): histories of SEVERAL accepted messages (policy -> end_policy mid-policy or natural end -> optional block/running rate between policies -> next, long policy; in 2 of 5 plans the next policy OMITS the optional governance rate and inherits the stored one; set-then-keep minter of UpdateStakingRewardParams; the demonstrations of seeded changes C10-2 and C10-3 literally, then one random plan per 40 scenarios) with EVERY block of the next policy window (500-2000 blocks, no skipping) run on the real clp BeginBlocker; liquidity-protection sequences across the disabled state (UpdateLiquidityProtectionParams toggling IsActive with the same / another maximum, asset and epoch length, ModifyLiquidityProtectionRates below / at / above the maximum while on and while off, blocks in between and after; the demonstration of seeded change C10-8 literally, then one random plan per 20 scenarios); 14 directed defect inputs (the last: a ratio-shifting policy of zero blocks, end = start - 1); UpdatePmtpParams also draws the boundary values of the period length (end = start-2, start-1, start, start+epochLength-2 .. start+epochLength), then per scenario a fresh chain (2-3 pools, providers, a baseline of safe "
        "policies) and ONE of the ten AMM admin messages with extreme fields (uint64/int64 at 0, 1, 2^63-1, 2^63, 2^64-1; Uint up to "
        "2^256-1; nil optional fields; negative / huge / unparsable decimals; thresholds around the stored maximum) through the real "
        "ValidateBasic + message server; then >= 14 consecutive blocks plus the boundary heights of every configured period, each with "
        "user traffic, every block hook (epochs, mint, dispensation, margin, clp begin/end) under recover(); lines bb/eb = state in, "
        "state out or panic of the clp hooks (model must reproduce), lpu = MustUpdateLiquidityProtectionThreshold on a discarded branch, "
        "adm = one-directional acceptance + resulting state, inv/powenv = "
        "the theorems' invariant / math.Pow assumption evaluated on the implementation's state. "
        "userhist (L1, family 1): adversarial permissionless clp/margin/bank/dispensation/ethbridge messages (amounts 0, 1, 2^64+-1, 2^128, "
        "dust, near pool depths) under policies inside the envelope, all hooks under recover() after every block; every third history in a DEEP "
        "world (users hold 2^135 of each denom; pools created with native depth 10^18 or 2^64..2^128+1 and external depth 1, 2, 10^18 or 2^64..2^128+1; "
        "deposits, swaps and rewards-bucket top-ups from the same set, plus 2^255 / 2^256-1 that only the bank refuses); every tenth history is a pool with 3-9 providers of EQUAL units plus 1-2 dust providers (either address order), a bucket m*10^18, pool or wallet mode, "
        "the epoch ending with everyone eligible; directed: F16, the demonstration of seeded change C10-10 (six equal providers + dust, both modes), and the "
        "demonstration of seeded change C10-6 (pool 2^128 rowan, bucket 2^128 / 2^128-1 / 3*2^128 ceth, default rewards parameters, height jumped "
        "past the 14-day lock period, epoch ends). "
        "confine (L2, family 1): signed transactions through the full app; a panicking user message vs a plainly failing one on twin "
        "chains: error result and equal app hashes. non-trivial = distinct bb/eb/adm/powenv/confined line")
TRUSTED_BASE = [
    "Lean 4.33.0 kernel; axioms propext, Classical.choice, Quot.sound (audited per theorem on every run)",
    "hand-written Lean model of the clp BeginBlocker/EndBlocker arithmetic (Sif/Model/Hooks.lean, HooksEnd.lean) and of what the "
    "accepted admin messages write (Sif/Model/Validate.lean `apply…`), tied by differential execution (state in, state out, panicked?) "
    "against the real hooks and handlers",
    "extractor pass `validate` (go/ast walk of ValidateBasic + handler bodies: reject-if / guard / range / symbolic bindings; anything "
    "else is a barrier) and the evaluator `evalTerm/evalCond` giving the clause AST its meaning (int64/uint64 wrap, Dec raw integers)",
    "Go harness + line protocol + drv_policy parser",
    "math/big, cosmos-sdk sdk.Uint/sdk.Dec/sdk.Int (modelled as in Sif/Num/Basic.lean, exercised by the correspondence)",
    "x/bank mint/send/burn inside the EndBlocker: not modelled, assumed to return errors rather than panic inside the envelope (supply < 2^200)",
    "baseapp per-transaction panic recovery and cache discard (exercised by the L2 `confine` family, not modelled)",
    "math.Pow / %.18f / NewDecFromStr in PolicyStart: environment value",
]
ASSUMPTIONS = [
    "PowAccurateP: the block rate PolicyStart derives with math.Pow is >= 0 and (1+rate+1e-18)^numBlocks <= 2*(1+gov)^numEpochs "
    "(explicit decidable hypothesis of EnvOKP; evaluated by the harness on every block rate the real code derives: `powenv` lines)",
    "heights 0 < h < 2^62 (EnvOKP); pool balance + liabilities < 2^256 (PoolsOKP)",
    "UpdatePmtpParams: the inter-policy rate at submission is <= 2^250*10^-18 (state the message does not control)",
    "EndBlocker envelope EInvP: accumulated block distribution < 2^254, native depth of every pool <= 2^200 and their sum <= 2^200, "
    "RewardPeriodNativeDistributed <= 2^200, provider units <= pool units, providers => pool units >= 1 (C02 invariants; known finding "
    "F17 can break them), stored periods as validated",
    "message fields are in their Go types' ranges (int64 / uint64 / 256-bit Uint)",
]
UNPROVED = [
    "family 1 as an induction over user histories (hooks_total_userStatement): NOT proved — the permissionless message handlers are not "
    "part of this property's model; proved instead: in every state satisfying the explicit invariants both clp hooks return normally "
    "(hooks_total_user_partial, beginBlock_total, endBlock_total, policy_period_total). Preservation of PmtpInvP by user messages rests on "
    "code reading (no user message writes PMTP state); LpInv under swaps IS proved for the model of "
    "MustUpdateLiquidityProtectionThreshold (lp_user_swap_preserves, tied by `lpu` lines); the pool conjuncts of EInvP are C01/C02 "
    "invariants not proved here",
    "EInvP is not shown to be re-established by the EndBlocker itself (rewards grow pool balances): it is re-assumed per block",
    "hooks outside the model — epochs BeginBlocker -> clp AfterEpochEnd (F16), margin BeginBlocker (F21), dispensation BeginBlocker, "
    "cosmos x/mint BeginBlocker (F19): tested only (chk c10.hook / c10.safe on the real keepers), no theorem",
    "arithmetic envelope of the epoch hook (epochs BeginBlocker -> clp AfterEpochEnd), NOT modelled, what the unchanged code needs per asset "
    "with bucket B, eligible provider units u_i, pool units P, depths R (native) / A (external), liabilities nl / el, reward a_i: "
    "(1) sum u_i < 2^256 (sdk.Int.Add); (2) share_i = Dec(u_i).Quo(Dec(sum)) needs sum != 0 (guard F16), result <= 1; "
    "(3) share_i.MulInt(B) needs B*10^18 < 2^315, i.e. B < 2^255.2; (4) pool mode: R+nl, A+el < 2^256 (ExtractDebt); the symmetry test "
    "compares A/…, R/… as big.Rat (NO bound — seeded change C10-6 replaces it by sdk.Uint cross products that need R*a_i, A*r < 2^256); the "
    "asymmetric swap amount s is a big.Rat expression with 0 <= s <= a_i < 2^256; P*(a_i-s)/(A+s) < 2^256 and P + that < 2^256 "
    "(at most about P*sqrt(a_i/A), e.g. 2^128*2^64); A + a_i < 2^256; provider units + new units < 2^256; (5) pool.RewardAmountExternal + B "
    "< 2^256, provider reward coins + a_i < 2^256. All of these hold inside the section-5 envelope (deposits <= 2^128, supply < 2^200); "
    "tested by `userhist` with pools, deposits and buckets at 2^64, 2^100, 2^127, 2^128-1, 2^128, 2^128+1, 3*2^128 and external depth 1 / 2, "
    "in both reward modes",
    "confinement of a panicking user message (error result, state unchanged): tested at L2 on twin chains only",
    "UpdateRewardsParams, UpdateSwapFeeParams, SetSymmetryThreshold, UpdateStakingRewardParams: no safety theorem (their parameters are "
    "read by user-message paths or by the unmodelled hooks); the repaired F19 clauses are opaque to the extractor",
    "x/bank calls inside the EndBlocker are not modelled (assumed non-panicking, all sends succeed)",
]
MANIFEST = {
    "text": "Lean 4 theorems over an operation-by-operation model of the clp BeginBlocker (liquidity-protection replenishment, PMTP "
            "PolicyStart/PolicyCalculations incl. the square-and-multiply loop of sdk.Dec.Power, counters, PolicyRun) and EndBlocker "
            "(provider distribution, depth rewards): under explicit decidable invariants the hooks return normally for every state, "
            "rate, period length and history of blocks; every setting accepted by the (repaired) validation of ModifyPmtpRates, "
            "UpdatePmtpParams, ModifyLiquidityProtectionRates, UpdateLiquidityProtectionParams, AddRewardPeriod and "
            "AddProviderDistributionPeriod re-establishes those invariants. The validation the code really has is regenerated from the "
            "source as a clause AST on every run and proved (decide) to contain every clause the theorems use; the hook model is tied to "
            "the real keepers by differential execution; the property's own predicate (accepted => no hook panic; user history => no "
            "hook panic; panicking tx confined) is judged on the implementation's observations.",
    "note": "Proved: clp hooks only, under stated invariants/envelope (see ASSUMPTIONS). Tested, not proved: family 1 as a history "
            "induction, the epochs/margin/dispensation/mint hooks, L2 confinement, bank calls (see UNPROVED). Trusted: Lean kernel, the "
            "hand-written model (tied by correspondence only), the validate extractor + clause evaluator, harness/driver, sdk number "
            "types, baseapp, math.Pow accuracy (assumption, checked on observed values). Defects reproduced and repaired by this check: "
            "F3 F4 F5 F12 F13 (design), F16 (lead), F18 F19 F21 (found here).",
    "technique": "Lean 4 proof + regenerated validation facts + differential correspondence (model vs real Go)",
    "design_ref": "4/C10",
}
