# C10 — block processing never panics for user histories or accepted policy settings
LEAN_MODULES = ["Sif.Props.C10"]
EXTRACT = [{"group": "policy", "passes": ["validate"]}]
FAMILIES = [
    {"name": "policy", "family": "policy", "group": "policy", "driver": "drv_policy",
     "n_quick": 1200, "n_thorough": 12000, "seeds_thorough": 2},
    {"name": "userhist", "family": "userhist", "group": "policy", "driver": "drv_policy",
     "n_quick": 500, "n_thorough": 6000, "seeds_thorough": 2},
    {"name": "confine", "family": "confine", "group": "policy", "driver": "drv_policy",
     "n_quick": 300, "n_thorough": 3000, "seeds_thorough": 2},
]
RULE = ("policy: per scenario a fresh chain (2-3 pools, providers, a baseline of valid policies); one of the ten AMM admin "
        "messages with extreme fields (uint64/int64 near 2^63/2^64, 0, Uint up to 2^256-1, nil optional fields, negative/huge/"
        "unparsable decimals, thresholds around the current maximum) through the real ValidateBasic + message server; then >= 14 "
        "consecutive blocks plus the boundary heights of every configured period, each with user traffic, every hook under recover(); "
        "non-trivial = distinct bb/eb/adm line")
TRUSTED_BASE = [
    "Lean 4.33.0 kernel; axioms propext, Classical.choice, Quot.sound (audited per theorem on every run)",
    "hand-written Lean model of clp BeginBlocker/EndBlocker arithmetic (Sif/Model/Hooks*.lean), tied by differential execution (state in, state out, panicked?) against the real hooks",
    "Go harness + line protocol + drv_policy parser",
    "math/big, cosmos-sdk sdk.Uint/sdk.Dec (modelled), x/bank mint/send/burn (not modelled: assumed not to panic inside the envelope)",
    "math.Pow / %.18f / NewDecFromStr in PolicyStart: environment value",
]
ASSUMPTIONS = []
UNPROVED = []
MANIFEST = {
    "text": "",
    "note": "",
    "technique": "Lean 4 proof + regenerated validation facts + differential correspondence (model vs real Go)",
    "design_ref": "4/C10",
}
