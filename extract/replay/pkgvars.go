package main

// Pass `pkgvars` (tie 1 of C09): process-level mutable state.  Lists every package-level variable of
// x/ and app/ (non-test, non-CLI, non-simulation code) that is WRITTEN outside `init` functions and
// outside package-level initialisers: assignment to the variable, to one of its fields or elements
// (`v = …`, `v.f = …`, `v[i] = …`, `v++`), taking its address (`&v`), or calling a method on it (a method
// can mutate a struct value through a pointer receiver, or the object a pointer/map variable refers
// to).  Writes to package-level variables of OTHER packages (`sdk.DefaultPowerReduction = …`) are
// listed too.  Anything a node keeps in such a variable survives from block to block and from one
// application instance to the next in the same process, outside the committed state: every such
// variable must be an audited one (Sif.Spec.C09.auditedPkgVars).
// Output: lean/Sif/Generated/PkgVars.lean.

import (
	"fmt"
	"go/ast"
	"go/token"
	"go/types"
	"path/filepath"
	"sort"
	"strings"
)

func init() {
	passes["pkgvars"] = func(c *Ctx) error {
		pkgs, loadErrs, err := loadTyped(c)
		if err != nil {
			return err
		}
		type key struct{ pkg, name string }
		typ := map[key]string{}
		writes := map[key]map[string]bool{}
		add := func(k key, t, w string) {
			typ[k] = t
			if writes[k] == nil {
				writes[k] = map[string]bool{}
			}
			writes[k][w] = true
		}
		for _, p := range pkgs {
			relPkg := strings.TrimPrefix(p.PkgPath, "github.com/Sifchain/sifnode/")
			// the package-level variable an expression is rooted in (after peeling fields, elements, derefs)
			var rootVar func(e ast.Expr) (key, string, bool)
			rootVar = func(e ast.Expr) (key, string, bool) {
				switch x := e.(type) {
				case *ast.ParenExpr:
					return rootVar(x.X)
				case *ast.StarExpr:
					return rootVar(x.X)
				case *ast.IndexExpr:
					return rootVar(x.X)
				case *ast.SliceExpr:
					return rootVar(x.X)
				case *ast.Ident:
					if v, ok := p.TypesInfo.Uses[x].(*types.Var); ok && !v.IsField() && v.Pkg() != nil && v.Parent() == v.Pkg().Scope() {
						if v.Pkg() == p.Types {
							return key{relPkg, v.Name()}, typeStr(v.Type()), true
						}
						return key{"extern:" + v.Pkg().Path(), v.Name()}, typeStr(v.Type()), true
					}
				case *ast.SelectorExpr:
					if id, ok := x.X.(*ast.Ident); ok {
						if _, isPkg := p.TypesInfo.Uses[id].(*types.PkgName); isPkg {
							if v, ok := p.TypesInfo.Uses[x.Sel].(*types.Var); ok && v.Pkg() != nil && v.Parent() == v.Pkg().Scope() {
								return key{"extern:" + v.Pkg().Path(), v.Name()}, typeStr(v.Type()), true
							}
							return key{}, "", false
						}
					}
					if sel, ok := p.TypesInfo.Selections[x]; ok && sel.Kind() == types.FieldVal {
						return rootVar(x.X)
					}
				}
				return key{}, "", false
			}
			for _, f := range p.Syntax {
				rel, _ := filepath.Rel(c.Repo, c.Fset.Position(f.Pos()).Filename)
				if excludedFile(rel) || strings.HasSuffix(rel, ".pb.go") || strings.HasSuffix(rel, ".pb.gw.go") {
					continue
				}
				for _, d := range f.Decls {
					fd, ok := d.(*ast.FuncDecl)
					if !ok || fd.Body == nil || (fd.Name.Name == "init" && fd.Recv == nil) {
						continue
					}
					fn := funcName(fd)
					ast.Inspect(fd.Body, func(n ast.Node) bool {
						switch s := n.(type) {
						case *ast.AssignStmt:
							if s.Tok == token.DEFINE {
								return true
							}
							for _, l := range s.Lhs {
								if k, t, ok := rootVar(l); ok {
									add(k, t, "assign@"+fn)
								}
							}
						case *ast.IncDecStmt:
							if k, t, ok := rootVar(s.X); ok {
								add(k, t, "assign@"+fn)
							}
						case *ast.UnaryExpr:
							if s.Op == token.AND {
								if k, t, ok := rootVar(s.X); ok {
									add(k, t, "addr@"+fn)
								}
							}
						case *ast.CallExpr:
							if fs, ok := s.Fun.(*ast.SelectorExpr); ok {
								if sel, ok := p.TypesInfo.Selections[fs]; ok && sel.Kind() == types.MethodVal {
									// methods of variables of OTHER packages (error values, codecs, byte orders) are those packages' business
									if k, t, ok := rootVar(fs.X); ok && !strings.HasPrefix(k.pkg, "extern:") {
										add(k, t, "call:"+fs.Sel.Name)
									}
								}
							}
						}
						return true
					})
				}
			}
		}
		keys := make([]key, 0, len(writes))
		for k := range writes {
			keys = append(keys, k)
		}
		sort.Slice(keys, func(i, j int) bool {
			if keys[i].pkg != keys[j].pkg {
				return keys[i].pkg < keys[j].pkg
			}
			return keys[i].name < keys[j].name
		})
		var sb strings.Builder
		sb.WriteString("import Sif.Model.Determinism\n")
		sb.WriteString("/- Tie 1 of C09: package-level variables written outside init (process-level mutable state). -/\n")
		sb.WriteString("namespace Sif.Generated.PkgVars\nopen Sif.Det\n\n")
		sb.WriteString("def loadErrors : List String := " + leanList(loadErrs) + "\n\n")
		sb.WriteString("def pkgVars : List PkgVar := [\n")
		for i, k := range keys {
			ws := make([]string, 0, len(writes[k]))
			for w := range writes[k] {
				ws = append(ws, w)
			}
			sort.Strings(ws)
			sep := ","
			if i == len(keys)-1 {
				sep = ""
			}
			fmt.Fprintf(&sb, "  { pkg := %s, name := %s, ty := %s,\n    writes := %s }%s\n", LeanStr(k.pkg), LeanStr(k.name), LeanStr(typ[k]), leanList(ws), sep)
		}
		sb.WriteString("]\n\nend Sif.Generated.PkgVars\n")
		return c.WriteLean("PkgVars", sb.String())
	}
}
