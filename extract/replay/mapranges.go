package main

// Pass `mapranges` (tie 1 of C09, DESIGN 4/C09).  Type-checked (go/types via go/packages) scan of the
// non-test, non-CLI, non-simulation code of x/ and app/:
//   * every `range` statement whose operand has map type (underlying type, after pointers are NOT
//     followed: Go cannot range over *map), with package, enclosing function, operand text, key and
//     value types, the calls made in the loop body (in source order) and the control statements
//     that make the iteration order observable (`break`, `return`, `goto`, labelled `continue`);
//   * every use of a floating-point type, of package `math`, `math/rand`, `crypto/rand`, of
//     `time.Now/Since/Until`, every `go` statement and every `select` statement, per function.
// Output: lean/Sif/Generated/MapRanges.lean.  If a package does not type-check, or the type of a
// range operand is not known, the fact says so (`loadErrors`, key type "unknown") and the Lean
// obligation fails; nothing is guessed.

import (
	"fmt"
	"go/ast"
	"go/token"
	"go/types"
	"os"
	"path/filepath"
	"sort"
	"strings"

	"golang.org/x/tools/go/packages"
)

var typedPkgs []*packages.Package
var typedErrs []string

// excludedDirSegments / excluded file patterns: what "non-test, non-CLI, non-simulation" means here.
var excludedDirSegments = []string{"client", "simulation", "test", "testutil", "testhelpers", "mocks", "mock"}

func excludedFile(rel string) bool {
	segs := strings.Split(filepath.ToSlash(rel), "/")
	for _, s := range segs[:len(segs)-1] {
		for _, e := range excludedDirSegments {
			if s == e {
				return true
			}
		}
	}
	base := segs[len(segs)-1]
	return strings.HasSuffix(base, "_test.go") || strings.HasPrefix(base, "test_") || strings.HasSuffix(base, "_simulation.go")
}

func loadTyped(c *Ctx) ([]*packages.Package, []string, error) {
	if typedPkgs != nil {
		return typedPkgs, typedErrs, nil
	}
	env := []string{}
	for _, e := range os.Environ() {
		if strings.HasPrefix(e, "GOFLAGS=") {
			continue
		}
		env = append(env, e)
	}
	// -mod=mod: the repository's go.mod is used as it is in the working tree; the module cache is offline.
	env = append(env, "GOFLAGS=-mod=mod", "GOPROXY=off", "GOSUMDB=off", "GOTOOLCHAIN=local")
	cfg := &packages.Config{
		Mode: packages.NeedName | packages.NeedFiles | packages.NeedCompiledGoFiles | packages.NeedImports |
			packages.NeedTypes | packages.NeedSyntax | packages.NeedTypesInfo | packages.NeedTypesSizes,
		Dir:   c.Repo,
		Env:   env,
		Tests: false,
		Fset:  c.Fset,
	}
	pkgs, err := packages.Load(cfg, "./x/...", "./app/...")
	if err != nil {
		return nil, nil, err
	}
	sort.Slice(pkgs, func(i, j int) bool { return pkgs[i].PkgPath < pkgs[j].PkgPath })
	var errs []string
	for _, p := range pkgs {
		for _, e := range p.Errors {
			errs = append(errs, p.PkgPath+": "+e.Msg)
		}
	}
	typedPkgs, typedErrs = pkgs, errs
	return pkgs, errs, nil
}

func funcName(fd *ast.FuncDecl) string {
	if fd.Recv != nil && len(fd.Recv.List) > 0 {
		t := fd.Recv.List[0].Type
		if st, ok := t.(*ast.StarExpr); ok {
			t = st.X
		}
		if ix, ok := t.(*ast.IndexExpr); ok {
			t = ix.X
		}
		if id, ok := t.(*ast.Ident); ok {
			return id.Name + "." + fd.Name.Name
		}
	}
	return fd.Name.Name
}

func calleeName(c *Ctx, call *ast.CallExpr) string {
	switch f := call.Fun.(type) {
	case *ast.Ident:
		return f.Name
	case *ast.SelectorExpr:
		// keep one level of qualifier: k.SetPool, k.bankKeeper.SendCoinsFromModuleToAccount → bankKeeper.SendCoins…
		switch x := f.X.(type) {
		case *ast.Ident:
			return x.Name + "." + f.Sel.Name
		case *ast.SelectorExpr:
			return x.Sel.Name + "." + f.Sel.Name
		case *ast.CallExpr:
			return calleeName(c, x) + "()." + f.Sel.Name
		default:
			return "_." + f.Sel.Name
		}
	default:
		return "(" + c.Src(call.Fun) + ")"
	}
}

type rangeSite struct {
	pkg, fn, operand, key, val string
	next                       string // source of the statement right after the loop (reported for single-statement bodies only)
	calls, exits               []string
	line                       int
}

type useSite struct {
	pkg, fn, kind string
	n             int
}

// bodyFacts lists the calls of the loop body in source order and the order-revealing exits.
func bodyFacts(c *Ctx, body *ast.BlockStmt) (calls, exits []string) {
	// inner = nesting depth of inner loops/switches (a `break` inside an inner loop does not leave ours)
	var walk func(n ast.Node, inner int)
	walk = func(n ast.Node, inner int) {
		ast.Inspect(n, func(m ast.Node) bool {
			switch s := m.(type) {
			case *ast.CallExpr:
				calls = append(calls, calleeName(c, s))
			case *ast.FuncLit:
				calls = append(calls, "funclit")
			case *ast.ReturnStmt:
				exits = append(exits, "return")
			case *ast.BranchStmt:
				switch s.Tok {
				case token.BREAK:
					if s.Label != nil {
						exits = append(exits, "break-label")
					} else if inner == 0 {
						exits = append(exits, "break")
					}
				case token.GOTO:
					exits = append(exits, "goto")
				case token.CONTINUE:
					if s.Label != nil {
						exits = append(exits, "continue-label")
					}
				}
			case *ast.ForStmt:
				if s != n {
					walkLoop(s.Init, s.Cond, s.Post, walk, inner)
					walk(s.Body, inner+1)
					return false
				}
			case *ast.RangeStmt:
				if m != n {
					walk(s.X, inner)
					walk(s.Body, inner+1)
					return false
				}
			case *ast.SwitchStmt:
				if m != n {
					if s.Init != nil {
						walk(s.Init, inner)
					}
					if s.Tag != nil {
						walk(s.Tag, inner)
					}
					walk(s.Body, inner+1)
					return false
				}
			case *ast.TypeSwitchStmt:
				if m != n {
					walk(s.Body, inner+1)
					return false
				}
			case *ast.SelectStmt:
				if m != n {
					walk(s.Body, inner+1)
					return false
				}
			}
			return true
		})
	}
	walk(body, 0)
	return
}

func walkLoop(init ast.Stmt, cond ast.Expr, post ast.Stmt, walk func(ast.Node, int), inner int) {
	if init != nil {
		walk(init, inner)
	}
	if cond != nil {
		walk(cond, inner)
	}
	if post != nil {
		walk(post, inner)
	}
}

// timeFlow says where the value of a time.Now()/Since()/Until() call goes: "telemetry" when the call is directly an
// argument of a function of package telemetry; otherwise, when it is assigned to a variable, the sorted list of
// everything that consumes that variable in the same function (callee names, `&v`, assignment targets); "expr:…"
// for any other direct use.  A wall-clock value may reach telemetry and log lines only.
func timeFlow(c *Ctx, p *packages.Package, parents map[ast.Node]ast.Node, sel *ast.SelectorExpr) string {
	var call ast.Node = parents[sel] // the CallExpr time.Now()
	if _, ok := call.(*ast.CallExpr); !ok {
		return "expr:value-of-func"
	}
	isTelemetry := func(ce *ast.CallExpr) bool {
		if fs, ok := ce.Fun.(*ast.SelectorExpr); ok {
			if id, ok := fs.X.(*ast.Ident); ok {
				if pn, ok := p.TypesInfo.Uses[id].(*types.PkgName); ok && strings.HasSuffix(pn.Imported().Path(), "/telemetry") {
					return true
				}
			}
		}
		return false
	}
	par := parents[call]
	switch x := par.(type) {
	case *ast.CallExpr:
		if isTelemetry(x) {
			return "telemetry"
		}
		return "expr:arg-of-" + calleeName(c, x)
	case *ast.AssignStmt, *ast.ValueSpec:
		var names []*ast.Ident
		if as, ok := x.(*ast.AssignStmt); ok {
			for _, l := range as.Lhs {
				if id, ok := l.(*ast.Ident); ok {
					names = append(names, id)
				}
			}
		} else {
			names = x.(*ast.ValueSpec).Names
		}
		if len(names) != 1 {
			return "expr:multi-assign"
		}
		obj := p.TypesInfo.Defs[names[0]]
		if obj == nil {
			obj = p.TypesInfo.Uses[names[0]]
		}
		// the enclosing function body
		var fn ast.Node = par
		for parents[fn] != nil {
			fn = parents[fn]
		}
		var consumers []string
		ast.Inspect(fn, func(n ast.Node) bool {
			id, ok := n.(*ast.Ident)
			if !ok || p.TypesInfo.Uses[id] != obj {
				return true
			}
			switch u := parents[id].(type) {
			case *ast.CallExpr:
				if isTelemetry(u) {
					consumers = append(consumers, "telemetry")
				} else {
					consumers = append(consumers, "arg-of-"+calleeName(c, u))
				}
			case *ast.SelectorExpr:
				if ce, ok := parents[u].(*ast.CallExpr); ok && ce.Fun == u {
					consumers = append(consumers, "method-"+u.Sel.Name)
				} else {
					consumers = append(consumers, "field-"+u.Sel.Name)
				}
			case *ast.UnaryExpr:
				consumers = append(consumers, "addr-taken")
			default:
				consumers = append(consumers, fmt.Sprintf("in-%T", u))
			}
			return true
		})
		sort.Strings(consumers)
		return "var " + names[0].Name + " -> " + strings.Join(consumers, ",")
	default:
		return fmt.Sprintf("expr:in-%T", par)
	}
}

func typeStr(t types.Type) string {
	return types.TypeString(t, func(p *types.Package) string { return p.Name() })
}

func isFloat(t types.Type) bool {
	if t == nil {
		return false
	}
	b, ok := t.Underlying().(*types.Basic)
	return ok && b.Info()&(types.IsFloat|types.IsComplex) != 0
}

func leanList(xs []string) string {
	q := make([]string, len(xs))
	for i, x := range xs {
		q[i] = LeanStr(x)
	}
	return "[" + strings.Join(q, ", ") + "]"
}

func init() {
	passes["mapranges"] = func(c *Ctx) error {
		pkgs, loadErrs, err := loadTyped(c)
		if err != nil {
			return err
		}
		var ranges []rangeSite
		uses := map[[3]string]int{}
		nfiles := 0
		for _, p := range pkgs {
			relPkg := strings.TrimPrefix(p.PkgPath, "github.com/Sifchain/sifnode/")
			for _, f := range p.Syntax {
				fname := c.Fset.Position(f.Pos()).Filename
				rel, _ := filepath.Rel(c.Repo, fname)
				if excludedFile(rel) {
					continue
				}
				nfiles++
				// enclosing function of every node: walk declarations
				for _, d := range f.Decls {
					fn := "<package-level>"
					var root ast.Node = d
					if fd, ok := d.(*ast.FuncDecl); ok {
						fn = funcName(fd)
						if fd.Body == nil {
							continue
						}
					}
					use := func(kind string) { uses[[3]string{relPkg, fn, kind}]++ }
					// parent of every node of the declaration (to see where a wall-clock value flows)
					parents := map[ast.Node]ast.Node{}
					{
						var stack []ast.Node
						ast.Inspect(root, func(n ast.Node) bool {
							if n == nil {
								stack = stack[:len(stack)-1]
								return true
							}
							if len(stack) > 0 {
								parents[n] = stack[len(stack)-1]
							}
							stack = append(stack, n)
							return true
						})
					}
					// statement following each range statement in its statement list
					nextOf := map[*ast.RangeStmt]ast.Stmt{}
					ast.Inspect(root, func(n ast.Node) bool {
						var list []ast.Stmt
						switch b := n.(type) {
						case *ast.BlockStmt:
							list = b.List
						case *ast.CaseClause:
							list = b.Body
						case *ast.CommClause:
							list = b.Body
						}
						for i, st := range list {
							if rs, ok := st.(*ast.RangeStmt); ok && i+1 < len(list) {
								nextOf[rs] = list[i+1]
							}
						}
						return true
					})
					ast.Inspect(root, func(n ast.Node) bool {
						// every expression (value, not type) of floating-point or complex type
						if e, ok := n.(ast.Expr); ok {
							if tv, ok := p.TypesInfo.Types[e]; ok && tv.IsValue() && isFloat(tv.Type) {
								use("float")
							}
						}
						switch s := n.(type) {
						case *ast.RangeStmt:
							tv, ok := p.TypesInfo.Types[s.X]
							if !ok || tv.Type == nil {
								ranges = append(ranges, rangeSite{pkg: relPkg, fn: fn, operand: c.Src(s.X), key: "unknown", val: "unknown", line: c.Fset.Position(s.Pos()).Line})
								return true
							}
							if mt, ok := tv.Type.Underlying().(*types.Map); ok {
								calls, exits := bodyFacts(c, s.Body)
								next := ""
								if len(s.Body.List) == 1 && nextOf[s] != nil {
									next = c.Src(nextOf[s])
									if len(next) > 120 {
										next = next[:120]
									}
								}
								ranges = append(ranges, rangeSite{pkg: relPkg, fn: fn, operand: c.Src(s.X), key: typeStr(mt.Key()), val: typeStr(mt.Elem()),
									calls: calls, exits: exits, next: next, line: c.Fset.Position(s.Pos()).Line})
							} else if _, isTP := tv.Type.(*types.TypeParam); isTP {
								ranges = append(ranges, rangeSite{pkg: relPkg, fn: fn, operand: c.Src(s.X), key: "unknown", val: "unknown", line: c.Fset.Position(s.Pos()).Line})
							}
						case *ast.GoStmt:
							use("go")
						case *ast.SelectStmt:
							use("select")
						case *ast.SelectorExpr:
							if id, ok := s.X.(*ast.Ident); ok {
								if pn, ok := p.TypesInfo.Uses[id].(*types.PkgName); ok {
									switch pn.Imported().Path() {
									case "math":
										use("math." + s.Sel.Name)
									case "math/rand", "crypto/rand", "math/rand/v2":
										use("rand")
									case "maps", "golang.org/x/exp/maps":
										use("maps." + s.Sel.Name) // Keys/Values/All… yield map order
									case "os", "syscall", "runtime":
										if s.Sel.Name == "Getenv" || s.Sel.Name == "LookupEnv" || s.Sel.Name == "Environ" || s.Sel.Name == "Getpid" || s.Sel.Name == "Hostname" || s.Sel.Name == "Getwd" ||
											s.Sel.Name == "UserHomeDir" || s.Sel.Name == "TempDir" || s.Sel.Name == "NumCPU" || s.Sel.Name == "GOMAXPROCS" || s.Sel.Name == "NumGoroutine" || s.Sel.Name == "GOOS" || s.Sel.Name == "GOARCH" {
											use("env." + s.Sel.Name)
										}
									case "time":
										switch s.Sel.Name {
										case "Now", "Since", "Until":
											use("time")
											use("time.flow:" + timeFlow(c, p, parents, s))
										case "Unix", "UnixMilli", "UnixMicro", "Local", "LoadLocation", "LoadLocationFromTZData", "Parse", "ParseInLocation":
											// time.Unix* return times in time.Local; Parse resolves zone abbreviations against Local:
											// anything rendered from them depends on the process's time zone
											use("time." + s.Sel.Name)
										}
									}
									return true
								}
							}
							// map order through reflection or sync.Map
							if sel, ok := p.TypesInfo.Selections[s]; ok {
								recv := typeStr(sel.Recv())
								// rendering / re-zoning a time value: the text depends on the value's Location
								if recv == "time.Time" && sel.Kind() == types.MethodVal {
									switch s.Sel.Name {
									case "String", "Format", "AppendFormat", "Local", "In", "Zone", "Location", "GoString":
										use("timefmt." + s.Sel.Name)
									}
								}
								if (recv == "reflect.Value" && (s.Sel.Name == "MapKeys" || s.Sel.Name == "MapRange")) ||
									((recv == "sync.Map" || recv == "*sync.Map") && s.Sel.Name == "Range") {
									use("maporder." + s.Sel.Name)
								}
							}
						}
						return true
					})
				}
			}
		}
		sort.SliceStable(ranges, func(i, j int) bool {
			a, b := ranges[i], ranges[j]
			if a.pkg != b.pkg {
				return a.pkg < b.pkg
			}
			if a.fn != b.fn {
				return a.fn < b.fn
			}
			return a.line < b.line
		})
		var sb strings.Builder
		sb.WriteString("import Sif.Model.Determinism\n")
		sb.WriteString("/- Tie 1 of C09: every `range` over a map-typed operand and every use of floats, package math,\n")
		sb.WriteString("   randomness, wall-clock time, goroutines and select in the non-test, non-CLI, non-simulation code of\n")
		sb.WriteString("   x/ and app/ (go/types).  Excluded directory segments: " + strings.Join(excludedDirSegments, ", ") + ";\n")
		sb.WriteString("   excluded files: *_test.go, test_*.go, *_simulation.go. -/\n")
		sb.WriteString("namespace Sif.Generated.MapRanges\nopen Sif.Det\n\n")
		fmt.Fprintf(&sb, "def filesScanned : Nat := %d\n\n", nfiles)
		sb.WriteString("/-- type-check errors of the scanned packages (must be empty for the facts to be sound) -/\n")
		sb.WriteString("def loadErrors : List String := " + leanList(loadErrs) + "\n\n")
		sb.WriteString("def mapRanges : List RangeSite := [\n")
		for i, r := range ranges {
			sep := ","
			if i == len(ranges)-1 {
				sep = ""
			}
			fmt.Fprintf(&sb, "  { pkg := %s, fn := %s, operand := %s, key := %s, val := %s,\n    calls := %s, exits := %s, next := %s }%s\n",
				LeanStr(r.pkg), LeanStr(r.fn), LeanStr(r.operand), LeanStr(r.key), LeanStr(r.val), leanList(r.calls), leanList(r.exits), LeanStr(r.next), sep)
		}
		sb.WriteString("]\n\n")
		keys := make([][3]string, 0, len(uses))
		for k := range uses {
			keys = append(keys, k)
		}
		sort.Slice(keys, func(i, j int) bool {
			for x := 0; x < 3; x++ {
				if keys[i][x] != keys[j][x] {
					return keys[i][x] < keys[j][x]
				}
			}
			return false
		})
		sb.WriteString("def nondetUses : List UseSite := [\n")
		for i, k := range keys {
			sep := ","
			if i == len(keys)-1 {
				sep = ""
			}
			fmt.Fprintf(&sb, "  { pkg := %s, fn := %s, kind := %s, n := %d }%s\n", LeanStr(k[0]), LeanStr(k[1]), LeanStr(k[2]), uses[k], sep)
		}
		sb.WriteString("]\n\nend Sif.Generated.MapRanges\n")
		return c.WriteLean("MapRanges", sb.String())
	}
}
