package main

// Pass `genesis` (tie 1 of C14, DESIGN 4/C14).  For every module under x/ that declares a
// `GenesisState` struct: its fields; for each field, how often and through which calls it is
// consumed by the functions named `InitGenesis`, and from which calls it is produced in the
// functions named `ExportGenesis` (composite literal `GenesisState{Field: …}`; an identifier value
// is traced to the calls on the right-hand side of its assignments in the same function).
// Output: lean/Sif/Generated/Genesis.lean.  A field whose use cannot be classified gets an
// empty call list and zero references, which fails the Lean obligation.

import (
	"fmt"
	"go/ast"
	"go/types"
	"path/filepath"
	"sort"
	"strings"
)

type genField struct {
	module, name, typ string
	initRefs          int
	initCalls         []string
	exportRefs        int
	exportFrom        []string
}

func uniqSorted(xs []string) []string {
	m := map[string]bool{}
	for _, x := range xs {
		m[x] = true
	}
	out := make([]string, 0, len(m))
	for x := range m {
		out = append(out, x)
	}
	sort.Strings(out)
	return out
}

func init() {
	passes["genesis"] = func(c *Ctx) error {
		pkgs, loadErrs, err := loadTyped(c)
		if err != nil {
			return err
		}
		// 1. GenesisState structs per module
		type modInfo struct {
			obj    *types.TypeName
			fields []*types.Var
		}
		mods := map[string]*modInfo{}
		moduleOf := func(pkgPath string) string {
			rel := strings.TrimPrefix(pkgPath, "github.com/Sifchain/sifnode/")
			parts := strings.Split(rel, "/")
			if len(parts) >= 2 && parts[0] == "x" {
				return parts[1]
			}
			return ""
		}
		for _, p := range pkgs {
			m := moduleOf(p.PkgPath)
			if m == "" || p.Types == nil {
				continue
			}
			rel := strings.TrimPrefix(p.PkgPath, "github.com/Sifchain/sifnode/")
			if excludedFile(rel + "/x.go") {
				continue
			}
			if strings.Contains(rel, "/legacy") {
				continue
			}
			obj := p.Types.Scope().Lookup("GenesisState")
			tn, ok := obj.(*types.TypeName)
			if !ok || tn.IsAlias() {
				continue
			}
			st, ok := tn.Type().Underlying().(*types.Struct)
			if !ok {
				continue
			}
			mi := &modInfo{obj: tn}
			for i := 0; i < st.NumFields(); i++ {
				f := st.Field(i)
				if strings.HasPrefix(f.Name(), "XXX_") {
					continue
				}
				mi.fields = append(mi.fields, f)
			}
			mods[m] = mi
		}
		// 2. references inside InitGenesis / ExportGenesis of the module's packages
		fields := map[*types.Var]*genField{}
		var order []*genField
		modNames := make([]string, 0, len(mods))
		for m := range mods {
			modNames = append(modNames, m)
		}
		sort.Strings(modNames)
		for _, m := range modNames {
			for _, f := range mods[m].fields {
				gf := &genField{module: m, name: f.Name(), typ: typeStr(f.Type())}
				fields[f] = gf
				order = append(order, gf)
			}
		}
		for _, p := range pkgs {
			m := moduleOf(p.PkgPath)
			if m == "" || mods[m] == nil {
				continue
			}
			for _, file := range p.Syntax {
				rel, _ := filepath.Rel(c.Repo, c.Fset.Position(file.Pos()).Filename)
				if excludedFile(rel) {
					continue
				}
				for _, d := range file.Decls {
					fd, ok := d.(*ast.FuncDecl)
					if !ok || fd.Body == nil || (fd.Name.Name != "InitGenesis" && fd.Name.Name != "ExportGenesis") {
						continue
					}
					isInit := fd.Name.Name == "InitGenesis"
					fieldOf := func(e ast.Expr) *genField {
						switch x := e.(type) {
						case *ast.SelectorExpr:
							if sel, ok := p.TypesInfo.Selections[x]; ok {
								if v, ok := sel.Obj().(*types.Var); ok {
									return fields[v]
								}
							}
						case *ast.Ident:
							if v, ok := p.TypesInfo.Uses[x].(*types.Var); ok && v.IsField() {
								return fields[v]
							}
						}
						return nil
					}
					// definitions of local identifiers: x := e, x = e, x[i] = e, x.f = e, `for k, v := range e`;
					// an element assignment inside a range statement also depends on the ranged expression
					defs := map[string][]ast.Expr{}
					var rangeStack []ast.Expr
					var walkDefs func(n ast.Node)
					walkDefs = func(n ast.Node) {
						ast.Inspect(n, func(k ast.Node) bool {
							switch st := k.(type) {
							case *ast.RangeStmt:
								if k == n {
									return true
								}
								for _, kv := range []ast.Expr{st.Key, st.Value} {
									if id, ok := kv.(*ast.Ident); ok && id.Name != "_" {
										defs[id.Name] = append(defs[id.Name], st.X)
									}
								}
								rangeStack = append(rangeStack, st.X)
								walkDefs(st.Body)
								rangeStack = rangeStack[:len(rangeStack)-1]
								return false
							case *ast.AssignStmt:
								for _, l := range st.Lhs {
									base := l
									indexed := false
									for {
										switch b := base.(type) {
										case *ast.IndexExpr:
											base, indexed = b.X, true
											continue
										case *ast.SelectorExpr:
											if _, isField := p.TypesInfo.Selections[b]; isField {
												base = b.X
												continue
											}
										case *ast.StarExpr:
											base = b.X
											continue
										}
										break
									}
									if id, ok := base.(*ast.Ident); ok && id.Name != "_" {
										defs[id.Name] = append(defs[id.Name], st.Rhs...)
										if indexed {
											defs[id.Name] = append(defs[id.Name], rangeStack...)
										}
									}
								}
							}
							return true
						})
					}
					walkDefs(fd.Body)
					// closure: the calls and genesis fields an expression depends on
					closure := func(e ast.Expr) (calls []string, gfs []*genField) {
						seen := map[string]bool{}
						var visit func(x ast.Node)
						visit = func(x ast.Node) {
							if x == nil {
								return
							}
							ast.Inspect(x, func(k ast.Node) bool {
								switch y := k.(type) {
								case *ast.CallExpr:
									calls = append(calls, calleeName(c, y))
								case *ast.SelectorExpr:
									if gf := fieldOf(y); gf != nil {
										gfs = append(gfs, gf)
									}
								case *ast.Ident:
									if !seen[y.Name] {
										seen[y.Name] = true
										for _, d := range defs[y.Name] {
											visit(d)
										}
									}
								}
								return true
							})
						}
						visit(e)
						return
					}
					builtin := map[string]bool{"len": true, "make": true, "append": true, "panic": true, "uint64": true, "int64": true, "string": true}
					if isInit {
						ast.Inspect(fd.Body, func(n ast.Node) bool {
							switch s := n.(type) {
							case *ast.SelectorExpr:
								if gf := fieldOf(s); gf != nil {
									gf.initRefs++
								}
							case *ast.CallExpr:
								name := calleeName(c, s)
								if builtin[name] {
									return true
								}
								for _, a := range s.Args {
									_, gfs := closure(a)
									for _, gf := range gfs {
										gf.initCalls = append(gf.initCalls, name)
									}
								}
							}
							return true
						})
					} else {
						ast.Inspect(fd.Body, func(n ast.Node) bool {
							cl, ok := n.(*ast.CompositeLit)
							if !ok {
								return true
							}
							tv, ok := p.TypesInfo.Types[cl]
							if !ok {
								return true
							}
							nt, ok := tv.Type.(*types.Named)
							if !ok || nt.Obj() != mods[m].obj {
								return true
							}
							for i, el := range cl.Elts {
								var gf *genField
								var val ast.Expr
								if kv, ok := el.(*ast.KeyValueExpr); ok {
									if id, ok := kv.Key.(*ast.Ident); ok {
										gf = fieldOf(id)
									}
									val = kv.Value
								} else if i < len(mods[m].fields) {
									gf = fields[mods[m].fields[i]]
									val = el
								}
								if gf == nil {
									continue
								}
								gf.exportRefs++
								calls, _ := closure(val)
								for _, cn := range calls {
									if !builtin[cn] {
										gf.exportFrom = append(gf.exportFrom, cn)
									}
								}
							}
							return true
						})
					}
				}
			}
		}
		var sb strings.Builder
		sb.WriteString("import Sif.Model.Genesis\n")
		sb.WriteString("/- Tie 1 of C14: the fields of every module's GenesisState and how InitGenesis consumes / ExportGenesis\n")
		sb.WriteString("   produces each of them (go/types; functions named InitGenesis / ExportGenesis of the module's packages). -/\n")
		sb.WriteString("namespace Sif.Generated.Genesis\nopen Sif.Gen\n\n")
		sb.WriteString("def loadErrors : List String := " + leanList(loadErrs) + "\n\n")
		sb.WriteString("def modules : List String := " + leanList(modNames) + "\n\n")
		sb.WriteString("def fields : List GenField := [\n")
		for i, gf := range order {
			sep := ","
			if i == len(order)-1 {
				sep = ""
			}
			fmt.Fprintf(&sb, "  { module := %s, field := %s, ty := %s,\n    initRefs := %d, initCalls := %s,\n    exportRefs := %d, exportFrom := %s }%s\n",
				LeanStr(gf.module), LeanStr(gf.name), LeanStr(gf.typ), gf.initRefs, leanList(uniqSorted(gf.initCalls)), gf.exportRefs, leanList(uniqSorted(gf.exportFrom)), sep)
		}
		sb.WriteString("]\n\nend Sif.Generated.Genesis\n")
		return c.WriteLean("Genesis", sb.String())
	}
}
