package main

// pass "ante" (C19): regenerates lean/Sif/Generated/AnteConsts.lean from app/ante/ante.go and
// app/ante/commission.go:
//   * the substrings of the single-message dispensation special case,
//   * the if / else-if chain of the min-fee loop of AdjustGasPriceDecorator.AnteHandle: per branch the
//     (lower-cased) substrings, the extra `minFee.LTE(n)` conjunct, the amount and whether the branch
//     overwrites or maximises,
//   * whether the loop runs over tx.GetMsgs() or over a recursive unwrap of authz.MsgExec,
//   * the message types of the type switch of ValidateMinCommissionDecorator.validateMsg and whether it
//     recurses into authz.MsgExec,
//   * MinCommission and maxVotingPower as raw 10^18-scaled integers.
// Anything that is not recognised is emitted as `unknown`/`none`, which fails the Lean obligations.

import (
	"fmt"
	"go/ast"
	"go/token"
	"math/big"
	"os/exec"
	"path/filepath"
	"strconv"
	"strings"
)

func init() { passes["ante"] = passAnte }

type anteBranch struct {
	subs    []string
	guardLE string // "" = none
	amount  string // Lean term of type Amount
	update  string // Lean term of type Update
}

type antePass struct {
	c       *Ctx
	files   []*ast.File
	imports map[string]string // alias -> import path (union over the package's files)
	dirs    map[string]string // import path -> directory
}

func (p *antePass) pkgDir(path string) (string, error) {
	if d, ok := p.dirs[path]; ok {
		return d, nil
	}
	const self = "github.com/Sifchain/sifnode/"
	var d string
	if strings.HasPrefix(path, self) {
		d = filepath.Join(p.c.Repo, strings.TrimPrefix(path, self))
	} else {
		cmd := exec.Command("go", "list", "-f", "{{.Dir}}", path)
		cmd.Dir = p.c.Repo
		out, err := cmd.Output()
		if err != nil {
			return "", fmt.Errorf("go list %s: %v", path, err)
		}
		d = strings.TrimSpace(string(out))
	}
	p.dirs[path] = d
	return d, nil
}

// constString resolves pkgAlias.Name to the value of a string constant declared with a literal.
func (p *antePass) constString(alias, name string) (string, bool) {
	path, ok := p.imports[alias]
	if !ok {
		return "", false
	}
	dir, err := p.pkgDir(path)
	if err != nil {
		return "", false
	}
	c2 := &Ctx{Repo: "/", Out: p.c.Out, Fset: token.NewFileSet()}
	files, err := c2.ParseDir(strings.TrimPrefix(dir, "/"))
	if err != nil {
		return "", false
	}
	for _, f := range files {
		for _, d := range f.Decls {
			gd, ok := d.(*ast.GenDecl)
			if !ok || gd.Tok != token.CONST {
				continue
			}
			for _, s := range gd.Specs {
				vs := s.(*ast.ValueSpec)
				for i, n := range vs.Names {
					if n.Name == name && i < len(vs.Values) {
						if bl, ok := vs.Values[i].(*ast.BasicLit); ok && bl.Kind == token.STRING {
							v, err := strconv.Unquote(bl.Value)
							if err == nil {
								return v, true
							}
						}
					}
				}
			}
		}
	}
	return "", false
}

func isSel(e ast.Expr, x, sel string) bool {
	s, ok := e.(*ast.SelectorExpr)
	if !ok || s.Sel.Name != sel {
		return false
	}
	id, ok := s.X.(*ast.Ident)
	return ok && id.Name == x
}

func unparen(e ast.Expr) ast.Expr {
	for {
		p, ok := e.(*ast.ParenExpr)
		if !ok {
			return e
		}
		e = p.X
	}
}

func splitBin(e ast.Expr, op token.Token) []ast.Expr {
	e = unparen(e)
	if b, ok := e.(*ast.BinaryExpr); ok && b.Op == op {
		return append(splitBin(b.X, op), splitBin(b.Y, op)...)
	}
	return []ast.Expr{e}
}

// needle evaluates the second argument of strings.Contains: a string literal, pkg.Const, or
// strings.ToLower(either).
func (p *antePass) needle(e ast.Expr) (string, bool) {
	e = unparen(e)
	switch v := e.(type) {
	case *ast.BasicLit:
		if v.Kind == token.STRING {
			s, err := strconv.Unquote(v.Value)
			return s, err == nil
		}
	case *ast.SelectorExpr:
		if id, ok := v.X.(*ast.Ident); ok {
			return p.constString(id.Name, v.Sel.Name)
		}
	case *ast.CallExpr:
		if isSel(v.Fun, "strings", "ToLower") && len(v.Args) == 1 {
			s, ok := p.needle(v.Args[0])
			return strings.ToLower(s), ok
		}
	}
	return "", false
}

// containsSub recognises strings.Contains(<hay>, <needle>) and returns (source text of hay, needle).
func (p *antePass) containsSub(e ast.Expr) (string, string, bool) {
	c, ok := unparen(e).(*ast.CallExpr)
	if !ok || !isSel(c.Fun, "strings", "Contains") || len(c.Args) != 2 {
		return "", "", false
	}
	n, ok := p.needle(c.Args[1])
	if !ok {
		return "", "", false
	}
	return p.c.Src(c.Args[0]), n, true
}

// sdkNewInt recognises sdk.NewInt(<int literal>).
func sdkNewInt(e ast.Expr) (string, bool) {
	c, ok := unparen(e).(*ast.CallExpr)
	if !ok || !isSel(c.Fun, "sdk", "NewInt") || len(c.Args) != 1 {
		return "", false
	}
	bl, ok := c.Args[0].(*ast.BasicLit)
	if !ok || bl.Kind != token.INT {
		return "", false
	}
	n, ok := new(big.Int).SetString(strings.ReplaceAll(bl.Value, "_", ""), 0)
	if !ok || n.Sign() < 0 {
		return "", false
	}
	return n.String(), true
}

func (p *antePass) amountOf(e ast.Expr, feeVar string) (string, bool) {
	if n, ok := sdkNewInt(e); ok {
		return ".const " + n, true
	}
	if p.c.Src(e) == "sdk.NewIntFromBigInt("+feeVar+".BigInt())" && feeVar != "" {
		return ".proposalFee", true
	}
	return ".unknown", false
}

func passAnte(c *Ctx) error {
	files, err := c.ParseDir("app/ante")
	if err != nil {
		return err
	}
	p := &antePass{c: c, files: files, imports: map[string]string{}, dirs: map[string]string{}}
	for _, f := range files {
		for _, im := range f.Imports {
			path, _ := strconv.Unquote(im.Path.Value)
			alias := filepath.Base(path)
			if im.Name != nil {
				alias = im.Name.Name
			}
			p.imports[alias] = path
		}
	}
	var sb strings.Builder
	sb.WriteString("import Sif.Model.AnteTypes\n/- facts of app/ante/ante.go and app/ante/commission.go -/\nnamespace Sif.Generated.Ante\nopen Sif.AnteTypes\n\n")

	// ---- AdjustGasPriceDecorator.AnteHandle
	fd := FindFunc(files, "AdjustGasPriceDecorator", "AnteHandle")
	special := []string{}
	specialKnown := false
	var branches []anteBranch
	branchesKnown := false
	unwrap := "none"
	if fd != nil && fd.Body != nil {
		// the variable holding adminParams.SubmitProposalFee
		feeVar := ""
		for _, st := range fd.Body.List {
			if as, ok := st.(*ast.AssignStmt); ok && len(as.Lhs) == 1 && len(as.Rhs) == 1 {
				if strings.HasSuffix(c.Src(as.Rhs[0]), ".SubmitProposalFee") {
					feeVar = c.Src(as.Lhs[0])
				}
			}
		}
		// the special case: first top-level `if len(X) == 1 && ( Contains || Contains … )`
		var loop ast.Stmt
		var rangeX ast.Expr
		for _, st := range fd.Body.List {
			if is, ok := st.(*ast.IfStmt); ok && !specialKnown && strings.HasPrefix(c.Src(is.Cond), "len(") {
				parts := splitBin(is.Cond, token.LAND)
				if len(parts) == 2 && strings.HasSuffix(c.Src(parts[0]), ") == 1") {
					okAll := true
					for _, d := range splitBin(parts[1], token.LOR) {
						_, n, ok := p.containsSub(d)
						if !ok {
							okAll = false
							break
						}
						special = append(special, n)
					}
					specialKnown = okAll
				}
			}
			switch l := st.(type) {
			case *ast.RangeStmt:
				if loop == nil {
					loop, rangeX = l, l.X
				}
			}
		}
		// what the loop ranges over
		if id, ok := rangeX.(*ast.Ident); ok {
			unwrap = p.unwrapOrigin(fd, id.Name, loop.Pos())
		}
		// the if / else-if chain in the loop body
		if rs, ok := loop.(*ast.RangeStmt); ok {
			var chain *ast.IfStmt
			for _, st := range rs.Body.List {
				if is, ok := st.(*ast.IfStmt); ok {
					chain = is
				}
			}
			branchesKnown = chain != nil
			for is := chain; is != nil; {
				b := anteBranch{amount: ".unknown", update: ".unknown"}
				conj := splitBin(is.Cond, token.LAND)
				okB := true
				for k, cj := range conj {
					if k == 0 {
						for _, d := range splitBin(cj, token.LOR) {
							hay, n, ok := p.containsSub(d)
							if !ok || hay != "msgTypeURLLower" {
								okB = false
								break
							}
							b.subs = append(b.subs, n)
						}
						continue
					}
					// minFee.LTE(sdk.NewInt(n))
					call, ok := unparen(cj).(*ast.CallExpr)
					if ok && isSel(call.Fun, "minFee", "LTE") && len(call.Args) == 1 && b.guardLE == "" {
						if n, ok := sdkNewInt(call.Args[0]); ok {
							b.guardLE = n
							continue
						}
					}
					okB = false
				}
				if okB && len(is.Body.List) == 1 {
					if as, ok := is.Body.List[0].(*ast.AssignStmt); ok && as.Tok == token.ASSIGN && len(as.Lhs) == 1 && len(as.Rhs) == 1 && c.Src(as.Lhs[0]) == "minFee" {
						rhs := unparen(as.Rhs[0])
						if call, ok := rhs.(*ast.CallExpr); ok && isSel(call.Fun, "sdk", "MaxInt") && len(call.Args) == 2 {
							other := ast.Expr(nil)
							if c.Src(call.Args[0]) == "minFee" {
								other = call.Args[1]
							} else if c.Src(call.Args[1]) == "minFee" {
								other = call.Args[0]
							}
							if other != nil {
								if a, ok := p.amountOf(other, feeVar); ok {
									b.amount, b.update = a, ".max"
								}
							}
						} else if a, ok := p.amountOf(rhs, feeVar); ok {
							b.amount, b.update = a, ".overwrite"
						}
					}
				}
				if !okB {
					b.subs = nil
					branchesKnown = false
				}
				branches = append(branches, b)
				next, _ := is.Else.(*ast.IfStmt)
				if is.Else != nil && next == nil {
					branchesKnown = false // a final plain else: not modelled
				}
				is = next
			}
		}
	}
	sb.WriteString("/-- substrings of the single-message dispensation special case (lower-cased) -/\n")
	sb.WriteString("def special : List String := " + leanStrList(special) + "\n")
	sb.WriteString(fmt.Sprintf("def specialKnown : Bool := %v\n\n", specialKnown))
	sb.WriteString("/-- the if / else-if chain of the min-fee loop, in source order -/\ndef branches : List Branch := [\n")
	for i, b := range branches {
		g := "none"
		if b.guardLE != "" {
			g = "some " + b.guardLE
		}
		sep := ","
		if i == len(branches)-1 {
			sep = ""
		}
		sb.WriteString(fmt.Sprintf("  { subs := %s, guardLE := %s, amount := %s, update := %s }%s\n", leanStrList(b.subs), g, b.amount, b.update, sep))
	}
	sb.WriteString("]\n")
	sb.WriteString(fmt.Sprintf("def branchesKnown : Bool := %v\n\n", branchesKnown))
	sb.WriteString("/-- does the min-fee loop run over a recursive unwrap of authz.MsgExec (`some true`), over\n    tx.GetMsgs() (`some false`), or over something the extractor does not recognise (`none`) -/\n")
	sb.WriteString("def feeUnwrapsExec : Option Bool := " + unwrap + "\n\n")

	// ---- ValidateMinCommissionDecorator
	var cases []string
	comUnwrap := "none"
	vm := FindFunc(files, "ValidateMinCommissionDecorator", "validateMsg")
	ah := FindFunc(files, "ValidateMinCommissionDecorator", "AnteHandle")
	if vm != nil && vm.Body != nil && ah != nil && ah.Body != nil {
		var ts *ast.TypeSwitchStmt
		for _, st := range vm.Body.List {
			if t, ok := st.(*ast.TypeSwitchStmt); ok {
				ts = t
			}
		}
		rec := false
		if ts != nil {
			for _, cc := range ts.Body.List {
				cl := cc.(*ast.CaseClause)
				for _, t := range cl.List {
					name := strings.TrimPrefix(c.Src(t), "*")
					cases = append(cases, name)
					if name == "authz.MsgExec" && p.imports["authz"] == "github.com/cosmos/cosmos-sdk/x/authz" {
						rec = recursesInto(c, cl.Body, "validateMsg")
					}
				}
			}
		}
		// the decorator must call validateMsg on every element of tx.GetMsgs() (or of an unwrap) and
		// return the error
		var rs *ast.RangeStmt
		for _, st := range ah.Body.List {
			if r, ok := st.(*ast.RangeStmt); ok && rs == nil {
				rs = r
			}
		}
		if rs != nil && strings.Contains(c.Src(rs.Body), "validateMsg(ctx, ") && returnsErr(c, rs.Body.List) {
			switch x := rs.X.(type) {
			case *ast.CallExpr:
				if c.Src(x) == "tx.GetMsgs()" {
					comUnwrap = fmt.Sprintf("some %v", rec)
				}
			case *ast.Ident:
				o := p.unwrapOrigin(ah, x.Name, rs.Pos())
				if o == "some true" {
					comUnwrap = o
				} else if o == "some false" {
					comUnwrap = fmt.Sprintf("some %v", rec)
				}
			}
		}
	}
	// does validateMsg judge (re)delegations against the stake as it will be when they execute: a running
	// per-validator / total of the amounts admitted earlier in the same transaction, created once per
	// transaction in AnteHandle, read in the projection and updated after the test, handed down into MsgExec
	cumulative := "none"
	if vm != nil && vm.Body != nil && ah != nil && ah.Body != nil {
		var names []string
		for _, f := range vm.Type.Params.List {
			for _, n := range f.Names {
				names = append(names, n.Name)
			}
		}
		switch {
		case len(names) == 2:
			cumulative = "some false"
		case len(names) == 3:
			pn := names[2]
			okCases, seen := true, 0
			for _, st := range vm.Body.List {
				ts, ok := st.(*ast.TypeSwitchStmt)
				if !ok {
					continue
				}
				for _, cc := range ts.Body.List {
					cl := cc.(*ast.CaseClause)
					for _, t := range cl.List {
						name := strings.TrimPrefix(c.Src(t), "*")
						var body strings.Builder
						for _, b := range cl.Body {
							body.WriteString(c.Src(b) + "\n")
						}
						src := body.String()
						switch name {
						case "stakingtypes.MsgDelegate", "stakingtypes.MsgBeginRedelegate":
							seen++
							gte := strings.Index(src, ".GTE(maxVotingPower)")
							add := strings.LastIndex(src, pn+".add(")
							if !(strings.Contains(src, pn+".validator(") && strings.Contains(src, pn+".total") && gte >= 0 && add > gte) {
								okCases = false
							}
						case "authz.MsgExec":
							if !strings.Contains(src, "validateMsg(ctx, ") || !strings.Contains(src, ", "+pn+")") {
								okCases = false
							}
						}
					}
				}
			}
			ahSrc := c.Src(ah.Body)
			created := strings.Index(ahSrc, ":= newPendingStake()")
			loop := strings.Index(ahSrc, "for ")
			if okCases && seen == 2 && created >= 0 && loop > created && strings.Contains(ahSrc, "validateMsg(ctx, msg, ") && FindFunc(files, "pendingStake", "add") != nil {
				cumulative = "some true"
			}
		}
	}
	sb.WriteString("/-- are (re)delegations judged against the stake as it will be when they execute (amounts admitted earlier in\n    the same transaction added per validator and in total): `some true`, per message against the state the\n    transaction starts from: `some false`, not recognised: `none` -/\n")
	sb.WriteString("def commissionCumulative : Option Bool := " + cumulative + "\n\n")
	sb.WriteString("/-- message types of the type switch of validateMsg, in source order -/\n")
	sb.WriteString("def commissionCases : List String := " + leanStrList(cases) + "\n")
	sb.WriteString("def commissionUnwrapsExec : Option Bool := " + comUnwrap + "\n\n")

	// ---- where the decorator's validators and their tokens come from
	gvParams, gvStoreOnly := []string{}, "none"
	if gv := FindFunc(files, "ValidateMinCommissionDecorator", "getValidator"); gv != nil && gv.Body != nil {
		for _, f := range gv.Type.Params.List {
			n := len(f.Names)
			if n == 0 {
				n = 1
			}
			for i := 0; i < n; i++ {
				gvParams = append(gvParams, c.Src(f.Type))
			}
		}
		// the only validator it may return is the one it read from the staking keeper; every other return
		// is the empty struct together with a non-nil error
		stored := ""
		ast.Inspect(gv.Body, func(x ast.Node) bool {
			if as, ok := x.(*ast.AssignStmt); ok && len(as.Lhs) == 2 && len(as.Rhs) == 1 && strings.HasPrefix(c.Src(as.Rhs[0]), "vcd.sk.GetValidator(ctx, ") {
				stored = c.Src(as.Lhs[0])
			}
			return true
		})
		ok := stored != ""
		ast.Inspect(gv.Body, func(x ast.Node) bool {
			r, isRet := x.(*ast.ReturnStmt)
			if !isRet {
				return true
			}
			if len(r.Results) != 2 {
				ok = false
				return true
			}
			v, e := c.Src(r.Results[0]), c.Src(r.Results[1])
			switch {
			case v == stored && e == "nil":
			case v == "stakingtypes.Validator{}" && e != "nil":
			default:
				ok = false
			}
			return true
		})
		gvStoreOnly = fmt.Sprintf("some %v", ok)
	}
	invents := false
	var tokenReads []string
	for _, f := range files {
		for _, d := range f.Decls {
			fd, isFn := d.(*ast.FuncDecl)
			if !isFn || fd.Body == nil {
				continue
			}
			ast.Inspect(fd.Body, func(x ast.Node) bool {
				switch v := x.(type) {
				case *ast.CompositeLit:
					if c.Src(v.Type) == "stakingtypes.Validator" && len(v.Elts) > 0 {
						invents = true
					}
				case *ast.SelectorExpr:
					if v.Sel.Name == "Tokens" || v.Sel.Name == "GetTokens" {
						tokenReads = append(tokenReads, fd.Name.Name+": "+c.Src(v))
					}
				}
				return true
			})
		}
	}
	var projSources []string
	if vm != nil && vm.Body != nil {
		for _, st := range vm.Body.List {
			ts, ok := st.(*ast.TypeSwitchStmt)
			if !ok {
				continue
			}
			for _, cc := range ts.Body.List {
				cl := cc.(*ast.CaseClause)
				assigned := map[string]string{}
				for _, b := range cl.Body {
					ast.Inspect(b, func(x ast.Node) bool {
						switch v := x.(type) {
						case *ast.AssignStmt:
							if len(v.Rhs) == 1 && len(v.Lhs) >= 1 {
								assigned[c.Src(v.Lhs[0])] = c.Src(v.Rhs[0])
							}
						case *ast.CallExpr:
							if sel, ok := v.Fun.(*ast.SelectorExpr); ok && strings.HasSuffix(sel.Sel.Name, "ProjectedVotingPower") && len(v.Args) >= 2 {
								src, ok := assigned[c.Src(v.Args[1])]
								if !ok {
									src = "?"
								}
								projSources = append(projSources, src)
							}
						}
						return true
					})
				}
			}
		}
	}
	// the voting-power test is applied to EVERY MsgDelegate / MsgBeginRedelegate: in each of the two cases the projection is
	// assigned, and `if projectedVotingPower.GTE(maxVotingPower) { return … }` stands, as direct statements of the case
	// body — not inside another condition
	var capTests []string
	if vm != nil && vm.Body != nil {
		for _, st := range vm.Body.List {
			ts, ok := st.(*ast.TypeSwitchStmt)
			if !ok {
				continue
			}
			for _, cc := range ts.Body.List {
				cl := cc.(*ast.CaseClause)
				for _, t := range cl.List {
					name := strings.TrimPrefix(c.Src(t), "*")
					if name != "stakingtypes.MsgDelegate" && name != "stakingtypes.MsgBeginRedelegate" {
						continue
					}
					proj, test := false, false
					for _, b := range cl.Body {
						switch v := b.(type) {
						case *ast.AssignStmt:
							if len(v.Lhs) == 1 && c.Src(v.Lhs[0]) == "projectedVotingPower" && strings.Contains(c.Src(v.Rhs[0]), "ProjectedVotingPower(") {
								proj = true
							}
						case *ast.IfStmt:
							if v.Init == nil && c.Src(v.Cond) == "projectedVotingPower.GTE(maxVotingPower)" && proj {
								if n := len(v.Body.List); n > 0 {
									if r, ok := v.Body.List[n-1].(*ast.ReturnStmt); ok && len(r.Results) == 1 && c.Src(r.Results[0]) != "nil" {
										test = true
									}
								}
							}
						}
					}
					capTests = append(capTests, fmt.Sprintf("%s: %v", name, proj && test))
				}
			}
		}
	}
	sb.WriteString("/-- per (re)delegation case of validateMsg: the voting-power test is an unconditional statement of the case -/\ndef capTests : List String := " + leanStrList(capTests) + "\n")
	sb.WriteString("/-- parameter types of getValidator -/\ndef getValidatorParams : List String := " + leanStrList(gvParams) + "\n")
	sb.WriteString("/-- getValidator returns only the validator it read from the staking keeper (else the empty struct with an error) -/\ndef getValidatorStoreOnly : Option Bool := " + gvStoreOnly + "\n")
	sb.WriteString(fmt.Sprintf("/-- some function of the package builds a stakingtypes.Validator value of its own -/\ndef inventsValidators : Bool := %v\n", invents))
	sb.WriteString("/-- every read of a validator's tokens in the package: function and expression -/\ndef tokenReads : List String := " + leanStrList(tokenReads) + "\n")
	sb.WriteString("/-- where the validators handed to the voting-power projection in validateMsg come from -/\ndef projectionSources : List String := " + leanStrList(projSources) + "\n\n")

	// ---- constants
	for _, nm := range []struct{ goName, leanName string }{{"MinCommission", "minCommission"}, {"maxVotingPower", "maxVotingPower"}} {
		val := "none"
		for _, f := range files {
			for _, d := range f.Decls {
				gd, ok := d.(*ast.GenDecl)
				if !ok || gd.Tok != token.VAR {
					continue
				}
				for _, s := range gd.Specs {
					vs := s.(*ast.ValueSpec)
					for i, n := range vs.Names {
						if n.Name != nm.goName || i >= len(vs.Values) {
							continue
						}
						if call, ok := vs.Values[i].(*ast.CallExpr); ok && isSel(call.Fun, "sdk", "NewDecWithPrec") && len(call.Args) == 2 {
							a, ok1 := call.Args[0].(*ast.BasicLit)
							b, ok2 := call.Args[1].(*ast.BasicLit)
							if ok1 && ok2 && a.Kind == token.INT && b.Kind == token.INT {
								av, _ := new(big.Int).SetString(a.Value, 0)
								bv, _ := strconv.Atoi(b.Value)
								if av != nil && bv >= 0 && bv <= 18 {
									raw := new(big.Int).Mul(av, new(big.Int).Exp(big.NewInt(10), big.NewInt(int64(18-bv)), nil))
									val = "some " + raw.String()
								}
							}
						}
					}
				}
			}
		}
		sb.WriteString(fmt.Sprintf("/-- `%s` as a raw sdk.Dec integer (scaled by 10^18) -/\ndef %s : Option Int := %s\n", nm.goName, nm.leanName, val))
	}
	sb.WriteString("\nend Sif.Generated.Ante\n")
	return c.WriteLean("AnteConsts", sb.String())
}

func leanStrList(xs []string) string {
	q := make([]string, len(xs))
	for i, x := range xs {
		q[i] = LeanStr(x)
	}
	return "[" + strings.Join(q, ", ") + "]"
}

// returnsErr: the statements contain `if err := …; err != nil { return ctx, err }` (or the two-statement form).
func returnsErr(c *Ctx, body []ast.Stmt) bool {
	for _, st := range body {
		if is, ok := st.(*ast.IfStmt); ok && strings.Contains(c.Src(is.Cond), "err != nil") {
			for _, b := range is.Body.List {
				if r, ok := b.(*ast.ReturnStmt); ok && len(r.Results) > 0 && c.Src(r.Results[len(r.Results)-1]) == "err" {
					return true
				}
			}
		}
	}
	return false
}

// recursesInto: the case body obtains the wrapped messages with GetMessages(), fails on its error,
// and calls `fn` on every one of them, returning its error.
func recursesInto(c *Ctx, body []ast.Stmt, fn string) bool {
	gotMsgs, failsOnErr, loops := "", false, false
	for _, st := range body {
		switch s := st.(type) {
		case *ast.AssignStmt:
			if len(s.Rhs) == 1 && strings.HasSuffix(c.Src(s.Rhs[0]), ".GetMessages()") && len(s.Lhs) == 2 {
				gotMsgs = c.Src(s.Lhs[0])
			}
		case *ast.IfStmt:
			if gotMsgs != "" && c.Src(s.Cond) == "err != nil" && returnsErrSimple(c, s.Body.List) {
				failsOnErr = true
			}
		case *ast.RangeStmt:
			if gotMsgs != "" && c.Src(s.X) == gotMsgs && s.Value != nil {
				v := c.Src(s.Value)
				body := c.Src(s.Body)
				if (strings.Contains(body, "."+fn+"(ctx, "+v+")") || strings.Contains(body, "."+fn+"(ctx, "+v+", ")) && returnsErr(c, s.Body.List) {
					loops = true
				}
			}
		}
	}
	return gotMsgs != "" && failsOnErr && loops
}

func returnsErrSimple(c *Ctx, body []ast.Stmt) bool {
	for _, b := range body {
		if r, ok := b.(*ast.ReturnStmt); ok && len(r.Results) > 0 && c.Src(r.Results[len(r.Results)-1]) == "err" {
			return true
		}
	}
	return false
}

// unwrapOrigin classifies the last assignment to `name` before `before` in fd's top-level statements.
func (p *antePass) unwrapOrigin(fd *ast.FuncDecl, name string, before token.Pos) string {
	res := "none"
	for _, st := range fd.Body.List {
		if st.Pos() >= before {
			break
		}
		as, ok := st.(*ast.AssignStmt)
		if !ok || len(as.Rhs) != 1 || len(as.Lhs) < 1 || p.c.Src(as.Lhs[0]) != name {
			continue
		}
		rhs := p.c.Src(as.Rhs[0])
		call, isCall := as.Rhs[0].(*ast.CallExpr)
		switch {
		case rhs == "tx.GetMsgs()":
			res = "some false"
		case isCall:
			if id, ok := call.Fun.(*ast.Ident); ok && p.isFlattenFunc(id.Name) && len(call.Args) == 1 &&
				(p.c.Src(call.Args[0]) == "tx.GetMsgs()" || (p.c.Src(call.Args[0]) == name && res == "some false")) {
				res = "some true"
			} else {
				res = "none"
			}
		default:
			res = "none"
		}
	}
	return res
}

// isFlattenFunc: a package-level function that appends every message it is given and, for an
// *authz.MsgExec, the recursive result on GetMessages(), failing on error.
func (p *antePass) isFlattenFunc(name string) bool {
	fd := FindFunc(p.files, "", name)
	if fd == nil || fd.Body == nil || p.imports["authz"] != "github.com/cosmos/cosmos-sdk/x/authz" {
		return false
	}
	src := p.c.Src(fd.Body)
	var rs *ast.RangeStmt
	for _, st := range fd.Body.List {
		if r, ok := st.(*ast.RangeStmt); ok && rs == nil {
			rs = r
		}
	}
	if rs == nil || len(fd.Type.Params.List) != 1 || len(fd.Type.Params.List[0].Names) != 1 || p.c.Src(rs.X) != fd.Type.Params.List[0].Names[0].Name || rs.Value == nil {
		return false
	}
	v := p.c.Src(rs.Value)
	body := p.c.Src(rs.Body)
	// every element is kept
	keeps := false
	for _, st := range rs.Body.List {
		if as, ok := st.(*ast.AssignStmt); ok && len(as.Rhs) == 1 {
			r := p.c.Src(as.Rhs[0])
			if strings.HasPrefix(r, "append(") && strings.HasSuffix(r, ", "+v+")") {
				keeps = true
			}
		}
	}
	return keeps &&
		strings.Contains(body, v+".(*authz.MsgExec)") &&
		strings.Contains(body, ".GetMessages()") &&
		strings.Contains(body, name+"(") &&
		strings.Contains(body, "return nil, err") &&
		strings.Contains(src, "return ")
}
