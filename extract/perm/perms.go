package main

// pass `perms` (C12, tie 1): for the five AMM handlers of x/clp/keeper/msg_server.go and the IBC
// Transfer wrapper of x/ibctransfer/keeper/msg_server.go, the sequence of token-registry guards
// (`GetEntry` + `if err != nil { return … }`, `CheckEntryPermissions`, alias test, amount test) in
// source order, with: the permission constant, the asset expression the guard applies to, the
// `swapStatus` case it sits in, whether the failing branch returns a non-nil error, and whether a
// state-writing call can run before it.  Output: Sif/Generated/Perms.lean.
//
// It is a syntactic walk over the handler body (go/ast, no types).  Anything that mentions the
// registry keeper in a shape it does not recognise becomes `Guard.unknown`, which makes the Lean
// obligation (generated facts = decision table) fail — never a guess.

import (
	"fmt"
	"go/ast"
	"go/token"
	"sort"
	"strings"
)

type permFact struct {
	guard      string // Lean term of type Guard
	cond       string // always | sellNative | buyNative | noSwap
	returnsErr bool
	writeFirst bool
	src        string
}

type permWalk struct {
	c          *Ctx
	recv       string            // receiver name of the method (k / srv)
	regVar     string            // variable holding GetRegistry(ctx)
	readsCtx   bool              // registry read from this message's ctx
	entryVar   map[string]string // entry variable -> Lean Asset term
	wrote      bool
	facts      []permFact
	delegates  bool
	pendingErr string // entry variable whose `if err != nil` is expected next ("" = none)
	pendingIdx int
}

var assetOfExpr = map[string]string{
	"types.NativeSymbol":        ".native",
	"msg.ExternalAsset.Symbol":  ".ext",
	"msg.SentAsset.Symbol":      ".sent",
	"msg.ReceivedAsset.Symbol":  ".received",
	"msg.Token.Denom":           ".token",
}

var permOfExpr = map[string]string{
	"tokenregistrytypes.Permission_UNSPECIFIED":  ".unspecified",
	"tokenregistrytypes.Permission_CLP":          ".clp",
	"tokenregistrytypes.Permission_IBCEXPORT":    ".ibcexport",
	"tokenregistrytypes.Permission_IBCIMPORT":    ".ibcimport",
	"tokenregistrytypes.Permission_DISABLE_BUY":  ".disableBuy",
	"tokenregistrytypes.Permission_DISABLE_SELL": ".disableSell",
}

var condOfCase = map[string]string{"SellNative": "sellNative", "BuyNative": "buyNative", "NoSwap": "noSwap"}

// read-only method-name prefixes: a call rooted at the receiver (or taking ctx) whose name starts
// with none of these is counted as a state write.
var readPrefixes = []string{"Get", "Is", "Exists", "Check", "Has", "Calc", "Validate", "Unwrap", "Logger", "Extract",
	"Parse", "String", "Emit", "EventManager", "BlockHeight", "Equals", "Conv", "Wrap"}

func isReadName(n string) bool {
	for _, p := range readPrefixes {
		if strings.HasPrefix(n, p) {
			return true
		}
	}
	return false
}

func rootIdent(e ast.Expr) string {
	for {
		switch x := e.(type) {
		case *ast.SelectorExpr:
			e = x.X
		case *ast.CallExpr:
			e = x.Fun
		case *ast.Ident:
			return x.Name
		default:
			return ""
		}
	}
}

// writes reports whether the node contains a call that may write state.
func (w *permWalk) writes(n ast.Node) bool {
	found := false
	ast.Inspect(n, func(x ast.Node) bool {
		call, ok := x.(*ast.CallExpr)
		if !ok {
			return true
		}
		name := ""
		switch f := call.Fun.(type) {
		case *ast.SelectorExpr:
			name = f.Sel.Name
		case *ast.Ident:
			name = f.Name
		}
		takesCtx := false
		for _, a := range call.Args {
			if id, ok := a.(*ast.Ident); ok && (id.Name == "ctx" || id.Name == "goCtx") {
				takesCtx = true
			}
		}
		onRecv := rootIdent(call.Fun) == w.recv
		if (onRecv || takesCtx) && !isReadName(name) {
			found = true
		}
		return true
	})
	return found
}

func (w *permWalk) mentionsRegistry(n ast.Node) bool {
	found := false
	ast.Inspect(n, func(x ast.Node) bool {
		if sel, ok := x.(*ast.SelectorExpr); ok && (sel.Sel.Name == "GetEntry" || sel.Sel.Name == "CheckEntryPermissions") {
			found = true
		}
		return true
	})
	return found
}

// returnsNonNilErr: the block ends with `return …, <expr>` whose last result is not the literal nil.
func returnsNonNilErr(b *ast.BlockStmt) bool {
	if b == nil || len(b.List) == 0 {
		return false
	}
	r, ok := b.List[len(b.List)-1].(*ast.ReturnStmt)
	if !ok || len(r.Results) == 0 {
		return false
	}
	last := r.Results[len(r.Results)-1]
	if id, ok := last.(*ast.Ident); ok && id.Name == "nil" {
		return false
	}
	return true
}

func (w *permWalk) add(guard, cond string, ret bool, n ast.Node) {
	w.facts = append(w.facts, permFact{guard: guard, cond: cond, returnsErr: ret, writeFirst: w.wrote,
		src: fmt.Sprintf("%s", w.c.Fset.Position(n.Pos()).String())})
}

// checkCall recognises `<x>.CheckEntryPermissions(v, []T{P})`.
func (w *permWalk) checkCall(e ast.Expr) (asset, perm string, ok bool) {
	call, isCall := e.(*ast.CallExpr)
	if !isCall {
		return "", "", false
	}
	sel, isSel := call.Fun.(*ast.SelectorExpr)
	if !isSel || sel.Sel.Name != "CheckEntryPermissions" || len(call.Args) != 2 {
		return "", "", false
	}
	v, isId := call.Args[0].(*ast.Ident)
	if !isId {
		return ".unknown", ".unspecified", true
	}
	asset, known := w.entryVar[v.Name]
	if !known {
		asset = ".unknown"
	}
	lit, isLit := call.Args[1].(*ast.CompositeLit)
	if !isLit || len(lit.Elts) != 1 {
		return asset, "", true // several / no permissions: not a shape of the table
	}
	p, known := permOfExpr[w.c.Src(lit.Elts[0])]
	if !known {
		return asset, "", true
	}
	return asset, p, true
}

func (w *permWalk) stmts(list []ast.Stmt, cond string) {
	for _, st := range list {
		w.stmt(st, cond)
	}
}

func (w *permWalk) stmt(st ast.Stmt, cond string) {
	// an `if err != nil { return … }` right after a GetEntry
	if w.pendingErr != "" {
		pend := w.pendingErr
		w.pendingErr = ""
		if ifs, ok := st.(*ast.IfStmt); ok && ifs.Init == nil && w.c.Src(ifs.Cond) == "err != nil" && ifs.Else == nil {
			w.facts[w.pendingIdx].returnsErr = returnsNonNilErr(ifs.Body)
			_ = pend
			return
		}
		// no error test follows: the guard stays with returnsErr = false
	}
	switch s := st.(type) {
	case *ast.AssignStmt:
		if len(s.Rhs) == 1 {
			if call, ok := s.Rhs[0].(*ast.CallExpr); ok {
				if sel, ok := call.Fun.(*ast.SelectorExpr); ok {
					switch sel.Sel.Name {
					case "GetRegistry":
						if id, ok := s.Lhs[0].(*ast.Ident); ok && len(call.Args) == 1 {
							w.regVar = id.Name
							w.readsCtx = w.c.Src(call.Args[0]) == "ctx"
						}
						return
					case "GetEntry":
						asset := ".unknown"
						if len(call.Args) == 2 && w.regVar != "" && w.c.Src(call.Args[0]) == w.regVar {
							if a, ok := assetOfExpr[w.c.Src(call.Args[1])]; ok {
								asset = a
							}
						}
						if id, ok := s.Lhs[0].(*ast.Ident); ok && len(s.Lhs) == 2 {
							w.entryVar[id.Name] = asset
							w.add("(.present "+asset+")", cond, false, st)
							w.pendingErr = id.Name
							w.pendingIdx = len(w.facts) - 1
							return
						}
						w.add(".unknown", cond, false, st)
						return
					}
				}
			}
		}
	case *ast.IfStmt:
		if s.Init == nil && s.Else == nil {
			c := s.Cond
			neg := false
			if u, ok := c.(*ast.UnaryExpr); ok && u.Op == token.NOT {
				c = u.X
				neg = true
			}
			if asset, perm, ok := w.checkCall(c); ok {
				g := ".unknown"
				if perm != "" {
					if neg {
						g = fmt.Sprintf("(.has %s %s)", asset, perm)
					} else {
						g = fmt.Sprintf("(.lacks %s %s)", asset, perm)
					}
				}
				w.add(g, cond, returnsNonNilErr(s.Body), st)
				return
			}
			src := w.c.Src(s.Cond)
			// alias test: v.UnitDenom != "" && v.UnitDenom != v.Denom
			for v, asset := range w.entryVar {
				if src == fmt.Sprintf("%s.UnitDenom != \"\" && %s.UnitDenom != %s.Denom", v, v, v) {
					w.add("(.notAlias "+asset+")", cond, returnsNonNilErr(s.Body), st)
					return
				}
			}
			if src == "msg.Token.Amount.LTE(sdk.NewInt(0))" {
				w.add(".amountPositive", cond, returnsNonNilErr(s.Body), st)
				return
			}
		}
	case *ast.SwitchStmt:
		if s.Init == nil && s.Tag != nil && w.c.Src(s.Tag) == "swapStatus" {
			wrote0 := w.wrote
			any := wrote0
			for _, cc := range s.Body.List {
				clause := cc.(*ast.CaseClause)
				cnd := "unknownCase"
				if len(clause.List) == 1 {
					if c2, ok := condOfCase[w.c.Src(clause.List[0])]; ok {
						cnd = c2
					}
				}
				w.wrote = wrote0
				if cnd == "unknownCase" {
					if clause.List == nil { // default: must not hold guards
						for _, b := range clause.Body {
							if w.mentionsRegistry(b) {
								w.add(".unknown", "always", false, b)
							}
						}
					} else {
						w.add(".unknown", "always", false, clause)
					}
				} else {
					w.stmts(clause.Body, cnd)
				}
				any = any || w.wrote
			}
			w.wrote = any
			return
		}
	case *ast.ReturnStmt:
		if len(s.Results) == 1 {
			if call, ok := s.Results[0].(*ast.CallExpr); ok && w.c.Src(call.Fun) == w.recv+".sdkMsgServer.Transfer" {
				w.delegates = true
			}
		}
	}
	// any other statement: a registry call in an unrecognised position is an unknown guard
	if w.mentionsRegistry(st) {
		w.add(".unknown", cond, false, st)
	}
	if w.writes(st) {
		w.wrote = true
	}
}

func b2l(b bool) string {
	if b {
		return "true"
	}
	return "false"
}

func init() {
	passes["perms"] = func(c *Ctx) error {
		type target struct{ dir, recv, fn, lean string }
		targets := []target{
			{"x/clp/keeper", "msgServer", "CreatePool", "createPool"},
			{"x/clp/keeper", "msgServer", "AddLiquidity", "addLiquidity"},
			{"x/clp/keeper", "msgServer", "RemoveLiquidity", "removeLiquidity"},
			{"x/clp/keeper", "msgServer", "RemoveLiquidityUnits", "removeLiquidityUnits"},
			{"x/clp/keeper", "msgServer", "Swap", "swap"},
			{"x/ibctransfer/keeper", "msgServer", "Transfer", "transfer"},
		}
		var sb strings.Builder
		sb.WriteString("import Sif.Model.Registry\n/- token-registry guards of the AMM handlers and of the IBC Transfer wrapper, in source order -/\nnamespace Sif.Generated.Perms\nopen Sif.Registry\n\n")
		for _, t := range targets {
			files, err := c.ParseDir(t.dir)
			if err != nil {
				return err
			}
			var only []*ast.File
			for _, f := range files {
				if strings.HasSuffix(c.Fset.Position(f.Pos()).Filename, "msg_server.go") {
					only = append(only, f)
				}
			}
			fd := FindFunc(only, t.recv, t.fn)
			if fd == nil || fd.Body == nil {
				// the handler is gone: emit facts that cannot equal the table
				sb.WriteString(fmt.Sprintf("def %s : HandlerFacts := ⟨false, false, [⟨.unknown, .always, false, true⟩]⟩\n\n", t.lean))
				continue
			}
			recvName := "k"
			if fd.Recv != nil && len(fd.Recv.List) > 0 && len(fd.Recv.List[0].Names) > 0 {
				recvName = fd.Recv.List[0].Names[0].Name
			}
			w := &permWalk{c: c, recv: recvName, entryVar: map[string]string{}}
			w.stmts(fd.Body.List, "always")
			sb.WriteString(fmt.Sprintf("/-- %s/msg_server.go %s -/\ndef %s : HandlerFacts := ⟨%s, %s, [\n", t.dir, t.fn,
				t.lean, b2l(w.readsCtx), b2l(w.delegates)))
			for i, f := range w.facts {
				sep := ","
				if i == len(w.facts)-1 {
					sep = ""
				}
				// (no line numbers in the output: the file must not change when unrelated code moves)
				sb.WriteString(fmt.Sprintf("  ⟨%s, .%s, %s, %s⟩%s\n", f.guard, f.cond, b2l(f.returnsErr), b2l(f.writeFirst), sep))
			}
			sb.WriteString("]⟩\n\n")
		}
		sb.WriteString("end Sif.Generated.Perms\n")
		return c.WriteLean("Perms", sb.String())
	}
}

// ---- the shared lookup helper x/tokenregistry/keeper/keeper.go GetEntry -------------------------
// Fact: which fields of a registry entry the function looks at (every selector on an entry value),
// whether its only successful return hands back the element whose `.Denom == denom` test just
// passed (first match in slice order), and whether falling out of the loop returns (nil, error).
// Any other shape (a second successful return, a comparison of another field, a fallback after the
// loop) is reported as it is seen, so the Lean obligation `lookup = expected` fails.

type lookupFacts struct {
	fields        []string
	okReturns     int  // return statements whose first result is not nil
	matchReturn   bool // one of them sits directly in `if … e.Denom == denom { return <elem>, nil }` inside `for … range wl.Entries`
	notFoundIsErr bool // last statement: return nil, <non-nil>
	condShape     string
}

func analyzeGetEntry(c *Ctx, fd *ast.FuncDecl) lookupFacts {
	var lf lookupFacts
	if fd == nil || fd.Body == nil || fd.Type.Params == nil || len(fd.Type.Params.List) < 2 {
		lf.condShape = "missing"
		return lf
	}
	regName, denomName := "", ""
	if len(fd.Type.Params.List[0].Names) == 1 {
		regName = fd.Type.Params.List[0].Names[0].Name
	}
	if len(fd.Type.Params.List[1].Names) == 1 {
		denomName = fd.Type.Params.List[1].Names[0].Name
	}
	entriesExpr := regName + ".Entries"
	// every field selected on something that is an entry: <reg>.Entries[i].F or <ident>.F where ident was
	// assigned from <reg>.Entries[...]
	entryVars := map[string]bool{}
	ast.Inspect(fd.Body, func(n ast.Node) bool {
		if as, ok := n.(*ast.AssignStmt); ok && len(as.Lhs) == len(as.Rhs) {
			for i := range as.Rhs {
				src := c.Src(as.Rhs[i])
				if id, ok := as.Lhs[i].(*ast.Ident); ok && (strings.HasPrefix(src, entriesExpr+"[") || entryVars[src]) {
					entryVars[id.Name] = true
				}
			}
		}
		if rs, ok := n.(*ast.RangeStmt); ok && c.Src(rs.X) == entriesExpr && rs.Value != nil {
			if id, ok := rs.Value.(*ast.Ident); ok {
				entryVars[id.Name] = true
			}
		}
		return true
	})
	seen := map[string]bool{}
	ast.Inspect(fd.Body, func(n ast.Node) bool {
		sel, ok := n.(*ast.SelectorExpr)
		if !ok {
			return true
		}
		x := c.Src(sel.X)
		if entryVars[x] || strings.HasPrefix(x, entriesExpr+"[") {
			if !seen[sel.Sel.Name] {
				seen[sel.Sel.Name] = true
				lf.fields = append(lf.fields, sel.Sel.Name)
			}
		}
		return true
	})
	sort.Strings(lf.fields)
	// successful returns
	var walk func(list []ast.Stmt, inLoop bool)
	walk = func(list []ast.Stmt, inLoop bool) {
		for _, st := range list {
			switch s := st.(type) {
			case *ast.ReturnStmt:
				if len(s.Results) == 2 {
					if id, ok := s.Results[0].(*ast.Ident); !(ok && id.Name == "nil") {
						lf.okReturns++
					}
				}
			case *ast.RangeStmt:
				walk(s.Body.List, c.Src(s.X) == entriesExpr)
			case *ast.ForStmt:
				walk(s.Body.List, false)
			case *ast.BlockStmt:
				walk(s.List, inLoop)
			case *ast.IfStmt:
				cond := c.Src(s.Cond)
				good := false
				for v := range entryVars {
					if cond == fmt.Sprintf("%s != nil && %s.Denom == %s", v, v, denomName) || cond == fmt.Sprintf("%s.Denom == %s", v, denomName) {
						good = true
					}
				}
				if good && inLoop && s.Else == nil && len(s.Body.List) == 1 {
					if r, ok := s.Body.List[0].(*ast.ReturnStmt); ok && len(r.Results) == 2 {
						first := c.Src(r.Results[0])
						second := c.Src(r.Results[1])
						if (entryVars[first] || strings.HasPrefix(first, entriesExpr+"[")) && second == "nil" {
							lf.matchReturn = true
							lf.condShape = "denomEq"
						}
					}
				}
				walk(s.Body.List, inLoop)
				if s.Else != nil {
					if b, ok := s.Else.(*ast.BlockStmt); ok {
						walk(b.List, inLoop)
					} else {
						walk([]ast.Stmt{s.Else}, inLoop)
					}
				}
			}
		}
	}
	walk(fd.Body.List, false)
	if n := len(fd.Body.List); n > 0 {
		if r, ok := fd.Body.List[n-1].(*ast.ReturnStmt); ok && len(r.Results) == 2 {
			if id, ok := r.Results[0].(*ast.Ident); ok && id.Name == "nil" {
				if id2, ok := r.Results[1].(*ast.Ident); !(ok && id2.Name == "nil") {
					lf.notFoundIsErr = true
				}
			}
		}
	}
	if lf.condShape == "" {
		lf.condShape = "unknown"
	}
	return lf
}

func init() {
	passes["lookup"] = func(c *Ctx) error {
		files, err := c.ParseDir("x/tokenregistry/keeper")
		if err != nil {
			return err
		}
		lf := analyzeGetEntry(c, FindFunc(files, "keeper", "GetEntry"))
		var q []string
		for _, f := range lf.fields {
			q = append(q, LeanStr(f))
		}
		body := "import Sif.Model.Registry\n/- x/tokenregistry/keeper/keeper.go GetEntry: what the lookup looks at -/\nnamespace Sif.Generated.Lookup\nopen Sif.Registry\n\n" +
			fmt.Sprintf("def getEntry : LookupFacts := ⟨[%s], %d, %s, %s⟩\n\nend Sif.Generated.Lookup\n", strings.Join(q, ", "), lf.okReturns, b2l(lf.matchReturn), b2l(lf.notFoundIsErr))
		return c.WriteLean("Lookup", body)
	}
}

// ---- the write path behind MsgRegister: x/tokenregistry/keeper/keeper.go SetToken ---------------
// Fact: which fields of the entries ALREADY in the registry the function reads (selectors on
// <wl>.Entries[...] or on a variable bound to one), how many statements assign to a field of the
// INCOMING entry, whether the incoming entry is stored verbatim at the found index
// (`wl.Entries[i] = entry`) and appended verbatim otherwise (`append(wl.Entries, entry)`).
func init() {
	passes["settoken"] = func(c *Ctx) error {
		files, err := c.ParseDir("x/tokenregistry/keeper")
		if err != nil {
			return err
		}
		fd := FindFunc(files, "keeper", "SetToken")
		var fields []string
		mutations, replaces, appends := 0, false, false
		if fd != nil && fd.Body != nil && fd.Type.Params != nil && len(fd.Type.Params.List) == 2 && len(fd.Type.Params.List[1].Names) == 1 {
			in := fd.Type.Params.List[1].Names[0].Name
			reg := ""
			oldVars := map[string]bool{}
			ast.Inspect(fd.Body, func(n ast.Node) bool {
				if as, ok := n.(*ast.AssignStmt); ok && len(as.Lhs) == len(as.Rhs) {
					for i := range as.Rhs {
						src := c.Src(as.Rhs[i])
						if call, ok := as.Rhs[i].(*ast.CallExpr); ok {
							if sel, ok := call.Fun.(*ast.SelectorExpr); ok && sel.Sel.Name == "GetRegistry" {
								if id, ok := as.Lhs[i].(*ast.Ident); ok {
									reg = id.Name
								}
							}
						}
						if id, ok := as.Lhs[i].(*ast.Ident); ok && reg != "" && strings.HasPrefix(src, reg+".Entries[") {
							oldVars[id.Name] = true
						}
					}
				}
				if rs, ok := n.(*ast.RangeStmt); ok && reg != "" && c.Src(rs.X) == reg+".Entries" && rs.Value != nil {
					if id, ok := rs.Value.(*ast.Ident); ok {
						oldVars[id.Name] = true
					}
				}
				return true
			})
			seen := map[string]bool{}
			ast.Inspect(fd.Body, func(n ast.Node) bool {
				switch x := n.(type) {
				case *ast.SelectorExpr:
					base := c.Src(x.X)
					if reg != "" && (strings.HasPrefix(base, reg+".Entries[") || oldVars[base]) && !seen[x.Sel.Name] {
						seen[x.Sel.Name] = true
						fields = append(fields, x.Sel.Name)
					}
				case *ast.AssignStmt:
					for i, l := range x.Lhs {
						ls := c.Src(l)
						if strings.HasPrefix(ls, in+".") || ls == "*"+in {
							mutations++
						}
						if i < len(x.Rhs) {
							rs := c.Src(x.Rhs[i])
							if reg != "" && strings.HasPrefix(ls, reg+".Entries[") && !strings.Contains(ls, "].") && rs == in {
								replaces = true
							}
							if reg != "" && ls == reg+".Entries" && rs == fmt.Sprintf("append(%s.Entries, %s)", reg, in) {
								appends = true
							}
						}
					}
				case *ast.IncDecStmt:
					if strings.HasPrefix(c.Src(x.X), in+".") {
						mutations++
					}
				}
				return true
			})
		}
		sort.Strings(fields)
		var q []string
		for _, f := range fields {
			q = append(q, LeanStr(f))
		}
		body := "import Sif.Model.Registry\n/- x/tokenregistry/keeper/keeper.go SetToken: what the write path of MsgRegister reads and stores -/\nnamespace Sif.Generated.SetToken\nopen Sif.Registry\n\n" +
			fmt.Sprintf("def setToken : SetTokenFacts := ⟨[%s], %d, %s, %s⟩\n\nend Sif.Generated.SetToken\n", strings.Join(q, ", "), mutations, b2l(replaces), b2l(appends))
		return c.WriteLean("SetToken", body)
	}
}
