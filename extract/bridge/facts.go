package main

// pass "bridgefacts": constants and guard facts of x/oracle and x/ethbridge that the Lean model of the
// bridge (Sif/Model/Oracle.lean, Sif/Model/EthBridge.lean) is written against
//   → Sif/Generated/BridgeConsts.lean
// Anything that cannot be read the expected way is emitted as a value that fails the Lean obligation
// (`unreadable ≠ []`, a comparison operator "?" …), never guessed.

import (
	"fmt"
	"go/ast"
	"go/token"
	"math/big"
	"strconv"
	"strings"
)

func init() { passes["bridgefacts"] = bridgeFacts }

// constant integer expressions made of literals and * (burnGasCost = 60000000000 * 393000)
func evalInt(e ast.Expr) (*big.Int, bool) {
	switch x := e.(type) {
	case *ast.BasicLit:
		if x.Kind != token.INT {
			return nil, false
		}
		v, ok := new(big.Int).SetString(x.Value, 0)
		return v, ok
	case *ast.ParenExpr:
		return evalInt(x.X)
	case *ast.BinaryExpr:
		a, ok1 := evalInt(x.X)
		b, ok2 := evalInt(x.Y)
		if !ok1 || !ok2 {
			return nil, false
		}
		switch x.Op {
		case token.MUL:
			return new(big.Int).Mul(a, b), true
		case token.ADD:
			return new(big.Int).Add(a, b), true
		}
	}
	return nil, false
}

func findConst(files []*ast.File, name string) ast.Expr {
	for _, f := range files {
		for _, d := range f.Decls {
			gd, ok := d.(*ast.GenDecl)
			if !ok || (gd.Tok != token.CONST && gd.Tok != token.VAR) {
				continue
			}
			for _, sp := range gd.Specs {
				vs := sp.(*ast.ValueSpec)
				for i, n := range vs.Names {
					if n.Name == name && i < len(vs.Values) {
						return vs.Values[i]
					}
				}
			}
		}
	}
	return nil
}

// decimal literal "0.7" → (7, 10) in lowest terms
func fracOf(lit string) (string, string, bool) {
	r, ok := new(big.Rat).SetString(lit)
	if !ok {
		return "0", "1", false
	}
	return r.Num().String(), r.Denom().String(), true
}

// calls (by selector or plain name) reachable in a node, in source order
func callNames(n ast.Node) []string {
	var xs []string
	ast.Inspect(n, func(m ast.Node) bool {
		if ce, ok := m.(*ast.CallExpr); ok {
			switch f := ce.Fun.(type) {
			case *ast.SelectorExpr:
				xs = append(xs, f.Sel.Name)
			case *ast.Ident:
				xs = append(xs, f.Name)
			}
		}
		return true
	})
	return xs
}

func contains(xs []string, s string) bool {
	for _, x := range xs {
		if x == s {
			return true
		}
	}
	return false
}

// the comparison operator of the first `if` (or else-if) whose condition mentions both identifiers
func cmpOp(fd *ast.FuncDecl, c *Ctx, a, b string) string {
	op := "?"
	if fd == nil {
		return op
	}
	ast.Inspect(fd.Body, func(m ast.Node) bool {
		if op != "?" {
			return false
		}
		if is, ok := m.(*ast.IfStmt); ok {
			if be, ok := is.Cond.(*ast.BinaryExpr); ok {
				l, r := c.Src(be.X), c.Src(be.Y)
				if strings.Contains(l, a) && strings.Contains(r, b) {
					op = be.Op.String()
				}
			}
		}
		return true
	})
	return op
}

// In `fd`: the names of the sentinel errors (`types.ErrX`) returned, in source order, before the first call of `stop`
func errorsBefore(fd *ast.FuncDecl, c *Ctx, stop string) ([]string, bool) {
	var xs []string
	seen := false
	if fd == nil {
		return nil, false
	}
	ast.Inspect(fd.Body, func(m ast.Node) bool {
		if seen {
			return false
		}
		switch x := m.(type) {
		case *ast.CallExpr:
			if se, ok := x.Fun.(*ast.SelectorExpr); ok && se.Sel.Name == stop {
				seen = true
				return false
			}
		case *ast.ReturnStmt:
			for _, r := range x.Results {
				if se, ok := r.(*ast.SelectorExpr); ok && strings.HasPrefix(se.Sel.Name, "Err") {
					xs = append(xs, se.Sel.Name)
				}
			}
		}
		return true
	})
	return xs, seen
}

// guard calls in the conditions of the `if` statements that precede the first call of `stop`, with negation
func guardsBefore(fd *ast.FuncDecl, c *Ctx, stop string) ([]string, bool) {
	var xs []string
	seen := false
	if fd == nil {
		return nil, false
	}
	for _, st := range fd.Body.List {
		if contains(callNames(st), stop) {
			seen = true
			break
		}
		if is, ok := st.(*ast.IfStmt); ok && is.Init == nil {
			cond := is.Cond
			neg := ""
			if ue, ok := cond.(*ast.UnaryExpr); ok && ue.Op == token.NOT {
				neg = "!"
				cond = ue.X
			}
			if ce, ok := cond.(*ast.CallExpr); ok {
				if se, ok := ce.Fun.(*ast.SelectorExpr); ok {
					// must return an error in the body
					ret := false
					for _, b := range is.Body.List {
						if _, ok := b.(*ast.ReturnStmt); ok {
							ret = true
						}
					}
					if ret {
						xs = append(xs, neg+se.Sel.Name)
					}
				}
			}
		}
	}
	return xs, seen
}

func leanList(xs []string) string {
	var q []string
	for _, x := range xs {
		q = append(q, LeanStr(x))
	}
	return "[" + strings.Join(q, ", ") + "]"
}

func bridgeFacts(c *Ctx) error {
	var unreadable []string
	otypes, err := c.ParseDir("x/oracle/types")
	if err != nil {
		return err
	}
	okeeper, err := c.ParseDir("x/oracle/keeper")
	if err != nil {
		return err
	}
	etypes, err := c.ParseDir("x/ethbridge/types")
	if err != nil {
		return err
	}
	ekeeper, err := c.ParseDir("x/ethbridge/keeper")
	if err != nil {
		return err
	}
	appf, err := c.ParseDir("app")
	if err != nil {
		return err
	}
	var sb strings.Builder
	sb.WriteString("namespace Sif.Generated.BridgeConsts\n\n")

	// DefaultConsensusNeeded
	num, den := "0", "1"
	if e := findConst(otypes, "DefaultConsensusNeeded"); e != nil {
		if bl, ok := e.(*ast.BasicLit); ok && (bl.Kind == token.FLOAT || bl.Kind == token.INT) {
			var ok2 bool
			num, den, ok2 = fracOf(bl.Value)
			if !ok2 {
				unreadable = append(unreadable, "DefaultConsensusNeeded")
			}
		} else {
			unreadable = append(unreadable, "DefaultConsensusNeeded")
		}
	} else {
		unreadable = append(unreadable, "DefaultConsensusNeeded")
	}
	fmt.Fprintf(&sb, "/-- x/oracle/types.DefaultConsensusNeeded as a fraction -/\ndef consensusNum : Nat := %s\ndef consensusDen : Nat := %s\n\n", num, den)

	// app.go passes oracletypes.DefaultConsensusNeeded to oraclekeeper.NewKeeper
	appArg := "?"
	for _, f := range appf {
		ast.Inspect(f, func(m ast.Node) bool {
			if ce, ok := m.(*ast.CallExpr); ok {
				if se, ok := ce.Fun.(*ast.SelectorExpr); ok && se.Sel.Name == "NewKeeper" {
					if id, ok := se.X.(*ast.Ident); ok && id.Name == "oraclekeeper" && len(ce.Args) == 4 {
						appArg = c.Src(ce.Args[3])
					}
				}
			}
			return true
		})
	}
	fmt.Fprintf(&sb, "/-- the consensusNeeded argument of oraclekeeper.NewKeeper in app/app.go -/\ndef appConsensusArg : String := %s\n\n", LeanStr(appArg))

	// processCompletion comparisons; FindHighestClaim comparison and whitelist guard
	pc := FindFunc(okeeper, "Keeper", "processCompletion")
	fmt.Fprintf(&sb, "def successCmp : String := %s\n", LeanStr(cmpOp(pc, c, "highestConsensusRatio", "consensusNeeded")))
	fmt.Fprintf(&sb, "def failedCmp : String := %s\n", LeanStr(cmpOp(pc, c, "highestPossibleConsensusRatio", "consensusNeeded")))
	fh := FindFunc(otypes, "Prophecy", "FindHighestClaim")
	fmt.Fprintf(&sb, "def tallyCmp : String := %s\n", LeanStr(cmpOp(fh, c, "claimPower", "highestClaimPower")))
	// the `if` that guards `claimPower += …` : which calls does its condition make?
	guard := "?"
	if fh != nil {
		ast.Inspect(fh.Body, func(m ast.Node) bool {
			if is, ok := m.(*ast.IfStmt); ok {
				for _, b := range is.Body.List {
					if as, ok := b.(*ast.AssignStmt); ok && as.Tok == token.ADD_ASSIGN && len(as.Lhs) == 1 && c.Src(as.Lhs[0]) == "claimPower" {
						guard = c.Src(is.Cond)
					}
				}
			}
			return true
		})
	}
	fmt.Fprintf(&sb, "/-- condition under which FindHighestClaim adds a claimant's power -/\ndef claimPowerGuard : String := %s\n", LeanStr(guard))
	fmt.Fprintf(&sb, "def claimPowerNeedsWhitelist : Bool := %v\n\n", strings.Contains(guard, "found") && strings.Contains(guard, "&& inWhiteList(validator,"))

	// EnsureAddressIsInWhitelist compares the claim's address *string* with the canonical spelling of every entry
	wlCmp := "?"
	if fd := FindFunc(okeeper, "Keeper", "EnsureAddressIsInWhitelist"); fd != nil {
		ast.Inspect(fd.Body, func(m ast.Node) bool {
			if is, ok := m.(*ast.IfStmt); ok && wlCmp == "?" {
				wlCmp = c.Src(is.Cond)
			}
			return true
		})
	}
	fmt.Fprintf(&sb, "/-- the test EnsureAddressIsInWhitelist applies to each whitelist entry -/\ndef whitelistTest : String := %s\n", LeanStr(wlCmp))
	// the duplicate guard of ProcessClaim looks the validator up by the raw string of the message
	dupKey := "?"
	if pcl0 := FindFunc(okeeper, "Keeper", "ProcessClaim"); pcl0 != nil {
		ast.Inspect(pcl0.Body, func(m ast.Node) bool {
			if is, ok := m.(*ast.IfStmt); ok && strings.Contains(c.Src(is.Cond), "ValidatorClaims[") {
				dupKey = c.Src(is.Cond)
			}
			return true
		})
	}
	fmt.Fprintf(&sb, "def duplicateTest : String := %s\n\n", LeanStr(dupKey))

	// ProcessClaim: sentinel errors returned before AddClaim
	pcl := FindFunc(okeeper, "Keeper", "ProcessClaim")
	errs, seen := errorsBefore(pcl, c, "AddClaim")
	if !seen {
		unreadable = append(unreadable, "ProcessClaim.AddClaim")
	}
	fmt.Fprintf(&sb, "/-- sentinel errors ProcessClaim returns, in source order, before it calls AddClaim -/\ndef processClaimErrors : List String := %s\n", leanList(errs))
	calls := callNames(pcl)
	var order []string
	for _, n := range calls {
		switch n {
		case "EnsureAddressIsInWhitelist", "checkActiveValidator", "GetProphecy", "AddClaim", "processCompletion", "SetProphecy":
			order = append(order, n)
		}
	}
	fmt.Fprintf(&sb, "def processClaimCalls : List String := %s\n\n", leanList(order))

	// ethbridge constants
	strConst := func(files []*ast.File, name string) string {
		if e := findConst(files, name); e != nil {
			if bl, ok := e.(*ast.BasicLit); ok && bl.Kind == token.STRING {
				if s, err := strconv.Unquote(bl.Value); err == nil {
					return s
				}
			}
		}
		unreadable = append(unreadable, name)
		return ""
	}
	intConst := func(files []*ast.File, name string) string {
		if e := findConst(files, name); e != nil {
			if v, ok := evalInt(e); ok {
				return v.String()
			}
		}
		unreadable = append(unreadable, name)
		return "0"
	}
	fmt.Fprintf(&sb, "def peggedCoinPrefix : String := %s\n", LeanStr(strConst(etypes, "PeggedCoinPrefix")))
	fmt.Fprintf(&sb, "def cethSymbol : String := %s\n", LeanStr(strConst(etypes, "CethSymbol")))
	fmt.Fprintf(&sb, "def lockGasCost : Nat := %s\n", intConst(etypes, "lockGasCost"))
	fmt.Fprintf(&sb, "def burnGasCost : Nat := %s\n\n", intConst(etypes, "burnGasCost"))

	// msg server guards before the keeper call
	for _, g := range [][3]string{{"Lock", "ProcessLock", "lockGuards"}, {"Burn", "ProcessBurn", "burnGuards"}} {
		fd := FindFunc(ekeeper, "msgServer", g[0])
		gs, seen := guardsBefore(fd, c, g[1])
		if !seen {
			unreadable = append(unreadable, g[0]+"."+g[1])
		}
		fmt.Fprintf(&sb, "def %s : List String := %s\n", g[2], leanList(gs))
	}
	for _, g := range [][2]string{{"ProcessLock", "processLockGuards"}, {"ProcessBurn", "processBurnGuards"}} {
		fd := FindFunc(ekeeper, "Keeper", g[0])
		gs, _ := guardsBefore(fd, c, "SendCoinsFromAccountToModule")
		fmt.Fprintf(&sb, "def %s : List String := %s\n", g[1], leanList(gs))
	}
	// CreateEthBridgeClaim: ProcessSuccessfulClaim only inside `if status.Text == …SUCCESS`
	cond := "?"
	if fd := FindFunc(ekeeper, "msgServer", "CreateEthBridgeClaim"); fd != nil {
		n := 0
		ast.Inspect(fd.Body, func(m ast.Node) bool {
			if is, ok := m.(*ast.IfStmt); ok && contains(callNames(is.Body), "ProcessSuccessfulClaim") && !contains(callNames(is.Cond), "ProcessSuccessfulClaim") {
				if cond == "?" {
					cond = c.Src(is.Cond)
				}
			}
			if ce, ok := m.(*ast.CallExpr); ok {
				if se, ok := ce.Fun.(*ast.SelectorExpr); ok && se.Sel.Name == "ProcessSuccessfulClaim" {
					n++
				}
			}
			return true
		})
		if n != 1 {
			cond = fmt.Sprintf("? (%d calls)", n)
		}
	}
	fmt.Fprintf(&sb, "/-- the condition guarding the only call of ProcessSuccessfulClaim -/\ndef creditGuard : String := %s\n", LeanStr(cond))
	// blacklist: how IsBlacklisted builds its key
	blk := "?"
	if fd := FindFunc(ekeeper, "Keeper", "IsBlacklisted"); fd != nil {
		blk = c.Src(fd.Body)
	}
	fmt.Fprintf(&sb, "def blacklistNormalised : Bool := %v\n\n", strings.Contains(blk, "normalizeEthAddress(address)"))

	// peggy-token list: how AddPeggyToken and ExistsPeggyToken compare token names.  Every `if` condition of the two
	// functions is listed; any call into package strings (EqualFold, ToLower, HasPrefix, Contains …) or bytes makes the
	// entry "unknown: …", which fails the Lean obligation.
	for _, g := range [][2]string{{"AddPeggyToken", "addPeggyTests"}, {"ExistsPeggyToken", "existsPeggyTests"}} {
		var tests []string
		if fd := FindFunc(ekeeper, "Keeper", g[0]); fd != nil {
			ast.Inspect(fd.Body, func(m ast.Node) bool {
				switch x := m.(type) {
				case *ast.IfStmt:
					tests = append(tests, c.Src(x.Cond))
				case *ast.CallExpr:
					if se, ok := x.Fun.(*ast.SelectorExpr); ok {
						if id, ok := se.X.(*ast.Ident); ok && (id.Name == "strings" || id.Name == "bytes" || id.Name == "unicode") {
							tests = append(tests, "unknown: "+c.Src(x))
						}
					}
				}
				return true
			})
		} else {
			tests = append(tests, "unknown: no such function")
		}
		fmt.Fprintf(&sb, "def %s : List String := %s\n", g[1], leanList(tests))
	}
	sb.WriteString("\n")

	// block hooks of the two modules (the model treats a block step as the identity) and every use of the block height
	// or time in their keepers / types (none expected)
	var hooks []string
	for _, mod := range []string{"oracle", "ethbridge"} {
		files, err := c.ParseDir("x/" + mod)
		if err != nil {
			return err
		}
		for _, fn := range []string{"BeginBlock", "EndBlock"} {
			body := "?"
			if fd := FindFunc(files, "AppModule", fn); fd != nil {
				body = c.Src(fd.Body)
			}
			hooks = append(hooks, mod+"."+fn+" "+body)
		}
	}
	fmt.Fprintf(&sb, "def blockHooks : List String := %s\n", leanList(hooks))
	var heightUses []string
	for _, group := range [][]*ast.File{okeeper, otypes, ekeeper, etypes} {
		for _, f := range group {
			ast.Inspect(f, func(m ast.Node) bool {
				if se, ok := m.(*ast.SelectorExpr); ok {
					switch se.Sel.Name {
					case "BlockHeight", "BlockTime", "BlockHeader":
						heightUses = append(heightUses, c.Fset.Position(se.Pos()).Filename[len(c.Repo)+1:]+": "+c.Src(se))
					}
				}
				return true
			})
		}
	}
	fmt.Fprintf(&sb, "def heightUses : List String := %s\n\n", leanList(heightUses))

	// ethbridge InitGenesis: the keeper calls it makes, in source order (the genesis peggy list goes through AddPeggyToken)
	var initCalls []string
	if egen, err := c.ParseDir("x/ethbridge"); err == nil {
		if fd := FindFunc(egen, "", "InitGenesis"); fd != nil {
			for _, n := range callNames(fd.Body) {
				if strings.HasPrefix(n, "Set") || strings.HasPrefix(n, "Add") || strings.HasPrefix(n, "Delete") {
					initCalls = append(initCalls, n)
				}
			}
		}
	}
	fmt.Fprintf(&sb, "def ethbridgeInitGenesisCalls : List String := %s\n\n", leanList(initCalls))

	sb.WriteString("def unreadable : List String := " + leanList(unreadable) + "\n\nend Sif.Generated.BridgeConsts\n")
	return c.WriteLean("BridgeConsts", sb.String())
}
