package main

// pass "validate" (C10, tie 1): regenerates lean/Sif/Generated/Validate.lean — for each of the ten AMM
// policy / parameter messages of x/clp, the reject conditions of its ValidateBasic
// (x/clp/types/msgs.go) followed by those of its handler (x/clp/keeper/msg_server.go), as a list of
// `Sif.Validate.Clause` (expression AST of lean/Sif/Model/Validate.lean).
//
// The walk is sequential over the function body.  Understood:
//   if c { …; return <non-nil error> }         ⇒ clause c (under the enclosing ranges and guards)
//   if g { … }  (no else, no return at its end)  ⇒ the statements inside, guarded by g
//   for _, x := range <list field> { … }         ⇒ the statements inside, for every element
//   x := <expr> / x, err := <call> / const x = …  ⇒ symbolic binding (unknown right-hand sides = `unknown`)
//   <state>.<field> = v  (possibly under a guard `!StringCompare(msg.F, "")`) ⇒ binding of that state field
//   k.Set…(…), ctx.EventManager()…, events = …   ⇒ nothing
//   return …                                    ⇒ end
// A condition that cannot be translated gives `Cond.opaque` (a reject condition can only make the code
// stricter, so this is harmless).  ANY other statement gives a `barrier` clause: nothing after it counts.
// The Lean obligation `covers generated required = true` then fails if a required clause is missing.

import (
	"fmt"
	"go/ast"
	"go/token"
	"math/big"
	"sort"
	"strconv"
	"strings"
)

func init() { passes["validate"] = passValidate }

type vmsg struct {
	lean    string // Lean definition name
	msgType string // Go message struct
	handler string // msgServer method
}

var vmsgs = []vmsg{
	{"modifyPmtpRates", "MsgModifyPmtpRates", "ModifyPmtpRates"},
	{"updatePmtpParams", "MsgUpdatePmtpParams", "UpdatePmtpParams"},
	{"modifyLPRates", "MsgModifyLiquidityProtectionRates", "ModifyLiquidityProtectionRates"},
	{"updateLPParams", "MsgUpdateLiquidityProtectionParams", "UpdateLiquidityProtectionParams"},
	{"addRewardPeriod", "MsgAddRewardPeriodRequest", "AddRewardPeriod"},
	{"updateRewardsParams", "MsgUpdateRewardsParamsRequest", "UpdateRewardsParams"},
	{"updateStakingRewardParams", "MsgUpdateStakingRewardParams", "UpdateStakingRewardParams"},
	{"addLppd", "MsgAddProviderDistributionPeriodRequest", "AddProviderDistributionPeriod"},
	{"updateSwapFee", "MsgUpdateSwapFeeParamsRequest", "UpdateSwapFeeParams"},
	{"setSymmetryThreshold", "MsgSetSymmetryThreshold", "SetSymmetryThreshold"},
}

// ---- symbolic values -------------------------------------------------------------------------

type vkind int

const (
	vUnknown vkind = iota
	vTerm           // an integer-valued term (Lean text) with a Go type
	vCond           // a boolean condition (Lean text)
	vMsg            // the message, or an element of a ranged list: struct `typ` at path prefix `path`
	vState          // a state object returned by k.Get<name>(ctx)
	vStr            // a string field (path)
	vPtr            // a pointer-typed numeric field (path) — usable as a term, comparable with nil
	vErrAtom        // an `err` variable standing for an atom
	vList           // a list field: path (binder name) and element struct type
)

type sval struct {
	k    vkind
	lean string // Term / Cond text, or path
	typ  string // Go type: int64 uint64 Dec Uint string, struct name, …
}

var unknown = sval{k: vUnknown}

type scope struct {
	vars map[string]sval
	up   *scope
}

func (s *scope) get(n string) (sval, bool) {
	for c := s; c != nil; c = c.up {
		if v, ok := c.vars[n]; ok {
			return v, true
		}
	}
	return unknown, false
}
func (s *scope) set(n string, v sval) { s.vars[n] = v }
func (s *scope) assign(n string, v sval) {
	for c := s; c != nil; c = c.up {
		if _, ok := c.vars[n]; ok {
			c.vars[n] = v
			return
		}
	}
	s.vars[n] = v
}

type vwalk struct {
	c       *Ctx
	structs map[string]map[string]string // struct -> field -> Go type text
	state   map[string]sval              // "PmtpParams.PmtpPeriodGovernanceRate" -> current symbolic value
	consts  map[string]sval              // package-level constants of x/clp/types (int: vTerm/"const", string: vStr/"const")
	out     []string                     // Lean clause texts
	binders []string
	guards  []string
	guardAst []ast.Expr
	dead    bool
}

func (w *vwalk) emit(cond string, barrier bool) {
	if w.dead {
		return
	}
	b := "false"
	if barrier {
		b = "true"
		w.dead = true
	}
	w.out = append(w.out, fmt.Sprintf("⟨[%s], [%s], %s, %s⟩", joinQ(w.binders), strings.Join(w.guards, ", "), cond, b))
}

func joinQ(xs []string) string {
	q := make([]string, len(xs))
	for i, x := range xs {
		q[i] = LeanStr(x)
	}
	return strings.Join(q, ", ")
}

func (w *vwalk) barrier(n ast.Node) {
	w.emit("Cond.opaque "+LeanStr("unrecognised statement: "+clip(w.c.Src(n))), true)
}

func clip(s string) string {
	if len(s) > 120 {
		return s[:120] + "…"
	}
	return s
}

func opaque(w *vwalk, n ast.Node) string { return "Cond.opaque " + LeanStr(clip(w.c.Src(n))) }

// ---- struct field types -----------------------------------------------------------------------

func typeText(c *Ctx, e ast.Expr) string {
	s := c.Src(e)
	s = strings.ReplaceAll(s, "github_com_cosmos_cosmos_sdk_types.", "sdk.")
	return s
}

func loadStructs(c *Ctx, files []*ast.File) map[string]map[string]string {
	out := map[string]map[string]string{}
	for _, f := range files {
		for _, d := range f.Decls {
			gd, ok := d.(*ast.GenDecl)
			if !ok || gd.Tok != token.TYPE {
				continue
			}
			for _, sp := range gd.Specs {
				ts := sp.(*ast.TypeSpec)
				st, ok := ts.Type.(*ast.StructType)
				if !ok {
					continue
				}
				m := map[string]string{}
				for _, fl := range st.Fields.List {
					for _, n := range fl.Names {
						m[n.Name] = typeText(c, fl.Type)
					}
				}
				out[ts.Name.Name] = m
			}
		}
	}
	return out
}

// fieldVal: the symbolic value of field `f` of a struct value at path prefix `prefix`.
func (w *vwalk) fieldVal(structName, prefix, f string) sval {
	t, ok := w.structs[structName][f]
	if !ok {
		return unknown
	}
	path := prefix + f
	switch t {
	case "int64", "uint64":
		return sval{vTerm, "Term.fld " + LeanStr(path), t}
	case "sdk.Dec":
		return sval{vTerm, "Term.fld " + LeanStr(path), "Dec"}
	case "sdk.Uint":
		return sval{vTerm, "Term.fld " + LeanStr(path), "Uint"}
	case "*sdk.Dec":
		return sval{vPtr, path, "Dec"}
	case "*sdk.Uint":
		return sval{vPtr, path, "Uint"}
	case "string":
		return sval{vStr, path, "string"}
	case "bool":
		return sval{vCond, "Cond.atom " + LeanStr(path), "bool"}
	}
	if strings.HasPrefix(t, "[]*") {
		return sval{vList, path, strings.TrimPrefix(t, "[]*")}
	}
	return unknown
}

// ---- expressions ------------------------------------------------------------------------------

var p18 = new(big.Int).Exp(big.NewInt(10), big.NewInt(18), nil)

func litDec(i *big.Int) sval { return sval{vTerm, "Term.lit (" + new(big.Int).Mul(i, p18).String() + ")", "Dec"} }

func decFromStr(s string) (*big.Int, bool) {
	neg := strings.HasPrefix(s, "-")
	s = strings.TrimPrefix(s, "-")
	parts := strings.Split(s, ".")
	if len(parts) > 2 || parts[0] == "" {
		return nil, false
	}
	frac := ""
	if len(parts) == 2 {
		frac = parts[1]
	}
	if len(frac) > 18 {
		return nil, false
	}
	frac += strings.Repeat("0", 18-len(frac))
	v, ok := new(big.Int).SetString(parts[0]+frac, 10)
	if !ok {
		return nil, false
	}
	if neg {
		v.Neg(v)
	}
	return v, true
}

func (w *vwalk) asTerm(v sval) (string, string, bool) {
	switch v.k {
	case vTerm:
		return v.lean, v.typ, true
	case vPtr:
		return "Term.fld " + LeanStr(v.lean), v.typ, true
	}
	return "", "", false
}

// intConst: an integer constant expression (literal, unary minus, named const in scope)
func (w *vwalk) intConst(sc *scope, e ast.Expr) (*big.Int, bool) {
	switch x := e.(type) {
	case *ast.BasicLit:
		if x.Kind == token.INT {
			v, ok := new(big.Int).SetString(x.Value, 0)
			return v, ok
		}
	case *ast.UnaryExpr:
		if x.Op == token.SUB {
			if v, ok := w.intConst(sc, x.X); ok {
				return new(big.Int).Neg(v), true
			}
		}
	case *ast.ParenExpr:
		return w.intConst(sc, x.X)
	case *ast.Ident:
		if v, ok := sc.get(x.Name); ok {
			if v.k == vTerm && v.typ == "const" {
				n, ok := new(big.Int).SetString(v.lean, 10)
				return n, ok
			}
			return nil, false
		}
		if v, ok := w.consts[x.Name]; ok && v.k == vTerm {
			n, ok := new(big.Int).SetString(v.lean, 10)
			return n, ok
		}
	case *ast.SelectorExpr:
		if pkg, name, ok := selName(x); ok && pkg == "types" {
			if v, ok := w.consts[name]; ok && v.k == vTerm {
				n, ok := new(big.Int).SetString(v.lean, 10)
				return n, ok
			}
		}
	}
	return nil, false
}

func (w *vwalk) strConst(sc *scope, e ast.Expr) (string, bool) {
	switch x := e.(type) {
	case *ast.BasicLit:
		if x.Kind == token.STRING {
			s, err := strconv.Unquote(x.Value)
			return s, err == nil
		}
	case *ast.Ident:
		if v, ok := sc.get(x.Name); ok {
			if v.k == vStr && v.typ == "const" {
				return v.lean, true
			}
			return "", false
		}
		if v, ok := w.consts[x.Name]; ok && v.k == vStr {
			return v.lean, true
		}
	case *ast.SelectorExpr:
		if pkg, name, ok := selName(x); ok && pkg == "types" {
			if v, ok := w.consts[name]; ok && v.k == vStr {
				return v.lean, true
			}
		}
	}
	return "", false
}

func selName(e ast.Expr) (string, string, bool) { // pkg.Name or x.Name with x an identifier
	if se, ok := e.(*ast.SelectorExpr); ok {
		if id, ok := se.X.(*ast.Ident); ok {
			return id.Name, se.Sel.Name, true
		}
	}
	return "", "", false
}

func (w *vwalk) eval(sc *scope, e ast.Expr) sval {
	switch x := e.(type) {
	case *ast.ParenExpr:
		return w.eval(sc, x.X)
	case *ast.Ident:
		if x.Name == "nil" {
			return sval{vUnknown, "nil", "nil"}
		}
		if v, ok := sc.get(x.Name); ok {
			if v.k == vTerm && v.typ == "const" {
				return sval{vTerm, "Term.lit (" + v.lean + ")", "int"}
			}
			return v
		}
		return unknown
	case *ast.BasicLit:
		if n, ok := w.intConst(sc, x); ok {
			return sval{vTerm, "Term.lit (" + n.String() + ")", "int"}
		}
		return unknown
	case *ast.UnaryExpr:
		if x.Op == token.NOT {
			if c, ok := w.cond(sc, x.X); ok {
				return sval{vCond, "Cond.not (" + c + ")", "bool"}
			}
			return unknown
		}
		if n, ok := w.intConst(sc, x); ok {
			return sval{vTerm, "Term.lit (" + n.String() + ")", "int"}
		}
		return unknown
	case *ast.SelectorExpr:
		base := w.eval(sc, x.X)
		switch base.k {
		case vMsg:
			return w.fieldVal(base.typ, base.lean, x.Sel.Name)
		case vState:
			key := base.lean + "." + x.Sel.Name
			if v, ok := w.state[key]; ok {
				return v
			}
			t := w.structs[base.lean][x.Sel.Name]
			switch t {
			case "sdk.Dec":
				return sval{vTerm, "Term.st " + LeanStr(key), "Dec"}
			case "sdk.Uint":
				return sval{vTerm, "Term.st " + LeanStr(key), "Uint"}
			case "int64", "uint64":
				return sval{vTerm, "Term.st " + LeanStr(key), t}
			}
			return unknown
		}
		return unknown
	case *ast.BinaryExpr:
		return w.binary(sc, x)
	case *ast.CallExpr:
		return w.call(sc, x)
	}
	return unknown
}

func (w *vwalk) binary(sc *scope, x *ast.BinaryExpr) sval {
	switch x.Op {
	case token.LAND, token.LOR:
		a, ok1 := w.cond(sc, x.X)
		b, ok2 := w.cond(sc, x.Y)
		if !ok1 || !ok2 {
			return unknown
		}
		op := "Cond.and"
		if x.Op == token.LOR {
			op = "Cond.or"
		}
		return sval{vCond, fmt.Sprintf("%s (%s) (%s)", op, a, b), "bool"}
	case token.EQL, token.NEQ, token.LSS, token.LEQ, token.GTR, token.GEQ:
		l, r := w.eval(sc, x.X), w.eval(sc, x.Y)
		// nil / "" tests
		if r.typ == "nil" && l.k == vPtr && (x.Op == token.EQL || x.Op == token.NEQ) {
			c := "Cond.isNil " + LeanStr(l.lean)
			if x.Op == token.NEQ {
				c = "Cond.not (" + c + ")"
			}
			return sval{vCond, c, "bool"}
		}
		if s, ok := w.strConst(sc, x.Y); ok && s == "" && l.k == vStr && l.typ != "const" && (x.Op == token.EQL || x.Op == token.NEQ) {
			c := "Cond.strEmpty " + LeanStr(l.lean)
			if x.Op == token.NEQ {
				c = "Cond.not (" + c + ")"
			}
			return sval{vCond, c, "bool"}
		}
		if l.k == vErrAtom && r.typ == "nil" {
			c := "Cond.atom " + LeanStr(l.lean)
			if x.Op == token.EQL {
				c = "Cond.not (" + c + ")"
			}
			return sval{vCond, c, "bool"}
		}
		lt, ltyp, ok1 := w.asTerm(l)
		rt, rtyp, ok2 := w.asTerm(r)
		if !ok1 || !ok2 || !(ltyp == rtyp || ltyp == "int" || rtyp == "int") || ltyp == "Dec" || ltyp == "Uint" {
			return unknown
		}
		var c string
		switch x.Op {
		case token.EQL:
			c = fmt.Sprintf("Cond.eq (%s) (%s)", lt, rt)
		case token.NEQ:
			c = fmt.Sprintf("Cond.not (Cond.eq (%s) (%s))", lt, rt)
		case token.LSS:
			c = fmt.Sprintf("Cond.lt (%s) (%s)", lt, rt)
		case token.LEQ:
			c = fmt.Sprintf("Cond.le (%s) (%s)", lt, rt)
		case token.GTR:
			c = fmt.Sprintf("Cond.lt (%s) (%s)", rt, lt)
		case token.GEQ:
			c = fmt.Sprintf("Cond.le (%s) (%s)", rt, lt)
		}
		return sval{vCond, c, "bool"}
	case token.ADD, token.SUB, token.QUO, token.REM:
		l, r := w.eval(sc, x.X), w.eval(sc, x.Y)
		lt, ltyp, ok1 := w.asTerm(l)
		rt, rtyp, ok2 := w.asTerm(r)
		if !ok1 || !ok2 {
			return unknown
		}
		typ := ltyp
		if typ == "int" {
			typ = rtyp
		}
		if (ltyp != typ && ltyp != "int") || (rtyp != typ && rtyp != "int") {
			return unknown
		}
		var op string
		switch {
		case typ == "int64" && x.Op == token.ADD:
			op = "Term.addI64"
		case typ == "int64" && x.Op == token.SUB:
			op = "Term.subI64"
		case typ == "int64" && x.Op == token.QUO:
			op = "Term.divI64"
		case typ == "int64" && x.Op == token.REM:
			op = "Term.modI64"
		case typ == "uint64" && x.Op == token.ADD:
			op = "Term.addU64"
		case typ == "uint64" && x.Op == token.SUB:
			op = "Term.subU64"
		default:
			return unknown
		}
		return sval{vTerm, fmt.Sprintf("%s (%s) (%s)", op, lt, rt), typ}
	}
	return unknown
}

func (w *vwalk) call(sc *scope, x *ast.CallExpr) sval {
	// StringCompare called from inside package types
	if id, ok := x.Fun.(*ast.Ident); ok && id.Name == "StringCompare" && len(x.Args) == 2 {
		a := w.eval(sc, x.Args[0])
		if s, ok := w.strConst(sc, x.Args[1]); ok && s == "" && a.k == vStr && a.typ != "const" {
			return sval{vCond, "Cond.strEmpty " + LeanStr(a.lean), "bool"}
		}
		return unknown
	}
	// package-level constructors
	if pkg, name, ok := selName(x.Fun); ok {
		switch pkg + "." + name {
		case "sdk.ZeroDec":
			return litDec(big.NewInt(0))
		case "sdk.OneDec":
			return litDec(big.NewInt(1))
		case "sdk.NewDec":
			if len(x.Args) == 1 {
				if n, ok := w.intConst(sc, x.Args[0]); ok {
					return litDec(n)
				}
			}
			return unknown
		case "sdk.MustNewDecFromStr":
			if len(x.Args) == 1 {
				if s, ok := w.strConst(sc, x.Args[0]); ok {
					if v, ok := decFromStr(s); ok {
						return sval{vTerm, "Term.lit (" + v.String() + ")", "Dec"}
					}
				}
			}
			return unknown
		case "sdk.NewUintFromString":
			if len(x.Args) == 1 {
				if s, ok := w.strConst(sc, x.Args[0]); ok {
					if v, ok := new(big.Int).SetString(s, 10); ok && v.Sign() >= 0 && v.BitLen() <= 256 {
						return sval{vTerm, "Term.lit (" + v.String() + ")", "Uint"}
					}
				}
			}
			return unknown
		case "sdk.ZeroUint":
			return sval{vTerm, "Term.lit (0)", "Uint"}
		case "types.StringCompare":
			if len(x.Args) == 2 {
				a := w.eval(sc, x.Args[0])
				if s, ok := w.strConst(sc, x.Args[1]); ok && s == "" && a.k == vStr && a.typ != "const" {
					return sval{vCond, "Cond.strEmpty " + LeanStr(a.lean), "bool"}
				}
			}
			return unknown
		case "ctx.BlockHeight":
			return sval{vTerm, "Term.st \"height\"", "int64"}
		}
	}
	// methods
	se, ok := x.Fun.(*ast.SelectorExpr)
	if !ok {
		return unknown
	}
	m := se.Sel.Name
	// k.IsInsidePmtpWindow(ctx), k.adminKeeper.IsAdminAccount(...), k.GetXxx(ctx)
	if m == "IsInsidePmtpWindow" {
		return sval{vCond, "Cond.atom \"insidePmtpWindow\"", "bool"}
	}
	if m == "IsAdminAccount" {
		return sval{vCond, "Cond.atom \"isAdmin\"", "bool"}
	}
	if strings.HasPrefix(m, "Get") && len(x.Args) == 1 && w.c.Src(x.Args[0]) == "ctx" {
		name := strings.TrimPrefix(m, "Get")
		if name == "RewardsParams" {
			name = "RewardParams"
		}
		if _, ok := w.structs[name]; ok {
			return sval{vState, name, name}
		}
		return unknown
	}
	recv := w.eval(sc, se.X)
	rt, rtyp, ok := w.asTerm(recv)
	if !ok || (rtyp != "Dec" && rtyp != "Uint") {
		return unknown
	}
	cmp := func(f string, swap bool) sval {
		if len(x.Args) != 1 {
			return unknown
		}
		a := w.eval(sc, x.Args[0])
		at, atyp, ok := w.asTerm(a)
		if !ok || atyp != rtyp {
			return unknown
		}
		if swap {
			return sval{vCond, fmt.Sprintf("%s (%s) (%s)", f, at, rt), "bool"}
		}
		return sval{vCond, fmt.Sprintf("%s (%s) (%s)", f, rt, at), "bool"}
	}
	switch m {
	case "LT":
		return cmp("Cond.lt", false)
	case "LTE":
		return cmp("Cond.le", false)
	case "GT":
		return cmp("Cond.lt", true)
	case "GTE":
		return cmp("Cond.le", true)
	case "Equal":
		return cmp("Cond.eq", false)
	case "IsNegative":
		return sval{vCond, fmt.Sprintf("Cond.lt (%s) (Term.lit (0))", rt), "bool"}
	case "IsZero":
		return sval{vCond, fmt.Sprintf("Cond.eq (%s) (Term.lit (0))", rt), "bool"}
	case "MulInt64":
		if rtyp == "Dec" && len(x.Args) == 1 {
			a := w.eval(sc, x.Args[0])
			if at, atyp, ok := w.asTerm(a); ok && (atyp == "int64" || atyp == "int") {
				return sval{vTerm, fmt.Sprintf("Term.mulInt (%s) (%s)", rt, at), "Dec"}
			}
		}
	}
	return unknown
}

func (w *vwalk) cond(sc *scope, e ast.Expr) (string, bool) {
	v := w.eval(sc, e)
	if v.k == vCond {
		return v.lean, true
	}
	return "", false
}

// ---- statements -------------------------------------------------------------------------------

// nonNilError: is the last result of the return statement certainly a non-nil error?
func nonNilError(ret *ast.ReturnStmt, condIsErrNotNil bool) bool {
	if len(ret.Results) == 0 {
		return false
	}
	last := ret.Results[len(ret.Results)-1]
	switch x := last.(type) {
	case *ast.CallExpr:
		if pkg, name, ok := selName(x.Fun); ok {
			switch pkg + "." + name {
			case "fmt.Errorf", "errors.New", "errors.Wrap", "errors.Errorf", "errors.Wrapf", "sdkerrors.Wrap", "sdkerrors.Wrapf":
				return true
			}
		}
	case *ast.SelectorExpr:
		if pkg, name, ok := selName(x); ok && pkg == "types" && strings.HasPrefix(name, "Err") {
			return true
		}
	case *ast.Ident:
		return x.Name == "err" && condIsErrNotNil
	}
	return false
}

func isErrNotNil(e ast.Expr) bool {
	b, ok := e.(*ast.BinaryExpr)
	if !ok || b.Op != token.NEQ {
		return false
	}
	l, ok1 := b.X.(*ast.Ident)
	r, ok2 := b.Y.(*ast.Ident)
	return ok1 && ok2 && l.Name == "err" && r.Name == "nil"
}

// benign call statements: state writes, events, logging
func benignCall(c *Ctx, e ast.Expr) bool {
	call, ok := e.(*ast.CallExpr)
	if !ok {
		return false
	}
	se, ok := call.Fun.(*ast.SelectorExpr)
	if !ok {
		return false
	}
	n := se.Sel.Name
	return strings.HasPrefix(n, "Set") || strings.HasPrefix(n, "Emit") || n == "Info" || n == "Error"
}

func (w *vwalk) define(sc *scope, lhs []ast.Expr, rhs []ast.Expr, assign bool) {
	set := func(n string, v sval) {
		if assign {
			sc.assign(n, v)
		} else {
			sc.set(n, v)
		}
	}
	names := make([]string, len(lhs))
	for i, l := range lhs {
		if id, ok := l.(*ast.Ident); ok {
			names[i] = id.Name
		}
	}
	// x, err := pkg.Call(field)
	if len(lhs) == 2 && len(rhs) == 1 && names[1] == "err" {
		if call, ok := rhs[0].(*ast.CallExpr); ok {
			if pkg, name, ok := selName(call.Fun); ok && len(call.Args) == 1 {
				a := w.eval(sc, call.Args[0])
				if a.k == vStr && a.typ != "const" {
					switch pkg + "." + name {
					case "sdk.AccAddressFromBech32":
						set("err", sval{vErrAtom, "badaddr:" + a.lean, "error"})
						if names[0] != "" && names[0] != "_" {
							set(names[0], unknown)
						}
						return
					case "sdk.NewDecFromStr":
						set("err", sval{vErrAtom, "baddec:" + a.lean, "error"})
						if names[0] != "" && names[0] != "_" {
							set(names[0], sval{vTerm, "Term.fld " + LeanStr("dec:"+a.lean), "Dec"})
						}
						return
					}
				}
			}
		}
	}
	if len(lhs) == len(rhs) {
		for i := range lhs {
			if names[i] == "" {
				// <state>.<field> = v
				if se, ok := lhs[i].(*ast.SelectorExpr); ok {
					base := w.eval(sc, se.X)
					if base.k == vState {
						w.assignState(sc, base.lean+"."+se.Sel.Name, rhs[i])
					}
				}
				continue
			}
			if names[i] == "_" {
				continue
			}
			set(names[i], w.eval(sc, rhs[i]))
		}
		return
	}
	for _, n := range names {
		if n != "" && n != "_" {
			set(n, unknown)
		}
	}
}

// assignState: `<state>.<field> = v`; under a single guard `!StringCompare(msg.F, "")` the field keeps
// its old value when msg.F is empty.
func (w *vwalk) assignState(sc *scope, key string, rhs ast.Expr) {
	v := w.eval(sc, rhs)
	nt, ntyp, ok := w.asTerm(v)
	if !ok {
		w.state[key] = unknown
		return
	}
	if len(w.guards) == 0 {
		w.state[key] = sval{vTerm, nt, ntyp}
		return
	}
	if len(w.guards) == 1 && strings.HasPrefix(w.guards[0], "Cond.not (Cond.strEmpty ") {
		path := strings.TrimSuffix(strings.TrimPrefix(w.guards[0], "Cond.not (Cond.strEmpty "), ")")
		old, ok := w.state[key]
		var ot string
		if ok {
			if old.k != vTerm {
				w.state[key] = unknown
				return
			}
			ot = old.lean
		} else {
			ot = "Term.st " + LeanStr(key)
		}
		w.state[key] = sval{vTerm, fmt.Sprintf("Term.ifEmpty %s (%s) (%s)", path, ot, nt), ntyp}
		return
	}
	w.state[key] = unknown
}

func (w *vwalk) block(sc *scope, stmts []ast.Stmt) {
	for _, s := range stmts {
		if w.dead {
			return
		}
		w.stmt(sc, s)
	}
}

func endsWithReturn(b *ast.BlockStmt) *ast.ReturnStmt {
	if len(b.List) == 0 {
		return nil
	}
	r, _ := b.List[len(b.List)-1].(*ast.ReturnStmt)
	return r
}

func (w *vwalk) stmt(sc *scope, s ast.Stmt) {
	switch x := s.(type) {
	case *ast.ReturnStmt:
		// a plain return at the top level ends the function (accepting, or rejecting further: harmless);
		// inside a loop or a guard it would be an early exit the clause list cannot express
		if len(w.binders) > 0 || len(w.guards) > 0 {
			w.barrier(s)
			return
		}
		w.dead = true
	case *ast.DeclStmt:
		gd, ok := x.Decl.(*ast.GenDecl)
		if !ok || gd.Tok != token.CONST {
			w.barrier(s)
			return
		}
		for _, sp := range gd.Specs {
			vs := sp.(*ast.ValueSpec)
			for i, n := range vs.Names {
				if i < len(vs.Values) {
					if v, ok := w.intConst(sc, vs.Values[i]); ok {
						sc.set(n.Name, sval{vTerm, v.String(), "const"})
						continue
					}
					if str, ok := w.strConst(sc, vs.Values[i]); ok {
						sc.set(n.Name, sval{vStr, str, "const"})
						continue
					}
				}
				sc.set(n.Name, unknown)
			}
		}
	case *ast.AssignStmt:
		if x.Tok != token.DEFINE && x.Tok != token.ASSIGN {
			w.barrier(s)
			return
		}
		w.define(sc, x.Lhs, x.Rhs, x.Tok == token.ASSIGN)
	case *ast.ExprStmt:
		if !benignCall(w.c, x.X) {
			w.barrier(s)
		}
	case *ast.RangeStmt:
		lst := w.eval(sc, x.X)
		val, ok := x.Value.(*ast.Ident)
		if lst.k != vList || !ok || (x.Key != nil && w.c.Src(x.Key) != "_") {
			w.barrier(s)
			return
		}
		inner := &scope{vars: map[string]sval{}, up: sc}
		inner.set(val.Name, sval{vMsg, lst.lean + "[].", lst.typ})
		w.binders = append(w.binders, lst.lean)
		w.block(inner, x.Body.List)
		w.binders = w.binders[:len(w.binders)-1]
	case *ast.IfStmt:
		if x.Else != nil {
			w.barrier(s)
			return
		}
		inner := &scope{vars: map[string]sval{}, up: sc}
		if x.Init != nil {
			as, ok := x.Init.(*ast.AssignStmt)
			if !ok || as.Tok != token.DEFINE {
				w.barrier(s)
				return
			}
			w.define(inner, as.Lhs, as.Rhs, false)
		}
		if ret := endsWithReturn(x.Body); ret != nil {
			// reject-if: everything before the return must be harmless, the return must carry an error
			for _, b := range x.Body.List[:len(x.Body.List)-1] {
				if es, ok := b.(*ast.ExprStmt); !ok || !benignCall(w.c, es.X) {
					w.barrier(s)
					return
				}
			}
			if !nonNilError(ret, isErrNotNil(x.Cond)) {
				w.barrier(s)
				return
			}
			c, ok := w.cond(inner, x.Cond)
			if !ok {
				c = opaque(w, x.Cond)
			}
			w.emit(c, false)
			return
		}
		// guard block
		g, ok := w.cond(inner, x.Cond)
		if !ok {
			// an untranslatable guard: clauses inside cannot be stated; writes inside make state unknown
			w.barrier(s)
			return
		}
		w.guards = append(w.guards, g)
		w.block(inner, x.Body.List)
		w.guards = w.guards[:len(w.guards)-1]
	default:
		w.barrier(s)
	}
}

// ---- driver -----------------------------------------------------------------------------------

func passValidate(c *Ctx) error {
	typesFiles, err := c.ParseDir("x/clp/types")
	if err != nil {
		return err
	}
	keeperFiles, err := c.ParseDir("x/clp/keeper")
	if err != nil {
		return err
	}
	structs := loadStructs(c, typesFiles)
	consts := map[string]sval{}
	for _, f := range typesFiles {
		for _, d := range f.Decls {
			gd, ok := d.(*ast.GenDecl)
			if !ok || gd.Tok != token.CONST {
				continue
			}
			for _, sp := range gd.Specs {
				vs := sp.(*ast.ValueSpec)
				for i, n := range vs.Names {
					if i >= len(vs.Values) {
						continue
					}
					if bl, ok := vs.Values[i].(*ast.BasicLit); ok {
						switch bl.Kind {
						case token.INT:
							if v, ok := new(big.Int).SetString(bl.Value, 0); ok {
								consts[n.Name] = sval{vTerm, v.String(), "const"}
							}
						case token.STRING:
							if str, err := strconv.Unquote(bl.Value); err == nil {
								consts[n.Name] = sval{vStr, str, "const"}
							}
						}
					}
				}
			}
		}
	}
	var sb strings.Builder
	sb.WriteString("import Sif.Model.Validate\n/- The reject conditions of ValidateBasic + handler of the AMM policy / parameter messages, as found in\n   x/clp/types/msgs.go and x/clp/keeper/msg_server.go. -/\nnamespace Sif.Generated.Validate\nopen Sif.Validate\n\n")
	names := []string{}
	for _, m := range vmsgs {
		w := &vwalk{c: c, structs: structs, state: map[string]sval{}, consts: consts}
		// ValidateBasic
		vb := FindFunc(typesFiles, m.msgType, "ValidateBasic")
		if vb == nil || vb.Recv == nil || len(vb.Recv.List[0].Names) != 1 {
			w.emit("Cond.opaque "+LeanStr("ValidateBasic of "+m.msgType+" not found"), true)
		} else {
			sc := &scope{vars: map[string]sval{}}
			sc.set(vb.Recv.List[0].Names[0].Name, sval{vMsg, "", m.msgType})
			w.block(sc, vb.Body.List)
		}
		// handler (the walk continues: a barrier in ValidateBasic also hides the handler's clauses)
		vbDead := w.dead
		if !containsBarrier(w.out) {
			w.dead = false
		}
		_ = vbDead
		h := FindFunc(keeperFiles, "msgServer", m.handler)
		if h == nil || len(h.Type.Params.List) != 2 || len(h.Type.Params.List[1].Names) != 1 {
			w.emit("Cond.opaque "+LeanStr("handler "+m.handler+" not found"), true)
		} else {
			sc := &scope{vars: map[string]sval{}}
			sc.set(h.Type.Params.List[1].Names[0].Name, sval{vMsg, "", m.msgType})
			w.block(sc, h.Body.List)
		}
		fmt.Fprintf(&sb, "def %s : List Clause := [\n", m.lean)
		for i, cl := range w.out {
			sep := ","
			if i == len(w.out)-1 {
				sep = ""
			}
			fmt.Fprintf(&sb, "  %s%s\n", cl, sep)
		}
		sb.WriteString("]\n\n")
		names = append(names, m.lean)
	}
	sort.Strings(names)
	sb.WriteString("end Sif.Generated.Validate\n")
	return c.WriteLean("Validate", sb.String())
}

func containsBarrier(cls []string) bool {
	for _, c := range cls {
		if strings.HasSuffix(c, ", true⟩") {
			return true
		}
	}
	return false
}
