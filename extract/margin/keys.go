package main

// pass `marginkeys` (C13, tie 1): how x/margin addresses its positions in the store.
//
//  1. every key constructor of x/margin/types/keys.go (a function returning []byte whose body is one
//     `return` of nested `append`s) as the list of its components in order: a package-level prefix
//     constant, a string parameter converted with []byte(..) (variable length, no terminator), a
//     uint64 through GetUint64Bytes (8 bytes), a literal byte; calls of other constructors are
//     inlined.  Anything else is `Comp.unknown`.
//  2. how Keeper.GetMTPsForPool (x/margin/keeper/keeper.go) selects the positions of a pool: a walk
//     over the whole position store (prefix `types.MTPPrefix`) that keeps a position iff
//     `StringCompare(mtp.CustodyAsset, asset) || StringCompare(mtp.CollateralAsset, asset)`
//     (`Select.filterAssetEq`), or a prefix scan over a composite key (`Select.prefixScan ctor`), or
//     `Select.unknown`.
//
// Output: Sif/Generated/MarginKeys.lean.  The obligations (Sif/Props/C13.lean) are closed by `decide`:
// an unterminated variable-length component followed by another component (other than the fixed-width
// id after an address), or a prefix scan ending inside such a component, makes them fail.

import (
	"fmt"
	"go/ast"
	"go/token"
	"strings"
)

type keyCtor struct {
	name   string
	params []string
	comps  []string // Lean terms of type Comp
	raw    ast.Expr
}

func init() { passes["marginkeys"] = passMarginKeys }

func passMarginKeys(c *Ctx) error {
	files, err := c.ParseDir("x/margin/types")
	if err != nil {
		return err
	}
	// package-level []byte{…} prefix constants
	consts := map[string]bool{}
	for _, f := range files {
		for _, d := range f.Decls {
			gd, ok := d.(*ast.GenDecl)
			if !ok || gd.Tok != token.VAR {
				continue
			}
			for _, sp := range gd.Specs {
				vs := sp.(*ast.ValueSpec)
				for i, n := range vs.Names {
					if i < len(vs.Values) {
						if cl, ok := vs.Values[i].(*ast.CompositeLit); ok && c.Src(cl.Type) == "[]byte" {
							consts[n.Name] = true
						}
					}
				}
			}
		}
	}
	// candidate constructors: functions of keys.go returning []byte
	decls := map[string]*ast.FuncDecl{}
	var order []string
	for _, f := range files {
		if !strings.HasSuffix(c.Fset.Position(f.Pos()).Filename, "keys.go") {
			continue
		}
		for _, d := range f.Decls {
			fd, ok := d.(*ast.FuncDecl)
			if !ok || fd.Recv != nil || fd.Type.Results == nil || len(fd.Type.Results.List) != 1 {
				continue
			}
			if c.Src(fd.Type.Results.List[0].Type) != "[]byte" || fd.Name.Name == "GetUint64Bytes" {
				continue
			}
			decls[fd.Name.Name] = fd
			order = append(order, fd.Name.Name)
		}
	}
	var comps func(e ast.Expr, subst map[string]string, depth int) []string
	name := func(e ast.Expr, subst map[string]string) string {
		s := c.Src(e)
		if r, ok := subst[s]; ok {
			return r
		}
		// a field of a parameter, e.g. pool.ExternalAsset.Symbol
		return s
	}
	comps = func(e ast.Expr, subst map[string]string, depth int) []string {
		unknown := []string{".unknown " + LeanStr(c.Src(e))}
		switch x := e.(type) {
		case *ast.Ident:
			if consts[x.Name] {
				return []string{".const " + LeanStr(x.Name)}
			}
			return unknown
		case *ast.BasicLit:
			return []string{".const " + LeanStr(x.Value)}
		case *ast.CallExpr:
			if id, ok := x.Fun.(*ast.Ident); ok && id.Name == "append" && len(x.Args) == 2 {
				a := comps(x.Args[0], subst, depth)
				if x.Ellipsis != token.NoPos {
					return append(a, comps(x.Args[1], subst, depth)...)
				}
				if bl, ok := x.Args[1].(*ast.BasicLit); ok {
					return append(a, ".const "+LeanStr(bl.Value))
				}
				return append(a, unknown...)
			}
			if at, ok := x.Fun.(*ast.ArrayType); ok && c.Src(at) == "[]byte" && len(x.Args) == 1 {
				return []string{".str " + LeanStr(name(x.Args[0], subst))}
			}
			if id, ok := x.Fun.(*ast.Ident); ok && id.Name == "GetUint64Bytes" && len(x.Args) == 1 {
				return []string{".u64 " + LeanStr(name(x.Args[0], subst))}
			}
			if id, ok := x.Fun.(*ast.Ident); ok && decls[id.Name] != nil && depth < 4 {
				fd := decls[id.Name]
				var ps []string
				for _, fl := range fd.Type.Params.List {
					for _, n := range fl.Names {
						ps = append(ps, n.Name)
					}
				}
				if len(ps) != len(x.Args) || fd.Body == nil || len(fd.Body.List) != 1 {
					return unknown
				}
				rs, ok := fd.Body.List[0].(*ast.ReturnStmt)
				if !ok || len(rs.Results) != 1 {
					return unknown
				}
				sub := map[string]string{}
				for i, p := range ps {
					sub[p] = name(x.Args[i], subst)
				}
				return comps(rs.Results[0], sub, depth+1)
			}
			return unknown
		}
		return unknown
	}
	var sb strings.Builder
	sb.WriteString("import Sif.Spec.C13Keys\n/- facts about x/margin/types/keys.go and Keeper.GetMTPsForPool -/\nnamespace Sif.Generated.MarginKeys\nopen Sif.Spec.C13.Keys\n\n")
	sb.WriteString("def keyCtors : List Ctor := [\n")
	for i, n := range order {
		fd := decls[n]
		var cs []string
		if fd.Body != nil && len(fd.Body.List) == 1 {
			if rs, ok := fd.Body.List[0].(*ast.ReturnStmt); ok && len(rs.Results) == 1 {
				cs = comps(rs.Results[0], map[string]string{}, 0)
			}
		}
		if cs == nil {
			cs = []string{".unknown " + LeanStr("body of "+n+" is not a single return")}
		}
		sep := ","
		if i == len(order)-1 {
			sep = ""
		}
		fmt.Fprintf(&sb, "  { name := %s, comps := [%s] }%s\n", LeanStr(n), strings.Join(cs, ", "), sep)
	}
	sb.WriteString("]\n\n")

	// GetMTPsForPool
	kfiles, err := c.ParseDir("x/margin/keeper")
	if err != nil {
		return err
	}
	sel := ".unknown \"GetMTPsForPool not found\""
	if fd := FindFunc(kfiles, "Keeper", "GetMTPsForPool"); fd != nil && fd.Body != nil {
		sel = classifySelect(c, fd)
	}
	fmt.Fprintf(&sb, "def getMTPsForPool : Select := %s\n\nend Sif.Generated.MarginKeys\n", sel)
	return c.WriteLean("MarginKeys", sb.String())
}

func classifySelect(c *Ctx, fd *ast.FuncDecl) string {
	// the asset parameter: the (only) string parameter
	asset := ""
	for _, fl := range fd.Type.Params.List {
		if c.Src(fl.Type) == "string" {
			for _, n := range fl.Names {
				asset = n.Name
			}
		}
	}
	if asset == "" {
		return ".unknown \"no string parameter\""
	}
	var storeArg ast.Expr
	nStores := 0
	var paginate *ast.CallExpr
	nPag := 0
	ast.Inspect(fd.Body, func(n ast.Node) bool {
		ce, ok := n.(*ast.CallExpr)
		if !ok {
			return true
		}
		switch c.Src(ce.Fun) {
		case "prefix.NewStore":
			nStores++
			if len(ce.Args) == 2 {
				storeArg = ce.Args[1]
			}
		case "query.FilteredPaginate", "query.Paginate":
			nPag++
			paginate = ce
		case "sdk.KVStorePrefixIterator", "store.Iterator", "store.ReverseIterator":
			nStores += 2 // a second way of walking the store: not recognised
		}
		return true
	})
	if nStores != 1 || nPag != 1 || storeArg == nil {
		return ".unknown " + LeanStr(fmt.Sprintf("%d prefix stores / iterators, %d paginations", nStores, nPag))
	}
	src := c.Src(storeArg)
	if ce, ok := storeArg.(*ast.CallExpr); ok {
		fn := c.Src(ce.Fun)
		return ".prefixScan " + LeanStr(strings.TrimPrefix(fn, "types."))
	}
	if !strings.HasPrefix(src, "types.") {
		return ".unknown " + LeanStr("prefix "+src)
	}
	if c.Src(paginate.Fun) != "query.FilteredPaginate" || len(paginate.Args) != 3 {
		// the whole store under a constant prefix, unfiltered
		return ".unknown " + LeanStr("unfiltered walk of "+src)
	}
	fl, ok := paginate.Args[2].(*ast.FuncLit)
	if !ok {
		return ".unknown \"filter is not a function literal\""
	}
	// exactly one `if`, whose condition is  accumulate && (A || B)  and whose body appends and returns true;
	// every other return is  return false, nil
	cust := "types.StringCompare(mtp.CustodyAsset, " + asset + ")"
	coll := "types.StringCompare(mtp.CollateralAsset, " + asset + ")"
	var ifs []*ast.IfStmt
	appendsOutside := false
	for _, st := range fl.Body.List {
		switch x := st.(type) {
		case *ast.IfStmt:
			ifs = append(ifs, x)
		case *ast.ReturnStmt:
			if c.Src(x) != "return false, nil" {
				appendsOutside = true
			}
		default:
			if strings.Contains(c.Src(st), "append(") {
				appendsOutside = true
			}
		}
	}
	if len(ifs) != 1 || appendsOutside || ifs[0].Else != nil || ifs[0].Init != nil {
		return ".unknown " + LeanStr("filter body: "+c.Src(fl.Body))
	}
	cond := c.Src(ifs[0].Cond)
	hasCust, hasColl := false, false
	switch cond {
	case "accumulate && (" + cust + " || " + coll + ")", "accumulate && (" + coll + " || " + cust + ")":
		hasCust, hasColl = true, true
	case "accumulate && " + cust:
		hasCust = true
	case "accumulate && " + coll:
		hasColl = true
	default:
		return ".unknown " + LeanStr("filter condition: "+cond)
	}
	return fmt.Sprintf(".filterAssetEq %s %v %v", LeanStr(strings.TrimPrefix(src, "types.")), hasCust, hasColl)
}
