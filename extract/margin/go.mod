module verifextract

go 1.20
