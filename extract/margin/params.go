package main

// pass `marginparams` (C13, tie 1): the parameter getters of x/margin/keeper/params.go that the model
// reads as plain stored fields.  A getter whose body is exactly `return k.GetParams(ctx).<Field>` is
// `Getter.field "<Field>"`; any other body (a default substituted for a zero value, a clamp, a
// conversion) is `Getter.unknown "<source>"`, which makes the obligation of Sif/Props/C13.lean fail.
// Output: Sif/Generated/MarginParams.lean.

import (
	"fmt"
	"go/ast"
	"strings"
)

var plainGetters = []string{"GetSafetyFactor", "GetMaxLeverageParam", "GetPoolOpenThreshold", "GetInterestRateMin", "GetEpochLength",
	"GetForceCloseFundPercentage", "GetIncrementalInterestPaymentFundPercentage", "GetMaxOpenPositions",
	"GetIncrementalInterestPaymentEnabled", "IsWhitelistingEnabled", "IsRowanCollateralEnabled"}

func init() { passes["marginparams"] = passMarginParams }

func passMarginParams(c *Ctx) error {
	files, err := c.ParseDir("x/margin/keeper")
	if err != nil {
		return err
	}
	var sb strings.Builder
	sb.WriteString("import Sif.Spec.C13Keys\n/- facts about the parameter getters of x/margin/keeper/params.go -/\nnamespace Sif.Generated.MarginParams\nopen Sif.Spec.C13.Keys\n\n")
	sb.WriteString("def paramGetters : List (String × Getter) := [\n")
	for i, g := range plainGetters {
		fact := ".unknown \"not found\""
		if fd := FindFunc(files, "Keeper", g); fd != nil && fd.Body != nil {
			fact = ".unknown " + LeanStr(c.Src(fd.Body))
			if len(fd.Body.List) == 1 {
				if rs, ok := fd.Body.List[0].(*ast.ReturnStmt); ok && len(rs.Results) == 1 {
					if se, ok := rs.Results[0].(*ast.SelectorExpr); ok && c.Src(se.X) == "k.GetParams(ctx)" {
						fact = ".field " + LeanStr(se.Sel.Name)
					}
				}
			}
		}
		sep := ","
		if i == len(plainGetters)-1 {
			sep = ""
		}
		fmt.Fprintf(&sb, "  (%s, %s)%s\n", LeanStr(g), fact, sep)
	}
	sb.WriteString("]\n\nend Sif.Generated.MarginParams\n")
	return c.WriteLean("MarginParams", sb.String())
}
