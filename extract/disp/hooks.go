package main

// pass "disphooks": the arguments of app.mm.SetOrderBeginBlockers / SetOrderEndBlockers in
// app/app.go, each resolved to the import path of the package whose ModuleName it names
// (`pkg.ModuleName` → import path of `pkg`; anything else → its source text prefixed with "?").
//   → Sif/Generated/DispHooks.lean
// A module listed twice has its hook executed twice per block (module.Manager iterates the list).

import (
	"fmt"
	"go/ast"
	"strconv"
	"strings"
)

func init() { passes["disphooks"] = dispHooks }

func dispHooks(c *Ctx) error {
	files, err := c.ParseDir("app")
	if err != nil {
		return err
	}
	lists := map[string][]string{}
	found := map[string]int{}
	for _, f := range files {
		imports := map[string]string{}
		for _, im := range f.Imports {
			p, _ := strconv.Unquote(im.Path.Value)
			name := p[strings.LastIndex(p, "/")+1:]
			if im.Name != nil {
				name = im.Name.Name
			}
			imports[name] = p
		}
		ast.Inspect(f, func(n ast.Node) bool {
			call, ok := n.(*ast.CallExpr)
			if !ok {
				return true
			}
			sel, ok := call.Fun.(*ast.SelectorExpr)
			if !ok || (sel.Sel.Name != "SetOrderBeginBlockers" && sel.Sel.Name != "SetOrderEndBlockers") {
				return true
			}
			found[sel.Sel.Name]++
			var out []string
			for _, a := range call.Args {
				s, ok := a.(*ast.SelectorExpr)
				if ok {
					if id, ok := s.X.(*ast.Ident); ok && (s.Sel.Name == "ModuleName" || s.Sel.Name == "BondedPoolName") {
						if p, ok := imports[id.Name]; ok {
							out = append(out, p)
							continue
						}
					}
				}
				out = append(out, "?"+c.Src(a))
			}
			lists[sel.Sel.Name] = append(lists[sel.Sel.Name], out...)
			return true
		})
	}
	var sb strings.Builder
	sb.WriteString("namespace Sif.Generated.DispHooks\n\n")
	for _, name := range []string{"SetOrderBeginBlockers", "SetOrderEndBlockers"} {
		lean := map[string]string{"SetOrderBeginBlockers": "beginBlockers", "SetOrderEndBlockers": "endBlockers"}[name]
		fmt.Fprintf(&sb, "/-- number of calls of %s found in app/ (must be 1) -/\ndef %sCalls : Nat := %d\n\n", name, lean, found[name])
		fmt.Fprintf(&sb, "/-- arguments of %s, as import paths of the packages whose ModuleName they are -/\ndef %s : List String := [\n", name, lean)
		for i, p := range lists[name] {
			sep := ","
			if i == len(lists[name])-1 {
				sep = ""
			}
			fmt.Fprintf(&sb, "  %s%s\n", LeanStr(p), sep)
		}
		sb.WriteString("]\n\n")
	}
	sb.WriteString("end Sif.Generated.DispHooks\n")
	return c.WriteLean("DispHooks", sb.String())
}
