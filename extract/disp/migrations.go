package main

// pass "migrations" (C20, upgrade clause): the store migrations that x/dispensation and x/clp
// register (`cfg.RegisterMigration(types.ModuleName, FROM, handler)` in module.go), the modules'
// ConsensusVersion, and what each migration handler calls: the names of the functions / methods
// called directly in the handler body, and — following calls into functions defined in the
// module's own packages (x/<mod>, x/<mod>/keeper), three levels deep, by name — whether any of the
// issuance-sensitive functions is reached: InitGenesis, SetMintController, AddMintAmount,
// MintCoins, SetBlockDistributionAccu, DistributeDepthRewards.   → Sif/Generated/Migrations.lean
// Syntactic (go/ast); an unresolvable handler is reported with direct = ["?"] (fails the obligation).

import (
	"fmt"
	"go/ast"
	"sort"
	"strconv"
	"strings"
)

func init() { passes["migrations"] = migrationsPass }

var sensitiveNames = map[string]bool{"InitGenesis": true, "SetMintController": true, "AddMintAmount": true,
	"MintCoins": true, "SetBlockDistributionAccu": true, "DistributeDepthRewards": true}

func calleeNames(c *Ctx, n ast.Node) []string {
	set := map[string]bool{}
	ast.Inspect(n, func(m ast.Node) bool {
		if call, ok := m.(*ast.CallExpr); ok {
			switch f := call.Fun.(type) {
			case *ast.Ident:
				set[f.Name] = true
			case *ast.SelectorExpr:
				set[f.Sel.Name] = true
			}
		}
		return true
	})
	var out []string
	for k := range set {
		out = append(out, k)
	}
	sort.Strings(out)
	return out
}

func migrationsPass(c *Ctx) error {
	var sb strings.Builder
	sb.WriteString("namespace Sif.Generated.Migrations\n\n")
	sb.WriteString("/-- (module, from-version, handler as written, functions called directly, sensitive functions reached) -/\n")
	sb.WriteString("def migrations : List (String × Nat × String × List String × List String) := [\n")
	var versions []string
	first := true
	for _, mod := range []string{"clp", "dispensation"} {
		top, err := c.ParseDir("x/" + mod)
		if err != nil {
			return err
		}
		kp, err := c.ParseDir("x/" + mod + "/keeper")
		if err != nil {
			return err
		}
		// all function bodies of the module's two packages, by name (methods by method name)
		bodies := map[string][]*ast.FuncDecl{}
		for _, f := range append(append([]*ast.File{}, top...), kp...) {
			for _, d := range f.Decls {
				if fd, ok := d.(*ast.FuncDecl); ok && fd.Body != nil {
					bodies[fd.Name.Name] = append(bodies[fd.Name.Name], fd)
				}
			}
		}
		reach := func(start ast.Node) []string {
			seen := map[string]bool{}
			found := map[string]bool{}
			frontier := calleeNames(c, start)
			for depth := 0; depth < 4 && len(frontier) > 0; depth++ {
				var next []string
				for _, name := range frontier {
					if sensitiveNames[name] {
						found[name] = true
					}
					if seen[name] {
						continue
					}
					seen[name] = true
					for _, fd := range bodies[name] {
						next = append(next, calleeNames(c, fd.Body)...)
					}
				}
				frontier = next
			}
			var out []string
			for k := range found {
				out = append(out, k)
			}
			sort.Strings(out)
			return out
		}
		cv := "0"
		for _, f := range top {
			for _, d := range f.Decls {
				fd, ok := d.(*ast.FuncDecl)
				if !ok || fd.Body == nil {
					continue
				}
				if fd.Name.Name == "ConsensusVersion" && len(fd.Body.List) == 1 {
					if rs, ok := fd.Body.List[0].(*ast.ReturnStmt); ok && len(rs.Results) == 1 {
						if bl, ok := rs.Results[0].(*ast.BasicLit); ok {
							cv = bl.Value
						}
					}
				}
				ast.Inspect(fd.Body, func(n ast.Node) bool {
					call, ok := n.(*ast.CallExpr)
					if !ok {
						return true
					}
					sel, ok := call.Fun.(*ast.SelectorExpr)
					if !ok || sel.Sel.Name != "RegisterMigration" || len(call.Args) != 3 {
						return true
					}
					from := "0"
					if bl, ok := call.Args[1].(*ast.BasicLit); ok {
						if _, err := strconv.Atoi(bl.Value); err == nil {
							from = bl.Value
						}
					}
					handler := call.Args[2]
					htext := c.Src(handler)
					var direct, sens []string
					switch h := handler.(type) {
					case *ast.FuncLit:
						htext = "func literal"
						direct = calleeNames(c, h.Body)
						sens = reach(h.Body)
					case *ast.SelectorExpr:
						fds := bodies[h.Sel.Name]
						if len(fds) == 1 {
							direct = calleeNames(c, fds[0].Body)
							sens = reach(fds[0].Body)
						} else {
							direct = []string{"?"}
						}
					default:
						direct = []string{"?"}
					}
					q := func(l []string) string {
						var o []string
						for _, s := range l {
							o = append(o, LeanStr(s))
						}
						return "[" + strings.Join(o, ", ") + "]"
					}
					if !first {
						sb.WriteString(",\n")
					}
					first = false
					fmt.Fprintf(&sb, "  (%s, %s, %s, %s, %s)", LeanStr(mod), from, LeanStr(htext), q(direct), q(sens))
					return true
				})
			}
		}
		versions = append(versions, fmt.Sprintf("(%s, %s)", LeanStr(mod), cv))
	}
	sb.WriteString("\n]\n\n/-- ConsensusVersion of the modules -/\ndef consensusVersions : List (String × Nat) := [" + strings.Join(versions, ", ") + "]\n\nend Sif.Generated.Migrations\n")
	return c.WriteLean("Migrations", sb.String())
}
