package main

// pass "mintsource" (C20 a): where the dispensation BeginBlocker takes the amount it mints from.
// In x/dispensation/abci.go `BeginBlocker`: every assignment to the local `mintAmount` with its value
// expression and the chain of enclosing `if` conditions; and every reference to a chain id
// (`ChainID` selector / identifier) in non-test code of x/dispensation.
//   → Sif/Generated/MintSource.lean
// The model's BeginBlocker has no chain-id input and mints the compiled-in MintAmountPerBlock (or
// the remainder under the cap in the last block); the obligation pins exactly that.

import (
	"fmt"
	"go/ast"
	"go/parser"
	"os"
	"path/filepath"
	"sort"
	"strings"
)

func init() { passes["mintsource"] = mintSource }

func mintSource(c *Ctx) error {
	files, err := c.ParseDir("x/dispensation")
	if err != nil {
		return err
	}
	fd := FindFunc(files, "", "BeginBlocker")
	type fact struct {
		value  string
		guards []string
	}
	var facts []fact
	found := 0
	if fd != nil && fd.Body != nil {
		found = 1
		var walk func(stmts []ast.Stmt, guards []string)
		record := func(n ast.Node, guards []string) {
			ast.Inspect(n, func(m ast.Node) bool {
				switch x := m.(type) {
				case *ast.BlockStmt, *ast.IfStmt:
					return false
				case *ast.AssignStmt:
					for i, l := range x.Lhs {
						if id, ok := l.(*ast.Ident); ok && id.Name == "mintAmount" {
							v := "?"
							if i < len(x.Rhs) {
								v = c.Src(x.Rhs[i])
							} else if len(x.Rhs) == 1 {
								v = c.Src(x.Rhs[0])
							}
							facts = append(facts, fact{v, append([]string{}, guards...)})
						}
					}
				}
				return true
			})
		}
		var walkIf func(s *ast.IfStmt, guards []string)
		walkIf = func(s *ast.IfStmt, guards []string) {
			if s.Init != nil {
				record(s.Init, guards)
			}
			cond := c.Src(s.Cond)
			walk(s.Body.List, append(append([]string{}, guards...), cond))
			neg := append(append([]string{}, guards...), "!("+cond+")")
			switch e := s.Else.(type) {
			case *ast.BlockStmt:
				walk(e.List, neg)
			case *ast.IfStmt:
				walkIf(e, neg)
			}
		}
		walk = func(stmts []ast.Stmt, guards []string) {
			for _, st := range stmts {
				switch s := st.(type) {
				case *ast.IfStmt:
					walkIf(s, guards)
				case *ast.BlockStmt:
					walk(s.List, guards)
				case *ast.ForStmt, *ast.RangeStmt, *ast.SwitchStmt, *ast.TypeSwitchStmt, *ast.SelectStmt:
					facts = append(facts, fact{"unclassified statement: " + c.Src(st), append([]string{}, guards...)})
				default:
					record(st, guards)
				}
			}
		}
		walk(fd.Body.List, nil)
	}
	// chain-id references anywhere in the module's non-test code
	var refs []string
	err = filepath.Walk(filepath.Join(c.Repo, "x", "dispensation"), func(path string, info os.FileInfo, err error) error {
		if err != nil {
			return err
		}
		if info.IsDir() || !strings.HasSuffix(path, ".go") || strings.HasSuffix(path, "_test.go") || strings.HasSuffix(path, ".pb.go") || strings.HasSuffix(path, ".pb.gw.go") {
			return nil
		}
		rel, _ := filepath.Rel(c.Repo, path)
		if strings.Contains(rel, string(filepath.Separator)+"client"+string(filepath.Separator)) || strings.Contains(rel, string(filepath.Separator)+"test"+string(filepath.Separator)) {
			return nil // CLI / REST transaction building and test support: not consensus code
		}
		f, err := parser.ParseFile(c.Fset, path, nil, 0)
		if err != nil {
			return err
		}
		for _, d := range f.Decls {
			fn, ok := d.(*ast.FuncDecl)
			if !ok || fn.Body == nil {
				continue
			}
			ast.Inspect(fn.Body, func(n ast.Node) bool {
				switch x := n.(type) {
				case *ast.SelectorExpr:
					if strings.Contains(strings.ToLower(x.Sel.Name), "chainid") {
						refs = append(refs, rel+":"+recvName(fn))
					}
				case *ast.Ident:
					if strings.Contains(strings.ToLower(x.Name), "chainid") {
						refs = append(refs, rel+":"+recvName(fn))
					}
				}
				return true
			})
		}
		return nil
	})
	if err != nil {
		return err
	}
	sort.Strings(refs)
	var sb strings.Builder
	sb.WriteString("namespace Sif.Generated.MintSource\n\n")
	fmt.Fprintf(&sb, "def beginBlockerFound : Nat := %d\n\n", found)
	sb.WriteString("/-- assignments to `mintAmount` in BeginBlocker, source order: (value, enclosing if-conditions) -/\ndef mintAmountAssigns : List (String × List String) := [\n")
	for i, f := range facts {
		var gs []string
		for _, g := range f.guards {
			gs = append(gs, LeanStr(g))
		}
		sep := ","
		if i == len(facts)-1 {
			sep = ""
		}
		fmt.Fprintf(&sb, "  (%s, [%s])%s\n", LeanStr(f.value), strings.Join(gs, ", "), sep)
	}
	sb.WriteString("]\n\n/-- references to a chain id in consensus code of x/dispensation: file:function -/\ndef chainIdRefs : List String := [")
	for i, r := range refs {
		if i > 0 {
			sb.WriteString(", ")
		}
		sb.WriteString(LeanStr(r))
	}
	sb.WriteString("]\n\nend Sif.Generated.MintSource\n")
	return c.WriteLean("MintSource", sb.String())
}
