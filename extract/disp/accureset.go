package main

// pass "accureset" (C20 b): WHERE the depth-reward accumulator (clp key 0x0b) is read, dropped and
// written.  In x/clp/abci.go `EndBlocker`: every assignment to the local `blockDistributionAccu`
// and every call of `SetBlockDistributionAccu`, each with its value expression and the chain of
// enclosing `if` conditions (an else branch contributes "!(cond)").  Plus every call site of
// `SetBlockDistributionAccu` in non-test code of x/ and app/.   → Sif/Generated/AccuReset.lean
// The Lean obligation pins: the accumulator is dropped exactly when
// `uint64(ctx.BlockHeight()) == currentPeriod.RewardPeriodStartBlock` (F10 semantics: at a period
// START), zeroed after a distribution, carried otherwise — the three cases of the model's
// `accuIn` / `finish`.

import (
	"fmt"
	"go/ast"
	"go/parser"
	"os"
	"path/filepath"
	"sort"
	"strings"
)

func init() { passes["accureset"] = accuReset }

type accuFact struct {
	what, value string
	guards      []string
}

func accuReset(c *Ctx) error {
	files, err := c.ParseDir("x/clp")
	if err != nil {
		return err
	}
	fd := FindFunc(files, "", "EndBlocker")
	var facts []accuFact
	found := 0
	if fd != nil && fd.Body != nil {
		found = 1
		var walk func(stmts []ast.Stmt, guards []string)
		record := func(n ast.Node, guards []string) {
			ast.Inspect(n, func(m ast.Node) bool {
				switch x := m.(type) {
				case *ast.BlockStmt, *ast.IfStmt:
					return false // handled by walk
				case *ast.AssignStmt:
					for i, l := range x.Lhs {
						if id, ok := l.(*ast.Ident); ok && id.Name == "blockDistributionAccu" {
							v := "?"
							if i < len(x.Rhs) {
								v = c.Src(x.Rhs[i])
							} else if len(x.Rhs) == 1 {
								v = c.Src(x.Rhs[0])
							}
							facts = append(facts, accuFact{"blockDistributionAccu " + x.Tok.String(), v, append([]string{}, guards...)})
						}
					}
				case *ast.CallExpr:
					if sel, ok := x.Fun.(*ast.SelectorExpr); ok && sel.Sel.Name == "SetBlockDistributionAccu" {
						v := "?"
						if len(x.Args) == 2 {
							v = c.Src(x.Args[1])
						}
						facts = append(facts, accuFact{"SetBlockDistributionAccu", v, append([]string{}, guards...)})
					}
				}
				return true
			})
		}
		var walkIf func(s *ast.IfStmt, guards []string)
		walkIf = func(s *ast.IfStmt, guards []string) {
			if s.Init != nil {
				record(s.Init, guards)
			}
			cond := c.Src(s.Cond)
			walk(s.Body.List, append(append([]string{}, guards...), cond))
			neg := append(append([]string{}, guards...), "!("+cond+")")
			switch e := s.Else.(type) {
			case *ast.BlockStmt:
				walk(e.List, neg)
			case *ast.IfStmt:
				walkIf(e, neg)
			}
		}
		walk = func(stmts []ast.Stmt, guards []string) {
			for _, st := range stmts {
				switch s := st.(type) {
				case *ast.IfStmt:
					walkIf(s, guards)
				case *ast.BlockStmt:
					walk(s.List, guards)
				case *ast.ForStmt:
					walk(s.Body.List, append(append([]string{}, guards...), "for "+c.Src(s.Cond)))
				case *ast.RangeStmt:
					walk(s.Body.List, append(append([]string{}, guards...), "range "+c.Src(s.X)))
				case *ast.SwitchStmt, *ast.TypeSwitchStmt, *ast.SelectStmt:
					// not expected here: make the obligation fail rather than guess
					facts = append(facts, accuFact{"unclassified statement", c.Src(st), append([]string{}, guards...)})
				default:
					record(st, guards)
				}
			}
		}
		walk(fd.Body.List, nil)
	}
	// every caller of SetBlockDistributionAccu
	var callers []string
	for _, root := range []string{"x", "app"} {
		err := filepath.Walk(filepath.Join(c.Repo, root), func(path string, info os.FileInfo, err error) error {
			if err != nil {
				return err
			}
			if info.IsDir() || !strings.HasSuffix(path, ".go") || strings.HasSuffix(path, "_test.go") {
				return nil
			}
			rel, _ := filepath.Rel(c.Repo, path)
			f, err := parser.ParseFile(c.Fset, path, nil, parser.ParseComments)
			if err != nil {
				return err
			}
			for _, cg := range f.Comments {
				if cg.Pos() < f.Package {
					for _, cm := range cg.List {
						if strings.HasPrefix(cm.Text, "//go:build") && strings.Contains(cm.Text, "verif") {
							return nil
						}
					}
				}
			}
			for _, d := range f.Decls {
				fn, ok := d.(*ast.FuncDecl)
				if !ok || fn.Body == nil {
					continue
				}
				ast.Inspect(fn.Body, func(n ast.Node) bool {
					if call, ok := n.(*ast.CallExpr); ok {
						if sel, ok := call.Fun.(*ast.SelectorExpr); ok && sel.Sel.Name == "SetBlockDistributionAccu" {
							callers = append(callers, rel+":"+recvName(fn))
						}
					}
					return true
				})
			}
			return nil
		})
		if err != nil {
			return err
		}
	}
	sort.Strings(callers)
	var sb strings.Builder
	sb.WriteString("namespace Sif.Generated.AccuReset\n\n")
	fmt.Fprintf(&sb, "/-- 1 if x/clp has a function EndBlocker -/\ndef endBlockerFound : Nat := %d\n\n", found)
	sb.WriteString("/-- in EndBlocker, source order: (what, value, enclosing if-conditions) -/\ndef accuWrites : List (String × String × List String) := [\n")
	for i, f := range facts {
		var gs []string
		for _, g := range f.guards {
			gs = append(gs, LeanStr(g))
		}
		sep := ","
		if i == len(facts)-1 {
			sep = ""
		}
		fmt.Fprintf(&sb, "  (%s, %s, [%s])%s\n", LeanStr(f.what), LeanStr(f.value), strings.Join(gs, ", "), sep)
	}
	sb.WriteString("]\n\n/-- every call site of SetBlockDistributionAccu in non-test code of x/ and app/: file:function -/\ndef setAccuCallers : List String := [")
	for i, s := range callers {
		if i > 0 {
			sb.WriteString(", ")
		}
		sb.WriteString(LeanStr(s))
	}
	sb.WriteString("]\n\nend Sif.Generated.AccuReset\n")
	return c.WriteLean("AccuReset", sb.String())
}
