package main

// pass "mintcallers" (C20 c, `cap_const`): every call site, in non-test code of x/ and app/, of
//   MintCoins, SetMintController, AddMintAmount, DistributeDepthRewards
// with file and enclosing function, every KVStore write (`.Set(` / `.Delete(` on a store) of
// x/dispensation with the source text of its key argument, and every reference to the identifier
// MintControllerPrefix.   → Sif/Generated/MintCallers.lean
//
// Files are classified "prod" or "testsupport" (directories test/ testutil/ mocks/ simulation/,
// files test_helpers.go / test_common.go); *_test.go files and files with a `verif` build tag
// (this framework's own add-only hooks) are skipped.  Syntactic (go/ast): a call is recognised by
// the selector name, whatever the receiver — strictly more sites than a typed analysis would list.

import (
	"fmt"
	"go/ast"
	"go/parser"
	"os"
	"path/filepath"
	"sort"
	"strings"
)

func init() { passes["mintcallers"] = mintCallers }

type site struct{ kind, file, fn, callee, arg string }

func recvName(fd *ast.FuncDecl) string {
	if fd.Recv == nil || len(fd.Recv.List) == 0 {
		return fd.Name.Name
	}
	t := fd.Recv.List[0].Type
	if st, ok := t.(*ast.StarExpr); ok {
		t = st.X
	}
	if id, ok := t.(*ast.Ident); ok {
		return id.Name + "." + fd.Name.Name
	}
	return "?." + fd.Name.Name
}

func classify(rel string) string {
	parts := strings.Split(rel, string(filepath.Separator))
	for _, p := range parts[:len(parts)-1] {
		switch p {
		case "test", "testutil", "mocks", "simulation":
			return "testsupport"
		}
	}
	base := parts[len(parts)-1]
	if base == "test_helpers.go" || base == "test_common.go" {
		return "testsupport"
	}
	return "prod"
}

func mintCallers(c *Ctx) error {
	targets := map[string]bool{"MintCoins": true, "SetMintController": true, "AddMintAmount": true, "DistributeDepthRewards": true}
	var calls, writes, refs []site
	for _, root := range []string{"x", "app"} {
		err := filepath.Walk(filepath.Join(c.Repo, root), func(path string, info os.FileInfo, err error) error {
			if err != nil {
				return err
			}
			if info.IsDir() || !strings.HasSuffix(path, ".go") || strings.HasSuffix(path, "_test.go") {
				return nil
			}
			rel, _ := filepath.Rel(c.Repo, path)
			f, err := parser.ParseFile(c.Fset, path, nil, parser.ParseComments)
			if err != nil {
				return err
			}
			for _, cg := range f.Comments {
				if cg.Pos() < f.Package {
					for _, cm := range cg.List {
						if strings.HasPrefix(cm.Text, "//go:build") && strings.Contains(cm.Text, "verif") {
							return nil
						}
					}
				}
			}
			kind := classify(rel)
			inDisp := strings.HasPrefix(rel, filepath.Join("x", "dispensation")+string(filepath.Separator))
			for _, d := range f.Decls {
				fd, ok := d.(*ast.FuncDecl)
				fn := "(package level)"
				var body ast.Node = d
				if ok {
					fn = recvName(fd)
					if fd.Body == nil {
						continue
					}
					body = fd.Body
				}
				ast.Inspect(body, func(n ast.Node) bool {
					switch x := n.(type) {
					case *ast.CallExpr:
						sel, ok := x.Fun.(*ast.SelectorExpr)
						if !ok {
							return true
						}
						if targets[sel.Sel.Name] {
							calls = append(calls, site{kind, rel, fn, sel.Sel.Name, c.Src(sel.X)})
						}
						if inDisp && (sel.Sel.Name == "Set" || sel.Sel.Name == "Delete") && len(x.Args) >= 1 {
							recv := c.Src(sel.X)
							if strings.Contains(strings.ToLower(recv), "store") {
								arg := c.Src(x.Args[0])
								// a key held in a local variable: report the expression it was assigned from
								if id, ok := x.Args[0].(*ast.Ident); ok {
									ast.Inspect(body, func(m ast.Node) bool {
										as, ok := m.(*ast.AssignStmt)
										if ok && len(as.Lhs) == 1 && len(as.Rhs) == 1 {
											if l, ok := as.Lhs[0].(*ast.Ident); ok && l.Name == id.Name {
												arg = c.Src(as.Rhs[0])
											}
										}
										return true
									})
								}
								writes = append(writes, site{kind, rel, fn, sel.Sel.Name, arg})
							}
						}
					case *ast.Ident:
						if x.Name == "MintControllerPrefix" {
							refs = append(refs, site{kind, rel, fn, "MintControllerPrefix", ""})
						}
					}
					return true
				})
			}
			return nil
		})
		if err != nil {
			return err
		}
	}
	srt := func(s []site) {
		sort.SliceStable(s, func(i, j int) bool {
			a, b := s[i], s[j]
			if a.file != b.file {
				return a.file < b.file
			}
			if a.fn != b.fn {
				return a.fn < b.fn
			}
			if a.callee != b.callee {
				return a.callee < b.callee
			}
			return a.arg < b.arg
		})
	}
	srt(calls)
	srt(writes)
	srt(refs)
	var sb strings.Builder
	sb.WriteString("namespace Sif.Generated.MintCallers\n\n")
	emit := func(name, doc string, s []site, pick func(site) bool, withArg bool) {
		fmt.Fprintf(&sb, "/-- %s -/\ndef %s : List (String × String × String%s) := [\n", doc, name, map[bool]string{true: " × String", false: ""}[withArg])
		first := true
		for _, x := range s {
			if !pick(x) {
				continue
			}
			if !first {
				sb.WriteString(",\n")
			}
			first = false
			if withArg {
				fmt.Fprintf(&sb, "  (%s, %s, %s, %s)", LeanStr(x.file), LeanStr(x.fn), LeanStr(x.callee), LeanStr(x.arg))
			} else {
				fmt.Fprintf(&sb, "  (%s, %s, %s)", LeanStr(x.file), LeanStr(x.fn), LeanStr(x.callee))
			}
		}
		sb.WriteString("\n]\n\n")
	}
	emit("prodCalls", "call sites in production code: (file, enclosing function, callee)", calls, func(x site) bool { return x.kind == "prod" }, false)
	emit("testSupportCalls", "call sites in test-support code (test/, mocks/, simulation/, test_helpers.go)", calls, func(x site) bool { return x.kind != "prod" }, false)
	emit("dispStoreWrites", "every KVStore Set/Delete of x/dispensation: (file, enclosing function, Set|Delete, key expression)", writes, func(site) bool { return true }, true)
	emit("mintControllerPrefixRefs", "every reference to MintControllerPrefix: (file, enclosing function, _)", refs, func(site) bool { return true }, false)
	sb.WriteString("end Sif.Generated.MintCallers\n")
	return c.WriteLean("MintCallers", sb.String())
}
