package main

// pass "blockshare" (C20 b): the body of x/clp/keeper `CalcBlockDistribution`.  The model's
// per-block share is the integer division of the allocation (sdk.Uint) by the uint64 period
// length `end - start + 1`.  The pass recognises exactly
//     periodLength := period.RewardPeriodEndBlock - period.RewardPeriodStartBlock + 1
//     return period.RewardPeriodAllocation.QuoUint64(periodLength)
// (or the same with the length inlined) and reports shape "uint.quoUint64(allocation, end-start+1)";
// anything else — in particular any use of sdk.Dec, whose Quo rounds half-even at the 18th decimal
// before a truncation — is reported as "unknown", which fails the Lean obligation.
//   → Sif/Generated/BlockShare.lean

import (
	"fmt"
	"go/ast"
	"strings"
)

func init() { passes["blockshare"] = blockShare }

func blockShare(c *Ctx) error {
	files, err := c.ParseDir("x/clp/keeper")
	if err != nil {
		return err
	}
	fd := FindFunc(files, "", "CalcBlockDistribution")
	shape := "unknown"
	var stmts []string
	usesDec := false
	if fd != nil && fd.Body != nil {
		for _, st := range fd.Body.List {
			stmts = append(stmts, c.Src(st))
		}
		ast.Inspect(fd.Body, func(n ast.Node) bool {
			switch x := n.(type) {
			case *ast.Ident:
				if strings.Contains(x.Name, "Dec") {
					usesDec = true
				}
			case *ast.SelectorExpr:
				if strings.Contains(x.Sel.Name, "Dec") || x.Sel.Name == "Quo" || x.Sel.Name == "QuoInt" || x.Sel.Name == "TruncateInt" || x.Sel.Name == "RoundInt" {
					usesDec = true
				}
			}
			return true
		})
		const lenExpr = "period.RewardPeriodEndBlock - period.RewardPeriodStartBlock + 1"
		param := ""
		if fd.Type.Params != nil && len(fd.Type.Params.List) == 1 && len(fd.Type.Params.List[0].Names) == 1 {
			param = fd.Type.Params.List[0].Names[0].Name
		}
		if param == "period" && !usesDec {
			if len(stmts) == 2 && stmts[0] == "periodLength := "+lenExpr && stmts[1] == "return period.RewardPeriodAllocation.QuoUint64(periodLength)" {
				shape = "uint.quoUint64(allocation, end-start+1)"
			}
			if len(stmts) == 1 && stmts[0] == "return period.RewardPeriodAllocation.QuoUint64("+lenExpr+")" {
				shape = "uint.quoUint64(allocation, end-start+1)"
			}
		}
	}
	var sb strings.Builder
	sb.WriteString("namespace Sif.Generated.BlockShare\n\n")
	fmt.Fprintf(&sb, "/-- recognised shape of CalcBlockDistribution (\"unknown\" if not the single integer division) -/\ndef shape : String := %s\n\n", LeanStr(shape))
	fmt.Fprintf(&sb, "/-- does the body mention sdk.Dec arithmetic (Dec constructors, Quo, TruncateInt, …) -/\ndef usesDec : Bool := %v\n\n", usesDec)
	sb.WriteString("/-- the statements of the body, as source text -/\ndef body : List String := [")
	for i, s := range stmts {
		if i > 0 {
			sb.WriteString(", ")
		}
		sb.WriteString(LeanStr(s))
	}
	sb.WriteString("]\n\nend Sif.Generated.BlockShare\n")
	return c.WriteLean("BlockShare", sb.String())
}
