package main

// pass "dispconsts": constants and store prefixes of x/dispensation/types/keys.go
//   → Sif/Generated/DispConsts.lean
// A constant or prefix that cannot be read as a literal is emitted as 0 / [] together with
// `unreadable := [names]`, which fails the Lean obligation `DispConsts.unreadable = []`.

import (
	"fmt"
	"go/ast"
	"go/token"
	"strconv"
	"strings"
)

func init() { passes["dispconsts"] = dispConsts }

func dispConsts(c *Ctx) error {
	files, err := c.ParseDir("x/dispensation/types")
	if err != nil {
		return err
	}
	strConsts := map[string]string{}
	intConsts := map[string]string{}
	prefixes := map[string][]string{}
	var prefixOrder []string
	var unreadable []string
	for _, f := range files {
		for _, d := range f.Decls {
			gd, ok := d.(*ast.GenDecl)
			if !ok {
				continue
			}
			for _, sp := range gd.Specs {
				vs, ok := sp.(*ast.ValueSpec)
				if !ok {
					continue
				}
				for i, n := range vs.Names {
					if i >= len(vs.Values) {
						continue
					}
					v := vs.Values[i]
					if gd.Tok == token.CONST {
						if bl, ok := v.(*ast.BasicLit); ok {
							switch bl.Kind {
							case token.STRING:
								s, err := strconv.Unquote(bl.Value)
								if err == nil {
									strConsts[n.Name] = s
								}
							case token.INT:
								intConsts[n.Name] = bl.Value
							}
						}
					}
					if gd.Tok == token.VAR && strings.Contains(n.Name, "Prefix") {
						// []byte{0x..}
						cl, ok := v.(*ast.CompositeLit)
						if !ok {
							unreadable = append(unreadable, n.Name)
							prefixes[n.Name] = nil
							prefixOrder = append(prefixOrder, n.Name)
							continue
						}
						var bs []string
						good := true
						for _, e := range cl.Elts {
							bl, ok := e.(*ast.BasicLit)
							if !ok || bl.Kind != token.INT {
								good = false
								break
							}
							x, err := strconv.ParseInt(bl.Value, 0, 64)
							if err != nil || x < 0 || x > 255 {
								good = false
								break
							}
							bs = append(bs, strconv.FormatInt(x, 10))
						}
						if !good {
							unreadable = append(unreadable, n.Name)
						}
						prefixes[n.Name] = bs
						prefixOrder = append(prefixOrder, n.Name)
					}
				}
			}
		}
	}
	var sb strings.Builder
	sb.WriteString("namespace Sif.Generated.DispConsts\n\n")
	natOf := func(name string, m map[string]string) string {
		s, ok := m[name]
		if !ok {
			unreadable = append(unreadable, name)
			return "0"
		}
		for _, ch := range s {
			if ch < '0' || ch > '9' {
				unreadable = append(unreadable, name)
				return "0"
			}
		}
		if s == "" {
			unreadable = append(unreadable, name)
			return "0"
		}
		return s
	}
	fmt.Fprintf(&sb, "def maxMintAmount : Nat := %s\n", natOf("MaxMintAmount", strConsts))
	fmt.Fprintf(&sb, "def mintAmountPerBlock : Nat := %s\n", natOf("MintAmountPerBlock", strConsts))
	fmt.Fprintf(&sb, "def maxRecordsPerBlock : Nat := %s\n", natOf("MaxRecordsPerBlock", intConsts))
	eco, ok := strConsts["EcoPool"]
	if !ok {
		unreadable = append(unreadable, "EcoPool")
	}
	fmt.Fprintf(&sb, "def ecoPool : String := %s\n", LeanStr(eco))
	mn, ok := strConsts["ModuleName"]
	if !ok {
		unreadable = append(unreadable, "ModuleName")
	}
	fmt.Fprintf(&sb, "def moduleName : String := %s\n\n", LeanStr(mn))
	sb.WriteString("/-- store prefixes of the dispensation module: (Go variable, bytes) in source order -/\n")
	sb.WriteString("def prefixes : List (String × List Nat) := [\n")
	for i, n := range prefixOrder {
		sep := ","
		if i == len(prefixOrder)-1 {
			sep = ""
		}
		fmt.Fprintf(&sb, "  (%s, [%s])%s\n", LeanStr(n), strings.Join(prefixes[n], ", "), sep)
	}
	sb.WriteString("]\n\n")
	sb.WriteString("def unreadable : List String := [")
	for i, n := range unreadable {
		if i > 0 {
			sb.WriteString(", ")
		}
		sb.WriteString(LeanStr(n))
	}
	sb.WriteString("]\n\nend Sif.Generated.DispConsts\n")
	return c.WriteLean("DispConsts", sb.String())
}
