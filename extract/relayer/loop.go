package main

// pass "relayerloop" (C17, tie 1): reads `EthereumSub.Start` in cmd/ebrelayer/relayer/ethereum.go and emits,
// as Lean definitions, the facts the loop model (Sif/Model/Relayer/Loop.lean) is a transcription of:
//   * the constant trailingBlocks and the LevelDB key
//   * the classified statement order of the body of `case newHead := <-heads`
//     (compute endingBlock → negative guard → zero-cursor init → FilterLogs → continue on error →
//      collect events → handleEthereumEvent (+sleep) → endingBlock+1 → DB.Put → lastProcessedBlock = …)
//   * the arithmetic producing endingBlock, the query bounds, the written value, what the `continue`
//     branch touches, whether a submission error aborts the iteration, and the start-up read of the cursor.
// Anything the pass cannot classify becomes `.unknown` (plus its source text), which fails the Lean obligation.

import (
	"fmt"
	"go/ast"
	"go/token"
	"strings"
)

type loopFacts struct {
	c                 *Ctx
	steps             []string
	unknown           []string
	startingVar       string
	startingExpr      string
	endingVar         string
	endingExpr        string
	endingIsHeadMinus bool
	guardCond         string
	initCond          string
	initAssign        string
	queryFrom         string
	queryTo           string
	queryCallee       string
	queryContext      string
	queryLhs          string
	collectOver       string
	contTouchesCursor bool
	collectTouches    bool
	handleAborts      bool
	handleGuard       string
	sleepInHandle     bool
	incrementExpr     string
	putKey            string
	putValue          string
	assignRHS         string
	cursorVar         string
	helperWriters     map[string]bool // functions/methods of the package whose body writes the LevelDB cursor
	writeSteps        []string        // for every cursor-write site in the case body: the step that contains it
}

// writeSites counts the LevelDB cursor writes inside n: direct `….DB.Put(` calls and calls of package
// functions/methods that contain one (followed one level).
func (f *loopFacts) writeSites(n ast.Node) int {
	cnt := 0
	ast.Inspect(n, func(x ast.Node) bool {
		call, ok := x.(*ast.CallExpr)
		if !ok {
			return true
		}
		fn := f.c.Src(call.Fun)
		if strings.HasSuffix(fn, "DB.Put") {
			cnt++
			return true
		}
		name := fn
		if i := strings.LastIndex(fn, "."); i >= 0 {
			name = fn[i+1:]
		}
		if f.helperWriters[name] {
			cnt++
		}
		return true
	})
	return cnt
}

// mentions reports whether the source rendering of n contains the text s.
func (f *loopFacts) mentions(n ast.Node, s string) bool { return strings.Contains(f.c.Src(n), s) }

// touchesCursor: an assignment to the in-memory cursor or a DB.Put anywhere inside n.
func (f *loopFacts) touchesCursor(n ast.Node) bool {
	found := false
	ast.Inspect(n, func(x ast.Node) bool {
		switch v := x.(type) {
		case *ast.AssignStmt:
			for _, l := range v.Lhs {
				if id, ok := l.(*ast.Ident); ok && id.Name == f.cursorVar {
					found = true
				}
			}
		case *ast.CallExpr:
			if strings.HasSuffix(f.c.Src(v.Fun), "DB.Put") {
				found = true
			}
		}
		return true
	})
	return found
}

// leavesIteration: a return / continue / break / goto / os.Exit / log.Fatal inside n that is not nested in an inner loop
func leavesIteration(c *Ctx, n ast.Node) bool {
	found := false
	var walk func(x ast.Node, inLoop bool)
	walk = func(x ast.Node, inLoop bool) {
		ast.Inspect(x, func(y ast.Node) bool {
			if y == nil || y == x {
				return true
			}
			switch v := y.(type) {
			case *ast.ForStmt:
				walk(v.Body, true)
				return false
			case *ast.RangeStmt:
				walk(v.Body, true)
				return false
			case *ast.ReturnStmt:
				found = true
			case *ast.BranchStmt:
				if v.Tok == token.GOTO || v.Label != nil || !inLoop {
					found = true
				}
			case *ast.CallExpr:
				s := c.Src(v.Fun)
				if strings.HasPrefix(s, "log.Fatal") || s == "os.Exit" || s == "panic" {
					found = true
				}
			}
			return true
		})
	}
	walk(n, false)
	return found
}

func endsWithContinue(b *ast.BlockStmt) bool {
	if len(b.List) == 0 {
		return false
	}
	br, ok := b.List[len(b.List)-1].(*ast.BranchStmt)
	return ok && br.Tok == token.CONTINUE && br.Label == nil
}

func isLogCall(c *Ctx, s ast.Stmt) bool {
	es, ok := s.(*ast.ExprStmt)
	if !ok {
		return false
	}
	call, ok := es.X.(*ast.CallExpr)
	if !ok {
		return false
	}
	fn := c.Src(call.Fun)
	return strings.HasPrefix(fn, "sub.SugaredLogger.") || fn == "log.Printf" || fn == "log.Println"
}

func (f *loopFacts) classify(body []ast.Stmt) {
	c := f.c
	prev := ""
	for _, st := range body {
		kind := ""
		switch s := st.(type) {
		case *ast.ExprStmt:
			if isLogCall(c, s) {
				continue // logging is not part of the skeleton
			}
		case *ast.DeclStmt:
			// `var events []types.EthereumEvent`
			if strings.HasPrefix(c.Src(s), "var events ") {
				continue
			}
		case *ast.AssignStmt:
			src := c.Src(s)
			lhs := ""
			if len(s.Lhs) > 0 {
				lhs = c.Src(s.Lhs[0])
			}
			rhs := ""
			if len(s.Rhs) > 0 {
				rhs = c.Src(s.Rhs[0])
			}
			switch {
			case s.Tok == token.DEFINE && len(s.Lhs) == 1 && strings.HasPrefix(rhs, "newHead."):
				f.startingVar, f.startingExpr = lhs, rhs
				kind = "bindHead"
			case s.Tok == token.DEFINE && len(s.Lhs) == 1 && f.startingVar != "" && strings.HasPrefix(rhs, f.startingVar+"."):
				f.endingVar, f.endingExpr = lhs, rhs
				f.endingIsHeadMinus = rhs == fmt.Sprintf("%s.Sub(%s, big.NewInt(trailingBlocks))", f.startingVar, f.startingVar) &&
					f.startingExpr == "newHead.Number"
				kind = "computeEnding"
			case strings.Contains(rhs, ".FilterLogs("):
				kind = "filterLogs"
				if call, ok := s.Rhs[0].(*ast.CallExpr); ok {
					f.queryCallee = c.Src(call.Fun)
					if len(call.Args) > 0 {
						f.queryContext = c.Src(call.Args[0])
					}
				}
				var lhsParts []string
				for _, l := range s.Lhs {
					lhsParts = append(lhsParts, c.Src(l))
				}
				f.queryLhs = strings.Join(lhsParts, ", ")
				ast.Inspect(s.Rhs[0], func(x ast.Node) bool {
					if kv, ok := x.(*ast.KeyValueExpr); ok {
						switch c.Src(kv.Key) {
						case "FromBlock":
							f.queryFrom = c.Src(kv.Value)
						case "ToBlock":
							f.queryTo = c.Src(kv.Value)
						}
					}
					return true
				})
			case s.Tok == token.ASSIGN && f.endingVar != "" && lhs == f.endingVar && strings.HasPrefix(rhs, f.endingVar+".Add("):
				f.incrementExpr = rhs
				kind = "incrementEnding"
			case strings.Contains(rhs, "DB.Put("):
				kind = "dbPut"
				if call, ok := s.Rhs[0].(*ast.CallExpr); ok && len(call.Args) >= 2 {
					f.putKey, f.putValue = c.Src(call.Args[0]), c.Src(call.Args[1])
				}
			case s.Tok == token.ASSIGN && lhs == f.cursorVar:
				f.assignRHS = rhs
				kind = "assignCursor"
			default:
				_ = src
			}
		case *ast.IfStmt:
			cond := c.Src(s.Cond)
			switch {
			case s.Init == nil && f.endingVar != "" && strings.HasPrefix(cond, f.endingVar+".Cmp(") && endsWithContinue(s.Body) && s.Else == nil:
				f.guardCond = cond
				kind = "guardNegative"
			case s.Init == nil && strings.HasPrefix(cond, f.cursorVar+".Cmp(") && s.Else == nil && len(s.Body.List) == 1:
				f.initCond = cond
				f.initAssign = c.Src(s.Body.List[0])
				kind = "initCursor"
			case s.Init == nil && cond == "err != nil" && prev == "filterLogs" && endsWithContinue(s.Body) && s.Else == nil:
				f.contTouchesCursor = f.touchesCursor(s.Body)
				kind = "continueOnQueryError"
			case s.Init == nil && cond == "err != nil" && prev == "dbPut" && s.Else == nil && f.mentions(s.Body, "log.Fatal"):
				kind = "fatalOnPutError"
			case s.Else == nil && f.mentions(s.Body, "sub.handleEthereumEvent("):
				f.handleGuard = cond
				f.handleAborts = leavesIteration(c, s.Body) || f.touchesCursor(s.Body)
				f.sleepInHandle = f.mentions(s.Body, "time.Sleep(transactionInterval)")
				kind = "handleEvents"
			}
		case *ast.RangeStmt:
			f.collectOver = c.Src(s.X)
			if c.Src(s.X) == "ethLogs" {
				f.collectTouches = f.touchesCursor(s.Body) || hasOuterExit(c, s.Body)
				kind = "collectEvents"
			}
		}
		if kind == "" {
			kind = "unknown"
			f.unknown = append(f.unknown, c.Src(st))
		}
		for k := f.writeSites(st); k > 0; k-- {
			f.writeSteps = append(f.writeSteps, kind)
		}
		f.steps = append(f.steps, kind)
		prev = kind
	}
}

// hasOuterExit: inside the collecting loop, anything that leaves the *outer* iteration (return, labelled branch, fatal).
func hasOuterExit(c *Ctx, n ast.Node) bool {
	found := false
	ast.Inspect(n, func(x ast.Node) bool {
		switch v := x.(type) {
		case *ast.ReturnStmt:
			found = true
		case *ast.BranchStmt:
			if v.Label != nil || v.Tok == token.GOTO {
				found = true
			}
		case *ast.CallExpr:
			s := c.Src(v.Fun)
			if strings.HasPrefix(s, "log.Fatal") || s == "os.Exit" || s == "panic" {
				found = true
			}
		}
		return true
	})
	return found
}

func leanList(items []string, quote bool) string {
	var parts []string
	for _, it := range items {
		if quote {
			parts = append(parts, LeanStr(it))
		} else {
			parts = append(parts, "."+it)
		}
	}
	return "[" + strings.Join(parts, ", ") + "]"
}

func leanBool(b bool) string {
	if b {
		return "true"
	}
	return "false"
}

func init() {
	passes["relayerloop"] = func(c *Ctx) error {
		files, err := c.ParseDir("cmd/ebrelayer/relayer")
		if err != nil {
			return err
		}
		f := &loopFacts{c: c, helperWriters: map[string]bool{}}
		var helperNames []string
		for _, file := range files {
			for _, d := range file.Decls {
				fd, ok := d.(*ast.FuncDecl)
				if !ok || fd.Body == nil || fd.Name.Name == "Start" || strings.HasPrefix(fd.Name.Name, "Verif") {
					continue
				}
				direct := false
				ast.Inspect(fd.Body, func(x ast.Node) bool {
					if call, ok := x.(*ast.CallExpr); ok && strings.HasSuffix(c.Src(call.Fun), "DB.Put") {
						direct = true
					}
					return true
				})
				if direct {
					f.helperWriters[fd.Name.Name] = true
					helperNames = append(helperNames, fd.Name.Name)
				}
			}
		}
		// constants
		trailing, key := "", ""
		for _, file := range files {
			for _, d := range file.Decls {
				gd, ok := d.(*ast.GenDecl)
				if !ok || gd.Tok != token.CONST {
					continue
				}
				for _, sp := range gd.Specs {
					vs := sp.(*ast.ValueSpec)
					for i, n := range vs.Names {
						if i < len(vs.Values) {
							switch n.Name {
							case "trailingBlocks":
								trailing = c.Src(vs.Values[i])
							case "ethLevelDBKey":
								key = strings.Trim(c.Src(vs.Values[i]), "\"")
							}
						}
					}
				}
			}
		}
		trailingLean := "0"
		trailingKnown := false
		if trailing != "" && strings.Trim(trailing, "0123456789") == "" {
			trailingLean, trailingKnown = trailing, true
		}
		start := FindFunc(files, "EthereumSub", "Start")
		var caseBody []ast.Stmt
		startupGet, startupDefaultZero, startupSetBytes := false, false, false
		casesInSelect := 0
		if start != nil {
			// start-up read of the cursor: `data, err := sub.DB.Get([]byte(ethLevelDBKey), nil)` followed by
			// `if err != nil { … lastProcessedBlock = big.NewInt(0) } else { lastProcessedBlock = new(big.Int).SetBytes(data) }`
			for i, st := range start.Body.List {
				if as, ok := st.(*ast.AssignStmt); ok && len(as.Rhs) == 1 && strings.Contains(c.Src(as.Rhs[0]), "DB.Get([]byte(ethLevelDBKey)") {
					startupGet = true
					if i+1 < len(start.Body.List) {
						if ifs, ok := start.Body.List[i+1].(*ast.IfStmt); ok && c.Src(ifs.Cond) == "err != nil" && ifs.Else != nil {
							for _, b := range ifs.Body.List {
								if a, ok := b.(*ast.AssignStmt); ok && c.Src(a) == "lastProcessedBlock = big.NewInt(0)" {
									startupDefaultZero = true
								}
							}
							if eb, ok := ifs.Else.(*ast.BlockStmt); ok && len(eb.List) == 1 && c.Src(eb.List[0]) == "lastProcessedBlock = new(big.Int).SetBytes(data)" {
								startupSetBytes = true
							}
						}
					}
				}
				if ds, ok := st.(*ast.DeclStmt); ok && strings.HasPrefix(c.Src(ds), "var lastProcessedBlock ") {
					f.cursorVar = "lastProcessedBlock"
				}
			}
			// the select loop
			ast.Inspect(start.Body, func(x ast.Node) bool {
				sel, ok := x.(*ast.SelectStmt)
				if !ok {
					return true
				}
				for _, cl := range sel.Body.List {
					cc := cl.(*ast.CommClause)
					casesInSelect++
					if cc.Comm != nil && strings.HasPrefix(c.Src(cc.Comm), "newHead := <-heads") {
						caseBody = cc.Body
					}
				}
				return false
			})
		}
		if f.cursorVar == "" {
			f.cursorVar = "?"
		}
		clientBinding := ""
		if start != nil {
			for _, st := range start.Body.List {
				if as, ok := st.(*ast.AssignStmt); ok && len(as.Lhs) > 0 && c.Src(as.Lhs[0]) == "ethClient" {
					clientBinding = c.Src(as)
				}
			}
		}
		writesInStart := 0
		if start != nil {
			writesInStart = f.writeSites(start.Body)
		}
		if caseBody != nil {
			f.classify(caseBody)
		} else {
			f.steps = []string{"unknown"}
			f.unknown = []string{"case newHead := <-heads not found"}
		}
		var b strings.Builder
		b.WriteString("/-\n  Facts about `EthereumSub.Start` (cmd/ebrelayer/relayer/ethereum.go): constants, the classified statement\n  order of the body of `case newHead := <-heads`, and the expressions the loop model transcribes.\n-/\n")
		b.WriteString("namespace Sif.Generated.RelayerLoop\n\n")
		fmt.Fprintf(&b, "/-- `trailingBlocks` (source text %s) -/\ndef trailingBlocks : Nat := %s\ndef trailingBlocksIsLiteral : Bool := %s\n", LeanStr(trailing), trailingLean, leanBool(trailingKnown))
		fmt.Fprintf(&b, "def levelDBKey : String := %s\n\n", LeanStr(key))
		b.WriteString("inductive Step where\n  | bindHead | computeEnding | guardNegative | initCursor | filterLogs | continueOnQueryError\n  | collectEvents | handleEvents | incrementEnding | dbPut | fatalOnPutError | assignCursor | unknown\n  deriving Repr, DecidableEq\n\n")
		fmt.Fprintf(&b, "/-- non-logging statements of the `newHead` case, in source order -/\ndef steps : List Step := %s\n", leanList(f.steps, false))
		fmt.Fprintf(&b, "def unknownStatements : List String := %s\n\n", leanList(f.unknown, true))
		fmt.Fprintf(&b, "def headExpr : String := %s\n", LeanStr(f.startingExpr))
		fmt.Fprintf(&b, "def endingExpr : String := %s\n", LeanStr(f.endingExpr))
		fmt.Fprintf(&b, "/-- endingBlock is `newHead.Number − trailingBlocks` -/\ndef endingIsHeadMinusTrailing : Bool := %s\n", leanBool(f.endingIsHeadMinus))
		fmt.Fprintf(&b, "def guardCond : String := %s\n", LeanStr(f.guardCond))
		fmt.Fprintf(&b, "def initCond : String := %s\ndef initAssign : String := %s\n", LeanStr(f.initCond), LeanStr(f.initAssign))
		fmt.Fprintf(&b, "def queryFrom : String := %s\ndef queryTo : String := %s\n", LeanStr(f.queryFrom), LeanStr(f.queryTo))
		fmt.Fprintf(&b, "/-- the log query: callee, its context argument, what its results are bound to, what the event loop ranges over,\n    and how the client was obtained (a wrapper between the loop and the ethclient call is not classified as the query) -/\n")
		fmt.Fprintf(&b, "def queryCallee : String := %s\ndef queryContext : String := %s\ndef queryLhs : String := %s\ndef collectOver : String := %s\ndef ethClientBinding : String := %s\n",
			LeanStr(f.queryCallee), LeanStr(f.queryContext), LeanStr(f.queryLhs), LeanStr(f.collectOver), LeanStr(clientBinding))
		fmt.Fprintf(&b, "/-- the `continue` branch after a failed FilterLogs assigns the cursor or writes LevelDB -/\ndef continueTouchesCursor : Bool := %s\n", leanBool(f.contTouchesCursor))
		fmt.Fprintf(&b, "def collectTouchesCursorOrExits : Bool := %s\n", leanBool(f.collectTouches))
		fmt.Fprintf(&b, "def handleGuard : String := %s\n", LeanStr(f.handleGuard))
		fmt.Fprintf(&b, "/-- the submission branch can leave the iteration (return/continue/fatal) or touches the cursor -/\ndef handleAbortsOrTouchesCursor : Bool := %s\n", leanBool(f.handleAborts))
		fmt.Fprintf(&b, "def sleepAfterHandle : Bool := %s\n", leanBool(f.sleepInHandle))
		fmt.Fprintf(&b, "def incrementExpr : String := %s\n", LeanStr(f.incrementExpr))
		fmt.Fprintf(&b, "def putKey : String := %s\ndef putValue : String := %s\n", LeanStr(f.putKey), LeanStr(f.putValue))
		fmt.Fprintf(&b, "def assignRhs : String := %s\n", LeanStr(f.assignRHS))
		fmt.Fprintf(&b, "/-- every site in the `newHead` case that writes the LevelDB cursor (direct `DB.Put` or a call of a package function\n    that contains one): the step each lies in -/\ndef cursorWriteSteps : List Step := %s\n", leanList(f.writeSteps, false))
		fmt.Fprintf(&b, "/-- cursor-write sites in the whole of `Start` (those of the case body included) -/\ndef cursorWriteSitesInStart : Nat := %d\n", writesInStart)
		fmt.Fprintf(&b, "def cursorWriterHelpers : List String := %s\n", leanList(helperNames, true))
		fmt.Fprintf(&b, "def selectCases : Nat := %d\n", casesInSelect)
		fmt.Fprintf(&b, "/-- start-up: cursor read from LevelDB under the key, 0 when absent, big-endian bytes otherwise -/\ndef startupReadsCursor : Bool := %s\ndef startupDefaultZero : Bool := %s\ndef startupSetBytes : Bool := %s\n",
			leanBool(startupGet), leanBool(startupDefaultZero), leanBool(startupSetBytes))
		// the submission: RelayToCosmos (cmd/ebrelayer/txs) returns only after tx.BroadcastTx has returned
		txFiles, err := c.ParseDir("cmd/ebrelayer/txs")
		if err != nil {
			return err
		}
		relay := FindFunc(txFiles, "", "RelayToCosmos")
		goStmts, selects, chans := 0, 0, 0
		broadcastDirect := false
		var followed []string
		if relay != nil {
			count := func(n ast.Node) {
				ast.Inspect(n, func(x ast.Node) bool {
					switch v := x.(type) {
					case *ast.GoStmt:
						goStmts++
					case *ast.SelectStmt:
						selects++
					case *ast.ChanType:
						chans++
					case *ast.CallExpr:
						_ = v
					}
					return true
				})
			}
			count(relay.Body)
			seen := map[string]bool{"RelayToCosmos": true}
			ast.Inspect(relay.Body, func(x ast.Node) bool {
				call, ok := x.(*ast.CallExpr)
				if !ok {
					return true
				}
				fn := c.Src(call.Fun)
				if fn == "tx.BroadcastTx" {
					broadcastDirect = true
				}
				if id, ok := call.Fun.(*ast.Ident); ok && !seen[id.Name] {
					if fd := FindFunc(txFiles, "", id.Name); fd != nil && fd.Body != nil {
						seen[id.Name] = true
						followed = append(followed, id.Name)
						count(fd.Body)
					}
				}
				return true
			})
		}
		fmt.Fprintf(&b, "\n/-- `RelayToCosmos` and the package functions it calls (followed one level): `go` statements, `select` statements,\n    channel types; whether `tx.BroadcastTx` is called directly in `RelayToCosmos` -/\n")
		fmt.Fprintf(&b, "def relayGoStmts : Nat := %d\ndef relaySelects : Nat := %d\ndef relayChanTypes : Nat := %d\ndef relayBroadcastDirect : Bool := %s\ndef relayFollowed : List String := %s\n",
			goStmts, selects, chans, leanBool(broadcastDirect), leanList(followed, true))
		b.WriteString("\nend Sif.Generated.RelayerLoop\n")
		return c.WriteLean("RelayerLoop", b.String())
	}
}
