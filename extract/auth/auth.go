package main

// pass "auth" (C08, tie 1): for every method of the MsgServer interfaces of x/admin, x/tokenregistry,
// x/clp, x/margin, x/ethbridge and x/dispensation, a fact record describing its authorisation guard:
//
//   store            which role store the guard consults: admin (IsAdminAccount(ctx, ROLE, signer)),
//                    oracle (IsAdminAccount(ctx, signer)), clpWhitelist (ValidateAddress(ctx, signer)),
//                    none (no authorisation call anywhere in the handler or its intra-repo callees),
//                    unknown (an authorisation call exists but not in a recognised guard position)
//   role             the AdminType_* constant of an admin guard
//   signerField      the field of the handler's message that supplies the address given to the guard
//                    (traced through AccAddressFromBech32 and through callee parameters)
//   getSignersField  the field GetSigners() of that message type returns (x/<mod>/types)
//   pre              the kind of every top-level statement executed before the guard, in order
//                    (pure / read / write / unknown), including those of a callee the guard lives in
//   guardTop         the guard is a top-level statement of the handler (or of a callee invoked from a
//                    top-level statement whose error is returned): it is on every path to the writes after it
//   failReturnsError the failing branch of the guard returns a non-nil error (and the handler passes a
//                    callee's error on)
//   authCalls        number of authorisation calls found in the handler and its callees (depth <= 3)
//
// Standard library go/ast only.  "State-writing call": store.Set/Delete, any bank/mint/… keeper method
// that is not a getter, or an intra-repo function whose body (to depth 3) contains one.  Whatever is
// not recognised becomes `unknown`, which fails the Lean obligation.

import (
	"fmt"
	"go/ast"
	"go/token"
	"os"
	"path/filepath"
	"sort"
	"strings"
)

func init() { passes["auth"] = passAuth }

var authModules = []string{"admin", "tokenregistry", "clp", "margin", "ethbridge", "dispensation"}

type modPkg struct {
	name    string
	files   []*ast.File
	funcs   map[string][]*ast.FuncDecl // by function / method name
	imports map[string]bool            // import aliases used in the package
}

type authPass struct {
	lastCallee string // the authorisation function of the guard recognised last
	c          *Ctx
	mods       map[string]*modPkg // x/<name>/keeper, loaded on demand
}

func (p *authPass) mod(name string) *modPkg {
	if m, ok := p.mods[name]; ok {
		return m
	}
	rel := filepath.Join("x", name, "keeper")
	if _, err := os.Stat(filepath.Join(p.c.Repo, rel)); err != nil {
		p.mods[name] = nil
		return nil
	}
	files, err := p.c.ParseDir(rel)
	if err != nil {
		p.mods[name] = nil
		return nil
	}
	m := &modPkg{name: name, files: files, funcs: map[string][]*ast.FuncDecl{}, imports: map[string]bool{}}
	for _, f := range files {
		for _, im := range f.Imports {
			path := strings.Trim(im.Path.Value, "\"")
			alias := filepath.Base(path)
			if im.Name != nil {
				alias = im.Name.Name
			}
			m.imports[alias] = true
		}
		for _, d := range f.Decls {
			if fd, ok := d.(*ast.FuncDecl); ok && fd.Body != nil {
				m.funcs[fd.Name.Name] = append(m.funcs[fd.Name.Name], fd)
			}
		}
	}
	p.mods[name] = m
	return m
}

func recvName(fd *ast.FuncDecl) string {
	if fd.Recv != nil && len(fd.Recv.List) > 0 && len(fd.Recv.List[0].Names) > 0 {
		return fd.Recv.List[0].Names[0].Name
	}
	return ""
}

func recvType(fd *ast.FuncDecl) string {
	if fd.Recv == nil || len(fd.Recv.List) == 0 {
		return ""
	}
	t := fd.Recv.List[0].Type
	if st, ok := t.(*ast.StarExpr); ok {
		t = st.X
	}
	if id, ok := t.(*ast.Ident); ok {
		return id.Name
	}
	return ""
}

// kinds, ordered by severity
const (
	kPure = iota
	kRead
	kUnknown
	kWrite
)

var kindLean = []string{".pure", ".read", ".unknown", ".write"}

func hasPrefixAny(s string, ps ...string) bool {
	for _, p := range ps {
		if strings.HasPrefix(s, p) {
			return true
		}
	}
	return false
}

func readName(n string) bool {
	return hasPrefixAny(n, "Get", "Has", "Is", "Exists", "Iterate", "Spendable", "Locked", "Validate", "Blocked", "Logger", "Must", "Query", "Calc", "Find", "Keeper", "Check")
}

func writeName(n string) bool {
	return hasPrefixAny(n, "Set", "Delete", "Add", "Remove", "Mint", "Burn", "Send", "Transfer", "Destroy", "Decommission", "Create", "Update", "Process",
		"Run", "Distribute", "Open", "Close", "Force", "Increment", "Append", "Push", "Delegate", "Undelegate", "Init", "Store", "Write", "Insert", "Take", "Repay", "Bank", "Accumulate", "Change", "Lock", "Unlock", "Refund", "Cancel", "Use", "Policy", "Emit")
}

var builtins = map[string]bool{"len": true, "cap": true, "append": true, "make": true, "new": true, "panic": true, "copy": true, "delete": true, "string": true,
	"uint64": true, "int64": true, "uint": true, "int": true, "int32": true, "uint32": true, "float64": true, "byte": true, "bool": true, "min": true, "max": true, "recover": true, "print": true, "println": true}

// chain flattens a selector / call chain a.b().c.d into its element names, base first.
func chain(e ast.Expr) []string {
	switch v := e.(type) {
	case *ast.Ident:
		return []string{v.Name}
	case *ast.SelectorExpr:
		return append(chain(v.X), v.Sel.Name)
	case *ast.CallExpr:
		c := chain(v.Fun)
		if len(c) > 0 {
			c[len(c)-1] += "()"
		}
		return c
	case *ast.ParenExpr:
		return chain(v.X)
	case *ast.StarExpr:
		return chain(v.X)
	case *ast.IndexExpr:
		return chain(v.X)
	case *ast.TypeAssertExpr:
		return chain(v.X)
	case *ast.UnaryExpr:
		return chain(v.X)
	}
	return []string{"?"}
}

// keeperOf names the module whose keeper a chain element denotes ("" = not a keeper, "." = the
// current module's own keeper).
func keeperOf(el string) string {
	e := strings.TrimSuffix(el, "()")
	l := strings.ToLower(e)
	if l == "keeper" {
		return "."
	}
	if strings.HasSuffix(l, "keeper") {
		m := strings.TrimSuffix(l, "keeper")
		m = strings.TrimPrefix(m, "get")
		return m
	}
	return ""
}

type callClass struct {
	kind    int
	callees []*ast.FuncDecl
	mod     string
}

// classifyCall decides what a call can do to state, syntactically.
func (p *authPass) classifyCall(call *ast.CallExpr, fd *ast.FuncDecl, mod string) callClass {
	m := p.mod(mod)
	switch f := call.Fun.(type) {
	case *ast.Ident:
		if builtins[f.Name] {
			return callClass{kind: kPure}
		}
		if m != nil {
			if fs, ok := m.funcs[f.Name]; ok {
				return callClass{kind: kPure, callees: fs, mod: mod}
			}
		}
		// a conversion to a local type, or a closure variable
		if f.Obj != nil && f.Obj.Kind == ast.Var {
			return callClass{kind: kUnknown}
		}
		return callClass{kind: kPure}
	case *ast.SelectorExpr:
		ch := chain(f.X)
		sel := f.Sel.Name
		base := ch[0]
		recv := recvName(fd)
		// stores
		last := strings.ToLower(strings.TrimSuffix(ch[len(ch)-1], "()"))
		if strings.Contains(last, "store") && last != "storekey" {
			if sel == "Set" || sel == "Delete" {
				return callClass{kind: kWrite}
			}
			return callClass{kind: kRead}
		}
		if base != recv || recv == "" {
			if m != nil && m.imports[base] && len(ch) == 1 {
				return callClass{kind: kPure} // package-level function of another package (types, sdk, errors, fmt, …)
			}
			if base == "ctx" || base == "goCtx" {
				return callClass{kind: kPure} // EventManager, BlockHeight, Logger …; KVStore handled above
			}
			// a method on a local value or parameter; keeper-typed locals are recognised by name
			for _, el := range ch {
				if k := keeperOf(el); k != "" {
					return p.keeperCall(k, sel, mod, true, recvType(fd))
				}
			}
			return callClass{kind: kPure}
		}
		// receiver chains: k.Foo, k.Keeper.Foo, k.xKeeper.Foo, k.XKeeper().Foo, m.keeper.GetAdminKeeper().Foo
		owner := "."
		via := false
		for _, el := range ch[1:] {
			if k := keeperOf(el); k != "" {
				owner = k
				via = true
			} else if strings.HasSuffix(el, "()") {
				return callClass{kind: kUnknown}
			} else {
				// a plain field of the keeper (cdc, storeKey, paramstore …): not state of the multistore,
				// except parameter subspaces
				l := strings.ToLower(el)
				if strings.Contains(l, "param") && writeName(sel) {
					return callClass{kind: kWrite}
				}
				return callClass{kind: kPure}
			}
		}
		return p.keeperCall(owner, sel, mod, via, recvType(fd))
	}
	return callClass{kind: kUnknown}
}

func (p *authPass) keeperCall(owner, sel, mod string, viaKeeper bool, callerRecv string) callClass {
	target := owner
	if owner == "." {
		target = mod
	}
	if tm := p.mod(target); tm != nil {
		// methods of the msgServer type are reachable only from a msgServer receiver, not through a keeper
		var fs []*ast.FuncDecl
		for _, f := range tm.funcs[sel] {
			if recvType(f) == "msgServer" && (viaKeeper || owner != "." || callerRecv != "msgServer") {
				continue
			}
			fs = append(fs, f)
		}
		if len(fs) > 0 {
			return callClass{kind: kPure, callees: fs, mod: target}
		}
	}
	// a keeper outside the repository (bank, mint, auth, staking …) or an unresolved method: by name
	if readName(sel) && !writeName(sel) {
		return callClass{kind: kRead}
	}
	if writeName(sel) {
		return callClass{kind: kWrite}
	}
	if p.mod(target) == nil {
		return callClass{kind: kWrite} // external keeper, not a getter: assume it writes
	}
	return callClass{kind: kUnknown}
}

type fnKey struct {
	fd *ast.FuncDecl
}

// effect: the worst kind of anything a function body can do (to depth), and the number of
// authorisation calls in it.
func (p *authPass) effect(fd *ast.FuncDecl, mod string, depth int, seen map[*ast.FuncDecl]bool) (int, int) {
	if fd == nil || fd.Body == nil {
		return kUnknown, 0
	}
	if seen[fd] {
		return kPure, 0
	}
	seen[fd] = true
	defer delete(seen, fd)
	return p.effectOf(fd.Body, fd, mod, depth, seen)
}

func (p *authPass) effectOf(n ast.Node, fd *ast.FuncDecl, mod string, depth int, seen map[*ast.FuncDecl]bool) (int, int) {
	worst, auth := kPure, 0
	ast.Inspect(n, func(x ast.Node) bool {
		call, ok := x.(*ast.CallExpr)
		if !ok {
			return true
		}
		if st, _, _ := p.authCall(call, fd, mod); st != "" {
			auth++
			if worst < kRead {
				worst = kRead
			}
			return true
		}
		cc := p.classifyCall(call, fd, mod)
		k := cc.kind
		if len(cc.callees) > 0 {
			if depth <= 0 {
				k = kUnknown
			} else {
				for _, c := range cc.callees {
					ek, ea := p.effect(c, cc.mod, depth-1, seen)
					if ek > k {
						k = ek
					}
					auth += ea
				}
				if k < kRead {
					k = kRead
				}
			}
		}
		if k > worst {
			worst = k
		}
		return true
	})
	return worst, auth
}

// authCall recognises an authorisation call; returns (store, role, signer argument).  The callee must be named: the
// admin keeper's IsAdminAccount(ctx, ROLE, signer), the oracle keeper's IsAdminAccount(ctx, signer), the clp keeper's own
// ValidateAddress(ctx, signer).  A call of one of these names on anything else is `.unknown`.
func (p *authPass) authCall(call *ast.CallExpr, fd *ast.FuncDecl, mod string) (string, string, ast.Expr) {
	sel, ok := call.Fun.(*ast.SelectorExpr)
	if !ok {
		return "", "", nil
	}
	ch := chain(sel.X)
	owner := ""
	for _, el := range ch[1:] {
		if k := keeperOf(el); k != "" {
			owner = k
		}
	}
	own := ch[0] == recvName(fd) && recvName(fd) != "" // a method of the current module's own keeper / msg server
	switch sel.Sel.Name {
	case "IsAdminAccount":
		if len(call.Args) == 3 {
			if !(owner == "admin" || (mod == "admin" && own && (owner == "" || owner == "."))) {
				return ".unknown", "?", nil
			}
			role := "?"
			if rs, ok := call.Args[1].(*ast.SelectorExpr); ok && strings.HasPrefix(rs.Sel.Name, "AdminType_") {
				role = strings.TrimPrefix(rs.Sel.Name, "AdminType_")
			}
			p.lastCallee = "adminKeeper.IsAdminAccount"
			return ".admin", role, call.Args[2]
		}
		if len(call.Args) == 2 {
			if !(owner == "oracle" || (mod == "oracle" && own && (owner == "" || owner == "."))) {
				return ".unknown", "?", nil
			}
			p.lastCallee = "oracleKeeper.IsAdminAccount"
			return ".oracle", "", call.Args[1]
		}
		return ".unknown", "?", nil
	case "ValidateAddress":
		if mod == "clp" && len(call.Args) == 2 && own && (owner == "" || owner == ".") {
			p.lastCallee = "clpKeeper.ValidateAddress"
			return ".clpWhitelist", "", call.Args[1]
		}
	}
	return "", "", nil
}

// nonNilErr: an expression that is certainly a non-nil error value.
func (p *authPass) nonNilErr(e ast.Expr) bool {
	switch v := e.(type) {
	case *ast.SelectorExpr:
		return strings.HasPrefix(v.Sel.Name, "Err")
	case *ast.CallExpr:
		if s, ok := v.Fun.(*ast.SelectorExpr); ok {
			switch s.Sel.Name {
			case "Wrap", "Wrapf":
				return len(v.Args) >= 1 && p.nonNilErr(v.Args[0])
			case "New", "Errorf":
				return true
			}
		}
	}
	return false
}

// frame: symbolic values of a function's parameters ("msg", "msg.<path>", "addr(<path>)", "?").
type frame struct {
	fd   *ast.FuncDecl
	args map[string]string
}

func (p *authPass) eval(fr *frame, e ast.Expr, limit token.Pos) string {
	switch v := e.(type) {
	case *ast.ParenExpr:
		return p.eval(fr, v.X, limit)
	case *ast.StarExpr:
		return p.eval(fr, v.X, limit)
	case *ast.Ident:
		if s, ok := fr.args[v.Name]; ok {
			return s
		}
		// the last top-level definition before `limit`
		res := "?"
		for _, st := range fr.fd.Body.List {
			if st.Pos() >= limit {
				break
			}
			as, ok := st.(*ast.AssignStmt)
			if !ok || len(as.Lhs) == 0 || len(as.Rhs) != 1 {
				continue
			}
			if id, ok := as.Lhs[0].(*ast.Ident); !ok || id.Name != v.Name {
				continue
			}
			res = p.evalRhs(fr, as.Rhs[0], st.Pos())
		}
		return res
	case *ast.SelectorExpr:
		b := p.eval(fr, v.X, limit)
		if b == "msg" {
			return "msg." + v.Sel.Name
		}
		if strings.HasPrefix(b, "msg.") {
			return b + "." + v.Sel.Name
		}
	}
	return "?"
}

func (p *authPass) evalRhs(fr *frame, e ast.Expr, limit token.Pos) string {
	if call, ok := e.(*ast.CallExpr); ok {
		if s, ok := call.Fun.(*ast.SelectorExpr); ok && len(call.Args) == 1 {
			if s.Sel.Name == "AccAddressFromBech32" || s.Sel.Name == "MustAccAddressFromBech32" {
				a := p.eval(fr, call.Args[0], limit)
				if strings.HasPrefix(a, "msg.") {
					return "addr(" + strings.TrimPrefix(a, "msg.") + ")"
				}
				return "?"
			}
		}
		return "?"
	}
	return p.eval(fr, e, limit)
}

type guardInfo struct {
	found      bool
	store      string
	role       string
	signer     string // "addr(<path>)" or "?"
	failErr    bool
	pre        []int
	authCalls  int
	guardTop   bool
	calleeName string
	authFn     string
}

// isGuardStmt: `if !AUTH(...) { …; return …, <non-nil err> }`
func (p *authPass) isGuardStmt(st ast.Stmt, fd *ast.FuncDecl, mod string) (string, string, ast.Expr, bool, bool) {
	is, ok := st.(*ast.IfStmt)
	if !ok || is.Init != nil {
		return "", "", nil, false, false
	}
	un, ok := unparenA(is.Cond).(*ast.UnaryExpr)
	if !ok || un.Op != token.NOT {
		return "", "", nil, false, false
	}
	call, ok := unparenA(un.X).(*ast.CallExpr)
	if !ok {
		return "", "", nil, false, false
	}
	store, role, signer := p.authCall(call, fd, mod)
	if store == "" {
		return "", "", nil, false, false
	}
	// the failing branch: its last statement returns; the last result must be a non-nil error
	failErr := false
	if n := len(is.Body.List); n > 0 {
		if r, ok := is.Body.List[n-1].(*ast.ReturnStmt); ok && len(r.Results) > 0 {
			failErr = p.nonNilErr(r.Results[len(r.Results)-1])
		}
	}
	// the branch must not write
	k, _ := p.effectOf(is.Body, fd, mod, 2, map[*ast.FuncDecl]bool{})
	if k >= kUnknown {
		failErr = false
	}
	return store, role, signer, failErr, true
}

func unparenA(e ast.Expr) ast.Expr {
	for {
		pe, ok := e.(*ast.ParenExpr)
		if !ok {
			return e
		}
		e = pe.X
	}
}

// returnsErrVar: the statements end with `return …, err`.
func returnsErrVar(c *Ctx, body []ast.Stmt) bool {
	if n := len(body); n > 0 {
		if r, ok := body[n-1].(*ast.ReturnStmt); ok && len(r.Results) > 0 {
			return c.Src(r.Results[len(r.Results)-1]) == "err"
		}
	}
	return false
}

// analyze walks the top-level statements of fd up to its guard.
func (p *authPass) analyze(fr *frame, mod string, depth int) guardInfo {
	fd := fr.fd
	g := guardInfo{}
	_, g.authCalls = p.effect(fd, mod, 3, map[*ast.FuncDecl]bool{})
	stmts := fd.Body.List
	for i, st := range stmts {
		if store, role, signer, failErr, ok := p.isGuardStmt(st, fd, mod); ok {
			g.found, g.guardTop, g.store, g.role, g.failErr = true, true, store, role, failErr
			p.authCall(unparenA(unparenA(st.(*ast.IfStmt).Cond).(*ast.UnaryExpr).X).(*ast.CallExpr), fd, mod)
			g.authFn = p.lastCallee
			g.signer = "?"
			if signer != nil {
				g.signer = p.eval(fr, signer, st.Pos())
			}
			return g
		}
		// a guard inside a callee invoked from this top-level statement, whose error is returned
		if call, errReturned := p.delegation(st, stmts, i); call != nil && depth > 0 {
			cc := p.classifyCall(call, fd, mod)
			if len(cc.callees) == 1 {
				callee := cc.callees[0]
				if _, n := p.effect(callee, cc.mod, 3, map[*ast.FuncDecl]bool{}); n > 0 {
					cfr := &frame{fd: callee, args: map[string]string{}}
					idx := 0
					for _, f := range callee.Type.Params.List {
						for _, nm := range f.Names {
							if idx < len(call.Args) {
								cfr.args[nm.Name] = p.eval(fr, call.Args[idx], st.Pos())
								if cfr.args[nm.Name] == "?" {
									// the argument may itself be an address parsed earlier
									cfr.args[nm.Name] = p.eval(fr, call.Args[idx], st.Pos())
								}
							}
							idx++
						}
					}
					cg := p.analyze(cfr, cc.mod, depth-1)
					if cg.found {
						// arguments of the delegating call are evaluated before the callee runs
						k := kPure
						for _, a := range call.Args {
							ak, _ := p.effectOf(a, fd, mod, 2, map[*ast.FuncDecl]bool{})
							if ak > k {
								k = ak
							}
						}
						g.pre = append(g.pre, k)
						g.pre = append(g.pre, cg.pre...)
						g.found, g.guardTop, g.store, g.role, g.signer = true, cg.guardTop, cg.store, cg.role, cg.signer
						g.authFn = cg.authFn
						g.failErr = cg.failErr && errReturned
						g.calleeName = callee.Name.Name
						return g
					}
				}
			}
		}
		k, _ := p.effectOf(st, fd, mod, 3, map[*ast.FuncDecl]bool{})
		if _, isRet := st.(*ast.ReturnStmt); isRet {
			k = kUnknown // an unconditional return before any guard
		}
		g.pre = append(g.pre, k)
	}
	// no top-level guard
	g.pre = nil
	if g.authCalls > 0 {
		g.store, g.role, g.signer = ".unknown", "?", "?"
	} else {
		g.store = ".none"
	}
	return g
}

// delegation recognises   err := CALL ; if err != nil { …return …, err }
//
//	if err := CALL; err != nil { …return …, err }
//	return CALL
//
// and returns the call and whether its error is passed on.
func (p *authPass) delegation(st ast.Stmt, stmts []ast.Stmt, i int) (*ast.CallExpr, bool) {
	switch s := st.(type) {
	case *ast.ReturnStmt:
		// `return CALL` in a function whose only result is the error
		if len(s.Results) == 1 {
			if call, ok := s.Results[0].(*ast.CallExpr); ok {
				return call, true
			}
		}
	case *ast.IfStmt:
		if as, ok := s.Init.(*ast.AssignStmt); ok && len(as.Rhs) == 1 && p.c.Src(s.Cond) == "err != nil" {
			if call, ok := as.Rhs[0].(*ast.CallExpr); ok && len(as.Lhs) == 1 && p.c.Src(as.Lhs[0]) == "err" {
				return call, returnsErrVar(p.c, s.Body.List)
			}
		}
	case *ast.AssignStmt:
		if len(s.Rhs) == 1 && len(s.Lhs) == 1 && p.c.Src(s.Lhs[0]) == "err" {
			if call, ok := s.Rhs[0].(*ast.CallExpr); ok {
				passed := false
				if i+1 < len(stmts) {
					if is, ok := stmts[i+1].(*ast.IfStmt); ok && is.Init == nil && p.c.Src(is.Cond) == "err != nil" {
						passed = returnsErrVar(p.c, is.Body.List)
					}
				}
				return call, passed
			}
		}
	}
	return nil, false
}

// getSignersFields: message type -> field path used by GetSigners.
func (p *authPass) getSignersFields(mod string) map[string]string {
	res := map[string]string{}
	files, err := p.c.ParseDir(filepath.Join("x", mod, "types"))
	if err != nil {
		return res
	}
	for _, f := range files {
		for _, d := range f.Decls {
			fd, ok := d.(*ast.FuncDecl)
			if !ok || fd.Name.Name != "GetSigners" || fd.Body == nil || fd.Recv == nil {
				continue
			}
			rn, rt := recvName(fd), recvType(fd)
			field := "?"
			ast.Inspect(fd.Body, func(x ast.Node) bool {
				call, ok := x.(*ast.CallExpr)
				if !ok || field != "?" {
					return true
				}
				if s, ok := call.Fun.(*ast.SelectorExpr); ok && strings.HasSuffix(s.Sel.Name, "AddressFromBech32") && len(call.Args) == 1 {
					ch := chain(call.Args[0])
					if len(ch) >= 2 && ch[0] == rn {
						field = strings.Join(ch[1:], ".")
					}
				}
				return true
			})
			res[rt] = field
		}
	}
	return res
}

type ifaceMethod struct{ name, msgType string }

func (p *authPass) msgServerMethods(mod string) []ifaceMethod {
	var res []ifaceMethod
	files, err := p.c.ParseDir(filepath.Join("x", mod, "types"))
	if err != nil {
		return res
	}
	for _, f := range files {
		for _, d := range f.Decls {
			gd, ok := d.(*ast.GenDecl)
			if !ok || gd.Tok != token.TYPE {
				continue
			}
			for _, s := range gd.Specs {
				ts := s.(*ast.TypeSpec)
				it, ok := ts.Type.(*ast.InterfaceType)
				if !ok || ts.Name.Name != "MsgServer" {
					continue
				}
				for _, m := range it.Methods.List {
					ft, ok := m.Type.(*ast.FuncType)
					if !ok || len(m.Names) == 0 {
						continue
					}
					mt := "?"
					if len(ft.Params.List) >= 2 {
						mt = strings.TrimPrefix(p.c.Src(ft.Params.List[1].Type), "*")
					}
					res = append(res, ifaceMethod{m.Names[0].Name, mt})
				}
			}
		}
	}
	return res
}

func passAuth(c *Ctx) error {
	p := &authPass{c: c, mods: map[string]*modPkg{}}
	var sb strings.Builder
	sb.WriteString("import Sif.Model.AuthTypes\n/- authorisation guard of every MsgServer method (x/admin, tokenregistry, clp, margin, ethbridge, dispensation) -/\nnamespace Sif.Generated.Auth\nopen Sif.AuthTypes\n\ndef handlers : List Handler := [\n")
	var lines []string
	total := 0
	for _, mod := range authModules {
		m := p.mod(mod)
		signers := p.getSignersFields(mod)
		methods := p.msgServerMethods(mod)
		sort.SliceStable(methods, func(i, j int) bool { return methods[i].name < methods[j].name })
		for _, im := range methods {
			total++
			var impl *ast.FuncDecl
			if m != nil {
				for _, fd := range m.funcs[im.name] {
					if recvType(fd) == "msgServer" {
						impl = fd
					}
				}
			}
			gs, ok := signers[im.msgType]
			if !ok {
				gs = "?"
			}
			if impl == nil || len(impl.Type.Params.List) < 2 || len(impl.Type.Params.List[1].Names) != 1 {
				lines = append(lines, fmt.Sprintf("  { module := %s, name := %s, msgType := %s, store := .unknown, role := \"?\", callee := \"?\", signerField := \"?\", getSignersField := %s, pre := [], guardTop := false, failReturnsError := false, authCalls := 0 }",
					LeanStr(mod), LeanStr(im.name), LeanStr(im.msgType), LeanStr(gs)))
				continue
			}
			fr := &frame{fd: impl, args: map[string]string{impl.Type.Params.List[1].Names[0].Name: "msg"}}
			g := p.analyze(fr, mod, 2)
			signer := ""
			if g.store != ".none" {
				signer = "?"
				if strings.HasPrefix(g.signer, "addr(") {
					signer = strings.TrimSuffix(strings.TrimPrefix(g.signer, "addr("), ")")
				}
			}
			pre := make([]string, len(g.pre))
			for i, k := range g.pre {
				pre[i] = kindLean[k]
			}
			lines = append(lines, fmt.Sprintf("  { module := %s, name := %s, msgType := %s, store := %s, role := %s, callee := %s, signerField := %s, getSignersField := %s, pre := [%s], guardTop := %v, failReturnsError := %v, authCalls := %d }",
				LeanStr(mod), LeanStr(im.name), LeanStr(im.msgType), g.store, LeanStr(g.role), LeanStr(g.authFn), LeanStr(signer), LeanStr(gs), strings.Join(pre, ", "), g.guardTop, g.failErr, g.authCalls))
		}
	}
	sb.WriteString(strings.Join(lines, ",\n"))
	sb.WriteString("\n]\n\n")
	// x/admin AddAccount / RemoveAccount: is the account's address required to be the canonical spelling of a
	// valid address before the table is touched?  Recognised shape: a top-level
	//   if err := F(msg.Account); err != nil { return nil, err }
	// before the keeper call, F decoding <p>.AdminAddress with AccAddressFromBech32 and returning an error
	// when <decoded>.String() != <p>.AdminAddress.
	sb.WriteString("/-- x/admin: does the handler reject an AdminAddress that is not the canonical spelling of a valid address -/\ndef adminValidatesCanonical : List (String × Bool) := [")
	for i, hn := range []string{"AddAccount", "RemoveAccount"} {
		ok := false
		if m := p.mod("admin"); m != nil {
			for _, fd := range m.funcs[hn] {
				if recvType(fd) != "msgServer" || len(fd.Type.Params.List) < 2 || len(fd.Type.Params.List[1].Names) != 1 {
					continue
				}
				msgName := fd.Type.Params.List[1].Names[0].Name
				validated := false
				for _, st := range fd.Body.List {
					src := c.Src(st)
					if strings.Contains(src, "SetAdminAccount(") || strings.Contains(src, "RemoveAdminAccount(") {
						ok = validated
						break
					}
					is, isIf := st.(*ast.IfStmt)
					if !isIf || is.Init == nil || c.Src(is.Cond) != "err != nil" || !returnsErrVar(c, is.Body.List) {
						continue
					}
					as, isAs := is.Init.(*ast.AssignStmt)
					if !isAs || len(as.Rhs) != 1 {
						continue
					}
					call, isCall := as.Rhs[0].(*ast.CallExpr)
					if !isCall || len(call.Args) != 1 || c.Src(call.Args[0]) != msgName+".Account" {
						continue
					}
					id, isID := call.Fun.(*ast.Ident)
					if !isID {
						continue
					}
					for _, f := range m.funcs[id.Name] {
						if f.Recv != nil || len(f.Type.Params.List) != 1 || len(f.Type.Params.List[0].Names) != 1 {
							continue
						}
						pn := f.Type.Params.List[0].Names[0].Name
						body := c.Src(f.Body)
						if strings.Contains(body, "AccAddressFromBech32("+pn+".AdminAddress)") && strings.Contains(body, ".String() != "+pn+".AdminAddress") &&
							strings.Contains(body, "if err != nil { return err }") {
							validated = true
						}
					}
				}
			}
		}
		if i > 0 {
			sb.WriteString(", ")
		}
		sb.WriteString(fmt.Sprintf("(%s, %v)", LeanStr(hn), ok))
	}
	sb.WriteString("]\n\n")
	// x/admin keeper: how IsAdminAccount compares a stored entry with the signer, and whether InitGenesis /
	// SetAdminAccount write the entries verbatim.  Recognised shapes only; anything else is "unknown" / none.
	compare, verbatim := "unknown", "none"
	if m := p.mod("admin"); m != nil {
		norm := func(n ast.Node) string { return c.Src(n) }
		strCmpIsEq := false
		if tfiles, err := c.ParseDir(filepath.Join("x", "admin", "types")); err == nil {
			if fd := FindFunc(tfiles, "", "StringCompare"); fd != nil && fd.Body != nil && len(fd.Body.List) == 1 && len(fd.Type.Params.List) == 1 && len(fd.Type.Params.List[0].Names) == 2 {
				a, b := fd.Type.Params.List[0].Names[0].Name, fd.Type.Params.List[0].Names[1].Name
				strCmpIsEq = norm(fd.Body.List[0]) == "return "+a+" == "+b
			}
		}
		for _, fd := range m.funcs["IsAdminAccount"] {
			if recvType(fd) != "Keeper" || len(fd.Type.Params.List) != 3 || len(fd.Type.Params.List[2].Names) != 1 {
				continue
			}
			signer := fd.Type.Params.List[2].Names[0].Name
			// every `return true` must sit directly under an if whose condition is the string comparison of the
			// entry's AdminAddress with <signer>.String(), inside a range over GetAdminAccountsForType(ctx, <type param>)
			okAll, seenTrue := true, 0
			var walk func(n ast.Node, cond string, ranged bool)
			walk = func(n ast.Node, cond string, ranged bool) {
				switch v := n.(type) {
				case *ast.BlockStmt:
					for _, st := range v.List {
						walk(st, cond, ranged)
					}
				case *ast.IfStmt:
					walk(v.Body, norm(v.Cond), ranged)
					if v.Else != nil {
						walk(v.Else, "else", ranged)
					}
				case *ast.RangeStmt:
					src := norm(v.X)
					isTable := src == "accounts" || strings.HasPrefix(src, "k.GetAdminAccountsForType(ctx, ")
					val := ""
					if v.Value != nil {
						val = norm(v.Value)
					}
					for _, st := range v.Body.List {
						if is, ok := st.(*ast.IfStmt); ok {
							cnd := norm(is.Cond)
							want1 := "types.StringCompare(" + val + ".AdminAddress, " + signer + ".String())"
							want2 := val + ".AdminAddress == " + signer + ".String()"
							good := isTable && ((cnd == want1 && strCmpIsEq) || cnd == want2)
							for _, b := range is.Body.List {
								if r, ok := b.(*ast.ReturnStmt); ok && len(r.Results) == 1 && norm(r.Results[0]) == "true" {
									seenTrue++
									if !good {
										okAll = false
									}
								} else {
									okAll = false
								}
							}
							if is.Else != nil {
								okAll = false
							}
						} else {
							okAll = false
						}
					}
				case *ast.ReturnStmt:
					if len(v.Results) == 1 && norm(v.Results[0]) != "false" {
						okAll = false // a `return true` (or anything else) outside the recognised comparison
					}
				case *ast.AssignStmt:
					if len(v.Lhs) == 1 && norm(v.Lhs[0]) == "accounts" && !strings.HasPrefix(norm(v.Rhs[0]), "k.GetAdminAccountsForType(ctx, ") {
						okAll = false
					}
				default:
					okAll = false
				}
			}
			walk(fd.Body, "", false)
			if okAll && seenTrue == 1 {
				compare = "stringEq"
			}
		}
		ig, sa := m.funcs["InitGenesis"], m.funcs["SetAdminAccount"]
		if len(ig) == 1 && len(sa) == 1 {
			igSrc := norm(ig[0].Body)
			saSrc := norm(sa[0].Body)
			igOK := strings.Contains(igSrc, "for _, adminAccount := range state.AdminAccounts { k.SetAdminAccount(ctx, adminAccount) }") && len(ig[0].Body.List) == 2
			saOK := saSrc == "{ store := ctx.KVStore(k.storeKey) key := types.GetAdminAccountKey(*account) store.Set(key, k.cdc.MustMarshal(account)) }"
			verbatim = fmt.Sprintf("some %v", igOK && saOK)
		}
	}
	sb.WriteString("/-- x/admin IsAdminAccount: how a stored entry is compared with the signer (\"stringEq\": AdminAddress == signer.String()) -/\ndef adminCompare : String := " + LeanStr(compare) + "\n")
	sb.WriteString("/-- x/admin InitGenesis hands every genesis entry to SetAdminAccount, which stores key and value from it unchanged -/\ndef adminGenesisVerbatim : Option Bool := " + verbatim + "\n\n")
	sb.WriteString(fmt.Sprintf("def methodCount : Nat := %d\n\nend Sif.Generated.Auth\n", total))
	return c.WriteLean("Auth", sb.String())
}
