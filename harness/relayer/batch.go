package main

// family "relaybatch" (C16): the translation AS THE RELAYER SUBMITS IT.  Batches of 0–6 Ethereum events
// (mixed lock / burn, malformed events at every position) go through the REAL
//   EthereumSub.handleEthereumEvent → txs.RelayToCosmos → tx.BroadcastTx
// (hook VerifHandleEthereumEvent), offline: in-memory keyring, a stub Tendermint RPC client that answers the
// account query and records the signed transaction.  The claims are decoded from the recorded transaction
// bytes.  Lines:
//   batch …                 the submitted claims, in order          (model: Relayer.handleBatch)
//   chk c16.batchcount      #claims = #submittable events           (Spec.C16.batchCountOK)
//   chk c16.batchfields     k-th claim faithful to ITS OWN event    (Spec.C16.batchFieldsOK → claimFaithful)
//   chk c16.batchids        distinct events ⇒ distinct claim ids    (Spec.C16.batchIdsOK; ids from the real
//                                                                    CreateOracleClaimFromEthClaim)

import (
	"context"
	"fmt"
	"io"
	"log"
	"math/big"
	"strings"

	"github.com/cosmos/cosmos-sdk/client"
	"github.com/cosmos/cosmos-sdk/client/flags"
	"github.com/cosmos/cosmos-sdk/client/tx"
	codectypes "github.com/cosmos/cosmos-sdk/codec/types"
	sdk "github.com/cosmos/cosmos-sdk/types"
	authtypes "github.com/cosmos/cosmos-sdk/x/auth/types"
	"github.com/ethereum/go-ethereum/common"
	abci "github.com/tendermint/tendermint/abci/types"
	tmbytes "github.com/tendermint/tendermint/libs/bytes"
	rpcclient "github.com/tendermint/tendermint/rpc/client"
	coretypes "github.com/tendermint/tendermint/rpc/core/types"
	tmtypes "github.com/tendermint/tendermint/types"

	sifapp "github.com/Sifchain/sifnode/app"
	"github.com/Sifchain/sifnode/cmd/ebrelayer/relayer"
	"github.com/Sifchain/sifnode/cmd/ebrelayer/txs"
	rtypes "github.com/Sifchain/sifnode/cmd/ebrelayer/types"
	ethbridge "github.com/Sifchain/sifnode/x/ethbridge/types"
)

// recordingNode: only what tx.BroadcastTx needs.
type recordingNode struct {
	rpcclient.Client
	from sdk.AccAddress
	txs  [][]byte
}

func (n *recordingNode) ABCIQueryWithOptions(ctx context.Context, path string, data tmbytes.HexBytes, opts rpcclient.ABCIQueryOptions) (*coretypes.ResultABCIQuery, error) {
	if path != "/cosmos.auth.v1beta1.Query/Account" {
		return nil, fmt.Errorf("stub node: unexpected query %s", path)
	}
	any, err := codectypes.NewAnyWithValue(authtypes.NewBaseAccount(n.from, nil, 7, 3))
	if err != nil {
		return nil, err
	}
	bz, err := (&authtypes.QueryAccountResponse{Account: any}).Marshal()
	if err != nil {
		return nil, err
	}
	return &coretypes.ResultABCIQuery{Response: abci.ResponseQuery{Code: 0, Value: bz, Height: 10}}, nil
}

func (n *recordingNode) ABCIQuery(ctx context.Context, path string, data tmbytes.HexBytes) (*coretypes.ResultABCIQuery, error) {
	return n.ABCIQueryWithOptions(ctx, path, data, rpcclient.DefaultABCIQueryOptions)
}

func (n *recordingNode) BroadcastTxCommit(ctx context.Context, txb tmtypes.Tx) (*coretypes.ResultBroadcastTxCommit, error) {
	n.txs = append(n.txs, append([]byte(nil), txb...))
	return &coretypes.ResultBroadcastTxCommit{Hash: txb.Hash(), Height: 11}, nil
}

func (n *recordingNode) BroadcastTxSync(ctx context.Context, txb tmtypes.Tx) (*coretypes.ResultBroadcastTx, error) {
	n.txs = append(n.txs, append([]byte(nil), txb...))
	return &coretypes.ResultBroadcastTx{Hash: txb.Hash()}, nil
}

func asciiOnly(s string) bool {
	for i := 0; i < len(s); i++ {
		if s[i] >= 0x80 {
			return false
		}
	}
	return true
}

func genBatch(r *Rng) ([]ethCase, symTable) {
	t := symTables[r.Intn(len(symTables))]
	k := 1 + r.Intn(6)
	if r.Intn(25) == 0 {
		k = 0
	}
	chain := big.NewInt(int64(1 + r.Intn(6000)))
	if r.Intn(10) == 0 {
		chain = genI64ish(r)
	}
	bridge := genAddr(r)
	nonce := int64(r.Intn(100000))
	var cs []ethCase
	for i := 0; i < k; i++ {
		c := genEthCase(r)
		for !asciiOnly(c.sym) {
			c.sym = genSymbol(r, t)
		}
		c.table = t
		c.val = nil // the validator comes from the keyring
		c.chain = chain
		c.bridge = bridge
		if r.Intn(12) == 0 {
			c.chain = big.NewInt(int64(1 + r.Intn(6000))) // (not realistic: one relayer watches one chain)
		}
		// nonces: the bridge's counter — increasing; sometimes repeated or outside the envelope
		switch r.Intn(12) {
		case 0:
			// keep genEthCase's boundary value
		case 1:
			c.nonce = big.NewInt(nonce) // repeated
		default:
			nonce += int64(1 + r.Intn(3))
			c.nonce = big.NewInt(nonce)
		}
		if r.Intn(4) != 0 && c.value.Sign() < 0 {
			c.value.Abs(c.value)
		}
		if r.Intn(3) != 0 {
			c.ty = int32(1 + r.Intn(2))
		}
		// most events well-formed; malformed ones land at every position
		if r.Intn(4) != 0 {
			c.to = []byte(sdk.AccAddress(genBytes(r, 20)).String())
		}
		if c.value.BitLen() > 256 && r.Intn(4) != 0 {
			c.value = r.Amount(256)
		}
		cs = append(cs, c)
	}
	if k >= 2 && r.Intn(3) == 0 {
		// a malformed event at a chosen position (first / middle / last)
		pos := []int{0, k / 2, k - 1}[r.Intn(3)]
		switch r.Intn(3) {
		case 0:
			cs[pos].to = []byte("not-a-bech32-address")
		case 1:
			cs[pos].to = nil
		case 2:
			cs[pos].ty, cs[pos].sym = 2, "ETH"
			cs[pos].token = common.HexToAddress("0x1000000000000000000000000000000000000001")
		}
	}
	return cs, t
}

func (c ethCase) batchTokens() string {
	todec := "ERR"
	if a, err := sdk.AccAddressFromBech32(string(c.to)); err == nil {
		todec = hx(a)
	}
	return fmt.Sprintf("%s %s %s %s %s %s %d %s %s %s", hx(c.to), todec, hxs(c.sym), c.chain, c.value, c.nonce, c.ty,
		addrHex(c.bridge), addrHex(c.sender), addrHex(c.token))
}

func init() {
	families["relaybatch"] = func(rng *Rng, n int, out *Out, replay string) {
		log.SetOutput(io.Discard)
		enc := sifapp.MakeTestEncodingConfig()
		kr, info, err := relayer.NewKeybase("val", childMnemonic, "")
		if err != nil {
			panic(err)
		}
		node := &recordingNode{from: info.GetAddress()}
		cliCtx := client.Context{}.
			WithCodec(enc.Marshaler).
			WithInterfaceRegistry(enc.InterfaceRegistry).
			WithTxConfig(enc.TxConfig).
			WithLegacyAmino(enc.Amino).
			WithAccountRetriever(authtypes.AccountRetriever{}).
			WithBroadcastMode(flags.BroadcastBlock).
			WithClient(node).
			WithChainID("sifchain-verif").
			WithFromName("val").
			WithFromAddress(info.GetAddress()).
			WithKeyring(kr).
			WithSkipConfirmation(true).
			WithOutput(io.Discard)
		txf := tx.Factory{}.
			WithKeybase(kr).
			WithTxConfig(enc.TxConfig).
			WithAccountRetriever(authtypes.AccountRetriever{}).
			WithChainID("sifchain-verif").
			WithAccountNumber(7).
			WithSequence(3)
		valAddr := sdk.ValAddress(info.GetAddress())
		sub := relayer.EthereumSub{ValidatorName: "val", ValidatorAddress: valAddr, CliCtx: cliCtx, SugaredLogger: nopLogger}
		decode := enc.TxConfig.TxDecoder()

		for b := 0; b < n; b++ {
			cs, t := genBatch(rng)
			st, err := txs.VerifNewSymbolTranslator(t.json())
			if err != nil {
				panic(err)
			}
			var evs []rtypes.EthereumEvent
			var toks []string
			for _, c := range cs {
				evs = append(evs, c.event())
				toks = append(toks, c.batchTokens())
			}
			head := fmt.Sprintf("%s %s %d", hx(valAddr), t.line(), len(cs))
			if len(toks) > 0 {
				head += " " + strings.Join(toks, " ")
			}
			node.txs = nil
			var claims []ethbridge.EthBridgeClaim
			ans := protect(func() string {
				if err := sub.VerifHandleEthereumEvent(txf, evs, st); err != nil {
					return "err"
				}
				if len(node.txs) == 0 {
					return "none"
				}
				if len(node.txs) != 1 {
					return fmt.Sprintf("broadcasts=%d", len(node.txs))
				}
				dtx, err := decode(node.txs[0])
				if err != nil {
					return "undecodable-tx"
				}
				parts := []string{}
				for _, m := range dtx.GetMsgs() {
					cm, ok := m.(*ethbridge.MsgCreateEthBridgeClaim)
					if !ok {
						return "foreign-message"
					}
					claims = append(claims, *cm.EthBridgeClaim)
					parts = append(parts, strings.Join(claimFields(*cm.EthBridgeClaim), " "))
				}
				return strings.TrimSpace(fmt.Sprintf("ok %d %s", len(parts), strings.Join(parts, " ")))
			})
			cls := strings.SplitN(ans, " ", 2)[0]
			out.Emit("batch "+head, ans, fmt.Sprintf("batch.%s.k%d", cls, len(cs)), cls == "ok" && len(claims) > 0)
			if cls == "ok" {
				out.Hist[fmt.Sprintf("batch.claims.%d", len(claims))]++
				rest := strings.TrimPrefix(ans, "ok ")
				out.Emit(fmt.Sprintf("chk c16.batchcount tag=batch.count %s %s", head, rest), "true", "chk.batchcount", false)
				out.Emit(fmt.Sprintf("chk c16.batchfields tag=batch.claim-fields %s %s", head, rest), "true", "chk.batchfields", false)
				ids := []string{fmt.Sprint(len(claims))}
				for i := range claims {
					oc, err := ethbridge.CreateOracleClaimFromEthClaim(&claims[i])
					if err != nil {
						panic(err)
					}
					ids = append(ids, hxs(oc.Id))
				}
				out.Emit(fmt.Sprintf("chk c16.batchids tag=batch.distinct-ids %s %s", head, strings.Join(ids, " ")), "true", "chk.batchids", false)
			}
		}
	}
}
