package main

// family "relayxlate" (C16): L0 correspondence on the relayer's translation functions
//   txs.EthereumEventToEthBridgeClaim        (directly, and through real ABI packing + logToEvent)
//   txs.BurnLockEventToCosmosMsg             (generated attribute lists: missing / duplicated / reordered / corrupt)
//   txs.AttributesToEthereumBridgeClaim
//   ethbridge CreateOracleClaimFromEthClaim  (prophecy id)
// plus composition with the chain's own lock/burn event emitters (compose.go).
// The harness keeps no oracle: every `chk` line carries what the real code returned and is judged by the
// Lean predicates of Sif/Spec/C16.lean.

import (
	"encoding/hex"
	"fmt"
	"io"
	"log"
	"math/big"
	"sort"
	"strings"
	"unicode/utf8"

	sdk "github.com/cosmos/cosmos-sdk/types"
	"github.com/ethereum/go-ethereum/accounts/abi"
	"github.com/ethereum/go-ethereum/common"
	ctypes "github.com/ethereum/go-ethereum/core/types"
	abci "github.com/tendermint/tendermint/abci/types"
	"go.uber.org/zap"

	"github.com/Sifchain/sifnode/cmd/ebrelayer/contract"
	"github.com/Sifchain/sifnode/cmd/ebrelayer/relayer"
	"github.com/Sifchain/sifnode/cmd/ebrelayer/txs"
	rtypes "github.com/Sifchain/sifnode/cmd/ebrelayer/types"
	ethbridge "github.com/Sifchain/sifnode/x/ethbridge/types"
)

func hx(b []byte) string {
	if len(b) == 0 {
		return "-"
	}
	return hex.EncodeToString(b)
}

func hxs(s string) string { return hx([]byte(s)) }

type symTable struct {
	pairs [][2]string // (sifchain denom, ethereum symbol), sorted by denom, one-to-one
}

func (t symTable) json() []byte {
	if len(t.pairs) == 0 {
		return nil
	}
	var sb strings.Builder
	sb.WriteString("{")
	for i, p := range t.pairs {
		if i > 0 {
			sb.WriteString(",")
		}
		fmt.Fprintf(&sb, "%q:%q", p[0], p[1])
	}
	sb.WriteString("}")
	return []byte(sb.String())
}

func (t symTable) line() string {
	if len(t.pairs) == 0 {
		return "-"
	}
	var parts []string
	for _, p := range t.pairs {
		parts = append(parts, hxs(p[0])+":"+hxs(p[1]))
	}
	return strings.Join(parts, ",")
}

var symTables = []symTable{
	{},
	{pairs: [][2]string{{"ibc/FEEDFACEFEEDFACEFEEDFACEFEEDFACEFEEDFACEFEEDFACEFEEDFACEFEEDFACE", "Face"}}},
	{pairs: [][2]string{{"cusdc", "USDC"}, {"ibc/27394FB092D2ECCD56123C74F36E4C1F926001CEADA9CA97EA622B25F41E5EB2", "ATOM"}, {"xcy", "y"}}},
}

var asciiLetters = "abcdefghijklmnopqrstuvwxyzABCDEFGHIJKLMNOPQRSTUVWXYZ0123456789"

// genSymbol: symbols of any case containing the prefix letter anywhere; some non-ASCII / invalid UTF-8.
func genSymbol(r *Rng, t symTable) string {
	switch r.Intn(14) {
	case 0:
		return []string{"eth", "ETH", "Eth", "eTH", "ceth", "CETH", "cEth"}[r.Intn(7)]
	case 1:
		return []string{"usdc", "xcy", "c", "cc", "ccc", "", "C", "cusdc", "USDC", "rowan", "crowan", "abc", "acb", "cab"}[r.Intn(14)]
	case 2:
		if len(t.pairs) > 0 {
			p := t.pairs[r.Intn(len(t.pairs))]
			return p[r.Intn(2)]
		}
		return "Face"
	case 4, 5:
		// whitespace-padded and otherwise odd texts an ERC20 contract may report
		return []string{"ETH ", " ETH", "eth ", " eth", "\tEth\n", "USDT ", " usdt", "\tUsDt\n", "usdt", "USDT", "US DT", "  ", " ", "\n",
			"c eth", "ceth ", " ceth", "Face ", " Face", "a\u00a0", "\u2003x", "x\r\n", "\x00", "a\x00b", "<&>", "\"q\"", "\\"}[r.Intn(27)]
	case 3:
		return []string{"É", "İSTANBUL", "ǅ", "ÀB", "cÉ", "\xff\xfe", "a\x80B", "Σ", "ΑΣ"}[r.Intn(9)]
	default:
		n := 1 + r.Intn(8)
		b := make([]byte, n)
		for i := range b {
			if r.Intn(4) == 0 {
				b[i] = "cC"[r.Intn(2)]
			} else {
				b[i] = asciiLetters[r.Intn(len(asciiLetters))]
			}
		}
		return string(b)
	}
}

func genAddr(r *Rng) common.Address {
	var a common.Address
	switch r.Intn(8) {
	case 0:
		return a // null address
	case 1:
		a[19] = byte(1 + r.Intn(255))
		return a
	case 2:
		a[0] = byte(1 + r.Intn(255))
		return a
	default:
		for i := range a {
			a[i] = byte(r.U64())
		}
		return a
	}
}

func addrHex(a common.Address) string { return hex.EncodeToString(a[:]) }

func genBytes(r *Rng, n int) []byte {
	b := make([]byte, n)
	for i := range b {
		b[i] = byte(r.U64())
	}
	return b
}

// genRecipient: mostly a valid bech32 account address; otherwise malformed in various ways.
func genRecipient(r *Rng) []byte {
	good := sdk.AccAddress(genBytes(r, []int{20, 20, 20, 32, 1, 255}[r.Intn(6)])).String()
	switch r.Intn(30) {
	case 0:
		return []byte(strings.ToUpper(good)) // valid per bech32, other letter case
	case 1:
		b := []byte(good)
		i := r.Intn(len(b))
		b[i] = byte(strings.ToUpper(string(b[i]))[0]) // possibly mixed case
		return b
	case 2:
		b := []byte(good)
		i := len(b) - 1 - r.Intn(6)
		if b[i] == 'q' {
			b[i] = 'p'
		} else {
			b[i] = 'q'
		} // checksum broken
		return b
	case 3:
		return []byte(good[:len(good)-1-r.Intn(5)])
	case 4:
		return []byte(sdk.ValAddress(genBytes(r, 20)).String()) // wrong prefix
	case 5:
		return nil
	case 6:
		return genBytes(r, 1+r.Intn(40))
	case 7:
		return []byte(" " + good)
	case 8:
		return []byte("   ")
	default:
		return []byte(good)
	}
}

var two = big.NewInt(2)

func pow2(k uint) *big.Int { return new(big.Int).Lsh(big.NewInt(1), k) }

// genI64ish: chain ids / nonces: mostly small, with the narrowing boundaries
func genI64ish(r *Rng) *big.Int {
	switch r.Intn(12) {
	case 0:
		return new(big.Int).Sub(pow2(63), big.NewInt(1))
	case 1:
		return pow2(63)
	case 2:
		return new(big.Int).Add(pow2(64), big.NewInt(int64(r.Intn(1000))))
	case 3:
		return new(big.Int).Add(pow2(63), big.NewInt(int64(1+r.Intn(1000))))
	case 4:
		return r.BigBits(1 + r.Intn(255))
	case 5:
		return big.NewInt(0)
	case 6:
		return new(big.Int).Neg(r.BigBits(1 + r.Intn(70)))
	case 7:
		return new(big.Int).Sub(pow2(64), big.NewInt(int64(1+r.Intn(3))))
	default:
		return r.BigBits(1 + r.Intn(62))
	}
}

func genValue(r *Rng) *big.Int {
	switch r.Intn(12) {
	case 0:
		return new(big.Int).Sub(pow2(256), big.NewInt(1))
	case 1:
		return pow2(256)
	case 2:
		return big.NewInt(0)
	case 3:
		return new(big.Int).Add(pow2(256), r.BigBits(1+r.Intn(40)))
	case 4:
		return new(big.Int).Neg(r.Amount(200))
	default:
		return r.Amount(256)
	}
}

type ethCase struct {
	val                   []byte
	to                    []byte
	sym                   string
	chain, value, nonce   *big.Int
	ty                    int32
	bridge, sender, token common.Address
	table                 symTable
}

func (c ethCase) args() string {
	todec := "ERR"
	if a, err := sdk.AccAddressFromBech32(string(c.to)); err == nil {
		todec = hx(a)
	}
	// strings.ToLower is an environment value for the model on non-ASCII input (used there only then)
	symlow := strings.ToLower(c.sym)
	return fmt.Sprintf("%s %s %s %s %s %s %s %s %d %s %s %s %s", hx(c.val), hx(c.to), todec, hxs(c.sym), hxs(symlow),
		c.chain, c.value, c.nonce, c.ty, addrHex(c.bridge), addrHex(c.sender), addrHex(c.token), c.table.line())
}

func (c ethCase) event() rtypes.EthereumEvent {
	return rtypes.EthereumEvent{To: c.to, Symbol: c.sym, EthereumChainID: new(big.Int).Set(c.chain), Value: new(big.Int).Set(c.value),
		Nonce: new(big.Int).Set(c.nonce), ClaimType: ethbridge.ClaimType(c.ty), BridgeContractAddress: c.bridge, From: c.sender, Token: c.token}
}

// claimFields renders the observed claim: chain bridge nonce sym token sender val recv amount type
func claimFields(c ethbridge.EthBridgeClaim) []string {
	val := "ERR"
	if v, err := sdk.ValAddressFromBech32(c.ValidatorAddress); err == nil {
		val = hx(v)
	} else if c.ValidatorAddress == "" {
		val = "-"
	}
	recv := "ERR"
	if a, err := sdk.AccAddressFromBech32(c.CosmosReceiver); err == nil {
		recv = hx(a)
	}
	return []string{fmt.Sprint(c.EthereumChainId), strings.ToLower(c.BridgeContractAddress), fmt.Sprint(c.Nonce), hxs(c.Symbol),
		strings.ToLower(c.TokenContractAddress), strings.ToLower(c.EthereumSender), val, recv, c.Amount.String(), fmt.Sprint(int32(c.ClaimType))}
}

func claimAnswer(f []string) string {
	return fmt.Sprintf("ok chain=%s bridge=%s nonce=%s sym=%s token=%s sender=%s val=%s recv=%s amount=%s type=%s",
		f[0], f[1], f[2], f[3], f[4], f[5], f[6], f[7], f[8], f[9])
}

var nopLogger = zap.NewNop().Sugar()

func genEthCase(r *Rng) ethCase {
	t := symTables[r.Intn(len(symTables))]
	c := ethCase{val: genBytes(r, 20), to: genRecipient(r), sym: genSymbol(r, t), chain: genI64ish(r), value: genValue(r), nonce: genI64ish(r),
		bridge: genAddr(r), sender: genAddr(r), token: genAddr(r), table: t}
	switch r.Intn(10) {
	case 0:
		c.ty = 0
	case 1:
		c.ty = 3
	case 2, 3, 4, 5:
		c.ty = 1
	default:
		c.ty = 2
	}
	if c.ty == 2 && strings.EqualFold(c.sym, "eth") && r.Bool() {
		c.token = common.Address{}
	}
	return c
}

func runEth(c ethCase, out *Out, viaLog bool, bankABI abi.ABI) {
	st, err := txs.VerifNewSymbolTranslator(c.table.json())
	if err != nil {
		panic(err)
	}
	op := "eth2claim"
	if viaLog {
		op = "log2claim"
	}
	var fields []string
	var relayed *ethbridge.EthBridgeClaim
	ans := protect(func() string {
		ev := c.event()
		if viaLog {
			name := "LogLock"
			if c.ty == 1 {
				name = "LogBurn"
			}
			e := bankABI.Events[name]
			data, err := e.Inputs.Pack(c.sender, c.to, c.token, c.sym, c.value, c.nonce)
			if err != nil {
				panic(err)
			}
			sub := relayer.EthereumSub{SugaredLogger: nopLogger}
			var isBurnLock bool
			ev, isBurnLock, err = sub.VerifLogToEvent(new(big.Int).Set(c.chain), c.bridge, bankABI, ctypes.Log{Topics: []common.Hash{e.ID}, Data: data})
			if err != nil || !isBurnLock {
				return "log-not-translated"
			}
		}
		claim, err := txs.EthereumEventToEthBridgeClaim(sdk.ValAddress(c.val), ev, st, nopLogger)
		if err != nil {
			return "err"
		}
		relayed = &claim
		fields = claimFields(claim)
		return claimAnswer(fields)
	})
	cls := 0
	switch ans {
	case "err":
		cls = 1
	case "panic":
		cls = 2
	case "log-not-translated":
		cls = 3
	}
	out.Emit(op+" "+c.args(), ans, fmt.Sprintf("%s.%d.t%d", op, cls, c.ty), cls == 0)
	out.Emit(fmt.Sprintf("chk c16.ethverdict tag=parser.%s.verdict %s %d", op, c.args(), cls), "true", "chk.ethverdict", false)
	if cls == 0 {
		out.Emit(fmt.Sprintf("chk c16.claim tag=parser.%s.fields %s %s", op, c.args(), strings.Join(fields, " ")), "true", "chk.claim", false)
	}
	if cls == 0 && !viaLog && relayed != nil && utf8.ValidString(relayed.Symbol) {
		// the content the chain derives from the relayed claim, read back the way the chain reads it
		// (JSON replaces invalid UTF-8, so the codec is only a bijection on valid texts)
		kf, _ := contentOf(relayed)
		cans := "err"
		if kf != nil {
			cans = fmt.Sprintf("ok recv=%s amount=%s sym=%s token=%s type=%s", kf[0], kf[1], kf[2], kf[3], kf[4])
		}
		out.Emit("content "+c.args(), cans, "content."+strings.SplitN(cans, " ", 2)[0], kf != nil)
		if kf != nil {
			out.Emit(fmt.Sprintf("chk c16.content tag=content.fields %s %s", c.args(), strings.Join(kf, " ")), "true", "chk.content", false)
		}
	}
}

// contentOf: CreateOracleClaimFromEthClaim (what the validators agree on) and the claim the chain reads back from
// that text with CreateEthClaimFromOracleString — fields recv amount sym token type — plus the content text.
func contentOf(claim *ethbridge.EthBridgeClaim) (fields []string, text string) {
	defer func() {
		if r := recover(); r != nil {
			fields = nil
		}
	}()
	oc, err := ethbridge.CreateOracleClaimFromEthClaim(claim)
	if err != nil {
		return nil, ""
	}
	val, _ := sdk.ValAddressFromBech32(claim.ValidatorAddress)
	back, err := ethbridge.CreateEthClaimFromOracleString(claim.EthereumChainId, ethbridge.NewEthereumAddress(claim.BridgeContractAddress),
		claim.Nonce, ethbridge.NewEthereumAddress(claim.EthereumSender), val, oc.Content)
	if err != nil {
		return nil, oc.Content
	}
	recv := "ERR"
	if a, err := sdk.AccAddressFromBech32(back.CosmosReceiver); err == nil {
		recv = hx(a)
	}
	return []string{recv, back.Amount.String(), hxs(back.Symbol), strings.ToLower(back.TokenContractAddress), fmt.Sprint(int32(back.ClaimType))}, oc.Content
}

// runContentPair: two events that differ (mostly) in the symbol text only — padding, letter case, inner blanks —
// and the content texts the chain derives from their relayed claims.
func runContentPair(r *Rng, out *Out) {
	t := symTables[r.Intn(len(symTables))]
	a := genEthCase(r)
	a.table = t
	a.to = []byte(sdk.AccAddress(genBytes(r, 20)).String())
	if a.value.BitLen() > 256 {
		a.value = r.Amount(256)
	}
	if a.ty != 1 && a.ty != 2 {
		a.ty = int32(1 + r.Intn(2))
	}
	base := []string{"usdt", "USDT", "eth", "ETH", "Face", "cusdc", "dai", "x"}[r.Intn(8)]
	variant := func() string {
		switch r.Intn(8) {
		case 0:
			return base + " "
		case 1:
			return " " + base
		case 2:
			return "\t" + base + "\n"
		case 3:
			return strings.ToUpper(base)
		case 4:
			return strings.ToLower(base)
		case 5:
			return base[:1] + " " + base[1:]
		case 6:
			return base + "  "
		default:
			return base
		}
	}
	a.sym = variant()
	b := a
	b.chain, b.value, b.nonce = new(big.Int).Set(a.chain), new(big.Int).Set(a.value), new(big.Int).Set(a.nonce)
	b.sym = variant()
	switch r.Intn(6) {
	case 0:
		b.value = new(big.Int).Add(a.value, big.NewInt(1))
	case 1:
		b.token = genAddr(r)
	case 2:
		b.ty = 3 - a.ty
	}
	st, err := txs.VerifNewSymbolTranslator(t.json())
	if err != nil {
		panic(err)
	}
	texts := make([]string, 2)
	for i, c := range []ethCase{a, b} {
		okc := protect(func() string {
			claim, err := txs.EthereumEventToEthBridgeClaim(sdk.ValAddress(genBytes(r, 20)), c.event(), st, nopLogger)
			if err != nil {
				return "err"
			}
			_, text := contentOf(&claim)
			texts[i] = text
			return "ok"
		})
		if okc != "ok" || texts[i] == "" {
			out.Hist["contentpair.skipped"]++
			return
		}
	}
	out.Emit(fmt.Sprintf("chk c16.contentdistinct tag=content.distinct - %s 2 %s %s %s %s", t.line(), a.batchTokens(), b.batchTokens(), hxs(texts[0]), hxs(texts[1])),
		"true", "chk.contentdistinct", false)
	if texts[0] == texts[1] {
		out.Hist["contentpair.same-text"]++
	} else {
		out.Hist["contentpair.different-text"]++
	}
}

// ---- Sifchain -> Ethereum ----

type attr struct{ k, v string }

func attrsLine(as []attr) string {
	if len(as) == 0 {
		return "-"
	}
	var parts []string
	for _, a := range as {
		parts = append(parts, hxs(a.k)+":"+hxs(a.v))
	}
	return strings.Join(parts, ",")
}

func toABCI(as []attr) []abci.EventAttribute {
	var res []abci.EventAttribute
	for _, a := range as {
		res = append(res, abci.EventAttribute{Key: []byte(a.k), Value: []byte(a.v)})
	}
	return res
}

func genHexReceiver(r *Rng) string {
	a := genAddr(r)
	switch r.Intn(24) {
	case 0:
		return addrHex(a) // no prefix
	case 1:
		return "0X" + strings.ToUpper(addrHex(a))
	case 2:
		return a.Hex()[:41]
	case 3:
		return a.Hex() + "0"
	case 4:
		return "0x" + strings.Replace(addrHex(a), addrHex(a)[5:6], "g", 1)
	case 5:
		return ""
	case 6:
		return "0x"
	case 7:
		return strings.ToLower(a.Hex())
	case 8:
		return "0x0x" + addrHex(a)[2:]
	default:
		return a.Hex()
	}
}

func genSeqText(r *Rng) string {
	switch r.Intn(28) {
	case 0:
		return []string{"", "+", "-", "12a", "1_0", "0x10", " 1", "1 ", "１", "1e3", "1.0"}[r.Intn(11)]
	case 1:
		return "+" + r.BigBits(1+r.Intn(64)).String()
	case 2:
		return "-" + r.BigBits(1+r.Intn(64)).String()
	case 3:
		return "000" + r.BigBits(1+r.Intn(20)).String()
	case 4:
		return r.BigBits(65 + r.Intn(300)).String()
	case 5:
		return "0"
	default:
		return r.BigBits(1 + r.Intn(40)).String()
	}
}

func genAmountText(r *Rng) string {
	switch r.Intn(28) {
	case 0:
		return []string{"", "+", "-", "0x", "0b", "0o", "_1", "1_", "1__0", "0_", "08", "0x_", "12a", "0b102", "0xg", " 1", "1e3", "0.5", "0x1__2", "0_8"}[r.Intn(20)]
	case 1:
		return []string{"0x10", "0X1f", "010", "0b101", "0B11", "0o17", "0O7", "1_000", "0x_1", "0_7", "00", "0", "-0", "+0", "0xDEAD_beef", "-0x10", "+010", "0_0"}[r.Intn(18)]
	case 2:
		return new(big.Int).Sub(pow2(256), big.NewInt(1)).String()
	case 3:
		return pow2(256).String()
	case 4:
		return "-" + new(big.Int).Sub(pow2(256), big.NewInt(1)).String()
	case 5:
		return "0x" + r.BigBits(1+r.Intn(260)).Text(16)
	case 6:
		return "-" + r.Amount(200).String()
	case 7:
		return "0" + r.BigBits(1+r.Intn(100)).Text(8)
	default:
		return r.Amount(255).String()
	}
}

func genBurnLockSymbol(r *Rng, t symTable) string {
	if r.Intn(3) == 0 {
		return "c" + strings.ToLower(genSymbol(r, t))
	}
	return genSymbol(r, t)
}

func genAttrs(r *Rng, t symTable) []attr {
	sender := sdk.AccAddress(genBytes(r, 20)).String()
	if r.Intn(10) == 0 {
		sender = string(genRecipient(r))
	}
	as := []attr{
		{"ethereum_chain_id", genI64ish(r).String()},
		{"cosmos_sender", sender},
		{"cosmos_sender_sequence", genSeqText(r)},
		{"ethereum_receiver", genHexReceiver(r)},
		{"amount", genAmountText(r)},
		{"symbol", genBurnLockSymbol(r, t)},
		{"ceth_amount", r.Amount(80).String()},
	}
	fresh := func(k string) string {
		switch k {
		case "cosmos_sender":
			return sdk.AccAddress(genBytes(r, 20)).String()
		case "cosmos_sender_sequence":
			return genSeqText(r)
		case "ethereum_receiver":
			return genHexReceiver(r)
		case "amount":
			return genAmountText(r)
		case "symbol":
			return genBurnLockSymbol(r, t)
		}
		return "x"
	}
	// mutations: drop / duplicate / reorder / foreign keys
	for m := r.Intn(4); m > 0; m-- {
		switch r.Intn(6) {
		case 0: // drop one
			if len(as) > 0 {
				i := r.Intn(len(as))
				as = append(append([]attr{}, as[:i]...), as[i+1:]...)
			}
		case 1: // duplicate one with a fresh value, somewhere
			if len(as) > 0 {
				a := as[r.Intn(len(as))]
				a.v = fresh(a.k)
				i := r.Intn(len(as) + 1)
				as = append(append(append([]attr{}, as[:i]...), a), as[i:]...)
			}
		case 2: // duplicate verbatim
			if len(as) > 0 {
				a := as[r.Intn(len(as))]
				as = append(as, a)
			}
		case 3: // shuffle
			for i := len(as) - 1; i > 0; i-- {
				j := r.Intn(i + 1)
				as[i], as[j] = as[j], as[i]
			}
		case 4: // foreign / near-miss key
			as = append(as, attr{[]string{"Symbol", "symbol ", "", "amount2", "cosmos_sender_", "ethereum_sender", "module"}[r.Intn(7)], "zzz"})
		case 5: // drop one and duplicate another (count stays the same)
			if len(as) > 1 {
				i := r.Intn(len(as))
				as = append(append([]attr{}, as[:i]...), as[i+1:]...)
				as = append(as, as[r.Intn(len(as))])
			}
		}
	}
	return as
}

// msgFields renders the observed CosmosMsg: kind sender seq recv sym amount
func msgFields(m rtypes.CosmosMsg) []string {
	sender := "nil"
	if m.CosmosSender != nil {
		sender = hx(m.CosmosSender)
	}
	seq := "nil"
	if m.CosmosSenderSequence != nil {
		seq = m.CosmosSenderSequence.String()
	}
	amount := "nil"
	if !m.Amount.IsNil() {
		amount = m.Amount.String()
	}
	return []string{fmt.Sprint(int(m.ClaimType)), sender, seq, addrHex(m.EthereumReceiver), hxs(m.Symbol), amount}
}

func msgAnswer(f []string) string {
	return fmt.Sprintf("ok kind=%s sender=%s seq=%s recv=%s sym=%s amount=%s", f[0], f[1], f[2], f[3], f[4], f[5])
}

func runCosmos(kind int, as []attr, t symTable, out *Out) {
	st, err := txs.VerifNewSymbolTranslator(t.json())
	if err != nil {
		panic(err)
	}
	var fields []string
	ans := protect(func() string {
		m, err := txs.BurnLockEventToCosmosMsg(rtypes.Event(kind), toABCI(as), st, nopLogger)
		if err != nil {
			return "err"
		}
		fields = msgFields(m)
		return msgAnswer(fields)
	})
	acc := "0"
	if fields != nil {
		acc = "1"
	}
	al := attrsLine(as)
	out.Emit(fmt.Sprintf("cosmos2msg %d %s %s", kind, al, t.line()), ans, fmt.Sprintf("cosmos2msg.k%d.%s", kind, strings.SplitN(ans, " ", 2)[0]), fields != nil)
	out.Emit(fmt.Sprintf("chk c16.complete tag=parser.burnlock.incomplete-accepted %s %s", al, acc), "true", "chk.complete", false)
	if fields != nil {
		out.Emit(fmt.Sprintf("chk c16.msg tag=parser.burnlock.fields %d %s %s %s", kind, al, t.line(), strings.Join(fields, " ")), "true", "chk.msg", false)
		if kind == int(rtypes.MsgBurn) {
			out.Emit(fmt.Sprintf("chk c16.burnsym tag=parser.burn.symbol-prefix %s %s %s", al, acc, fields[4]), "true", "chk.burnsym", false)
		}
	}
}

// ---- create_claim attributes ----

func runAttrsToClaim(r *Rng, out *Out) {
	valGood := sdk.ValAddress(genBytes(r, 20)).String()
	as := []attr{
		{"cosmos_sender", valGood},
		{"ethereum_sender", genHexReceiver(r)},
		{"ethereum_sender_nonce", genAmountText(r)},
		{"cosmos_receiver", sdk.AccAddress(genBytes(r, 20)).String()},
		{"amount", genAmountText(r)},
	}
	for m := r.Intn(3); m > 0; m-- {
		switch r.Intn(4) {
		case 0:
			i := r.Intn(len(as))
			as = append(append([]attr{}, as[:i]...), as[i+1:]...)
		case 1:
			as = append(as, attr{"cosmos_sender", []string{valGood, sdk.AccAddress(genBytes(r, 20)).String(), "junk", "", sdk.ValAddress(genBytes(r, 20)).String()}[r.Intn(5)]})
		case 2:
			as = append(as, attr{"ethereum_sender", genHexReceiver(r)})
		case 3:
			as = append(as, attr{"ethereum_sender_nonce", genAmountText(r)})
		}
		if len(as) == 0 {
			break
		}
	}
	// environment: what sdk.ValAddressFromBech32 answers for each cosmos_sender text
	decs := map[string]string{}
	for _, a := range as {
		if a.k == "cosmos_sender" {
			d := "ERR"
			if v, err := sdk.ValAddressFromBech32(a.v); err == nil {
				d = hx(v)
			}
			decs[hxs(a.v)] = d
		}
	}
	var keys []string
	for k := range decs {
		keys = append(keys, k)
	}
	sort.Strings(keys)
	var parts []string
	for _, k := range keys {
		parts = append(parts, k+":"+decs[k])
	}
	dl := "-"
	if len(parts) > 0 {
		dl = strings.Join(parts, ",")
	}
	ans := protect(func() string {
		c, err := txs.AttributesToEthereumBridgeClaim(toABCI(as))
		if err != nil {
			return "err"
		}
		cs := "nil"
		if c.CosmosSender != nil {
			cs = hx(c.CosmosSender)
		}
		n := "nil"
		if !c.Nonce.IsNil() {
			n = c.Nonce.String()
		}
		return fmt.Sprintf("ok ethsender=%s cosmossender=%s nonce=%s", addrHex(c.EthereumSender), cs, n)
	})
	out.Emit(fmt.Sprintf("attrs2claim %s %s", attrsLine(as), dl), ans, "attrs2claim."+strings.SplitN(ans, " ", 2)[0], strings.HasPrefix(ans, "ok"))
}

// ---- prophecy id ----

func oracleID(chain, nonce int64, sender string) string {
	c, err := ethbridge.CreateOracleClaimFromEthClaim(&ethbridge.EthBridgeClaim{EthereumChainId: chain, Nonce: nonce, EthereumSender: sender,
		CosmosReceiver: sdk.AccAddress(make([]byte, 20)).String(), Amount: sdk.NewInt(1)})
	if err != nil {
		panic(err)
	}
	return c.Id
}

func genI64(r *Rng) int64 {
	switch r.Intn(8) {
	case 0:
		return int64(r.Intn(130))
	case 1:
		return -int64(r.Intn(130))
	case 2:
		return int64(r.U64() >> 1)
	case 3:
		return int64(r.U64())
	default:
		return int64(r.BigBits(1 + r.Intn(40)).Int64())
	}
}

func runClaimID(r *Rng, out *Out) {
	chain := genI64(r)
	if r.Intn(3) > 0 {
		chain = int64(r.Intn(40))
	}
	n1 := genI64(r)
	s1 := genAddr(r).Hex()
	var n2 int64
	s2 := s1
	switch r.Intn(5) {
	case 0: // digit-boundary neighbours: nonce n1*10+d
		n2 = n1*10 + int64(r.Intn(10))
	case 1:
		n2 = n1 / 10
	case 2:
		n2 = n1
		s2 = genAddr(r).Hex()
	case 3:
		n2 = n1
	default:
		n2 = genI64(r)
		if r.Bool() {
			s2 = genAddr(r).Hex()
		}
	}
	id1 := protect(func() string { return hxs(oracleID(chain, n1, s1)) })
	id2 := protect(func() string { return hxs(oracleID(chain, n2, s2)) })
	out.Emit(fmt.Sprintf("claimid %d %d %s", chain, n1, hxs(s1)), id1, "claimid", true)
	out.Emit(fmt.Sprintf("claimid %d %d %s", chain, n2, hxs(s2)), id2, "claimid", true)
	out.Emit(fmt.Sprintf("chk c16.idinj tag=claimid.collision %d %d %s %d %s %s %s", chain, n1, hxs(s1), n2, hxs(s2), id1, id2), "true", "chk.idinj", false)
}

func init() {
	families["relayxlate"] = func(rng *Rng, n int, out *Out, replay string) {
		log.SetOutput(io.Discard) // parser.go logs through the standard logger
		bankABI := contract.LoadABI(txs.BridgeBank)
		initCompose()
		// directed cases first (the documented F6 inputs and the shapes tests never use)
		for _, sym := range []string{"ceth", "xcy", "usdc", "c", "cc", "eth", "", "Ceth"} {
			for kind := 1; kind <= 2; kind++ {
				a := sdk.AccAddress(make([]byte, 20)).String()
				runCosmos(kind, []attr{{"cosmos_sender", a}, {"cosmos_sender_sequence", "7"}, {"ethereum_receiver", "0x7B95B6EC7EbD73572298cEf32Bb54FA408207359"},
					{"amount", "5"}, {"symbol", sym}}, symTables[0], out)
			}
		}
		runCosmos(2, []attr{{"symbol", "a"}, {"symbol", "b"}, {"symbol", "c"}, {"symbol", "d"}, {"symbol", "e"}}, symTables[0], out)
		for k := 0; k < n; k++ {
			switch k % 8 {
			case 0, 1:
				runEth(genEthCase(rng), out, false, bankABI)
			case 2:
				c := genEthCase(rng)
				if c.ty != 1 && c.ty != 2 {
					c.ty = int32(1 + rng.Intn(2))
				}
				c.value.Abs(c.value)
				c.nonce.Abs(c.nonce)
				if c.value.BitLen() > 256 {
					c.value = rng.Amount(256)
				}
				runEth(c, out, true, bankABI)
			case 3, 4:
				t := symTables[rng.Intn(len(symTables))]
				runCosmos(1+rng.Intn(2), genAttrs(rng, t), t, out)
			case 5:
				switch rng.Intn(3) {
				case 0:
					runClaimID(rng, out)
				case 1:
					runAttrsToClaim(rng, out)
				default:
					runContentPair(rng, out)
				}
			case 6:
				t := symTables[rng.Intn(len(symTables))]
				kind := 1 + rng.Intn(3)
				if rng.Intn(8) > 0 {
					kind = 1 + rng.Intn(2)
				}
				runCosmos(kind, genAttrs(rng, t), t, out)
			case 7:
				runCompose(rng, out)
			}
		}
	}
}
