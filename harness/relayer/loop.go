package main

// family "relayloop" (C17, L3): the REAL `EthereumSub.Start` goroutine runs in a child process against
//   * an in-process fake Ethereum JSON-RPC node over websocket (geth rpc.Server behind httptest):
//     net_version, eth_getBlockByNumber, eth_call (registry lookup), eth_getLogs, eth_subscribe newHeads
//   * an in-process fake Tendermint rpcclient.Client injected into client.Context: account query and
//     broadcast_tx_commit (claims are decoded from the signed transaction the relayer built)
//   * a real LevelDB directory that survives the child.
// A script (headers with outcome done / query failure / crash at one of six points; crash while idle) is
// played reactively: the fake endpoints realise the outcome, a crash is os.Exit of the whole child at the
// named point, and the parent restarts a new child on the same LevelDB directory with the rest of the script.
// Observations (header deliveries as logged by the loop itself, eth_getLogs ranges, claims received, LevelDB
// writes, restarts with the cursor read back) form the raw trace.  The Lean driver prints the model's trace
// for the same script; `chk` lines judge the observed trace with Spec.C17.traceOK / gapFree.

import (
	"context"
	"encoding/hex"
	"encoding/json"
	"fmt"
	"io"
	"math/big"
	"net/http/httptest"
	"os"
	"os/exec"
	"path/filepath"
	"sort"
	"strings"
	"sync"
	"sync/atomic"
	"syscall"
	"time"

	"github.com/cosmos/cosmos-sdk/client"
	"github.com/cosmos/cosmos-sdk/client/flags"
	"github.com/cosmos/cosmos-sdk/client/tx"
	codectypes "github.com/cosmos/cosmos-sdk/codec/types"
	sdk "github.com/cosmos/cosmos-sdk/types"
	authtypes "github.com/cosmos/cosmos-sdk/x/auth/types"
	"github.com/ethereum/go-ethereum/common"
	"github.com/ethereum/go-ethereum/common/hexutil"
	ctypes "github.com/ethereum/go-ethereum/core/types"
	"github.com/ethereum/go-ethereum/rpc"
	"github.com/syndtr/goleveldb/leveldb"
	"github.com/syndtr/goleveldb/leveldb/storage"
	abci "github.com/tendermint/tendermint/abci/types"
	tmbytes "github.com/tendermint/tendermint/libs/bytes"
	rpcclient "github.com/tendermint/tendermint/rpc/client"
	coretypes "github.com/tendermint/tendermint/rpc/core/types"
	tmtypes "github.com/tendermint/tendermint/types"
	"go.uber.org/zap"
	"go.uber.org/zap/zapcore"

	sifapp "github.com/Sifchain/sifnode/app"
	"github.com/Sifchain/sifnode/cmd/ebrelayer/contract"
	"github.com/Sifchain/sifnode/cmd/ebrelayer/relayer"
	"github.com/Sifchain/sifnode/cmd/ebrelayer/txs"
	ethbridge "github.com/Sifchain/sifnode/x/ethbridge/types"
)

// ---- script ----

type loopInput struct {
	Kind string `json:"k"` // "h" header, "x" crash while idle
	N    int64  `json:"n"`
	Out  string `json:"o"` // "d" done, "f" query failure, crash points "c0".."c5", "b<k>" on the k-th broadcast, "a<k>" after it, "w<k>" after the k-th cursor write
	M    string `json:"m"` // the model input this corresponds to for a loop with one broadcast and one write per iteration
}

// logSpec: one log of one Ethereum transaction.  The receipt of transaction Tx holds all logs with that Tx, in order.
type logSpec struct {
	Block   int64  `json:"b"`
	Tx      int64  `json:"tx"`
	Foreign bool   `json:"f"` // emitted by another contract than the bridge bank (never returned by the address-filtered eth_getLogs)
	Topic   int    `json:"t"` // 0 LogLock, 1 LogBurn, 2 some other event
	From    string `json:"from"`
	To      string `json:"to"` // hex of the recipient bytes
	Token   string `json:"token"`
	Symbol  string `json:"sym"`
	Value   string `json:"value"`
	Nonce   string `json:"nonce"`
}

func (i loopInput) String() string {
	if i.Kind == "x" {
		return "x"
	}
	return fmt.Sprintf("h%d:%s", i.N, i.mo())
}

func (i loopInput) mo() string {
	if i.M != "" {
		return i.M
	}
	return i.Out
}

// crashK parses "b3" / "a2" / "w1" → (kind, k); legacy names: c2 = b1, c3 = a1 (c4 = a1 with a longer wait)
func crashK(out string) (byte, int) {
	switch out {
	case "c2":
		return 'b', 1
	case "c3", "c4":
		return 'a', 1
	}
	if len(out) >= 2 && (out[0] == 'b' || out[0] == 'a' || out[0] == 'w') {
		k := 0
		fmt.Sscanf(out[1:], "%d", &k)
		return out[0], k
	}
	return 0, 0
}

type loopSpec struct {
	T      int64       `json:"t"`
	DBDir  string      `json:"dbdir"`
	Log    string      `json:"log"`
	Place  [][2]int64  `json:"place"` // (nonce, block), every emitted bridge event, in log order
	Bad    [][2]int64  `json:"bad"`   // (nonce, kind): events of Place the translator refuses (malformed but emittable)
	Inputs []loopInput `json:"inputs"`
	Start  int         `json:"start"` // index of the first input this child plays
	SlowMs int         `json:"slowms"` // how long a "slow" log query is held back
	Logs   []logSpec   `json:"logs"`   // explicit transactions/logs (family relaylogs); if set, Place is not used
	Full   bool        `json:"full"`   // record the full content of every broadcast claim ("F" lines)
}

// placeLine: `nonce@block` for a good event, `nonce!block` for an unconvertible one (ignored by the judge: the
// property demands the GOOD confirmed events; an unconvertible one may be skipped, never its neighbours)
func placeLine(p [][2]int64, bad [][2]int64) string {
	if len(p) == 0 {
		return "-"
	}
	isBad := map[int64]bool{}
	for _, b := range bad {
		isBad[b[0]] = true
	}
	var parts []string
	for _, x := range p {
		if isBad[x[0]] {
			parts = append(parts, fmt.Sprintf("%d!%d", x[0], x[1]))
		} else {
			parts = append(parts, fmt.Sprintf("%d@%d", x[0], x[1]))
		}
	}
	return strings.Join(parts, ",")
}

func inputsLine(in []loopInput) string {
	var parts []string
	for _, x := range in {
		parts = append(parts, x.String())
	}
	return strings.Join(parts, ",")
}

// ---- child: fake Ethereum node ----

type childState struct {
	mu       sync.Mutex
	spec     loopSpec
	logf     *os.File
	db       *leveldb.DB
	journal  *int64 // number of journal writes seen by the observing storage wrapper
	lastIO   int64
	putsIter int // cursor writes observed since the header of this iteration
	stash    []string
	lastFull string // full content of the claims of the last broadcast
	bank     common.Address
	registry common.Address
	events   chan string        // loop observations: "getlogs lo hi", "account", "broadcast n1,n2", "log <message>"
	reply    chan string        // harness decision for the pending request: "ok", "fail", "exit"
	notify   func(*ctypes.Header) // push a header to the subscriber
	subReady chan struct{}
}

func (c *childState) record(line string) {
	fmt.Fprintln(c.logf, line)
	c.logf.Sync()
}

func (c *childState) die(idx int) {
	c.record(fmt.Sprintf("X %d", idx))
	os.Exit(3)
}

// obsStorage wraps goleveldb's file storage and counts writes to journal files: every DB.Put appends one
// record to the journal, background compactions never do.  (The relayer gets the ordinary *leveldb.DB.)
type obsStorage struct {
	storage.Storage
	n *int64
}

type obsWriter struct {
	storage.Writer
	n *int64
}

func (w obsWriter) Write(p []byte) (int, error) {
	atomic.AddInt64(w.n, 1)
	return w.Writer.Write(p)
}

func (s obsStorage) Create(fd storage.FileDesc) (storage.Writer, error) {
	w, err := s.Storage.Create(fd)
	if err == nil && fd.Type == storage.TypeJournal {
		return obsWriter{w, s.n}, nil
	}
	return w, err
}

// checkPut: a LevelDB write since the last look?
func (c *childState) checkPut() {
	if n := atomic.LoadInt64(c.journal); n != c.lastIO {
		c.lastIO = n
		v, err := c.db.Get([]byte("ethereumLastProcessedBlock"), nil)
		if err != nil {
			panic(err)
		}
		c.record(fmt.Sprintf("P %s", new(big.Int).SetBytes(v)))
		c.putsIter++
	}
}

type fakeNet struct{ c *childState }

func (n *fakeNet) Version() string { return "5777" }

type fakeEth struct{ c *childState }

func fakeHeader(n int64) *ctypes.Header {
	return &ctypes.Header{Number: big.NewInt(n), Difficulty: big.NewInt(1), Extra: []byte{}, Time: uint64(1600000000 + n)}
}

func (e *fakeEth) GetBlockByNumber(number string, full bool) (*ctypes.Header, error) {
	return fakeHeader(1000), nil
}

type callArgs struct {
	To   *common.Address `json:"to"`
	Data hexutil.Bytes   `json:"data"`
}

// Call answers the registry lookup `bridgeBank()` with the bridge bank address.
func (e *fakeEth) Call(args callArgs, block interface{}) (hexutil.Bytes, error) {
	out := make([]byte, 32)
	copy(out[12:], e.c.bank[:])
	return out, nil
}

func (e *fakeEth) GetCode(addr common.Address, block interface{}) (hexutil.Bytes, error) {
	return hexutil.Bytes{0x60}, nil
}

type filterArg struct {
	FromBlock string      `json:"fromBlock"`
	ToBlock   string      `json:"toBlock"`
	Address   interface{} `json:"address"`
}

func (e *fakeEth) GetLogs(arg filterArg) ([]ctypes.Log, error) {
	lo, err1 := hexutil.DecodeBig(arg.FromBlock)
	hi, err2 := hexutil.DecodeBig(arg.ToBlock)
	if err1 != nil || err2 != nil {
		panic(fmt.Sprint("unexpected filter bounds ", arg))
	}
	e.c.events <- fmt.Sprintf("getlogs %s %s", lo, hi)
	switch <-e.c.reply {
	case "fail":
		return nil, fmt.Errorf("scripted log query failure")
	}
	if len(e.c.spec.Logs) > 0 {
		var logs []ctypes.Log
		for _, l := range e.c.explicitLogs() {
			if l.Address == e.c.bank && int64(l.BlockNumber) >= lo.Int64() && int64(l.BlockNumber) <= hi.Int64() {
				logs = append(logs, l)
			}
		}
		return logs, nil
	}
	logs := e.c.placeLogs(lo.Int64(), hi.Int64())
	// a non-bridge log of the same contract, to exercise the "not burn or lock" path
	logs = append(logs, ctypes.Log{Address: e.c.bank, Topics: []common.Hash{common.BigToHash(big.NewInt(7))}, Data: []byte{}, BlockNumber: uint64(lo.Int64())})
	return logs, nil
}

// placeLogs: the bridge-bank logs of the scripted placement in blocks lo..hi, one transaction per event
func (c *childState) placeLogs(lo, hi int64) []ctypes.Log {
	var logs []ctypes.Log
	bankABI := contract.LoadABI(txs.BridgeBank)
	ev := bankABI.Events["LogLock"]
	badKind := map[int64]int64{}
	for _, b := range c.spec.Bad {
		badKind[b[0]] = b[1] + 1
	}
	for _, p := range c.spec.Place {
		if p[1] < lo || p[1] > hi {
			continue
		}
		var from common.Address
		from[19] = byte(p[0])
		from[0] = 0xaa
		good := sdk.AccAddress(append(make([]byte, 19), byte(p[0]))).String()
		to := []byte(good)
		token, symbol := common.Address{}, "eth"
		// malformed but emittable: BridgeBank.sol checks only prefix and length of the recipient text
		switch badKind[p[0]] {
		case 1: // typo: bech32 checksum does not match
			b := []byte(good)
			if b[len(b)-1] == 'q' {
				b[len(b)-1] = 'p'
			} else {
				b[len(b)-1] = 'q'
			}
			to = b
		case 2: // an operator address pasted as recipient (wrong prefix)
			to = []byte(sdk.ValAddress(append(make([]byte, 19), byte(p[0]))).String())
		case 3: // truncated
			to = []byte(good[:len(good)-3])
		case 4: // empty
			to = []byte{}
		case 5: // "eth" reported by a non-null token contract
			token = common.HexToAddress("0x1000000000000000000000000000000000000001")
		}
		data, err := ev.Inputs.Pack(from, to, token, symbol, big.NewInt(1000+p[0]), big.NewInt(p[0]))
		if err != nil {
			panic(err)
		}
		logs = append(logs, ctypes.Log{Address: c.bank, Topics: []common.Hash{ev.ID}, Data: data, BlockNumber: uint64(p[1]),
			TxHash: common.BigToHash(big.NewInt(p[0])), Index: uint(len(logs))})
	}
	return logs
}

// explicitLogs renders spec.Logs: every log of every transaction, bridge bank's and foreign ones, in chain order.
func (c *childState) explicitLogs() []ctypes.Log {
	bankABI := contract.LoadABI(txs.BridgeBank)
	foreign := common.HexToAddress("0xF0F0F0F0F0F0F0F0F0F0F0F0F0F0F0F0F0F0F0F0")
	var logs []ctypes.Log
	for i, l := range c.spec.Logs {
		addr := c.bank
		if l.Foreign {
			addr = foreign
		}
		lg := ctypes.Log{Address: addr, BlockNumber: uint64(l.Block), TxHash: common.BigToHash(big.NewInt(l.Tx)), Index: uint(i), Data: []byte{}}
		if l.Topic == 2 {
			lg.Topics = []common.Hash{common.BigToHash(big.NewInt(7))}
		} else {
			ev := bankABI.Events[[]string{"LogLock", "LogBurn"}[l.Topic]]
			to, err := hex.DecodeString(l.To)
			if err != nil {
				panic(err)
			}
			value, _ := new(big.Int).SetString(l.Value, 10)
			nonce, _ := new(big.Int).SetString(l.Nonce, 10)
			data, err := ev.Inputs.Pack(common.HexToAddress(l.From), to, common.HexToAddress(l.Token), l.Symbol, value, nonce)
			if err != nil {
				panic(err)
			}
			lg.Topics, lg.Data = []common.Hash{ev.ID}, data
		}
		logs = append(logs, lg)
	}
	return logs
}

// GetTransactionReceipt serves the receipt of a transaction with ALL its logs (the unchanged loop never asks).
func (e *fakeEth) GetTransactionReceipt(hash common.Hash) (*ctypes.Receipt, error) {
	r := &ctypes.Receipt{Status: ctypes.ReceiptStatusSuccessful, TxHash: hash, CumulativeGasUsed: 21000, GasUsed: 21000, Logs: []*ctypes.Log{}}
	all := e.c.explicitLogs()
	if len(e.c.spec.Logs) == 0 {
		all = e.c.placeLogs(0, 1<<62)
		all = append(all, ctypes.Log{Address: e.c.bank, Topics: []common.Hash{common.BigToHash(big.NewInt(7))}, Data: []byte{}})
	}
	for i := range all {
		if all[i].TxHash == hash {
			l := all[i]
			r.Logs = append(r.Logs, &l)
			r.BlockNumber = new(big.Int).SetUint64(l.BlockNumber)
		}
	}
	if len(r.Logs) == 0 {
		return nil, nil // unknown transaction
	}
	return r, nil
}

func (e *fakeEth) NewHeads(ctx context.Context) (*rpc.Subscription, error) {
	notifier, ok := rpc.NotifierFromContext(ctx)
	if !ok {
		return nil, rpc.ErrNotificationsUnsupported
	}
	sub := notifier.CreateSubscription()
	e.c.mu.Lock()
	e.c.notify = func(h *ctypes.Header) { _ = notifier.Notify(sub.ID, h) }
	e.c.mu.Unlock()
	close(e.c.subReady)
	return sub, nil
}

// ---- child: fake Tendermint node ----

type fakeTM struct {
	rpcclient.Client
	c        *childState
	registry codectypes.InterfaceRegistry
	txDecode sdk.TxDecoder
	from     sdk.AccAddress
}

func (f *fakeTM) ABCIQueryWithOptions(ctx context.Context, path string, data tmbytes.HexBytes, opts rpcclient.ABCIQueryOptions) (*coretypes.ResultABCIQuery, error) {
	if path != "/cosmos.auth.v1beta1.Query/Account" {
		return nil, fmt.Errorf("fake node: unexpected query %s", path)
	}
	f.c.events <- "account"
	<-f.c.reply
	acc := authtypes.NewBaseAccount(f.from, nil, 7, 3)
	any, err := codectypes.NewAnyWithValue(acc)
	if err != nil {
		return nil, err
	}
	bz, err := (&authtypes.QueryAccountResponse{Account: any}).Marshal()
	if err != nil {
		return nil, err
	}
	return &coretypes.ResultABCIQuery{Response: abci.ResponseQuery{Code: 0, Value: bz, Height: 10}}, nil
}

func (f *fakeTM) ABCIQuery(ctx context.Context, path string, data tmbytes.HexBytes) (*coretypes.ResultABCIQuery, error) {
	return f.ABCIQueryWithOptions(ctx, path, data, rpcclient.DefaultABCIQueryOptions)
}

func (f *fakeTM) claimsOf(txb tmtypes.Tx) string {
	t, err := f.txDecode(txb)
	if err != nil {
		panic(err)
	}
	var ns, full []string
	for _, m := range t.GetMsgs() {
		cm, ok := m.(*ethbridge.MsgCreateEthBridgeClaim)
		if !ok {
			panic("unexpected message type in relayed tx")
		}
		ns = append(ns, fmt.Sprint(cm.EthBridgeClaim.Nonce))
		full = append(full, strings.Join(claimFields(*cm.EthBridgeClaim), " "))
	}
	f.c.lastFull = strings.TrimSpace(fmt.Sprintf("F %d %s", len(full), strings.Join(full, " ")))
	if len(ns) == 0 {
		return "-"
	}
	return strings.Join(ns, ",")
}

func (f *fakeTM) BroadcastTxCommit(ctx context.Context, txb tmtypes.Tx) (*coretypes.ResultBroadcastTxCommit, error) {
	f.c.events <- "broadcast " + f.claimsOf(txb)
	<-f.c.reply
	return &coretypes.ResultBroadcastTxCommit{Hash: txb.Hash(), Height: 11}, nil
}

func (f *fakeTM) BroadcastTxSync(ctx context.Context, txb tmtypes.Tx) (*coretypes.ResultBroadcastTx, error) {
	f.c.events <- "broadcast " + f.claimsOf(txb)
	<-f.c.reply
	return &coretypes.ResultBroadcastTx{Hash: txb.Hash()}, nil
}

// ---- child: logger that forwards the loop's own log messages ----

type chanCore struct{ c *childState }

func (k chanCore) Enabled(zapcore.Level) bool        { return true }
func (k chanCore) With([]zapcore.Field) zapcore.Core { return k }
func (k chanCore) Check(e zapcore.Entry, ce *zapcore.CheckedEntry) *zapcore.CheckedEntry {
	return ce.AddCore(e, k)
}
func (k chanCore) Write(e zapcore.Entry, fields []zapcore.Field) error {
	switch e.Message {
	case "receive new ethereum header.", "Ending block index negative. Cancelling run.", "failed to get events from bridgebank.", "failed to handle ethereum event.",
		"failed to subscribe ethereum header.", "failed to subscribe new head.", "SetupWebsocketEthClient failed.", "failed to get network ID.":
		k.c.events <- "log " + e.Message
	}
	return nil
}
func (k chanCore) Sync() error { return nil }

const childMnemonic = "abandon abandon abandon abandon abandon abandon abandon abandon abandon abandon abandon about"

// next returns the next observable of the loop (one that arrived while a log query was being held back first)
func (c *childState) next(timeout time.Duration) (string, bool) {
	if len(c.stash) > 0 {
		ev := c.stash[0]
		c.stash = c.stash[1:]
		return ev, true
	}
	select {
	case ev := <-c.events:
		return ev, true
	case <-time.After(timeout):
		return "", false
	}
}

// hold keeps a log query unanswered for d, or until the loop has visibly moved on without the answer
// (a LevelDB write, or any other observable).  Returns true if the loop moved on.
func (c *childState) hold(d time.Duration) bool {
	deadline := time.Now().Add(d)
	for time.Now().Before(deadline) {
		if atomic.LoadInt64(c.journal) != c.lastIO {
			return true
		}
		select {
		case ev := <-c.events:
			c.stash = append(c.stash, ev)
			return true
		case <-time.After(100 * time.Millisecond):
		}
	}
	return false
}

func (c *childState) expect(prefix string, timeout time.Duration) string {
	ev, ok := c.next(timeout)
	if !ok {
		c.record("BAD timeout waiting for " + prefix)
		os.Exit(4)
	}
	c.checkPut() // a cursor write that happened before this observable is recorded before it
	if !strings.HasPrefix(ev, prefix) {
		c.record("BAD expected " + prefix + " got " + ev)
		os.Exit(4)
	}
	return ev
}

func (c *childState) expectAny(timeout time.Duration, prefixes ...string) string {
	ev, ok := c.next(timeout)
	if !ok {
		c.record("BAD timeout waiting for " + strings.Join(prefixes, "|"))
		os.Exit(4)
	}
	c.checkPut()
	for _, p := range prefixes {
		if strings.HasPrefix(ev, p) {
			return ev
		}
	}
	c.record("BAD expected one of " + strings.Join(prefixes, "|") + " got " + ev)
	os.Exit(4)
	return ""
}

func runLoopChild(specPath string) {
	raw, err := os.ReadFile(specPath)
	if err != nil {
		panic(err)
	}
	var spec loopSpec
	if err := json.Unmarshal(raw, &spec); err != nil {
		panic(err)
	}
	os.Setenv("ETHEREUM_PRIVATE_KEY", "289c2857d4598e37fb9647507e47a309d6133539bf21a8b9cb6df88fd5232032")
	logf, err := os.OpenFile(spec.Log, os.O_APPEND|os.O_CREATE|os.O_WRONLY, 0o644)
	if err != nil {
		panic(err)
	}
	c := &childState{spec: spec, logf: logf, events: make(chan string, 64), reply: make(chan string), subReady: make(chan struct{})}
	c.bank = common.HexToAddress("0x30753E4A8aad7F8597332E813735Def5dD395028")
	c.registry = common.HexToAddress("0xf204a4Ef082f5c04bB89F7D5E6568B796096735a")
	stor, err := storage.OpenFile(spec.DBDir, false)
	if err != nil {
		panic(err)
	}
	c.journal = new(int64)
	db, err := leveldb.Open(obsStorage{stor, c.journal}, nil)
	if err != nil {
		panic(err)
	}
	c.db = db
	c.lastIO = atomic.LoadInt64(c.journal) // recovery of the previous journal is over
	// what a starting process reads back
	cur := big.NewInt(0)
	if v, err := db.Get([]byte("ethereumLastProcessedBlock"), nil); err == nil {
		cur.SetBytes(v)
	}
	if spec.Start > 0 {
		c.record(fmt.Sprintf("R %s", cur))
	}

	srv := rpc.NewServer()
	if err := srv.RegisterName("net", &fakeNet{c}); err != nil {
		panic(err)
	}
	if err := srv.RegisterName("eth", &fakeEth{c}); err != nil {
		panic(err)
	}
	hs := httptest.NewServer(srv.WebsocketHandler([]string{"*"}))
	wsURL := "ws" + strings.TrimPrefix(hs.URL, "http")

	enc := sifapp.MakeTestEncodingConfig()
	kr, info, err := relayer.NewKeybase("val", childMnemonic, "")
	if err != nil {
		panic(err)
	}
	tm := &fakeTM{c: c, registry: enc.InterfaceRegistry, txDecode: enc.TxConfig.TxDecoder(), from: info.GetAddress()}
	cliCtx := client.Context{}.
		WithCodec(enc.Marshaler).
		WithInterfaceRegistry(enc.InterfaceRegistry).
		WithTxConfig(enc.TxConfig).
		WithLegacyAmino(enc.Amino).
		WithAccountRetriever(authtypes.AccountRetriever{}).
		WithBroadcastMode(flags.BroadcastBlock).
		WithClient(tm).
		WithChainID("sifchain-verif").
		WithFromName("val").
		WithFromAddress(info.GetAddress()).
		WithKeyring(kr).
		WithSkipConfirmation(true).
		WithOutput(io.Discard)
	txf := tx.Factory{}.
		WithKeybase(kr).
		WithTxConfig(enc.TxConfig).
		WithAccountRetriever(authtypes.AccountRetriever{}).
		WithChainID("sifchain-verif").
		WithAccountNumber(7).
		WithSequence(3)
	logger := zap.New(chanCore{c}).Sugar()
	sub := relayer.NewEthereumSub(cliCtx, "tcp://unused", "val", wsURL, c.registry, sdk.ValAddress(info.GetAddress()), db, logger)
	st2, err := txs.VerifNewSymbolTranslator(nil)
	if err != nil {
		panic(err)
	}
	var wg sync.WaitGroup
	wg.Add(1)
	go sub.Start(txf, &wg, st2)
	go func() {
		wg.Wait()
		c.events <- "stopped" // Start returned: the loop shut itself down (graceful stop)
	}()

	select {
	case <-c.subReady:
	case <-time.After(90 * time.Second):
		c.record("BAD relayer never subscribed")
		os.Exit(4)
	}
	time.Sleep(100 * time.Millisecond) // Start reads the LevelDB cursor right after subscribing

	// sentinel: a header below the confirmation depth; its "negative" log line proves the previous
	// iteration has completely finished (LevelDB written, in-memory cursor assigned)
	barrier := func(timeout time.Duration) {
		c.notify(fakeHeader(0))
		c.expect("log receive new ethereum header.", timeout)
		c.checkPut()
		c.expect("log Ending block index negative", 45*time.Second)
	}
	for idx := spec.Start; idx < len(spec.Inputs); idx++ {
		in := spec.Inputs[idx]
		if in.Kind == "x" {
			c.die(idx)
		}
		c.notify(fakeHeader(in.N))
		c.expect("log receive new ethereum header.", 45*time.Second)
		c.record(fmt.Sprintf("H %d", in.N))
		c.putsIter = 0
		// graceful stop "g<phase><t|i>": SIGTERM / SIGINT to this very process at a phase of the iteration — 0 while the
		// log query is being served, 1 between query and broadcast, 2 while the broadcast is being served, 3 during the
		// loop's sleep.  The loop decides what it still does; when Start has returned the process exits and is restarted
		// on the same LevelDB.  No sentinel for such an iteration: Start returning is the end marker.
		graceful := len(in.Out) == 3 && in.Out[0] == 'g'
		signalled := false
		stop := func() {
			if signalled {
				return
			}
			signalled = true
			sig := syscall.SIGTERM
			if in.Out[2] == 'i' {
				sig = syscall.SIGINT
			}
			if err := syscall.Kill(os.Getpid(), sig); err != nil {
				panic(err)
			}
			time.Sleep(150 * time.Millisecond) // let the runtime deliver it before the loop is unblocked
		}
		if !graceful {
			c.notify(fakeHeader(0))
		}
		// the sentinel header is queued right behind: its log line proves that the iteration for header n is
		// over — whatever path it took (skipped, query failed / retried / unanswered, any number of broadcasts
		// and cursor writes).  No assumption about the confirmation depth or the shape of an iteration.
		// how the successive log queries for this header are answered
		plan := []string{"ok"}
		switch in.Out {
		case "f":
			plan = []string{"fail"}
		case "s":
			plan = []string{"slow-ok"}
		case "sf":
			plan = []string{"slow-fail"}
		case "fs":
			plan = []string{"fail", "slow-ok"}
		}
		ck, kk := crashK(in.Out)
		broadcasts, queries := 0, 0
		stalled := false
		for over := false; !over; {
			ev := c.expectAny(245*time.Second, "getlogs ", "account", "broadcast ", "log ", "stopped")
			if ev == "stopped" {
				if !graceful || !signalled {
					c.record("BAD the loop returned without being asked to")
					os.Exit(4)
				}
				c.die(idx) // Start has returned after the signal: the process ends, the parent restarts it
			}
			if ck == 'w' && c.putsIter >= kk && !strings.HasPrefix(ev, "log ") {
				c.die(idx) // right after the k-th cursor write of this iteration, before anything else happens
			}
			switch {
			case strings.HasPrefix(ev, "getlogs "):
				var lo, hi int64
				fmt.Sscanf(ev, "getlogs %d %d", &lo, &hi)
				queries++
				if in.Out == "c0" && queries == 1 {
					c.die(idx)
				}
				act := "ok"
				if queries <= len(plan) {
					act = plan[queries-1]
				}
				if strings.HasPrefix(act, "slow-") {
					// the node accepts the request and answers late (longer than any deadline a loop might set)
					if c.hold(time.Duration(spec.SlowMs) * time.Millisecond) {
						// the loop went on without the answer: from its side the query delivered no logs
						c.record(fmt.Sprintf("Q %d %d 0", lo, hi))
						c.reply <- "fail"
						continue
					}
					act = strings.TrimPrefix(act, "slow-")
				}
				if act == "fail" {
					c.record(fmt.Sprintf("Q %d %d 0", lo, hi))
					c.reply <- "fail"
					continue
				}
				c.record(fmt.Sprintf("Q %d %d 1", lo, hi))
				if graceful {
					rangeHasEvents := false
					for _, p := range spec.Place {
						if p[1] >= lo && p[1] <= hi {
							rangeHasEvents = true
						}
					}
					if in.Out[1] == '0' || !rangeHasEvents {
						stop() // while the log query is being served (or: nothing will follow in this iteration)
					}
				}
				c.reply <- "ok"
			case ev == "account":
				if graceful && in.Out[1] == '1' {
					stop()
				}
				if in.Out == "za" && !stalled {
					// the sifnode endpoint accepts the request and does not answer.  A loop that waits is answered after
					// 33 s (a late answer is an answer).  A loop that visibly goes on without the answer is left alone for
					// what it does next — the node stays silent — and is killed after its next cursor write (or 25 s).
					stalled = true
					if c.hold(33 * time.Second) {
						for deadline := time.Now().Add(25 * time.Second); time.Now().Before(deadline) && atomic.LoadInt64(c.journal) == c.lastIO; {
							time.Sleep(100 * time.Millisecond)
						}
						c.checkPut()
						c.die(idx)
					}
				}
				if in.Out == "c1" && broadcasts == 0 {
					c.die(idx)
				}
				c.reply <- "ok"
			case strings.HasPrefix(ev, "broadcast "):
				broadcasts++
				if ck == 'b' && broadcasts == kk {
					c.die(idx) // on the k-th broadcast, before it is received
				}
				if graceful && in.Out[1] == '2' {
					stop()
				}
				if spec.Full {
					c.record(c.lastFull)
				}
				if ns := strings.TrimPrefix(ev, "broadcast "); ns != "-" {
					c.record("C " + ns) // (a transaction without claims — every event of the range refused — carries nothing)
				}
				c.reply <- "ok"
				if graceful && in.Out[1] == '3' {
					time.Sleep(time.Second)
					stop()
				}
				if ck == 'a' && broadcasts == kk {
					if in.Out == "c4" {
						time.Sleep(6 * time.Second)
					} else {
						time.Sleep(1500 * time.Millisecond)
					}
					c.checkPut()
					c.die(idx) // after the k-th broadcast, during the loop's sleep, before the next write
				}
			case ev == "log receive new ethereum header.": // the sentinel: the iteration is over
				c.record("H 0")
				c.expect("log Ending block index negative", 45*time.Second)
				over = true
			case strings.HasPrefix(ev, "log Ending block index negative"):
				// header n itself was below the depth and skipped
				if strings.HasPrefix(in.Out, "c") {
					c.die(idx)
				}
				if graceful {
					stop()
				}
			default:
				// other forwarded log lines (a failed query) carry no information the trace needs
			}
		}
		if in.Out == "c5" || (ck == 'w' && c.putsIter >= kk) {
			c.die(idx)
		}
	}
	_ = barrier
	c.record("E")
	os.Exit(0)
}

// ---- parent ----

type loopCase struct {
	p0     int64
	place  [][2]int64
	bad    [][2]int64 // (nonce, kind) of the unconvertible events among place
	inputs []loopInput
	logs   []logSpec // explicit transactions (family relaylogs)
	full   bool
}

// addBadEvents mixes unconvertible events into ranges that hold good ones: right before / after a good event of
// the same block, or in a block next to it (scanned together with it).
func addBadEvents(r *Rng, lc *loopCase) {
	if len(lc.place) == 0 || len(lc.place) > 200 {
		return
	}
	nonce := int64(200)
	k := 1 + r.Intn(3)
	for ; k > 0 && nonce < 250; k-- {
		i := r.Intn(len(lc.place))
		blk := lc.place[i][1]
		at := i
		switch r.Intn(4) {
		case 0: // before the good event, same block
		case 1: // after it, same block
			at = i + 1
		case 2: // next block, if that keeps the log order
			if i+1 == len(lc.place) || lc.place[i+1][1] > blk+1 {
				blk, at = blk+1, i+1
			}
		case 3: // first event of the whole placement, same block as the first good one
			at, blk = 0, lc.place[0][1]
		}
		ev := [2]int64{nonce, blk}
		lc.place = append(lc.place[:at], append([][2]int64{ev}, lc.place[at:]...)...)
		lc.bad = append(lc.bad, [2]int64{nonce, int64(r.Intn(5))})
		nonce++
	}
}

// sentinelised: the child pushes a header 0 after every iteration that reaches the log query and is not
// killed before its end; the script handed to the model contains those headers explicitly.
func (lc loopCase) modelInputs() []loopInput {
	var res []loopInput
	for _, in := range lc.inputs {
		mo := in.mo()
		switch {
		case in.Kind == "h" && mo == "c5":
			// the sentinel is observed before the crash-after-write is executed: h n done, h0, then idle crash
			res = append(res, loopInput{Kind: "h", N: in.N, Out: "d"}, loopInput{Kind: "h", N: 0, Out: "d"}, loopInput{Kind: "x"})
		case in.Kind == "h" && mo == "g":
			// no sentinel for a gracefully stopped iteration: it runs to its end, Start returns, the process is restarted
			res = append(res, loopInput{Kind: "h", N: in.N, Out: "d"}, loopInput{Kind: "x"})
		case in.Kind == "h" && (mo == "d" || mo == "f"):
			res = append(res, loopInput{Kind: "h", N: in.N, Out: mo}, loopInput{Kind: "h", N: 0, Out: "d"})
		default:
			res = append(res, loopInput{Kind: in.Kind, N: in.N, Out: mo})
		}
	}
	return res
}

func runLoopCase(id int, lc loopCase, workdir string) (string, error) {
	dir := filepath.Join(workdir, fmt.Sprintf("case%03d", id))
	os.RemoveAll(dir)
	if err := os.MkdirAll(dir, 0o755); err != nil {
		return "", err
	}
	dbdir := filepath.Join(dir, "relayerdb")
	if lc.p0 > 0 {
		db, err := leveldb.OpenFile(dbdir, nil)
		if err != nil {
			return "", err
		}
		if err := db.Put([]byte("ethereumLastProcessedBlock"), big.NewInt(lc.p0).Bytes(), nil); err != nil {
			return "", err
		}
		db.Close()
	}
	logp := filepath.Join(dir, "obs.log")
	start := 0
	self, err := os.Executable()
	if err != nil {
		return "", err
	}
	for round := 0; round < 40; round++ {
		spec := loopSpec{T: 50, DBDir: dbdir, Log: logp, Place: lc.place, Bad: lc.bad, Inputs: lc.inputs, Start: start, SlowMs: 26000, Logs: lc.logs, Full: lc.full}
		sp := filepath.Join(dir, fmt.Sprintf("spec%d.json", round))
		b, _ := json.Marshal(spec)
		if err := os.WriteFile(sp, b, 0o644); err != nil {
			return "", err
		}
		cmd := exec.Command(self, "relayloopchild", "-replay", sp, "-out", filepath.Join(dir, "childout"))
		outb, err := cmd.CombinedOutput()
		code := 0
		if ee, ok := err.(*exec.ExitError); ok {
			code = ee.ExitCode()
		} else if err != nil {
			return "", err
		}
		obs, _ := os.ReadFile(logp)
		lines := strings.Split(strings.TrimSpace(string(obs)), "\n")
		last := lines[len(lines)-1]
		switch {
		case code == 0 && last == "E":
			return strings.Join(lines, "\n"), nil
		case code == 3 && strings.HasPrefix(last, "X "):
			var at int
			fmt.Sscanf(last, "X %d", &at)
			start = at + 1
		default:
			return "", fmt.Errorf("child failed (exit %d): %s\n%s", code, last, tail(string(outb), 1500))
		}
	}
	return "", fmt.Errorf("too many restarts")
}

func tail(s string, n int) string {
	if len(s) > n {
		return s[len(s)-n:]
	}
	return s
}

// rawTrace turns the child's observation log into the protocol's raw trace string.
func rawTrace(obs string) string {
	var parts []string
	for _, l := range strings.Split(obs, "\n") {
		f := strings.Fields(l)
		if len(f) == 0 {
			continue
		}
		switch f[0] {
		case "H":
			parts = append(parts, "H"+f[1])
		case "Q":
			ok := "-"
			if f[3] == "1" {
				ok = "+"
			}
			parts = append(parts, fmt.Sprintf("Q%s-%s%s", f[1], f[2], ok))
		case "C":
			ns := strings.Split(f[1], ",")
			sort.Slice(ns, func(i, j int) bool {
				a, _ := new(big.Int).SetString(ns[i], 10)
				b, _ := new(big.Int).SetString(ns[j], 10)
				return a != nil && b != nil && a.Cmp(b) < 0
			})
			parts = append(parts, "C"+strings.Join(ns, "."))
		case "P":
			parts = append(parts, "P"+f[1])
		case "R":
			parts = append(parts, "R"+f[1])
		}
	}
	if len(parts) == 0 {
		return "-"
	}
	return strings.Join(parts, ",")
}

var chunkSizes = []int64{1000, 2000, 5000, 10000}

// farDistance: 10^3 .. 10^5 blocks, biased to just beyond multiples of typical query-chunk sizes
func farDistance(r *Rng) int64 {
	switch r.Intn(3) {
	case 0:
		return chunkSizes[r.Intn(len(chunkSizes))] + int64(1+r.Intn(60))
	case 1:
		return chunkSizes[r.Intn(len(chunkSizes))]*int64(1+r.Intn(4)) + int64(1+r.Intn(5))
	default:
		return 1000 + int64(r.Intn(100000))
	}
}

// placeBeyond puts events just beyond cursor + k*chunk (and on the last confirmed block) of a wide range [cur, e]
func placeBeyond(r *Rng, lc *loopCase, nonce *int64, cur, e int64) {
	n := 0
	for _, c := range chunkSizes {
		for _, off := range []int64{1, 0, 2} {
			b := cur + c + off
			if b <= e && b >= 1 && n < 4 && r.Intn(3) != 0 {
				lc.place = append(lc.place, [2]int64{*nonce, b})
				*nonce++
				n++
				break
			}
		}
	}
	if r.Bool() || n == 0 {
		lc.place = append(lc.place, [2]int64{*nonce, e})
		*nonce++
	}
}

// genFarLoopCase: cursor and newest confirmed block far apart — a persisted cursor after long downtime, a header
// gap / burst of thousands of blocks, or a long run of failed log queries while headers keep arriving.
func genFarLoopCase(r *Rng) loopCase {
	var lc loopCase
	nonce := int64(1)
	d := farDistance(r)
	var head int64
	switch r.Intn(3) {
	case 0: // restart after long downtime
		lc.p0 = int64(60 + r.Intn(2000))
		head = lc.p0 + 50 + d
		placeBeyond(r, &lc, &nonce, lc.p0, head-50)
		out := "d"
		if r.Intn(4) == 0 {
			out = []string{"c3", "c2", "c5", "f"}[r.Intn(4)]
		}
		lc.inputs = append(lc.inputs, loopInput{Kind: "h", N: head, Out: out})
		if out != "d" && out != "c5" {
			head += int64(1 + r.Intn(3))
			lc.inputs = append(lc.inputs, loopInput{Kind: "h", N: head, Out: "d"})
		}
	case 1: // header gap / burst
		first := int64(120 + r.Intn(40))
		if r.Bool() {
			lc.p0 = first - 50 - int64(r.Intn(10))
		}
		lc.inputs = append(lc.inputs, loopInput{Kind: "h", N: first, Out: "d"})
		cur := first - 50 + 1
		head = first + d
		placeBeyond(r, &lc, &nonce, cur, head-50)
		lc.inputs = append(lc.inputs, loopInput{Kind: "h", N: head, Out: "d"})
	default: // long run of query failures while the chain advances
		lc.p0 = int64(60 + r.Intn(100))
		head = lc.p0 + 50 + int64(r.Intn(5))
		lc.inputs = append(lc.inputs, loopInput{Kind: "h", N: head, Out: "d"})
		cur := head - 50 + 1
		k := 2 + r.Intn(4)
		for i := 0; i < k; i++ {
			head += d/int64(k) + 1
			lc.inputs = append(lc.inputs, loopInput{Kind: "h", N: head, Out: "f"})
			if r.Intn(4) == 0 {
				lc.inputs = append(lc.inputs, loopInput{Kind: "x"})
			}
		}
		head += int64(1 + r.Intn(3))
		placeBeyond(r, &lc, &nonce, cur, head-50)
		lc.inputs = append(lc.inputs, loopInput{Kind: "h", N: head, Out: "d"})
	}
	// a few ordinary iterations afterwards (the cursor must now sit right behind the confirmed head)
	for k := r.Intn(3); k >= 0; k-- {
		head += int64(1 + r.Intn(4))
		out := "d"
		if r.Intn(6) == 0 {
			out = "c5"
		}
		lc.inputs = append(lc.inputs, loopInput{Kind: "h", N: head, Out: out})
		if r.Intn(5) == 0 {
			lc.inputs = append(lc.inputs, loopInput{Kind: "x"})
		}
	}
	return lc
}

var batchSizes = []int{10, 16, 20, 25, 32, 50}

// genBurstLoopCase: ONE scanned range with 25–70 bridge events, several per block (blocks of 3–6 events and
// some single ones), laid out so that every boundary of a plausible claims-per-transaction size (multiples of
// 10/16/20/25/32/50) falls INSIDE a block; the iteration is killed on / after the k-th broadcast or after the
// k-th cursor write (k = 1..4, whatever the loop under test does per iteration), restarted, and continued.
func genBurstLoopCase(r *Rng) loopCase {
	var lc loopCase
	lc.p0 = int64(1000 + r.Intn(300))
	total := 25 + r.Intn(46)
	boundary := map[int]bool{}
	for _, b := range batchSizes {
		for m := b; m < total; m += b {
			boundary[m] = true
		}
	}
	blk := lc.p0 + int64(r.Intn(4))
	cum := 0
	nonce := int64(1)
	for cum < total {
		size := []int{1, 1, 3, 4, 5, 6, 4, 5}[r.Intn(8)]
		for boundary[cum+size] {
			size++
		}
		if cum+size > total {
			size = total - cum
		}
		for j := 0; j < size; j++ {
			lc.place = append(lc.place, [2]int64{nonce, blk})
			nonce++
		}
		cum += size
		blk += int64(1 + r.Intn(25))
	}
	head := blk + 50 + int64(r.Intn(5))
	out := []string{"d", "b1", "b2", "b2", "b3", "b4", "a1", "a2", "a3", "w1", "w1", "w2", "w3", "c1", "c0"}[r.Intn(15)]
	if r.Intn(4) == 0 {
		// an ordinary iteration before the big range (the range then starts at the in-memory cursor)
		first := lc.p0 + 50 + int64(r.Intn(3))
		lc.inputs = append(lc.inputs, loopInput{Kind: "h", N: first, Out: "d"})
	}
	lc.inputs = append(lc.inputs, loopInput{Kind: "h", N: head, Out: out})
	for k := 1 + r.Intn(2); k > 0; k-- {
		head += int64(1 + r.Intn(3))
		lc.inputs = append(lc.inputs, loopInput{Kind: "h", N: head, Out: "d"})
	}
	if r.Intn(3) == 0 {
		lc.inputs = append(lc.inputs, loopInput{Kind: "x"})
	}
	return lc
}

// genSlowLoopCase: the node accepts an eth_getLogs request and answers it late — the correct logs ("s"), an error
// ("sf"), or an error first and the late answer on a retry if the loop retries ("fs") — for a range that holds
// bridge events.  Short schedules: a held query costs ~26 s of wall time.
func genSlowLoopCase(r *Rng) loopCase {
	var lc loopCase
	if r.Bool() {
		lc.p0 = int64(60 + r.Intn(80))
	}
	head := int64(130 + r.Intn(40))
	if lc.p0 > 0 {
		head = lc.p0 + 50 + int64(r.Intn(8))
	}
	if r.Intn(3) == 0 {
		lc.inputs = append(lc.inputs, loopInput{Kind: "h", N: head, Out: "d"})
		head += int64(2 + r.Intn(6))
	}
	e := head - 50
	lc.place = append(lc.place, [2]int64{1, e - int64(r.Intn(2))})
	if r.Bool() {
		lc.place = append([][2]int64{{2, e - 1}}, lc.place...)
		lc.place[0][0], lc.place[1][0] = 1, 2
	}
	lc.inputs = append(lc.inputs, loopInput{Kind: "h", N: head, Out: []string{"s", "s", "s", "sf", "fs"}[r.Intn(5)]})
	head += int64(1 + r.Intn(3))
	lc.inputs = append(lc.inputs, loopInput{Kind: "h", N: head, Out: "d"})
	if r.Intn(3) == 0 {
		lc.inputs = append(lc.inputs, loopInput{Kind: "x"})
	}
	return lc
}

func genLoopCase(r *Rng) loopCase {
	switch r.Intn(12) {
	case 7:
		return genSlowLoopCase(r)
	case 0, 1, 2, 3:
		return genFarLoopCase(r)
	case 4, 5, 6:
		return genBurstLoopCase(r)
	}
	var lc loopCase
	switch r.Intn(3) {
	case 0:
		lc.p0 = 0
	default:
		lc.p0 = int64(60 + r.Intn(60))
	}
	// the scan advances over blocks base.. ; events placed at range boundaries and inside
	head := int64(110 + r.Intn(30))
	if lc.p0 > 0 {
		head = lc.p0 + 50 + int64(r.Intn(6))
	}
	nonce := int64(1)
	eventful := 0
	nIn := 4 + r.Intn(4)
	for k := 0; k < nIn; k++ {
		e := head - 50
		out := "d"
		// place events for this iteration's prospective range?
		withEv := eventful < 3 && r.Intn(5) < 2
		if withEv {
			eventful++
			for j := 0; j < 1+r.Intn(2); j++ {
				blk := e - int64(r.Intn(3))
				if r.Intn(3) == 0 {
					blk = e // the last confirmed block
				}
				if blk < 1 {
					blk = 1
				}
				lc.place = append(lc.place, [2]int64{nonce, blk})
				nonce++
			}
		}
		switch r.Intn(10) {
		case 0:
			out = "f"
		case 1:
			out = "c0"
		case 2:
			out = "c5"
		case 3, 4:
			if withEv {
				out = []string{"c1", "c2", "c3", "c4"}[r.Intn(4)]
			}
		case 6:
			if withEv && r.Intn(4) == 0 {
				out = "za" // the sifnode endpoint stalls on this iteration's submission
			}
		case 5:
			// graceful stop (SIGTERM / SIGINT) at a phase of the iteration
			out = "g0" + []string{"t", "i"}[r.Intn(2)]
			if withEv {
				out = "g" + []string{"0", "0", "1", "2", "3"}[r.Intn(5)] + []string{"t", "i"}[r.Intn(2)]
			}
		}
		lc.inputs = append(lc.inputs, loopInput{Kind: "h", N: head, Out: out})
		switch r.Intn(8) {
		case 0:
			lc.inputs = append(lc.inputs, loopInput{Kind: "x"})
		case 1:
			lc.inputs = append(lc.inputs, loopInput{Kind: "h", N: int64(r.Intn(50)), Out: "d"}) // below the depth
		case 2:
			lc.inputs = append(lc.inputs, loopInput{Kind: "h", N: head, Out: "d"}) // repeated header
		case 3:
			lc.inputs = append(lc.inputs, loopInput{Kind: "h", N: head - 1 - int64(r.Intn(3)), Out: "d"}) // lower header
		}
		head += int64(1 + r.Intn(4)) // gaps and bursts
	}
	return lc
}

// events whose crash point needs them must really lie in the queried range; the model decides what the
// range is, so scripts are validated by a dry run of the same cursor arithmetic the generator uses to place
// events.  (A script that asks for an impossible crash point makes the child report BAD, which fails the run.)
func fixCrashPoints(lc *loopCase) {
	persisted, mem := lc.p0, lc.p0
	for i := range lc.inputs {
		in := &lc.inputs[i]
		if in.Kind == "x" {
			mem = persisted
			continue
		}
		if in.N < 50 {
			if len(in.Out) == 3 && in.Out[0] == 'g' {
				in.M = "g"
				mem = persisted
			} else if in.Out != "d" && in.Out != "f" {
				in.Out = "c0"
				mem = persisted
			}
			continue
		}
		e := in.N - 50
		m := mem
		if m == 0 {
			m = e
		}
		has := false
		for _, p := range lc.place {
			if p[1] >= m && p[1] <= e {
				has = true
			}
		}
		// the model input: what this directive means for a loop that does ONE broadcast (iff the range has
		// events) and ONE cursor write per iteration; a point that such a loop never reaches = runs to the end
		mo := in.Out
		ck, kk := crashK(in.Out)
		switch {
		case len(in.Out) == 3 && in.Out[0] == 'g':
			mo = "g" // graceful stop: the unchanged loop finishes the iteration, then returns; restart
		case in.Out == "s" || in.Out == "za":
			mo = "d" // a late answer is an answer
		case in.Out == "sf" || in.Out == "fs":
			mo = "f"
		case in.Out == "c1" && !has:
			mo = "d"
		case ck == 'b':
			mo = "d"
			if has && kk == 1 {
				mo = "c2"
			}
		case ck == 'a':
			mo = "d"
			if has && kk == 1 {
				mo = "c3"
			}
		case ck == 'w':
			mo = "d"
			if kk == 1 {
				mo = "c5"
			}
		}
		in.M = mo
		switch mo {
		case "d", "g":
			persisted, mem = e+1, e+1
		case "f":
			mem = m
		case "c5":
			persisted, mem = e+1, e+1
		default:
			mem = persisted
		}
	}
}

func init() {
	families["relayloopchild"] = func(rng *Rng, n int, out *Out, replay string) {
		runLoopChild(replay)
	}
	families["relayloop"] = func(rng *Rng, n int, out *Out, replay string) {
		workdir := filepath.Join(os.TempDir(), fmt.Sprintf("verif-relayloop-%d", os.Getpid()))
		defer os.RemoveAll(workdir)
		cases := make([]loopCase, n)
		// one directed schedule first: fresh relayer, failure, crashes at the submission points, lower head
		for i := range cases {
			cases[i] = genLoopCase(rng)
			if rng.Intn(3) == 0 {
				addBadEvents(rng, &cases[i])
			}
			fixCrashPoints(&cases[i])
		}
		if n > 7 {
			// directed: the sifnode endpoint accepts the account query of the submission of [100,110] (one lock in block 105)
			// and stays silent; a second lock in block 115 follows
			cases[7] = loopCase{p0: 100, place: [][2]int64{{1, 105}, {2, 115}},
				inputs: []loopInput{{Kind: "h", N: 160, Out: "za"}, {Kind: "h", N: 170, Out: "d"}}}
			fixCrashPoints(&cases[7])
		}
		if n > 6 {
			// directed: graceful stops between query and broadcast, while the broadcast is served, during the sleep
			cases[6] = loopCase{p0: 300, place: [][2]int64{{1, 305}, {2, 310}, {3, 315}},
				inputs: []loopInput{{Kind: "h", N: 355, Out: "g1t"}, {Kind: "h", N: 360, Out: "g2i"}, {Kind: "h", N: 365, Out: "g3t"}, {Kind: "h", N: 366, Out: "d"}}}
			fixCrashPoints(&cases[6])
		}
		if n > 5 {
			// directed: SIGTERM while the log query for a range with one lock (block 120) is being served; restart; go on
			cases[5] = loopCase{p0: 100, place: [][2]int64{{1, 120}},
				inputs: []loopInput{{Kind: "h", N: 200, Out: "g0t"}, {Kind: "h", N: 260, Out: "d"}, {Kind: "h", N: 262, Out: "g0i"}}}
			fixCrashPoints(&cases[5])
		}
		if n > 4 {
			// directed: block 1000 holds a good lock (1) and a lock whose recipient has a typo (2), block 1001 a good lock (3)
			cases[4] = loopCase{p0: 990, place: [][2]int64{{1, 1000}, {2, 1000}, {3, 1001}}, bad: [][2]int64{{2, 0}},
				inputs: []loopInput{{Kind: "h", N: 1051, Out: "d"}, {Kind: "h", N: 1052, Out: "d"}, {Kind: "x"}, {Kind: "h", N: 1053, Out: "d"}}}
			fixCrashPoints(&cases[4])
		}
		if n > 0 {
			cases[0] = loopCase{p0: 0, place: [][2]int64{{1, 70}, {2, 75}, {3, 76}, {4, 90}},
				inputs: []loopInput{{Kind: "h", N: 120, Out: "d"}, {Kind: "h", N: 126, Out: "c3"}, {Kind: "h", N: 130, Out: "f"}, {Kind: "h", N: 131, Out: "d"}, {Kind: "h", N: 140, Out: "c5"}, {Kind: "h", N: 139, Out: "d"}}}
			fixCrashPoints(&cases[0])
		}
		if n > 3 {
			// directed: the log query for a range with two bridge events is answered late (correct logs, after 26 s)
			cases[3] = loopCase{p0: 70, place: [][2]int64{{1, 72}, {2, 80}},
				inputs: []loopInput{{Kind: "h", N: 130, Out: "s"}, {Kind: "h", N: 132, Out: "d"}, {Kind: "x"}, {Kind: "h", N: 133, Out: "d"}}}
			fixCrashPoints(&cases[3])
		}
		if n > 2 {
			// directed: 25 events in one range — 18 in blocks 1100..1117, four in block 1200, three in 1300..1302 —
			// kill on the second broadcast of the iteration (if there is one), restart, continue
			var pl [][2]int64
			for i := int64(0); i < 18; i++ {
				pl = append(pl, [2]int64{i + 1, 1100 + i})
			}
			for i := int64(0); i < 4; i++ {
				pl = append(pl, [2]int64{19 + i, 1200})
			}
			for i := int64(0); i < 3; i++ {
				pl = append(pl, [2]int64{23 + i, 1300 + i})
			}
			cases[2] = loopCase{p0: 1001, place: pl, inputs: []loopInput{{Kind: "h", N: 1450, Out: "b2"}, {Kind: "h", N: 1451, Out: "d"}, {Kind: "h", N: 1455, Out: "d"}}}
			fixCrashPoints(&cases[2])
		}
		if n > 1 {
			// directed: persisted cursor 100, first header 12157 blocks later; events just beyond 1000, 5000, 10000 blocks
			cases[1] = loopCase{p0: 100, place: [][2]int64{{1, 1101}, {2, 5101}, {3, 10101}, {4, 12107}},
				inputs: []loopInput{{Kind: "h", N: 12157, Out: "d"}, {Kind: "h", N: 12160, Out: "d"}, {Kind: "x"}, {Kind: "h", N: 12161, Out: "d"}}}
			fixCrashPoints(&cases[1])
		}
		type res struct {
			obs string
			err error
		}
		results := make([]res, n)
		var wg sync.WaitGroup
		sem := make(chan struct{}, 24)
		for i := range cases {
			wg.Add(1)
			go func(i int) {
				defer wg.Done()
				sem <- struct{}{}
				defer func() { <-sem }()
				o, err := runLoopCase(i, cases[i], workdir)
				results[i] = res{o, err}
			}(i)
		}
		wg.Wait()
		for i, lc := range cases {
			if results[i].err != nil {
				fmt.Fprintln(os.Stderr, "relayloop case", i, "failed:", results[i].err)
				os.Exit(1)
			}
			tr := rawTrace(results[i].obs)
			pl := placeLine(lc.place, lc.bad)
			out.Emit(fmt.Sprintf("looprun 50 %d %s %s", lc.p0, pl, inputsLine(lc.modelInputs())), tr, "looprun", true)
			out.Emit(fmt.Sprintf("chk c17.trace tag=loop.trace-admissible 50 %d %s %s", lc.p0, pl, tr), "true", "chk.trace", false)
			out.Emit(fmt.Sprintf("chk c17.gapfree tag=loop.gap 50 %d %s %s", lc.p0, pl, tr), "true", "chk.gapfree", false)
			out.Hist[fmt.Sprintf("inputs.%d", len(lc.inputs))]++
			for _, in := range lc.inputs {
				out.Hist["outcome."+in.Kind+in.Out]++
			}
		}
	}
}

var _ = hex.EncodeToString
