package main

// C16 composition clause: the REAL chain handlers (x/ethbridge msgServer.Lock / Burn, on a real
// SifchainApp keeper set) emit their events; the REAL relayer parser translates them.  Lines:
//   emit <kind> …      the attributes the chain emitted          (model: Relayer.emitAttrs)
//   compose <kind> …   the relayer's parse of those attributes   (model: cosmosToMsg ∘ emitAttrs)
//   chk c16.compose    the parse judged against the original message by Spec.C16.composeOK

import (
	"fmt"
	"math/big"
	"strings"

	sdk "github.com/cosmos/cosmos-sdk/types"
	tmproto "github.com/tendermint/tendermint/proto/tendermint/types"

	sifapp "github.com/Sifchain/sifnode/app"
	"github.com/Sifchain/sifnode/cmd/ebrelayer/txs"
	rtypes "github.com/Sifchain/sifnode/cmd/ebrelayer/types"
	ethbridgekeeper "github.com/Sifchain/sifnode/x/ethbridge/keeper"
	ethbridge "github.com/Sifchain/sifnode/x/ethbridge/types"
)

var (
	composeApp *sifapp.SifchainApp
	composeCtx sdk.Context
)

var peggyTokens = []string{"ceth", "cusdc", "cfoo", "ccc", "ccusdc", "usdc", "xcy", "stake2"}
var nativeTokens = []string{"rowan", "stake", "xyz", "cnative", "ibc/27394FB092D2ECCD56123C74F36E4C1F926001CEADA9CA97EA622B25F41E5EB2", "cusdt"}

func initCompose() {
	if composeApp != nil {
		return
	}
	composeApp = sifapp.Setup(false)
	composeCtx = composeApp.BaseApp.NewContext(false, tmproto.Header{Height: 1})
	for _, t := range peggyTokens {
		composeApp.EthbridgeKeeper.AddPeggyToken(composeCtx, t)
	}
}

func runCompose(r *Rng, out *Out) {
	ctx, _ := composeCtx.CacheContext()
	ctx = ctx.WithEventManager(sdk.NewEventManager())
	app := composeApp
	kind := 1 + r.Intn(2) // 1 burn, 2 lock (relayer types.Event numbering)
	sender := sdk.AccAddress(genBytes(r, 20))
	var seq uint64
	switch r.Intn(5) {
	case 0:
		seq = 0
	case 1:
		seq = r.U64()
	case 2:
		seq = 1<<63 + uint64(r.Intn(100))
	default:
		seq = uint64(r.Intn(100000))
	}
	acct := app.AccountKeeper.NewAccountWithAddress(ctx, sender)
	if err := acct.SetSequence(seq); err != nil {
		panic(err)
	}
	app.AccountKeeper.SetAccount(ctx, acct)

	var symbol string
	if kind == 1 {
		symbol = peggyTokens[r.Intn(len(peggyTokens))]
	} else {
		symbol = nativeTokens[r.Intn(len(nativeTokens))]
	}
	var amount *big.Int
	switch r.Intn(6) {
	case 0:
		amount = big.NewInt(1)
	case 1:
		amount = new(big.Int).Sub(pow2(255), big.NewInt(int64(1+r.Intn(5))))
	default:
		amount = r.Amount(200)
		if amount.Sign() == 0 {
			amount = big.NewInt(1)
		}
	}
	ceth := new(big.Int).Add(big.NewInt(60000000000*393000), r.Amount(70))
	chain := genI64(r)
	recv := genHexReceiver(r)
	t := symTables[r.Intn(len(symTables))]

	coins := sdk.NewCoins(sdk.NewCoin(symbol, sdk.NewIntFromBigInt(amount)))
	coins = coins.Add(sdk.NewCoin("ceth", sdk.NewIntFromBigInt(ceth)))
	if err := sifapp.AddCoinsToAccount(ethbridge.ModuleName, app.BankKeeper, ctx, sender, coins); err != nil {
		panic(err)
	}
	srv := ethbridgekeeper.NewMsgServerImpl(app.EthbridgeKeeper)
	var err error
	if kind == 1 {
		msg := ethbridge.MsgBurn{EthereumChainId: chain, CosmosSender: sender.String(), EthereumReceiver: recv,
			Amount: sdk.NewIntFromBigInt(amount), Symbol: symbol, CethAmount: sdk.NewIntFromBigInt(ceth)}
		if err = msg.ValidateBasic(); err == nil {
			_, err = srv.Burn(sdk.WrapSDKContext(ctx), &msg)
		}
	} else {
		msg := ethbridge.MsgLock{EthereumChainId: chain, CosmosSender: sender.String(), EthereumReceiver: recv,
			Amount: sdk.NewIntFromBigInt(amount), Symbol: symbol, CethAmount: sdk.NewIntFromBigInt(ceth)}
		if err = msg.ValidateBasic(); err == nil {
			_, err = srv.Lock(sdk.WrapSDKContext(ctx), &msg)
		}
	}
	if err != nil {
		out.Hist["compose.chain-refused"]++
		return
	}
	// the relayer (cosmos.go) looks at every event of type "burn"/"lock" of the transaction; x/bank's
	// coin-burn event shares the type "burn".  The bridge module's own event is the last one emitted.
	var as []attr
	var evType string
	var foreign [][]attr
	for _, ev := range ctx.EventManager().Events() {
		if ev.Type == ethbridge.EventTypeLock || ev.Type == ethbridge.EventTypeBurn {
			if as != nil {
				foreign = append(foreign, as)
			}
			evType = ev.Type
			as = []attr{}
			for _, a := range ev.Attributes {
				as = append(as, attr{string(a.Key), string(a.Value)})
			}
		}
	}
	// claim type as the relayer derives it from the event type (cosmos.go getOracleClaimType)
	parsedKind := 0
	switch evType {
	case rtypes.MsgBurn.String():
		parsedKind = int(rtypes.MsgBurn)
	case rtypes.MsgLock.String():
		parsedKind = int(rtypes.MsgLock)
	}
	st, err := txs.VerifNewSymbolTranslator(t.json())
	if err != nil {
		panic(err)
	}
	for _, fa := range foreign {
		// events of other modules that share the type: must not be translated into a bridge message
		ok := protect(func() string {
			if _, err := txs.BurnLockEventToCosmosMsg(rtypes.Event(parsedKind), toABCI(fa), st, nopLogger); err != nil {
				return "0"
			}
			return "1"
		})
		if ok != "panic" {
			out.Emit(fmt.Sprintf("chk c16.complete tag=compose.foreign-event-accepted %s %s", attrsLine(fa), ok), "true", "chk.foreign", false)
		}
	}
	bm := fmt.Sprintf("%d %s %s %s %s %s %d", chain, hxs(sender.String()), hxs(recv), amount, hxs(symbol), ceth, seq)
	out.Emit(fmt.Sprintf("emit %s", bm), attrsLine(as), fmt.Sprintf("emit.k%d", kind), true)
	var fields []string
	ans := protect(func() string {
		m, err := txs.BurnLockEventToCosmosMsg(rtypes.Event(parsedKind), toABCI(as), st, nopLogger)
		if err != nil {
			return "err"
		}
		fields = msgFields(m)
		return msgAnswer(fields)
	})
	out.Emit(fmt.Sprintf("compose %d %s %s", kind, t.line(), bm), ans, fmt.Sprintf("compose.k%d.%s", kind, strings.SplitN(ans, " ", 2)[0]), fields != nil)
	accepted := "0"
	if fields != nil {
		accepted = "1"
		out.Emit(fmt.Sprintf("chk c16.compose tag=compose.k%d.fields %d %s %s %s", kind, kind, t.line(), bm, strings.Join(fields, " ")), "true", "chk.compose", false)
	}
	// an event the chain emitted must be translated (a burn of an unprefixed token may be refused)
	out.Emit(fmt.Sprintf("chk c16.composeacc tag=compose.k%d.refused %d %s %s", kind, kind, hxs(symbol), accepted), "true", "chk.composeacc", false)
}
