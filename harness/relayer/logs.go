package main

// family "relaylogs" (C16): the translation at LOOP level.  The REAL `EthereumSub.Start` goroutine (same child
// process and fake endpoints as family relayloop) scans one block range whose transactions carry SEVERAL logs each:
// bridge-bank LogLock / LogBurn logs, bridge-bank logs of other events, and logs of a FOREIGN contract that use the
// very same event signatures (topics[0]) with other data — before and after the bridge bank's log of the same
// transaction.  eth_getLogs is served honouring the address filter (bridge-bank logs only); eth_getTransactionReceipt
// serves the receipt with ALL logs of the transaction (the unchanged loop never asks for it).
// The claims of the transaction the loop broadcasts are decoded in full and must be the faithful translation of
// exactly the bridge-bank lock/burn logs eth_getLogs returned, each once, in order:
//   batch …                 (model: Relayer.handleBatch over those logs)
//   chk c16.batchcount / c16.batchfields   (Spec.C16.batchCountOK / batchFieldsOK, i.e. claimFaithful per own event)

import (
	"encoding/hex"
	"fmt"
	"math/big"
	"os"
	"path/filepath"
	"strings"
	"sync"

	sdk "github.com/cosmos/cosmos-sdk/types"
	"github.com/ethereum/go-ethereum/common"

	"github.com/Sifchain/sifnode/cmd/ebrelayer/relayer"
)

const loopBankAddress = "0x30753E4A8aad7F8597332E813735Def5dD395028" // the bridge bank of the fake node (runLoopChild)

func genLogFields(r *Rng, tx, block int64, nonce int64, topic int) logSpec {
	sym := genSymbol(r, symTables[0])
	for !asciiOnly(sym) {
		sym = genSymbol(r, symTables[0])
	}
	to := []byte(sdk.AccAddress(genBytes(r, 20)).String())
	if r.Intn(8) == 0 {
		to = genRecipient(r)
	}
	token := genAddr(r)
	if strings.EqualFold(sym, "eth") && r.Bool() {
		token = common.Address{}
	}
	value := r.Amount(255)
	return logSpec{Block: block, Tx: tx, Topic: topic, From: addrHex(genAddr(r)), To: hex.EncodeToString(to), Token: addrHex(token),
		Symbol: sym, Value: value.String(), Nonce: fmt.Sprint(nonce)}
}

func genLogsCase(r *Rng) (logs []logSpec, p0, head int64) {
	p0 = int64(100 + r.Intn(500))
	block := p0 + int64(r.Intn(3))
	nonce := int64(1 + r.Intn(1000))
	ntx := 1 + r.Intn(4)
	for tx := int64(1); tx <= int64(ntx); tx++ {
		if r.Intn(3) != 0 {
			block += int64(r.Intn(4))
		}
		bank := func(topic int) {
			if topic == 2 {
				logs = append(logs, logSpec{Block: block, Tx: tx, Topic: 2})
				return
			}
			logs = append(logs, genLogFields(r, tx, block, nonce, topic))
			nonce++
		}
		foreign := func(topic int) {
			// another contract emitting an event with the bridge bank's signature: its own numbers
			l := genLogFields(r, tx, block, int64(900000+r.Intn(1000)), topic)
			l.Foreign = true
			l.Value = "1000000000000000000000000"
			logs = append(logs, l)
		}
		switch r.Intn(9) {
		case 0:
			bank(0)
		case 1:
			foreign(0)
			bank(0)
		case 2:
			bank(0)
			bank(0)
		case 3:
			bank(1)
			bank(0)
		case 4:
			foreign(1)
			bank(2)
			bank(1)
		case 5:
			bank(0)
			foreign(0)
		case 6:
			bank(0)
			bank(1)
			bank(0)
		case 7:
			bank(2)
		case 8:
			bank(1)
			bank(1)
		}
	}
	head = block + 50 + int64(r.Intn(3))
	return
}

func init() {
	families["relaylogs"] = func(rng *Rng, n int, out *Out, replay string) {
		workdir := filepath.Join(os.TempDir(), fmt.Sprintf("verif-relaylogs-%d", os.Getpid()))
		defer os.RemoveAll(workdir)
		_, info, err := relayer.NewKeybase("val", childMnemonic, "")
		if err != nil {
			panic(err)
		}
		val := sdk.ValAddress(info.GetAddress())
		bank := strings.ToLower(strings.TrimPrefix(loopBankAddress, "0x"))
		type lcase struct {
			lc   loopCase
			logs []logSpec
		}
		cases := make([]lcase, n)
		for i := range cases {
			logs, p0, head := genLogsCase(rng)
			if i == 0 {
				// directed: a foreign contract's log with the LogLock signature before the bridge bank's lock in one
				// transaction; two bridge-bank locks in another transaction
				good := hex.EncodeToString([]byte(sdk.AccAddress(make([]byte, 20)).String()))
				mk := func(tx, blk, nonce int64, foreign bool, value string) logSpec {
					return logSpec{Block: blk, Tx: tx, Foreign: foreign, Topic: 0, From: strings.Repeat("ab", 20), To: good,
						Token: strings.Repeat("00", 20), Symbol: "eth", Value: value, Nonce: fmt.Sprint(nonce)}
				}
				logs = []logSpec{mk(1, 120, 999, true, "1000000000000000000000000"), mk(1, 120, 8, false, "1"), mk(2, 121, 9, false, "2"), mk(2, 121, 10, false, "3")}
				p0, head = 100, 200
			}
			lc := loopCase{p0: p0, inputs: []loopInput{{Kind: "h", N: head, Out: "d"}}, logs: logs, full: true}
			// (crash-point bookkeeping of the loop family is not needed: a single iteration that runs to its end)
			cases[i] = lcase{lc, logs}
		}
		type res struct {
			obs string
			err error
		}
		results := make([]res, n)
		var wg sync.WaitGroup
		sem := make(chan struct{}, 24)
		for i := range cases {
			wg.Add(1)
			go func(i int) {
				defer wg.Done()
				sem <- struct{}{}
				defer func() { <-sem }()
				o, err := runLoopCase(1000+i, cases[i].lc, workdir)
				results[i] = res{o, err}
			}(i)
		}
		wg.Wait()
		for i, c := range cases {
			if results[i].err != nil {
				fmt.Fprintln(os.Stderr, "relaylogs case", i, "failed:", results[i].err)
				os.Exit(1)
			}
			// the events the loop has to translate: the bridge bank's lock/burn logs, in eth_getLogs order
			var toks []string
			k := 0
			for _, l := range c.logs {
				if l.Foreign || l.Topic == 2 {
					continue
				}
				to, _ := hex.DecodeString(l.To)
				todec := "ERR"
				if a, err := sdk.AccAddressFromBech32(string(to)); err == nil {
					todec = hx(a)
				}
				ty := 2
				if l.Topic == 1 {
					ty = 1
				}
				v, _ := new(big.Int).SetString(l.Value, 10)
				toks = append(toks, fmt.Sprintf("%s %s %s 5777 %s %s %d %s %s %s", hx(to), todec, hxs(l.Symbol), v, l.Nonce, ty, bank, l.From, l.Token))
				k++
			}
			head := fmt.Sprintf("%s - %d", hx(val), k)
			if k > 0 {
				head += " " + strings.Join(toks, " ")
			}
			ans := "none"
			for _, line := range strings.Split(results[i].obs, "\n") {
				if strings.HasPrefix(line, "F ") {
					if ans != "none" {
						ans = "several-broadcasts"
						break
					}
					ans = "ok " + strings.TrimPrefix(line, "F ")
				}
			}
			shape := fmt.Sprintf("logs=%d bank-events=%d", len(c.logs), k)
			out.Hist["relaylogs."+strings.SplitN(ans, " ", 2)[0]]++
			out.Hist["relaylogs.events."+fmt.Sprint(k)]++
			_ = shape
			out.Emit("batch "+head, ans, "startloop.batch", k > 0)
			if strings.HasPrefix(ans, "ok ") {
				rest := strings.TrimPrefix(ans, "ok ")
				out.Emit(fmt.Sprintf("chk c16.batchcount tag=startloop.count %s %s", head, rest), "true", "chk.startloop.count", false)
				out.Emit(fmt.Sprintf("chk c16.batchfields tag=startloop.claim-fields %s %s", head, rest), "true", "chk.startloop.fields", false)
			}
		}
	}
}
