package main

// L1 set-up shared by the margin families: the real SifchainApp (sifapp.Setup), real margin + clp
// keepers and message servers, token registry entries, funded accounts, an administrator.

import (
	"fmt"

	sifapp "github.com/Sifchain/sifnode/app"
	admintypes "github.com/Sifchain/sifnode/x/admin/types"
	clpkeeper "github.com/Sifchain/sifnode/x/clp/keeper"
	clptypes "github.com/Sifchain/sifnode/x/clp/types"
	marginkeeper "github.com/Sifchain/sifnode/x/margin/keeper"
	margintypes "github.com/Sifchain/sifnode/x/margin/types"
	tokenregistrytypes "github.com/Sifchain/sifnode/x/tokenregistry/types"
	sdk "github.com/cosmos/cosmos-sdk/types"
	sdkerrors "github.com/cosmos/cosmos-sdk/types/errors"
	authtypes "github.com/cosmos/cosmos-sdk/x/auth/types"
	tmproto "github.com/tendermint/tendermint/proto/tendermint/types"
)

type World struct {
	app    *sifapp.SifchainApp
	ctx    sdk.Context
	msrv   margintypes.MsgServer
	csrv   clptypes.MsgServer
	accts  map[string]sdk.AccAddress // alias -> address
	names  []string                  // aliases in declaration order
	denoms []string
}

func addrOf(i int) sdk.AccAddress {
	b := make([]byte, 20)
	for k := range b {
		b[k] = byte(0x11*(i+1) + k)
	}
	return sdk.AccAddress(b)
}

func NewWorld(denoms []string) *World {
	sifapp.SetConfig(false)
	app := sifapp.Setup(false)
	ctx := app.BaseApp.NewContext(false, tmproto.Header{Height: 1})
	w := &World{app: app, ctx: ctx, accts: map[string]sdk.AccAddress{}, denoms: denoms}
	w.msrv = marginkeeper.NewMsgServerImpl(app.MarginKeeper)
	w.csrv = clpkeeper.NewMsgServerImpl(app.ClpKeeper)
	for _, d := range denoms {
		app.TokenRegistryKeeper.SetToken(ctx, &tokenregistrytypes.RegistryEntry{
			Denom: d, BaseDenom: d, Decimals: 18,
			Permissions: []tokenregistrytypes.Permission{tokenregistrytypes.Permission_CLP, tokenregistrytypes.Permission_IBCEXPORT, tokenregistrytypes.Permission_IBCIMPORT},
		})
	}
	return w
}

// Acct declares an account alias; module accounts get the module's address.
func (w *World) Acct(name string, a sdk.AccAddress) sdk.AccAddress {
	w.accts[name] = a
	w.names = append(w.names, name)
	return a
}

func (w *World) ModuleAddr(mod string) sdk.AccAddress { return authtypes.NewModuleAddress(mod) }

func (w *World) Fund(a sdk.AccAddress, denom string, amt sdk.Int) {
	coins := sdk.NewCoins(sdk.NewCoin(denom, amt))
	if err := w.app.BankKeeper.MintCoins(w.ctx, clptypes.ModuleName, coins); err != nil {
		panic(err)
	}
	if err := w.app.BankKeeper.SendCoinsFromModuleToAccount(w.ctx, clptypes.ModuleName, a, coins); err != nil {
		panic(err)
	}
}

func (w *World) SetAdmin(a sdk.AccAddress) {
	for _, t := range []admintypes.AdminType{admintypes.AdminType_MARGIN, admintypes.AdminType_CLPDEX, admintypes.AdminType_PMTPREWARDS} {
		w.app.AdminKeeper.SetAdminAccount(w.ctx, &admintypes.AdminAccount{AdminType: t, AdminAddress: a.String()})
	}
}

// Tx runs f on a cached context and writes it only on success (baseapp's discipline); a Go panic
// is a failed transaction.
func (w *World) Tx(f func(ctx sdk.Context) error) (res string) {
	cctx, write := w.ctx.CacheContext()
	defer func() {
		if r := recover(); r != nil {
			res = "panic"
		}
	}()
	err := f(cctx)
	if err != nil {
		return errClass(err)
	}
	write()
	return "ok"
}

func errClass(err error) string {
	if err == nil {
		return "ok"
	}
	space, code, _ := sdkerrorsABCIInfo(err)
	return fmt.Sprintf("err.%s.%d", space, code)
}

func (w *World) Bal(a sdk.AccAddress, denom string) sdk.Int {
	return w.app.BankKeeper.GetBalance(w.ctx, a, denom).Amount
}

func sdkerrorsABCIInfo(err error) (string, uint32, string) { return sdkerrors.ABCIInfo(err, false) }
