package main

// family "margin" (L1): histories of open / close / admin close / force close / epoch-boundary
// BeginBlockers, interleaved with real clp swaps and liquidity changes that move the price and with
// administrator parameter changes, on the real margin + clp keepers of a real SifchainApp.
//
// After every operation the implementation's state is dumped (`obs`, compared with the model's
// state) and the predicates of lean/Sif/Spec/C13.lean are evaluated on that dump (`chk` lines).
// Environment values (DESIGN 2.1): the new interest rate of each enabled pool at an epoch boundary.

import (
	"fmt"
	"math/big"
	"strings"

	admintypes "github.com/Sifchain/sifnode/x/admin/types"
	clptypes "github.com/Sifchain/sifnode/x/clp/types"
	margintypes "github.com/Sifchain/sifnode/x/margin/types"
	sdk "github.com/cosmos/cosmos-sdk/types"
)

func decS(d sdk.Dec) string {
	if d.IsNil() {
		return "0"
	}
	return d.BigInt().String()
}

func poolS(p *clptypes.Pool) string {
	return strings.Join([]string{p.ExternalAsset.Symbol, p.NativeAssetBalance.String(), p.ExternalAssetBalance.String(),
		p.NativeCustody.String(), p.ExternalCustody.String(), p.NativeLiabilities.String(), p.ExternalLiabilities.String(),
		p.UnsettledNativeLiabilities.String(), p.UnsettledExternalLiabilities.String(), p.BlockInterestNative.String(), p.BlockInterestExternal.String(),
		decS(p.Health), decS(p.InterestRate), fmt.Sprint(p.LastHeightInterestRateComputed)}, ",")
}

func mtpS(m *margintypes.MTP) string {
	return strings.Join([]string{m.Address, fmt.Sprint(m.Id), m.CollateralAsset, m.CustodyAsset, m.CollateralAmount.String(), m.Liabilities.String(),
		m.InterestPaidCollateral.String(), m.InterestPaidCustody.String(), m.InterestUnpaidCollateral.String(), m.CustodyAmount.String(),
		decS(m.Leverage), decS(m.MtpHealth), fmt.Sprint(int(m.Position))}, ",")
}

func listS(l []string) string {
	if len(l) == 0 {
		return "-"
	}
	return strings.Join(l, ";")
}

type hist struct {
	w          *World
	out        *Out
	rng        *Rng
	watch      []sdk.AccAddress
	traders    []sdk.AccAddress
	lp, adm    sdk.AccAddress
	outsider   sdk.AccAddress
	fund       sdk.AccAddress
	blocked    sdk.AccAddress // a module account: refused as a recipient by x/bank
	blocked2   sdk.AccAddress // an sdk module account (fee_collector): refused as a recipient as well
	height     int64
	cross      bool // a position between two non-native assets (or the same asset twice) was accepted
	fixedPools bool // directed history: pools of 10^24 native and 2.5 * 10^24 external
	evenPools  bool // directed history: pools of 10^24 on both sides
}

func (h *hist) dumpParts(ctx sdk.Context) (string, string, string, string) {
	var ps, ms, bs []string
	for _, p := range h.w.app.ClpKeeper.GetPools(ctx) {
		ps = append(ps, poolS(p))
	}
	for _, m := range h.w.app.MarginKeeper.GetAllMTPS(ctx) {
		ms = append(ms, mtpS(m))
	}
	for _, a := range h.watch {
		for _, d := range h.w.denoms {
			bs = append(bs, fmt.Sprintf("%s,%s,%s", a.String(), d, h.w.app.BankKeeper.GetBalance(ctx, a, d).Amount))
		}
	}
	c := fmt.Sprintf("%d,%d", h.w.app.MarginKeeper.GetMTPCount(ctx), h.w.app.MarginKeeper.GetOpenMTPCount(ctx))
	return "P=" + listS(ps), "M=" + listS(ms), c, "B=" + listS(bs)
}

// shape of the configuration, appended to chk tags so that a finding's signature is specific
func (h *hist) shape() string {
	s := ""
	p := h.w.app.MarginKeeper.GetParams(h.w.ctx)
	if a, err := sdk.AccAddressFromBech32(p.IncrementalInterestPaymentFundAddress); err == nil && h.w.app.BankKeeper.BlockedAddr(a) && p.IncrementalInterestPaymentEnabled {
		s += ".iipfund-blocked"
	}
	if a, err := sdk.AccAddressFromBech32(p.ForceCloseFundAddress); err == nil && h.w.app.BankKeeper.BlockedAddr(a) {
		s += ".fcfund-blocked"
	}
	if p.IncrementalInterestPaymentFundAddress == "" && p.IncrementalInterestPaymentEnabled {
		s += ".iipfund-empty"
	}
	if p.ForceCloseFundAddress == "" {
		s += ".fcfund-empty"
	}
	if h.cross {
		s += ".crosspair"
	}
	return s
}

func addrOrDash(a string) string {
	if a == "" {
		return "-"
	}
	return a
}

// after every operation: the state dump (model must agree) and MarginOK judged on it
func (h *hist) observe(site string) {
	p, m, c, b := h.dumpParts(h.w.ctx)
	h.out.Emit("obs", fmt.Sprintf("%s %s C=%s %s", p, m, c, b), "obs", false)
	oc := strings.Split(c, ",")[1]
	h.out.Emit(fmt.Sprintf("chk c13.marginok tag=%s.marginok%s %s %s %s", site, h.shape(), p, m, oc), "true", "chk.marginok", false)
	// C01 restricted to this world: for every token the clp module account holds exactly what the pool
	// records account for (balance + custody; no reward buckets here) — bank dump against keeper dump
	clpAddr := h.w.ModuleAddr(clptypes.ModuleName)
	var ds []string
	for _, d := range h.w.denoms {
		ds = append(ds, fmt.Sprintf("%s,%s", d, h.w.Bal(clpAddr, d)))
	}
	h.out.Emit(fmt.Sprintf("chk c01.marginbacking tag=%s.backing%s %s D=%s", site, h.shape(), p, strings.Join(ds, ";")), "true", "chk.backing", false)
}

func (h *hist) emitParams() {
	p := h.w.app.MarginKeeper.GetParams(h.w.ctx)
	h.out.Emit(fmt.Sprintf("cfg params %s %s %s %s %d %d %s %s %s %s %s %s %s", decS(p.LeverageMax), decS(p.SafetyFactor), decS(p.PoolOpenThreshold),
		decS(p.InterestRateMin), p.EpochLength, p.MaxOpenPositions, decS(p.ForceCloseFundPercentage), addrOrDash(p.ForceCloseFundAddress),
		decS(p.IncrementalInterestPaymentFundPercentage), addrOrDash(p.IncrementalInterestPaymentFundAddress), b2s(p.IncrementalInterestPaymentEnabled),
		b2s(p.WhitelistingEnabled), b2s(p.RowanCollateralEnabled)), "ok", "cfg", false)
	h.out.Emit(fmt.Sprintf("cfg pools %s %s", commaS(p.Pools), commaS(p.ClosedPools)), "ok", "cfg", false)
}

func commaS(l []string) string {
	if len(l) == 0 {
		return "-"
	}
	return strings.Join(l, ",")
}

func b2s(b bool) string {
	if b {
		return "1"
	}
	return "0"
}

func (h *hist) syncPool(sym string) {
	p, err := h.w.app.ClpKeeper.GetPool(h.w.ctx, sym)
	if err == nil {
		h.out.Emit("pool "+poolS(&p), "ok", "sync", false)
	}
}

func (h *hist) syncBal(a sdk.AccAddress) {
	for _, d := range h.w.denoms {
		h.out.Emit(fmt.Sprintf("bal %s %s %s", a.String(), d, h.w.Bal(a, d)), "ok", "sync", false)
	}
}

func pow10(k int) *big.Int { return new(big.Int).Exp(big.NewInt(10), big.NewInt(int64(k)), nil) }

func (h *hist) decChoice(vals ...string) sdk.Dec {
	return sdk.MustNewDecFromStr(vals[h.rng.Intn(len(vals))])
}

func (h *hist) setup() {
	w, rng, out := h.w, h.rng, h.out
	clpAddr := w.ModuleAddr(clptypes.ModuleName)
	h.lp, h.adm, h.outsider, h.fund = addrOf(0), addrOf(1), addrOf(2), addrOf(3)
	h.traders = []sdk.AccAddress{addrOf(4), addrOf(5), addrOf(6)}
	h.blocked = w.ModuleAddr(margintypes.ModuleName)
	h.blocked2 = w.ModuleAddr("fee_collector") // a module account of the sdk: blocked as a recipient as well
	h.watch = append([]sdk.AccAddress{clpAddr, h.fund, h.blocked, h.blocked2, h.outsider}, h.traders...)
	w.SetAdmin(h.adm)
	huge := new(big.Int).Mul(pow10(18), pow10(15))
	for _, d := range w.denoms {
		w.Fund(h.lp, d, sdk.NewIntFromBigInt(new(big.Int).Mul(huge, big.NewInt(1000))))
		for _, t := range h.traders {
			w.Fund(t, d, sdk.NewIntFromBigInt(huge))
		}
		w.Fund(h.outsider, d, sdk.NewIntFromBigInt(pow10(20)))
	}
	out.Emit("init", "ok", "cfg", false)
	out.Emit("denoms "+strings.Join(w.denoms, ","), "ok", "cfg", false)
	var ws []string
	for _, a := range h.watch {
		ws = append(ws, a.String())
	}
	out.Emit("watch "+strings.Join(ws, ","), "ok", "cfg", false)
	out.Emit("cfg admins "+h.adm.String(), "ok", "cfg", false)
	for _, a := range []sdk.AccAddress{h.blocked, h.blocked2, clpAddr} {
		if !w.app.BankKeeper.BlockedAddr(a) {
			panic("expected a blocked recipient: " + a.String())
		}
	}
	out.Emit("cfg blocked "+h.blocked.String()+","+h.blocked2.String()+","+clpAddr.String(), "ok", "cfg", false)
	// pools
	for _, d := range w.denoms[1:] {
		nat := new(big.Int).Mul(pow10(18+rng.Intn(9)), big.NewInt(int64(1+rng.Intn(9))))
		ext := new(big.Int).Mul(nat, big.NewInt(int64(1+rng.Intn(999))))
		ext.Quo(ext, big.NewInt(int64(1+rng.Intn(999))))
		if ext.Sign() == 0 {
			ext.SetInt64(1)
		}
		if h.fixedPools {
			nat = pow10(24)
			ext = new(big.Int).Mul(pow10(23), big.NewInt(25))
		}
		if h.evenPools {
			nat, ext = pow10(24), pow10(24)
		}
		r := w.Tx(func(ctx sdk.Context) error {
			_, err := w.csrv.CreatePool(sdk.WrapSDKContext(ctx), &clptypes.MsgCreatePool{Signer: h.lp.String(), ExternalAsset: &clptypes.Asset{Symbol: d},
				NativeAssetAmount: sdk.NewUintFromBigInt(nat), ExternalAssetAmount: sdk.NewUintFromBigInt(ext)})
			return err
		})
		if r != "ok" {
			panic("create pool: " + r)
		}
	}
	// let the liquidity provider remove liquidity during the history: no lock period, a standing unlock request
	rp := w.app.ClpKeeper.GetRewardsParams(w.ctx)
	rp.LiquidityRemovalLockPeriod = 0
	rp.LiquidityRemovalCancelPeriod = 1 << 40
	w.app.ClpKeeper.SetRewardParams(w.ctx, rp)
	for _, d := range w.denoms[1:] {
		lpRec, err := w.app.ClpKeeper.GetLiquidityProvider(w.ctx, d, h.lp.String())
		if err == nil {
			units := lpRec.LiquidityProviderUnits.Quo(sdk.NewUint(2))
			h.txPlain(func(ctx sdk.Context) error {
				_, err := w.csrv.UnlockLiquidity(sdk.WrapSDKContext(ctx), &clptypes.MsgUnlockLiquidityRequest{Signer: h.lp.String(), ExternalAsset: &clptypes.Asset{Symbol: d}, Units: units})
				return err
			})
		}
	}
	// clp parameters the margin swaps read
	rate := w.app.ClpKeeper.GetPmtpRateParams(w.ctx).PmtpCurrentRunningRate
	sf := w.app.ClpKeeper.GetSwapFeeParams(w.ctx)
	var fees []string
	for _, tp := range sf.TokenParams {
		fees = append(fees, tp.Asset+":"+decS(tp.SwapFeeRate))
	}
	out.Emit(fmt.Sprintf("cfg clp %s %s %s %s", decS(rate), decS(sf.DefaultSwapFeeRate), clpAddr.String(), commaS(fees)), "ok", "cfg", false)
	// margin parameters
	p := w.app.MarginKeeper.GetParams(w.ctx)
	p.LeverageMax = h.decChoice("2", "3", "5", "10", "1.5")
	p.SafetyFactor = h.decChoice("1.05", "1.05", "1.01", "1.3", "1.6", "0.5", "0", "0", "0.000000000000000001", "1")
	p.PoolOpenThreshold = h.decChoice("0.1", "0.1", "0.5", "0.9", "0.93", "0.99", "1")
	p.InterestRateMin = h.decChoice("0.005", "0.005", "0", "0.000001", "0.05")
	p.InterestRateMax = h.decChoice("3", "0.5", "0.01", "1")
	p.InterestRateIncrease = h.decChoice("0.1", "1", "0.01")
	p.InterestRateDecrease = h.decChoice("0.1", "1", "0.01")
	p.HealthGainFactor = h.decChoice("1", "0.1", "2")
	p.EpochLength = []int64{1, 1, 2, 3, 7}[rng.Intn(5)]
	p.ForceCloseFundPercentage = h.decChoice("0.1", "0", "0.5", "1")
	p.IncrementalInterestPaymentFundPercentage = h.decChoice("0.1", "0", "0.5", "1")
	p.ForceCloseFundAddress = h.fund.String()
	p.IncrementalInterestPaymentFundAddress = h.fund.String()
	p.IncrementalInterestPaymentEnabled = rng.Chance(4, 5)
	p.MaxOpenPositions = []uint64{10000, 10000, 3}[rng.Intn(3)]
	p.RowanCollateralEnabled = rng.Chance(9, 10)
	h.adminParams(&p)
	h.txPlain(func(ctx sdk.Context) error {
		_, err := w.msrv.UpdatePools(sdk.WrapSDKContext(ctx), &margintypes.MsgUpdatePools{Signer: h.adm.String(), Pools: w.denoms[1:]})
		return err
	})
	h.emitParams()
	for _, pl := range w.app.ClpKeeper.GetPools(w.ctx) { // store order = the order the hook visits them in
		h.syncPool(pl.ExternalAsset.Symbol)
	}
	for _, a := range h.watch {
		h.syncBal(a)
	}
	h.height = 1
	out.Emit("height 1", "ok", "cfg", false)
	h.observe("setup")
}

func (h *hist) txPlain(f func(ctx sdk.Context) error) {
	if r := h.w.Tx(f); r != "ok" {
		panic("set-up transaction failed: " + r)
	}
}

// MsgUpdateParams as it arrives: encoded and decoded again (an omitted optional string field is the
// empty string), ValidateBasic, then the message server
func (h *hist) adminParams(p *margintypes.Params) {
	sent := &margintypes.MsgUpdateParams{Signer: h.adm.String(), Params: p}
	bz, err := sent.Marshal()
	if err != nil {
		panic(err)
	}
	msg := &margintypes.MsgUpdateParams{}
	if err := msg.Unmarshal(bz); err != nil {
		panic(err)
	}
	if err := msg.ValidateBasic(); err != nil {
		panic(err)
	}
	h.txPlain(func(ctx sdk.Context) error {
		_, err := h.w.msrv.UpdateParams(sdk.WrapSDKContext(ctx), msg)
		return err
	})
}

// ---- operations ----

func (h *hist) poolDepth(sym string, native bool) *big.Int {
	p, err := h.w.app.ClpKeeper.GetPool(h.w.ctx, sym)
	if err != nil {
		return big.NewInt(1)
	}
	if native {
		return p.NativeAssetBalance.BigInt()
	}
	return p.ExternalAssetBalance.BigInt()
}

func (h *hist) amountNear(depth *big.Int) *big.Int {
	rng := h.rng
	switch rng.Intn(12) {
	case 0:
		return big.NewInt(int64(rng.Intn(1000)))
	case 1:
		return new(big.Int).Mul(depth, big.NewInt(int64(1+rng.Intn(3))))
	default:
		v := new(big.Int).Quo(depth, pow10(1+rng.Intn(14)))
		v.Mul(v, big.NewInt(int64(1+rng.Intn(9))))
		v.Add(v, big.NewInt(int64(rng.Intn(3))))
		return v
	}
}

func (h *hist) leverage() sdk.Dec {
	rng := h.rng
	max := h.w.app.MarginKeeper.GetParams(h.w.ctx).LeverageMax
	switch rng.Intn(7) {
	case 6: // barely leveraged: health in the hundreds
		return sdk.MustNewDecFromStr([]string{"1.001", "1.005", "1.01", "1.0099"}[rng.Intn(4)])
	case 0:
		return sdk.OneDec()
	case 1:
		return max
	case 2:
		return max.Add(sdk.OneDec())
	default:
		span := max.Sub(sdk.OneDec()).BigInt()
		if span.Sign() <= 0 {
			return sdk.OneDec()
		}
		f := new(big.Int).Mod(new(big.Int).SetUint64(rng.U64()), span)
		return sdk.OneDec().Add(sdk.NewDecFromBigIntWithPrec(f, 18))
	}
}

func (h *hist) opOpen() {
	w, rng := h.w, h.rng
	t := h.traders[rng.Intn(len(h.traders))]
	ext := w.denoms[1+rng.Intn(len(w.denoms)-1)]
	coll, bor := "rowan", ext
	if rng.Bool() {
		coll, bor = ext, "rowan"
	}
	switch rng.Intn(40) {
	case 0: // both non-native
		coll, bor = w.denoms[1], w.denoms[2]
	case 1: // the same asset twice
		coll, bor = ext, ext
	case 2:
		coll, bor = "rowan", "rowan"
	case 3:
		bor = "cnopool"
	}
	collNative := coll == "rowan"
	poolSym := ext
	if !collNative {
		poolSym = coll
	}
	amt := h.amountNear(h.poolDepth(poolSym, collNative))
	pos := margintypes.Position_LONG
	if rng.Chance(1, 25) {
		pos = margintypes.Position_SHORT
	}
	h.doOpen(t, coll, bor, amt, pos, h.leverage())
}

func (h *hist) doOpen(t sdk.AccAddress, coll, bor string, amt *big.Int, pos margintypes.Position, lev sdk.Dec) string {
	w := h.w
	msg := &margintypes.MsgOpen{Signer: t.String(), CollateralAsset: coll, CollateralAmount: sdk.NewUintFromBigInt(amt), BorrowAsset: bor, Position: pos, Leverage: lev}
	if err := msg.ValidateBasic(); err != nil {
		return "invalid" // refused before the handler; nothing to compare
	}
	clpAddr := w.ModuleAddr(clptypes.ModuleName)
	tb, cb := w.Bal(t, coll), w.Bal(clpAddr, coll)
	countBefore := w.app.MarginKeeper.GetMTPCount(w.ctx)
	res := w.Tx(func(ctx sdk.Context) error {
		_, err := w.msrv.Open(sdk.WrapSDKContext(ctx), msg)
		return err
	})
	h.out.Emit(fmt.Sprintf("tx open %s %s %s %s %d %s", t.String(), coll, amt, bor, int(pos), decS(lev)), res, "open."+res, res == "ok")
	h.observe("tx.open")
	if res == "ok" {
		id := countBefore + 1
		p, m, _, _ := h.dumpParts(w.ctx)
		h.out.Emit(fmt.Sprintf("chk c13.openhealth tag=tx.open.health %s %s %s %d", p, m, t.String(), id), "true", "chk.openhealth", false)
		h.out.Emit(fmt.Sprintf("chk c13.opentakes tag=tx.open.takes %s %s %s %s %s", tb, w.Bal(t, coll), cb, w.Bal(clpAddr, coll), amt), "true", "chk.opentakes", false)
		if (coll == "rowan") == (bor == "rowan") {
			h.cross = true
		}
		h.out.Emit(fmt.Sprintf("chk c13.pair tag=tx.open.pair %s %s", coll, bor), "true", "chk.pair", false)
	}
	return res
}

func (h *hist) pickMtp() *margintypes.MTP {
	all := h.w.app.MarginKeeper.GetAllMTPS(h.w.ctx)
	if len(all) == 0 {
		return nil
	}
	return all[h.rng.Intn(len(all))]
}

func (h *hist) isAdmin(a sdk.AccAddress) bool {
	return a.Equals(h.adm)
}

func (h *hist) opClose() {
	rng := h.rng
	m := h.pickMtp()
	var signer sdk.AccAddress
	var id uint64
	if m == nil || rng.Chance(1, 10) {
		signer, id = h.traders[rng.Intn(len(h.traders))], uint64(1+rng.Intn(5))
	} else {
		signer, _ = sdk.AccAddressFromBech32(m.Address)
		id = m.Id
		if rng.Chance(1, 8) { // someone else tries to close it
			signer = h.outsider
		}
	}
	h.doClose(signer, id)
}

func (h *hist) doClose(signer sdk.AccAddress, id uint64) {
	w := h.w
	msg := &margintypes.MsgClose{Signer: signer.String(), Id: id}
	if msg.ValidateBasic() != nil {
		return
	}
	existed := h.exists(signer.String(), id)
	res := w.Tx(func(ctx sdk.Context) error {
		_, err := w.msrv.Close(sdk.WrapSDKContext(ctx), msg)
		return err
	})
	h.out.Emit(fmt.Sprintf("tx close %s %d", signer.String(), id), res, "close."+res, res == "ok")
	h.observe("tx.close")
	if existed && !h.exists(signer.String(), id) {
		h.out.Emit(fmt.Sprintf("chk c13.closer tag=tx.close.closer %s %s %s", signer.String(), signer.String(), b2s(false)), "true", "chk.closer", false)
	}
}

func (h *hist) exists(addr string, id uint64) bool {
	_, err := h.w.app.MarginKeeper.GetMTP(h.w.ctx, addr, id)
	return err == nil
}

func (h *hist) opAdminClose() {
	w, rng := h.w, h.rng
	m := h.pickMtp()
	addr, id := h.traders[0].String(), uint64(1)
	if m != nil {
		addr, id = m.Address, m.Id
	}
	signer := h.adm
	if rng.Chance(1, 4) {
		signer = []sdk.AccAddress{h.outsider, h.traders[1]}[rng.Intn(2)]
	}
	existed := h.exists(addr, id)
	var res, line string
	if rng.Chance(1, 4) {
		msg := &margintypes.MsgForceClose{Signer: signer.String(), MtpAddress: addr, Id: id}
		if msg.ValidateBasic() != nil {
			return
		}
		res = w.Tx(func(ctx sdk.Context) error {
			_, err := w.msrv.ForceClose(sdk.WrapSDKContext(ctx), msg)
			return err
		})
		line = fmt.Sprintf("tx forceclose %s %s %d", signer.String(), addr, id)
	} else {
		h.doAdminClose(signer, addr, id, rng.Bool())
		return
	}
	h.out.Emit(line, res, "adminclose."+res, res == "ok")
	h.observe("tx.adminclose")
	if existed && !h.exists(addr, id) {
		isAdm := w.app.AdminKeeper.IsAdminAccount(w.ctx, admintypes.AdminType_MARGIN, signer)
		h.out.Emit(fmt.Sprintf("chk c13.closer tag=tx.adminclose.closer %s %s %s", signer.String(), addr, b2s(isAdm)), "true", "chk.closer", false)
	}
}

func (h *hist) doAdminClose(signer sdk.AccAddress, addr string, id uint64, tf bool) {
	w := h.w
	existed := h.exists(addr, id)
	msg := &margintypes.MsgAdminClose{Signer: signer.String(), MtpAddress: addr, Id: id, TakeMarginFund: tf}
	if msg.ValidateBasic() != nil {
		return
	}
	res := w.Tx(func(ctx sdk.Context) error {
		_, err := w.msrv.AdminClose(sdk.WrapSDKContext(ctx), msg)
		return err
	})
	h.out.Emit(fmt.Sprintf("tx adminclose %s %s %d %s", signer.String(), addr, id, b2s(tf)), res, "adminclose."+res, res == "ok")
	h.observe("tx.adminclose")
	if existed && !h.exists(addr, id) {
		isAdm := w.app.AdminKeeper.IsAdminAccount(w.ctx, admintypes.AdminType_MARGIN, signer)
		h.out.Emit(fmt.Sprintf("chk c13.closer tag=tx.adminclose.closer %s %s %s", signer.String(), addr, b2s(isAdm)), "true", "chk.closer", false)
	}
}

// a real clp swap / liquidity change that moves the price; the model takes the resulting pool
// balances and account balances as given (the theorems hold for every such change) — custody and
// liabilities are judged by MarginOK on the implementation's state right after
func (h *hist) opPriceMove() {
	w, rng := h.w, h.rng
	ext := w.denoms[1+rng.Intn(len(w.denoms)-1)]
	var res, cls string
	switch rng.Intn(4) {
	case 0, 1:
		sent, recv := "rowan", ext
		if rng.Bool() {
			sent, recv = ext, "rowan"
		}
		depth := h.poolDepth(ext, sent == "rowan")
		amt := new(big.Int).Quo(new(big.Int).Mul(depth, big.NewInt(int64(1+rng.Intn(60)))), big.NewInt(100))
		res = w.Tx(func(ctx sdk.Context) error {
			_, err := w.csrv.Swap(sdk.WrapSDKContext(ctx), &clptypes.MsgSwap{Signer: h.lp.String(), SentAsset: &clptypes.Asset{Symbol: sent}, ReceivedAsset: &clptypes.Asset{Symbol: recv},
				SentAmount: sdk.NewUintFromBigInt(amt), MinReceivingAmount: sdk.ZeroUint()})
			return err
		})
		cls = "swap"
	case 2:
		n := new(big.Int).Quo(h.poolDepth(ext, true), big.NewInt(int64(2+rng.Intn(20))))
		e := new(big.Int).Quo(h.poolDepth(ext, false), big.NewInt(int64(2+rng.Intn(20))))
		res = w.Tx(func(ctx sdk.Context) error {
			_, err := w.csrv.AddLiquidity(sdk.WrapSDKContext(ctx), &clptypes.MsgAddLiquidity{Signer: h.lp.String(), ExternalAsset: &clptypes.Asset{Symbol: ext},
				NativeAssetAmount: sdk.NewUintFromBigInt(n), ExternalAssetAmount: sdk.NewUintFromBigInt(e)})
			return err
		})
		cls = "addliq"
	default:
		res = w.Tx(func(ctx sdk.Context) error {
			_, err := w.csrv.RemoveLiquidity(sdk.WrapSDKContext(ctx), &clptypes.MsgRemoveLiquidity{Signer: h.lp.String(), ExternalAsset: &clptypes.Asset{Symbol: ext},
				WBasisPoints: sdk.NewInt(int64(1 + rng.Intn(1500))), Asymmetry: sdk.ZeroInt()})
			return err
		})
		cls = "remliq"
	}
	h.out.Hist["clp."+cls+"."+res]++
	for _, d := range w.denoms[1:] {
		h.syncPool(d)
	}
	h.syncBal(w.ModuleAddr(clptypes.ModuleName))
	h.observe("clp." + cls)
}

func (h *hist) doSwap(sent, recv string, amt *big.Int) {
	w := h.w
	res := w.Tx(func(ctx sdk.Context) error {
		_, err := w.csrv.Swap(sdk.WrapSDKContext(ctx), &clptypes.MsgSwap{Signer: h.lp.String(), SentAsset: &clptypes.Asset{Symbol: sent}, ReceivedAsset: &clptypes.Asset{Symbol: recv},
			SentAmount: sdk.NewUintFromBigInt(amt), MinReceivingAmount: sdk.ZeroUint()})
		return err
	})
	h.out.Hist["clp.swap."+res]++
	for _, d := range w.denoms[1:] {
		h.syncPool(d)
	}
	h.syncBal(w.ModuleAddr(clptypes.ModuleName))
	h.observe("clp.swap")
}

func (h *hist) opParams() {
	w, rng := h.w, h.rng
	p := w.app.MarginKeeper.GetParams(w.ctx)
	switch rng.Intn(17) {
	case 12, 13: // the administrator closes everything: the real MsgAdminCloseAll raises the safety factor to 100
		// (and zeroes the force-close fund percentage unless the fund cut is asked for); the next epoch hook
		// then liquidates positions that still have value — collateral and fund share leave the module
		h.adminCloseAll(rng.Bool())
		return
	case 15, 16: // the pool-open threshold: pools whose recorded health is at or below it are locked for opening
		p.PoolOpenThreshold = h.decChoice("0.1", "0.5", "0.9", "0.93", "0.99", "1")
	case 14:
		p.SafetyFactor = h.decChoice("2", "10", "100", "1.5", "1000")
		p.ForceCloseFundPercentage = h.decChoice("0.1", "0.5", "0")
	case 8: // the optional fund address fields left out of the message: stored empty, nothing validates them
		p.IncrementalInterestPaymentFundAddress = ""
	case 9:
		p.ForceCloseFundAddress = ""
	case 10:
		p.IncrementalInterestPaymentFundAddress = ""
		p.ForceCloseFundAddress = ""
	case 11:
		p.IncrementalInterestPaymentFundPercentage = h.decChoice("0.1", "0", "1", "0.5")
		p.ForceCloseFundPercentage = h.decChoice("0.1", "0", "1", "0.5")
		if rng.Bool() {
			p.IncrementalInterestPaymentFundAddress = ""
		} else {
			p.ForceCloseFundAddress = ""
		}
	case 0:
		p.IncrementalInterestPaymentEnabled = !p.IncrementalInterestPaymentEnabled
	case 1:
		p.SafetyFactor = h.decChoice("1.05", "1.3", "1.9", "100", "0.5", "0", "0", "0.000000000000000001", "1", "1.05")
	case 2:
		p.InterestRateMax = h.decChoice("3", "1", "0.5")
		p.InterestRateIncrease = h.decChoice("1", "0.1")
	case 3: // UpdateParams validates neither fund address: the margin module account, an sdk module account, or the
		// clp module account itself (the sender of every fund payment) — all refused as recipients by x/bank
		p.IncrementalInterestPaymentFundAddress = h.blockedChoice().String()
	case 4:
		p.ForceCloseFundAddress = h.blockedChoice().String()
	case 5:
		p.IncrementalInterestPaymentFundAddress = h.fund.String()
		p.ForceCloseFundAddress = h.fund.String()
	case 6:
		p.EpochLength = []int64{1, 2, 3, 5}[rng.Intn(4)]
	default:
		p.IncrementalInterestPaymentFundPercentage = h.decChoice("0.1", "0", "1")
		p.ForceCloseFundPercentage = h.decChoice("0.1", "0", "1")
	}
	h.setParams(&p)
}

type openHit struct {
	coll *big.Int
	lev  sdk.Dec
}

// solveOpenBoundary searches, on discarded branches of the live state and through the real message server
// and keeper only, for (collateral, leverage) whose opened position has health EXACTLY equal to the safety
// factor: the open is tried on a branch in which the safety factor is 0 (so that it goes through whatever
// the guard is), the stored position is valued in the stored pool with CLPSwap, and custody value / debt is
// compared with the factor.  Health is about leverage/(leverage-1) * (1-fee)^2 whatever the depth, so the
// leverages tried are those around the solution of that equation, and the collaterals small multiples of 20
// (so that factor * debt can be integral).
func (h *hist) solveOpenBoundary(t sdk.AccAddress, coll, bor string, sf sdk.Dec, want int) []openHit {
	w := h.w
	k := w.app.MarginKeeper
	fee := w.app.ClpKeeper.GetSwapFeeParams(w.ctx).DefaultSwapFeeRate
	keep := sdk.OneDec().Sub(fee)
	r := sf.Quo(keep.Mul(keep)) // leverage/(leverage-1) wanted
	if !r.GT(sdk.OneDec()) {
		return nil
	}
	lev0 := r.Quo(r.Sub(sdk.OneDec()))
	step := sdk.MustNewDecFromStr("0.01")
	lev0 = sdk.NewDecFromInt(lev0.Quo(step).TruncateInt()).Mul(step)
	poolSym := coll
	if coll == "rowan" {
		poolSym = bor
	}
	var hits []openHit
	trials := 0
	for dl := int64(-4); dl <= 4 && len(hits) < want; dl++ {
		lev := lev0.Add(step.MulInt64(dl))
		if lev.LTE(sdk.OneDec()) {
			continue
		}
		for c := int64(20); c <= 6000 && len(hits) < want; c += 20 {
			trials++
			br, _ := w.ctx.CacheContext()
			ok := protect(func() string {
				p := k.GetParams(br)
				p.SafetyFactor = sdk.ZeroDec()
				k.SetParams(br, &p)
				id := k.GetMTPCount(br) + 1
				if _, err := w.msrv.Open(sdk.WrapSDKContext(br), &margintypes.MsgOpen{Signer: t.String(), CollateralAsset: coll,
					CollateralAmount: sdk.NewUint(uint64(c)), BorrowAsset: bor, Position: margintypes.Position_LONG, Leverage: lev}); err != nil {
					return "no"
				}
				m, err := k.GetMTP(br, t.String(), id)
				if err != nil || m.Liabilities.IsZero() {
					return "no"
				}
				pool, err := w.app.ClpKeeper.GetPool(br, poolSym)
				if err != nil {
					return "no"
				}
				val, err := k.CLPSwap(br, m.CustodyAmount, m.CollateralAsset, pool)
				if err != nil {
					return "no"
				}
				if sdk.NewDecFromBigInt(val.BigInt()).Quo(sdk.NewDecFromBigInt(m.Liabilities.BigInt())).Equal(sf) {
					return "hit"
				}
				return "no"
			})
			if ok == "hit" {
				hits = append(hits, openHit{big.NewInt(c), lev})
			}
		}
	}
	h.out.Hist["openboundary.trials"] += trials
	return hits
}

func (h *hist) blockedChoice() sdk.AccAddress {
	return []sdk.AccAddress{h.blocked, h.blocked2, h.w.ModuleAddr(clptypes.ModuleName)}[h.rng.Intn(3)]
}

func (h *hist) adminCloseAll(takeFund bool) {
	msg := &margintypes.MsgAdminCloseAll{Signer: h.adm.String(), TakeMarginFund: takeFund}
	if err := msg.ValidateBasic(); err != nil {
		panic(err)
	}
	h.txPlain(func(ctx sdk.Context) error {
		_, err := h.w.msrv.AdminCloseAll(sdk.WrapSDKContext(ctx), msg)
		return err
	})
	h.emitParams()
	h.out.Hist["admincloseall"]++
}

func (h *hist) setParams(p *margintypes.Params) {
	h.adminParams(p)
	h.emitParams()
	h.out.Hist["params"]++
}

// directed histories: the configurations in which the three defects of the pinned tree fire
// (F14 failed interest fund transfer in the hook and in a mid-epoch Close; F14b failed liquidation
// after TakeOutCustody; F14c a position between two non-native assets), so that a regression of a
// repair is found on every run and not only when the random generator happens to get there
func (h *hist) directed(kind int) {
	w := h.w
	k := w.app.MarginKeeper
	p := k.GetParams(w.ctx)
	p.LeverageMax = sdk.NewDec(2)
	p.SafetyFactor = sdk.MustNewDecFromStr("1.05")
	p.InterestRateMin = sdk.MustNewDecFromStr("0.005")
	p.InterestRateMax = sdk.NewDec(3)
	p.EpochLength = 2
	p.IncrementalInterestPaymentEnabled = true
	p.IncrementalInterestPaymentFundPercentage = sdk.MustNewDecFromStr("0.1")
	p.ForceCloseFundPercentage = sdk.MustNewDecFromStr("0.1")
	p.MaxOpenPositions = 10000
	p.RowanCollateralEnabled = true
	h.setParams(&p)
	for !h.opBlock() { // to an epoch boundary: pool health and rate are set
	}
	t := h.traders[0]
	amt := func(sym string, native bool) *big.Int {
		return new(big.Int).Quo(h.poolDepth(sym, native), big.NewInt(1000))
	}
	switch kind {
	case 0: // F14 in the hook
		h.doOpen(t, "rowan", "cusdc", amt("cusdc", true), margintypes.Position_LONG, sdk.NewDec(2))
		h.doOpen(h.traders[1], "ceth", "rowan", amt("ceth", false), margintypes.Position_LONG, sdk.NewDec(2))
		p.IncrementalInterestPaymentFundAddress = h.blocked.String()
		h.setParams(&p)
		for !h.opBlock() {
		}
	case 1: // F14 in a Close in mid-epoch
		h.doOpen(t, "rowan", "cusdc", amt("cusdc", true), margintypes.Position_LONG, sdk.NewDec(2))
		p.IncrementalInterestPaymentFundAddress = h.blocked.String()
		h.setParams(&p)
		for h.opBlock() {
		}
		h.doClose(t, k.GetMTPCount(w.ctx))
	case 2: // F14b: liquidation with a refused fund transfer in Repay
		h.doOpen(t, "rowan", "cusdc", amt("cusdc", true), margintypes.Position_LONG, sdk.NewDec(2))
		h.doOpen(h.traders[1], "cusdc", "rowan", amt("cusdc", false), margintypes.Position_LONG, sdk.MustNewDecFromStr("1.5"))
		p.ForceCloseFundAddress = h.blocked.String()
		p.SafetyFactor = sdk.NewDec(100) // what AdminCloseAll sets
		h.setParams(&p)
		for !h.opBlock() {
		}
	case 3: // F14c: a position between two non-native assets, and a regular one in the second pool
		// (its nonsensical valuation passes the health test only if the pool holds more external than native asset)
		for i := 0; i < 3 && h.poolDepth("cusdc", false).Cmp(h.poolDepth("cusdc", true)) < 0; i++ {
			h.doSwap("cusdc", "rowan", new(big.Int).Mul(h.poolDepth("cusdc", false), big.NewInt(3)))
		}
		h.doOpen(t, "cusdc", "ceth", amt("cusdc", false), margintypes.Position_LONG, sdk.MustNewDecFromStr("1.5"))
		h.doOpen(h.traders[1], "rowan", "ceth", amt("ceth", true), margintypes.Position_LONG, sdk.NewDec(2))
		h.doOpen(h.traders[2], "ceth", "ceth", amt("ceth", false), margintypes.Position_LONG, sdk.NewDec(2))
		for !h.opBlock() {
		}
		for !h.opBlock() {
		}
	case 4: // the candidate of DESIGN 4/C13: dust positions, 190 % interest per epoch, then the administrator closes
		// everything (AdminCloseAll sets the safety factor to 100): after the interest payment the custody
		// left (2 units) swaps to nothing, so the pinned ForceCloseLong fails with ErrAmountTooLow after
		// TakeOutCustody has already persisted
		p.InterestRateMin = sdk.MustNewDecFromStr("1.9")
		p.SafetyFactor = sdk.MustNewDecFromStr("0.5")
		p.EpochLength = 1
		h.setParams(&p)
		h.opBlock()
		for _, a := range []int64{2, 3, 4, 5, 6, 7, 10} {
			h.doOpen(t, "rowan", "cusdc", big.NewInt(a), margintypes.Position_LONG, sdk.NewDec(2))
		}
		p.SafetyFactor = sdk.NewDec(100)
		h.setParams(&p)
		h.opBlock()
		h.opBlock()
	case 6: // the interest fund address left out of MsgUpdateParams while positions are open, fund percentage non-zero:
		// the getter panics — the hook's per-position recover swallows it, a mid-epoch Close is refused — nothing moves
		h.doOpen(t, "rowan", "cusdc", amt("cusdc", true), margintypes.Position_LONG, sdk.NewDec(2))
		h.doOpen(h.traders[1], "ceth", "rowan", amt("ceth", false), margintypes.Position_LONG, sdk.NewDec(2))
		p.IncrementalInterestPaymentFundAddress = ""
		p.IncrementalInterestPaymentFundPercentage = sdk.MustNewDecFromStr("0.5")
		h.setParams(&p)
		for !h.opBlock() {
		}
		for h.opBlock() {
		}
		h.doClose(t, 1)
		h.doAdminClose(h.adm, h.traders[1].String(), 2, true)
		p.IncrementalInterestPaymentFundPercentage = sdk.ZeroDec() // a zero percentage does not help: the getter runs first
		h.setParams(&p)
		h.doClose(t, 1)
		p.IncrementalInterestPaymentFundAddress = h.fund.String()
		h.setParams(&p)
		h.doClose(t, 1)
	case 7: // the force-close fund address left out: closes by the administrator with the fund cut, and liquidations
		h.doOpen(t, "rowan", "cusdc", amt("cusdc", true), margintypes.Position_LONG, sdk.MustNewDecFromStr("1.5"))
		h.doOpen(h.traders[1], "ceth", "rowan", amt("ceth", false), margintypes.Position_LONG, sdk.MustNewDecFromStr("1.5"))
		h.doOpen(h.traders[2], "rowan", "ceth", amt("ceth", true), margintypes.Position_LONG, sdk.MustNewDecFromStr("1.2"))
		p.ForceCloseFundAddress = ""
		p.ForceCloseFundPercentage = sdk.MustNewDecFromStr("0.5")
		h.setParams(&p)
		for !h.opBlock() {
		}
		h.doAdminClose(h.adm, t.String(), 1, true)  // return amount > 0, fund cut asked for: getter panics
		h.doAdminClose(h.adm, t.String(), 1, false) // without the fund cut the getter is not reached
		p.SafetyFactor = sdk.NewDec(100)            // liquidate the rest in the hook
		h.setParams(&p)
		for !h.opBlock() {
		}
		for !h.opBlock() {
		}
	case 8: // safety factor exactly 0 (liquidations suspended): a position whose health is pushed below the
		// shipped default 1.05 by the price is kept by the hook; then tiny, 1, 1.05, 100 at the following boundaries
		p.LeverageMax = sdk.NewDec(10)
		p.SafetyFactor = sdk.ZeroDec()
		p.IncrementalInterestPaymentEnabled = false
		h.setParams(&p)
		h.doOpen(t, "rowan", "cusdc", amt("cusdc", true), margintypes.Position_LONG, sdk.NewDec(10))
		h.doOpen(h.traders[1], "cusdc", "rowan", amt("cusdc", false), margintypes.Position_LONG, sdk.NewDec(20)) // health about 1.04: opens with factor 0
		h.doOpen(h.traders[2], "ceth", "rowan", amt("ceth", false), margintypes.Position_LONG, sdk.NewDec(2))
		h.doSwap("cusdc", "rowan", new(big.Int).Quo(h.poolDepth("cusdc", false), big.NewInt(10))) // cusdc cheaper: the first position's health drops below 1
		for !h.opBlock() {
		}
		for _, v := range []string{"0.000000000000000001", "1", "1.05", "100"} {
			p.SafetyFactor = sdk.MustNewDecFromStr(v)
			h.setParams(&p)
			for !h.opBlock() {
			}
		}
	case 9: // two positions of opposite direction in one pool at an epoch boundary: the earlier one (address order)
		// large and deep under water, the later one small, 15x, just below the safety factor against the pool as
		// it stands before the hook but above it once the earlier one's custody is back in the pool when its turn
		// comes — the hook must keep it
		p.LeverageMax = sdk.NewDec(20)
		p.EpochLength = 4
		h.setParams(&p)
		for !h.opBlock() {
		}
		e22 := pow10(22)
		h.doOpen(h.traders[0], "rowan", "cusdc", new(big.Int).Quo(new(big.Int).Mul(e22, big.NewInt(5)), big.NewInt(2)), margintypes.Position_LONG, sdk.NewDec(2))
		h.opBlock()
		h.doSwap("cusdc", "rowan", new(big.Int).Mul(e22, big.NewInt(45)))
		h.opBlock()
		h.doOpen(h.traders[1], "cusdc", "rowan", pow10(20), margintypes.Position_LONG, sdk.NewDec(15))
		h.doSwap("rowan", "cusdc", new(big.Int).Quo(new(big.Int).Mul(e22, big.NewInt(3)), big.NewInt(2)))
		for !h.opBlock() {
		}
		for !h.opBlock() {
		}
	case 10: // the hook liquidates positions that still have value: several healthy positions per pool on both
		// collateral sides, then MsgAdminCloseAll with the fund cut (safety factor 100) — the collateral left
		// after the debt goes back to the traders and the fund takes its share, out of the clp module account;
		// then again with positions between 1 and a safety factor of 2 and 10 set by MsgUpdateParams
		p.LeverageMax = sdk.NewDec(5)
		h.setParams(&p)
		openAll := func() {
			for i, d := range []string{"cusdc", "ceth"} {
				h.doOpen(h.traders[i%3], "rowan", d, amt(d, true), margintypes.Position_LONG, sdk.NewDec(2))
				h.doOpen(h.traders[(i+1)%3], d, "rowan", amt(d, false), margintypes.Position_LONG, sdk.MustNewDecFromStr("1.5"))
				h.doOpen(h.traders[(i+2)%3], "rowan", d, new(big.Int).Quo(amt(d, true), big.NewInt(7)), margintypes.Position_LONG, sdk.NewDec(3))
				h.doOpen(h.traders[i%3], d, "rowan", new(big.Int).Quo(amt(d, false), big.NewInt(3)), margintypes.Position_LONG, sdk.NewDec(4))
			}
		}
		openAll()
		h.adminCloseAll(true)
		for !h.opBlock() {
		}
		h.opBlock()
		for _, v := range []string{"2", "10"} {
			p = k.GetParams(w.ctx)
			p.SafetyFactor = sdk.MustNewDecFromStr("1.05")
			p.ForceCloseFundPercentage = sdk.MustNewDecFromStr("0.1")
			h.setParams(&p)
			openAll()
			p.SafetyFactor = sdk.MustNewDecFromStr(v)
			h.setParams(&p)
			for !h.opBlock() {
			}
			h.opBlock()
		}
	case 11: // owner closes while the pool is locked for opening: pool-open threshold raised to 0.93 through
		// MsgUpdateParams, leveraged opens push the recorded pool health to 0.95 and then 0.91 (locked: a further
		// open is refused), then the owners close, in mid-epoch and at a boundary, on both collateral sides
		p.PoolOpenThreshold = sdk.MustNewDecFromStr("0.93")
		p.EpochLength = 3
		h.setParams(&p)
		for !h.opBlock() {
		}
		big20 := func(sym string, native bool) *big.Int {
			return new(big.Int).Quo(h.poolDepth(sym, native), big.NewInt(20))
		}
		h.doOpen(h.traders[0], "rowan", "cusdc", big20("cusdc", true), margintypes.Position_LONG, sdk.NewDec(2))
		h.doOpen(h.traders[1], "rowan", "cusdc", big20("cusdc", true), margintypes.Position_LONG, sdk.NewDec(2))
		h.doOpen(h.traders[2], "rowan", "cusdc", big20("cusdc", true), margintypes.Position_LONG, sdk.NewDec(2)) // refused: locked
		h.doOpen(h.traders[0], "ceth", "rowan", big20("ceth", false), margintypes.Position_LONG, sdk.NewDec(2))
		h.doOpen(h.traders[1], "ceth", "rowan", big20("ceth", false), margintypes.Position_LONG, sdk.NewDec(2))
		h.doClose(h.traders[0], 1) // at the boundary block
		h.opBlock()
		h.doClose(h.traders[0], k.GetMTPCount(w.ctx)-1) // in mid-epoch
		h.doClose(h.traders[1], 2)
		h.doClose(h.traders[1], k.GetMTPCount(w.ctx))
		h.opBlock()
		h.opBlock()
	case 12: // opens landing exactly ON the safety factor (health == factor must be refused: a position is opened
		// only if its health exceeds it), with the neighbours one unit of collateral above and below
		for _, sfs := range []string{"1.05", "1.5"} {
			p = k.GetParams(w.ctx)
			p.LeverageMax = sdk.NewDec(20)
			p.SafetyFactor = sdk.MustNewDecFromStr(sfs)
			h.setParams(&p)
			for _, side := range [][2]string{{"cusdc", "rowan"}, {"rowan", "cusdc"}} {
				for _, hit := range h.solveOpenBoundary(t, side[0], side[1], p.SafetyFactor, 2) {
					for _, dc := range []int64{0, 1, -1} {
						h.doOpen(t, side[0], side[1], new(big.Int).Add(hit.coll, big.NewInt(dc)), margintypes.Position_LONG, hit.lev)
					}
					h.out.Hist["openboundary.hit."+sfs]++
				}
			}
		}
		for !h.opBlock() {
		}
	case 13: // both fund addresses set to the clp module account's own address (the account the fund payments are sent
		// FROM), fund percentages 0.5: the bank refuses the recipient, so interest payments fail and are skipped and
		// liquidations with a fund cut fail and are discarded; healthy positions on both sides, an interest epoch, a
		// mid-epoch Close, AdminClose with the fund cut, then everything liquidated
		clp := w.ModuleAddr(clptypes.ModuleName).String()
		h.doOpen(t, "rowan", "cusdc", amt("cusdc", true), margintypes.Position_LONG, sdk.NewDec(2))
		h.doOpen(h.traders[1], "cusdc", "rowan", amt("cusdc", false), margintypes.Position_LONG, sdk.MustNewDecFromStr("1.5"))
		h.doOpen(h.traders[2], "ceth", "rowan", amt("ceth", false), margintypes.Position_LONG, sdk.NewDec(2))
		h.doOpen(t, "rowan", "ceth", amt("ceth", true), margintypes.Position_LONG, sdk.NewDec(3))
		p.IncrementalInterestPaymentFundAddress = clp
		p.ForceCloseFundAddress = clp
		p.IncrementalInterestPaymentFundPercentage = sdk.MustNewDecFromStr("0.5")
		p.ForceCloseFundPercentage = sdk.MustNewDecFromStr("0.5")
		h.setParams(&p)
		for !h.opBlock() {
		}
		for h.opBlock() {
		}
		h.doClose(t, 1)
		h.doAdminClose(h.adm, h.traders[1].String(), 2, true)
		h.adminCloseAll(true)
		for !h.opBlock() {
		}
		for !h.opBlock() {
		}
	case 14: // barely leveraged positions (leverage 1.001 .. 1.01: health 100 .. 1000) on both collateral sides while
		// the administrator closes everything (safety factor 100): the hook must keep those above 100; then 1000
		for i, lv := range []string{"1.005", "1.001", "1.01", "1.02"} {
			h.doOpen(h.traders[i%3], "rowan", "cusdc", amt("cusdc", true), margintypes.Position_LONG, sdk.MustNewDecFromStr(lv))
			h.doOpen(h.traders[(i+1)%3], "ceth", "rowan", amt("ceth", false), margintypes.Position_LONG, sdk.MustNewDecFromStr(lv))
		}
		h.adminCloseAll(true)
		for !h.opBlock() {
		}
		p = k.GetParams(w.ctx)
		p.SafetyFactor = sdk.NewDec(1000)
		h.setParams(&p)
		for !h.opBlock() {
		}
		for !h.opBlock() {
		}
	case 5: // every pool at once: positions on both sides of every pool, two epoch boundaries, everything closed
		// again — a lookup of "the positions of pool X" that also returns those of a pool whose symbol
		// merely starts with X (or of X + the start of an address) shows here as custody moved on the wrong pool
		n := 0
		for _, d := range w.denoms[1:] {
			h.doOpen(h.traders[n%3], "rowan", d, amt(d, true), margintypes.Position_LONG, sdk.NewDec(2))
			h.doOpen(h.traders[(n+1)%3], d, "rowan", amt(d, false), margintypes.Position_LONG, sdk.MustNewDecFromStr("1.5"))
			n++
		}
		for !h.opBlock() {
		}
		for !h.opBlock() {
		}
		for _, m := range k.GetAllMTPS(w.ctx) {
			a, _ := sdk.AccAddressFromBech32(m.Address)
			h.doClose(a, m.Id)
		}
		h.opBlock()
	}
	h.out.Hist[fmt.Sprintf("directed.%d", kind)]++
}

// forcedByHook finds, through the module's own entry point only (Keeper.BeginBlocker on discarded
// branches of the live state), which positions the coming epoch hook removes and what health each of
// them has *when its turn comes*: the hook is run on a branch from which that position and every
// later position of its pool (store order = address, id) have been taken out with DestroyMTP — the
// pool record is left as it is, so the earlier positions are processed exactly as in the full run —
// and the position is then valued with UpdateMTPHealth in the pool record that run leaves behind.
func (h *hist) forcedByHook() []struct{ health, tag, state string } {
	w := h.w
	k := w.app.MarginKeeper
	var out []struct{ health, tag, state string }
	before := k.GetAllMTPS(w.ctx)
	if len(before) == 0 {
		return nil
	}
	full, _ := w.ctx.CacheContext()
	if protect(func() string { k.BeginBlocker(full); return "ok" }) != "ok" {
		return nil
	}
	poolOf := func(m *margintypes.MTP) string {
		if m.CollateralAsset == "rowan" {
			return m.CustodyAsset
		}
		return m.CollateralAsset
	}
	for i, m := range before {
		if _, err := k.GetMTP(full, m.Address, m.Id); err == nil {
			continue // still stored after the hook
		}
		hs := "nohealth"
		state := ""
		br, _ := w.ctx.CacheContext()
		r := protect(func() string {
			for _, later := range before[i:] {
				if poolOf(later) == poolOf(m) {
					if err := k.DestroyMTP(br, later.Address, later.Id); err != nil {
						return "err"
					}
				}
			}
			k.BeginBlocker(br)
			pool, err := w.app.ClpKeeper.GetPool(br, poolOf(m))
			if err != nil {
				return "err"
			}
			// the raw state at its turn, for the Lean judge (independent of the keeper's own health function)
			state = "P=" + poolS(&pool) + " M=" + mtpS(m)
			hh, err := k.UpdateMTPHealth(br, *m, pool)
			if err != nil {
				return "err"
			}
			return decS(hh)
		})
		if r != "err" && r != "panic" {
			hs = r
		}
		out = append(out, struct{ health, tag, state string }{hs, "bb.forced" + h.shape(), state})
	}
	return out
}

// next block: margin BeginBlocker (Keeper.BeginBlocker, the module's entry point; no internal helper of
// the hook is called).  At an epoch boundary the positions the hook is about to remove, and the health
// each has when its turn comes, are observed first (forcedByHook).
func (h *hist) opBlock() bool {
	w := h.w
	h.height++
	w.ctx = w.ctx.WithBlockHeight(h.height)
	h.out.Emit(fmt.Sprintf("height %d", h.height), "ok", "height", false)
	k := w.app.MarginKeeper
	p := k.GetParams(w.ctx)
	epochLen := p.EpochLength
	if epochLen <= 0 {
		epochLen = 1
	}
	boundary := h.height%epochLen == 0
	var rates []string
	var forcedList []struct{ health, tag, state string }
	if boundary {
		// environment value: the rate InterestRateComputation gives each enabled pool (read-only, on the state before the hook)
		for _, pool := range w.app.ClpKeeper.GetPools(w.ctx) {
			if k.IsPoolEnabled(w.ctx, pool.ExternalAsset.Symbol) {
				if rs := protect(func() string {
					rate, err := k.InterestRateComputation(w.ctx, *pool)
					if err != nil {
						return ""
					}
					return decS(rate)
				}); rs != "" && rs != "panic" {
					rates = append(rates, pool.ExternalAsset.Symbol+":"+rs)
				}
			}
		}
		forcedList = h.forcedByHook()
	}
	res := protect(func() string {
		k.BeginBlocker(w.ctx)
		return "ok"
	})
	h.out.Emit("bb "+commaS(rates), res, "bb."+b2s(boundary)+"."+res, boundary)
	h.observe("bb")
	if boundary {
		sf := decS(k.GetParams(w.ctx).SafetyFactor)
		for _, f := range forcedList {
			if f.health == "nohealth" {
				h.out.Emit("chk c13.forced tag="+f.tag+".nohealth 1 0", "true", "chk.forced", false)
			} else {
				h.out.Emit(fmt.Sprintf("chk c13.forced tag=%s %s %s", f.tag, f.health, sf), "true", "chk.forced", false)
			}
			if f.state != "" {
				h.out.Emit(fmt.Sprintf("chk c13.forcedstate tag=%s.state %s", f.tag, f.state), "true", "chk.forcedstate", false)
			}
		}
		h.out.Hist["bb.forcedclosed"] += len(forcedList)
	}
	return boundary
}

var adversarialSymbols = []string{"cethx", "cethsif1", "cusd", "ceth/rowan", "ceth/x", "cETH", "CETH", "ceths"}

func init() {
	families["margin"] = func(rng *Rng, n int, out *Out, replay string) {
		// pool symbols chosen adversarially for composite store keys: proper byte prefixes of one another
		// (cusd/cusdc, ceth/cethx), a symbol that is a prefix of <symbol><start of a bech32 address>
		// (ceth + "sif1…" / cethsif1), the separators the clp and margin keys use (_ and /), case variants
		all := append([]string{"rowan", "cusdc", "ceth"}, adversarialSymbols...)
		w := NewWorld(all)
		base := w.ctx
		nhist := 0
		for out.N < n {
			w.ctx, _ = base.CacheContext()
			// every history: cusdc and ceth plus 1-3 of the adversarial symbols (store order of the pools varies with them)
			w.denoms = []string{"rowan", "cusdc", "ceth"}
			extra := 1 + rng.Intn(3)
			if nhist == 5 {
				extra = len(adversarialSymbols)
			}
			if nhist < 5 {
				extra = 0
			}
			perm := append([]string{}, adversarialSymbols...)
			for i := 0; i < extra; i++ {
				j := i + rng.Intn(len(perm)-i)
				perm[i], perm[j] = perm[j], perm[i]
				w.denoms = append(w.denoms, perm[i])
			}
			h := &hist{w: w, out: out, rng: rng, fixedPools: nhist == 4, evenPools: nhist == 9 || nhist == 12}
			h.setup()
			if nhist < 15 {
				h.directed(nhist)
				nhist++
				continue
			}
			nhist++
			steps := 30 + rng.Intn(60)
			flagged := false
			for s := 0; (s < steps || flagged) && s < steps+40 && out.N < n; s++ {
				switch x := rng.Intn(100); {
				case x < 30:
					h.opOpen()
				case x < 42:
					h.opClose()
				case x < 50:
					h.opAdminClose()
				case x < 70:
					h.opPriceMove()
				case x < 75:
					h.opParams()
				default:
					if h.opBlock() && flagged {
						s = steps + 40
					}
				}
				// a configuration in which a known defect of the pinned tree can fire: stop the
				// history after the next epoch hook, so that later lines are not all false for one cause
				if h.shape() != "" {
					flagged = true
				}
			}
		}
	}
}
