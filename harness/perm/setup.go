package main

// Shared L1 set-up of group `perm` (C12, C15): the real SifchainApp (sifapp.Setup), the real message
// servers, one cached context per message (written only on success — baseapp's discipline).

import (
	"fmt"
	"math/big"
	"os"
	"runtime/debug"

	sifapp "github.com/Sifchain/sifnode/app"
	admintypes "github.com/Sifchain/sifnode/x/admin/types"
	clpkeeper "github.com/Sifchain/sifnode/x/clp/keeper"
	clptypes "github.com/Sifchain/sifnode/x/clp/types"
	trtypes "github.com/Sifchain/sifnode/x/tokenregistry/types"
	sdk "github.com/cosmos/cosmos-sdk/types"
	tmproto "github.com/tendermint/tendermint/proto/tendermint/types"
)

type env struct {
	app   *sifapp.SifchainApp
	ctx   sdk.Context // the "committed" state of the simulated chain
	clp   clptypes.MsgServer
	admin sdk.AccAddress
	accts []sdk.AccAddress
}

func addr(i int) sdk.AccAddress {
	b := make([]byte, 20)
	copy(b, []byte(fmt.Sprintf("verif-acct-%02d", i)))
	return sdk.AccAddress(b)
}

func pow10(k int) sdk.Uint {
	return sdk.NewUintFromBigInt(new(big.Int).Exp(big.NewInt(10), big.NewInt(int64(k)), nil))
}

var allPerms = []trtypes.Permission{trtypes.Permission_CLP, trtypes.Permission_IBCEXPORT, trtypes.Permission_IBCIMPORT}

// newEnv builds a fresh chain: registry entries for rowan and the given external denoms (CLP
// permission), clp policy switched to neutral values (no ratio shifting, no liquidity protection,
// no reward periods), an admin with every role, `n` funded accounts.
func newEnv(n int, denoms []string) *env {
	sifapp.SetConfig(false)
	app := sifapp.Setup(false)
	ctx := app.BaseApp.NewContext(false, tmproto.Header{Height: 1})
	e := &env{app: app, ctx: ctx, clp: clpkeeper.NewMsgServerImpl(app.ClpKeeper)}
	entries := []*trtypes.RegistryEntry{{Denom: "rowan", Decimals: 18, Permissions: []trtypes.Permission{trtypes.Permission_CLP}}}
	for _, d := range denoms {
		entries = append(entries, &trtypes.RegistryEntry{Denom: d, Decimals: 18, Permissions: []trtypes.Permission{trtypes.Permission_CLP}})
	}
	app.TokenRegistryKeeper.SetRegistry(ctx, trtypes.Registry{Entries: entries})
	app.ClpKeeper.SetPmtpRateParams(ctx, clptypes.PmtpRateParams{
		PmtpPeriodBlockRate: sdk.ZeroDec(), PmtpCurrentRunningRate: sdk.ZeroDec(), PmtpInterPolicyRate: sdk.ZeroDec()})
	app.ClpKeeper.SetParams(ctx, clptypes.Params{MinCreatePoolThreshold: 100})
	app.ClpKeeper.SetRewardParams(ctx, &clptypes.RewardParams{
		LiquidityRemovalLockPeriod: 0, LiquidityRemovalCancelPeriod: 0, RewardPeriods: nil})
	lpp := app.ClpKeeper.GetLiquidityProtectionParams(ctx)
	lpp.IsActive = false
	app.ClpKeeper.SetLiquidityProtectionParams(ctx, lpp)
	app.ClpKeeper.SetProviderDistributionParams(ctx, &clptypes.ProviderDistributionParams{DistributionPeriods: nil})
	e.admin = addr(99)
	for _, t := range []admintypes.AdminType{admintypes.AdminType_CLPDEX, admintypes.AdminType_PMTPREWARDS,
		admintypes.AdminType_TOKENREGISTRY, admintypes.AdminType_ETHBRIDGE, admintypes.AdminType_ADMIN, admintypes.AdminType_MARGIN} {
		app.AdminKeeper.SetAdminAccount(ctx, &admintypes.AdminAccount{AdminType: t, AdminAddress: e.admin.String()})
	}
	coins := sdk.NewCoins(sdk.NewCoin("rowan", sdk.NewIntFromBigInt(pow10(40).BigInt())))
	for _, d := range denoms {
		coins = coins.Add(sdk.NewCoin(d, sdk.NewIntFromBigInt(pow10(40).BigInt())))
	}
	for i := 0; i < n; i++ {
		a := addr(i)
		if err := sifapp.AddCoinsToAccount(clptypes.ModuleName, app.BankKeeper, ctx, a, coins); err != nil {
			panic(err)
		}
		e.accts = append(e.accts, a)
	}
	return e
}

// deliver runs one message the way baseapp does: ValidateBasic, then the handler on a cached
// context at height h, written back only if the handler returned no error.  A panic is an error.
func (e *env) deliver(h int64, validate func() error, run func(ctx sdk.Context) error) (err error, panicked bool) {
	if verr := validate(); verr != nil {
		return errValidate{verr}, false
	}
	cctx, write := e.ctx.WithBlockHeight(h).CacheContext()
	func() {
		defer func() {
			if r := recover(); r != nil {
				panicked = true
				err = fmt.Errorf("panic: %v", r)
				if os.Getenv("VERIF_PANIC_TRACE") != "" { // diagnosis: value and stack of a panic inside a real handler
					fmt.Fprintf(os.Stderr, "PANIC at height %d: %v\n%s\n", h, r, debug.Stack())
				}
			}
		}()
		err = run(cctx)
	}()
	if err == nil && !panicked {
		write()
	}
	return err, panicked
}

type errValidate struct{ error }
