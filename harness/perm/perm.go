package main

// family "perm" (C12): L1 matrix on the real message servers.
//   * every subset of the five permissions x entry present/absent (x unit_denom variants for
//     transfers) for the token(s) a message names, x the five AMM messages x three swap routes x
//     the three kinds of add (symmetric, selling native, buying native) x outgoing IBC transfers
//     through the real wrapper (x/ibctransfer/keeper) in front of a stub ibc-go server: only
//     "refused by the wrapper or reached ibc-go" is compared;
//   * random trials with registry edits (the real Register / Deregister / SetRegistry message
//     servers) interleaved between messages, duplicate entries, shuffled order.
// Every trial runs on a cache of the base state that is thrown away.  Compared with the Lean model:
// the registry after every edit, pass/refuse of every message, and whether a refused handler had
// written anything to its own cached state.  `chk` lines: accepted => permissions of the decision
// table held (on the implementation's own registry); refused => delivered state digest unchanged.

import (
	"context"
	"crypto/sha256"
	"encoding/hex"
	"errors"
	"fmt"
	"math/big"
	"sort"
	"strings"

	clpkeeper "github.com/Sifchain/sifnode/x/clp/keeper"
	clptypes "github.com/Sifchain/sifnode/x/clp/types"
	ibckeeper "github.com/Sifchain/sifnode/x/ibctransfer/keeper"
	ibctypes "github.com/Sifchain/sifnode/x/ibctransfer/types"
	trkeeper "github.com/Sifchain/sifnode/x/tokenregistry/keeper"
	trtypes "github.com/Sifchain/sifnode/x/tokenregistry/types"
	sdk "github.com/cosmos/cosmos-sdk/types"
	transfertypes "github.com/cosmos/ibc-go/v4/modules/apps/transfer/types"
	clienttypes "github.com/cosmos/ibc-go/v4/modules/core/02-client/types"
)

var storeNames = []string{"acc", "bank", "staking", "params", "upgrade", "gov", "mint", "distribution", "slashing", "evidence",
	"ibc", "transfer", "feegrant", "capability", "dispensation", "ethbridge", "clp", "margin", "oracle", "tokenregistry", "admin", "authz", "epochs"}

// digest of every KV pair of every store as seen through ctx
func (e *env) digest(ctx sdk.Context) string {
	h := sha256.New()
	n := 0
	for _, name := range storeNames {
		key := e.app.GetKey(name)
		if key == nil {
			continue
		}
		n++
		it := ctx.KVStore(key).Iterator(nil, nil)
		for ; it.Valid(); it.Next() {
			fmt.Fprintf(h, "%s|%x|%x\n", name, it.Key(), it.Value())
		}
		it.Close()
	}
	if n < 8 {
		panic("store keys not found")
	}
	return hex.EncodeToString(h.Sum(nil))[:16]
}

type stubIBC struct{ reached *bool }

func (s stubIBC) Transfer(context.Context, *transfertypes.MsgTransfer) (*transfertypes.MsgTransferResponse, error) {
	*s.reached = true
	return &transfertypes.MsgTransferResponse{}, nil
}

func regDump(r trtypes.Registry) string {
	if len(r.Entries) == 0 {
		return "-"
	}
	parts := make([]string, len(r.Entries))
	for i, en := range r.Entries {
		parts[i] = entryDump(en)
	}
	return strings.Join(parts, ";")
}

func entryDump(en *trtypes.RegistryEntry) string {
	u := en.UnitDenom
	if u == "" {
		u = "-"
	}
	p := ""
	for _, x := range en.Permissions {
		p += fmt.Sprintf("%d", int(x))
	}
	if p == "" {
		p = "-"
	}
	return fmt.Sprintf("%s,%s,%s", en.Denom, u, p)
}

var fivePerms = []trtypes.Permission{trtypes.Permission_CLP, trtypes.Permission_IBCEXPORT, trtypes.Permission_IBCIMPORT,
	trtypes.Permission_DISABLE_BUY, trtypes.Permission_DISABLE_SELL}

func permsOfMask(mask int) []trtypes.Permission {
	var ps []trtypes.Permission
	for i, p := range fivePerms {
		if mask&(1<<i) != 0 {
			ps = append(ps, p)
		}
	}
	return ps
}

// cfg: -1 = no entry, else permission mask
func entryOf(denom string, cfg int, unit string) *trtypes.RegistryEntry {
	return &trtypes.RegistryEntry{Denom: denom, Decimals: 18, Permissions: permsOfMask(cfg), UnitDenom: unit}
}

type permMsg struct {
	kind                       string // createpool add rm rmu swap transfer
	route                      string // histogram / tag detail
	ext, sent, received, token string
	amount                     int64 // transfer amount
	r, a                       sdk.Uint
}

const (
	tokA = "cusdc" // pool
	tokB = "ceth"  // pool
	tokC = "cdash" // no pool: CreatePool
	tokX = "xusdc" // never has a pool; alias experiments
)

type permEnv struct {
	*env
	tr    trtypes.MsgServer
	user  sdk.AccAddress
	whale sdk.AccAddress
}

func newPermEnv() *permEnv {
	e := newEnv(2, []string{tokA, tokB, tokC, tokX})
	pe := &permEnv{env: e, tr: trkeeper.NewMsgServerImpl(e.app.TokenRegistryKeeper), user: e.accts[0], whale: e.accts[1]}
	for _, p := range []string{tokA, tokB} {
		msg := &clptypes.MsgCreatePool{Signer: pe.whale.String(), ExternalAsset: &clptypes.Asset{Symbol: p}, NativeAssetAmount: pow10(24), ExternalAssetAmount: pow10(24)}
		if err, _ := e.deliver(2, msg.ValidateBasic, func(ctx sdk.Context) error { _, err := e.clp.CreatePool(sdk.WrapSDKContext(ctx), msg); return err }); err != nil {
			panic(err)
		}
		add := &clptypes.MsgAddLiquidity{Signer: pe.user.String(), ExternalAsset: &clptypes.Asset{Symbol: p}, NativeAssetAmount: pow10(21), ExternalAssetAmount: pow10(21)}
		if err, _ := e.deliver(2, add.ValidateBasic, func(ctx sdk.Context) error { _, err := e.clp.AddLiquidity(sdk.WrapSDKContext(ctx), add); return err }); err != nil {
			panic(err)
		}
	}
	return pe
}

// applyEdit runs one registry message of the real tokenregistry server on ctx (committed to ctx).
func (pe *permEnv) setRegistry(ctx sdk.Context, entries []*trtypes.RegistryEntry) {
	msg := &trtypes.MsgSetRegistry{From: pe.admin.String(), Registry: &trtypes.Registry{Entries: entries}}
	if err := msg.ValidateBasic(); err != nil {
		panic(err)
	}
	if _, err := pe.tr.SetRegistry(sdk.WrapSDKContext(ctx), msg); err != nil {
		panic(err)
	}
}
func (pe *permEnv) register(ctx sdk.Context, en *trtypes.RegistryEntry) {
	msg := &trtypes.MsgRegister{From: pe.admin.String(), Entry: en}
	if err := msg.ValidateBasic(); err != nil {
		panic(err)
	}
	if _, err := pe.tr.Register(sdk.WrapSDKContext(ctx), msg); err != nil {
		panic(err)
	}
}
func (pe *permEnv) deregister(ctx sdk.Context, denom string) {
	msg := &trtypes.MsgDeregister{From: pe.admin.String(), Denom: denom}
	if err := msg.ValidateBasic(); err != nil {
		panic(err)
	}
	if _, err := pe.tr.Deregister(sdk.WrapSDKContext(ctx), msg); err != nil {
		panic(err)
	}
}

func isRegistryRefusal(err error) bool {
	return errors.Is(err, clptypes.ErrTokenNotSupported) || errors.Is(err, trtypes.ErrPermissionDenied) ||
		errors.Is(err, trtypes.ErrNotAllowedToSellAsset) || errors.Is(err, trtypes.ErrNotAllowedToBuyAsset) ||
		errors.Is(err, ibctypes.ErrAmountTooLowToConvert)
}

// run delivers one AMM message / transfer on a cache of tctx and emits the lines.
func (pe *permEnv) run(tctx sdk.Context, m permMsg, out *Out) {
	reg := pe.app.TokenRegistryKeeper.GetRegistry(tctx)
	R, A := big.NewInt(0), big.NewInt(0)
	rr, aa := big.NewInt(0), big.NewInt(0)
	if m.kind == "add" {
		pool, err := pe.app.ClpKeeper.GetPool(tctx, m.ext)
		if err != nil {
			panic(err)
		}
		nd, ed := pool.ExtractDebt(pool.NativeAssetBalance, pool.ExternalAssetBalance, false)
		R, A, rr, aa = nd.BigInt(), ed.BigInt(), m.r.BigInt(), m.a.BigInt()
	}
	d := func(s string) string {
		if s == "" {
			return "-"
		}
		return s
	}
	fields := fmt.Sprintf("rowan %s %s %s %s %s %s %s %s %s", d(m.ext), d(m.sent), d(m.received), d(m.token), b2s(m.amount > 0), R, A, rr, aa)
	before := pe.digest(tctx)
	mctx, write := tctx.WithBlockHeight(5).CacheContext()
	reached := false
	var err error
	panicked := false
	func() {
		defer func() {
			if r := recover(); r != nil {
				panicked = true
				err = fmt.Errorf("panic: %v", r)
			}
		}()
		w := sdk.WrapSDKContext(mctx)
		switch m.kind {
		case "createpool":
			msg := &clptypes.MsgCreatePool{Signer: pe.user.String(), ExternalAsset: &clptypes.Asset{Symbol: m.ext}, NativeAssetAmount: pow10(20), ExternalAssetAmount: pow10(20)}
			if err = msg.ValidateBasic(); err == nil {
				_, err = pe.clp.CreatePool(w, msg)
			}
		case "add":
			msg := &clptypes.MsgAddLiquidity{Signer: pe.user.String(), ExternalAsset: &clptypes.Asset{Symbol: m.ext}, NativeAssetAmount: m.r, ExternalAssetAmount: m.a}
			if err = msg.ValidateBasic(); err == nil {
				_, err = pe.clp.AddLiquidity(w, msg)
			}
		case "rm":
			msg := &clptypes.MsgRemoveLiquidity{Signer: pe.user.String(), ExternalAsset: &clptypes.Asset{Symbol: m.ext}, WBasisPoints: sdk.NewInt(100), Asymmetry: sdk.ZeroInt()}
			if err = msg.ValidateBasic(); err == nil {
				_, err = pe.clp.RemoveLiquidity(w, msg)
			}
		case "rmu":
			msg := &clptypes.MsgRemoveLiquidityUnits{Signer: pe.user.String(), ExternalAsset: &clptypes.Asset{Symbol: m.ext}, WithdrawUnits: pow10(15)}
			if err = msg.ValidateBasic(); err == nil {
				_, err = pe.clp.RemoveLiquidityUnits(w, msg)
			}
		case "swap":
			msg := &clptypes.MsgSwap{Signer: pe.user.String(), SentAsset: &clptypes.Asset{Symbol: m.sent}, ReceivedAsset: &clptypes.Asset{Symbol: m.received}, SentAmount: pow10(18), MinReceivingAmount: sdk.ZeroUint()}
			if err = msg.ValidateBasic(); err == nil {
				_, err = pe.clp.Swap(w, msg)
			}
		case "transfer":
			srv := ibckeeper.NewMsgServerImpl(stubIBC{&reached}, pe.app.BankKeeper, pe.app.TokenRegistryKeeper)
			msg := &transfertypes.MsgTransfer{SourcePort: "transfer", SourceChannel: "channel-0", Token: sdk.Coin{Denom: m.token, Amount: sdk.NewInt(m.amount)},
				Sender: pe.user.String(), Receiver: "cosmos1xyz", TimeoutHeight: clienttypes.NewHeight(0, 1000)}
			_, err = srv.Transfer(w, msg)
		}
	}()
	ans, cls := "", ""
	accepted := err == nil && !panicked
	switch {
	case accepted && m.kind == "transfer" && !reached:
		ans, cls = "lost", "lost"
	case accepted:
		ans, cls = "pass", "pass"
	case panicked || isRegistryRefusal(err):
		pre := "0"
		if pe.digest(mctx) != before {
			pre = "1"
		}
		ans, cls = "refuse prewrite="+pre, "refuse"
	default:
		ans, cls = "other:"+strings.ReplaceAll(fmt.Sprint(err), " ", "_"), "other"
	}
	if accepted {
		write()
	}
	after := pe.digest(tctx)
	out.Emit(fmt.Sprintf("msg %s %s reg=%s", m.kind, fields, regDump(reg)), ans, m.kind+"."+m.route+"."+cls, true)
	out.Emit(fmt.Sprintf("chk c12.accepted tag=%s.%s.accepted %s %s %s %s", m.kind, m.route, regDump(reg), m.kind, b2s(accepted), fields), "true", "chk.accepted", false)
	out.Emit(fmt.Sprintf("chk c12.refused tag=%s.%s.refused %s %s", m.kind, m.route, b2s(accepted), b2s(before == after)), "true", "chk.refused", false)
}

// the messages of the matrix: token roles t1 (and t2) are filled in by the caller
func matrixMsgs() []permMsg {
	u := sdk.NewUint
	_ = u
	return []permMsg{
		{kind: "createpool", route: "ext", ext: tokC},
		{kind: "rm", route: "ext", ext: tokA},
		{kind: "rmu", route: "ext", ext: tokA},
		{kind: "add", route: "sym", ext: tokA, r: pow10(18), a: pow10(18)},
		{kind: "add", route: "sellnative", ext: tokA, r: pow10(18).MulUint64(2), a: pow10(18)},
		{kind: "add", route: "sellnative0", ext: tokA, r: pow10(18), a: sdk.ZeroUint()},
		{kind: "add", route: "buynative", ext: tokA, r: pow10(18), a: pow10(18).MulUint64(3)},
		{kind: "add", route: "buynative0", ext: tokA, r: sdk.ZeroUint(), a: pow10(18)},
		{kind: "swap", route: "r2e", sent: "rowan", received: tokA},
		{kind: "swap", route: "e2r", sent: tokA, received: "rowan"},
		{kind: "swap", route: "e2e", sent: tokA, received: tokB},
		{kind: "transfer", route: "out", token: tokA, amount: 1000},
		{kind: "transfer", route: "zero", token: tokA, amount: 0},
	}
}

// tokens a message consults (for the exhaustive part): first, second ("" = none)
func tokensOf(m permMsg) (string, string) {
	switch m.kind {
	case "add":
		return m.ext, "rowan"
	case "swap":
		return m.sent, m.received
	case "transfer":
		return m.token, ""
	}
	return m.ext, ""
}

func init() {
	families["perm"] = func(rng *Rng, n int, out *Out, replay string) {
		pe := newPermEnv()
		base := pe.ctx
		all := []string{"rowan", tokA, tokB, tokC}
		good := func(except ...string) []*trtypes.RegistryEntry {
			var es []*trtypes.RegistryEntry
			for _, t := range all {
				skip := false
				for _, x := range except {
					if x == t {
						skip = true
					}
				}
				if !skip {
					es = append(es, &trtypes.RegistryEntry{Denom: t, Decimals: 18, Permissions: []trtypes.Permission{trtypes.Permission_CLP, trtypes.Permission_IBCEXPORT, trtypes.Permission_IBCIMPORT}})
				}
			}
			return es
		}
		emitReg := func(ctx sdk.Context, line string) {
			out.Emit(line, regDump(pe.app.TokenRegistryKeeper.GetRegistry(ctx)), "reg."+strings.Fields(line)[1], false)
		}
		// ---- L0: GetLiquidityAddSymmetryState on ratios around equality
		for i := 0; i < 400+n/10; i++ {
			X, Y := rng.Amount(80), rng.Amount(80)
			x, y := rng.Amount(70), rng.Amount(70)
			switch rng.Intn(6) {
			case 0: // exactly proportional
				k := big.NewInt(int64(1 + rng.Intn(1000)))
				x, y = new(big.Int).Mul(X, k), new(big.Int).Mul(Y, k)
			case 1: // one off proportional
				k := big.NewInt(int64(1 + rng.Intn(1000)))
				x, y = new(big.Int).Mul(X, k), new(big.Int).Add(new(big.Int).Mul(Y, k), big.NewInt(int64(rng.Intn(3)-1)))
				if y.Sign() < 0 {
					y.SetInt64(0)
				}
			case 2:
				x = big.NewInt(0)
			case 3:
				y = big.NewInt(0)
			}
			ans := protect(func() string {
				return fmt.Sprint(clpkeeper.GetLiquidityAddSymmetryState(sdk.NewUintFromBigInt(X), sdk.NewUintFromBigInt(x), sdk.NewUintFromBigInt(Y), sdk.NewUintFromBigInt(y)))
			})
			out.Emit(fmt.Sprintf("sym %s %s %s %s", X, x, Y, y), ans, "sym."+ans, true)
		}
		// ---- exhaustive matrix: every permission subset x present/absent for the tokens the message names
		cfgs := []int{-1}
		for mk := 0; mk < 32; mk++ {
			cfgs = append(cfgs, mk)
		}
		for _, m := range matrixMsgs() {
			t1, t2 := tokensOf(m)
			c2s := []int{-2}
			if t2 != "" {
				c2s = cfgs
			}
			units := []string{""}
			if m.kind == "transfer" {
				units = []string{"", t1, tokX}
			}
			for _, c1 := range cfgs {
				for _, c2 := range c2s {
					for _, unit := range units {
						if c1 == -1 && unit != "" {
							continue
						}
						tctx, _ := base.CacheContext()
						entries := good(t1, t2)
						if c1 >= 0 {
							entries = append(entries, entryOf(t1, c1, unit))
						}
						if c2 >= 0 {
							entries = append(entries, entryOf(t2, c2, ""))
						}
						out.Emit("reset", "ok", "reset", false)
						pe.setRegistry(tctx, entries)
						emitReg(tctx, "reg set "+regDump(trtypes.Registry{Entries: entries}))
						pe.run(tctx, m, out)
					}
				}
			}
		}
		// ---- random trials: edits through the real registry messages interleaved with messages
		msgs := matrixMsgs()
		for t := 0; t < n; t++ {
			tctx, _ := base.CacheContext()
			out.Emit("reset", "ok", "reset", false)
			// start: a random registry, possibly with duplicates and aliases, shuffled
			var entries []*trtypes.RegistryEntry
			for _, tk := range append(all, tokX) {
				k := 1
				if rng.Chance(1, 6) {
					k = 2 // duplicate denom: GetEntry must take the first
				}
				for j := 0; j < k; j++ {
					if rng.Chance(1, 7) {
						continue
					}
					mask := rng.Intn(32)
					if rng.Chance(1, 2) {
						mask |= 1 // mostly CLP so that later guards are reached
					}
					unit := ""
					switch rng.Intn(8) {
					case 0:
						unit = tk
					case 1:
						unit = all[rng.Intn(len(all))]
					}
					entries = append(entries, entryOf(tk, mask, unit))
				}
			}
			for i := len(entries) - 1; i > 0; i-- {
				j := rng.Intn(i + 1)
				entries[i], entries[j] = entries[j], entries[i]
			}
			pe.setRegistry(tctx, entries)
			emitReg(tctx, "reg set "+regDump(trtypes.Registry{Entries: entries}))
			rounds := 1 + rng.Intn(4)
			for r := 0; r < rounds; r++ {
				if r > 0 || rng.Chance(1, 2) {
					tk := append(all, tokX)[rng.Intn(5)]
					if rng.Chance(1, 2) {
						mask := rng.Intn(32)
						if rng.Chance(2, 3) {
							mask |= 1
						}
						unit := ""
						if rng.Chance(1, 6) {
							unit = all[rng.Intn(len(all))]
						}
						en := entryOf(tk, mask, unit)
						pe.register(tctx, en)
						emitReg(tctx, "reg register "+entryDump(en))
					} else {
						pe.deregister(tctx, tk)
						emitReg(tctx, "reg deregister "+tk)
					}
				}
				m := msgs[rng.Intn(len(msgs))]
				if m.kind == "transfer" && rng.Chance(1, 3) {
					m.token = append(all, tokX)[rng.Intn(5)]
				}
				if m.kind == "swap" && rng.Chance(1, 4) {
					m.sent, m.received = tokB, "rowan"
					m.route = "e2r.b"
				}
				if m.kind == "createpool" {
					if _, err := pe.app.ClpKeeper.GetPool(tctx, m.ext); err == nil {
						continue // the pool was created earlier in this trial: the body would fail
					}
				}
				pe.run(tctx, m, out)
			}
		}
		keys := make([]string, 0)
		for k := range out.Hist {
			if strings.HasSuffix(k, ".other") || strings.HasSuffix(k, ".lost") {
				keys = append(keys, k)
			}
		}
		sort.Strings(keys)
		out.Extra["unexpected_classes"] = keys
	}
}
