package main

// family "perm" (C12): L1 matrix on the real message servers.
//   * every subset of the five permissions x entry present/absent (x unit_denom variants for
//     transfers) for the token(s) a message names, x the five AMM messages x three swap routes x
//     the three kinds of add (symmetric, selling native, buying native) x outgoing IBC transfers
//     through the real wrapper (x/ibctransfer/keeper) in front of a stub ibc-go server: only
//     "refused by the wrapper or reached ibc-go" is compared;
//   * random trials with registry edits (the real Register / Deregister / SetRegistry message
//     servers) interleaved between messages, duplicate entries, shuffled order.
// Every trial runs on a cache of the base state that is thrown away.  Compared with the Lean model:
// the registry after every edit, pass/refuse of every message, and whether a refused handler had
// written anything to its own cached state.  `chk` lines: accepted => permissions of the decision
// table held (on the implementation's own registry); refused => delivered state digest unchanged.

import (
	"context"
	"crypto/sha256"
	"encoding/hex"
	"errors"
	"fmt"
	"math/big"
	"sort"
	"strings"

	clpkeeper "github.com/Sifchain/sifnode/x/clp/keeper"
	clptypes "github.com/Sifchain/sifnode/x/clp/types"
	ibckeeper "github.com/Sifchain/sifnode/x/ibctransfer/keeper"
	ibctypes "github.com/Sifchain/sifnode/x/ibctransfer/types"
	trkeeper "github.com/Sifchain/sifnode/x/tokenregistry/keeper"
	trtypes "github.com/Sifchain/sifnode/x/tokenregistry/types"
	sdk "github.com/cosmos/cosmos-sdk/types"
	transfertypes "github.com/cosmos/ibc-go/v4/modules/apps/transfer/types"
	clienttypes "github.com/cosmos/ibc-go/v4/modules/core/02-client/types"
)

var storeNames = []string{"acc", "bank", "staking", "params", "upgrade", "gov", "mint", "distribution", "slashing", "evidence",
	"ibc", "transfer", "feegrant", "capability", "dispensation", "ethbridge", "clp", "margin", "oracle", "tokenregistry", "admin", "authz", "epochs"}

// digest of every KV pair of every store as seen through ctx
func (e *env) digest(ctx sdk.Context) string {
	h := sha256.New()
	n := 0
	for _, name := range storeNames {
		key := e.app.GetKey(name)
		if key == nil {
			continue
		}
		n++
		it := ctx.KVStore(key).Iterator(nil, nil)
		for ; it.Valid(); it.Next() {
			fmt.Fprintf(h, "%s|%x|%x\n", name, it.Key(), it.Value())
		}
		it.Close()
	}
	if n < 8 {
		panic("store keys not found")
	}
	return hex.EncodeToString(h.Sum(nil))[:16]
}

type stubIBC struct{ reached *bool }

func (s stubIBC) Transfer(context.Context, *transfertypes.MsgTransfer) (*transfertypes.MsgTransferResponse, error) {
	*s.reached = true
	return &transfertypes.MsgTransferResponse{}, nil
}

// regCore: the fields the model carries (denom, unit denom, permissions) — the answer format of `reg` lines
func regCore(r trtypes.Registry) string {
	if len(r.Entries) == 0 {
		return "-"
	}
	parts := make([]string, len(r.Entries))
	for i, en := range r.Entries {
		c := *en
		c.BaseDenom, c.IbcCounterpartyDenom, c.DisplayName, c.DisplaySymbol, c.ExternalSymbol = "", "", "", "", ""
		parts[i] = entryDump(&c)
	}
	return strings.Join(parts, ";")
}

func regDump(r trtypes.Registry) string {
	if len(r.Entries) == 0 {
		return "-"
	}
	parts := make([]string, len(r.Entries))
	for i, en := range r.Entries {
		parts[i] = entryDump(en)
	}
	return strings.Join(parts, ";")
}

func entryDump(en *trtypes.RegistryEntry) string {
	u := en.UnitDenom
	if u == "" {
		u = "-"
	}
	p := ""
	for _, x := range en.Permissions {
		p += fmt.Sprintf("%d", int(x))
	}
	if p == "" {
		p = "-"
	}
	if en.BaseDenom == "" && en.IbcCounterpartyDenom == "" && en.DisplayName == "" && en.DisplaySymbol == "" && en.ExternalSymbol == "" {
		return fmt.Sprintf("%s,%s,%s", en.Denom, u, p)
	}
	return fmt.Sprintf("%s,%s,%s,%s~%s~%s~%s~%s", en.Denom, u, p, dashed(en.BaseDenom), dashed(en.IbcCounterpartyDenom), dashed(en.DisplayName), dashed(en.DisplaySymbol), dashed(en.ExternalSymbol))
}

var fivePerms = []trtypes.Permission{trtypes.Permission_CLP, trtypes.Permission_IBCEXPORT, trtypes.Permission_IBCIMPORT,
	trtypes.Permission_DISABLE_BUY, trtypes.Permission_DISABLE_SELL}

func permsOfMask(mask int) []trtypes.Permission {
	var ps []trtypes.Permission
	for i, p := range fivePerms {
		if mask&(1<<i) != 0 {
			ps = append(ps, p)
		}
	}
	return ps
}

// cfg: -1 = no entry, else permission mask
func entryOf(denom string, cfg int, unit string) *trtypes.RegistryEntry {
	return &trtypes.RegistryEntry{Denom: denom, Decimals: 18, Permissions: permsOfMask(cfg), UnitDenom: unit}
}

type permMsg struct {
	kind                       string // createpool add rm rmu swap transfer
	route                      string // histogram / tag detail
	ext, sent, received, token string
	amount                     int64 // transfer amount
	r, a                       sdk.Uint
}

const (
	tokA = "cusdc" // pool
	tokB = "ceth"  // pool
	tokC = "cdash" // no pool: CreatePool
	tokX = "xusdc" // never has a pool; alias experiments
)

// denoms that are funded in the bank but, in the trials, appear in the registry ONLY as some other
// entry's base denom / unit denom / counterparty denom / display name / symbol — or are prefixes,
// suffixes and case variants of registered denoms.  Only the permission gate can refuse them.
var ghostPool = []string{"uatom", "CUSDC"}                                  // a pool and an LP exist
var ghostNoPool = []string{"xatom", "cusd", "cusdcx", "Cusdc", "ATOM", "owan", "cDASH", "Rowan"} // no pool: CreatePool, Transfer
const voucher = "ibc/27394FB092D2ECCD56123C74F36E4C1F926001CEADA9CA97EA622B25F41E5EB2"

type permEnv struct {
	*env
	tr    trtypes.MsgServer
	user  sdk.AccAddress
	whale sdk.AccAddress
}

func newPermEnv() *permEnv {
	e := newEnv(2, append(append([]string{tokA, tokB, tokC, tokX, voucher, strings.ToLower(voucher)}, ghostPool...), ghostNoPool...))
	pe := &permEnv{env: e, tr: trkeeper.NewMsgServerImpl(e.app.TokenRegistryKeeper), user: e.accts[0], whale: e.accts[1]}
	for _, p := range append([]string{tokA, tokB}, ghostPool...) {
		msg := &clptypes.MsgCreatePool{Signer: pe.whale.String(), ExternalAsset: &clptypes.Asset{Symbol: p}, NativeAssetAmount: pow10(24), ExternalAssetAmount: pow10(24)}
		if err, _ := e.deliver(2, msg.ValidateBasic, func(ctx sdk.Context) error { _, err := e.clp.CreatePool(sdk.WrapSDKContext(ctx), msg); return err }); err != nil {
			panic(err)
		}
		add := &clptypes.MsgAddLiquidity{Signer: pe.user.String(), ExternalAsset: &clptypes.Asset{Symbol: p}, NativeAssetAmount: pow10(21), ExternalAssetAmount: pow10(21)}
		if err, _ := e.deliver(2, add.ValidateBasic, func(ctx sdk.Context) error { _, err := e.clp.AddLiquidity(sdk.WrapSDKContext(ctx), add); return err }); err != nil {
			panic(err)
		}
	}
	return pe
}

// applyEdit runs one registry message of the real tokenregistry server on ctx (committed to ctx).
func (pe *permEnv) setRegistry(ctx sdk.Context, entries []*trtypes.RegistryEntry) {
	msg := &trtypes.MsgSetRegistry{From: pe.admin.String(), Registry: &trtypes.Registry{Entries: entries}}
	if err := msg.ValidateBasic(); err != nil {
		panic(err)
	}
	if _, err := pe.tr.SetRegistry(sdk.WrapSDKContext(ctx), msg); err != nil {
		panic(err)
	}
}
func (pe *permEnv) register(ctx sdk.Context, en *trtypes.RegistryEntry) {
	msg := &trtypes.MsgRegister{From: pe.admin.String(), Entry: en}
	if err := msg.ValidateBasic(); err != nil {
		panic(err)
	}
	if _, err := pe.tr.Register(sdk.WrapSDKContext(ctx), msg); err != nil {
		panic(err)
	}
}
func (pe *permEnv) deregister(ctx sdk.Context, denom string) {
	msg := &trtypes.MsgDeregister{From: pe.admin.String(), Denom: denom}
	if err := msg.ValidateBasic(); err != nil {
		panic(err)
	}
	if _, err := pe.tr.Deregister(sdk.WrapSDKContext(ctx), msg); err != nil {
		panic(err)
	}
}

func cloneEntry(en *trtypes.RegistryEntry) *trtypes.RegistryEntry {
	c := *en
	c.Permissions = append([]trtypes.Permission(nil), en.Permissions...)
	return &c
}

// edit runs one registry message of the real tokenregistry server on ctx and emits its lines.  The
// operation line is rendered from the message BEFORE the handler sees it (and the handler gets its
// own copy): what is compared and judged is the message as sent, not as a handler may have rewritten
// it.  `chk c12.regstored`: the registry as stored afterwards (raw KV bytes) is exactly the edit
// applied to the registry as stored before.
func (pe *permEnv) edit(ctx sdk.Context, out *Out, where, kind string, en *trtypes.RegistryEntry, denom string, entries []*trtypes.RegistryEntry) {
	before := pe.storedRegistry(ctx)
	arg := ""
	switch kind {
	case "register":
		arg = entryDump(en)
		pe.register(ctx, cloneEntry(en))
	case "deregister":
		arg = denom
		pe.deregister(ctx, denom)
	case "set":
		arg = regDump(trtypes.Registry{Entries: entries})
		cp := make([]*trtypes.RegistryEntry, len(entries))
		for i, x := range entries {
			cp[i] = cloneEntry(x)
		}
		pe.setRegistry(ctx, cp)
	}
	after := pe.storedRegistry(ctx)
	out.Emit("reg "+kind+" "+arg, regCore(after), where+"reg."+kind, false)
	out.Emit(fmt.Sprintf("chk c12.regstored tag=%s%s.stored %s %s %s %s", where, kind, regDump(before), kind, arg, regDump(after)), "true", "chk.regstored", false)
}

// storedRegistry decodes the registry straight from the tokenregistry KV store as seen through ctx,
// bypassing the keeper's read path: this is "the registry as stored", what the judge decides on.
func (pe *permEnv) storedRegistry(ctx sdk.Context) trtypes.Registry {
	var r trtypes.Registry
	bz := ctx.KVStore(pe.app.GetKey(trtypes.StoreKey)).Get(trtypes.WhitelistStorePrefix)
	if len(bz) == 0 {
		return r
	}
	pe.app.AppCodec().MustUnmarshal(bz, &r)
	return r
}

func isRegistryRefusal(err error) bool {
	return errors.Is(err, clptypes.ErrTokenNotSupported) || errors.Is(err, trtypes.ErrPermissionDenied) ||
		errors.Is(err, trtypes.ErrNotAllowedToSellAsset) || errors.Is(err, trtypes.ErrNotAllowedToBuyAsset) ||
		errors.Is(err, ibctypes.ErrAmountTooLowToConvert)
}

type stubFail struct{}

func (stubFail) Transfer(context.Context, *transfertypes.MsgTransfer) (*transfertypes.MsgTransferResponse, error) {
	return nil, errors.New("ibc-go refused (rigged)")
}

func dashed(s string) string {
	if s == "" {
		return "-"
	}
	return s
}

// fieldsOf renders the message fields the Lean side needs; pool depths are read from ctx.
func (pe *permEnv) fieldsOf(ctx sdk.Context, m permMsg) string {
	R, A := big.NewInt(0), big.NewInt(0)
	rr, aa := big.NewInt(0), big.NewInt(0)
	if m.kind == "add" {
		pool, err := pe.app.ClpKeeper.GetPool(ctx, m.ext)
		if err != nil {
			panic(err)
		}
		nd, ed := pool.ExtractDebt(pool.NativeAssetBalance, pool.ExternalAssetBalance, false)
		R, A, rr, aa = nd.BigInt(), ed.BigInt(), m.r.BigInt(), m.a.BigInt()
	}
	return fmt.Sprintf("rowan %s %s %s %s %s %s %s %s %s", dashed(m.ext), dashed(m.sent), dashed(m.received), dashed(m.token), b2s(m.amount > 0), R, A, rr, aa)
}

// exec runs the handler of one message directly on ctx (no cache of its own).  failBody rigs the
// part AFTER the registry guards to fail (minimum received too high, asymmetric removal, more
// units than owned, more coins than owned, existing pool, ibc-go refusing).
// Returns accepted and the answer line.
func (pe *permEnv) exec(ctx sdk.Context, m permMsg, failBody bool) (bool, string, string) {
	before := pe.digest(ctx)
	reached := false
	var err error
	panicked := false
	func() {
		defer func() {
			if r := recover(); r != nil {
				panicked = true
				err = fmt.Errorf("panic: %v", r)
			}
		}()
		w := sdk.WrapSDKContext(ctx)
		switch m.kind {
		case "createpool":
			msg := &clptypes.MsgCreatePool{Signer: pe.user.String(), ExternalAsset: &clptypes.Asset{Symbol: m.ext}, NativeAssetAmount: pow10(20), ExternalAssetAmount: pow10(20)}
			if failBody {
				msg.NativeAssetAmount, msg.ExternalAssetAmount = pow10(45), pow10(45) // more than the signer owns
			}
			if err = msg.ValidateBasic(); err == nil {
				_, err = pe.clp.CreatePool(w, msg)
			}
		case "add":
			msg := &clptypes.MsgAddLiquidity{Signer: pe.user.String(), ExternalAsset: &clptypes.Asset{Symbol: m.ext}, NativeAssetAmount: m.r, ExternalAssetAmount: m.a}
			if err = msg.ValidateBasic(); err == nil {
				_, err = pe.clp.AddLiquidity(w, msg)
			}
		case "rm":
			msg := &clptypes.MsgRemoveLiquidity{Signer: pe.user.String(), ExternalAsset: &clptypes.Asset{Symbol: m.ext}, WBasisPoints: sdk.NewInt(100), Asymmetry: sdk.ZeroInt()}
			if failBody {
				msg.Asymmetry = sdk.NewInt(1)
			}
			if err = msg.ValidateBasic(); err == nil {
				_, err = pe.clp.RemoveLiquidity(w, msg)
			}
		case "rmu":
			msg := &clptypes.MsgRemoveLiquidityUnits{Signer: pe.user.String(), ExternalAsset: &clptypes.Asset{Symbol: m.ext}, WithdrawUnits: pow10(15)}
			if failBody {
				msg.WithdrawUnits = pow10(60)
			}
			if err = msg.ValidateBasic(); err == nil {
				_, err = pe.clp.RemoveLiquidityUnits(w, msg)
			}
		case "swap":
			msg := &clptypes.MsgSwap{Signer: pe.user.String(), SentAsset: &clptypes.Asset{Symbol: m.sent}, ReceivedAsset: &clptypes.Asset{Symbol: m.received}, SentAmount: pow10(18), MinReceivingAmount: sdk.ZeroUint()}
			if failBody {
				msg.MinReceivingAmount = pow10(50)
			}
			if err = msg.ValidateBasic(); err == nil {
				_, err = pe.clp.Swap(w, msg)
			}
		case "transfer":
			var inner ibctypes.MsgServer = stubIBC{&reached}
			if failBody {
				inner = stubFail{}
			}
			srv := ibckeeper.NewMsgServerImpl(inner, pe.app.BankKeeper, pe.app.TokenRegistryKeeper)
			msg := &transfertypes.MsgTransfer{SourcePort: "transfer", SourceChannel: "channel-0", Token: sdk.Coin{Denom: m.token, Amount: sdk.NewInt(m.amount)},
				Sender: pe.user.String(), Receiver: "cosmos1xyz", TimeoutHeight: clienttypes.NewHeight(0, 1000)}
			_, err = srv.Transfer(w, msg)
		}
	}()
	accepted := err == nil && !panicked
	switch {
	case accepted && m.kind == "transfer" && !reached:
		return accepted, "lost", "lost"
	case accepted:
		return accepted, "pass", "pass"
	case panicked || isRegistryRefusal(err):
		pre := "0"
		if pe.digest(ctx) != before {
			pre = "1"
		}
		return accepted, "refuse prewrite=" + pre, "refuse"
	case failBody:
		return accepted, "bodyfail", "bodyfail"
	}
	return accepted, "other:" + strings.ReplaceAll(fmt.Sprint(err), " ", "_"), "other"
}

// emitMsg writes the message line and its accepted-chk; `stored` is the registry as stored (raw
// bytes) in the context the message ran on, read BEFORE the message.
func emitMsg(out *Out, m permMsg, failBody bool, fields string, stored trtypes.Registry, accepted bool, ans, cls, where string) {
	op := "msg"
	if failBody {
		op = "msgf"
	}
	out.Emit(fmt.Sprintf("%s %s %s reg=%s", op, m.kind, fields, regDump(stored)), ans, where+m.kind+"."+m.route+"."+cls, true)
	out.Emit(fmt.Sprintf("chk c12.accepted tag=%s%s.%s.accepted %s %s %s %s", where, m.kind, m.route, regDump(stored), m.kind, b2s(accepted), fields), "true", "chk.accepted", false)
}

// run delivers one AMM message / transfer as a one-message transaction on tctx (a cache of its
// own, written only on success) and emits the lines.
func (pe *permEnv) run(tctx sdk.Context, m permMsg, out *Out) {
	stored := pe.storedRegistry(tctx)
	fields := pe.fieldsOf(tctx, m)
	before := pe.digest(tctx)
	mctx, write := tctx.CacheContext()
	accepted, ans, cls := pe.exec(mctx, m, false)
	if accepted {
		write()
	}
	after := pe.digest(tctx)
	emitMsg(out, m, false, fields, stored, accepted, ans, cls, "")
	out.Emit(fmt.Sprintf("chk c12.refused tag=%s.%s.refused %s %s", m.kind, m.route, b2s(accepted), b2s(before == after)), "true", "chk.refused", false)
}

// the messages of the matrix: token roles t1 (and t2) are filled in by the caller
func matrixMsgs() []permMsg {
	u := sdk.NewUint
	_ = u
	return []permMsg{
		{kind: "createpool", route: "ext", ext: tokC},
		{kind: "rm", route: "ext", ext: tokA},
		{kind: "rmu", route: "ext", ext: tokA},
		{kind: "add", route: "sym", ext: tokA, r: pow10(18), a: pow10(18)},
		{kind: "add", route: "sellnative", ext: tokA, r: pow10(18).MulUint64(2), a: pow10(18)},
		{kind: "add", route: "sellnative0", ext: tokA, r: pow10(18), a: sdk.ZeroUint()},
		{kind: "add", route: "buynative", ext: tokA, r: pow10(18), a: pow10(18).MulUint64(3)},
		{kind: "add", route: "buynative0", ext: tokA, r: sdk.ZeroUint(), a: pow10(18)},
		{kind: "swap", route: "r2e", sent: "rowan", received: tokA},
		{kind: "swap", route: "e2r", sent: tokA, received: "rowan"},
		{kind: "swap", route: "e2e", sent: tokA, received: tokB},
		{kind: "transfer", route: "out", token: tokA, amount: 1000},
		{kind: "transfer", route: "zero", token: tokA, amount: 0},
	}
}

// tokens a message consults (for the exhaustive part): first, second ("" = none)
func tokensOf(m permMsg) (string, string) {
	switch m.kind {
	case "add":
		return m.ext, "rowan"
	case "swap":
		return m.sent, m.received
	case "transfer":
		return m.token, ""
	}
	return m.ext, ""
}

func init() {
	families["perm"] = func(rng *Rng, n int, out *Out, replay string) {
		pe := newPermEnv()
		base := pe.ctx
		all := []string{"rowan", tokA, tokB, tokC}
		good := func(except ...string) []*trtypes.RegistryEntry {
			var es []*trtypes.RegistryEntry
			for _, t := range all {
				skip := false
				for _, x := range except {
					if x == t {
						skip = true
					}
				}
				if !skip {
					es = append(es, &trtypes.RegistryEntry{Denom: t, Decimals: 18, Permissions: []trtypes.Permission{trtypes.Permission_CLP, trtypes.Permission_IBCEXPORT, trtypes.Permission_IBCIMPORT}})
				}
			}
			return es
		}
		// ---- L0: GetLiquidityAddSymmetryState on ratios around equality
		for i := 0; i < 400+n/10; i++ {
			X, Y := rng.Amount(80), rng.Amount(80)
			x, y := rng.Amount(70), rng.Amount(70)
			switch rng.Intn(6) {
			case 0: // exactly proportional
				k := big.NewInt(int64(1 + rng.Intn(1000)))
				x, y = new(big.Int).Mul(X, k), new(big.Int).Mul(Y, k)
			case 1: // one off proportional
				k := big.NewInt(int64(1 + rng.Intn(1000)))
				x, y = new(big.Int).Mul(X, k), new(big.Int).Add(new(big.Int).Mul(Y, k), big.NewInt(int64(rng.Intn(3)-1)))
				if y.Sign() < 0 {
					y.SetInt64(0)
				}
			case 2:
				x = big.NewInt(0)
			case 3:
				y = big.NewInt(0)
			}
			ans := protect(func() string {
				return fmt.Sprint(clpkeeper.GetLiquidityAddSymmetryState(sdk.NewUintFromBigInt(X), sdk.NewUintFromBigInt(x), sdk.NewUintFromBigInt(Y), sdk.NewUintFromBigInt(y)))
			})
			out.Emit(fmt.Sprintf("sym %s %s %s %s", X, x, Y, y), ans, "sym."+ans, true)
		}
		// ---- exhaustive matrix: every permission subset x present/absent for the tokens the message names
		cfgs := []int{-1}
		for mk := 0; mk < 32; mk++ {
			cfgs = append(cfgs, mk)
		}
		for _, m := range matrixMsgs() {
			t1, t2 := tokensOf(m)
			c2s := []int{-2}
			if t2 != "" {
				c2s = cfgs
			}
			units := []string{""}
			if m.kind == "transfer" {
				units = []string{"", t1, tokX}
			}
			for _, c1 := range cfgs {
				for _, c2 := range c2s {
					for _, unit := range units {
						if c1 == -1 && unit != "" {
							continue
						}
						tctx, _ := base.CacheContext()
						entries := good(t1, t2)
						if c1 >= 0 {
							entries = append(entries, entryOf(t1, c1, unit))
						}
						if c2 >= 0 {
							entries = append(entries, entryOf(t2, c2, ""))
						}
						out.Emit("reset", "ok", "reset", false)
						pe.edit(tctx, out, "", "set", nil, "", entries)
						pe.run(tctx, m, out)
					}
				}
			}
		}
		// ---- random trials: edits through the real registry messages interleaved with messages
		msgs := matrixMsgs()
		for t := 0; t < n; t++ {
			tctx, _ := base.CacheContext()
			out.Emit("reset", "ok", "reset", false)
			// start: a random registry, possibly with duplicates and aliases, shuffled
			var entries []*trtypes.RegistryEntry
			for _, tk := range append(all, tokX) {
				k := 1
				if rng.Chance(1, 6) {
					k = 2 // duplicate denom: GetEntry must take the first
				}
				for j := 0; j < k; j++ {
					if rng.Chance(1, 7) {
						continue
					}
					mask := rng.Intn(32)
					if rng.Chance(1, 2) {
						mask |= 1 // mostly CLP so that later guards are reached
					}
					unit := ""
					switch rng.Intn(8) {
					case 0:
						unit = tk
					case 1:
						unit = all[rng.Intn(len(all))]
					}
					entries = append(entries, entryOf(tk, mask, unit))
				}
			}
			for i := len(entries) - 1; i > 0; i-- {
				j := rng.Intn(i + 1)
				entries[i], entries[j] = entries[j], entries[i]
			}
			pe.edit(tctx, out, "", "set", nil, "", entries)
			rounds := 1 + rng.Intn(4)
			for r := 0; r < rounds; r++ {
				if r > 0 || rng.Chance(1, 2) {
					tk := append(all, tokX)[rng.Intn(5)]
					if rng.Chance(1, 2) {
						mask := rng.Intn(32)
						if rng.Chance(2, 3) {
							mask |= 1
						}
						unit := ""
						if rng.Chance(1, 6) {
							unit = all[rng.Intn(len(all))]
						}
						en := entryOf(tk, mask, unit)
						pe.edit(tctx, out, "", "register", en, "", nil)
					} else {
						pe.edit(tctx, out, "", "deregister", nil, tk, nil)
					}
				}
				m := msgs[rng.Intn(len(msgs))]
				if m.kind == "transfer" && rng.Chance(1, 3) {
					m.token = append(all, tokX)[rng.Intn(5)]
				}
				if m.kind == "swap" && rng.Chance(1, 4) {
					m.sent, m.received = tokB, "rowan"
					m.route = "e2r.b"
				}
				if m.kind == "createpool" {
					if _, err := pe.app.ClpKeeper.GetPool(tctx, m.ext); err == nil {
						continue // the pool was created earlier in this trial: the body would fail
					}
				}
				pe.run(tctx, m, out)
			}
		}
		// ---- denoms that are NOT registered but are named by other entries: IBC-voucher shaped entries
		// (denom ibc/<hash>) and aliases whose base denom / unit denom / counterparty denom / display
		// name / display symbol / external symbol is the denom the message names
		ghostMsgs := func(g string, hasPool bool) []permMsg {
			ms := []permMsg{
				{kind: "transfer", route: "ghost", token: g, amount: 1000},
			}
			if hasPool {
				ms = append(ms,
					permMsg{kind: "rm", route: "ghost", ext: g},
					permMsg{kind: "rmu", route: "ghost", ext: g},
					permMsg{kind: "add", route: "ghost.sym", ext: g, r: pow10(18), a: pow10(18)},
					permMsg{kind: "add", route: "ghost.sell", ext: g, r: pow10(18), a: sdk.ZeroUint()},
					permMsg{kind: "swap", route: "ghost.r2e", sent: "rowan", received: g},
					permMsg{kind: "swap", route: "ghost.e2r", sent: g, received: "rowan"},
					permMsg{kind: "swap", route: "ghost.e2e", sent: g, received: tokA},
					permMsg{kind: "swap", route: "ghost.e2e.b", sent: tokA, received: g})
			} else {
				ms = append(ms, permMsg{kind: "createpool", route: "ghost", ext: g})
			}
			return ms
		}
		fieldSetters := []func(en *trtypes.RegistryEntry, g string){
			func(en *trtypes.RegistryEntry, g string) { en.BaseDenom = g },
			func(en *trtypes.RegistryEntry, g string) { en.UnitDenom = g },
			func(en *trtypes.RegistryEntry, g string) { en.IbcCounterpartyDenom = g },
			func(en *trtypes.RegistryEntry, g string) { en.DisplayName = g },
			func(en *trtypes.RegistryEntry, g string) { en.DisplaySymbol = g },
			func(en *trtypes.RegistryEntry, g string) { en.ExternalSymbol = g },
			func(en *trtypes.RegistryEntry, g string) {
				en.BaseDenom, en.UnitDenom, en.IbcCounterpartyDenom, en.DisplayName, en.DisplaySymbol, en.ExternalSymbol = g, g, g, g, g, g
			},
		}
		fullMask := 1 | 2 | 4 // CLP, IBCEXPORT, IBCIMPORT: everything a message could need
		ghostTrial := func(g string, hasPool bool, carrier string, set func(*trtypes.RegistryEntry, string), mask int, own int, m permMsg) {
			tctx, _ := base.CacheContext()
			entries := good()
			if carrier == tokA { // the carrier is one of the ordinary entries: rewrite it
				for _, en := range entries {
					if en.Denom == tokA {
						en.Permissions = permsOfMask(mask)
						set(en, g)
					}
				}
			} else {
				en := entryOf(carrier, mask, "")
				set(en, g)
				entries = append(entries, en)
			}
			if own >= 0 { // sometimes the named denom does have its own entry: the exact match decides
				entries = append(entries, entryOf(g, own, ""))
			}
			if rng.Chance(1, 2) { // carrier first or last
				entries[0], entries[len(entries)-1] = entries[len(entries)-1], entries[0]
			}
			out.Emit("reset", "ok", "reset", false)
			pe.edit(tctx, out, "", "set", nil, "", entries)
			pe.run(tctx, m, out)
		}
		for _, hp := range []bool{true, false} {
			gs := ghostNoPool
			if hp {
				gs = ghostPool
			}
			for _, g := range gs {
				for _, m := range ghostMsgs(g, hp) {
					for _, set := range fieldSetters {
						ghostTrial(g, hp, voucher, set, fullMask, -1, m)
					}
					ghostTrial(g, hp, tokA, fieldSetters[0], fullMask, -1, m)
					ghostTrial(g, hp, voucher, fieldSetters[6], fullMask, 0, m)        // own entry without permissions wins
					ghostTrial(g, hp, voucher, fieldSetters[6], 0, fullMask, m)        // own entry with permissions wins
					ghostTrial(g, hp, voucher, fieldSetters[rng.Intn(7)], rng.Intn(32), -1, m)
				}
			}
		}
		allGhosts := append(append([]string{}, ghostPool...), ghostNoPool...)
		for t := 0; t < n/4; t++ {
			gi := rng.Intn(len(allGhosts))
			g := allGhosts[gi]
			hp := gi < len(ghostPool)
			ms := ghostMsgs(g, hp)
			own := -1
			if rng.Chance(1, 5) {
				own = rng.Intn(32)
			}
			carrier := voucher
			if rng.Chance(1, 4) {
				carrier = tokA
			}
			mask := rng.Intn(32)
			if rng.Chance(2, 3) {
				mask |= fullMask
			}
			ghostTrial(g, hp, carrier, fieldSetters[rng.Intn(7)], mask, own, ms[rng.Intn(len(ms))])
		}
		// ---- re-registration of an ALREADY registered denom (how an admin revokes or changes permissions
		// without deregistering): empty, shrunk, grown, identical permission lists, changed decimals and
		// unit denom, followed AT ONCE by every gated message on that denom
		reregMsgs := func(t string) []permMsg {
			switch t {
			case tokC:
				return []permMsg{{kind: "createpool", route: "rereg", ext: t}, {kind: "transfer", route: "rereg", token: t, amount: 1000}}
			case "rowan":
				return []permMsg{{kind: "add", route: "rereg.sym", ext: tokA, r: pow10(18), a: pow10(18)},
					{kind: "add", route: "rereg.sell", ext: tokA, r: pow10(18), a: sdk.ZeroUint()},
					{kind: "add", route: "rereg.buy", ext: tokA, r: sdk.ZeroUint(), a: pow10(18)},
					{kind: "swap", route: "rereg.r2e", sent: "rowan", received: tokA}, {kind: "swap", route: "rereg.e2r", sent: tokA, received: "rowan"},
					{kind: "transfer", route: "rereg", token: t, amount: 1000}}
			}
			return []permMsg{{kind: "rm", route: "rereg", ext: t}, {kind: "rmu", route: "rereg", ext: t},
				{kind: "add", route: "rereg.sym", ext: t, r: pow10(18), a: pow10(18)}, {kind: "add", route: "rereg.sell", ext: t, r: pow10(18), a: sdk.ZeroUint()},
				{kind: "swap", route: "rereg.r2e", sent: "rowan", received: t}, {kind: "swap", route: "rereg.e2r", sent: t, received: "rowan"},
				{kind: "swap", route: "rereg.e2e", sent: t, received: tokB}, {kind: "swap", route: "rereg.e2e.b", sent: tokB, received: t},
				{kind: "transfer", route: "rereg", token: t, amount: 1000}}
		}
		type rereg struct {
			name     string
			old, new int // permission masks before / in the message
			decimals int64
			unit     string
		}
		reregs := []rereg{
			{"empty", 1 | 2 | 4, 0, 18, ""}, {"empty.fromall", 31, 0, 18, ""}, {"empty.dec", 1 | 2 | 4, 0, 6, ""},
			{"shrunk.noclp", 1 | 2 | 4, 2 | 4, 18, ""}, {"shrunk.noexport", 1 | 2 | 4, 1, 18, ""}, {"shrunk.nodisable", 1 | 8 | 16, 1, 18, ""},
			{"grown.disable", 1 | 2, 1 | 2 | 8 | 16, 18, ""}, {"grown.fromnone", 0, 1 | 2 | 4, 18, ""}, {"grown.export", 1, 1 | 2, 18, ""},
			{"identical", 1 | 2 | 4, 1 | 2 | 4, 18, ""}, {"identical.dec", 1 | 2 | 4, 1 | 2 | 4, 9, ""},
			{"alias", 1 | 2 | 4, 1 | 2 | 4, 18, tokX}, {"alias.empty", 1 | 2 | 4, 0, 18, tokX},
		}
		for _, t := range []string{tokA, tokC, "rowan"} {
			for _, rr := range reregs {
				for _, m := range reregMsgs(t) {
					tctx, _ := base.CacheContext()
					entries := good(t)
					entries = append(entries, entryOf(t, rr.old, ""))
					if rng.Chance(1, 2) {
						entries[0], entries[len(entries)-1] = entries[len(entries)-1], entries[0]
					}
					out.Emit("reset", "ok", "reset", false)
					pe.edit(tctx, out, "", "set", nil, "", entries)
					en := entryOf(t, rr.new, rr.unit)
					en.Decimals = rr.decimals
					if rr.new == 0 && rng.Chance(1, 2) {
						en.Permissions = []trtypes.Permission{} // zero-length rather than nil
					}
					pe.edit(tctx, out, "rereg."+rr.name+".", "register", en, "", nil)
					m.route = m.route + "." + rr.name
					pe.run(tctx, m, out)
				}
			}
		}
		// ---- pools that carry margin liabilities (written on the stored pool as x/margin's Borrow leaves
		// them): CalculatePoolUnits classifies an add by the DEPTHS (balance + liabilities), so the raw
		// balance ratio and the depth ratio differ.  Adds exactly at the raw ratio, exactly at the depth
		// ratio, strictly between the two, one base unit off each, and outside on either side, under every
		// combination of DISABLE_BUY / DISABLE_SELL on rowan and on the pool token.
		type liabCfg struct{ nNum, eNum uint64 } // liabilities = balance * num / 100
		liabCfgs := []liabCfg{{10, 0}, {0, 10}, {3, 20}, {25, 5}}
		flagMasks := []int{1, 1 | 8, 1 | 16, 1 | 8 | 16}
		liabTrial := func(lc liabCfg, mr, me int, shape int, jitter int64) {
			tctx, _ := base.CacheContext()
			pl, err := pe.app.ClpKeeper.GetPool(tctx, tokA)
			if err != nil {
				panic(err)
			}
			pl.NativeLiabilities = pl.NativeAssetBalance.MulUint64(lc.nNum).QuoUint64(100)
			pl.ExternalLiabilities = pl.ExternalAssetBalance.MulUint64(lc.eNum).QuoUint64(100)
			if err := pe.app.ClpKeeper.SetPool(tctx, &pl); err != nil {
				panic(err)
			}
			nB, eB := pl.NativeAssetBalance, pl.ExternalAssetBalance
			R, A := nB.Add(pl.NativeLiabilities), eB.Add(pl.ExternalLiabilities)
			var r, a sdk.Uint
			route := ""
			switch shape {
			case 0:
				r, a, route = nB, eB, "liab.rawratio"
			case 1:
				r, a, route = R, A, "liab.depthratio"
			case 2:
				r, a, route = nB.Add(R), eB.Add(A), "liab.between" // mediant: strictly between the two ratios
			case 3:
				r, a, route = nB.MulUint64(3).Add(R), eB.MulUint64(3).Add(A), "liab.between.nearraw"
			case 4:
				r, a, route = nB.Add(R.MulUint64(3)), eB.Add(A.MulUint64(3)), "liab.between.neardepth"
			case 5:
				r, a, route = R.MulUint64(2), A, "liab.outside.sell"
			default:
				r, a, route = R, A.MulUint64(2), "liab.outside.buy"
			}
			if jitter > 0 {
				r = r.Add(sdk.NewUint(uint64(jitter)))
			} else if jitter < 0 {
				a = a.Add(sdk.NewUint(uint64(-jitter)))
			}
			entries := good("rowan", tokA)
			entries = append(entries, entryOf("rowan", mr, ""), entryOf(tokA, me, ""))
			out.Emit("reset", "ok", "reset", false)
			pe.edit(tctx, out, "", "set", nil, "", entries)
			pe.run(tctx, permMsg{kind: "add", route: route, ext: tokA, r: r, a: a}, out)
		}
		for _, lc := range liabCfgs {
			for _, mr := range flagMasks {
				for _, me := range flagMasks {
					for shape := 0; shape < 7; shape++ {
						liabTrial(lc, mr, me, shape, 0)
					}
					liabTrial(lc, mr, me, 0, 1)
					liabTrial(lc, mr, me, 0, -1)
					liabTrial(lc, mr, me, 1, 1)
					liabTrial(lc, mr, me, 1, -1)
				}
			}
		}
		for t := 0; t < n/6; t++ {
			lc := liabCfg{uint64(rng.Intn(40)), uint64(rng.Intn(40))}
			liabTrial(lc, flagMasks[rng.Intn(4)], flagMasks[rng.Intn(4)], rng.Intn(7), int64(rng.Intn(5)-2))
		}
		// ---- counterparty links between REGISTERED entries of different precision and different permissions:
		// the token sent names another registered denom as its ibc_counterparty_denom (and / or base denom,
		// unit denom aside); the export gate must be decided by the SENT denom's own entry.  Both directions.
		linkTrial := func(sent, other string, sentMask, otherMask int, sentDec, otherDec int64, back bool, amount int64) {
			tctx, _ := base.CacheContext()
			entries := good(sent, other)
			se := entryOf(sent, sentMask, "")
			se.Decimals = sentDec
			se.IbcCounterpartyDenom = other
			oe := entryOf(other, otherMask, "")
			oe.Decimals = otherDec
			if back {
				oe.IbcCounterpartyDenom = sent
			}
			if rng.Chance(1, 3) {
				se.BaseDenom = other
			}
			entries = append(entries, se, oe)
			if rng.Chance(1, 2) {
				entries[0], entries[len(entries)-1] = entries[len(entries)-1], entries[0]
			}
			out.Emit("reset", "ok", "reset", false)
			pe.edit(tctx, out, "", "set", nil, "", entries)
			pe.run(tctx, permMsg{kind: "transfer", route: fmt.Sprintf("link.d%d.d%d", sentDec, otherDec), token: sent, amount: amount}, out)
			if rng.Chance(1, 3) { // then revoke / grant the export permission on the sent denom alone and send again
				se2 := cloneEntry(se)
				se2.Permissions = permsOfMask(sentMask ^ 2)
				pe.edit(tctx, out, "link.", "register", se2, "", nil)
				pe.run(tctx, permMsg{kind: "transfer", route: "link.after", token: sent, amount: amount}, out)
			}
		}
		decs := []int64{0, 6, 10, 18, 20}
		for _, pair := range [][2]string{{"rowan", tokX}, {tokA, tokX}, {tokX, tokA}, {tokA, "rowan"}} {
			for _, sm := range []int{1, 1 | 2, 1 | 4, 0} {
				for _, om := range []int{2, 1 | 2 | 4, 1, 0} {
					for _, sd := range []int64{18, 10} {
						for _, od := range decs {
							linkTrial(pair[0], pair[1], sm, om, sd, od, od%4 == 2, 1000)
						}
					}
				}
			}
		}
		for t := 0; t < n/6; t++ {
			pair := [][2]string{{"rowan", tokX}, {tokA, tokX}, {tokX, tokA}, {tokA, "rowan"}, {tokC, tokB}}[rng.Intn(5)]
			linkTrial(pair[0], pair[1], rng.Intn(32), rng.Intn(32), decs[rng.Intn(5)], decs[rng.Intn(5)], rng.Bool(), []int64{1, 1000, 1000000000000}[rng.Intn(3)])
		}
		// ---- spellings: registry messages for a denom that differs ONLY IN LETTER CASE from a listed one.  An
		// accepted register of X changes the entry of exactly X (appended if X is not listed) and no other; a
		// deregister of X removes exactly X (chk c12.regstored on the raw bytes); the gated messages on both
		// spellings follow at once.
		caseTrial := func(listed, variant string, listedMask, variantMask int, dereg bool) {
			tctx, _ := base.CacheContext()
			entries := good(listed)
			entries = append(entries, entryOf(listed, listedMask, ""))
			if rng.Chance(1, 2) {
				entries[0], entries[len(entries)-1] = entries[len(entries)-1], entries[0]
			}
			out.Emit("reset", "ok", "reset", false)
			pe.edit(tctx, out, "", "set", nil, "", entries)
			if dereg {
				pe.edit(tctx, out, "case.", "deregister", nil, variant, nil)
			} else {
				pe.edit(tctx, out, "case.", "register", entryOf(variant, variantMask, ""), "", nil)
			}
			var ms []permMsg
			for _, d := range []string{listed, variant} {
				ms = append(ms, permMsg{kind: "transfer", route: "case", token: d, amount: 1000})
				if _, err := pe.app.ClpKeeper.GetPool(tctx, d); err == nil {
					ms = append(ms, permMsg{kind: "rm", route: "case", ext: d}, permMsg{kind: "swap", route: "case.e2r", sent: d, received: "rowan"},
						permMsg{kind: "swap", route: "case.r2e", sent: "rowan", received: d}, permMsg{kind: "add", route: "case.sell", ext: d, r: pow10(18), a: sdk.ZeroUint()})
				} else if d != voucher && d != strings.ToLower(voucher) && d != "rowan" {
					ms = append(ms, permMsg{kind: "createpool", route: "case", ext: d})
				}
			}
			for _, m := range ms {
				mctx, _ := tctx.CacheContext() // each message on its own copy of the edited state
				pe.run(mctx, m, out)
			}
		}
		casePairs := [][2]string{{tokA, "CUSDC"}, {tokA, "Cusdc"}, {"CUSDC", tokA}, {tokC, "cDASH"}, {"rowan", "Rowan"}, {voucher, strings.ToLower(voucher)}, {strings.ToLower(voucher), voucher}}
		for _, pr := range casePairs {
			for _, lm := range []int{0, 1 | 16, 1 | 2 | 4} {
				for _, vm := range []int{0, 1 | 2, 1 | 2 | 4} {
					caseTrial(pr[0], pr[1], lm, vm, false)
				}
				caseTrial(pr[0], pr[1], lm, 0, true)
			}
		}
		for t := 0; t < n/8; t++ {
			pr := casePairs[rng.Intn(len(casePairs))]
			caseTrial(pr[0], pr[1], rng.Intn(32), rng.Intn(32), rng.Chance(1, 3))
		}
		// ---- transaction histories (baseapp runMsgs discipline): a chain whose committed state evolves;
		// every transaction runs ALL its messages on ONE branch, stops at the first failing message
		// and is written back only if all succeeded and it is not a simulation.  Several transactions
		// share a block height.  Shapes: [edit, failing message], [edit, message], [message…],
		// simulated [edit(, message)], each followed by plain messages that must be judged on the
		// registry as STORED.
		toks5 := append(append([]string{}, all...), tokX)
		randEntry := func() *trtypes.RegistryEntry {
			tk := toks5[rng.Intn(len(toks5))]
			mask := rng.Intn(32)
			if rng.Chance(1, 2) {
				mask = []int{0, 0, 1, 3, 1 | 8, 1 | 16, 2, 1 | 2 | 4}[rng.Intn(8)] // drop / grant exactly the permissions that matter
			}
			unit := ""
			if rng.Chance(1, 8) {
				unit = all[rng.Intn(len(all))]
			}
			en := entryOf(tk, mask, unit)
			if rng.Chance(1, 4) { // voucher / alias shaped: names other denoms in its descriptive fields
				if rng.Chance(1, 2) {
					en.Denom = voucher
				}
				others := append(append([]string{}, all...), ghostPool...)
				others = append(others, ghostNoPool...)
				en.BaseDenom = others[rng.Intn(len(others))]
				en.IbcCounterpartyDenom = others[rng.Intn(len(others))]
				en.DisplayName = others[rng.Intn(len(others))]
			}
			return en
		}
		nHist := 2 + n/60
		for hi := 0; hi < nHist; hi++ {
			he := newPermEnv()
			cur := he.ctx
			height := int64(10)
			out.Emit("reset", "ok", "reset", false)
			he.edit(cur.WithBlockHeight(height), out, "", "set", nil, "", good())
			pickMsg := func(ctx sdk.Context) (permMsg, bool) {
				m := msgs[rng.Intn(len(msgs))]
				if m.kind == "transfer" && rng.Chance(1, 3) {
					m.token = toks5[rng.Intn(len(toks5))]
				}
				if rng.Chance(1, 5) { // a denom that at most other entries name
					gi := rng.Intn(len(ghostPool) + len(ghostNoPool))
					if gi < len(ghostPool) {
						gm := ghostMsgs(ghostPool[gi], true)
						m = gm[rng.Intn(len(gm))]
					} else {
						gm := ghostMsgs(ghostNoPool[gi-len(ghostPool)], false)
						m = gm[rng.Intn(len(gm))]
					}
				}
				if m.kind == "createpool" {
					if _, err := he.app.ClpKeeper.GetPool(ctx, m.ext); err == nil {
						return m, false
					}
				}
				return m, true
			}
			for ti := 0; ti < 45; ti++ {
				if rng.Chance(1, 5) {
					height++ // most transactions share the height of their predecessors
				}
				type item struct {
					edit     string // "", register, deregister, set
					entry    *trtypes.RegistryEntry
					denom    string
					fail     bool
				}
				var items []item
				mkEdit := func() item {
					switch rng.Intn(5) {
					case 0:
						return item{edit: "deregister", denom: toks5[rng.Intn(len(toks5))]}
					case 1:
						return item{edit: "set"}
					default:
						return item{edit: "register", entry: randEntry()}
					}
				}
				sim := false
				switch sh := rng.Intn(10); {
				case sh < 3:
					items = []item{mkEdit(), {fail: true}}
				case sh < 5:
					items = []item{mkEdit(), {}}
				case sh < 8:
					for k := 0; k < 1+rng.Intn(3); k++ {
						items = append(items, item{fail: rng.Chance(1, 8)})
					}
				case sh < 9:
					items = []item{mkEdit()}
				default:
					sim = true
					items = []item{mkEdit()}
					if rng.Chance(1, 2) {
						items = append(items, item{})
					}
				}
				before := he.digest(cur)
				bctx, write := cur.WithBlockHeight(height).CacheContext()
				out.Emit("tx begin", "ok", "tx.begin", false)
				allOK := true
				for _, it := range items {
					if it.edit != "" {
						switch it.edit {
						case "register":
							he.edit(bctx, out, "tx.", "register", it.entry, "", nil)
						case "deregister":
							he.edit(bctx, out, "tx.", "deregister", nil, it.denom, nil)
						case "set":
							var es []*trtypes.RegistryEntry
							for k := 0; k < 3+rng.Intn(4); k++ {
								es = append(es, randEntry())
							}
							he.edit(bctx, out, "tx.", "set", nil, "", es)
						}
						continue
					}
					m, ok := pickMsg(bctx)
					if !ok {
						continue
					}
					if it.fail && m.kind == "add" {
						m.r, m.a = pow10(45), pow10(45).MulUint64(uint64(1+rng.Intn(3))) // more than the signer owns
					}
					stored := he.storedRegistry(bctx)
					fields := he.fieldsOf(bctx, m)
					accepted, ans, cls := he.exec(bctx, m, it.fail)
					emitMsg(out, m, it.fail, fields, stored, accepted, ans, cls, "tx.")
					if !accepted {
						allOK = false
						break // runMsgs stops at the first failing message
					}
				}
				committed := allOK && !sim
				if committed {
					write()
				}
				word := "rolledback"
				if committed {
					word = "committed"
				}
				out.Emit("tx end "+b2s(sim), word+" "+regCore(he.storedRegistry(cur)), "tx.end."+word, true)
				out.Emit(fmt.Sprintf("chk c12.refused tag=tx.%s.state %s %s", word, b2s(committed), b2s(before == he.digest(cur))), "true", "chk.refused", false)
			}
		}
		keys := make([]string, 0)
		for k := range out.Hist {
			if strings.HasSuffix(k, ".other") || strings.HasSuffix(k, ".lost") {
				keys = append(keys, k)
			}
		}
		sort.Strings(keys)
		out.Extra["unexpected_classes"] = keys
	}
}
