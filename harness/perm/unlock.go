package main

// family "unlock" (C15): L1 histories of unlock / cancel-unlock / remove / remove-units / add by
// several providers in two pools over many blocks, with the lock and cancel periods changed by
// the admin (UpdateRewardsParams) in between.  After every message the provider's LP record is
// read back from the store and compared with the Lean model; `chk` lines hand the
// implementation's own observations to the decidable predicates of Sif/Spec/C15.lean.
// The harness keeps no ledger: generator choices read the implementation's records only to aim at
// interesting heights (exactly L, L-1, L+C, L+C-1 blocks after a request).

import (
	"errors"
	"fmt"
	"math/big"
	"sort"
	"strings"

	clp "github.com/Sifchain/sifnode/x/clp"
	clpkeeper "github.com/Sifchain/sifnode/x/clp/keeper"
	clptypes "github.com/Sifchain/sifnode/x/clp/types"
	sdk "github.com/cosmos/cosmos-sdk/types"
)

var unlockPools = []string{"cusdc", "ceth"}

func lpDump(e *env, pool string, a sdk.AccAddress) (string, *clptypes.LiquidityProvider) {
	lp, err := e.app.ClpKeeper.GetLiquidityProvider(e.ctx, pool, a.String())
	if err != nil {
		return "none", nil
	}
	return fmt.Sprintf("U=%s;%s", lp.LiquidityProviderUnits, recsDump(lp.Unlocks)), &lp
}

func recsDump(rs []*clptypes.LiquidityUnlock) string {
	if len(rs) == 0 {
		return "-"
	}
	parts := make([]string, len(rs))
	for i, r := range rs {
		parts[i] = fmt.Sprintf("%d:%s", r.RequestHeight, r.Units)
	}
	return strings.Join(parts, ",")
}

func unitsOf(lp *clptypes.LiquidityProvider) *big.Int {
	if lp == nil {
		return big.NewInt(0)
	}
	return lp.LiquidityProviderUnits.BigInt()
}

func unlocksOf(lp *clptypes.LiquidityProvider) string {
	if lp == nil {
		return "-"
	}
	return recsDump(lp.Unlocks)
}

// classUnlock maps the error of one of the four unlock-related handlers to its class.
func classUnlock(err error, panicked bool) string {
	switch {
	case panicked:
		return "panic"
	case err == nil:
		return "ok"
	}
	var ev errValidate
	switch {
	case errors.As(err, &ev):
		return "err.validate"
	case errors.Is(err, clptypes.ErrLiquidityProviderDoesNotExist):
		return "err.nolp"
	case errors.Is(err, clptypes.ErrBalanceNotAvailable):
		return "err.bal"
	case errors.Is(err, clptypes.ErrAsymmetricRemove):
		return "err.asym"
	case errors.Is(err, clptypes.ErrQueued):
		return "err.queued"
	case errors.Is(err, clptypes.ErrRemovalsBlockedByHealth):
		return "err.health"
	case errors.Is(err, clptypes.ErrUnableToRemoveLiquidity) && strings.Contains(err.Error(), "greater than total LP units"):
		return "err.units"
	}
	return "err.other"
}


// healthStage: the outcome of the margin-health stage of a removal, computed on the state BEFORE the
// message with the implementation's own functions (an environment value for the model, like the
// units an add mints): pass | queue | block | panic.
func (e *env) healthStage(pool string, lp *clptypes.LiquidityProvider, byUnits bool, w sdk.Uint, wb int64) (res string) {
	stage := "calcpanic:?" // a panic inside the payout calculation, which the handler runs before the unlock check
	defer func() {
		if r := recover(); r != nil {
			res = stage
		}
	}()
	ctx := e.ctx
	if lp == nil {
		return "pass"
	}
	p, err := e.app.ClpKeeper.GetPool(ctx, pool)
	if err != nil {
		return "pass"
	}
	stage = "calcpanic:" + p.PoolUnits.String() // with the stored fact the driver needs to accept it (pool units)
	nd, ed := p.ExtractDebt(p.NativeAssetBalance, p.ExternalAssetBalance, false)
	var wn, we sdk.Uint
	if byUnits {
		wn, we, _ = clpkeeper.CalculateWithdrawalFromUnits(p.PoolUnits, nd.String(), ed.String(), lp.LiquidityProviderUnits.String(), w)
	} else {
		wn, we, _, _ = clpkeeper.CalculateWithdrawal(p.PoolUnits, nd.String(), ed.String(), lp.LiquidityProviderUnits.String(), fmt.Sprint(wb), sdk.ZeroInt())
	}
	if !e.app.MarginKeeper.IsPoolEnabled(ctx, pool) {
		return "pass"
	}
	stage = "panic" // the futurePool subtraction of the margin-health stage, after the unlock check
	future := p
	future.NativeAssetBalance = future.NativeAssetBalance.Sub(wn)
	future.ExternalAssetBalance = future.ExternalAssetBalance.Sub(we)
	if e.app.MarginKeeper.CalculatePoolHealth(&future).LT(e.app.MarginKeeper.GetRemovalQueueThreshold(ctx)) {
		if e.app.ClpKeeper.IsRemovalQueueEnabled(ctx) {
			return "queue"
		}
		return "block"
	}
	return "pass"
}

// mintedByAdd: the units `CalculatePoolUnits` gives for this add on the state before the message.
func (e *env) mintedByAdd(pool string, r, a sdk.Uint) (m *big.Int, ok bool) {
	defer func() {
		if rec := recover(); rec != nil {
			ok = false
		}
	}()
	ctx := e.ctx
	p, err := e.app.ClpKeeper.GetPool(ctx, pool)
	if err != nil {
		return nil, false
	}
	rate := e.app.ClpKeeper.GetPmtpRateParams(ctx).PmtpCurrentRunningRate
	sell := e.app.ClpKeeper.GetSwapFeeRate(ctx, clptypes.GetSettlementAsset(), false)
	buy := e.app.ClpKeeper.GetSwapFeeRate(ctx, clptypes.Asset{Symbol: pool}, false)
	nd, ed := p.ExtractDebt(p.NativeAssetBalance, p.ExternalAssetBalance, false)
	_, lpUnits, _, _, err := clpkeeper.CalculatePoolUnits(p.PoolUnits, nd, ed, r, a, sell, buy, rate)
	if err != nil {
		return nil, false
	}
	return lpUnits.BigInt(), true
}

// c02Units: the C02 invariant as an observation on the implementation — pool units and the units of
// EVERY provider record of that pool (not only this harness's accounts), for both pools.
func c02Units(e *env, out *Out, class string) {
	for _, pool := range unlockPools {
		p, err := e.app.ClpKeeper.GetPool(e.ctx, pool)
		if err != nil {
			continue
		}
		lps, err := e.app.ClpKeeper.GetAllLiquidityProvidersForAsset(e.ctx, clptypes.Asset{Symbol: pool})
		if err != nil {
			panic(err)
		}
		parts := make([]string, 0, len(lps))
		for _, lp := range lps {
			parts = append(parts, lp.LiquidityProviderUnits.String())
		}
		us := "-"
		if len(parts) > 0 {
			us = strings.Join(parts, ",")
		}
		out.Emit(fmt.Sprintf("chk c02.units tag=%s.units %s %s %s", class, pool, p.PoolUnits, us), "true", "chk.c02units", false)
	}
}

type lpSnap struct {
	units   *big.Int
	unlocks string
	dump    string
}

// snapshot of every provider record (4 providers + the whale) of both pools
func snapAll(e *env, n int) map[string]lpSnap {
	m := map[string]lpSnap{}
	for _, pool := range unlockPools {
		for i := 0; i <= n; i++ {
			d, lp := lpDump(e, pool, e.accts[i])
			m[fmt.Sprintf("%s/p%d", pool, i)] = lpSnap{unitsOf(lp), unlocksOf(lp), d}
		}
	}
	return m
}

// judgeOthers: every provider record other than `skip` that changed during the last message or hook.
// A fall of its units (gross of `expectUp`, the units an add was computed to mint for that key) is
// judged like a removal: it needs matured, unexpired requests, consumes them, and counts in the
// ledger.  Any change is also shown to the model (`obs`): the model knows of no message that touches
// another provider's record.
// judgeMany: like judgeOthers for a hook that raised the units of several records by known amounts
func judgeMany(out *Out, cause string, before, after map[string]lpSnap, ups map[string]*big.Int, L, C uint64, h int64) {
	keys := make([]string, 0, len(before))
	for k := range before {
		keys = append(keys, k)
	}
	sort.Strings(keys)
	for _, k := range keys {
		one := map[string]lpSnap{k: before[k]}
		two := map[string]lpSnap{k: after[k]}
		if up, ok := ups[k]; ok {
			judgeOthers(out, cause, one, two, "", "", k, up, L, C, h)
		} else {
			judgeOthers(out, cause, one, two, "", "", "", nil, L, C, h)
		}
	}
}

func judgeOthers(out *Out, cause string, before, after map[string]lpSnap, self string, skip string, upKey string, expectUp *big.Int, L, C uint64, h int64) {
	keys := make([]string, 0, len(before))
	for k := range before {
		keys = append(keys, k)
	}
	sort.Strings(keys)
	for _, k := range keys {
		b, a := before[k], after[k]
		exp := new(big.Int).Set(b.units)
		if k == upKey && expectUp != nil {
			exp.Add(exp, expectUp)
		}
		gross := new(big.Int).Sub(exp, a.units)
		if gross.Sign() > 0 && !(k == skip) {
			out.Emit(fmt.Sprintf("chk c15.remove tag=%s.decrease.matured %d %d %d %s %s 1", cause, L, C, h, b.unlocks, gross), "true", "chk.decrease", false)
			out.Emit(fmt.Sprintf("chk c15.removereal tag=%s.decrease.real %s %d %d %d %s %s 1", cause, k, L, C, h, b.unlocks, gross), "true", "chk.decrease", false)
			out.Emit(fmt.Sprintf("chk c15.consume tag=%s.decrease.consume %d %s %s %s 1", cause, L, b.unlocks, a.unlocks, gross), "true", "chk.decrease", false)
			out.Emit(fmt.Sprintf("chk c15.once tag=%s.decrease.once %s removal 1 %d 0 %s %s", cause, k, L, gross, a.unlocks), "true", "chk.decrease", false)
		}
		if b.unlocks != a.unlocks { // whatever rewrote the list: every stored record must still be a real request at its real height
			out.Emit(fmt.Sprintf("chk c15.genuine tag=%s.genuine %s %s", cause, k, a.unlocks), "true", "chk.genuine", false)
		}
		if k != self && k != upKey && b.dump != a.dump {
			out.Emit("obs "+k, a.dump, "obs.changed."+cause, false)
		}
	}
}

// a directed step of a history (list-length thresholds: many small requests, then a large one, then
// removals at the boundaries of the window between the newest old record's maturity and the new request's)
type scriptOp struct {
	kind  string // par add unlock rmu
	pi    int
	dh    int64
	units func(lp *clptypes.LiquidityProvider) sdk.Uint
	L, C  uint64
}

// manySmallRequests: lock period Ld, long cancel period; provider 0 gets units, files nSmall requests
// of 1..3 units one block apart (optionally some in the same block), then requests half of its
// units two blocks later, then tries to remove exactly that half at: maturity of the newest small
// request, one block before the large request's own maturity, and at that maturity.
func manySmallRequests(rng *Rng, Ld uint64, nSmall int) []scriptOp {
	half := func(lp *clptypes.LiquidityProvider) sdk.Uint {
		if lp == nil {
			return sdk.OneUint()
		}
		return lp.LiquidityProviderUnits.QuoUint64(2)
	}
	var big sdk.Uint
	sc := []scriptOp{{kind: "par", L: Ld, C: 1000000}, {kind: "add", pi: 0, dh: 1}}
	for i := 0; i < nSmall; i++ {
		u := uint64(1 + rng.Intn(3))
		dh := int64(1)
		if i > 0 && rng.Chance(1, 6) {
			dh = 0
		}
		if i == nSmall-1 {
			dh = 1 // the newest small request has a height of its own
		}
		sc = append(sc, scriptOp{kind: "unlock", pi: 0, dh: dh, units: func(*clptypes.LiquidityProvider) sdk.Uint { return sdk.NewUint(u) }})
	}
	sc = append(sc, scriptOp{kind: "unlock", pi: 0, dh: 2, units: func(lp *clptypes.LiquidityProvider) sdk.Uint { big = half(lp); return big }})
	same := func(*clptypes.LiquidityProvider) sdk.Uint { return big }
	first := int64(Ld) - 2 // newest small request was 2 blocks before the large one
	if first < 0 {
		first = 0
	}
	sc = append(sc, scriptOp{kind: "rmu", pi: 0, dh: first, units: same})
	if Ld >= 2 {
		sc = append(sc, scriptOp{kind: "rmu", pi: 0, dh: 1, units: same})
	}
	sc = append(sc, scriptOp{kind: "rmu", pi: 0, dh: 1, units: same})
	return sc
}

var listThresholds = []int{15, 16, 17, 18, 31, 32, 33, 40, 64, 100, 101}

var periodChoices = []uint64{0, 0, 1, 1, 3, 3, 50, 50, 1000000}
var periodWrap = []uint64{1 << 62, 1<<63 - 1, 1 << 63, 1<<64 - 1}

func init() {
	families["unlock"] = func(rng *Rng, n int, out *Out, replay string) {
		const perHistory = 160
		nProv := 4
		histNo := 0
		for done := 0; done < n; {
			e := newEnv(nProv+1, unlockPools)
			whale := e.accts[nProv]
			h := int64(1 + rng.Intn(5))
			var L, C uint64 = periodChoices[rng.Intn(len(periodChoices))], periodChoices[rng.Intn(len(periodChoices))]
			distribute := rng.Chance(1, 3) // rewards epoch: pay to the wallet (true) or re-invest into the position (false)
			e.app.ClpKeeper.SetRewardParams(e.ctx, &clptypes.RewardParams{LiquidityRemovalLockPeriod: L, LiquidityRemovalCancelPeriod: C,
				RewardsEpochIdentifier: "hour", RewardsDistribute: distribute, RewardsLockPeriod: uint64(rng.Intn(3))})
			out.Emit(fmt.Sprintf("reset %d %d", L, C), "ok", "reset", false)
			// configuration dimensions of this history: raw external:native ratio of each pool, which pools
			// are margin enabled, removal queue on/off, removal-queue threshold, margin liabilities
			ratio := map[string]uint64{}
			var marginPools []string
			for _, p := range unlockPools {
				ratio[p] = []uint64{1, 1, 100}[rng.Intn(3)]
				if rng.Chance(1, 2) {
					marginPools = append(marginPools, p)
				}
			}
			queueOn := rng.Chance(1, 2)
			threshold := []string{"0", "0.1", "0.95", "1"}[rng.Intn(4)]
			for _, p := range unlockPools {
				msg := &clptypes.MsgCreatePool{Signer: whale.String(), ExternalAsset: &clptypes.Asset{Symbol: p},
					NativeAssetAmount: pow10(24), ExternalAssetAmount: pow10(24).MulUint64(ratio[p])}
				if err, _ := e.deliver(h, msg.ValidateBasic, func(ctx sdk.Context) error { _, err := e.clp.CreatePool(sdk.WrapSDKContext(ctx), msg); return err }); err != nil {
					panic(err)
				}
			}
			for _, p := range unlockPools { // the pool creator's record, so that the model knows every provider of the pool
				d, lp := lpDump(e, p, whale)
				out.Emit(fmt.Sprintf("add %d %s/p%d %s", h, p, nProv, unitsOf(lp)), "ok "+d, "add.creator", false)
			}
			e.app.ClpKeeper.SetParams(e.ctx, clptypes.Params{MinCreatePoolThreshold: 100, EnableRemovalQueue: queueOn})
			mp := e.app.MarginKeeper.GetParams(e.ctx)
			mp.Pools = marginPools
			mp.RemovalQueueThreshold = sdk.MustNewDecFromStr(threshold)
			e.app.MarginKeeper.SetParams(e.ctx, &mp)
			liab := "none"
			for _, p := range marginPools { // liabilities as open margin positions leave them in the pool record
				pl, err := e.app.ClpKeeper.GetPool(e.ctx, p)
				if err != nil {
					panic(err)
				}
				switch rng.Intn(3) {
				case 0:
					pl.ExternalLiabilities = pl.ExternalAssetBalance.QuoUint64(10)
					liab = "ext"
				case 1:
					pl.ExternalLiabilities = pl.ExternalAssetBalance.QuoUint64(20)
					pl.NativeLiabilities = pl.NativeAssetBalance.QuoUint64(50)
					liab = "both"
				}
				if err := e.app.ClpKeeper.SetPool(e.ctx, &pl); err != nil {
					panic(err)
				}
			}
			out.Emit(fmt.Sprintf("# cfg ratio=%v margin=%v queue=%v threshold=%s liabilities=%s", ratio, marginPools, queueOn, threshold, liab), "bad-op",
				fmt.Sprintf("cfg.margin%d.queue%v.thr%s", len(marginPools), queueOn, threshold), false)
			lastHookHeight := h
			var script []scriptOp
			if histNo%3 == 0 { // every third history starts with a directed list-length script
				script = manySmallRequests(rng, []uint64{3, 10, 2, 50}[rng.Intn(4)], listThresholds[(histNo/3)%len(listThresholds)])
			}
			histNo++
			for k := 0; k < perHistory && done < n; k++ {
				done++
				var sc *scriptOp
				if len(script) > 0 {
					sc = &script[0]
					script = script[1:]
				}
				pi := rng.Intn(nProv)
				if k < 2*nProv {
					pi = k % nProv
				}
				if sc != nil {
					pi = sc.pi
				}
				prov := e.accts[pi]
				pool := unlockPools[rng.Intn(len(unlockPools))]
				if rng.Chance(3, 4) || sc != nil {
					pool = unlockPools[0] // most traffic on one pool so that requests interact
				}
				key := fmt.Sprintf("%s/p%d", pool, pi)
				_, lpBefore := lpDump(e, pool, prov)
				op := rng.Intn(100)
				if k < 2*nProv && rng.Chance(3, 4) {
					op = 10 // start most histories by giving the providers units
				}
				if sc != nil {
					op = map[string]int{"par": 0, "add": 10, "unlock": 30, "rmu": 70}[sc.kind]
				}
				// advance the height: usually a little; before removals and cancels often exactly onto a
				// maturity / expiry boundary of one of the provider's own requests
				aim := lpBefore != nil && len(lpBefore.Unlocks) > 0 && L < 1<<40 && C < 1<<40
				switch {
				case sc != nil:
					h += sc.dh
				case aim && op >= 50 && rng.Chance(2, 3), aim && rng.Chance(1, 6):
					r := lpBefore.Unlocks[0]
					if rng.Chance(1, 3) {
						r = lpBefore.Unlocks[rng.Intn(len(lpBefore.Unlocks))]
					}
					cands := []int64{r.RequestHeight + int64(L), r.RequestHeight + int64(L), r.RequestHeight + int64(L) - 1,
						r.RequestHeight + int64(L) + int64(C) - 1, r.RequestHeight + int64(L) + int64(C), r.RequestHeight + int64(L) + int64(C)/2}
					if t := cands[rng.Intn(len(cands))]; t > h {
						h = t
					}
				case rng.Chance(1, 3):
				case rng.Chance(1, 8):
					h += int64(rng.Intn(60))
				default:
					h += int64(1 + rng.Intn(3))
				}
				if h > lastHookHeight { // block hooks of the clp module, once per new height
					lastHookHeight = h
					hb := snapAll(e, nProv)
					hctx, hwrite := e.ctx.WithBlockHeight(h).CacheContext()
					if protect(func() string { clp.BeginBlocker(hctx, e.app.ClpKeeper); clp.EndBlocker(hctx, e.app.ClpKeeper); return "ok" }) == "ok" {
						hwrite()
					}
					judgeOthers(out, "hook", hb, snapAll(e, nProv), "", "", "", nil, L, C, h)
					c02Units(e, out, "hook")
					if rng.Chance(1, 6) { // the rewards epoch: fund the buckets (a real message of the pool creator), then the epoch-end hook
						var coins sdk.Coins
						for _, p := range unlockPools {
							if rng.Chance(2, 3) {
								coins = coins.Add(sdk.NewCoin(p, sdk.NewIntFromBigInt(rng.BigBits(40+rng.Intn(35)))))
							}
						}
						if !coins.Empty() {
							fb := snapAll(e, nProv)
							msg := &clptypes.MsgAddLiquidityToRewardsBucketRequest{Signer: whale.String(), Amount: coins}
							err, _ := e.deliver(h, msg.ValidateBasic, func(ctx sdk.Context) error {
								_, err := e.clp.AddLiquidityToRewardsBucket(sdk.WrapSDKContext(ctx), msg)
								return err
							})
							out.Emit(fmt.Sprintf("# fund rewards buckets %s: %v", coins, err), "bad-op", "bucket.fund", false)
							judgeOthers(out, "bucketfund", fb, snapAll(e, nProv), "", "", "", nil, L, C, h)
						}
						eb := snapAll(e, nProv)
						ectx, ewrite := e.ctx.WithBlockHeight(h).CacheContext()
						if protect(func() string { e.app.ClpKeeper.AfterEpochEnd(ectx, "hour", h); return "ok" }) == "ok" {
							ewrite()
						}
						ea := snapAll(e, nProv)
						// units the hook added to a record are an environment value for the model (as for an add);
						// the unlock list of the record must not have moved: the model's answer keeps it
						ups := map[string]*big.Int{}
						ekeys := make([]string, 0, len(eb))
						for k2 := range eb {
							ekeys = append(ekeys, k2)
						}
						sort.Strings(ekeys)
						for _, k2 := range ekeys {
							if d := new(big.Int).Sub(ea[k2].units, eb[k2].units); d.Sign() > 0 {
								ups[k2] = d
								out.Emit(fmt.Sprintf("add %d %s %s", h, k2, d), "ok "+ea[k2].dump, "epoch.reinvest", true)
							}
						}
						judgeMany(out, "epoch", eb, ea, ups, L, C, h)
						c02Units(e, out, "epoch")
					}
				}
				_, lpBefore = lpDump(e, pool, prov) // the hooks above may have changed the record
				snapBefore := snapAll(e, nProv)
				units := unitsOf(lpBefore)
				// what the code would call matured and unexpired right now (generator guidance only)
				maturedNow := new(big.Int)
				if lpBefore != nil {
					for _, r := range lpBefore.Unlocks {
						if r.RequestHeight+int64(L) <= h && !(h >= r.RequestHeight+int64(L)+int64(C)) {
							maturedNow.Add(maturedNow, r.Units.BigInt())
						}
					}
				}
				pickUnits := func() sdk.Uint {
					switch rng.Intn(12) {
					case 0:
						if rng.Chance(1, 3) {
							return sdk.ZeroUint()
						}
						fallthrough
					case 8, 9, 10:
						// aim at what the code would call matured right now (generator guidance only), or one off
						tot := new(big.Int)
						if lpBefore != nil {
							for _, r := range lpBefore.Unlocks {
								if r.RequestHeight+int64(L) <= h {
									tot.Add(tot, r.Units.BigInt())
								}
							}
						}
						if rng.Chance(1, 3) {
							tot.Add(tot, big.NewInt(int64(rng.Intn(3)-1)))
						} else if rng.Chance(1, 2) && tot.Sign() > 0 {
							tot.Div(tot, big.NewInt(int64(1+rng.Intn(4))))
						}
						if tot.Sign() <= 0 {
							tot.SetInt64(int64(1 + rng.Intn(3)))
						}
						return sdk.NewUintFromBigInt(tot)
					case 1:
						return sdk.NewUintFromBigInt(units)
					case 2:
						return sdk.NewUintFromBigInt(new(big.Int).Add(units, big.NewInt(int64(1+rng.Intn(3)))))
					case 3:
						// exactly what is outstanding, or one off
						tot := new(big.Int)
						if lpBefore != nil {
							for _, r := range lpBefore.Unlocks {
								tot.Add(tot, r.Units.BigInt())
							}
						}
						tot.Add(tot, big.NewInt(int64(rng.Intn(3)-1)))
						if tot.Sign() < 0 {
							tot.SetInt64(0)
						}
						return sdk.NewUintFromBigInt(tot)
					case 4:
						if lpBefore != nil && len(lpBefore.Unlocks) > 0 {
							return lpBefore.Unlocks[rng.Intn(len(lpBefore.Unlocks))].Units
						}
						fallthrough
					default:
						if units.Sign() == 0 {
							return sdk.NewUint(uint64(rng.Intn(5)))
						}
						d := big.NewInt(int64(1 + rng.Intn(9)))
						return sdk.NewUintFromBigInt(new(big.Int).Div(units, d))
					}
				}
				switch {
				case op < 8: // admin changes the periods
					nl, nc := periodChoices[rng.Intn(len(periodChoices))], periodChoices[rng.Intn(len(periodChoices))]
					if rng.Chance(1, 3) && L < 1<<40 { // raise the period a little: requests matured under the old one are young under the new
						nl = L + []uint64{1, 2, 3, 5, 10, 20, 47}[rng.Intn(7)]
					} else if rng.Chance(1, 12) {
						nl = periodWrap[rng.Intn(len(periodWrap))]
					}
					if rng.Chance(1, 20) {
						nc = periodWrap[rng.Intn(len(periodWrap))]
					}
					if sc != nil {
						nl, nc = sc.L, sc.C
					}
					msg := &clptypes.MsgUpdateRewardsParamsRequest{Signer: e.admin.String(), LiquidityRemovalLockPeriod: nl, LiquidityRemovalCancelPeriod: nc,
						RewardsEpochIdentifier: "hour", RewardsDistribute: distribute, RewardsLockPeriod: uint64(rng.Intn(3))}
					err, _ := e.deliver(h, msg.ValidateBasic, func(ctx sdk.Context) error { _, err := e.clp.UpdateRewardsParams(sdk.WrapSDKContext(ctx), msg); return err })
					if err != nil {
						panic(fmt.Sprintf("UpdateRewardsParams by the admin failed: %v", err))
					}
					got := e.app.ClpKeeper.GetRewardsParams(e.ctx)
					L, C = got.LiquidityRemovalLockPeriod, got.LiquidityRemovalCancelPeriod
					out.Emit(fmt.Sprintf("par %d %d %d", h, L, C), "ok", "par", true)
					judgeOthers(out, "par", snapBefore, snapAll(e, nProv), "", "", "", nil, L, C, h)
					c02Units(e, out, "par")
					continue
				case op < 22: // add liquidity (symmetric: the pool was created 1:1)
					var amt sdk.Uint
					switch rng.Intn(4) {
					case 0:
						amt = sdk.NewUint(uint64(1 + rng.Intn(2000)))
					case 1:
						amt = pow10(18)
					default:
						amt = sdk.NewUintFromBigInt(rng.BigBits(10 + rng.Intn(60)))
					}
					if sc != nil {
						amt = pow10(18)
					}
					ext := amt.MulUint64(ratio[pool]) // about the pool's own ratio
					msg := &clptypes.MsgAddLiquidity{Signer: prov.String(), ExternalAsset: &clptypes.Asset{Symbol: pool}, NativeAssetAmount: amt, ExternalAssetAmount: ext}
					mintedCalc, okCalc := e.mintedByAdd(pool, amt, ext)
					err, pan := e.deliver(h, msg.ValidateBasic, func(ctx sdk.Context) error { _, err := e.clp.AddLiquidity(sdk.WrapSDKContext(ctx), msg); return err })
					if err != nil || pan || !okCalc {
						out.Emit(fmt.Sprintf("# add %s refused: %v", key, err), "bad-op", "add.refused", false)
						judgeOthers(out, "addrefused", snapBefore, snapAll(e, nProv), "", "", "", nil, L, C, h)
						c02Units(e, out, "addrefused")
						continue
					}
					dump, lpAfter := lpDump(e, pool, prov)
					// the units this add mints are what CalculatePoolUnits says on the state before it; whatever
					// else happened to anybody's units inside the message shows as a difference
					out.Emit(fmt.Sprintf("add %d %s %s", h, key, mintedCalc), "ok "+dump, "add", true)
					out.Emit(fmt.Sprintf("chk c15.outstanding tag=add.outstanding %s %s", unitsOf(lpAfter), unlocksOf(lpAfter)), "true", "chk.outstanding", false)
					out.Emit(fmt.Sprintf("chk c15.once tag=add.once %s other 1 %d 0 0 %s", key, L, unlocksOf(lpAfter)), "true", "chk.once", false)
					judgeOthers(out, "add", snapBefore, snapAll(e, nProv), key, "", key, mintedCalc, L, C, h)
					c02Units(e, out, "add")
					continue
				}
				var line, kind string
				var err error
				var pan bool
				reqUnits := sdk.ZeroUint()
				rmW := sdk.ZeroUint()
				switch {
				case op < 50:
					kind = "unlock"
					reqUnits = pickUnits()
					if sc != nil {
						reqUnits = sc.units(lpBefore)
					}
					msg := &clptypes.MsgUnlockLiquidityRequest{Signer: prov.String(), ExternalAsset: &clptypes.Asset{Symbol: pool}, Units: reqUnits}
					line = fmt.Sprintf("tx %d %s unlock %s", h, key, reqUnits)
					err, pan = e.deliver(h, msg.ValidateBasic, func(ctx sdk.Context) error { _, err := e.clp.UnlockLiquidity(sdk.WrapSDKContext(ctx), msg); return err })
				case op < 60:
					kind = "cancel"
					u := pickUnits()
					msg := &clptypes.MsgCancelUnlock{Signer: prov.String(), ExternalAsset: &clptypes.Asset{Symbol: pool}, Units: u}
					line = fmt.Sprintf("tx %d %s cancel %s", h, key, u)
					err, pan = e.deliver(h, msg.ValidateBasic, func(ctx sdk.Context) error { _, err := e.clp.CancelUnlockLiquidity(sdk.WrapSDKContext(ctx), msg); return err })
				case op < 82:
					kind = "removal"
					w := pickUnits()
					if maturedNow.Sign() > 0 && rng.Chance(1, 2) {
						w = sdk.NewUintFromBigInt(new(big.Int).Div(maturedNow, big.NewInt(int64(1+rng.Intn(3)))))
						if w.IsZero() {
							w = sdk.OneUint()
						}
					} else if lpBefore != nil && len(lpBefore.Unlocks) > 0 && rng.Chance(1, 3) {
						w = lpBefore.Unlocks[0].Units // use a record up exactly
						if w.IsZero() {
							w = sdk.OneUint()
						}
					}
					if sc != nil {
						w = sc.units(lpBefore)
					}
					rmW = w
					msg := &clptypes.MsgRemoveLiquidityUnits{Signer: prov.String(), ExternalAsset: &clptypes.Asset{Symbol: pool}, WithdrawUnits: w}
					line = fmt.Sprintf("tx %d %s rmu %s %s", h, key, w, e.healthStage(pool, lpBefore, true, w, 0))
					err, pan = e.deliver(h, msg.ValidateBasic, func(ctx sdk.Context) error { _, err := e.clp.RemoveLiquidityUnits(sdk.WrapSDKContext(ctx), msg); return err })
				default:
					kind = "removal"
					wb := int64(1 + rng.Intn(10000))
					switch rng.Intn(8) {
					case 0:
						wb = 10000
					case 1:
						wb = []int64{0, 10001, 1, 5000, 3333, 9999, -5}[rng.Intn(7)]
					}
					if maturedNow.Sign() > 0 && units.Sign() > 0 && rng.Chance(1, 2) {
						// basis points whose units are about what is matured (sometimes one basis point more)
						t := new(big.Int).Mul(maturedNow, big.NewInt(10000))
						t.Div(t, units)
						wb = t.Int64() + int64(rng.Intn(2))
						if wb < 1 {
							wb = 1
						}
						if wb > 10000 {
							wb = 10000
						}
					}
					as := int64(0)
					if rng.Chance(1, 10) {
						as = []int64{1, -1, 10000, -10000, 10001, -10001}[rng.Intn(6)]
					}
					msg := &clptypes.MsgRemoveLiquidity{Signer: prov.String(), ExternalAsset: &clptypes.Asset{Symbol: pool}, WBasisPoints: sdk.NewInt(wb), Asymmetry: sdk.NewInt(as)}
					line = fmt.Sprintf("tx %d %s rm %d %d %s", h, key, wb, as, e.healthStage(pool, lpBefore, false, sdk.ZeroUint(), wb))
					err, pan = e.deliver(h, msg.ValidateBasic, func(ctx sdk.Context) error { _, err := e.clp.RemoveLiquidity(sdk.WrapSDKContext(ctx), msg); return err })
				}
				cls := classUnlock(err, pan)
				dump, lpAfter := lpDump(e, pool, prov)
				lk := ""
				if L != 0 {
					lk = ".locked"
				}
				out.Emit(line, cls+" "+dump, kind+"."+cls+lk, cls == "ok")
				acc := b2s(cls == "ok")
				burned := new(big.Int).Sub(units, unitsOf(lpAfter))
				if burned.Sign() < 0 {
					burned.SetInt64(0)
				}
				if kind == "removal" {
					out.Emit(fmt.Sprintf("chk c15.remove tag=remove.matured %d %d %d %s %s %s", L, C, h, unlocksOf(lpBefore), burned, acc), "true", "chk.remove", false)
					out.Emit(fmt.Sprintf("chk c15.removereal tag=remove.real %s %d %d %d %s %s %s", key, L, C, h, unlocksOf(lpBefore), burned, acc), "true", "chk.remove", false)
					out.Emit(fmt.Sprintf("chk c15.consume tag=remove.consume %d %s %s %s %s", L, unlocksOf(lpBefore), unlocksOf(lpAfter), burned, acc), "true", "chk.consume", false)
					out.Emit(fmt.Sprintf("chk c15.lockzero tag=remove.lockzero %d %s", L, cls), "true", "chk.lockzero", false)
					out.Emit(fmt.Sprintf("chk c02.burn tag=removal.burn %s %s %s %s", units, rmW, unitsOf(lpAfter), acc), "true", "chk.c02burn", false)
				}
				if kind == "unlock" { // the judge's request ledger: the height is the height this harness ran the message at
					out.Emit(fmt.Sprintf("chk c15.request tag=unlock.request %s %d %s %s %s", key, h, reqUnits, acc, unlocksOf(lpAfter)), "true", "chk.request", false)
				}
				out.Emit(fmt.Sprintf("chk c15.outstanding tag=%s.outstanding %s %s", kind, unitsOf(lpAfter), unlocksOf(lpAfter)), "true", "chk.outstanding", false)
				out.Emit(fmt.Sprintf("chk c15.once tag=%s.once %s %s %s %d %s %s %s", kind, key, kind, acc, L, reqUnits, burned, unlocksOf(lpAfter)), "true", "chk.once", false)
				skip := ""
				if kind == "removal" {
					skip = key // the signer's own record was judged just above
				}
				judgeOthers(out, kind, snapBefore, snapAll(e, nProv), key, skip, "", nil, L, C, h)
				c02Units(e, out, kind+"."+cls)
			}
		}
	}
}

func b2s(b bool) string {
	if b {
		return "1"
	}
	return "0"
}
