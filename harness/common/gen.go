package main

// Deterministic generators shared by all scenario families. Every random choice derives from
// one splitmix64 state seeded by VERIF_SEED so that a disagreement replays exactly.

import (
	"math/big"
)

type Rng struct{ s uint64 }

// NewRng scrambles the seed so that consecutive seeds give unrelated streams (a plain
// seed*golden start state would make seed k+1 the stream of seed k shifted by one draw).
func NewRng(seed uint64) *Rng {
	z := seed + 0x632BE59BD9B4E019
	z = (z ^ (z >> 30)) * 0xBF58476D1CE4E5B9
	z = (z ^ (z >> 27)) * 0x94D049BB133111EB
	z = z ^ (z >> 31)
	return &Rng{s: z}
}

func (r *Rng) U64() uint64 {
	r.s += 0x9E3779B97F4A7C15
	z := r.s
	z = (z ^ (z >> 30)) * 0xBF58476D1CE4E5B9
	z = (z ^ (z >> 27)) * 0x94D049BB133111EB
	return z ^ (z >> 31)
}

func (r *Rng) Intn(n int) int {
	if n <= 0 {
		return 0
	}
	return int(r.U64() % uint64(n))
}

func (r *Rng) Bool() bool { return r.U64()&1 == 1 }

// Chance returns true with probability num/den.
func (r *Rng) Chance(num, den int) bool { return r.Intn(den) < num }

// BigBits returns a uniformly random integer with exactly `bits` bits (bits >= 1).
func (r *Rng) BigBits(bits int) *big.Int {
	if bits <= 0 {
		return big.NewInt(0)
	}
	b := new(big.Int)
	for b.BitLen() < bits {
		b.Lsh(b, 64)
		b.Or(b, new(big.Int).SetUint64(r.U64()))
	}
	b.Rsh(b, uint(b.BitLen()-bits))
	b.SetBit(b, bits-1, 1)
	return b
}

var boundaries = []string{
	"0", "1", "2", "3", "9", "10", "999", "1000", "1001",
	"18446744073709551615", "18446744073709551616", "18446744073709551617",
	"340282366920938463463374607431768211455", "340282366920938463463374607431768211456",
	"1000000000000000000", "999999999999999999", "1000000000000000001", "500000000000000000",
	"1000000000000000000000000000000000",
}

// Amount draws a log-uniform amount in 1 .. 2^maxBits, mixed with boundary values.
func (r *Rng) Amount(maxBits int) *big.Int {
	switch r.Intn(10) {
	case 0:
		v, _ := new(big.Int).SetString(boundaries[r.Intn(len(boundaries))], 10)
		if v.BitLen() <= maxBits {
			return v
		}
		return r.BigBits(1 + r.Intn(maxBits))
	case 1:
		// round decimal magnitudes 10^k, 10^k +- 1
		k := r.Intn(34)
		v := new(big.Int).Exp(big.NewInt(10), big.NewInt(int64(k)), nil)
		v.Add(v, big.NewInt(int64(r.Intn(3)-1)))
		if v.Sign() < 0 {
			v.SetInt64(0)
		}
		return v
	default:
		return r.BigBits(1 + r.Intn(maxBits))
	}
}

// Near returns a value close to v (relative perturbation up to 2^-k for a random k).
func (r *Rng) Near(v *big.Int) *big.Int {
	if v.Sign() == 0 {
		return big.NewInt(int64(r.Intn(3)))
	}
	k := uint(r.Intn(v.BitLen() + 1))
	d := new(big.Int).Rsh(v, k)
	if d.Sign() == 0 {
		d.SetInt64(1)
	}
	d = new(big.Int).Mod(new(big.Int).SetUint64(r.U64()), new(big.Int).Add(d, big.NewInt(1)))
	if r.Bool() {
		return new(big.Int).Add(v, d)
	}
	res := new(big.Int).Sub(v, d)
	if res.Sign() < 0 {
		res.SetInt64(0)
	}
	return res
}

var pow18 = new(big.Int).Exp(big.NewInt(10), big.NewInt(18), nil)

// Rate01 draws a Dec raw integer (scaled by 10^18) in [0,1], with boundaries.
func (r *Rng) Rate01() *big.Int {
	switch r.Intn(8) {
	case 0:
		return big.NewInt(0)
	case 1:
		return new(big.Int).Set(pow18)
	case 2:
		return big.NewInt(1)
	case 3:
		return new(big.Int).Sub(pow18, big.NewInt(1))
	case 4:
		// common small fee rates: k/1000
		return new(big.Int).Mul(big.NewInt(int64(r.Intn(100))), big.NewInt(1e15))
	default:
		return new(big.Int).Mod(new(big.Int).SetUint64(r.U64()), new(big.Int).Add(pow18, big.NewInt(1)))
	}
}

// RateNonNeg draws a Dec raw integer >= 0 over many magnitudes (0, 1e-18 .. 1e6).
func (r *Rng) RateNonNeg() *big.Int {
	switch r.Intn(6) {
	case 0:
		return big.NewInt(0)
	case 1:
		return big.NewInt(1)
	case 2:
		return r.Rate01()
	default:
		return r.BigBits(1 + r.Intn(80)) // up to ~1.2e24 raw = 1.2e6
	}
}
