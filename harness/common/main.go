package main

// verifharness: runs the real sifnode code in-process on generated inputs and writes
//   <out>/ops.txt   one operation per line (input of the Lean driver `sifdrv`)
//   <out>/impl.txt  the implementation's canonical answer, one line per operation
//   <out>/stats.json generator distribution (operation / result-class histograms, samples)
// usage: harness <family> -seed N -n N -out DIR [-replay FILE]

import (
	"bufio"
	"encoding/json"
	"flag"
	"fmt"
	"os"
	"path/filepath"
	"sort"
)

type Out struct {
	ops, impl *bufio.Writer
	fo, fi    *os.File
	N         int
	Hist      map[string]int
	Samples   []string
	distinct  map[string]struct{}
	Nontriv   int
	Extra     map[string]interface{}
}

func NewOut(dir string) *Out {
	if err := os.MkdirAll(dir, 0o755); err != nil {
		panic(err)
	}
	fo, err := os.Create(filepath.Join(dir, "ops.txt"))
	if err != nil {
		panic(err)
	}
	fi, err := os.Create(filepath.Join(dir, "impl.txt"))
	if err != nil {
		panic(err)
	}
	return &Out{ops: bufio.NewWriterSize(fo, 1<<20), impl: bufio.NewWriterSize(fi, 1<<20), fo: fo, fi: fi,
		Hist: map[string]int{}, distinct: map[string]struct{}{}, Extra: map[string]interface{}{}}
}

// Emit records one operation line and the implementation's answer.
// class is a short tag for the histogram; nontrivial says whether the case counts as non-trivial.
func (o *Out) Emit(op, ans, class string, nontrivial bool) {
	fmt.Fprintln(o.ops, op)
	fmt.Fprintln(o.impl, ans)
	o.N++
	o.Hist[class]++
	if nontrivial {
		if _, ok := o.distinct[op]; !ok {
			o.distinct[op] = struct{}{}
			o.Nontriv++
		}
	}
	if len(o.Samples) < 12 && (o.N%997 == 1 || o.N < 4) {
		o.Samples = append(o.Samples, op+" => "+ans)
	}
}

func (o *Out) Close(dir string) {
	o.ops.Flush()
	o.impl.Flush()
	o.fo.Close()
	o.fi.Close()
	keys := make([]string, 0, len(o.Hist))
	for k := range o.Hist {
		keys = append(keys, k)
	}
	sort.Strings(keys)
	st := map[string]interface{}{"evaluations": o.N, "distinct_nontrivial": o.Nontriv, "hist": o.Hist, "samples": o.Samples}
	for k, v := range o.Extra {
		st[k] = v
	}
	b, _ := json.MarshalIndent(st, "", " ")
	os.WriteFile(filepath.Join(dir, "stats.json"), b, 0o644)
}

type Family func(rng *Rng, n int, out *Out, replay string)

var families = map[string]Family{}

func main() {
	if len(os.Args) < 2 {
		fmt.Fprintln(os.Stderr, "usage: harness <family> -seed N -n N -out DIR")
		os.Exit(2)
	}
	fam := os.Args[1]
	fs := flag.NewFlagSet(fam, flag.ExitOnError)
	seed := fs.Uint64("seed", 1, "seed")
	n := fs.Int("n", 1000, "number of cases")
	outDir := fs.String("out", "", "output directory")
	replay := fs.String("replay", "", "replay file (ops lines)")
	fs.Parse(os.Args[2:])
	f, ok := families[fam]
	if !ok {
		fmt.Fprintln(os.Stderr, "unknown family", fam)
		os.Exit(2)
	}
	out := NewOut(*outDir)
	f(NewRng(*seed), *n, out, *replay)
	out.Close(*outDir)
}

// protect runs f and maps a Go panic to the string "panic".
func protect(f func() string) (res string) {
	defer func() {
		if r := recover(); r != nil {
			res = "panic"
		}
	}()
	return f()
}
