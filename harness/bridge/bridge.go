package main

// Families "bridge_oracle", "bridge_credit", "bridge_peg" (properties C05, C06, C07): L1 histories on
// the REAL oracle and ethbridge keepers of a full SifchainApp (real bank, auth, staking and admin
// keepers, real module-account permissions and blocked addresses).  Every message goes through its
// own ValidateBasic and then through ethbridge.NewHandler on a cached context that is written only
// on success and discarded on error or panic (the discipline of baseapp.runTx/runMsgs).
//
// Staking is environment: validators are installed directly in the real staking keeper with chosen
// tokens and status (`val` lines), so that powers, ties and bonded flags are under the generator's
// control.  All other state is reached through the real message handlers.
//
// Each history is executed `reps` times in-process, each time on a fresh branch of the same base
// state, so that Go's randomised map iteration is re-rolled (FindHighestClaim ranges over a map).
//
// Lines (see lean/Sif/Driver/Bridge.lean for the reader):
//   reset                      start a new history (model: initial state)
//   val i power bonded         install / update staking validator i            -> ok
//   fund a denom amt           genesis balance (mint in ethbridge, send)        -> ok
//   admin oracle|bridge a      set the oracle admin / an ETHBRIDGE admin        -> ok
//   wlset i,j,..               SetOracleWhiteList (genesis)                     -> ok
//   tx <msg> ...               a message through ValidateBasic + handler        -> ok ... | err.<class> | panic
//   obs accts=.. denoms=..     canonical dump of oracle + ethbridge + bank      -> the dump
//   chk <pred> tag=.. ...      the implementation's observation; the Lean predicate is the judge

import (
	"crypto/sha256"
	"encoding/hex"
	"errors"
	"fmt"
	"math/big"
	"sort"
	"strconv"
	"strings"

	sifapp "github.com/Sifchain/sifnode/app"
	admintypes "github.com/Sifchain/sifnode/x/admin/types"
	"github.com/Sifchain/sifnode/x/ethbridge"
	"github.com/Sifchain/sifnode/x/oracle"
	ethtypes "github.com/Sifchain/sifnode/x/ethbridge/types"
	oracletypes "github.com/Sifchain/sifnode/x/oracle/types"
	"github.com/cosmos/cosmos-sdk/crypto/keys/ed25519"
	cryptotypes "github.com/cosmos/cosmos-sdk/crypto/types"
	sdk "github.com/cosmos/cosmos-sdk/types"
	sdkerrors "github.com/cosmos/cosmos-sdk/types/errors"
	"github.com/cosmos/cosmos-sdk/types/query"
	authtypes "github.com/cosmos/cosmos-sdk/x/auth/types"
	stakingtypes "github.com/cosmos/cosmos-sdk/x/staking/types"
	gethCommon "github.com/ethereum/go-ethereum/common"
	abci "github.com/tendermint/tendermint/abci/types"
	tmproto "github.com/tendermint/tendermint/proto/tendermint/types"
)

const (
	bNAccts = 9 // account aliases 0..8: 0 = ethbridge module, 1 = clp module, 2 = fee_collector (all blocked), 3.. users
	bNVals  = 8 // validator aliases 0..7
)

type bworld struct {
	app   *sifapp.SifchainApp
	base  sdk.Context
	ctx   sdk.Context
	accts []sdk.AccAddress
	vals  []sdk.ValAddress
	pks   []cryptotypes.PubKey
	h     sdk.Handler
	// observations accumulated along the current history (never decisions: the Lean predicates judge)
	genesis map[string]*big.Int // denom -> funded at genesis
	credits map[string][]string // prophecy id -> observed credits "recv|denom|amt"
	credAll []string            // all observed credits "denom|amt"
	minted  []string            // the harness's own ledger of pegged tokens: listed by the genesis (pegset) or observed entering the supply through the credit of a lock claim
	msgClaims map[string][]string // prophecy id -> "validator=content" of every accepted claim MESSAGE, content from the message's own fields
	storeFirst string            // digest of the oracle + ethbridge store bytes at the end of the first execution of the current history
	reported  map[string]string // prophecy id -> the final status (2 SUCCESS / 3 FAILED) a claim message reported for it
	wlOps     []string          // whitelist operations that took effect: "set:0.1.1.2", "add:v", "remove:v" (a ledger of results observed)
	finalSeen map[string]string // prophecy id -> its dump when it was first observed finalised (SUCCESS / FAILED)
	finalIds  []string
	locks   []string            // successful locks "denom|amt"
	burns   []string            // successful burns "denom|amt"
}

// userAddr: the address of user account alias i (i >= 3)
func userAddr(i int) sdk.AccAddress {
	b := make([]byte, 20)
	for j := range b {
		b[j] = byte(0xA0 + i)
	}
	b[19] = byte(i)
	return sdk.AccAddress(b)
}

func newBWorld() *bworld {
	w := &bworld{}
	w.app = sifapp.Setup(false)
	w.base = w.app.BaseApp.NewContext(false, tmproto.Header{Height: 1, ChainID: "verif"})
	w.accts = make([]sdk.AccAddress, bNAccts)
	w.accts[0] = authtypes.NewModuleAddress(ethtypes.ModuleName)
	w.accts[1] = authtypes.NewModuleAddress("clp")
	w.accts[2] = authtypes.NewModuleAddress(authtypes.FeeCollectorName)
	for i := 3; i < bNAccts; i++ {
		w.accts[i] = userAddr(i)
	}
	for i := 0; i < bNVals; i++ {
		seed := make([]byte, 32)
		for j := range seed {
			seed[j] = byte(0x10 + i)
		}
		pk := ed25519.GenPrivKeyFromSecret(seed).PubKey()
		w.pks = append(w.pks, pk)
		w.vals = append(w.vals, sdk.ValAddress(pk.Address().Bytes()))
	}
	w.h = ethbridge.NewHandler(w.app.EthbridgeKeeper)
	return w
}

func (w *bworld) reset() {
	w.ctx, _ = w.base.CacheContext()
	w.genesis = map[string]*big.Int{}
	w.credits = map[string][]string{}
	w.credAll = nil
	w.minted = nil
	w.finalSeen = map[string]string{}
	w.wlOps = nil
	w.reported = map[string]string{}
	w.msgClaims = map[string][]string{}
	w.finalIds = nil
	w.locks = nil
	w.burns = nil
}

func (w *bworld) acctAlias(a sdk.AccAddress) string {
	for i, x := range w.accts {
		if x.Equals(a) {
			return strconv.Itoa(i)
		}
	}
	return "u" + hex.EncodeToString(a)
}

func (w *bworld) valAlias(a sdk.ValAddress) string {
	for i, x := range w.vals {
		if x.Equals(a) {
			return strconv.Itoa(i)
		}
	}
	return "u" + hex.EncodeToString(a)
}

// address fields of generated lines: an alias, optionally followed by "U" = the all-upper-case bech32 spelling of
// the same address (bech32 decoders accept it; it decodes to the same bytes)
func splitSp(tok string) (int, bool) {
	if strings.HasSuffix(tok, "U") {
		return atoi(tok[:len(tok)-1]), true
	}
	return atoi(tok), false
}

func (w *bworld) acctStr(tok string) string {
	i, up := splitSp(tok)
	s := w.accts[i].String()
	if up {
		return strings.ToUpper(s)
	}
	return s
}

func (w *bworld) valStr(tok string) string {
	i, up := splitSp(tok)
	s := w.vals[i].String()
	if up {
		return strings.ToUpper(s)
	}
	return s
}

// claim symbols in generated lines and dumps: as they are when made of letters, digits, '.', '/', '-' only, otherwise
// '%' + hex of the bytes (quotes, commas, braces … would break the line format)
func encodeSym(s string) string {
	safe := s != ""
	for _, c := range []byte(s) {
		if !(c >= 'a' && c <= 'z' || c >= 'A' && c <= 'Z' || c >= '0' && c <= '9' || c == '.' || c == '/' || c == '-') {
			safe = false
		}
	}
	if safe {
		return s
	}
	return "%" + hex.EncodeToString([]byte(s))
}

func decodeSym(s string) string {
	if strings.HasPrefix(s, "%") {
		b, err := hex.DecodeString(s[1:])
		if err != nil {
			panic("bad symbol " + s)
		}
		return string(b)
	}
	return s
}

func atoi(s string) int {
	n, err := strconv.Atoi(s)
	if err != nil {
		panic("bad int " + s)
	}
	return n
}

func bigOf(s string) *big.Int {
	v, ok := new(big.Int).SetString(s, 10)
	if !ok {
		panic("bad big " + s)
	}
	return v
}

var pow18b = new(big.Int).Exp(big.NewInt(10), big.NewInt(18), nil)

// setVal installs or updates staking validator i: tokens = power*10^18 + 10^17 (a sub-unit remainder, so
// that the truncation in TokensToConsensusPower is exercised), status bonded or unbonded.
func (w *bworld) setVal(i int, power int64, bonded bool) {
	sk := w.app.StakingKeeper
	if old, found := sk.GetValidator(w.ctx, w.vals[i]); found {
		sk.DeleteValidatorByPowerIndex(w.ctx, old)
		sk.DeleteLastValidatorPower(w.ctx, w.vals[i])
	}
	v, err := stakingtypes.NewValidator(w.vals[i], w.pks[i], stakingtypes.Description{})
	if err != nil {
		panic(err)
	}
	tok := new(big.Int).Mul(big.NewInt(power), pow18b)
	tok.Add(tok, new(big.Int).Div(pow18b, big.NewInt(10)))
	v.Tokens = sdk.NewIntFromBigInt(tok)
	v.DelegatorShares = sdk.NewDecFromBigInt(tok)
	if err := sk.SetValidatorByConsAddr(w.ctx, v); err != nil {
		panic(err)
	}
	if bonded {
		// a bonded validator as the staking EndBlocker leaves it: status Bonded, in the power index, its power recorded
		// as last power, its tokens in the bonded pool
		v.Status = stakingtypes.Bonded
		sk.SetValidator(w.ctx, v)
		sk.SetValidatorByPowerIndex(w.ctx, v)
		if power > 0 {
			sk.SetLastValidatorPower(w.ctx, w.vals[i], power)
		}
		coins := sdk.NewCoins(sdk.NewCoin(sk.BondDenom(w.ctx), v.Tokens))
		if err := w.app.BankKeeper.MintCoins(w.ctx, ethtypes.ModuleName, coins); err != nil {
			panic(err)
		}
		if err := w.app.BankKeeper.SendCoinsFromModuleToModule(w.ctx, ethtypes.ModuleName, stakingtypes.BondedPoolName, coins); err != nil {
			panic(err)
		}
		return
	}
	// not bonded: a validator that was jailed some blocks ago — jailed, unbonding, not in the power index
	v.Status = stakingtypes.Unbonding
	v.Jailed = true
	sk.SetValidator(w.ctx, v)
}

// jail / unjail / stakeend: the real staking keeper's Jail, Unjail and validator-set update of its EndBlocker.
// Jail takes the validator out of the power index at once while its status stays Bonded until the next stakeend.
func (w *bworld) jail(i int) string {
	sk := w.app.StakingKeeper
	v, found := sk.GetValidator(w.ctx, w.vals[i])
	if !found || v.Jailed {
		return "noop"
	}
	return protectStr(func() string {
		ca, err := v.GetConsAddr()
		if err != nil {
			panic(err)
		}
		sk.Jail(w.ctx, ca)
		return "ok"
	}, "panic")
}

func (w *bworld) unjail(i int) string {
	sk := w.app.StakingKeeper
	v, found := sk.GetValidator(w.ctx, w.vals[i])
	if !found || !v.Jailed || !v.IsBonded() {
		return "noop" // only a validator jailed earlier in this block (status still Bonded) is unjailed here
	}
	return protectStr(func() string {
		ca, err := v.GetConsAddr()
		if err != nil {
			panic(err)
		}
		sk.Unjail(w.ctx, ca)
		return "ok"
	}, "panic")
}

func (w *bworld) stakeEnd() string {
	return protectStr(func() string {
		if _, err := w.app.StakingKeeper.ApplyAndReturnValidatorSetUpdates(w.ctx); err != nil {
			return "err"
		}
		return "ok"
	}, "panic")
}

func classify(err error) string {
	switch {
	case errors.Is(err, oracletypes.ErrValidatorNotInWhiteList):
		return "err.wl"
	case errors.Is(err, oracletypes.ErrInvalidValidator):
		return "err.val"
	case errors.Is(err, oracletypes.ErrProphecyFinalized):
		return "err.final"
	case errors.Is(err, oracletypes.ErrDuplicateMessage):
		return "err.dup"
	case errors.Is(err, oracletypes.ErrNotAdminAccount), errors.Is(err, ethtypes.ErrNotEnoughPermissions):
		return "err.auth"
	case errors.Is(err, ethtypes.ErrPaused):
		return "err.paused"
	case errors.Is(err, ethtypes.ErrInvalidEthAddress):
		return "err.ethaddr"
	case errors.Is(err, sdkerrors.ErrInsufficientFunds):
		return "err.funds"
	case errors.Is(err, ethtypes.ErrInvalidClaimType):
		return "err.ctype"
	}
	if strings.Contains(err.Error(), "can't be locked") {
		return "err.pegged"
	}
	if strings.Contains(err.Error(), "can't be burned") {
		return "err.native"
	}
	if strings.Contains(err.Error(), "only admin account") {
		return "err.auth"
	}
	return "err"
}

// deliver = ValidateBasic, then the real handler on a cached context, written only on success.
func (w *bworld) deliver(msg sdk.Msg) (string, []sdk.Event) {
	var evs []sdk.Event
	cls := protect(func() string {
		if err := msg.ValidateBasic(); err != nil {
			return "err.validate"
		}
		cctx, write := w.ctx.CacheContext()
		res, err := w.h(cctx, msg)
		if err != nil {
			return classify(err)
		}
		write()
		for _, e := range res.Events {
			evs = append(evs, sdk.Event(e))
		}
		return "ok"
	})
	return cls, evs
}

// ---- canonical dumps -------------------------------------------------------------------------

func contentCanon(w *bworld, s string) string {
	if s == "" {
		return "-"
	}
	c, err := ethtypes.CreateOracleClaimFromOracleString(s)
	if err != nil {
		return "?" + hex.EncodeToString([]byte(s))
	}
	amt := "nil"
	if !c.Amount.IsNil() {
		amt = c.Amount.String()
	}
	tok := gethCommon.Address(c.TokenContractAddress)
	return fmt.Sprintf("%s|%s|%s|%s|%d", w.acctAlias(c.CosmosReceiver), amt, encodeSym(c.Symbol), hex.EncodeToString(tok[:]), int32(c.ClaimType))
}

func statusNum(t oracletypes.StatusText) string {
	switch t {
	case oracletypes.StatusText_STATUS_TEXT_PENDING:
		return "1"
	case oracletypes.StatusText_STATUS_TEXT_SUCCESS:
		return "2"
	case oracletypes.StatusText_STATUS_TEXT_FAILED:
		return "3"
	}
	return "0"
}

// prophecy dump: P;<id>;<status>;<final>;<v=content,...>;<content=v.v.v,...>
// (validator claims sorted by validator alias; claim groups sorted by content, validators of a group in
// the stored order — the order matters to nobody but duplicates must stay visible)
func (w *bworld) dumpProphecy(p oracletypes.Prophecy) string {
	var vc []string
	for vb, c := range p.ValidatorClaims {
		va, err := sdk.ValAddressFromBech32(vb)
		al := "?" + vb
		if err == nil {
			al = w.valAlias(va)
		}
		vc = append(vc, al+"="+contentCanon(w, c))
	}
	sort.Strings(vc)
	var gs []string
	for c, vs := range p.ClaimValidators {
		var xs []string
		for _, v := range vs {
			xs = append(xs, w.valAlias(v))
		}
		gs = append(gs, contentCanon(w, c)+"="+strings.Join(xs, "."))
	}
	sort.Strings(gs)
	return fmt.Sprintf("P;%s;%s;%s;%s;%s", p.ID, statusNum(p.Status.Text), contentCanon(w, p.Status.FinalClaim), listOrDash(vc), listOrDash(gs))
}

func listOrDash(xs []string) string {
	if len(xs) == 0 {
		return "-"
	}
	return strings.Join(xs, ",")
}

func (w *bworld) prophecy(id string) (oracletypes.Prophecy, bool) {
	return w.app.OracleKeeper.GetProphecy(w.ctx, id)
}

// dumpVals: id : power : counted by GetBondedValidatorsByPower (the power-index view) : status Bonded (GetValidator)
func (w *bworld) dumpVals() string {
	counted := map[string]bool{}
	for _, v := range w.app.StakingKeeper.GetBondedValidatorsByPower(w.ctx) {
		counted[v.OperatorAddress] = true
	}
	var xs []string
	for i, va := range w.vals {
		v, found := w.app.StakingKeeper.GetValidator(w.ctx, va)
		if !found {
			continue
		}
		xs = append(xs, fmt.Sprintf("%d:%d:%s:%s", i, v.PotentialConsensusPower(sdk.DefaultPowerReduction), b2s(counted[va.String()]), b2s(v.IsBonded())))
	}
	return listOrDash(xs)
}

func (w *bworld) dumpWl() string {
	var xs []string
	for _, a := range w.app.OracleKeeper.GetOracleWhiteList(w.ctx) {
		xs = append(xs, w.valAlias(a))
	}
	return listOrDash(xs)
}

func b2s(b bool) string {
	if b {
		return "1"
	}
	return "0"
}

// bank view: every non-zero balance and supply, as maps "acct:denom" -> amount, "denom" -> amount
func (w *bworld) bankView() (map[string]*big.Int, map[string]*big.Int) {
	bond := w.app.StakingKeeper.BondDenom(w.ctx) // staking pools (environment) hold it; no bridge message touches it
	if bond == "rowan" || bond == "ceth" {
		panic("bond denom collides with a bridge denom")
	}
	bal := map[string]*big.Int{}
	w.app.BankKeeper.IterateAllBalances(w.ctx, func(a sdk.AccAddress, c sdk.Coin) bool {
		if !c.Amount.IsZero() && c.Denom != bond {
			bal[w.acctAlias(a)+":"+c.Denom] = c.Amount.BigInt()
		}
		return false
	})
	sup := map[string]*big.Int{}
	coins, _, err := w.app.BankKeeper.GetPaginatedTotalSupply(w.ctx, &query.PageRequest{Limit: query.MaxLimit})
	if err != nil {
		panic(err)
	}
	for _, c := range coins {
		if !c.Amount.IsZero() && c.Denom != bond {
			sup[c.Denom] = c.Amount.BigInt()
		}
	}
	return bal, sup
}

func dumpMap(m map[string]*big.Int) string {
	var ks []string
	for k := range m {
		ks = append(ks, k)
	}
	sort.Strings(ks)
	var xs []string
	for _, k := range ks {
		xs = append(xs, k+"="+m[k].String())
	}
	return listOrDash(xs)
}

// signed difference after - before over the union of keys, zero entries dropped
func deltaMap(before, after map[string]*big.Int) string {
	d := map[string]*big.Int{}
	for k, v := range after {
		d[k] = new(big.Int).Set(v)
	}
	for k, v := range before {
		if _, ok := d[k]; !ok {
			d[k] = new(big.Int)
		}
		d[k].Sub(d[k], v)
	}
	for k, v := range d {
		if v.Sign() == 0 {
			delete(d, k)
		}
	}
	return dumpMap(d)
}

// dumpProphecies lists every stored prophecy; a panic of the keeper while reading them is an observation ("PANIC")
func (w *bworld) dumpProphecies() string {
	return protectStr(func() string {
		var ps []string
		for _, p := range w.app.OracleKeeper.GetProphecies(w.ctx) {
			ps = append(ps, w.dumpProphecy(p))
		}
		sort.Strings(ps)
		return listOrDash2(ps)
	}, "PANIC")
}

func protectStr(f func() string, onPanic string) (res string) {
	defer func() {
		if r := recover(); r != nil {
			res = onPanic
		}
	}()
	return f()
}

// dumpBridgeRest: the oracle / ethbridge state other than the prophecies, one token
func (w *bworld) dumpBridgeRest() string {
	return protectStr(func() string {
		k := w.app.EthbridgeKeeper
		recv := "-"
		if k.IsCethReceiverAccountSet(w.ctx) {
			recv = w.acctAlias(k.GetCethReceiverAccount(w.ctx))
		}
		bl := append([]string{}, k.GetBlacklist(w.ctx)...)
		sort.Strings(bl)
		pt := append([]string{}, k.GetPeggyToken(w.ctx).Tokens...)
		sort.Strings(pt)
		adm := "-"
		if a := w.app.OracleKeeper.GetAdminAccount(w.ctx); len(a) > 0 {
			adm = w.acctAlias(a)
		}
		return fmt.Sprintf("wl:%s;admin:%s;peggy:%s;paused:%s;recv:%s;bl:%s", w.dumpWl(), adm, listOrDash(pt), b2s(k.IsPaused(w.ctx)), recv, listOrDash(bl))
	}, "PANIC")
}

// restart: the chain is restarted from its exported genesis — the real oracle and ethbridge ExportGenesis, the app's
// JSON codec, the real InitGenesis on emptied oracle / ethbridge stores; bank, auth, staking and admin state are
// carried over.  Written only if nothing panicked.
func (w *bworld) restart() string {
	return protectStr(func() string {
		cctx, write := w.ctx.CacheContext()
		cdc := w.app.AppCodec()
		ob := cdc.MustMarshalJSON(oracle.ExportGenesis(cctx, w.app.OracleKeeper))
		eb := cdc.MustMarshalJSON(ethbridge.ExportGenesis(cctx, w.app.EthbridgeKeeper))
		var og oracletypes.GenesisState
		var eg ethtypes.GenesisState
		cdc.MustUnmarshalJSON(ob, &og)
		cdc.MustUnmarshalJSON(eb, &eg)
		for _, name := range []string{oracletypes.StoreKey, ethtypes.StoreKey} {
			st := cctx.KVStore(w.app.GetKey(name))
			var keys [][]byte
			it := st.Iterator(nil, nil)
			for ; it.Valid(); it.Next() {
				keys = append(keys, append([]byte{}, it.Key()...))
			}
			it.Close()
			for _, k := range keys {
				st.Delete(k)
			}
		}
		oracle.InitGenesis(cctx, w.app.OracleKeeper, og)
		ethbridge.InitGenesis(cctx, w.app.EthbridgeKeeper, eg)
		write()
		return "ok"
	}, "panic")
}

func (w *bworld) dumpState() string {
	bal, sup := w.bankView()
	k := w.app.EthbridgeKeeper
	recv := "-"
	if k.IsCethReceiverAccountSet(w.ctx) {
		recv = w.acctAlias(k.GetCethReceiverAccount(w.ctx))
	}
	var bl []string
	for _, b := range k.GetBlacklist(w.ctx) {
		if gethCommon.IsHexAddress(b) {
			bl = append(bl, "a:"+ethAddrBytes(b))
		} else {
			bl = append(bl, "r:"+b)
		}
	}
	sort.Strings(bl)
	pt := append([]string{}, k.GetPeggyToken(w.ctx).Tokens...)
	sort.Strings(pt)
	return fmt.Sprintf("wl=%s proph=%s peggy=%s paused=%s recv=%s bl=%s bal=%s sup=%s",
		w.dumpWl(), w.dumpProphecies(), listOrDash(pt), b2s(k.IsPaused(w.ctx)), recv, listOrDash(bl), dumpMap(bal), dumpMap(sup))
}

func listOrDash2(xs []string) string {
	if len(xs) == 0 {
		return "-"
	}
	return strings.Join(xs, "/")
}

// ---- executing one line -----------------------------------------------------------------------

type bexec struct {
	w   *bworld
	out *Out
}

func (x *bexec) emit(op, ans, cls string, nontriv bool) { x.out.Emit(op, ans, cls, nontriv) }

func ethClaimOf(w *bworld, t []string) *ethtypes.EthBridgeClaim {
	// claim v chain nonce sender recv amount symbol token type
	chain, _ := strconv.ParseInt(t[1], 10, 64)
	nonce, _ := strconv.ParseInt(t[2], 10, 64)
	return &ethtypes.EthBridgeClaim{
		EthereumChainId:       chain,
		BridgeContractAddress: "0x30753E4A8aad7F8597332E813735Def5dD395028",
		Nonce:                 nonce,
		Symbol:                decodeSym(t[6]),
		TokenContractAddress:  t[7],
		EthereumSender:        t[3],
		CosmosReceiver:        w.acctStr(t[4]),
		ValidatorAddress:      w.valStr(t[0]),
		Amount:                sdk.NewIntFromBigInt(bigOf(t[5])),
		ClaimType:             ethtypes.ClaimType(atoi(t[8])),
	}
}

func prophecyID(c *ethtypes.EthBridgeClaim) string {
	return strconv.FormatInt(c.EthereumChainId, 10) + strconv.FormatInt(c.Nonce, 10) + c.EthereumSender
}

func ethAddrBytes(s string) string {
	a := gethCommon.HexToAddress(s)
	return hex.EncodeToString(a[:])
}

// exec runs one generated line, emits it with the implementation's answer, then the obs and chk lines.
func (x *bexec) exec(line string) {
	w := x.w
	t := strings.Fields(line)
	switch t[0] {
	case "reset":
		w.reset()
		x.emit(line, "ok", "reset", false)
		x.chkWlView() // a fresh world: nothing of an earlier world may be visible
		x.chkPauseView()
		return
	case "restart":
		pb, rb := w.dumpProphecies(), w.dumpBridgeRest()
		ans := w.restart()
		x.emit(line, ans, "restart."+ans, true)
		x.emit(fmt.Sprintf("chk carry tag=genesis.export-import.bridge-state-carried pb=%s pa=%s restb=%s resta=%s", pb, w.dumpProphecies(), rb, w.dumpBridgeRest()),
			"true", "chk.carry", pb != "-")
	case "val":
		w.setVal(atoi(t[1]), int64(atoi(t[2])), t[3] == "1")
		x.emit(line, "ok", "val", false)
	case "jail":
		ans := w.jail(atoi(t[1]))
		x.emit(line, ans, "jail."+ans, ans == "ok")
	case "unjail":
		ans := w.unjail(atoi(t[1]))
		x.emit(line, ans, "unjail."+ans, ans == "ok")
	case "pegset":
		// the ethbridge genesis names peggy tokens, in the order they arrived on the exporting chain: the real
		// ethbridge.InitGenesis on the block context; the listed tokens join the harness's own ledger of pegged tokens
		l := strings.Split(t[1], ",")
		ans := protectStr(func() string {
			ethbridge.InitGenesis(w.ctx, w.app.EthbridgeKeeper, ethtypes.GenesisState{PeggyTokens: l})
			return "ok"
		}, "panic")
		for _, d := range l {
			seen := false
			for _, m := range w.minted {
				seen = seen || m == d
			}
			if !seen {
				w.minted = append(w.minted, d)
			}
		}
		x.emit(line, ans, "pegset."+ans, true)
	case "stakeend":
		ans := w.stakeEnd()
		x.emit(line, ans, "stakeend."+ans, true)
	case "fund":
		coins := sdk.NewCoins(sdk.NewCoin(t[2], sdk.NewIntFromBigInt(bigOf(t[3]))))
		if err := w.app.BankKeeper.MintCoins(w.ctx, ethtypes.ModuleName, coins); err != nil {
			panic(err)
		}
		if a := atoi(t[1]); a != 0 {
			if err := w.app.BankKeeper.SendCoins(w.ctx, w.accts[0], w.accts[a], coins); err != nil {
				panic(err)
			}
		}
		g, ok := w.genesis[t[2]]
		if !ok {
			g = new(big.Int)
			w.genesis[t[2]] = g
		}
		g.Add(g, bigOf(t[3]))
		x.emit(line, "ok", "fund", false)
	case "admin":
		a := w.accts[atoi(t[2])]
		if t[1] == "oracle" {
			w.app.OracleKeeper.SetAdminAccount(w.ctx, a)
		} else {
			w.app.AdminKeeper.SetAdminAccount(w.ctx, &admintypes.AdminAccount{AdminType: admintypes.AdminType_ETHBRIDGE, AdminAddress: a.String()})
		}
		x.emit(line, "ok", "admin", false)
	case "wlset":
		var l []sdk.ValAddress
		if t[1] != "-" {
			for _, s := range strings.Split(t[1], ",") {
				l = append(l, w.vals[atoi(s)])
			}
		}
		w.app.OracleKeeper.SetOracleWhiteList(w.ctx, l)
		w.wlOps = append(w.wlOps, "set:"+strings.ReplaceAll(t[1], ",", "."))
		x.emit(line, "ok", "wlset", false)
	case "tx":
		x.execTx(line, t[1], t[2:])
	case "txm":
		var msgs []sdk.Msg
		var seg []string
		for _, tok := range append(t[1:], "|") {
			if tok == "|" {
				if len(seg) > 0 {
					msgs = append(msgs, w.msgOf(seg[0], seg[1:]))
				}
				seg = nil
			} else {
				seg = append(seg, tok)
			}
		}
		ans := w.deliverMany(msgs)
		cls := ans
		if strings.HasPrefix(ans, "ok") {
			cls = "ok"
		}
		if cls == "ok" {
			// every whitelist edit of a transaction that was written as a whole took effect
			seg = nil
			for _, tok := range append(t[1:], "|") {
				if tok == "|" {
					if len(seg) == 4 && seg[0] == "wl" {
						w.noteWlOp(seg[2], seg[3])
					}
					seg = nil
				} else {
					seg = append(seg, tok)
				}
			}
		}
		x.emit(line, ans, "txm."+cls, true)
	case "blk":
		// n blocks pass: the real EndBlock hooks of the oracle and ethbridge modules at the current height, height + n,
		// their BeginBlock hooks; a panic of a hook is an observation
		n := int64(1)
		if len(t) > 1 {
			n = int64(atoi(t[1]))
		}
		ans := protectStr(func() string {
			cdc := w.app.AppCodec()
			om := oracle.NewAppModule(w.app.OracleKeeper)
			em := ethbridge.NewAppModule(w.app.OracleKeeper, w.app.BankKeeper, w.app.AccountKeeper, w.app.EthbridgeKeeper, &cdc)
			h := w.ctx.BlockHeight()
			om.EndBlock(w.ctx, abci.RequestEndBlock{Height: h})
			em.EndBlock(w.ctx, abci.RequestEndBlock{Height: h})
			w.ctx = w.ctx.WithBlockHeight(h + n)
			om.BeginBlock(w.ctx, abci.RequestBeginBlock{})
			em.BeginBlock(w.ctx, abci.RequestBeginBlock{})
			return "ok"
		}, "panic")
		x.emit(line, ans, "blk."+ans, n > 1)
	default:
		panic("unknown line " + line)
	}
	x.obs()
	x.chkFinalHistory(t)
	// after every line that can touch the whitelist (or the block height): the keeper's view against the store
	if t[0] == "wlset" || t[0] == "txm" || t[0] == "restart" || t[0] == "blk" || (t[0] == "tx" && t[1] == "wl") {
		x.chkWlView()
	}
	if t[0] == "txm" || t[0] == "restart" || t[0] == "blk" || (t[0] == "tx" && t[1] == "pause") {
		x.chkPauseView()
	}
}

func (x *bexec) obs() {
	x.emit("obs", x.w.dumpState(), "obs", false)
}

// finality over the history: a prophecy once observed finalised is remembered as it was then; after every claim about
// it, and after every block step and restart for all remembered ones, what the keeper returns now is put next to it
func (x *bexec) chkFinalHistory(t []string) {
	w := x.w
	var ids []string
	switch {
	case t[0] == "tx" && t[1] == "claim":
		id := prophecyID(ethClaimOf(w, t[2:]))
		if p, found := w.prophecy(id); found && p.Status.Text != oracletypes.StatusText_STATUS_TEXT_PENDING {
			if _, seen := w.finalSeen[id]; !seen {
				w.finalSeen[id] = w.dumpProphecy(p)
				w.finalIds = append(w.finalIds, id)
			}
		}
		if _, seen := w.finalSeen[id]; seen {
			ids = []string{id}
		}
	case t[0] == "blk" || t[0] == "restart":
		ids = w.finalIds
	}
	for _, id := range ids {
		now := "-"
		if p, found := w.prophecy(id); found {
			now = w.dumpProphecy(p)
		}
		x.emit(fmt.Sprintf("chk finhist tag=oracle.finality.over-history first=%s now=%s", w.finalSeen[id], now), "true", "chk.finhist", true)
	}
}

func (w *bworld) noteWlOp(op, valTok string) {
	if op == "add" || op == "remove" {
		v, _ := splitSp(valTok)
		w.wlOps = append(w.wlOps, fmt.Sprintf("%s:%d", op, v))
	}
}

func (w *bworld) dumpWlOps() string { return listOrDash(w.wlOps) }

// the whitelist the keeper serves against the whitelist the multistore holds (read raw, decoded with the codec)
func (x *bexec) chkWlView() {
	w := x.w
	view, stored := w.dumpWl(), w.dumpWlStored()
	x.emit(fmt.Sprintf("chk wlview tag=oracle.whitelist.keeper-view-equals-store view=%s stored=%s", view, stored), "true", "chk.wlview", view != "-")
	// …and against the ledger of the administrative operations that took effect (genesis list, adds, removes)
	x.emit(fmt.Sprintf("chk wlmember tag=oracle.whitelist.members-follow-admin-operations stored=%s ops=%s", stored, w.dumpWlOps()), "true", "chk.wlmember", len(w.wlOps) > 1)
}

// storeDigest: sha256 over every key and value (length-prefixed) of the oracle and the ethbridge store, in key order
func (w *bworld) storeDigest() string {
	hsh := sha256.New()
	for _, name := range []string{oracletypes.StoreKey, ethtypes.StoreKey} {
		it := w.ctx.KVStore(w.app.GetKey(name)).Iterator(nil, nil)
		for ; it.Valid(); it.Next() {
			fmt.Fprintf(hsh, "%s %d %d ", name, len(it.Key()), len(it.Value()))
			hsh.Write(it.Key())
			hsh.Write(it.Value())
		}
		it.Close()
	}
	return hex.EncodeToString(hsh.Sum(nil))
}

// endOfExecution: the committed bytes of the stores must be the same in every execution of the same history
func (x *bexec) endOfExecution(rep int) {
	w := x.w
	d := w.storeDigest()
	if rep == 0 {
		w.storeFirst = d
		return
	}
	x.emit(fmt.Sprintf("chk storebytes tag=store.bytes-equal-across-executions first=%s now=%s", w.storeFirst, d), "true", "chk.storebytes", true)
}

// pausedStored reads the pause flag straight from the ethbridge store
func (w *bworld) pausedStored() bool {
	bz := w.ctx.KVStore(w.app.GetKey(ethtypes.StoreKey)).Get(ethtypes.PausePrefix)
	var p ethtypes.Pause
	w.app.AppCodec().MustUnmarshal(bz, &p)
	return p.IsPaused
}

// the pause flag the keeper answers with against the flag the multistore holds
func (x *bexec) chkPauseView() {
	w := x.w
	view, stored := w.app.EthbridgeKeeper.IsPaused(w.ctx), w.pausedStored()
	x.emit(fmt.Sprintf("chk pauseview tag=ethbridge.pause.keeper-view-equals-store view=%s stored=%s", b2s(view), b2s(stored)), "true", "chk.pauseview", stored)
}

// dumpWlStored reads the whitelist straight from the oracle store
func (w *bworld) dumpWlStored() string {
	bz := w.ctx.KVStore(w.app.GetKey(oracletypes.StoreKey)).Get(oracletypes.WhiteListValidatorPrefix)
	var v stakingtypes.ValAddresses
	w.app.AppCodec().MustUnmarshal(bz, &v)
	var xs []string
	for _, a := range v.Addresses {
		va, err := sdk.ValAddressFromBech32(a)
		if err != nil {
			xs = append(xs, "?"+a)
			continue
		}
		xs = append(xs, w.valAlias(va))
	}
	return listOrDash(xs)
}

// msgOf builds an administrative message of a multi-message transaction
func (w *bworld) msgOf(kind string, t []string) sdk.Msg {
	switch kind {
	case "wl":
		return &ethtypes.MsgUpdateWhiteListValidator{CosmosSender: w.acctStr(t[0]), Validator: w.valStr(t[2]), OperationType: t[1]}
	case "pause":
		return &ethtypes.MsgPause{Signer: w.acctStr(t[0]), IsPaused: t[1] == "1"}
	case "bl":
		var l []string
		if t[1] != "-" {
			l = strings.Split(t[1], ",")
		}
		return &ethtypes.MsgSetBlacklist{From: w.acctStr(t[0]), Addresses: l}
	case "recv":
		return &ethtypes.MsgUpdateCethReceiverAccount{CosmosSender: w.acctStr(t[0]), CethReceiverAccount: w.acctStr(t[1])}
	case "rescue":
		return &ethtypes.MsgRescueCeth{CosmosSender: w.acctStr(t[0]), CosmosReceiver: w.acctStr(t[1]), CethAmount: sdk.NewIntFromBigInt(bigOf(t[2]))}
	}
	panic("txm: unsupported message kind " + kind)
}

// deliverMany = baseapp.runTx for several messages: ValidateBasic of all of them, then every handler on ONE cached
// context, which is written only if all succeeded; the first error or panic discards everything.
func (w *bworld) deliverMany(msgs []sdk.Msg) string {
	return protect(func() string {
		for _, m := range msgs {
			if err := m.ValidateBasic(); err != nil {
				return "err.validate"
			}
		}
		cctx, write := w.ctx.CacheContext()
		var oks []string
		for _, m := range msgs {
			if _, err := w.h(cctx, m); err != nil {
				return classify(err)
			}
			oks = append(oks, "ok")
		}
		write()
		return strings.Join(oks, ";")
	})
}

func evAttr(e sdk.Event, k string) string {
	for _, a := range e.Attributes {
		if string(a.Key) == k {
			return string(a.Value)
		}
	}
	return "?"
}

// lock/burn events of a result, canonical: kind:chain:sender:receiver:amount:symbol:ceth (the sequence
// attribute is not compared: account sequences are outside the model)
func (w *bworld) bridgeEvents(evs []sdk.Event, msgKind string) []string {
	var xs []string
	for _, e := range evs {
		if e.Type != ethtypes.EventTypeLock && e.Type != ethtypes.EventTypeBurn {
			continue
		}
		// x/bank emits its own "burn" event (coin burn: burner, amount); the bridge's events are those
		// that carry the ethereum chain id
		if evAttr(e, ethtypes.AttributeKeyEthereumChainID) == "?" {
			continue
		}
		snd := evAttr(e, ethtypes.AttributeKeyCosmosSender)
		if a, err := sdk.AccAddressFromBech32(snd); err == nil {
			snd = w.acctAlias(a)
		}
		xs = append(xs, fmt.Sprintf("%s:%s:%s:%s:%s:%s:%s", e.Type, evAttr(e, ethtypes.AttributeKeyEthereumChainID), snd,
			evAttr(e, ethtypes.AttributeKeyEthereumReceiver), evAttr(e, ethtypes.AttributeKeyAmount), evAttr(e, ethtypes.AttributeKeySymbol), evAttr(e, ethtypes.AttributeKeyCethAmount)))
	}
	return xs
}

func (x *bexec) execTx(line, kind string, t []string) {
	w := x.w
	balB, supB := w.bankView()
	switch kind {
	case "claim":
		c := ethClaimOf(w, t)
		id := prophecyID(c)
		pb, foundB := w.prophecy(id)
		peggyB := append([]string{}, w.app.EthbridgeKeeper.GetPeggyToken(w.ctx).Tokens...)
		msg := ethtypes.NewMsgCreateEthBridgeClaim(c)
		ledgerB := w.reported[id] // the status an earlier claim message REPORTED for this prophecy ("" = none yet)
		cls, cevs := w.deliver(&msg)
		pa, foundA := w.prophecy(id)
		ans := cls
		reported := ""
		if cls == "ok" {
			// the status the message itself reports (its prophecy_status event), not a read-back of the store
			reported = "0"
			for _, e := range cevs {
				if e.Type == ethtypes.EventTypeProphecyStatus {
					switch evAttr(e, ethtypes.AttributeKeyStatus) {
					case oracletypes.StatusText_STATUS_TEXT_PENDING.String():
						reported = "1"
					case oracletypes.StatusText_STATUS_TEXT_SUCCESS.String():
						reported = "2"
					case oracletypes.StatusText_STATUS_TEXT_FAILED.String():
						reported = "3"
					}
				}
			}
			ans = "ok " + reported
		}
		hcls := "claim." + ans
		if cls == "ok" && pa.Status.Text == oracletypes.StatusText_STATUS_TEXT_SUCCESS {
			// shape: the claim that completes the prophecy carries another content than the one that won
			if oc, err := ethtypes.CreateOracleClaimFromEthClaim(c); err == nil && contentCanon(w, oc.Content) != contentCanon(w, pa.Status.FinalClaim) {
				hcls = "claim.ok 2 completed-by-conflicting-claim"
			}
		}
		x.emit(line, ans, hcls, cls == "ok")
		x.chkClaim(t, id, pb, foundB, pa, foundA, cls, balB, supB)
		// C05 finality against the ledger of REPORTED statuses
		storedNow := "0"
		if foundA {
			storedNow = statusNum(pa.Status.Text)
		}
		if reported != "" {
			x.emit(fmt.Sprintf("chk statusread tag=oracle.status.reported-equals-stored reported=%s stored=%s", reported, storedNow), "true", "chk.statusread", reported != "1")
		}
		if ledgerB == "2" || ledgerB == "3" {
			balA2, supA2 := w.bankView()
			x.emit(fmt.Sprintf("chk finledger tag=oracle.finality.against-reported-status reported=%s res=%s stored=%s balb=%s bala=%s supb=%s supa=%s",
				ledgerB, cls, storedNow, dumpMap(balB), dumpMap(balA2), dumpMap(supB), dumpMap(supA2)), "true", "chk.finledger", true)
		}
		if (reported == "2" || reported == "3") && ledgerB != "2" && ledgerB != "3" {
			w.reported[id] = reported
		}
		// C06: what was credited against the contents of the accepted claim messages (not the stored final claim)
		if cls == "ok" {
			v, _ := splitSp(t[0])
			recv, _ := splitSp(t[4])
			w.msgClaims[id] = append(w.msgClaims[id], fmt.Sprintf("%d=%d|%s|%s|%s|%s", v, recv, t[5], t[6], ethAddrBytes(t[7]), t[8]))
			balA, supA := w.bankView()
			x.emit(fmt.Sprintf("chk creditmsg tag=ethbridge.credit.matches-claim-messages vals=%s wl=%s msgs=%s balb=%s bala=%s supb=%s supa=%s",
				w.dumpVals(), w.dumpWlStored(), listOrDash(w.msgClaims[id]), dumpMap(balB), dumpMap(balA), dumpMap(supB), dumpMap(supA)),
				"true", "chk.creditmsg", pa.Status.Text == oracletypes.StatusText_STATUS_TEXT_SUCCESS)
		}
		// C07: an accepted claim that turned the prophecy SUCCESS registers exactly the credited pegged denomination
		if cls == "ok" && foundA && pa.Status.Text == oracletypes.StatusText_STATUS_TEXT_SUCCESS &&
			(!foundB || pb.Status.Text == oracletypes.StatusText_STATUS_TEXT_PENDING) {
			peggyA := append([]string{}, w.app.EthbridgeKeeper.GetPeggyToken(w.ctx).Tokens...)
			sort.Strings(peggyB)
			sort.Strings(peggyA)
			x.emit(fmt.Sprintf("chk peggyreg tag=ethbridge.AddPeggyToken.registration final=%s peggyb=%s peggya=%s",
				contentCanon(w, pa.Status.FinalClaim), listOrDash(peggyB), listOrDash(peggyA)), "true", "chk.peggyreg", true)
		}
	case "wl":
		msg := ethtypes.MsgUpdateWhiteListValidator{CosmosSender: w.acctStr(t[0]), Validator: w.valStr(t[2]), OperationType: t[1]}
		cls, _ := w.deliver(&msg)
		if cls == "ok" {
			w.noteWlOp(t[1], t[2])
		}
		x.emit(line, cls, "wl."+t[1]+"."+cls, cls == "ok")
	case "lock", "burn":
		// lock|burn s chain recv amount symbol ceth
		chain, _ := strconv.ParseInt(t[1], 10, 64)
		var msg sdk.Msg
		if kind == "lock" {
			msg = &ethtypes.MsgLock{EthereumChainId: chain, CosmosSender: w.acctStr(t[0]), EthereumReceiver: t[2],
				Amount: sdk.NewIntFromBigInt(bigOf(t[3])), Symbol: t[4], CethAmount: sdk.NewIntFromBigInt(bigOf(t[5]))}
		} else {
			msg = &ethtypes.MsgBurn{EthereumChainId: chain, CosmosSender: w.acctStr(t[0]), EthereumReceiver: t[2],
				Amount: sdk.NewIntFromBigInt(bigOf(t[3])), Symbol: t[4], CethAmount: sdk.NewIntFromBigInt(bigOf(t[5]))}
		}
		k := w.app.EthbridgeKeeper
		pausedB := w.pausedStored() // the committed flag, not the keeper's answer
		blB := k.GetBlacklist(w.ctx)
		recvB := "-"
		if k.IsCethReceiverAccountSet(w.ctx) {
			recvB = w.acctAlias(k.GetCethReceiverAccount(w.ctx))
		}
		peggyB := append([]string{}, k.GetPeggyToken(w.ctx).Tokens...)
		cls, evs := w.deliver(msg)
		ans := cls
		bev := w.bridgeEvents(evs, kind)
		if cls == "ok" {
			ans = "ok " + listOrDash(bev)
		}
		x.emit(line, ans, kind+"."+cls, cls == "ok")
		x.chkPeg(kind, t, cls, bev, pausedB, blB, recvB, peggyB, balB, supB)
	case "pause":
		msg := &ethtypes.MsgPause{Signer: w.acctStr(t[0]), IsPaused: t[1] == "1"}
		cls, _ := w.deliver(msg)
		x.emit(line, cls, "pause."+cls, cls == "ok")
	case "bl":
		var l []string
		if t[1] != "-" {
			l = strings.Split(t[1], ",")
		}
		msg := &ethtypes.MsgSetBlacklist{From: w.acctStr(t[0]), Addresses: l}
		cls, _ := w.deliver(msg)
		x.emit(line, cls, "bl."+cls, cls == "ok")
		if cls == "ok" {
			// C07: "the receiver is blacklisted" means the admin's latest accepted list; what the keeper
			// stored for it is judged by the Lean predicate blSetOK
			blA := w.app.EthbridgeKeeper.GetBlacklist(w.ctx)
			sort.Strings(blA)
			x.emit(fmt.Sprintf("chk blset tag=ethbridge.SetBlacklist.stores req=%s bl=%s", listOrDash(l), listOrDash(blA)), "true", "chk.blset", len(l) > 0)
		}
	case "recv":
		msg := ethtypes.MsgUpdateCethReceiverAccount{CosmosSender: w.acctStr(t[0]), CethReceiverAccount: w.acctStr(t[1])}
		cls, _ := w.deliver(&msg)
		x.emit(line, cls, "recv."+cls, cls == "ok")
	case "rescue":
		msg := ethtypes.MsgRescueCeth{CosmosSender: w.acctStr(t[0]), CosmosReceiver: w.acctStr(t[1]), CethAmount: sdk.NewIntFromBigInt(bigOf(t[2]))}
		cls, _ := w.deliver(&msg)
		x.emit(line, cls, "rescue."+cls, cls == "ok")
	default:
		panic("unknown tx " + line)
	}
	x.chkSupply()
}

// ---- chk lines: the implementation's observations, judged by the Lean predicates ---------------

func pdump(w *bworld, p oracletypes.Prophecy, found bool) string {
	if !found {
		return "-"
	}
	return w.dumpProphecy(p)
}

func (x *bexec) chkClaim(t []string, id string, pb oracletypes.Prophecy, foundB bool, pa oracletypes.Prophecy, foundA bool, cls string,
	balB, supB map[string]*big.Int) {
	w := x.w
	balA, supA := w.bankView()
	dBal, dSup := deltaMap(balB, balA), deltaMap(supB, supA)
	wasPending := !foundB || pb.Status.Text == oracletypes.StatusText_STATUS_TEXT_PENDING
	// C05 well-formedness of the tally (a validator counts at most once)
	if foundA {
		x.emit("chk wf tag=oracle.prophecy.wellformed p="+w.dumpProphecy(pa), "true", "chk.wf", true)
	}
	// C05: an accepted claim comes from a validator in the STORED whitelist, bonded
	if cls == "ok" {
		v, _ := splitSp(t[0])
		stored := w.dumpWlStored()
		shape := "claimant-not-in-stored-whitelist"
		for _, al := range strings.Split(stored, ",") {
			if al == strconv.Itoa(v) {
				shape = "claimant-in-stored-whitelist"
			}
		}
		x.emit(fmt.Sprintf("chk accept tag=oracle.ProcessClaim.accepted.%s v=%d wl=%s wlops=%s vals=%s", shape, v, stored, w.dumpWlOps(), w.dumpVals()), "true", "chk.accept", true)
	}
	// C05 threshold: the step turned the prophecy SUCCESS
	if foundA && wasPending && pa.Status.Text == oracletypes.StatusText_STATUS_TEXT_SUCCESS {
		shape := "all-claimants-whitelisted-bonded"
		wl := map[string]bool{}
		for _, al := range strings.Split(w.dumpWlStored(), ",") {
			if i, err := strconv.Atoi(al); err == nil {
				wl[w.vals[i].String()] = true
			}
		}
		countedNow := map[string]bool{}
		for _, v := range w.app.StakingKeeper.GetBondedValidatorsByPower(w.ctx) {
			countedNow[v.OperatorAddress] = true
		}
		for vb := range pa.ValidatorClaims {
			va, _ := sdk.ValAddressFromBech32(vb)
			v, found := w.app.StakingKeeper.GetValidator(w.ctx, va)
			if !wl[vb] {
				shape = "claimant-dewhitelisted"
				break
			}
			if !found || !v.IsBonded() {
				shape = "claimant-unbonded"
			} else if !countedNow[vb] {
				shape = "claimant-jailed-not-in-power-index"
			}
		}
		x.emit(fmt.Sprintf("chk thr tag=oracle.FindHighestClaim.threshold.%s vals=%s wl=%s wlops=%s p=%s", shape, w.dumpVals(), w.dumpWlStored(), w.dumpWlOps(), w.dumpProphecy(pa)),
			"true", "chk.thr", true)
	}
	// C05 finality: a prophecy that was not pending before the claim is unchanged, and so is the bank
	if foundB {
		x.emit(fmt.Sprintf("chk fin tag=oracle.ProcessClaim.finality res=%s pb=%s pa=%s balb=%s bala=%s supb=%s supa=%s", cls, w.dumpProphecy(pb), pdump(w, pa, foundA), dumpMap(balB), dumpMap(balA), dumpMap(supB), dumpMap(supA)),
			"true", "chk.fin", !wasPending)
	}
	// C06 credit on transition only, matching the final claim, nothing else moves
	sb, sa := "0", "0"
	if foundB {
		sb = statusNum(pb.Status.Text)
	}
	fin := "-"
	if foundA {
		sa = statusNum(pa.Status.Text)
		fin = contentCanon(w, pa.Status.FinalClaim)
	}
	x.emit(fmt.Sprintf("chk credit tag=ethbridge.CreateEthBridgeClaim.credit res=%s sb=%s sa=%s final=%s balb=%s bala=%s supb=%s supa=%s", cls, sb, sa, fin, dumpMap(balB), dumpMap(balA), dumpMap(supB), dumpMap(supA)),
		"true", "chk.credit", dBal != "-")
	// ledger of observed credits per prophecy id (observations only)
	if dSup != "-" || dBal != "-" {
		w.credits[id] = append(w.credits[id], dBal+"~"+dSup)
		for _, e := range strings.Split(dSup, ",") {
			kv := strings.SplitN(e, "=", 2)
			if len(kv) == 2 {
				w.credAll = append(w.credAll, kv[0]+"|"+kv[1])
				// a denomination that enters the supply through the credit of a lock claim is a pegged token
				if foundA && pa.Status.Text == oracletypes.StatusText_STATUS_TEXT_SUCCESS {
					if oc, err := ethtypes.CreateOracleClaimFromOracleString(pa.Status.FinalClaim); err == nil && oc.ClaimType == ethtypes.ClaimType_CLAIM_TYPE_LOCK {
						seen := false
						for _, m := range w.minted {
							seen = seen || m == kv[0]
						}
						if !seen {
							w.minted = append(w.minted, kv[0])
						}
					}
				}
			}
		}
	}
	x.emit(fmt.Sprintf("chk ledger tag=ethbridge.credit.at-most-once sa=%s final=%s credits=%s", sa, fin, listOrDash2(w.credits[id])),
		"true", "chk.ledger", len(w.credits[id]) > 0)
}

func (x *bexec) chkPeg(kind string, t []string, cls string, bev []string, pausedB bool, blB []string, recvB string, peggyB []string,
	balB, supB map[string]*big.Int) {
	w := x.w
	balA, supA := w.bankView()
	sort.Strings(blB)
	sort.Strings(peggyB)
	// shape of the input for the blacklist clause
	shape := "receiver-not-listed"
	for _, b := range blB {
		if b == t[2] {
			shape = "receiver-listed-same-spelling"
			break
		}
		if gethCommon.IsHexAddress(b) && gethCommon.IsHexAddress(t[2]) && ethAddrBytes(b) == ethAddrBytes(t[2]) {
			shape = "receiver-listed-other-spelling"
		}
	}
	// shape of the input for the native/pegged clause: a token the bridge minted that the stored list does not contain
	inList, wasMinted := false, false
	for _, p := range peggyB {
		inList = inList || p == t[4]
	}
	for _, m := range w.minted {
		wasMinted = wasMinted || m == t[4]
	}
	if wasMinted && !inList {
		shape += ".minted-token-not-in-peggy-list"
	}
	minted := append([]string{}, w.minted...)
	sort.Strings(minted)
	x.emit(fmt.Sprintf("chk gate tag=ethbridge.%s.gate.%s kind=%s res=%s paused=%s bl=%s peggy=%s minted=%s recv=%s symbol=%s", kind, shape, kind, cls, b2s(pausedB), listOrDash(blB), listOrDash(peggyB), listOrDash(minted), t[2], t[4]),
		"true", "chk.gate", pausedB || shape != "receiver-not-listed" || wasMinted)
	x.emit(fmt.Sprintf("chk fx tag=ethbridge.%s.effects kind=%s res=%s sender=%s chain=%s recv=%s amount=%s symbol=%s ceth=%s feeto=%s balb=%s bala=%s supb=%s supa=%s ev=%s",
		kind, kind, cls, t[0], t[1], t[2], t[3], t[4], t[5], recvB, dumpMap(balB), dumpMap(balA), dumpMap(supB), dumpMap(supA), listOrDash(bev)), "true", "chk.fx", cls == "ok")
	if cls == "ok" {
		if kind == "lock" {
			w.locks = append(w.locks, t[4]+"|"+t[3])
		} else {
			w.burns = append(w.burns, t[4]+"|"+t[3])
		}
	}
}

// supply equation: supply = genesis + credits - locks - burns, per denomination, on the observed supply
func (x *bexec) chkSupply() {
	w := x.w
	_, sup := w.bankView()
	var g []string
	for d, v := range w.genesis {
		g = append(g, d+"|"+v.String())
	}
	sort.Strings(g)
	x.emit(fmt.Sprintf("chk supply tag=ethbridge.supply-equation genesis=%s credits=%s locks=%s burns=%s sup=%s",
		listOrDash(g), listOrDash(w.credAll), listOrDash(w.locks), listOrDash(w.burns), dumpMap(sup)), "true", "chk.supply", len(w.credAll)+len(w.locks)+len(w.burns) > 0)
}
