package main

// Generators of the bridge families: directed histories (the shapes DESIGN.md 4/C05-C07 names) first,
// then PRNG histories.  A history is a list of lines; it is executed `bReps` times.

import (
	"bufio"
	"fmt"
	"math/big"
	"os"
	"strings"

	gethCommon "github.com/ethereum/go-ethereum/common"
)

const bReps = 8

// Ethereum address pool: base addresses in several spellings accepted by gethCommon.IsHexAddress
var ethBases = []string{
	"30753E4A8aad7F8597332E813735Def5dD395028",
	"11111111262B236c9AC9A9A8C8e4276B5Cf6b2C9",
	"0000000000000000000000000000000000000000",
	"f17f52151EbEF6C7334FAD080c5704D77216b732",
}

// flipCase flips the case of k random letters of the EIP-55 spelling: a valid address spelling in mixed case with a
// wrong checksum (checksums are not verified by IsHexAddress / HexToAddress)
func flipCase(rng *Rng, base string, k int) string {
	b := []byte(ethAddrEIP55(base))
	var letters []int
	for i := 2; i < len(b); i++ {
		if b[i] >= 'a' && b[i] <= 'f' || b[i] >= 'A' && b[i] <= 'F' {
			letters = append(letters, i)
		}
	}
	if k < 0 {
		k = len(letters) / 2
	}
	for ; k > 0 && len(letters) > 0; k-- {
		j := rng.Intn(len(letters))
		i := letters[j]
		letters = append(letters[:j], letters[j+1:]...)
		b[i] ^= 0x20
	}
	return string(b)
}

func ethSpelling(rng *Rng, base string) string {
	switch rng.Intn(9) {
	case 6:
		return flipCase(rng, base, 1)
	case 7:
		return flipCase(rng, base, 2)
	case 8:
		return flipCase(rng, base, -1)
	case 0:
		return "0x" + strings.ToLower(base)
	case 1:
		return "0x" + strings.ToUpper(base)
	case 2:
		return strings.ToLower(base)
	case 3:
		return "0X" + base
	default:
		return ethAddrEIP55(base)
	}
}

var symPool = []string{"eth", "usdc", "rowan", "dai", "a", "x.y", "ceth"}
var lockSyms = []string{"rowan", "ceth", "cusdc", "stk", "ab", "ceth", "rowan", "cdai", "rowan", "rowan"}
var burnSyms = []string{"ceth", "cusdc", "cdai", "rowan", "cx", "ceth", "cusdc", "crowan", "ceth", "cdai"}

const gasCost = "23580000000000000" // 60000000000 * 393000

type hist struct {
	lines []string
}

func (h *hist) add(f string, a ...interface{}) { h.lines = append(h.lines, fmt.Sprintf(f, a...)) }

func stdSetup(h *hist, powers []int64, bonded []bool, wl string) {
	h.add("reset")
	for i, p := range powers {
		b := "1"
		if bonded != nil && !bonded[i] {
			b = "0"
		}
		h.add("val %d %d %s", i, p, b)
	}
	h.add("wlset %s", wl)
	h.add("fund 3 rowan 1000000000000000000000")
	h.add("fund 3 ceth 1000000000000000000000")
	h.add("admin oracle 3")
	h.add("admin bridge 3")
}

func seq(n int) string {
	var xs []string
	for i := 0; i < n; i++ {
		xs = append(xs, fmt.Sprint(i))
	}
	if len(xs) == 0 {
		return "-"
	}
	return strings.Join(xs, ",")
}

const (
	snd0 = "0x11111111262B236c9AC9A9A8C8e4276B5Cf6b2C9"
	tok0 = "0x0000000000000000000000000000000000000000"
	tok1 = "0x30753E4A8aad7F8597332E813735Def5dD395028"
)

func claimLine(v int, chain, nonce int64, sender string, recv int, amount, symbol, token string, typ int) string {
	return fmt.Sprintf("tx claim %d %d %d %s %d %s %s %s %d", v, chain, nonce, sender, recv, amount, symbol, token, typ)
}

// directedOracle: the histories named in 4/C05
func directedOracle() []hist {
	var hs, front []hist
	// F2 shape: three validators of power 10; B claims; the admin removes B and C, re-adds C; A claims the same
	{
		var h hist
		stdSetup(&h, []int64{10, 10, 10}, nil, "0,1,2")
		h.add(claimLine(1, 1, 5, snd0, 4, "1000", "eth", tok0, 2))
		h.add("tx wl 3 remove 1")
		h.add("tx wl 3 remove 2")
		h.add("tx wl 3 add 2")
		h.add(claimLine(0, 1, 5, snd0, 4, "1000", "eth", tok0, 2))
		h.add(claimLine(2, 1, 5, snd0, 4, "1000", "eth", tok0, 2))
		hs = append(hs, h)
	}
	// two contents, de-whitelisted claimants on both sides
	{
		var h hist
		stdSetup(&h, []int64{10, 10, 10, 10}, nil, "0,1,2,3")
		h.add(claimLine(0, 1, 6, snd0, 4, "1000", "eth", tok0, 2))
		h.add(claimLine(1, 1, 6, snd0, 4, "2000", "eth", tok0, 2))
		h.add("tx wl 3 remove 0")
		h.add("tx wl 3 remove 1")
		h.add(claimLine(2, 1, 6, snd0, 4, "1000", "eth", tok0, 2))
		h.add(claimLine(3, 1, 6, snd0, 4, "2000", "eth", tok0, 2))
		hs = append(hs, h)
	}
	// threshold boundary: 10p - 7t in {-1, 0, 1} for small and large totals (up to 2^48 and a little beyond)
	for _, tc := range [][]int64{
		{7, 3}, {69, 31}, {70, 30}, {71, 29}, {699, 301}, {701, 299},
		{197032483697459, 84442493013197},   // t = 2^48, 10p - 7t = -2 -> below
		{197032483697460, 84442493013196},   // 10p-7t = 8
		{196999999999999, 84428571428571},   // near
	} {
		var h hist
		stdSetup(&h, tc, nil, seq(len(tc)))
		h.add(claimLine(0, 1, 7, snd0, 4, "5", "eth", tok0, 2))
		h.add(claimLine(1, 1, 7, snd0, 4, "5", "eth", tok0, 2))
		hs = append(hs, h)
	}
	// late and duplicate claims after SUCCESS and after FAILED; unbonded and non-whitelisted claimants
	{
		var h hist
		stdSetup(&h, []int64{40, 30, 30, 5}, []bool{true, true, true, false}, "0,1,2,3")
		h.add(claimLine(3, 1, 8, snd0, 4, "9", "eth", tok0, 2)) // not bonded
		h.add(claimLine(4, 1, 8, snd0, 4, "9", "eth", tok0, 2)) // not whitelisted, not a validator
		h.add(claimLine(0, 1, 8, snd0, 4, "9", "eth", tok0, 2))
		h.add(claimLine(0, 1, 8, snd0, 4, "9", "eth", tok0, 2)) // duplicate
		h.add(claimLine(0, 1, 8, snd0, 4, "8", "eth", tok0, 2)) // duplicate, other content
		h.add(claimLine(1, 1, 8, snd0, 4, "9", "eth", tok0, 2)) // success at 70
		h.add(claimLine(2, 1, 8, snd0, 4, "9", "eth", tok0, 2)) // late
		h.add(claimLine(2, 1, 8, snd0, 4, "7", "eth", tok0, 2)) // late, other content
		h.add(claimLine(0, 1, 9, snd0, 4, "1", "eth", tok0, 2))
		h.add(claimLine(1, 1, 9, snd0, 4, "2", "eth", tok0, 2))
		h.add(claimLine(2, 1, 9, snd0, 4, "3", "eth", tok0, 2)) // failed
		h.add(claimLine(2, 1, 9, snd0, 4, "1", "eth", tok0, 2)) // late on failed
		hs = append(hs, h)
	}
	// spellings: the same validator claims twice, the second time under the all-upper-case bech32 spelling of its
	// operator address; powers 40/30/30, so that a validator counted twice would reach 70 % alone
	for _, order := range [][]string{{"0", "0U"}, {"0U", "0"}, {"0U", "0U"}} {
		var h hist
		stdSetup(&h, []int64{40, 30, 30}, nil, "0,1,2")
		for _, v := range order {
			h.add("tx claim %s 1 11 %s 4 9 eth %s 2", v, snd0, tok0)
		}
		h.add("tx claim 0U 1 11 %s 4U 8 eth %s 2", snd0, tok0) // another content, other spelling
		h.add("tx claim 1U 1 11 %s 4 9 eth %s 2", snd0, tok0)
		h.add("tx claim 1 1 11 %s 4U 9 eth %s 2", snd0, tok0)
		h.add("tx wl 3U remove 2U")
		h.add("tx claim 2 1 11 %s 4 9 eth %s 2", snd0, tok0)
		hs = append(hs, h)
	}
	// transactions of two messages: the whitelist edit of a transaction whose later message fails is discarded with it —
	// the validator it tried to add (power 8 of 10) is not whitelisted for the claims that follow in the same block
	for _, second := range []string{"wl 3 delete 0", "wl 4 add 0", "pause 3 0"} {
		var h hist
		stdSetup(&h, []int64{1, 1, 8}, nil, "0,1")
		h.add("txm wl 3 add 2 | %s", second)
		h.add(claimLine(2, 1, 12, snd0, 4, "9", "eth", tok0, 2))
		h.add(claimLine(0, 1, 12, snd0, 4, "9", "eth", tok0, 2))
		h.add("txm wl 3 remove 1 | %s", second)
		h.add(claimLine(1, 1, 12, snd0, 4, "9", "eth", tok0, 2))
		h.add("blk 1")
		h.add(claimLine(2, 1, 13, snd0, 4, "9", "eth", tok0, 2))
		h.add(claimLine(1, 1, 13, snd0, 4, "9", "eth", tok0, 2))
		front = append(front, h) // run first: see the end of the function
	}
	// a FAILED prophecy stays failed: powers 3,3,2,2, three different amounts -> FAILED; late claims are refused, with and
	// without the whitelist shrinking in between (after which the first content would hold 3 of 5)
	for _, between := range [][]string{{}, {"tx wl 3 remove 1", "tx wl 3 remove 2"}, {"restart"}, {"blk 100801", "blk 1"}} {
		var h hist
		stdSetup(&h, []int64{3, 3, 2, 2}, nil, "0,1,2,3")
		h.add(claimLine(0, 1, 20, snd0, 4, "10", "eth", tok0, 2))
		h.add(claimLine(1, 1, 20, snd0, 4, "11", "eth", tok0, 2))
		h.add(claimLine(2, 1, 20, snd0, 4, "12", "eth", tok0, 2))
		for _, l := range between {
			h.add(l)
		}
		h.add(claimLine(3, 1, 20, snd0, 4, "10", "eth", tok0, 2))
		h.add(claimLine(0, 1, 20, snd0, 4, "10", "eth", tok0, 2))
		front = append(front, h)
	}
	// a whitelist that names a validator twice (two adds of the previous binary, or genesis): the admin's remove takes it
	// out altogether; its claims are refused and its power counts nowhere (50/30/20: 30 of 50 is not 70 %)
	for _, setup := range [][]string{{"wlset 0,1,2,0"}, {"wlset 0,1,2", "tx wl 3 add 0"}, {"wlset 0,1,2,0", "restart"}} {
		var h hist
		stdSetup(&h, []int64{50, 30, 20}, nil, "0,1,2")
		for _, l := range setup {
			h.add(l)
		}
		h.add("tx wl 3 remove 0")
		h.add(claimLine(0, 1, 19, snd0, 4, "10", "eth", tok0, 2))
		h.add(claimLine(1, 1, 19, snd0, 4, "10", "eth", tok0, 2))
		h.add("tx wl 3 add 0")
		h.add("tx wl 3 add 0")
		h.add("tx wl 3 remove 0")
		h.add(claimLine(0, 1, 19, snd0, 4, "10", "eth", tok0, 2))
		h.add(claimLine(2, 1, 19, snd0, 4, "10", "eth", tok0, 2))
		front = append(front, h)
	}
	// jailed in this block: 40/30/30, validator 2 claims, is jailed (out of the power index, status still Bonded), validator 0
	// claims the same: 40 of the 70 that count — pending; after the staking EndBlocker and after an unjail likewise judged
	for _, after := range []string{"", "stakeend", "unjail 2"} {
		var h hist
		stdSetup(&h, []int64{40, 30, 30}, nil, "0,1,2")
		h.add(claimLine(2, 1, 16, snd0, 4, "10", "eth", tok0, 2))
		h.add("jail 2")
		if after != "" {
			h.add(after)
		}
		h.add(claimLine(0, 1, 16, snd0, 4, "10", "eth", tok0, 2))
		h.add(claimLine(2, 1, 17, snd0, 4, "10", "eth", tok0, 2)) // the jailed validator claims: admitted only while its status is Bonded
		h.add("stakeend")
		h.add(claimLine(1, 1, 16, snd0, 4, "10", "eth", tok0, 2))
		h.add(claimLine(2, 1, 18, snd0, 4, "10", "eth", tok0, 2))
		front = append(front, h)
	}
	// time: a prophecy finalised (one SUCCESS, one FAILED) stays as it is however many blocks pass; late and replayed
	// claims after 1, 10, 100800, 100801 and 10^6 more blocks are refused and credit nothing
	{
		var h hist
		stdSetup(&h, []int64{4, 3, 3}, nil, "0,1,2")
		h.add("blk 9")
		h.add(claimLine(0, 1, 14, snd0, 4, "10", "eth", tok0, 2))
		h.add(claimLine(1, 1, 14, snd0, 4, "10", "eth", tok0, 2)) // success
		h.add(claimLine(0, 1, 15, snd0, 4, "1", "eth", tok0, 2))
		h.add(claimLine(1, 1, 15, snd0, 4, "2", "eth", tok0, 2))
		h.add(claimLine(2, 1, 15, snd0, 4, "3", "eth", tok0, 2)) // failed
		for _, n := range []int64{1, 10, 100800, 1, 1, 100801, 1000000} {
			h.add("blk %d", n)
			for v := 0; v < 3; v++ {
				h.add(claimLine(v, 1, 14, snd0, 4, "10", "eth", tok0, 2))
			}
			h.add(claimLine(0, 1, 15, snd0, 4, "1", "eth", tok0, 2))
			h.add(claimLine(1, 1, 15, snd0, 4, "1", "eth", tok0, 2))
		}
		front = append(front, h)
	}
	// zero total power, zero-power claimant, whitelist with duplicates
	{
		var h hist
		stdSetup(&h, []int64{0, 0, 5}, []bool{true, true, false}, "0,1,1,2")
		h.add(claimLine(0, 1, 10, snd0, 4, "9", "eth", tok0, 2))
		h.add(claimLine(1, 1, 10, snd0, 4, "9", "eth", tok0, 2))
		h.add("val 2 5 1")
		h.add(claimLine(2, 1, 10, snd0, 4, "9", "eth", tok0, 2))
		hs = append(hs, h)
	}
	return append(front, hs...)
}

func directedCredit() []hist {
	var hs []hist
	// credits: lock claim (pegged denom), burn claim (native denom), then lock/burn guard on the pegged token
	{
		var h hist
		stdSetup(&h, []int64{50, 50}, nil, "0,1")
		h.add(claimLine(0, 1, 1, snd0, 4, "1000", "usdc", tok1, 2))
		h.add(claimLine(1, 1, 1, snd0, 4, "1000", "usdc", tok1, 2)) // credit cusdc
		h.add(claimLine(0, 1, 1, snd0, 4, "1000", "usdc", tok1, 2)) // late
		h.add(claimLine(0, 1, 2, snd0, 5, "77", "rowan", tok1, 1))
		h.add(claimLine(1, 1, 2, snd0, 5, "77", "rowan", tok1, 1)) // credit rowan
		h.add("fund 4 ceth 100000000000000000000")
		h.add("tx lock 4 1 %s 10 cusdc %s", snd0, gasCost)  // pegged: cannot be locked
		h.add("tx burn 4 1 %s 10 cusdc %s", snd0, gasCost)  // pegged: burnable
		h.add("tx burn 4 1 %s 10 crowan %s", snd0, gasCost) // not pegged
		hs = append(hs, h)
	}
	// panics are confined: blocked receiver, negative amount, invalid denom, unspecified type; zero and huge amounts
	{
		var h hist
		stdSetup(&h, []int64{50, 50}, nil, "0,1")
		n := int64(20)
		for _, c := range [][]string{
			{"0", "5", "eth", "2"}, {"1", "5", "eth", "2"}, {"4", "-5", "eth", "2"}, {"4", "5", "a", "2"}, {"4", "5", "x", "1"},
			{"4", "5", "eth", "0"}, {"4", "0", "eth", "2"},
			{"4", "115792089237316195423570985008687907853269984665640564039457584007913129639935", "eth", "2"},
			{"4", "1", "eth", "2"},
		} {
			n++
			h.add("tx claim 0 1 %d %s %s %s %s %s %s", n, snd0, c[0], c[1], c[2], tok0, c[3])
			h.add("tx claim 1 1 %d %s %s %s %s %s %s", n, snd0, c[0], c[1], c[2], tok0, c[3])
		}
		hs = append(hs, h)
	}
	// the claim that completes a prophecy is not the content that wins: content A gathers 3 of 5 equal validators
	// (below 70 %); the denominator shrinks (whitelist removal / unbonding / loss of power of a validator that never
	// claimed) so that A holds 3 of 4; the next accepted claim carries a conflicting content B.  The prophecy is
	// finalised as A inside B's message: A's receiver must be credited with A's amount, B's content nothing.
	for _, shrink := range []string{"tx wl 3 remove 4", "val 4 10 0", "val 4 0 1"} {
		var h hist
		stdSetup(&h, []int64{10, 10, 10, 10, 10}, nil, "0,1,2,3,4")
		for v := 0; v < 3; v++ {
			h.add(claimLine(v, 1, 31, snd0, 4, "1000", "usdc", tok1, 2))
		}
		h.add(shrink)
		h.add(claimLine(3, 1, 31, snd0, 5, "1000000", "eth", tok0, 2)) // B: other receiver, amount, symbol
		h.add(claimLine(3, 1, 31, snd0, 4, "1000", "usdc", tok1, 2))    // late
		hs = append(hs, h)
	}
	// restart from the exported genesis in the middle of a history: a credited event, a failed one and a pending one
	// are carried; re-sent, late and conflicting claims after the restart credit nothing a second time
	{
		var h hist
		stdSetup(&h, []int64{40, 30, 30}, nil, "0,1,2")
		h.add(claimLine(0, 1, 61, snd0, 4, "10", "eth", tok0, 2))
		h.add(claimLine(1, 1, 61, snd0, 4, "10", "eth", tok0, 2)) // 70 %: credited
		h.add(claimLine(0, 1, 62, snd0, 4, "1", "eth", tok0, 2))
		h.add(claimLine(1, 1, 62, snd0, 4, "2", "eth", tok0, 2))
		h.add(claimLine(2, 1, 62, snd0, 4, "3", "eth", tok0, 2)) // failed
		h.add(claimLine(0, 1, 63, snd0, 5, "7", "usdc", tok1, 2)) // pending
		h.add("restart")
		h.add(claimLine(0, 1, 61, snd0, 4, "10", "eth", tok0, 2)) // re-sent
		h.add(claimLine(1, 1, 61, snd0, 4, "10", "eth", tok0, 2))
		h.add(claimLine(2, 1, 61, snd0, 5, "99", "eth", tok0, 2)) // late, conflicting
		h.add(claimLine(0, 1, 62, snd0, 4, "1", "eth", tok0, 2))
		h.add(claimLine(1, 1, 62, snd0, 4, "1", "eth", tok0, 2))
		h.add(claimLine(0, 1, 63, snd0, 5, "7", "usdc", tok1, 2)) // duplicate of the carried pending claim
		h.add(claimLine(1, 1, 63, snd0, 5, "7", "usdc", tok1, 2)) // completes it: credited once
		h.add("restart")
		h.add("restart")
		h.add(claimLine(0, 1, 63, snd0, 5, "7", "usdc", tok1, 2))
		h.add(claimLine(1, 1, 63, snd0, 5, "7", "usdc", tok1, 2))
		h.add(claimLine(2, 1, 61, snd0, 4, "10", "eth", tok0, 2))
		hs = append(hs, h)
	}
	// symbols that differ in case only or carry a leading c: each lock is credited in exactly "c" + the claimed symbol
	{
		var h hist
		stdSetup(&h, []int64{50, 50}, nil, "0,1")
		for i, sym := range []string{"usdc", "USDC", "Usdc", "cusdc", "eth", "ceth", "ETH", "cUSDC"} {
			h.add("tx claim 0 1 %d %s 4 %d %s %s 2", 70+i, snd0, 17+i, sym, symToken(sym))
			h.add("tx claim 1 1 %d %s 4 %d %s %s 2", 70+i, snd0, 17+i, sym, symToken(sym))
		}
		h.add("tx claim 0 1 80 %s 5 5 USDC %s 1", snd0, tok1) // burn claims: credited in the claimed symbol itself
		h.add("tx claim 1 1 80 %s 5 5 USDC %s 1", snd0, tok1)
		h.add("tx claim 0 1 81 %s 5 5 cusdc %s 1", snd0, tok1)
		h.add("tx claim 1 1 81 %s 5 5 cusdc %s 1", snd0, tok1)
		hs = append(hs, h)
	}
	// symbols made of JSON-special text: every validator reports "1 unit of <symbol>"; what is credited (nothing: the
	// pegged denomination is invalid) is judged against the contents of the claim messages
	{
		var h hist
		stdSetup(&h, []int64{50, 50}, nil, "0,1")
		for i, sym := range []string{
			`usdt","amount":"1000000000000`,
			`usdt","cosmos_receiver":"` + userAddr(6).String(),
			`usdt","amount":"5","cosmos_receiver":"` + userAddr(6).String(),
			`usdt","claim_type":1,"x":"`, `usdt"`, `us\\dt`, `{usdt}`, `usdt,usdt`, "usdt",
		} {
			h.add("tx claim 0 1 %d %s 4 1 %s %s 2", 85+i, snd0, encodeSym(sym), tok1)
			h.add("tx claim 1 1 %d %s 4 1 %s %s 2", 85+i, snd0, encodeSym(sym), tok1)
		}
		hs = append(hs, h)
	}
	return hs
}

func directedPeg() []hist {
	var hs []hist
	eip := ethAddrEIP55(ethBases[3])
	low := "0x" + strings.ToLower(ethBases[3])
	bare := strings.ToLower(ethBases[3])
	// F11 shape: blacklist the EIP-55 spelling, lock/burn to other spellings of the same address
	{
		var h hist
		stdSetup(&h, []int64{50, 50}, nil, "0,1")
		h.add(claimLine(0, 1, 1, snd0, 3, "100000", "usdc", tok1, 2))
		h.add(claimLine(1, 1, 1, snd0, 3, "100000", "usdc", tok1, 2))
		h.add("tx bl 3 %s", eip)
		h.add("tx lock 3 1 %s 10 rowan %s", eip, gasCost)
		h.add("tx lock 3 1 %s 10 rowan %s", low, gasCost)
		h.add("tx lock 3 1 %s 10 rowan %s", bare, gasCost)
		h.add("tx burn 3 1 %s 10 cusdc %s", low, gasCost)
		h.add("tx bl 3 %s,%s", low, snd0)
		h.add("tx lock 3 1 %s 10 rowan %s", eip, gasCost)
		h.add("tx bl 3 -")
		h.add("tx lock 3 1 %s 10 rowan %s", eip, gasCost)
		hs = append(hs, h)
	}
	// mixed-case spellings with a wrong checksum: the EIP-55 spelling with one, two, half of its letters flipped names the
	// same address; blacklisted under one spelling it is blacklisted under all, whoever uses which
	{
		var h hist
		stdSetup(&h, []int64{50, 50}, nil, "0,1")
		h.add(claimLine(0, 1, 1, snd0, 3, "100000", "usdc", tok1, 2))
		h.add(claimLine(1, 1, 1, snd0, 3, "100000", "usdc", tok1, 2))
		rg := NewRng(7)
		f1, f2, fh := flipCase(rg, ethBases[3], 1), flipCase(rg, ethBases[3], 2), flipCase(rg, ethBases[3], -1)
		h.add("tx bl 3 %s", eip)
		for _, r := range []string{f1, f2, fh, eip} {
			h.add("tx lock 3 1 %s 10 rowan %s", r, gasCost)
			h.add("tx burn 3 1 %s 10 cusdc %s", r, gasCost)
		}
		h.add("tx bl 3 %s", f1)
		for _, r := range []string{eip, low, f2, fh} {
			h.add("tx lock 3 1 %s 10 rowan %s", r, gasCost)
		}
		h.add("tx bl 3 %s,%s", fh, f2)
		h.add("tx lock 3 1 %s 10 rowan %s", bare, gasCost)
		h.add("tx bl 3 -")
		h.add("tx lock 3 1 %s 10 rowan %s", f1, gasCost)
		hs = append(hs, h)
	}
	// a genesis whose peggy-token list is in arrival order: every listed token is pegged — its lock refused, its burn done
	for _, l := range [][]string{{"ceth", "cusdt", "cdai"}, {"cusdt", "cdai", "ceth", "cbtc", "cada", "cZRX"}, {"cdai", "ceth"}} {
		var h hist
		stdSetup(&h, []int64{50, 50}, nil, "0,1")
		h.add("pegset %s", strings.Join(l, ","))
		h.add("fund 4 ceth 5000000000000000000")
		for _, d := range l {
			h.add("fund 4 %s 1000000", d)
		}
		for _, d := range l {
			h.add("tx lock 4 1 %s 10 %s %s", low, d, gasCost)
			h.add("tx burn 4 1 %s 10 %s %s", low, d, gasCost)
		}
		h.add("restart")
		for _, d := range l {
			h.add("tx lock 4 1 %s 10 %s %s", low, d, gasCost)
			h.add("tx burn 4 1 %s 10 %s %s", low, d, gasCost)
		}
		hs = append(hs, h)
	}
	// fees of extreme sign and size on the branch "burn ceth itself, no fee receiver, the module holds fees of earlier
	// exports": nobody can take the module's fees out by stating a negative fee; an account holding nothing burns nothing
	{
		var h hist
		stdSetup(&h, []int64{50, 50}, nil, "0,1")
		h.add(claimLine(0, 1, 1, snd0, 4, "30000000000000000000", "eth", tok0, 2))
		h.add(claimLine(1, 1, 1, snd0, 4, "30000000000000000000", "eth", tok0, 2)) // ceth pegged, account 4 holds 30
		h.add("tx burn 4 1 %s 1000000000000000000 ceth 6000000000000000000", low) // fees accumulate in the module
		h.add("tx burn 4 1 %s 1000000000000000000 ceth 6000000000000000000", low)
		for _, fee := range []string{"-10000000000000000000", "-9223372036854775809", "-9223372036854775808", "-1", "-10", "0",
			"9223372036854775808", "18446744073709551616", "57896044618658097711785492504343953926634992332820282019728792003956564819968"} {
			h.add("tx burn 5 1 %s 10 ceth %s", low, fee)                   // account 5 holds nothing
			h.add("tx burn 4 1 %s 10000000000000000000 ceth %s", low, fee) // account 4 holds some
			h.add("tx lock 3 1 %s 10 rowan %s", low, fee)
		}
		h.add("tx recv 3 6")
		h.add("tx burn 5 1 %s 10 ceth -10000000000000000000", low)
		h.add("tx burn 4 1 %s 10 ceth -10000000000000000000", low)
		hs = append(hs, h)
	}
	// paused bridge; the un-pause travels in a transaction whose second message fails: discarded as a whole, the bridge
	// stays paused for the exports of the same block and of the next
	for _, second := range []string{"wl 3 delete 0", "pause 4 1", "wl 3 add 0"} {
		var h hist
		stdSetup(&h, []int64{50, 50}, nil, "0,1")
		h.add(claimLine(0, 1, 1, snd0, 3, "100000", "usdc", tok1, 2))
		h.add(claimLine(1, 1, 1, snd0, 3, "100000", "usdc", tok1, 2))
		h.add("tx pause 3 1")
		h.add("txm pause 3 0 | %s", second)
		h.add("tx lock 3 1 %s 10 rowan %s", low, gasCost)
		h.add("tx burn 3 1 %s 10 cusdc %s", low, gasCost)
		h.add("blk 1")
		h.add("tx lock 3 1 %s 10 rowan %s", low, gasCost)
		h.add("tx burn 3 1 %s 10 cusdc %s", low, gasCost)
		h.add("txm pause 3 0 | pause 3 1 | %s", second)
		h.add("tx lock 3 1 %s 10 rowan %s", low, gasCost)
		hs = append(hs, h)
	}
	// fee cases: receiver unset / set; burning ceth itself; locking ceth with the receiver unset; pause; rescue
	{
		var h hist
		stdSetup(&h, []int64{50, 50}, nil, "0,1")
		h.add(claimLine(0, 1, 1, snd0, 3, "100000000000000000000", "eth", tok0, 2))
		h.add(claimLine(1, 1, 1, snd0, 3, "100000000000000000000", "eth", tok0, 2)) // ceth becomes a peggy token
		h.add("tx burn 3 1 %s 1000 ceth %s", low, gasCost)                            // receiver unset, symbol = ceth
		h.add("tx lock 3 1 %s 1000 rowan %s", low, gasCost)                           // fee stays in the module
		h.add("tx rescue 3 5 %s", gasCost)
		h.add("tx rescue 4 5 1")
		h.add("tx recv 3 6")
		h.add("tx burn 3 1 %s 1000 ceth %s", low, gasCost) // receiver set
		h.add("tx lock 3 1 %s 1000 rowan %s", low, gasCost)
		h.add("tx pause 3 1")
		h.add("tx lock 3 1 %s 1000 rowan %s", low, gasCost)
		h.add("tx burn 3 1 %s 1000 ceth %s", low, gasCost)
		h.add("tx pause 4 0")
		h.add("tx pause 3 0")
		h.add("tx lock 3 1 %s 2000000000000000000000 rowan %s", low, gasCost) // insufficient
		h.add("tx lock 3 1 %s 5 rowan 1", low)                                  // fee below the floor
		hs = append(hs, h)
	}
	// capitalisations and prefixes of a pegged symbol: every denomination the bridge mints for a lock claim is a pegged
	// token of its own (exact string): not lockable, burnable by its holder
	{
		var h hist
		stdSetup(&h, []int64{50, 50}, nil, "0,1")
		h.add("fund 4 ceth 1000000000000000000")
		for i, sym := range []string{"usdt", "USDT", "usd", "usdtx", "Usdt", "cusdt", "ETH", "eth"} {
			h.add("tx claim 0 1 %d %s 4 100000 %s %s 2", 950+i, snd0, sym, symToken(sym))
			h.add("tx claim 1 1 %d %s 4 100000 %s %s 2", 950+i, snd0, sym, symToken(sym))
		}
		for _, d := range []string{"cUSDT", "cusdt", "cusd", "cusdtx", "cUsdt", "ccusdt", "cETH", "ceth", "cUSD", "cusdT"} {
			h.add("tx lock 4 1 %s 10 %s %s", low, d, gasCost)
			h.add("tx burn 4 1 %s 10 %s %s", low, d, gasCost)
		}
		hs = append(hs, h)
	}
	// ceth funded at genesis (not a peggy token): lock of ceth with the receiver unset panics (duplicate denom)
	{
		var h hist
		stdSetup(&h, []int64{50, 50}, nil, "0,1")
		h.add("tx lock 3 1 %s 1000 ceth %s", low, gasCost)
		h.add("tx recv 3 6")
		h.add("tx lock 3 1 %s 1000 ceth %s", low, gasCost)
		hs = append(hs, h)
	}
	return hs
}

func ethAddrEIP55(base string) string { return gethCommon.HexToAddress(base).Hex() }

func bigPow(b, e int64) *big.Int { return new(big.Int).Exp(big.NewInt(b), big.NewInt(e), nil) }

// randomHistory draws one history for the given family profile
func randomHistory(rng *Rng, profile string) hist {
	var h hist
	nv := 1 + rng.Intn(bNVals)
	powers := make([]int64, nv)
	bonded := make([]bool, nv)
	scale := []int64{1, 1, 10, 1000, 1000000, 70368744177}[rng.Intn(6)]
	for i := range powers {
		switch rng.Intn(6) {
		case 0:
			powers[i] = 10 * scale // ties
		case 1:
			powers[i] = int64(rng.Intn(3)) * scale
		default:
			powers[i] = int64(1+rng.Intn(100)) * scale
		}
		bonded[i] = !rng.Chance(1, 8)
	}
	if rng.Chance(1, 4) && nv >= 2 {
		// a boundary vector: first validator p, the rest share t - p, with 10p - 7t in {-1,0,1,..}
		t := int64(10+rng.Intn(1000)) * scale
		p := (7*t + 9) / 10
		if rng.Bool() {
			p--
		}
		powers[0] = p
		rest := t - p
		for i := 1; i < nv; i++ {
			powers[i] = rest / int64(nv-1)
		}
		powers[nv-1] += rest - (rest/int64(nv-1))*int64(nv-1)
		for i := range bonded {
			bonded[i] = true
		}
	}
	var wl []string
	for i := 0; i < nv; i++ {
		if !rng.Chance(1, 6) {
			wl = append(wl, fmt.Sprint(i))
		}
		if rng.Chance(1, 12) {
			wl = append(wl, fmt.Sprint(i))
		}
	}
	if rng.Chance(1, 8) && nv < bNVals {
		wl = append(wl, fmt.Sprint(nv)) // whitelisted but not a staking validator
	}
	wls := "-"
	if len(wl) > 0 {
		wls = strings.Join(wl, ",")
	}
	if profile == "peg" && rng.Chance(3, 4) {
		// a plain 50/50 validator set and bootstrap credits, so that pegged tokens exist and are held
		powers, bonded, nv = []int64{50, 50}, []bool{true, true}, 2
		wls = "0,1"
	}
	stdSetup(&h, powers, bonded, wls)
	var held []holding
	if profile == "peg" && rng.Chance(1, 2) {
		// the ethbridge genesis lists 3-6 peggy tokens in arrival (not sorted) order; accounts hold them from genesis
		pool := []string{"ceth", "cusdt", "cdai", "cusdc", "cbtc", "ceos", "cada", "cbnb", "cUSDT", "cc1", "cxrp", "cZRX"}
		for i := len(pool) - 1; i > 0; i-- {
			j := rng.Intn(i + 1)
			pool[i], pool[j] = pool[j], pool[i]
		}
		l := pool[:3+rng.Intn(4)]
		h.add("pegset %s", strings.Join(l, ","))
		for _, d := range l {
			a := 4 + rng.Intn(3)
			h.add("fund %d %s %s", a, d, new(big.Int).Add(rng.Amount(70), bigPow(10, 6)))
			h.add("fund %d ceth %s", a, bigPow(10, 18))
			held = append(held, holding{a, d})
		}
	}
	bootstrap := profile == "peg" && nv == 2 && wls == "0,1"
	if bootstrap {
		syms := []string{"eth", "usdc", "dai"}
		if rng.Chance(2, 3) {
			// symbols that differ in case only, or are prefixes of one another, or begin with the pegged prefix
			fam := caseFamilies[rng.Intn(len(caseFamilies))]
			syms = nil
			for k := 2 + rng.Intn(3); k > 0; k-- {
				syms = append(syms, fam[rng.Intn(len(fam))])
			}
			if rng.Bool() {
				syms = append(syms, "eth")
			}
		}
		for i, sym := range syms {
			if rng.Chance(5, 6) {
				recv := 4 + rng.Intn(3)
				amt := new(big.Int).Add(rng.Amount(75), bigPow(10, 19)).String()
				h.add("tx claim 0 1 %d %s %d %s %s %s 2", 900+i, snd0, recv, amt, sym, symToken(sym))
				h.add("tx claim 1 1 %d %s %d %s %s %s 2", 900+i, snd0, recv, amt, sym, symToken(sym))
				held = append(held, holding{recv, "c" + sym})
			}
		}
	}
	for a := 4; a <= 6; a++ {
		if rng.Chance(2, 3) {
			h.add("fund %d rowan %s", a, rng.Amount(80))
		}
		if bootstrap || rng.Chance(2, 3) {
			h.add("fund %d ceth %s", a, new(big.Int).Add(rng.Amount(70), bigPow(10, 18)))
		}
	}
	// events of this history
	type event struct {
		chain, nonce int64
		sender      string
		contents    []string // "recv amount symbol token type"
	}
	nev := 1 + rng.Intn(3)
	// in a third of the credit histories all events use symbols of one family (differing in case only, prefixes of one
	// another, starting with the pegged prefix): several of them get credited in the same history
	var caseFam []string
	if profile == "credit" && rng.Chance(1, 3) {
		caseFam = caseFamilies[rng.Intn(len(caseFamilies))]
		nev = 3
	}
	evs := make([]event, nev)
	for i := range evs {
		e := &evs[i]
		e.chain = []int64{1, 1, 3, 12}[rng.Intn(4)]
		e.nonce = int64(rng.Intn(30))
		e.sender = ethSpelling(rng, ethBases[1])
		nc := 1 + rng.Intn(4) // 1..4 contents per event
		for j := 0; j < nc; j++ {
			recv := 3 + rng.Intn(bNAccts-3)
			amount := rng.Amount(100).String()
			sym := symPool[rng.Intn(3)]
			if rng.Chance(1, 6) || caseFam != nil {
				fam := caseFamilies[rng.Intn(len(caseFamilies))]
				if caseFam != nil {
					fam = caseFam
				}
				sym = fam[rng.Intn(len(fam))]
			}
			typ := 2
			if sym == "rowan" {
				typ = 1
			}
			tok := ethSpelling(rng, ethBases[0])
			if profile == "credit" || rng.Chance(1, 10) {
				switch rng.Intn(10) {
				case 0:
					recv = rng.Intn(3) // module (blocked) receiver
				case 1:
					amount = "0"
				case 2:
					amount = "-" + amount
				case 3:
					amount = new(big.Int).Sub(bigPow(2, 256), big.NewInt(int64(1+rng.Intn(3)))).String()
				case 4:
					sym = symPool[rng.Intn(len(symPool))]
				case 6, 7:
					sym = jsonSym(rng)
				case 5:
					typ = rng.Intn(3)
				}
			}
			if strings.ToLower(sym) == "eth" && !rng.Chance(1, 12) {
				tok = ethSpelling(rng, ethBases[2])
			}
			e.contents = append(e.contents, fmt.Sprintf("%s %s %s %s %d", sp(rng, recv, 12), amount, sym, tok, typ))
		}
	}
	nops := 10 + rng.Intn(30)
	disagree := rng.Chance(1, 4)
	pClaim, pWl, pVal := 70, 12, 8
	if profile == "peg" {
		pClaim, pWl, pVal = 25, 3, 2
	}
	if profile == "credit" {
		pClaim, pWl, pVal = 60, 6, 4
	}
	for k := 0; k < nops; k++ {
		if rng.Chance(1, 30) {
			h.add("restart") // restart from the exported genesis; claims are re-sent afterwards by the ordinary draws
			continue
		}
		if rng.Chance(1, 25) {
			// blocks pass: the next one, a few, or far beyond any retention / expiry period
			h.add("blk %d", []int64{1, 1, 10, 100800, 100801, 1000000}[rng.Intn(6)])
			continue
		}
		if rng.Chance(1, 20) {
			// the staking lifecycle between claims: a validator is jailed (out of the power index at once, status Bonded
			// until the staking EndBlocker), claims follow in the same block, sometimes the EndBlocker, sometimes an unjail
			v := rng.Intn(nv)
			h.add("jail %d", v)
			e := evs[rng.Intn(nev)]
			for i := 1 + rng.Intn(3); i > 0; i-- {
				c := rng.Intn(nv)
				if rng.Bool() {
					c = v
				}
				h.add("tx claim %d %d %d %s %s", c, e.chain, e.nonce, e.sender, e.contents[0])
			}
			switch rng.Intn(3) {
			case 0:
				h.add("stakeend")
			case 1:
				h.add("unjail %d", v)
			}
			continue
		}
		if rng.Chance(1, 40) {
			h.add("stakeend")
			continue
		}
		if rng.Chance(1, 18) {
			// an administrative transaction of two messages (one cache context, written only if both succeed): a
			// whitelist edit followed by a message that fails or succeeds; then the validator concerned claims
			v := rng.Intn(nv)
			first := fmt.Sprintf("wl 3 %s %d", []string{"add", "remove"}[rng.Intn(2)], v)
			second := []string{
				fmt.Sprintf("wl 3 delete %d", rng.Intn(nv)), // invalid operation type: fails in the handler
				fmt.Sprintf("wl 4 add %d", rng.Intn(nv)),    // not the admin
				"rescue 3 1 5",                              // blocked receiver
				fmt.Sprintf("pause 3 %d", rng.Intn(2)),      // succeeds
				fmt.Sprintf("wl 3 add %d", rng.Intn(nv)),    // succeeds
				"pause 4 1",                                 // not an admin
			}[rng.Intn(6)]
			if rng.Chance(1, 5) {
				first, second = second, first
			}
			h.add("txm %s | %s", first, second)
			e := evs[rng.Intn(nev)]
			h.add("tx claim %d %d %d %s %s", v, e.chain, e.nonce, e.sender, e.contents[0])
			continue
		}
		r := rng.Intn(100)
		switch {
		case r < pClaim:
			e := evs[rng.Intn(nev)]
			c := e.contents[0]
			if rng.Chance(1, 4) || disagree {
				c = e.contents[rng.Intn(len(e.contents))] // validators disagree: several contents on one prophecy
			}
			v := rng.Intn(nv)
			if rng.Chance(1, 25) {
				v = rng.Intn(bNVals)
			}
			snd := e.sender
			if rng.Chance(1, 20) {
				snd = ethSpelling(rng, ethBases[1]) // another spelling: another prophecy id
			}
			h.add("tx claim %s %d %d %s %s", sp(rng, v, 10), e.chain, e.nonce, snd, c)
		case r < pClaim+pWl:
			signer := 3
			if rng.Chance(1, 8) {
				signer = 4
			}
			op := []string{"add", "add", "add", "remove", "remove", "remove", "remove", "flip"}[rng.Intn(8)]
			h.add("tx wl %s %s %s", sp(rng, signer, 12), op, sp(rng, rng.Intn(nv), 12))
		case r < pClaim+pWl+pVal:
			i := rng.Intn(nv)
			p := powers[i]
			if rng.Bool() {
				p = int64(rng.Intn(100)) * scale
			}
			h.add("val %d %d %s", i, p, b2s(!rng.Chance(1, 3)))
		default:
			randomPegOp(rng, &h, held)
		}
	}
	return h
}

// jsonSym draws a claim symbol made of JSON-special text: quotes, backslashes, braces, commas, and text that would read as
// further members of the claim-content object (amount, cosmos_receiver, claim_type) if it were not escaped.  Encoded
// for the line protocol.
func jsonSym(rng *Rng) string {
	base := []string{"usdt", "eth", "usdc", "dai"}[rng.Intn(4)]
	var s string
	switch rng.Intn(9) {
	case 0:
		s = base + `","amount":"1000000000000`
	case 1:
		s = base + `","cosmos_receiver":"` + userAddr(3+rng.Intn(bNAccts-3)).String()
	case 2:
		s = base + `","amount":"` + rng.Amount(60).String() + `","cosmos_receiver":"` + userAddr(3+rng.Intn(bNAccts-3)).String()
	case 3:
		s = base + `","claim_type":1,"x":"`
	case 4:
		s = base + `"`
	case 5:
		s = base + `\`
	case 6:
		s = "{" + base + "}"
	case 7:
		s = base + "," + base
	default:
		s = base + `\","amount":"7`
	}
	return encodeSym(s)
}

// randContent draws a claim content "recv amount symbol token type" (mostly creditable)
func randContent(rng *Rng, wild bool) string {
	recv := 3 + rng.Intn(bNAccts-3)
	amount := rng.Amount(90).String()
	sym := symPool[rng.Intn(3)]
	typ := 2
	if sym == "rowan" {
		typ = 1
	}
	tok := ethSpelling(rng, ethBases[0])
	if wild {
		switch rng.Intn(8) {
		case 0:
			recv = rng.Intn(3)
		case 1:
			amount = "0"
		case 2:
			amount = "-" + amount
		case 3:
			typ = rng.Intn(3)
		case 4:
			sym = symPool[rng.Intn(len(symPool))]
		case 5:
			sym = jsonSym(rng)
		}
	}
	if strings.ToLower(sym) == "eth" {
		tok = ethSpelling(rng, ethBases[2])
	}
	return fmt.Sprintf("%d %s %s %s %d", recv, amount, sym, tok, typ)
}

// shrinkHistory: a history in which the power behind a content A stays below the threshold until the denominator
// shrinks (validators that never claimed are removed from the whitelist, unbonded, or lose power), after which the
// next accepted claim about the event carries a conflicting content B: the prophecy completes as A inside B's message
// (or, when the shrink was not enough, stays pending / completes later — the draw does not decide, the keepers do).
func shrinkHistory(rng *Rng, profile string) hist {
	var h hist
	nv := 4 + rng.Intn(bNVals-3) // 4..8
	powers := make([]int64, nv)
	scale := []int64{1, 1, 10, 1000}[rng.Intn(4)]
	equal := rng.Chance(1, 2)
	for i := range powers {
		if equal {
			powers[i] = 10 * scale
		} else {
			powers[i] = int64(5+rng.Intn(26)) * scale
		}
	}
	// roles: a permutation of the validators; the first k claim A, the last one completes, some in between are removed
	perm := make([]int, nv)
	for i := range perm {
		perm[i] = i
	}
	for i := nv - 1; i > 0; i-- {
		j := rng.Intn(i + 1)
		perm[i], perm[j] = perm[j], perm[i]
	}
	var total int64
	for _, p := range powers {
		total += p
	}
	// claimants of A: as many as stay below 70 % of the full total
	var pa int64
	k := 0
	for k < nv-2 && 10*(pa+powers[perm[k]]) < 7*total {
		pa += powers[perm[k]]
		k++
	}
	if k == 0 {
		k, pa = 1, powers[perm[0]]
	}
	// removed: validators perm[k..nv-2] until A reaches 70 % of what is left (sometimes one fewer / one more)
	rem := total
	r := k
	for r < nv-1 && 10*pa < 7*rem {
		rem -= powers[perm[r]]
		r++
	}
	if rng.Chance(1, 8) && r > k {
		r-- // not enough: the conflicting claim does not complete A
	}
	stdSetup(&h, powers, nil, seq(nv))
	ev := int64(40 + rng.Intn(20))
	snd := ethSpelling(rng, ethBases[1])
	A := randContent(rng, false)
	B := randContent(rng, profile == "credit" && rng.Chance(1, 3))
	for B == A {
		B = randContent(rng, false)
	}
	for i := 0; i < k; i++ {
		h.add("tx claim %d 1 %d %s %s", perm[i], ev, snd, A)
		if rng.Chance(1, 6) {
			h.add("tx claim %d 1 %d %s %s", perm[rng.Intn(nv)], ev+100, snd, randContent(rng, false)) // another event in flight
		}
	}
	for i := k; i < r; i++ {
		switch rng.Intn(4) {
		case 0:
			h.add("val %d %d 0", perm[i], powers[perm[i]]) // unbonded / jailed
		case 1:
			h.add("val %d 0 1", perm[i]) // lost its power
		default:
			h.add("tx wl 3 remove %d", perm[i])
		}
	}
	completer := perm[nv-1]
	if rng.Chance(1, 10) {
		completer = perm[rng.Intn(k)] // a validator that already claimed A: duplicate
	}
	h.add("tx claim %s 1 %d %s %s", sp(rng, completer, 15), ev, snd, B)
	if rng.Chance(1, 3) {
		// many blocks later the validators re-send what they claimed
		h.add("blk %d", []int64{10, 100800, 100801, 1000000}[rng.Intn(4)])
		h.add("blk 1")
		for i := 0; i < k; i++ {
			h.add("tx claim %d 1 %d %s %s", perm[i], ev, snd, A)
		}
	}
	if rng.Chance(1, 3) {
		// restart from the exported genesis, then the validators re-send what they claimed
		h.add("restart")
		for i := 0; i < k; i++ {
			h.add("tx claim %d 1 %d %s %s", perm[i], ev, snd, A)
		}
	}
	// afterwards: late claims of either content, by anybody
	for i := rng.Intn(4); i > 0; i-- {
		c := A
		if rng.Bool() {
			c = B
		}
		h.add("tx claim %d 1 %d %s %s", perm[rng.Intn(nv)], ev, snd, c)
	}
	return h
}

// failedHistory: the validators disagree until the prophecy FAILS (no content can reach the threshold any more); then the
// whitelist, the powers, the block height or nothing changes; then late claims — by validators that have not claimed yet
// and by those that have — for the content of the first claimant.  A failed prophecy stays failed.
func failedHistory(rng *Rng, profile string) hist {
	var h hist
	nv := 3 + rng.Intn(4) // 3..6
	powers := make([]int64, nv)
	for i := range powers {
		powers[i] = int64(2 + rng.Intn(3)) // 2..4: no single validator and no pair of the first three holds 70 %
	}
	if nv == 3 {
		powers = []int64{3, 3, 3}
	}
	stdSetup(&h, powers, nil, seq(nv))
	ev := int64(60 + rng.Intn(20))
	snd := ethSpelling(rng, ethBases[1])
	first := randContent(rng, false)
	h.add("tx claim 0 1 %d %s %s", ev, snd, first)
	k := nv - 1
	if nv > 4 {
		k = nv - 2 // some validators keep their claim for later
	}
	for i := 1; i <= k; i++ {
		c := randContent(rng, false)
		for c == first {
			c = randContent(rng, false)
		}
		h.add("tx claim %d 1 %d %s %s", i, ev, snd, c)
	}
	for i := rng.Intn(3); i > 0; i-- {
		switch rng.Intn(5) {
		case 0:
			h.add("tx wl 3 remove %d", 1+rng.Intn(nv-1))
		case 1:
			h.add("val %d %d 1", rng.Intn(nv), 50+rng.Intn(50))
		case 2:
			h.add("blk %d", []int64{1, 10, 100801}[rng.Intn(3)])
		case 3:
			h.add("restart")
		default:
			h.add("jail %d", 1+rng.Intn(nv-1))
		}
	}
	for i := 1 + rng.Intn(4); i > 0; i-- {
		h.add("tx claim %d 1 %d %s %s", rng.Intn(nv), ev, snd, first)
	}
	return h
}

// sp spells an address field: the alias, with probability 1/den followed by "U" (all-upper-case bech32)
func sp(rng *Rng, alias int, den int) string {
	if rng.Chance(1, den) {
		return fmt.Sprintf("%dU", alias)
	}
	return fmt.Sprint(alias)
}

// claim symbols whose pegged denominations collide case-insensitively or by prefix with one another, or start with the
// pegged prefix themselves
var caseFamilies = [][]string{
	{"usdc", "USDC", "Usdc", "cusdc", "usd", "cUSDC"},
	{"usdt", "USDT", "Usdt", "uSDT", "usd", "usdtx", "cusdt"},
	{"eth", "ETH", "Eth", "et", "ceth"},
	{"dai", "DAI", "Dai", "daix", "cc", "cdai"},
}

// holding: an account that was credited a pegged denomination by the bootstrap claims of this history
type holding struct {
	acct  int
	denom string
}

func symToken(sym string) string {
	if strings.ToLower(sym) == "eth" {
		return tok0
	}
	return tok1
}

// feeExtreme draws a fee of extreme sign / size: negative (small, around the int64 range, minus the amount), and huge
func feeExtreme(rng *Rng, amount string) string {
	return []string{"-1", "-9223372036854775808", "-9223372036854775809", "-10000000000000000000", "-" + amount, "-23580000000000000",
		"9223372036854775807", "9223372036854775808", "18446744073709551616",
		"57896044618658097711785492504343953926634992332820282019728792003956564819968"}[rng.Intn(10)]
}

func randomPegOp(rng *Rng, h *hist, held []holding) {
	if len(held) > 0 && rng.Chance(1, 20) {
		// the fee token itself, or another held token, burned / locked with a fee of extreme sign or size; the module
		// usually holds fees of earlier exports at this point (no fee receiver unless a recv message set one)
		x := held[rng.Intn(len(held))]
		amt := fmt.Sprint(1 + rng.Intn(1000))
		sender := x.acct
		if rng.Chance(1, 3) {
			sender = 3 + rng.Intn(bNAccts-3) // possibly an account that holds nothing
		}
		sym := x.denom
		if rng.Bool() {
			sym = "ceth"
		}
		kind := "burn"
		if rng.Chance(1, 4) {
			kind = "lock"
		}
		h.add("tx %s %d 1 %s %s %s %s", kind, sender, ethSpelling(rng, ethBases[rng.Intn(len(ethBases))]), amt, sym, feeExtreme(rng, amt))
		return
	}
	if rng.Chance(1, 14) {
		// a pause change inside a transaction of two messages (written only if both succeed), then exports at the same
		// height, the next block, exports again
		first := fmt.Sprintf("pause 3 %d", rng.Intn(2))
		second := []string{"wl 3 delete 0", "wl 4 add 0", "rescue 3 1 5", "pause 4 1", "wl 3 add 0", fmt.Sprintf("pause 3 %d", rng.Intn(2))}[rng.Intn(6)]
		if rng.Chance(1, 5) {
			first, second = second, first
		}
		if rng.Bool() {
			h.add("tx pause 3 1")
		}
		h.add("txm %s | %s", first, second)
		recv := ethSpelling(rng, ethBases[rng.Intn(len(ethBases))])
		h.add("tx lock 3 1 %s %d rowan %s", recv, 1+rng.Intn(1000), gasCost)
		if len(held) > 0 {
			x := held[rng.Intn(len(held))]
			h.add("tx burn %d 1 %s %d %s %s", x.acct, recv, 1+rng.Intn(1000), x.denom, gasCost)
		}
		if rng.Bool() {
			h.add("blk 1")
			h.add("tx lock 3 1 %s %d rowan %s", recv, 1+rng.Intn(1000), gasCost)
		}
		return
	}
	if len(held) > 0 && rng.Chance(2, 5) {
		// a holder locks or burns a denomination the bridge minted for it
		x := held[rng.Intn(len(held))]
		kind := "burn"
		if rng.Chance(2, 5) {
			kind = "lock"
		}
		h.add("tx %s %d 1 %s %d %s %s", kind, x.acct, ethSpelling(rng, ethBases[rng.Intn(len(ethBases))]), 1+rng.Intn(1000), x.denom, gasCost)
		return
	}
	signerN := 3
	if rng.Chance(1, 8) {
		signerN = 4 + rng.Intn(3)
	}
	signer := sp(rng, signerN, 12)
	recv := ethSpelling(rng, ethBases[rng.Intn(len(ethBases))])
	if rng.Chance(1, 30) {
		recv = "0x123" // not an address
	}
	switch r := rng.Intn(100); {
	case r < 35, r < 70:
		kind, syms := "lock", lockSyms
		if r >= 35 {
			kind, syms = "burn", burnSyms
		}
		amount := rng.Amount(60).String()
		if rng.Chance(1, 15) {
			amount = rng.Amount(120).String()
		}
		ceth := gasCost
		switch rng.Intn(16) {
		case 3, 4:
			ceth = feeExtreme(rng, amount)
		case 0:
			ceth = "23579999999999999"
		case 1:
			ceth = new(big.Int).Add(bigOf(gasCost), rng.Amount(50)).String()
		case 2:
			ceth = "0"
		}
		h.add("tx %s %s %d %s %s %s %s", kind, sp(rng, 3+rng.Intn(4), 12), []int64{1, 1, 1, 1, 1, 0, -3}[rng.Intn(7)], recv, amount, syms[rng.Intn(len(syms))], ceth)
	case r < 78:
		h.add("tx pause %s %s", signer, b2s(rng.Chance(1, 3)))
	case r < 88:
		n := rng.Intn(3)
		var l []string
		for i := 0; i < n; i++ {
			l = append(l, ethSpelling(rng, ethBases[rng.Intn(len(ethBases))]))
		}
		if rng.Chance(1, 10) {
			l = append(l, "notanaddress")
		}
		s := "-"
		if len(l) > 0 {
			s = strings.Join(l, ",")
		}
		h.add("tx bl %s %s", signer, s)
	case r < 94:
		h.add("tx recv %s %s", signer, sp(rng, rng.Intn(bNAccts), 12))
	default:
		h.add("tx rescue %s %s %s", signer, sp(rng, rng.Intn(bNAccts), 12), rng.Amount(60))
	}
}

func runBridge(profile string, directed func() []hist) Family {
	return func(rng *Rng, n int, out *Out, replay string) {
		w := newBWorld()
		x := &bexec{w: w, out: out}
		if replay != "" {
			f, err := os.Open(replay)
			if err != nil {
				panic(err)
			}
			sc := bufio.NewScanner(f)
			sc.Buffer(make([]byte, 1<<20), 1<<24)
			for sc.Scan() {
				l := strings.TrimSpace(sc.Text())
				if l == "" || strings.HasPrefix(l, "chk ") || strings.HasPrefix(l, "obs") || strings.HasPrefix(l, "#") {
					continue
				}
				x.exec(l)
			}
			return
		}
		hs := directed()
		for len(hs) < n {
			den := 10
			if profile == "credit" {
				den = 4
			}
			if rng.Chance(1, den) {
				hs = append(hs, shrinkHistory(rng, profile))
			} else if rng.Chance(1, 10) {
				hs = append(hs, failedHistory(rng, profile))
			} else {
				hs = append(hs, randomHistory(rng, profile))
			}
		}
		for _, h := range hs {
			for r := 0; r < bReps; r++ {
				for _, l := range h.lines {
					x.exec(l)
				}
				x.endOfExecution(r)
			}
		}
		out.Extra["histories"] = len(hs)
		out.Extra["repetitions_per_history"] = bReps
	}
}

func init() {
	families["bridge_oracle"] = runBridge("oracle", directedOracle)
	families["bridge_credit"] = runBridge("credit", func() []hist { return append(directedCredit(), directedOracle()[:2]...) })
	families["bridge_peg"] = runBridge("peg", directedPeg)
}
