package main

// Histories of SEVERAL accepted admin messages (family "policy", C10 family 2): a ratio-shifting policy,
// `end_policy` in the middle of it (or its natural end), optionally a block rate set between policies
// (legal: PolicyStart overwrites it), then the NEXT policy — long and gentle — whose whole window is
// run block by block (no skipping) on the real clp BeginBlocker under recover().  What one accepted
// message leaves behind (counters, stale block rate, inter-policy rate) is the start state of the next.
//
//   adm …  every message of the sequence: verdict + the PMTP state it leaves (model must agree)
//   bb  …  every block of the window                                               (correspondence)
//   chk c10.safe tag=clp.begin.Sequence.<shape> 1 <panicked> …                     (the property)

import (
	"fmt"
	"math/big"

	"github.com/Sifchain/sifnode/x/clp"
	clptypes "github.com/Sifchain/sifnode/x/clp/types"
	sdk "github.com/cosmos/cosmos-sdk/types"
	minttypes "github.com/cosmos/cosmos-sdk/x/mint/types"
)

func decEnc(s string) string {
	if s == "" {
		return "e"
	}
	d, err := sdk.NewDecFromStr(s)
	if err != nil {
		return "b"
	}
	return d.BigInt().String()
}

func (w *World) mkUpdatePmtp(gov string, el, st, en int64) *AdminMsg {
	m := &clptypes.MsgUpdatePmtpParams{Signer: w.admin.String(), PmtpPeriodGovernanceRate: gov, PmtpPeriodEpochLength: el, PmtpPeriodStartBlock: st, PmtpPeriodEndBlock: en}
	stored := w.app.ClpKeeper.GetPmtpParams(w.ctx).PmtpPeriodGovernanceRate
	return &AdminMsg{kind: "UpdatePmtpParams", desc: fmt.Sprintf("adm %s %d %d %d %s", decEnc(gov), el, st, en, d2s(stored)), shape: "seq", vb: m.ValidateBasic,
		run: func(ctx sdk.Context) error { _, err := w.csrv.UpdatePmtpParams(sdk.WrapSDKContext(ctx), m); return err }}
}

func (w *World) mkModifyRates(br, rr string, endPolicy bool) *AdminMsg {
	m := &clptypes.MsgModifyPmtpRates{Signer: w.admin.String(), BlockRate: br, RunningRate: rr, EndPolicy: endPolicy}
	return &AdminMsg{kind: "ModifyPmtpRates", desc: fmt.Sprintf("adm %s %s %s", decEnc(br), decEnc(rr), boolBit(endPolicy)), shape: "seq", vb: m.ValidateBasic,
		run: func(ctx sdk.Context) error { _, err := w.csrv.ModifyPmtpRates(sdk.WrapSDKContext(ctx), m); return err }}
}

// submitAdm: the message through ValidateBasic + handler, with its `adm` line (verdict and the hook
// state it leaves, which the model's `apply…` must reproduce).
func (w *World) submitAdm(out *Out, m *AdminMsg) bool {
	line := w.admLine(m)
	acc := w.Submit(m)
	ans := "consistent"
	if acc {
		ans += " " + w.hookState(m.kind)
	}
	out.Emit(fmt.Sprintf("adm %s %s", boolBit(acc), line), ans, "adm.seq."+m.kind+"."+boolBit(acc), true)
	return acc
}

// lightBlock: only the clp BeginBlocker (differential line + property), the invariant now and then.
func (w *World) lightBlock(out *Out, t *tracked, withInv bool) string {
	pp := w.app.ClpKeeper.GetPmtpParams(w.ctx)
	ep := w.app.ClpKeeper.GetPmtpEpoch(w.ctx)
	nb := pp.PmtpPeriodEndBlock - pp.PmtpPeriodStartBlock + 1
	if withInv && nb > 0 && nb <= 4096 {
		out.Emit(fmt.Sprintf("inv %d %s %s", w.height, w.lpState(), w.pmState()), "holds", "inv", false)
	}
	starting := w.height == pp.PmtpPeriodStartBlock && ep.EpochCounter == 0 && ep.BlockCounter == 0
	line := w.bbLine()
	res := w.Hook(func(ctx sdk.Context) { clp.BeginBlocker(ctx, w.app.ClpKeeper) })
	if starting && res == "ok" && nb > 0 && nb <= 4096 {
		rp := w.app.ClpKeeper.GetPmtpRateParams(w.ctx)
		out.Emit(fmt.Sprintf("powenv %d %d %d %s %s", pp.PmtpPeriodStartBlock, pp.PmtpPeriodEndBlock, pp.PmtpPeriodEpochLength, d2s(pp.PmtpPeriodGovernanceRate), d2s(rp.PmtpPeriodBlockRate)), "holds", "powenv", true)
	}
	ans := "panic"
	if res == "ok" {
		ans = w.bbAns(nil)
	}
	out.Emit(line, ans, "bb."+res, true)
	out.Emit(fmt.Sprintf("chk c10.safe tag=%s %s %s h=%d %s %s", t.tag("clp.begin"), boolBit(t.accepted), boolBit(res == "panic"), w.height, t.m.kind, t.m.desc), "true", "chk.safe.clp.begin", false)
	return res
}

type seqPlan struct {
	aGov           string
	aEl, aSt, aEn  int64 // first policy
	endAt          int64 // height of end_policy (0 = let the policy end by itself)
	brBetween      string // block rate set between the policies ("" = none)
	rrBetween      string // running rate set between the policies ("" = none)
	bGov           string
	bEl, bSt, bEn  int64 // second policy
	submitA, submitB int64
}

func (p seqPlan) shape() string {
	s := "natural-end"
	if p.endAt != 0 {
		s = "end-policy"
	}
	if p.brBetween != "" {
		s += ".block-rate"
	}
	if p.bGov == "" {
		s += ".kept-rate" // the next policy omits the optional governance rate and inherits the stored one
	}
	return s + ".next-policy"
}

func randomSeqPlan(r *Rng) seqPlan {
	var p seqPlan
	p.submitA = 4
	p.aSt = 6
	p.aEl = int64(1 + r.Intn(2))
	nEp := int64(20 + r.Intn(40))
	p.aEn = p.aSt + p.aEl*nEp - 1
	p.aGov = []string{"0.50", "0.20", "1", "0.35", "0.05"}[r.Intn(5)]
	if r.Chance(4, 5) {
		p.endAt = p.aSt + int64(r.Intn(4))
	}
	last := p.aEn
	if p.endAt != 0 {
		last = p.endAt
	}
	if r.Chance(1, 3) {
		p.brBetween = []string{"0.5", "1", "3", "1000000", "0.01"}[r.Intn(5)]
	}
	if r.Chance(1, 4) {
		p.rrBetween = []string{"0", "0.5", "-0.5", "1000000"}[r.Intn(4)]
	}
	p.submitB = last + 2
	p.bSt = p.submitB + 1 + int64(r.Intn(3))
	p.bEl = []int64{50, 100, 25}[r.Intn(3)]
	nEpB := int64(8 + r.Intn(13))
	p.bEn = p.bSt + p.bEl*nEpB - 1
	p.bGov = []string{"0.01", "0.001", "1", "0.3", "0"}[r.Intn(5)]
	if r.Chance(2, 5) {
		// optional field omitted: the next policy inherits the governance rate stored by the first one;
		// short epochs, many of them, so that the inherited rate is compounded often enough to matter
		p.bGov = ""
		p.aGov = []string{"1.0", "0.5", "0.35", "0.02", "0.04", "0.2"}[r.Intn(6)]
		p.bEl = int64(1 + r.Intn(2))
		nEpB = int64(280 + r.Intn(700))
		p.bEn = p.bSt + p.bEl*nEpB - 1
	}
	return p
}

// the seeded-change demonstrations, literally: C10-2 (end_policy, then the next policy) and C10-3 (a
// policy at 1.0 over 10 epochs run to its end, then a policy that keeps the stored rate over 300 epochs)
func directedSeqPlan() seqPlan {
	return seqPlan{aGov: "0.50", aEl: 1, aSt: 11, aEn: 20, endAt: 12, bGov: "0.01", bEl: 100, bSt: 21, bEn: 1020, submitA: 4, submitB: 14}
}
func directedKeptRatePlan() seqPlan {
	return seqPlan{aGov: "1.0", aEl: 1, aSt: 10, aEn: 19, endAt: 0, bGov: "", bEl: 1, bSt: 30, bEn: 329, submitA: 4, submitB: 21}
}

func runSequence(r *Rng, out *Out, p seqPlan, baseline bool) {
	out.Emit("reset", "ok", "reset", false)
	w := policyWorld(r)
	if baseline {
		for _, kind := range []int{3, 6, 4, 5} { // everything but a ratio-shifting policy
			if r.Chance(1, 2) {
				w.Submit(w.GenAdmin(r, kind, true))
			}
		}
	}
	t := &tracked{m: &AdminMsg{kind: "Sequence", shape: p.shape(), desc: fmt.Sprintf("A=[%d,%d]/%d@%s end=%d br=%s rr=%s B=[%d,%d]/%d@%s", p.aSt, p.aEn, p.aEl, p.aGov, p.endAt, p.brBetween, p.rrBetween, p.bSt, p.bEn, p.bEl, p.bGov)}, accepted: true}
	between := false
	last := p.bEn + 2
	mint1, mint2 := int64(0), int64(0)
	if baseline && r.Chance(1, 3) { // zero-means-keep of UpdateStakingRewardParams: set a minter, later keep it
		mint1, mint2 = 3, p.submitB+1
	}
	for h := int64(2); h <= last; h++ {
		w.SetHeight(h)
		full := h <= p.submitB+1 || h%97 == 0 || h >= p.bEn
		if full {
			w.runBlock(r, out, t, 1, func() {
				switch {
				case h == p.submitA:
					w.submitAdm(out, w.mkUpdatePmtp(p.aGov, p.aEl, p.aSt, p.aEn))
				case p.endAt != 0 && h == p.endAt:
					w.submitAdm(out, w.mkModifyRates("", "", true))
				case h == p.submitB-1 && !between:
					between = true
					if p.brBetween != "" || p.rrBetween != "" {
						w.submitAdm(out, w.mkModifyRates(p.brBetween, p.rrBetween, false))
					}
				case h == p.submitB:
					if !w.submitAdm(out, w.mkUpdatePmtp(p.bGov, p.bEl, p.bSt, p.bEn)) {
						last = p.submitB + 20 // refused: no second window to run
						out.Hist["seq.next-policy-refused"]++
					}
				case h == mint1:
					w.submitAdm(out, w.mkStaking(uint64(1+r.Intn(1000)), r.Rate01(), big.NewInt(1)))
				case h == mint2:
					w.submitAdm(out, w.mkStaking(uint64(1+r.Intn(1000)), big.NewInt(0), big.NewInt(0)))
				}
			})
		} else {
			if w.lightBlock(out, t, h%50 == 0) == "panic" {
				out.Hist["seq.halted"]++
				return // the chain has halted: the chk line above carries the failing input
			}
		}
	}
	out.Hist["seq.completed"]++
}

// mkStaking: UpdateStakingRewardParams with default mint params, the given blocks per year and minter
// (inflation = annual provisions = 0 means: keep the stored minter).
func (w *World) mkStaking(bpy uint64, infl, ap *big.Int) *AdminMsg {
	p := minttypes.DefaultParams()
	p.MintDenom = "rowan"
	p.BlocksPerYear = bpy
	m := &clptypes.MsgUpdateStakingRewardParams{Signer: w.admin.String(), Params: p, Minter: minttypes.Minter{Inflation: decOf(infl), AnnualProvisions: decOf(ap)}}
	return &AdminMsg{kind: "UpdateStakingRewardParams", desc: fmt.Sprintf("adm %s %s %s %s %d %s %s", d2s(p.InflationRateChange), d2s(p.InflationMax), d2s(p.InflationMin), d2s(p.GoalBonded), bpy, infl, ap),
		shape: "seq", vb: m.ValidateBasic,
		run: func(ctx sdk.Context) error {
			_, err := w.csrv.UpdateStakingRewardParams(sdk.WrapSDKContext(ctx), m)
			return err
		}}
}

// ---- liquidity-protection sequences across the disabled state --------------------------------------------
//
// UpdateLiquidityProtectionParams toggling IsActive with the same / another maximum and asset and other
// epoch lengths, ModifyLiquidityProtectionRates with the current threshold below / at / above the maximum
// while the protection is on and while it is off; real blocks in between and after.

func (w *World) mkUpdateLP(max *big.Int, asset string, epoch uint64, active bool) *AdminMsg {
	m := &clptypes.MsgUpdateLiquidityProtectionParams{Signer: w.admin.String(), MaxRowanLiquidityThreshold: sdk.NewUintFromBigInt(max), MaxRowanLiquidityThresholdAsset: asset, EpochLength: epoch, IsActive: active}
	return &AdminMsg{kind: "UpdateLiquidityProtectionParams", desc: fmt.Sprintf("adm %s %d %s", max, epoch, boolBit(active)), shape: "seq", vb: m.ValidateBasic,
		run: func(ctx sdk.Context) error {
			_, err := w.csrv.UpdateLiquidityProtectionParams(sdk.WrapSDKContext(ctx), m)
			return err
		}}
}

func (w *World) mkModifyLP(cur *big.Int) *AdminMsg {
	lpp := w.app.ClpKeeper.GetLiquidityProtectionParams(w.ctx)
	m := &clptypes.MsgModifyLiquidityProtectionRates{Signer: w.admin.String(), CurrentRowanLiquidityThreshold: sdk.NewUintFromBigInt(cur)}
	return &AdminMsg{kind: "ModifyLiquidityProtectionRates", desc: fmt.Sprintf("adm %s %s", cur, u2s(lpp.MaxRowanLiquidityThreshold)), shape: "seq", vb: m.ValidateBasic,
		run: func(ctx sdk.Context) error {
			_, err := w.csrv.ModifyLiquidityProtectionRates(sdk.WrapSDKContext(ctx), m)
			return err
		}}
}

type lpStep struct {
	update bool
	max    *big.Int
	asset  string
	epoch  uint64
	active bool
	cur    *big.Int // for ModifyLiquidityProtectionRates
}

func (s lpStep) String() string {
	if s.update {
		return fmt.Sprintf("U(%s,%s,%d,%s)", s.max, s.asset, s.epoch, boolBit(s.active))
	}
	return fmt.Sprintf("M(%s)", s.cur)
}

// the demonstration of seeded change C10-8: switch off with maximum M, set current > M, switch on with the same M
func directedLpPlan() []lpStep {
	M := big.NewInt(1000000)
	return []lpStep{{update: true, max: M, asset: "cusdc", epoch: 10, active: false}, {cur: big.NewInt(1000001)}, {update: true, max: M, asset: "cusdc", epoch: 10, active: true}}
}

func randomLpPlan(r *Rng) []lpStep {
	maxes := []*big.Int{r.Amount(60), r.Amount(90)}
	if r.Chance(1, 6) {
		maxes[0] = big.NewInt(0)
	}
	assets := []string{"cusdc", "rowan", "ceth"}
	epochs := []uint64{1, 2, 3, 10, 14400, 1 << 63}
	var plan []lpStep
	curMax, curAsset := maxes[0], assets[r.Intn(2)]
	active := r.Bool()
	plan = append(plan, lpStep{update: true, max: curMax, asset: curAsset, epoch: epochs[r.Intn(len(epochs))], active: active})
	for i := 0; i < 3+r.Intn(5); i++ {
		if r.Chance(1, 2) {
			// toggle (mostly) with the same maximum and asset, sometimes another maximum / asset / epoch length only
			if r.Chance(1, 4) {
				curMax = maxes[r.Intn(2)]
			}
			if r.Chance(1, 5) {
				curAsset = assets[r.Intn(len(assets))]
			}
			if r.Chance(3, 4) {
				active = !active
			}
			plan = append(plan, lpStep{update: true, max: curMax, asset: curAsset, epoch: epochs[r.Intn(len(epochs))], active: active})
		} else {
			var cur *big.Int
			switch r.Intn(6) {
			case 0:
				cur = big.NewInt(0)
			case 1:
				cur = new(big.Int).Set(curMax)
			case 2:
				cur = add1(curMax)
			case 3:
				cur = new(big.Int).Add(new(big.Int).Lsh(curMax, 1), big.NewInt(7))
			case 4:
				cur = r.Near(curMax)
			default:
				cur = new(big.Int).Rsh(curMax, 1)
			}
			plan = append(plan, lpStep{cur: cur})
		}
	}
	if !active || r.Chance(1, 2) { // end switched on, so that the BeginBlocker reads what the sequence left
		plan = append(plan, lpStep{update: true, max: curMax, asset: curAsset, epoch: epochs[r.Intn(3)], active: true})
	}
	return plan
}

func runLpSequence(r *Rng, out *Out, plan []lpStep, shape string) {
	out.Emit("reset", "ok", "reset", false)
	w := policyWorld(r)
	desc := ""
	for _, s := range plan {
		desc += s.String()
	}
	t := &tracked{m: &AdminMsg{kind: "LpSequence", shape: shape, desc: desc}, accepted: true}
	h := int64(2)
	for _, s := range plan {
		s := s
		w.SetHeight(h)
		w.runBlock(r, out, t, 1, func() {
			if s.update {
				w.submitAdm(out, w.mkUpdateLP(s.max, s.asset, s.epoch, s.active))
			} else {
				w.submitAdm(out, w.mkModifyLP(s.cur))
			}
		})
		h++
		for i := 0; i < r.Intn(3); i++ { // blocks in between
			w.SetHeight(h)
			w.runBlock(r, out, t, 1, nil)
			h++
		}
	}
	for i := 0; i < 4; i++ {
		w.SetHeight(h)
		w.runBlock(r, out, t, 2, nil)
		h++
	}
	out.Hist["lpseq.completed"]++
}
