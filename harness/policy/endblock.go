package main

// Observation of what the clp EndBlocker reads / writes, and the `adm` line prefix.

import (
	"fmt"
	"strings"

	sdk "github.com/cosmos/cosmos-sdk/types"
)

func uptr(u *sdk.Uint) string {
	if u == nil {
		return "n"
	}
	return u2s(*u)
}
func dptr(d *sdk.Dec) string {
	if d == nil || d.IsNil() {
		return "n"
	}
	return d.BigInt().String()
}
func dval(d sdk.Dec) string {
	if d.IsNil() {
		return "n"
	}
	return d.BigInt().String()
}

// eb <h> <accu> <nLppd> (<rate> <start> <end> <mod>)* <nRew> (<start> <end> <alloc|n> <mod> <distribute> <def|n> <km> (<asset> <mult|n>)*)*
//    <np> (<symbol> <nativeBalance> <poolUnits> <rewardPeriodNativeDistributed> <nlp> (<lpUnits>)*)*
func (w *World) ebLine() string {
	k := w.app.ClpKeeper
	var sb strings.Builder
	fmt.Fprintf(&sb, "eb %d %s", w.height, u2s(k.GetBlockDistributionAccu(w.ctx)))
	pd := k.GetProviderDistributionParams(w.ctx)
	fmt.Fprintf(&sb, " %d", len(pd.DistributionPeriods))
	for _, p := range pd.DistributionPeriods {
		fmt.Fprintf(&sb, " %s %d %d %d", dval(p.DistributionPeriodBlockRate), p.DistributionPeriodStartBlock, p.DistributionPeriodEndBlock, p.DistributionPeriodMod)
	}
	rp := k.GetRewardsParams(w.ctx)
	fmt.Fprintf(&sb, " %d", len(rp.RewardPeriods))
	for _, p := range rp.RewardPeriods {
		fmt.Fprintf(&sb, " %d %d %s %d %s %s %d", p.RewardPeriodStartBlock, p.RewardPeriodEndBlock, uptr(p.RewardPeriodAllocation), p.RewardPeriodMod,
			boolBit(p.RewardPeriodDistribute), dptr(p.RewardPeriodDefaultMultiplier), len(p.RewardPeriodPoolMultipliers))
		for _, m := range p.RewardPeriodPoolMultipliers {
			a := m.PoolMultiplierAsset
			if a == "" {
				a = "~"
			}
			fmt.Fprintf(&sb, " %s %s", a, dptr(m.Multiplier))
		}
	}
	pools := k.GetPools(w.ctx)
	fmt.Fprintf(&sb, " %d", len(pools))
	for _, p := range pools {
		lps := w.LPsOf(p.ExternalAsset.Symbol)
		fmt.Fprintf(&sb, " %s %s %s %s %d", p.ExternalAsset.Symbol, u2s(p.NativeAssetBalance), u2s(p.PoolUnits), u2s(p.RewardPeriodNativeDistributed), len(lps))
		for _, lp := range lps {
			fmt.Fprintf(&sb, " %s", u2s(lp.LiquidityProviderUnits))
		}
	}
	return sb.String()
}

// ok <accu'> (| <nativeBalance'> <rewardPeriodNativeDistributed'>)*
func (w *World) ebAns() string {
	k := w.app.ClpKeeper
	var sb strings.Builder
	fmt.Fprintf(&sb, "ok %s", u2s(k.GetBlockDistributionAccu(w.ctx)))
	for _, p := range k.GetPools(w.ctx) {
		fmt.Fprintf(&sb, " | %s %s", u2s(p.NativeAssetBalance), u2s(p.RewardPeriodNativeDistributed))
	}
	return sb.String()
}

// pmState / lpState: the slice of hook state the PMTP / liquidity-protection messages write
func (w *World) pmState() string {
	k := w.app.ClpKeeper
	pp := k.GetPmtpParams(w.ctx)
	ep := k.GetPmtpEpoch(w.ctx)
	rp := k.GetPmtpRateParams(w.ctx)
	return fmt.Sprintf("%d %d %d %s %d %d %s %s %s", pp.PmtpPeriodStartBlock, pp.PmtpPeriodEndBlock, pp.PmtpPeriodEpochLength, d2s(pp.PmtpPeriodGovernanceRate),
		ep.EpochCounter, ep.BlockCounter, d2s(rp.PmtpPeriodBlockRate), d2s(rp.PmtpCurrentRunningRate), d2s(rp.PmtpInterPolicyRate))
}
func (w *World) lpState() string {
	k := w.app.ClpKeeper
	lpp := k.GetLiquidityProtectionParams(w.ctx)
	lpr := k.GetLiquidityProtectionRateParams(w.ctx)
	return fmt.Sprintf("%s %s %s %d", boolBit(lpp.IsActive), u2s(lpp.MaxRowanLiquidityThreshold), u2s(lpr.CurrentRowanLiquidityThreshold), lpp.EpochLength)
}

// rewState: accumulated block distribution and, for each stored reward period, what SameRewardPeriod looks at
func (w *World) rewState() string {
	k := w.app.ClpKeeper
	rp := k.GetRewardsParams(w.ctx)
	var sb strings.Builder
	fmt.Fprintf(&sb, "%s %d", u2s(k.GetBlockDistributionAccu(w.ctx)), len(rp.RewardPeriods))
	for _, p := range rp.RewardPeriods {
		fmt.Fprintf(&sb, " %d %d %s %d", p.RewardPeriodStartBlock, p.RewardPeriodEndBlock, uptr(p.RewardPeriodAllocation), p.RewardPeriodMod)
	}
	return sb.String()
}

// hookStatePre: what the message's handler reads (before); hookState: what it leaves (after)
func (w *World) hookStatePre(kind string) string {
	if kind == "AddRewardPeriod" {
		return w.rewState()
	}
	return w.hookState(kind)
}

func (w *World) hookState(kind string) string {
	switch kind {
	case "AddRewardPeriod":
		return u2s(w.app.ClpKeeper.GetBlockDistributionAccu(w.ctx))
	case "ModifyPmtpRates", "UpdatePmtpParams":
		return w.pmState()
	case "ModifyLiquidityProtectionRates", "UpdateLiquidityProtectionParams":
		return w.lpState()
	}
	return "-"
}

// <kind> <height> <insidePmtpWindow> <fields…> | <hook state before>
func (w *World) admLine(m *AdminMsg) string {
	return fmt.Sprintf("%s %d %s %s | %s", m.kind, w.height, boolBit(w.app.ClpKeeper.IsInsidePmtpWindow(w.ctx)), m.desc, w.hookStatePre(m.kind))
}
