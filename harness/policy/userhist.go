package main

// family "userhist" (C10 family 1, L1): adversarial histories of PERMISSIONLESS messages of the clp,
// margin, bank, dispensation and ethbridge modules (amounts 0, 1, 2^64±1, 2^128, dust, near the pool
// depths) under a policy configuration inside the operating envelope of DESIGN.md section 5; after every
// block every block hook runs on the real keepers under recover():
//
//   chk c10.hook tag=user.<hook>[.<directed>] <panicked> h=<height> …   judged by Spec.C10.hookOK
//
// Directed first: F16 (all eligible providers of an asset hold 0 units ⇒ division by zero in the
// epoch hook's reward-share computation).

import (
	"fmt"
	"math/big"
	"os"
	"sort"
	"time"

	admintypes "github.com/Sifchain/sifnode/x/admin/types"
	"github.com/Sifchain/sifnode/x/clp"
	clptypes "github.com/Sifchain/sifnode/x/clp/types"
	"github.com/Sifchain/sifnode/x/dispensation"
	dispkeeper "github.com/Sifchain/sifnode/x/dispensation/keeper"
	disptypes "github.com/Sifchain/sifnode/x/dispensation/types"
	ethkeeper "github.com/Sifchain/sifnode/x/ethbridge/keeper"
	ethtypes "github.com/Sifchain/sifnode/x/ethbridge/types"
	marginkeeper "github.com/Sifchain/sifnode/x/margin/keeper"
	margintypes "github.com/Sifchain/sifnode/x/margin/types"
	sdk "github.com/cosmos/cosmos-sdk/types"
	bankkeeper "github.com/cosmos/cosmos-sdk/x/bank/keeper"
	banktypes "github.com/cosmos/cosmos-sdk/x/bank/types"
	"github.com/cosmos/cosmos-sdk/x/mint"
)

// AdvAmount: the adversarial amounts of the property's quantifier.
func (r *Rng) AdvAmount(near *big.Int) *big.Int {
	switch r.Intn(12) {
	case 0:
		return big.NewInt(0)
	case 1:
		return big.NewInt(1)
	case 2:
		return sub1(pow2(64))
	case 3:
		return add1(pow2(64))
	case 4:
		return pow2(128)
	case 5:
		return big.NewInt(int64(2 + r.Intn(1000))) // dust
	case 6, 7:
		if near != nil && near.Sign() > 0 {
			return r.Near(near)
		}
		return r.Amount(100)
	default:
		return r.Amount(100)
	}
}

// deepAmounts: the top of the supply range of the operating envelope (single deposits up to 2^128)
var deepAmounts = []*big.Int{pow2(64), pow2(100), pow2(127), sub1(pow2(128)), pow2(128), add1(pow2(128)), new(big.Int).Add(pow2(127), pow2(126))}

// DeepAmount: deposits / swaps / bucket top-ups of a "deep" world; now and then values that only the
// bank can refuse (2^255, 2^256−1).
func (r *Rng) DeepAmount(near *big.Int) *big.Int {
	switch r.Intn(10) {
	case 0, 1, 2, 3, 4:
		return deepAmounts[r.Intn(len(deepAmounts))]
	case 5:
		return []*big.Int{pow2(255), sub1(pow2(256)), sub1(pow2(255))}[r.Intn(3)]
	case 6:
		return r.BigBits(100 + r.Intn(29))
	default:
		return r.AdvAmount(near)
	}
}

type userWorld struct {
	*World
	msrv   margintypes.MsgServer
	bsrv   banktypes.MsgServer
	dsrv   disptypes.MsgServer
	esrv   ethtypes.MsgServer
	now    time.Time
	lastOp string
	deep   bool // pools, deposits and rewards buckets at the top of the supply range
}

func (u *userWorld) amount(r *Rng, near *big.Int) *big.Int {
	if u.deep {
		return r.DeepAmount(near)
	}
	return r.AdvAmount(near)
}

// deepWorld: users hold 2^135 of every denom; pools are created with depths 2^64 … 2^128+1 on the native
// side and 1 … 2^128+1 on the external side.
func deepWorld(r *Rng) *World {
	denoms := []string{"cusdc", "ceth", "cdash"}
	decs := []int64{6, 18, int64(r.Intn(20))}
	np := 2 + r.Intn(2)
	w := NewWorld(denoms[:np], decs[:np], 4)
	for _, a := range w.users {
		w.Fund(a, "rowan", pow2(135))
		for _, d := range w.denoms {
			w.Fund(a, d, pow2(135))
		}
	}
	ext := append([]*big.Int{big.NewInt(1), big.NewInt(2), e10(18)}, deepAmounts...)
	for i, d := range w.denoms {
		native := deepAmounts[r.Intn(len(deepAmounts))]
		if r.Chance(1, 4) {
			native = e10(18) // the minimum a pool can be created with
		}
		if w.CreatePool(w.users[i%len(w.users)], d, native, ext[r.Intn(len(ext))]) != "ok" {
			w.CreatePool(w.users[i%len(w.users)], d, pow2(100), pow2(64))
		}
	}
	return w
}

func newDeepUserWorld(r *Rng) *userWorld {
	u := newUserWorldOn(deepWorld(r))
	u.deep = true
	return u
}

func newUserWorld(r *Rng) *userWorld { return newUserWorldOn(policyWorld(r)) }

func newUserWorldOn(w *World) *userWorld {
	u := &userWorld{World: w, now: t0}
	u.msrv = marginkeeper.NewMsgServerImpl(w.app.MarginKeeper)
	u.bsrv = bankkeeper.NewMsgServerImpl(w.app.BankKeeper)
	u.dsrv = dispkeeper.NewMsgServerImpl(w.app.DispensationKeeper)
	u.esrv = ethkeeper.NewMsgServerImpl(w.app.EthbridgeKeeper)
	return u
}

// envelopeConfig: valid policies (through the real admin messages) + margin enabled on the pools.
func (u *userWorld) envelopeConfig(r *Rng) {
	w := u.World
	w.baseline(r)
	// rewards params: short lock period so that the epoch hook has eligible providers
	rm := &clptypes.MsgUpdateRewardsParamsRequest{Signer: w.admin.String(), LiquidityRemovalLockPeriod: uint64(r.Intn(3)), LiquidityRemovalCancelPeriod: uint64(1 + r.Intn(20)),
		RewardsDistribute: r.Bool(), RewardsEpochIdentifier: []string{"hour", "day", "week"}[r.Intn(3)], RewardsLockPeriod: uint64(r.Intn(6))}
	w.Tx(func(ctx sdk.Context) error { _, err := w.csrv.UpdateRewardsParams(sdk.WrapSDKContext(ctx), rm); return err })
	// margin
	p := w.app.MarginKeeper.GetParams(w.ctx)
	p.EpochLength = int64(1 + r.Intn(3))
	p.ForceCloseFundAddress = w.users[len(w.users)-1].String()
	p.IncrementalInterestPaymentFundAddress = w.users[len(w.users)-1].String()
	p.IncrementalInterestPaymentEnabled = r.Bool()
	p.RowanCollateralEnabled = true
	p.WhitelistingEnabled = false
	w.app.AdminKeeper.SetAdminAccount(w.ctx, &admintypes.AdminAccount{AdminType: admintypes.AdminType_MARGIN, AdminAddress: w.admin.String()})
	w.Tx(func(ctx sdk.Context) error {
		_, err := u.msrv.UpdateParams(sdk.WrapSDKContext(ctx), &margintypes.MsgUpdateParams{Signer: w.admin.String(), Params: &p})
		return err
	})
	w.Tx(func(ctx sdk.Context) error {
		_, err := u.msrv.UpdatePools(sdk.WrapSDKContext(ctx), &margintypes.MsgUpdatePools{Signer: w.admin.String(), Pools: w.denoms})
		return err
	})
}

func (u *userWorld) poolDepth(d string, native bool) *big.Int {
	p, err := u.app.ClpKeeper.GetPool(u.ctx, d)
	if err != nil {
		return nil
	}
	if native {
		return p.NativeAssetBalance.BigInt()
	}
	return p.ExternalAssetBalance.BigInt()
}

// userOp: one adversarial permissionless message; returns its class (ok / err / panic).
func (u *userWorld) userOp(r *Rng) string {
	w := u.World
	usr := w.users[r.Intn(len(w.users))]
	d := w.denoms[r.Intn(len(w.denoms))]
	asset := clptypes.NewAsset(d)
	native := clptypes.GetSettlementAsset()
	run := func(name string, vb func() error, f func(ctx sdk.Context) error) string {
		u.lastOp = name
		return w.Tx(func(ctx sdk.Context) error {
			if err := vb(); err != nil {
				return err
			}
			return f(ctx)
		})
	}
	switch r.Intn(16) {
	case 0, 1, 2:
		sent, recv := native, asset
		near := u.poolDepth(d, true)
		switch r.Intn(3) {
		case 0:
			sent, recv, near = asset, native, u.poolDepth(d, false)
		case 1:
			if len(w.denoms) > 1 {
				sent, recv = asset, clptypes.NewAsset(w.denoms[(r.Intn(len(w.denoms)-1)+1)%len(w.denoms)])
				near = u.poolDepth(d, false)
			}
		}
		msg := clptypes.NewMsgSwap(usr, sent, recv, sdk.NewUintFromBigInt(u.amount(r, near)), sdk.NewUintFromBigInt(u.amount(r, nil)))
		if r.Chance(2, 3) {
			msg.MinReceivingAmount = sdk.ZeroUint()
		}
		return run("swap", msg.ValidateBasic, func(ctx sdk.Context) error { _, err := w.csrv.Swap(sdk.WrapSDKContext(ctx), &msg); return err })
	case 3, 4, 5:
		msg := clptypes.NewMsgAddLiquidity(usr, asset, sdk.NewUintFromBigInt(u.amount(r, u.poolDepth(d, true))), sdk.NewUintFromBigInt(u.amount(r, u.poolDepth(d, false))))
		return run("addliq", msg.ValidateBasic, func(ctx sdk.Context) error { _, err := w.csrv.AddLiquidity(sdk.WrapSDKContext(ctx), &msg); return err })
	case 6, 7:
		wb := int64(1 + r.Intn(10000))
		if r.Chance(1, 3) {
			wb = 10000
		}
		msg := clptypes.NewMsgRemoveLiquidity(usr, asset, sdk.NewInt(wb), sdk.NewInt(int64(r.Intn(20001)-10000)))
		return run("remliq", msg.ValidateBasic, func(ctx sdk.Context) error { _, err := w.csrv.RemoveLiquidity(sdk.WrapSDKContext(ctx), &msg); return err })
	case 8:
		var units *big.Int
		if lp, err := w.app.ClpKeeper.GetLiquidityProvider(w.ctx, d, usr.String()); err == nil && r.Chance(2, 3) {
			units = lp.LiquidityProviderUnits.BigInt()
			if r.Bool() {
				units = r.Near(units)
			}
		} else {
			units = u.amount(r, nil)
		}
		msg := clptypes.NewMsgRemoveLiquidityUnits(usr, asset, sdk.NewUintFromBigInt(units))
		return run("remunits", msg.ValidateBasic, func(ctx sdk.Context) error {
			_, err := w.csrv.RemoveLiquidityUnits(sdk.WrapSDKContext(ctx), &msg)
			return err
		})
	case 9:
		msg := clptypes.MsgUnlockLiquidityRequest{Signer: usr.String(), ExternalAsset: &asset, Units: sdk.NewUintFromBigInt(u.amount(r, nil))}
		return run("unlock", msg.ValidateBasic, func(ctx sdk.Context) error { _, err := w.csrv.UnlockLiquidity(sdk.WrapSDKContext(ctx), &msg); return err })
	case 10:
		msg := clptypes.MsgCancelUnlock{Signer: usr.String(), ExternalAsset: &asset, Units: sdk.NewUintFromBigInt(u.amount(r, nil))}
		return run("cancelunlock", msg.ValidateBasic, func(ctx sdk.Context) error {
			_, err := w.csrv.CancelUnlockLiquidity(sdk.WrapSDKContext(ctx), &msg)
			return err
		})
	case 11:
		amt := u.amount(r, nil)
		if amt.Sign() == 0 {
			amt = big.NewInt(1)
		}
		msg := clptypes.MsgAddLiquidityToRewardsBucketRequest{Signer: usr.String(), Amount: sdk.NewCoins(sdk.NewCoin(d, sdk.NewIntFromBigInt(amt)))}
		return run("bucket", msg.ValidateBasic, func(ctx sdk.Context) error {
			_, err := w.csrv.AddLiquidityToRewardsBucket(sdk.WrapSDKContext(ctx), &msg)
			return err
		})
	case 12:
		coll, bor := "rowan", d
		near := u.poolDepth(d, true)
		if r.Bool() {
			coll, bor, near = d, "rowan", u.poolDepth(d, false)
		}
		lev := sdk.NewDecWithPrec(int64(10+r.Intn(20)), 1)
		msg := &margintypes.MsgOpen{Signer: usr.String(), CollateralAsset: coll, CollateralAmount: sdk.NewUintFromBigInt(u.amount(r, near)), BorrowAsset: bor, Position: margintypes.Position_LONG, Leverage: lev}
		return run("margin.open", msg.ValidateBasic, func(ctx sdk.Context) error { _, err := u.msrv.Open(sdk.WrapSDKContext(ctx), msg); return err })
	case 13:
		msg := &margintypes.MsgClose{Signer: usr.String(), Id: uint64(1 + r.Intn(6))}
		return run("margin.close", msg.ValidateBasic, func(ctx sdk.Context) error { _, err := u.msrv.Close(sdk.WrapSDKContext(ctx), msg); return err })
	case 14:
		to := w.users[r.Intn(len(w.users))]
		amt := u.amount(r, nil)
		if amt.Sign() == 0 {
			amt = big.NewInt(1)
		}
		denom := append([]string{"rowan"}, w.denoms...)[r.Intn(len(w.denoms)+1)]
		msg := banktypes.NewMsgSend(usr, to, sdk.NewCoins(sdk.NewCoin(denom, sdk.NewIntFromBigInt(amt))))
		return run("bank.send", msg.ValidateBasic, func(ctx sdk.Context) error { _, err := u.bsrv.Send(sdk.WrapSDKContext(ctx), msg); return err })
	default:
		if r.Bool() {
			amt := u.amount(r, nil)
			if amt.Sign() == 0 {
				amt = big.NewInt(1)
			}
			coins := sdk.NewCoins(sdk.NewCoin("rowan", sdk.NewIntFromBigInt(amt)))
			to := w.users[r.Intn(len(w.users))]
			msg := disptypes.NewMsgCreateDistribution(usr, disptypes.DistributionType_DISTRIBUTION_TYPE_AIRDROP, []banktypes.Output{banktypes.NewOutput(to, coins)}, usr.String())
			return run("disp.create", msg.ValidateBasic, func(ctx sdk.Context) error {
				_, err := u.dsrv.CreateDistribution(sdk.WrapSDKContext(ctx), &msg)
				return err
			})
		}
		amt := u.amount(r, nil)
		msg := ethtypes.NewMsgLock(1, usr, ethtypes.NewEthereumAddress("0x7B95B6EC7EbD73572298cEf32Bb54FA408207359"), sdk.NewIntFromBigInt(amt), "rowan", sdk.NewInt(int64(r.Intn(3))))
		return run("eth.lock", msg.ValidateBasic, func(ctx sdk.Context) error { _, err := u.esrv.Lock(sdk.WrapSDKContext(ctx), &msg); return err })
	}
}

// hooks: every block hook of the modules the property names, in app.go order; chk per hook.
func (u *userWorld) beginHooks(out *Out, tag string) {
	w := u.World
	chk := func(hook, res string) {
		out.Emit(fmt.Sprintf("chk c10.hook tag=user.%s%s %s h=%d after=%s", hook, tag, boolBit(res == "panic"), w.height, u.lastOp), "true", "chk.hook."+hook, false)
		out.Hist["hook."+hook+"."+res]++
	}
	chk("epochs.begin", w.Hook(func(ctx sdk.Context) { w.app.EpochsKeeper.BeginBlocker(ctx) }))
	chk("mint.begin", w.Hook(func(ctx sdk.Context) { mint.BeginBlocker(ctx, w.app.MintKeeper) }))
	chk("dispensation.begin", w.Hook(func(ctx sdk.Context) { dispensation.BeginBlocker(ctx, w.app.DispensationKeeper) }))
	mres := w.Hook(func(ctx sdk.Context) { w.app.MarginKeeper.BeginBlocker(ctx) })
	if mres == "panic" && os.Getenv("VERIF_DEBUG") != "" {
		for _, p := range w.app.ClpKeeper.GetPools(w.ctx) {
			fmt.Fprintf(os.Stderr, "POOL %s nb=%s eb=%s units=%s nl=%s el=%s lps=%d\n", p.ExternalAsset.Symbol, p.NativeAssetBalance, p.ExternalAssetBalance, p.PoolUnits, p.NativeLiabilities, p.ExternalLiabilities, len(w.LPsOf(p.ExternalAsset.Symbol)))
		}
	}
	chk("margin.begin", mres)
	chk("clp.begin", w.Hook(func(ctx sdk.Context) { clp.BeginBlocker(ctx, w.app.ClpKeeper) }))
}

func (u *userWorld) endHooks(out *Out, tag string) {
	w := u.World
	res := w.Hook(func(ctx sdk.Context) { clp.EndBlocker(ctx, w.app.ClpKeeper) })
	out.Emit(fmt.Sprintf("chk c10.hook tag=user.clp.end%s %s h=%d after=%s", tag, boolBit(res == "panic"), w.height, u.lastOp), "true", "chk.hook.clp.end", false)
	out.Hist["hook.clp.end."+res]++
}

// nextBlock: height + 1 and a block time far enough ahead for the epochs module to end epochs.
func (u *userWorld) nextBlock(r *Rng) {
	u.now = u.now.Add(time.Duration(20+r.Intn(120)) * time.Minute)
	u.height++
	u.ctx = u.ctx.WithBlockHeight(u.height).WithBlockTime(u.now)
}

// directedF16: pool with 1e18 units; a second provider with 0 units; a rewards bucket; the creator
// becomes ineligible by adding liquidity; the epoch ends.
func directedF16(out *Out) {
	out.Emit("reset", "ok", "reset", false)
	r := NewRng(16)
	w := NewWorld([]string{"cusdc"}, []int64{6}, 3)
	u := &userWorld{World: w, now: t0}
	big1 := new(big.Int).Mul(e10(33), big.NewInt(4))
	for _, a := range w.users {
		w.Fund(a, "rowan", big1)
		w.Fund(a, "cusdc", big1)
	}
	A, B := w.users[0], w.users[1]
	asset := clptypes.NewAsset("cusdc")
	w.CreatePool(A, "cusdc", e10(18), e10(24))
	w.Tx(func(ctx sdk.Context) error {
		m := clptypes.NewMsgAddLiquidity(B, asset, sdk.ZeroUint(), sdk.NewUint(1))
		_, err := w.csrv.AddLiquidity(sdk.WrapSDKContext(ctx), &m)
		return err
	})
	w.Tx(func(ctx sdk.Context) error {
		m := clptypes.MsgAddLiquidityToRewardsBucketRequest{Signer: B.String(), Amount: sdk.NewCoins(sdk.NewCoin("cusdc", sdk.NewIntFromBigInt(new(big.Int).Mul(big.NewInt(5), e10(18)))))}
		_, err := w.csrv.AddLiquidityToRewardsBucket(sdk.WrapSDKContext(ctx), &m)
		return err
	})
	rm := &clptypes.MsgUpdateRewardsParamsRequest{Signer: w.admin.String(), LiquidityRemovalLockPeriod: 0, LiquidityRemovalCancelPeriod: 10, RewardsEpochIdentifier: "hour", RewardsLockPeriod: 3}
	w.Tx(func(ctx sdk.Context) error { _, err := w.csrv.UpdateRewardsParams(sdk.WrapSDKContext(ctx), rm); return err })
	for h := int64(2); h <= 12; h++ {
		u.nextBlock(r)
		u.lastOp = "f16"
		u.beginHooks(out, ".zero-unit-providers")
		if h == 10 {
			w.Tx(func(ctx sdk.Context) error {
				m := clptypes.NewMsgAddLiquidity(A, asset, sdk.NewUint(1000), sdk.NewUint(1000000000))
				_, err := w.csrv.AddLiquidity(sdk.WrapSDKContext(ctx), &m)
				return err
			})
		}
		u.endHooks(out, ".zero-unit-providers")
	}
}

// directedDeepPool: the demonstration of seeded change C10-6, literally: default rewards parameters (pool
// mode, hourly epoch, lock period 14 days), a pool created with `native` rowan, one rewards-bucket top-up
// of `bucket` ceth; once the provider is past the lock period an epoch ends and the epoch hook adds the
// reward to the pool (CalculatePoolUnits on the BLOCK context).
func directedDeepPool(out *Out, native, bucket *big.Int, tag string) {
	out.Emit("reset", "ok", "reset", false)
	w := NewWorld([]string{"ceth"}, []int64{18}, 3)
	u := &userWorld{World: w, now: t0}
	lp, donor := w.users[0], w.users[1]
	w.Fund(lp, "rowan", native)
	w.Fund(lp, "ceth", e10(18))
	w.Fund(donor, "ceth", bucket)
	u.lastOp = "deep-pool"
	u.beginHooks(out, tag)
	u.lastOp = "createpool:" + w.CreatePool(lp, "ceth", native, e10(18))
	res := w.Tx(func(ctx sdk.Context) error {
		m := clptypes.MsgAddLiquidityToRewardsBucketRequest{Signer: donor.String(), Amount: sdk.NewCoins(sdk.NewCoin("ceth", sdk.NewIntFromBigInt(bucket)))}
		if err := m.ValidateBasic(); err != nil {
			return err
		}
		_, err := w.csrv.AddLiquidityToRewardsBucket(sdk.WrapSDKContext(ctx), &m)
		return err
	})
	u.lastOp += ",bucket:" + res
	u.endHooks(out, tag)
	// next block, then jump past the rewards lock period (the harness may jump heights) and 15 days ahead
	u.now = u.now.Add(6 * time.Second)
	u.height++
	u.ctx = u.ctx.WithBlockHeight(u.height).WithBlockTime(u.now)
	u.beginHooks(out, tag)
	u.endHooks(out, tag)
	lock := int64(w.app.ClpKeeper.GetRewardsParams(w.ctx).RewardsLockPeriod)
	for i := 0; i < 3; i++ {
		if i == 0 {
			u.height += lock + 10
			u.now = u.now.Add(15 * 24 * time.Hour)
		} else {
			u.height++
			u.now = u.now.Add(61 * time.Minute)
		}
		u.ctx = u.ctx.WithBlockHeight(u.height).WithBlockTime(u.now)
		u.beginHooks(out, tag)
		u.endHooks(out, tag)
	}
	if bk, found := w.app.ClpKeeper.GetRewardsBucket(w.ctx, "ceth"); found {
		out.Hist["deep-pool.bucket-left."+boolBit(!bk.Amount.IsZero())]++
	}
}

// equalProviders: one pool with k providers of EQUAL units (their 18-decimal shares 1/3, 1/6, 1/7, 1/9 round
// up, so the rounded shares overshoot the bucket) plus d dust providers holding 1 unit each, whose addresses
// sort after (dustLast) or before the equal ones in store order; a rewards bucket that is a multiple of
// 10^18; pool mode or wallet mode; everyone past the rewards lock period; the hourly epoch ends.  All
// messages are permissionless except the choice of mode / lock period (reward params inside the envelope;
// with `defaults` the genesis parameters are kept and the height jumps past the 14-day lock period).
func equalProviders(out *Out, r *Rng, k, d int, dustLast, wallet, defaults bool, bucket *big.Int, amount *big.Int, tag string) {
	out.Emit("reset", "ok", "reset", false)
	w := NewWorld([]string{"cusdc"}, []int64{6}, k+d)
	u := &userWorld{World: w, now: t0}
	users := append([]sdk.AccAddress{}, w.users...)
	sort.Slice(users, func(i, j int) bool { return users[i].String() < users[j].String() })
	var bigs, dust []sdk.AccAddress
	if dustLast {
		bigs, dust = users[:k], users[k:]
	} else {
		dust, bigs = users[:d], users[d:]
	}
	funds := new(big.Int).Mul(amount, big.NewInt(4))
	for _, a := range users {
		w.Fund(a, "rowan", funds)
		w.Fund(a, "cusdc", new(big.Int).Add(funds, bucket))
	}
	if !defaults || wallet {
		rp := w.app.ClpKeeper.GetRewardsParams(w.ctx)
		rm := &clptypes.MsgUpdateRewardsParamsRequest{Signer: w.admin.String(), LiquidityRemovalLockPeriod: rp.LiquidityRemovalLockPeriod, LiquidityRemovalCancelPeriod: rp.LiquidityRemovalCancelPeriod,
			RewardsDistribute: wallet, RewardsEpochIdentifier: "hour", RewardsLockPeriod: rp.RewardsLockPeriod}
		if !defaults {
			rm.RewardsLockPeriod = uint64(1 + r.Intn(3))
		}
		w.Tx(func(ctx sdk.Context) error { _, err := w.csrv.UpdateRewardsParams(sdk.WrapSDKContext(ctx), rm); return err })
	}
	asset := clptypes.NewAsset("cusdc")
	u.lastOp = "equal-providers"
	u.beginHooks(out, tag)
	res := w.CreatePool(bigs[0], "cusdc", amount, amount)
	add := func(a sdk.AccAddress, n *big.Int) string {
		return w.Tx(func(ctx sdk.Context) error {
			m := clptypes.NewMsgAddLiquidity(a, asset, sdk.NewUintFromBigInt(n), sdk.NewUintFromBigInt(n))
			if err := m.ValidateBasic(); err != nil {
				return err
			}
			_, err := w.csrv.AddLiquidity(sdk.WrapSDKContext(ctx), &m)
			return err
		})
	}
	for _, a := range bigs[1:] {
		res += "," + add(a, amount)
	}
	for _, a := range dust {
		res += "," + add(a, big.NewInt(1))
	}
	res += ",bucket:" + w.Tx(func(ctx sdk.Context) error {
		m := clptypes.MsgAddLiquidityToRewardsBucketRequest{Signer: bigs[0].String(), Amount: sdk.NewCoins(sdk.NewCoin("cusdc", sdk.NewIntFromBigInt(bucket)))}
		if err := m.ValidateBasic(); err != nil {
			return err
		}
		_, err := w.csrv.AddLiquidityToRewardsBucket(sdk.WrapSDKContext(ctx), &m)
		return err
	})
	u.lastOp = fmt.Sprintf("equal-providers(k=%d,d=%d,dustLast=%s,wallet=%s,bucket=%s):%s", k, d, boolBit(dustLast), boolBit(wallet), bucket, res)
	u.endHooks(out, tag)
	lock := int64(w.app.ClpKeeper.GetRewardsParams(w.ctx).RewardsLockPeriod)
	for i := 0; i < 3; i++ {
		if i == 0 {
			u.height += lock + 10
			u.now = u.now.Add(15 * 24 * time.Hour)
		} else {
			u.height++
			u.now = u.now.Add(61 * time.Minute)
		}
		u.ctx = u.ctx.WithBlockHeight(u.height).WithBlockTime(u.now)
		u.beginHooks(out, tag)
		u.endHooks(out, tag)
	}
	if bk, found := w.app.ClpKeeper.GetRewardsBucket(w.ctx, "cusdc"); found {
		out.Hist["equal-providers.bucket-left."+boolBit(!bk.Amount.IsZero())]++
	}
}

func init() {
	families["userhist"] = func(rng *Rng, n int, out *Out, replay string) {
		// the demonstration of seeded change C10-10: six equal providers, a dust provider sorting last, bucket 6·10^18
		for _, wallet := range []bool{false, true} {
			equalProviders(out, NewRng(rng.U64()), 6, 1, true, wallet, true, new(big.Int).Mul(big.NewInt(6), e10(18)), e10(24), ".equal-providers.6+dust."+map[bool]string{false: "pool", true: "wallet"}[wallet])
		}
		directedF16(out)
		directedDeepPool(out, pow2(128), pow2(128), ".deep-pool.2p128")
		directedDeepPool(out, sub1(pow2(128)), sub1(pow2(128)), ".deep-pool.2p128m1")
		directedDeepPool(out, pow2(128), new(big.Int).Lsh(big.NewInt(3), 128), ".deep-pool.3x2p128")
		for sc := 0; sc < n; sc++ {
			r := NewRng(rng.U64())
			if sc%10 == 4 {
				k := []int{3, 6, 7, 9, 5, 8}[r.Intn(6)]
				m := []int64{1, 6, 7, 9, 10, 3, 100}[r.Intn(7)]
				amt := []*big.Int{e10(24), e10(18), pow2(100), e10(21)}[r.Intn(4)]
				equalProviders(out, r, k, 1+r.Intn(2), r.Bool(), r.Bool(), r.Chance(1, 4), new(big.Int).Mul(big.NewInt(m), e10(18)), amt, ".equal-providers")
				continue
			}
			out.Emit("reset", "ok", "reset", false)
			var u *userWorld
			if sc%3 == 1 {
				u = newDeepUserWorld(r)
			} else {
				u = newUserWorld(r)
			}
			u.envelopeConfig(r)
			blocks := 12 + r.Intn(20)
			for b := 0; b < blocks; b++ {
				u.nextBlock(r)
				u.beginHooks(out, "")
				for i := 0; i < 1+r.Intn(5); i++ {
					cls := u.userOp(r)
					out.Hist["tx."+u.lastOp+"."+cls]++
					if os.Getenv("VERIF_DEBUG") != "" {
						fmt.Fprintf(os.Stderr, "OP sc=%d h=%d %s %s\n", sc, u.height, u.lastOp, cls)
					}
				}
				u.endHooks(out, "")
			}
		}
	}
}
