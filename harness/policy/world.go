package main

// L1 set-up of the `policy` group (C10): the real SifchainApp (sifapp.Setup), the real clp message
// server, the real clp BeginBlocker / EndBlocker called at chosen heights under recover().
// Transactions run on a cached context that is written only on success (baseapp's discipline);
// block hooks run directly on the block context WITHOUT rollback (as in the real chain) unless the
// caller asks for a dry run.

import (
	"fmt"
	"math/big"
	"os"
	"runtime/debug"
	"sort"
	"time"

	sifapp "github.com/Sifchain/sifnode/app"
	admintypes "github.com/Sifchain/sifnode/x/admin/types"
	"github.com/Sifchain/sifnode/x/clp"
	clpkeeper "github.com/Sifchain/sifnode/x/clp/keeper"
	clptypes "github.com/Sifchain/sifnode/x/clp/types"
	tokenregistrytypes "github.com/Sifchain/sifnode/x/tokenregistry/types"
	sdk "github.com/cosmos/cosmos-sdk/types"
	tmproto "github.com/tendermint/tendermint/proto/tendermint/types"
)

type World struct {
	app    *sifapp.SifchainApp
	ctx    sdk.Context // block context (height = current block)
	csrv   clptypes.MsgServer
	admin  sdk.AccAddress
	users  []sdk.AccAddress
	denoms []string // external assets with a registry entry
	decs   map[string]int64
	height int64
}

func addrOf(i int) sdk.AccAddress {
	b := make([]byte, 20)
	for k := range b {
		b[k] = byte(0x11*(i+1) + k)
	}
	return sdk.AccAddress(b)
}

var t0 = time.Unix(1700000000, 0).UTC()

// NewWorld builds a chain at height 1 with an administrator holding both AMM admin roles,
// `nUsers` funded users and registry entries for the given external denoms.
func NewWorld(denoms []string, decimals []int64, nUsers int) *World {
	sifapp.SetConfig(false)
	app := sifapp.Setup(false)
	w := &World{app: app, denoms: denoms, decs: map[string]int64{}, height: 1}
	w.ctx = app.BaseApp.NewContext(false, tmproto.Header{Height: 1, Time: t0})
	w.csrv = clpkeeper.NewMsgServerImpl(app.ClpKeeper)
	perms := []tokenregistrytypes.Permission{tokenregistrytypes.Permission_CLP, tokenregistrytypes.Permission_IBCEXPORT, tokenregistrytypes.Permission_IBCIMPORT}
	app.TokenRegistryKeeper.SetToken(w.ctx, &tokenregistrytypes.RegistryEntry{Denom: "rowan", BaseDenom: "rowan", Decimals: 18, Permissions: perms})
	for i, d := range denoms {
		app.TokenRegistryKeeper.SetToken(w.ctx, &tokenregistrytypes.RegistryEntry{Denom: d, BaseDenom: d, Decimals: decimals[i], Permissions: perms})
		w.decs[d] = decimals[i]
	}
	w.admin = addrOf(100)
	for _, t := range []admintypes.AdminType{admintypes.AdminType_CLPDEX, admintypes.AdminType_PMTPREWARDS, admintypes.AdminType_ADMIN} {
		app.AdminKeeper.SetAdminAccount(w.ctx, &admintypes.AdminAccount{AdminType: t, AdminAddress: w.admin.String()})
	}
	for i := 0; i < nUsers; i++ {
		w.users = append(w.users, addrOf(i))
	}
	return w
}

func (w *World) Fund(a sdk.AccAddress, denom string, amt *big.Int) {
	coins := sdk.NewCoins(sdk.NewCoin(denom, sdk.NewIntFromBigInt(amt)))
	if err := w.app.BankKeeper.MintCoins(w.ctx, clptypes.ModuleName, coins); err != nil {
		panic(err)
	}
	if err := w.app.BankKeeper.SendCoinsFromModuleToAccount(w.ctx, clptypes.ModuleName, a, coins); err != nil {
		panic(err)
	}
}

// SetHeight moves the block context to height h (L1 may jump; L2 families walk).
func (w *World) SetHeight(h int64) {
	w.height = h
	w.ctx = w.ctx.WithBlockHeight(h).WithBlockTime(t0.Add(time.Duration(h%1000000) * 6 * time.Second))
}

// Tx runs f on a cached context and writes it only on success; a Go panic is a failed transaction
// (baseapp.runTx recovers it) and leaves no trace.
func (w *World) Tx(f func(ctx sdk.Context) error) (res string) {
	cctx, write := w.ctx.CacheContext()
	defer func() {
		if r := recover(); r != nil {
			if os.Getenv("VERIF_DEBUG") == "tx" {
				fmt.Fprintf(os.Stderr, "TX PANIC h=%d: %v\n%s\n", w.height, r, debug.Stack())
			}
			res = "panic"
		}
	}()
	if err := f(cctx); err != nil {
		return "err"
	}
	write()
	return "ok"
}

// Hook runs a block hook on the block context under recover(): "ok" or "panic".  A hook is not
// atomic on the real chain; for the harness a panicking hook is run on a cache that is discarded
// so that the scenario can go on observing (the real chain would have halted — that is the
// property violation, reported through the `chk` line).
func (w *World) Hook(f func(ctx sdk.Context)) (res string) {
	cctx, write := w.ctx.CacheContext()
	defer func() {
		if r := recover(); r != nil {
			if os.Getenv("VERIF_DEBUG") != "" {
				fmt.Fprintf(os.Stderr, "HOOK PANIC h=%d: %v\n%s\n", w.height, r, debug.Stack())
			}
			res = "panic"
		}
	}()
	f(cctx)
	write()
	return "ok"
}

func (w *World) ClpBegin() string {
	return w.Hook(func(ctx sdk.Context) { clp.BeginBlocker(ctx, w.app.ClpKeeper) })
}
func (w *World) ClpEnd() string {
	return w.Hook(func(ctx sdk.Context) { clp.EndBlocker(ctx, w.app.ClpKeeper) })
}

func (w *World) CreatePool(u sdk.AccAddress, denom string, native, external *big.Int) string {
	return w.Tx(func(ctx sdk.Context) error {
		msg := clptypes.NewMsgCreatePool(u, clptypes.NewAsset(denom), sdk.NewUintFromBigInt(native), sdk.NewUintFromBigInt(external))
		if err := msg.ValidateBasic(); err != nil {
			return err
		}
		_, err := w.csrv.CreatePool(sdk.WrapSDKContext(ctx), &msg)
		return err
	})
}

// ---- canonical observations -------------------------------------------------------------

func (w *World) Pools() []*clptypes.Pool {
	ps := w.app.ClpKeeper.GetPools(w.ctx)
	return ps
}

// LPsOf returns the providers of one pool in store (key) order.
func (w *World) LPsOf(symbol string) []*clptypes.LiquidityProvider {
	all, err := w.app.ClpKeeper.GetAllLiquidityProviders(w.ctx)
	if err != nil {
		return nil
	}
	var out []*clptypes.LiquidityProvider
	for _, lp := range all {
		if lp.Asset != nil && lp.Asset.Symbol == symbol {
			out = append(out, lp)
		}
	}
	return out
}

func sortedKeys(m map[string]int) []string {
	ks := make([]string, 0, len(m))
	for k := range m {
		ks = append(ks, k)
	}
	sort.Strings(ks)
	return ks
}

func u2s(u sdk.Uint) string {
	if u.BigInt() == nil {
		return "0"
	}
	return u.String()
}

func d2s(d sdk.Dec) string {
	if d.IsNil() {
		return "0"
	}
	return d.BigInt().String()
}

func boolBit(b bool) string {
	if b {
		return "1"
	}
	return "0"
}

var _ = fmt.Sprintf
