package main

// family "confine" (C10 family 1, L2): the full SifchainApp driven through BeginBlock / DeliverTx /
// EndBlock / Commit with really signed transactions.  A user message that PANICS in its handler
// (found by the L1 histories: a one-sided AddLiquidity for more than the signer holds indexes
// coins[1] of a one-element sdk.Coins) must be confined: DeliverTx returns an error result and the
// block commits to the same app hash as a twin chain on which the same signer, with the same fee,
// sent a message that simply fails.  Then both chains must go on: BeginBlock / EndBlock under recover().
//
//   chk c10.confined tag=user.tx.<kind> <txPanicked> <errReturned> <hashEqual> …
//   chk c10.hook tag=l2.<begin|end>.after-panic <panicked> …

import (
	"encoding/hex"
	"fmt"
	"math/big"
	"math/rand"
	"time"

	sifapp "github.com/Sifchain/sifnode/app"
	clptypes "github.com/Sifchain/sifnode/x/clp/types"
	tokenregistrytypes "github.com/Sifchain/sifnode/x/tokenregistry/types"
	codectypes "github.com/cosmos/cosmos-sdk/codec/types"
	"github.com/cosmos/cosmos-sdk/crypto/keys/secp256k1"
	cryptotypes "github.com/cosmos/cosmos-sdk/crypto/types"
	"github.com/cosmos/cosmos-sdk/simapp/helpers"
	sdk "github.com/cosmos/cosmos-sdk/types"
	authtypes "github.com/cosmos/cosmos-sdk/x/auth/types"
	banktypes "github.com/cosmos/cosmos-sdk/x/bank/types"
	stakingtypes "github.com/cosmos/cosmos-sdk/x/staking/types"
	abci "github.com/tendermint/tendermint/abci/types"
	tmproto "github.com/tendermint/tendermint/proto/tendermint/types"
)

var encCfg = sifapp.MakeTestEncodingConfig()

type l2 struct {
	app    *sifapp.SifchainApp
	privs  []cryptotypes.PrivKey
	addrs  []sdk.AccAddress
	height int64
	now    time.Time
	r      *rand.Rand
}

func newL2(nAcc int) *l2 {
	sifapp.SetConfig(false)
	c := &l2{r: rand.New(rand.NewSource(7)), now: t0}
	for i := 0; i < nAcc; i++ {
		p := secp256k1.GenPrivKeyFromSecret([]byte(fmt.Sprintf("verif-c10-%d", i)))
		c.privs = append(c.privs, p)
		c.addrs = append(c.addrs, sdk.AccAddress(p.PubKey().Address()))
	}
	fund := new(big.Int).Mul(e10(30), big.NewInt(1))
	c.app = sifapp.SetupFromGenesis(false, func(app *sifapp.SifchainApp, gs sifapp.GenesisState) sifapp.GenesisState {
		cdc := app.AppCodec()
		var auth authtypes.GenesisState
		cdc.MustUnmarshalJSON(gs[authtypes.ModuleName], &auth)
		var bank banktypes.GenesisState
		cdc.MustUnmarshalJSON(gs[banktypes.ModuleName], &bank)
		for i, a := range c.addrs {
			acc := authtypes.NewBaseAccount(a, nil, uint64(i), 0)
			any, err := codectypes.NewAnyWithValue(acc)
			if err != nil {
				panic(err)
			}
			auth.Accounts = append(auth.Accounts, any)
			coins := sdk.NewCoins(sdk.NewCoin("rowan", sdk.NewIntFromBigInt(fund)), sdk.NewCoin("cusdc", sdk.NewIntFromBigInt(e10(15))))
			bank.Balances = append(bank.Balances, banktypes.Balance{Address: a.String(), Coins: coins})
			bank.Supply = bank.Supply.Add(coins...)
		}
		gs[authtypes.ModuleName] = cdc.MustMarshalJSON(&auth)
		gs[banktypes.ModuleName] = cdc.MustMarshalJSON(&bank)
		var st stakingtypes.GenesisState
		cdc.MustUnmarshalJSON(gs[stakingtypes.ModuleName], &st)
		st.Params.BondDenom = "rowan"
		gs[stakingtypes.ModuleName] = cdc.MustMarshalJSON(&st)
		var tr tokenregistrytypes.GenesisState
		perms := []tokenregistrytypes.Permission{tokenregistrytypes.Permission_CLP, tokenregistrytypes.Permission_IBCEXPORT, tokenregistrytypes.Permission_IBCIMPORT}
		tr.Registry = &tokenregistrytypes.Registry{Entries: []*tokenregistrytypes.RegistryEntry{
			{Denom: "rowan", BaseDenom: "rowan", Decimals: 18, Permissions: perms},
			{Denom: "cusdc", BaseDenom: "cusdc", Decimals: 6, Permissions: perms},
		}}
		gs[tokenregistrytypes.ModuleName] = cdc.MustMarshalJSON(&tr)
		return gs
	})
	c.app.Commit()
	c.height = 1
	return c
}

func (c *l2) header() tmproto.Header { return tmproto.Header{Height: c.height, Time: c.now} }
func (c *l2) dctx() sdk.Context      { return c.app.BaseApp.NewContext(false, c.header()) }

func protectB(f func()) (res string) {
	defer func() {
		if r := recover(); r != nil {
			res = "panic"
		}
	}()
	f()
	return "ok"
}

func (c *l2) begin() string {
	c.height++
	c.now = c.now.Add(70 * time.Minute)
	return protectB(func() { c.app.BeginBlock(abci.RequestBeginBlock{Header: c.header()}) })
}

// end returns ("ok"|"panic", app hash)
func (c *l2) end() (string, string) {
	var hash []byte
	res := protectB(func() {
		c.app.EndBlock(abci.RequestEndBlock{Height: c.height})
		hash = c.app.Commit().Data
	})
	return res, hex.EncodeToString(hash)
}

func (c *l2) deliver(signer int, msgs []sdk.Msg, fee *big.Int) abci.ResponseDeliverTx {
	acc := c.app.AccountKeeper.GetAccount(c.dctx(), c.addrs[signer])
	tx, err := helpers.GenSignedMockTx(c.r, encCfg.TxConfig, msgs, sdk.NewCoins(sdk.NewCoin("rowan", sdk.NewIntFromBigInt(fee))), 3000000, "",
		[]uint64{acc.GetAccountNumber()}, []uint64{acc.GetSequence()}, c.privs[signer])
	if err != nil {
		panic(err)
	}
	bz, err := encCfg.TxConfig.TxEncoder()(tx)
	if err != nil {
		panic(err)
	}
	return c.app.DeliverTx(abci.RequestDeliverTx{Tx: bz})
}

const codePanic = 111222 // sdkerrors.ErrPanic ("undefined" codespace): baseapp's recovered panic

func isPanicRes(r abci.ResponseDeliverTx) bool { return r.Codespace == "undefined" && r.Code == codePanic }

func init() {
	families["confine"] = func(rng *Rng, n int, out *Out, replay string) {
		fee := new(big.Int).Mul(e10(17), big.NewInt(5))
		// twin chains with the same history
		A, B := newL2(4), newL2(4)
		asset := clptypes.NewAsset("cusdc")
		setup := func(c *l2) {
			c.begin()
			m := clptypes.NewMsgCreatePool(c.addrs[0], asset, sdk.NewUintFromBigInt(e10(24)), sdk.NewUintFromBigInt(e10(12)))
			r := c.deliver(0, []sdk.Msg{&m}, fee)
			if r.Code != 0 {
				panic("create pool failed: " + r.Log)
			}
			c.end()
		}
		setup(A)
		setup(B)
		for k := 0; k < n; k++ {
			r := NewRng(rng.U64())
			out.Emit("reset", "ok", "reset", false)
			signer := 1 + r.Intn(3)
			// the panicking message: one-sided add for more than the signer holds
			var amt *big.Int
			switch r.Intn(4) {
			case 0:
				amt = pow2(128)
			case 1:
				amt = add1(pow2(64))
			case 2:
				amt = new(big.Int).Add(e10(15), big.NewInt(int64(1+r.Intn(1000)))) // just above the balance
			default:
				amt = new(big.Int).Add(e10(16), r.Amount(100))
			}
			kind := "addliq.onesided.external"
			bad := clptypes.NewMsgAddLiquidity(A.addrs[signer], asset, sdk.ZeroUint(), sdk.NewUintFromBigInt(amt))
			if r.Chance(1, 3) {
				kind = "addliq.onesided.native"
				bad = clptypes.NewMsgAddLiquidity(A.addrs[signer], asset, sdk.NewUintFromBigInt(new(big.Int).Mul(e10(31), big.NewInt(int64(1+r.Intn(9))))), sdk.ZeroUint())
			}
			// the twin's message: fails with an ordinary error (no such pool)
			plain := clptypes.NewMsgAddLiquidity(B.addrs[signer], clptypes.NewAsset("cnopool"), sdk.NewUint(1), sdk.NewUint(1))
			// some ordinary traffic on both chains first
			swapAmt := r.Amount(60)
			swap := clptypes.NewMsgSwap(A.addrs[0], clptypes.GetSettlementAsset(), asset, sdk.NewUintFromBigInt(swapAmt), sdk.ZeroUint())
			ba, bb := A.begin(), B.begin()
			ra0, rb0 := A.deliver(0, []sdk.Msg{&swap}, fee), B.deliver(0, []sdk.Msg{&swap}, fee)
			ra, rb := A.deliver(signer, []sdk.Msg{&bad}, fee), B.deliver(signer, []sdk.Msg{&plain}, fee)
			ea, ha := A.end()
			eb, hb := B.end()
			out.Hist[fmt.Sprintf("swap.code.%d.%d", min1(ra0.Code), min1(rb0.Code))]++
			out.Hist[fmt.Sprintf("bad.%s.%d", ra.Codespace, ra.Code)]++
			out.Hist[fmt.Sprintf("plain.%s.%d", rb.Codespace, rb.Code)]++
			out.Emit(fmt.Sprintf("chk c10.confined tag=user.tx.%s %s %s %s h=%d signer=%d amount=%s hashA=%s hashB=%s", kind, boolBit(isPanicRes(ra)), boolBit(ra.Code != 0),
				boolBit(ha == hb && rb.Code != 0 && !isPanicRes(rb)), A.height, signer, amt, ha, hb), "true", "chk.confined", true)
			out.Emit(fmt.Sprintf("chk c10.hook tag=l2.begin.after-panic %s h=%d", boolBit(ba == "panic" || bb == "panic"), A.height), "true", "chk.hook.l2.begin", false)
			out.Emit(fmt.Sprintf("chk c10.hook tag=l2.end.after-panic %s h=%d", boolBit(ea == "panic" || eb == "panic"), A.height), "true", "chk.hook.l2.end", false)
			if ba == "panic" || bb == "panic" || ea == "panic" || eb == "panic" {
				return // the chains are dead
			}
		}
	}
}

func min1(c uint32) int {
	if c == 0 {
		return 0
	}
	return 1
}
