package main

// family "policy" (C10 family 2, L1): per scenario a fresh chain with pools, providers and a
// baseline of valid policies; ONE generated admin message with extreme fields goes through the
// real ValidateBasic + message server; then the real clp BeginBlocker / EndBlocker (and the other
// modules' block hooks) run for at least one full policy period with user traffic, each hook call
// under recover().
//
//   bb …   clp BeginBlocker: the state slice it reads, the implementation's resulting state
//          (or `panic`) — the Lean model must reproduce it                     (correspondence)
//   eb …   clp EndBlocker likewise
//   adm …  the message and the implementation's verdict; the model answers `consistent` unless
//          the code accepted what the model's `accepts` rejects                (one-directional)
//   chk c10.safe tag=<hook>.<kind>.<shape> <accepted> <panicked> …  the property itself, judged
//          by the Lean predicate: an accepted message is never followed by a panicking hook

import (
	"fmt"
	"math"
	"math/big"
	"strings"

	"github.com/Sifchain/sifnode/x/clp"
	clptypes "github.com/Sifchain/sifnode/x/clp/types"
	"github.com/Sifchain/sifnode/x/dispensation"
	sdk "github.com/cosmos/cosmos-sdk/types"
	"github.com/cosmos/cosmos-sdk/x/mint"
)

func e10(k int) *big.Int { return new(big.Int).Exp(big.NewInt(10), big.NewInt(int64(k)), nil) }

// policyWorld: 2–3 pools with random depths inside the envelope, a few providers each.
func policyWorld(r *Rng) *World {
	denoms := []string{"cusdc", "ceth", "cdash"}
	decs := []int64{6, 18, int64(r.Intn(20))}
	np := 2 + r.Intn(2)
	w := NewWorld(denoms[:np], decs[:np], 4)
	big1 := new(big.Int).Mul(e10(33), big.NewInt(4))
	for _, u := range w.users {
		w.Fund(u, "rowan", big1)
		for _, d := range w.denoms {
			w.Fund(u, d, big1)
		}
	}
	for i, d := range w.denoms {
		native := new(big.Int).Add(e10(18), r.Amount(100))
		ext := r.Amount(100)
		if ext.Sign() == 0 {
			ext = big.NewInt(1)
		}
		if w.CreatePool(w.users[i%len(w.users)], d, native, ext) != "ok" {
			w.CreatePool(w.users[i%len(w.users)], d, e10(24), e10(12))
		}
		for j := 0; j < 1+r.Intn(3); j++ {
			w.UserOp(r, d)
		}
	}
	return w
}

// UserOp: one random permissionless AMM message on pool `d` (result ignored: traffic).
func (w *World) UserOp(r *Rng, d string) string {
	u := w.users[r.Intn(len(w.users))]
	asset := clptypes.NewAsset(d)
	native := clptypes.GetSettlementAsset()
	switch r.Intn(5) {
	case 0, 1:
		sent, recv := native, asset
		if r.Bool() {
			sent, recv = asset, native
		}
		msg := clptypes.NewMsgSwap(u, sent, recv, sdk.NewUintFromBigInt(r.Amount(90)), sdk.ZeroUint())
		return w.Tx(func(ctx sdk.Context) error {
			if err := msg.ValidateBasic(); err != nil {
				return err
			}
			_, err := w.csrv.Swap(sdk.WrapSDKContext(ctx), &msg)
			return err
		})
	case 2, 3:
		msg := clptypes.NewMsgAddLiquidity(u, asset, sdk.NewUintFromBigInt(r.Amount(95)), sdk.NewUintFromBigInt(r.Amount(95)))
		if r.Chance(1, 4) {
			msg.NativeAssetAmount = sdk.ZeroUint()
		}
		return w.Tx(func(ctx sdk.Context) error {
			if err := msg.ValidateBasic(); err != nil {
				return err
			}
			_, err := w.csrv.AddLiquidity(sdk.WrapSDKContext(ctx), &msg)
			return err
		})
	default:
		msg := clptypes.NewMsgRemoveLiquidity(u, asset, sdk.NewInt(int64(1+r.Intn(10000))), sdk.NewInt(int64(r.Intn(20001)-10000)))
		return w.Tx(func(ctx sdk.Context) error {
			if err := msg.ValidateBasic(); err != nil {
				return err
			}
			_, err := w.csrv.RemoveLiquidity(sdk.WrapSDKContext(ctx), &msg)
			return err
		})
	}
}

// powEnv recomputes the float pipeline of PolicyStart for the given params (environment value of
// the model): the Dec it would store, or "x" if NewDecFromStr fails / anything panics.
func powEnv(p *clptypes.PmtpParams) string {
	return protectS(func() string {
		if p.PmtpPeriodEpochLength == 0 {
			return "x"
		}
		numBlocks := p.PmtpPeriodEndBlock - p.PmtpPeriodStartBlock + 1
		numEpochs := numBlocks / p.PmtpPeriodEpochLength
		base := sdk.NewDec(1).Add(p.PmtpPeriodGovernanceRate).MustFloat64()
		pw := float64(numEpochs) / float64(numBlocks)
		rate := math.Pow(base, pw) - 1
		d, err := sdk.NewDecFromStr(fmt.Sprintf("%.18f", rate))
		if err != nil {
			return "x"
		}
		return d2s(d)
	}, "x")
}

func protectS(f func() string, onPanic string) (res string) {
	defer func() {
		if r := recover(); r != nil {
			res = onPanic
		}
	}()
	return f()
}

// bbLine dumps what the clp BeginBlocker reads.
func (w *World) bbLine() string {
	k := w.app.ClpKeeper
	lpp := k.GetLiquidityProtectionParams(w.ctx)
	lpr := k.GetLiquidityProtectionRateParams(w.ctx)
	pp := k.GetPmtpParams(w.ctx)
	ep := k.GetPmtpEpoch(w.ctx)
	rp := k.GetPmtpRateParams(w.ctx)
	var sb strings.Builder
	fmt.Fprintf(&sb, "bb %d %s %s %s %d %d %d %d %s %d %d %s %s %s %s", w.height, boolBit(lpp.IsActive), u2s(lpp.MaxRowanLiquidityThreshold),
		u2s(lpr.CurrentRowanLiquidityThreshold), lpp.EpochLength, pp.PmtpPeriodStartBlock, pp.PmtpPeriodEndBlock, pp.PmtpPeriodEpochLength,
		d2s(pp.PmtpPeriodGovernanceRate), ep.EpochCounter, ep.BlockCounter, d2s(rp.PmtpPeriodBlockRate), d2s(rp.PmtpCurrentRunningRate),
		d2s(rp.PmtpInterPolicyRate), powEnv(pp))
	pools := k.GetPools(w.ctx)
	fmt.Fprintf(&sb, " %d", len(pools))
	for _, p := range pools {
		dec, err := k.GetAssetDecimals(w.ctx, *p.ExternalAsset)
		fmt.Fprintf(&sb, " %s %s %s %s %s %d", u2s(p.NativeAssetBalance), u2s(p.ExternalAssetBalance), u2s(p.NativeLiabilities), u2s(p.ExternalLiabilities), boolBit(err == nil), dec)
	}
	return sb.String()
}

// bbAns dumps what the clp BeginBlocker wrote.
func (w *World) bbAns(before []*clptypes.Pool) string {
	k := w.app.ClpKeeper
	lpr := k.GetLiquidityProtectionRateParams(w.ctx)
	ep := k.GetPmtpEpoch(w.ctx)
	rp := k.GetPmtpRateParams(w.ctx)
	var sb strings.Builder
	fmt.Fprintf(&sb, "ok %s %d %d %s %s %s", u2s(lpr.CurrentRowanLiquidityThreshold), ep.EpochCounter, ep.BlockCounter, d2s(rp.PmtpPeriodBlockRate),
		d2s(rp.PmtpCurrentRunningRate), d2s(rp.PmtpInterPolicyRate))
	for _, p := range k.GetPools(w.ctx) {
		if _, err := k.GetAssetDecimals(w.ctx, *p.ExternalAsset); err != nil {
			sb.WriteString(" | -")
			continue
		}
		pn, pe := "0", "0"
		if p.SwapPriceNative != nil {
			pn = d2s(*p.SwapPriceNative)
		}
		if p.SwapPriceExternal != nil {
			pe = d2s(*p.SwapPriceExternal)
		}
		fmt.Fprintf(&sb, " | %s %s", pn, pe)
	}
	return sb.String()
}

type tracked struct {
	m        *AdminMsg
	accepted bool
}

func (t *tracked) tag(hook string) string {
	return fmt.Sprintf("%s.%s.%s", hook, t.m.kind, t.m.shape)
}

// runBlock: one block at the current height: hooks of the modules in app.go order (epochs, mint,
// dispensation, margin, clp begin; then txs; clp end, margin end).  Emits bb/eb and chk lines.
func (w *World) runBlock(r *Rng, out *Out, t *tracked, traffic int, during func()) {
	chk := func(hook, res string) {
		out.Emit(fmt.Sprintf("chk c10.safe tag=%s %s %s h=%d %s %s", t.tag(hook), boolBit(t.accepted), boolBit(res == "panic"), w.height, t.m.kind, t.m.desc), "true", "chk.safe."+hook, false)
	}
	chk("epochs.begin", w.Hook(func(ctx sdk.Context) { w.app.EpochsKeeper.BeginBlocker(ctx) }))
	chk("mint.begin", w.Hook(func(ctx sdk.Context) { mint.BeginBlocker(ctx, w.app.MintKeeper) }))
	chk("dispensation.begin", w.Hook(func(ctx sdk.Context) { dispensation.BeginBlocker(ctx, w.app.DispensationKeeper) }))
	chk("margin.begin", w.Hook(func(ctx sdk.Context) { w.app.MarginKeeper.BeginBlocker(ctx) }))
	// the invariants the theorems assume, evaluated on the implementation's state (when cheap enough)
	pp := w.app.ClpKeeper.GetPmtpParams(w.ctx)
	ep := w.app.ClpKeeper.GetPmtpEpoch(w.ctx)
	nb := pp.PmtpPeriodEndBlock - pp.PmtpPeriodStartBlock + 1
	inside := pp.PmtpPeriodStartBlock < w.height && w.height <= pp.PmtpPeriodEndBlock
	if (!inside || (nb > 0 && nb <= 4096)) {
		out.Emit(fmt.Sprintf("inv %d %s %s", w.height, w.lpState(), w.pmState()), "holds", "inv", false)
	}
	starting := w.height == pp.PmtpPeriodStartBlock && ep.EpochCounter == 0 && ep.BlockCounter == 0
	// clp BeginBlocker with differential line
	line := w.bbLine()
	res := w.Hook(func(ctx sdk.Context) { clp.BeginBlocker(ctx, w.app.ClpKeeper) })
	if starting && res == "ok" && nb > 0 && nb <= 4096 {
		rp := w.app.ClpKeeper.GetPmtpRateParams(w.ctx)
		out.Emit(fmt.Sprintf("powenv %d %d %d %s %s", pp.PmtpPeriodStartBlock, pp.PmtpPeriodEndBlock, pp.PmtpPeriodEpochLength, d2s(pp.PmtpPeriodGovernanceRate), d2s(rp.PmtpPeriodBlockRate)), "holds", "powenv", true)
	}
	ans := "panic"
	if res == "ok" {
		ans = w.bbAns(nil)
	}
	out.Emit(line, ans, "bb."+res, true)
	chk("clp.begin", res)
	// transactions
	for i := 0; i < traffic; i++ {
		cls := w.UserOp(r, w.denoms[r.Intn(len(w.denoms))])
		out.Hist["user."+cls]++
	}
	if during != nil {
		during()
	}
	// the permissionless write to the liquidity-protection state (what a swap does), on a discarded branch
	{
		sell := r.Bool()
		var v *big.Int
		cur := w.app.ClpKeeper.GetLiquidityProtectionRateParams(w.ctx).CurrentRowanLiquidityThreshold.BigInt()
		if r.Bool() {
			v = r.Near(cur)
		} else {
			v = r.AdvAmount(cur)
		}
		if v.BitLen() > 250 { // keep CalcRowanValue(v, 1) = v (its Dec product must fit 315 bits)
			v = sub1(pow2(250))
		}
		line := fmt.Sprintf("lpu %s %s %s", w.lpState(), boolBit(sell), v)
		cctx, _ := w.ctx.CacheContext()
		ans := protect(func() string {
			w.app.ClpKeeper.MustUpdateLiquidityProtectionThreshold(cctx, sell, sdk.NewUintFromBigInt(v), sdk.OneDec())
			return "ok " + u2s(w.app.ClpKeeper.GetLiquidityProtectionRateParams(cctx).CurrentRowanLiquidityThreshold)
		})
		out.Emit(line, ans, "lpu."+ans[:2], true)
	}
	// clp EndBlocker
	eline := w.ebLine()
	res = w.Hook(func(ctx sdk.Context) { clp.EndBlocker(ctx, w.app.ClpKeeper) })
	ans = "panic"
	if res == "ok" {
		ans = w.ebAns()
	}
	out.Emit(eline, ans, "eb."+res, true)
	chk("clp.end", res)
}

// baseline: valid policies so that the hooks do real work before/after the message under test.
func (w *World) baseline(r *Rng) {
	for _, kind := range []int{3, 6, 4, 1, 5} {
		if r.Chance(2, 3) {
			m := w.GenAdmin(r, kind, true)
			w.Submit(m)
		}
	}
}

// horizon: heights to visit after the message was submitted at height h0: a consecutive run (covers
// every short policy period completely) and the boundary heights of long periods (L1 may jump).
func (w *World) horizon(h0 int64, r *Rng) []int64 {
	k := w.app.ClpKeeper
	hs := map[int64]bool{}
	for h := h0 + 1; h <= h0+14; h++ {
		hs[h] = true
	}
	addAround := func(x int64) {
		for d := int64(-1); d <= 1; d++ {
			v := x + d
			if v > h0 && v > 0 && v < math.MaxInt64-2 {
				hs[v] = true
			}
		}
	}
	pp := k.GetPmtpParams(w.ctx)
	addAround(pp.PmtpPeriodStartBlock)
	addAround(pp.PmtpPeriodEndBlock)
	for _, p := range k.GetRewardsParams(w.ctx).RewardPeriods {
		addAround(int64(p.RewardPeriodStartBlock))
		addAround(int64(p.RewardPeriodEndBlock))
	}
	if pd := k.GetProviderDistributionParams(w.ctx); pd != nil {
		for _, p := range pd.DistributionPeriods {
			addAround(int64(p.DistributionPeriodStartBlock))
			addAround(int64(p.DistributionPeriodEndBlock))
		}
	}
	var out []int64
	for h := range hs {
		out = append(out, h)
	}
	sortI64(out)
	return out
}

func sortI64(a []int64) {
	for i := 1; i < len(a); i++ {
		for j := i; j > 0 && a[j-1] > a[j]; j-- {
			a[j-1], a[j] = a[j], a[j-1]
		}
	}
}

func init() {
	families["policy"] = func(rng *Rng, n int, out *Out, replay string) {
		// sequences of accepted messages: the seeded-change demonstration literally, then random plans
		runSequence(NewRng(rng.U64()), out, directedSeqPlan(), false)
		runSequence(NewRng(rng.U64()), out, directedKeptRatePlan(), false)
		runLpSequence(NewRng(rng.U64()), out, directedLpPlan(), "off.cur-gt-max.on-same-max")
		for sc := -nDirected; sc < n; sc++ {
			r := NewRng(rng.U64())
			if sc >= 0 && sc%20 == 13 {
				runLpSequence(r, out, randomLpPlan(r), "toggle")
				continue
			}
			if sc >= 0 && sc%40 == 7 {
				runSequence(r, out, randomSeqPlan(r), true)
				continue
			}
			out.Emit("reset", "ok", "reset", false) // a new history: bin/check reports the first failure of each predicate per history
			w := policyWorld(r)
			if sc >= 0 {
				w.baseline(r)
			} else if sc+nDirected == 1 { // F4 needs liquidity protection active
				w.Submit(w.GenLP(100, 10))
			}
			kind := (sc + nAdminKinds*2) % nAdminKinds
			t := &tracked{m: &AdminMsg{kind: "none", shape: "baseline", desc: "-"}, accepted: true}
			// a couple of blocks under the baseline only
			for h := int64(2); h <= 3; h++ {
				w.SetHeight(h)
				w.runBlock(r, out, t, 2, nil)
			}
			// the message under test, submitted inside block 4 (hooks from its EndBlocker on are attributed to it)
			w.SetHeight(4)
			w.runBlock(r, out, t, 1, func() {
				var m *AdminMsg
				if sc < 0 {
					m = w.Directed(sc + nDirected)
				} else {
					m = w.GenAdmin(r, kind, r.Chance(1, 3))
				}
				line := w.admLine(m)
				acc := w.Submit(m)
				t.m, t.accepted = m, acc
				ans := "consistent"
				if acc {
					ans += " " + w.hookState(m.kind)
				}
				out.Emit(fmt.Sprintf("adm %s %s", boolBit(acc), line), ans, "adm."+m.kind+"."+boolBit(acc), true)
			})
			for _, h := range w.horizon(4, r) {
				w.SetHeight(h)
				w.runBlock(r, out, t, 2, nil)
			}
		}
	}
}
