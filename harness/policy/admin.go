package main

// Generator of the ten AMM policy / parameter messages with extreme field values, executed through
// the REAL ValidateBasic and the REAL message server.  Each generated message is described on one
// line (`desc`) in the encoding the Lean driver parses; `shape` is a coarse label used only in the
// `tag=` of chk lines (so that a known finding is specific); `run` submits it.

import (
	"fmt"
	"math/big"
	"strings"

	clptypes "github.com/Sifchain/sifnode/x/clp/types"
	sdk "github.com/cosmos/cosmos-sdk/types"
	minttypes "github.com/cosmos/cosmos-sdk/x/mint/types"
)

type AdminMsg struct {
	kind  string
	desc  string // fields after the common prefix
	shape string
	vb    func() error                // ValidateBasic
	run   func(ctx sdk.Context) error // handler through the message server
}

func pow2(n uint) *big.Int { return new(big.Int).Lsh(big.NewInt(1), n) }
func sub1(b *big.Int) *big.Int { return new(big.Int).Sub(b, big.NewInt(1)) }
func add1(b *big.Int) *big.Int { return new(big.Int).Add(b, big.NewInt(1)) }

// ExtU64 draws an extreme uint64; `near` (a height) biases towards the current block.
func (r *Rng) ExtU64(near int64) uint64 {
	switch r.Intn(12) {
	case 0:
		return 0
	case 1:
		return 1
	case 2:
		return 1<<63 - 1
	case 3:
		return 1 << 63
	case 4:
		return 1<<63 + 1
	case 5:
		return 1<<64 - 1
	case 6:
		return 1<<64 - 2
	case 7:
		return r.U64()
	default:
		d := int64(r.Intn(9)) - 2
		v := near + d
		if v < 0 {
			v = 0
		}
		return uint64(v)
	}
}

func (r *Rng) ExtI64(near int64) int64 {
	switch r.Intn(12) {
	case 0:
		return 0
	case 1:
		return -1
	case 2:
		return 1<<63 - 1
	case 3:
		return -1 << 63
	case 4:
		return 1<<63 - 2
	case 5:
		return int64(r.U64())
	case 6:
		return 1
	default:
		return near + int64(r.Intn(9)) - 2
	}
}

// ExtUint draws an extreme sdk.Uint value (as big.Int in [0, 2^256)).
func (r *Rng) ExtUint() *big.Int {
	switch r.Intn(14) {
	case 0:
		return big.NewInt(0)
	case 1:
		return big.NewInt(1)
	case 2:
		return sub1(pow2(256))
	case 3:
		return pow2(255)
	case 4:
		return sub1(pow2(255))
	case 5:
		return add1(pow2(255))
	case 6:
		return pow2(128)
	case 7:
		return pow2(64)
	case 8:
		return r.BigBits(250 + r.Intn(7))
	case 9:
		return r.BigBits(1 + r.Intn(256))
	default:
		return r.Amount(100)
	}
}

var maxDecRaw = sub1(pow2(315))

// ExtDecRaw draws an extreme sdk.Dec as its raw integer (nil = a Dec without a value).
func (r *Rng) ExtDecRaw() *big.Int {
	switch r.Intn(20) {
	case 0:
		return nil
	case 1:
		return big.NewInt(0)
	case 2:
		return new(big.Int).Set(pow18)
	case 3:
		return new(big.Int).Neg(pow18)
	case 4:
		return new(big.Int).Mul(pow18, big.NewInt(-2))
	case 5:
		return big.NewInt(-1)
	case 6:
		return big.NewInt(1)
	case 7:
		return add1(pow18)
	case 8:
		return sub1(pow18)
	case 9:
		return new(big.Int).Mul(pow18, big.NewInt(10))
	case 10:
		return add1(new(big.Int).Mul(pow18, big.NewInt(10)))
	case 11:
		return new(big.Int).Set(maxDecRaw)
	case 12:
		return new(big.Int).Neg(maxDecRaw)
	case 13:
		return new(big.Int).Neg(sub1(pow18)) // -0.999999999999999999
	case 14:
		return new(big.Int).Neg(add1(pow18)) // -1.000000000000000001
	case 15:
		return new(big.Int).Mul(pow18, new(big.Int).Exp(big.NewInt(10), big.NewInt(int64(r.Intn(60))), nil))
	case 16:
		return new(big.Int).Neg(r.BigBits(1 + r.Intn(80)))
	default:
		return r.RateNonNeg()
	}
}

func decOf(raw *big.Int) sdk.Dec {
	if raw == nil {
		return sdk.Dec{}
	}
	return sdk.NewDecFromBigIntWithPrec(raw, 18)
}
func decPtr(raw *big.Int) *sdk.Dec {
	if raw == nil {
		return nil
	}
	d := decOf(raw)
	return &d
}
func rawS(raw *big.Int) string {
	if raw == nil {
		return "n"
	}
	return raw.String()
}

// ExtDecStr draws a decimal *string* field: "" (keep), unparsable, or a printed extreme Dec.
// Returns the string and its line encoding: e | b | raw.
func (r *Rng) ExtDecStr() (string, string) {
	switch r.Intn(12) {
	case 0:
		return "", "e"
	case 1:
		bad := []string{"abc", "1.0000000000000000001", ".", "1e50", "-", "1.2.3", "0x10", " 1"}
		return bad[r.Intn(len(bad))], "b"
	default:
		raw := r.ExtDecRaw()
		if raw == nil {
			return "", "e"
		}
		s := decOf(raw).String()
		return s, raw.String()
	}
}

// classify a decimal string field for the tag
func rateShape(enc string) string {
	switch enc {
	case "e":
		return "keep"
	case "b":
		return "bad"
	}
	v, _ := new(big.Int).SetString(enc, 10)
	neg1 := new(big.Int).Neg(pow18)
	switch {
	case v.Cmp(neg1) < 0:
		return "lt-1"
	case v.Cmp(neg1) == 0:
		return "eq-1"
	case v.Sign() < 0:
		return "neg"
	case v.Cmp(pow18) <= 0:
		return "0to1"
	case v.Cmp(new(big.Int).Mul(pow18, big.NewInt(1000000))) <= 0:
		return "gt1"
	default:
		return "huge"
	}
}

type signerClass struct {
	s   string
	enc string
}

func (w *World) genSigner(r *Rng) signerClass {
	switch r.Intn(16) {
	case 0:
		return signerClass{w.users[0].String(), "non"}
	case 1:
		return signerClass{"", "empty"}
	case 2:
		return signerClass{"sif1notanaddress", "bad"}
	default:
		return signerClass{w.admin.String(), "adm"}
	}
}

// GenAdmin draws one admin message.  `valid` biases the fields towards values that pass
// validation (so that hooks get exercised with unusual-but-accepted parameters).
func (w *World) GenAdmin(r *Rng, kind int, valid bool) *AdminMsg {
	sg := w.genSigner(r)
	if valid {
		sg = signerClass{w.admin.String(), "adm"}
	}
	h := w.height
	k := w.app.ClpKeeper
	switch kind {
	case 0: // ModifyPmtpRates
		brS, brE := r.ExtDecStr()
		rrS, rrE := r.ExtDecStr()
		if valid {
			raw := r.RateNonNeg()
			rrS, rrE = decOf(raw).String(), raw.String()
			brS, brE = "", "e"
		}
		endP := r.Chance(1, 4)
		m := &clptypes.MsgModifyPmtpRates{Signer: sg.s, BlockRate: brS, RunningRate: rrS, EndPolicy: endP}
		return &AdminMsg{kind: "ModifyPmtpRates", desc: fmt.Sprintf("%s %s %s %s", sg.enc, brE, rrE, boolBit(endP)),
			shape: "rr." + rateShape(rrE), vb: m.ValidateBasic,
			run: func(ctx sdk.Context) error { _, err := w.csrv.ModifyPmtpRates(sdk.WrapSDKContext(ctx), m); return err }}
	case 1: // UpdatePmtpParams
		gS, gE := r.ExtDecStr()
		el := r.ExtI64(2)
		st := r.ExtI64(h + 2)
		en := r.ExtI64(h + 6)
		if valid || r.Chance(1, 2) {
			el = int64(1 + r.Intn(3))
			st = h + 1 + int64(r.Intn(3))
			ne := int64(1 + r.Intn(4))
			en = st + el*ne - 1
			if r.Chance(1, 8) && !valid {
				en = st + el*(1<<(20+uint(r.Intn(30)))) - 1
			}
			if !valid && r.Chance(1, 2) {
				// boundary values around the guards on the period length: end = start - 1 (zero blocks), start - 2,
				// start (one block), start + epochLength - 1 (one epoch), one block short / long of whole epochs
				en = []int64{st - 1, st - 1, st - 2, st, st + el - 1, st + el - 2, st + el}[r.Intn(7)]
				if r.Chance(2, 3) { // with a rate that would be accepted
					raw := r.Rate01()
					gS, gE = decOf(raw).String(), raw.String()
				}
			}
			if valid {
				raw := r.Rate01()
				gS, gE = decOf(raw).String(), raw.String()
			}
		}
		lenShape := ""
		if en == st-1 {
			lenShape = ".len0"
		}
		m := &clptypes.MsgUpdatePmtpParams{Signer: sg.s, PmtpPeriodGovernanceRate: gS, PmtpPeriodEpochLength: el, PmtpPeriodStartBlock: st, PmtpPeriodEndBlock: en}
		stored := k.GetPmtpParams(w.ctx).PmtpPeriodGovernanceRate
		return &AdminMsg{kind: "UpdatePmtpParams", desc: fmt.Sprintf("%s %s %d %d %d %s", sg.enc, gE, el, st, en, d2s(stored)),
			shape: "gov." + rateShape(gE) + lenShape, vb: m.ValidateBasic,
			run: func(ctx sdk.Context) error { _, err := w.csrv.UpdatePmtpParams(sdk.WrapSDKContext(ctx), m); return err }}
	case 2: // ModifyLiquidityProtectionRates
		lpp := k.GetLiquidityProtectionParams(w.ctx)
		var cur *big.Int
		switch r.Intn(4) {
		case 0:
			cur = r.ExtUint()
		case 1:
			cur = add1(lpp.MaxRowanLiquidityThreshold.BigInt())
		case 2:
			cur = new(big.Int).Set(lpp.MaxRowanLiquidityThreshold.BigInt())
		default:
			cur = r.Near(lpp.MaxRowanLiquidityThreshold.BigInt())
		}
		if cur.BitLen() > 256 {
			cur = sub1(pow2(256))
		}
		if valid && cur.Cmp(lpp.MaxRowanLiquidityThreshold.BigInt()) > 0 {
			cur = new(big.Int).Set(lpp.MaxRowanLiquidityThreshold.BigInt())
		}
		m := &clptypes.MsgModifyLiquidityProtectionRates{Signer: sg.s, CurrentRowanLiquidityThreshold: sdk.NewUintFromBigInt(cur)}
		shape := "cur.le.max"
		if cur.Cmp(lpp.MaxRowanLiquidityThreshold.BigInt()) > 0 {
			shape = "cur.gt.max"
		}
		return &AdminMsg{kind: "ModifyLiquidityProtectionRates", desc: fmt.Sprintf("%s %s %s", sg.enc, cur, u2s(lpp.MaxRowanLiquidityThreshold)),
			shape: shape, vb: m.ValidateBasic,
			run: func(ctx sdk.Context) error {
				_, err := w.csrv.ModifyLiquidityProtectionRates(sdk.WrapSDKContext(ctx), m)
				return err
			}}
	case 3: // UpdateLiquidityProtectionParams
		mx := r.ExtUint()
		el := r.ExtU64(3)
		if valid {
			mx = r.Amount(100)
			el = uint64(1 + r.Intn(20))
		}
		act := r.Chance(3, 4)
		asset := []string{"cusdc", "rowan", "ceth", "", "nosuch"}[r.Intn(5)]
		m := &clptypes.MsgUpdateLiquidityProtectionParams{Signer: sg.s, MaxRowanLiquidityThreshold: sdk.NewUintFromBigInt(mx), MaxRowanLiquidityThresholdAsset: asset, EpochLength: el, IsActive: act}
		shape := "epoch.pos"
		if el == 0 {
			shape = "epoch.zero"
		}
		return &AdminMsg{kind: "UpdateLiquidityProtectionParams", desc: fmt.Sprintf("%s %s %d %s", sg.enc, mx, el, boolBit(act)),
			shape: shape, vb: m.ValidateBasic,
			run: func(ctx sdk.Context) error {
				_, err := w.csrv.UpdateLiquidityProtectionParams(sdk.WrapSDKContext(ctx), m)
				return err
			}}
	case 4: // AddRewardPeriod
		n := 1 + r.Intn(2)
		if r.Chance(1, 10) {
			n = 0
		}
		var ps []*clptypes.RewardPeriod
		var sb strings.Builder
		shape := "ok"
		fmt.Fprintf(&sb, "%s %d", sg.enc, n)
		for i := 0; i < n; i++ {
			p := &clptypes.RewardPeriod{RewardPeriodId: "rp" + fmt.Sprint(i)}
			if r.Chance(1, 12) && !valid {
				p.RewardPeriodId = ""
			}
			p.RewardPeriodStartBlock = r.ExtU64(h)
			p.RewardPeriodEndBlock = r.ExtU64(h + 5)
			if valid || r.Chance(1, 2) {
				p.RewardPeriodStartBlock = uint64(h) - uint64(r.Intn(2))
				p.RewardPeriodEndBlock = uint64(h) + uint64(r.Intn(6))
				if r.Chance(1, 8) && !valid {
					p.RewardPeriodEndBlock = 1<<64 - 1 - uint64(r.Intn(2))
				}
			}
			if r.Chance(1, 10) && !valid {
				p.RewardPeriodStartBlock, p.RewardPeriodEndBlock = 0, 1<<64-1
			}
			p.RewardPeriodMod = r.ExtU64(2)
			if valid {
				p.RewardPeriodMod = uint64(r.Intn(4))
			}
			var alloc *big.Int
			if !(r.Chance(1, 10) && !valid) {
				alloc = r.ExtUint()
				if valid && alloc.BitLen() > 120 {
					alloc = r.Amount(100)
				}
				u := sdk.NewUintFromBigInt(alloc)
				p.RewardPeriodAllocation = &u
			}
			p.RewardPeriodDistribute = r.Bool()
			def := r.ExtDecRaw()
			if valid || r.Chance(1, 2) {
				def = new(big.Int).Mul(big.NewInt(int64(r.Intn(11))), pow18)
			}
			p.RewardPeriodDefaultMultiplier = decPtr(def)
			km := r.Intn(3)
			fmt.Fprintf(&sb, " %s %d %d %s %d %s %s %d", boolBit(p.RewardPeriodId == ""), p.RewardPeriodStartBlock, p.RewardPeriodEndBlock,
				rawS(alloc), p.RewardPeriodMod, boolBit(p.RewardPeriodDistribute), rawS(def), km)
			for j := 0; j < km; j++ {
				mr := r.ExtDecRaw()
				if valid || r.Chance(1, 2) {
					mr = new(big.Int).Mul(big.NewInt(int64(r.Intn(11))), new(big.Int).Div(pow18, big.NewInt(2)))
				}
				asset := w.denoms[r.Intn(len(w.denoms))]
				p.RewardPeriodPoolMultipliers = append(p.RewardPeriodPoolMultipliers, &clptypes.PoolMultiplier{PoolMultiplierAsset: asset, Multiplier: decPtr(mr)})
				fmt.Fprintf(&sb, " %s", rawS(mr))
			}
			// tag shape (labels only)
			switch {
			case p.RewardPeriodStartBlock == 0 && p.RewardPeriodEndBlock == 1<<64-1:
				shape = "len.wrap0"
			case alloc == nil && shape == "ok":
				shape = "alloc.nil"
			case alloc != nil && alloc.BitLen() >= 255 && shape == "ok":
				shape = "alloc.ge2p254"
			}
			ps = append(ps, p)
		}
		m := &clptypes.MsgAddRewardPeriodRequest{Signer: sg.s, RewardPeriods: ps}
		return &AdminMsg{kind: "AddRewardPeriod", desc: sb.String(), shape: shape, vb: m.ValidateBasic,
			run: func(ctx sdk.Context) error { _, err := w.csrv.AddRewardPeriod(sdk.WrapSDKContext(ctx), m); return err }}
	case 5: // UpdateRewardsParams
		m := &clptypes.MsgUpdateRewardsParamsRequest{Signer: sg.s, LiquidityRemovalLockPeriod: r.ExtU64(2), LiquidityRemovalCancelPeriod: r.ExtU64(3),
			RewardsDistribute: r.Bool(), RewardsEpochIdentifier: []string{"", "hour", "day", "week", "nosuch"}[r.Intn(5)], RewardsLockPeriod: r.ExtU64(4)}
		return &AdminMsg{kind: "UpdateRewardsParams", desc: fmt.Sprintf("%s %d %d %s %s %d", sg.enc, m.LiquidityRemovalLockPeriod, m.LiquidityRemovalCancelPeriod,
			boolBit(m.RewardsDistribute), boolBit(m.RewardsEpochIdentifier == ""), m.RewardsLockPeriod), shape: "any", vb: m.ValidateBasic,
			run: func(ctx sdk.Context) error { _, err := w.csrv.UpdateRewardsParams(sdk.WrapSDKContext(ctx), m); return err }}
	case 6: // AddProviderDistributionPeriod
		n := 1 + r.Intn(2)
		if r.Chance(1, 10) {
			n = 0
		}
		var ps []*clptypes.ProviderDistributionPeriod
		var sb strings.Builder
		fmt.Fprintf(&sb, "%s %d", sg.enc, n)
		for i := 0; i < n; i++ {
			p := &clptypes.ProviderDistributionPeriod{}
			rate := r.ExtDecRaw()
			if valid || r.Chance(1, 2) {
				rate = r.Rate01()
			}
			p.DistributionPeriodBlockRate = decOf(rate)
			p.DistributionPeriodStartBlock = r.ExtU64(h)
			p.DistributionPeriodEndBlock = r.ExtU64(h + 5)
			if valid || r.Chance(1, 2) {
				p.DistributionPeriodStartBlock = uint64(h) - uint64(r.Intn(2))
				p.DistributionPeriodEndBlock = uint64(h) + uint64(r.Intn(6))
				if r.Chance(1, 8) && !valid {
					p.DistributionPeriodEndBlock = 1<<63 - 1 - uint64(r.Intn(2))
				}
			}
			p.DistributionPeriodMod = r.ExtU64(2)
			if valid {
				p.DistributionPeriodMod = uint64(1 + r.Intn(3))
			}
			fmt.Fprintf(&sb, " %s %d %d %d", rawS(rate), p.DistributionPeriodStartBlock, p.DistributionPeriodEndBlock, p.DistributionPeriodMod)
			ps = append(ps, p)
		}
		m := &clptypes.MsgAddProviderDistributionPeriodRequest{Signer: sg.s, DistributionPeriods: ps}
		return &AdminMsg{kind: "AddProviderDistributionPeriod", desc: sb.String(), shape: "any", vb: m.ValidateBasic,
			run: func(ctx sdk.Context) error {
				_, err := w.csrv.AddProviderDistributionPeriod(sdk.WrapSDKContext(ctx), m)
				return err
			}}
	case 7: // UpdateSwapFeeParams
		def := r.ExtDecRaw()
		if valid || r.Chance(1, 2) {
			def = r.Rate01()
		}
		km := r.Intn(3)
		var tps []*clptypes.SwapFeeTokenParams
		var sb strings.Builder
		fmt.Fprintf(&sb, "%s %s %d", sg.enc, rawS(def), km)
		for j := 0; j < km; j++ {
			tr := r.ExtDecRaw()
			if valid || r.Chance(1, 2) {
				tr = r.Rate01()
			}
			tps = append(tps, &clptypes.SwapFeeTokenParams{Asset: append(w.denoms, "rowan")[r.Intn(len(w.denoms)+1)], SwapFeeRate: decOf(tr)})
			fmt.Fprintf(&sb, " %s", rawS(tr))
		}
		m := &clptypes.MsgUpdateSwapFeeParamsRequest{Signer: sg.s, DefaultSwapFeeRate: decOf(def), TokenParams: tps}
		return &AdminMsg{kind: "UpdateSwapFeeParams", desc: sb.String(), shape: "any", vb: m.ValidateBasic,
			run: func(ctx sdk.Context) error { _, err := w.csrv.UpdateSwapFeeParams(sdk.WrapSDKContext(ctx), m); return err }}
	case 8: // SetSymmetryThreshold
		th, ra := r.ExtDecRaw(), r.ExtDecRaw()
		m := &clptypes.MsgSetSymmetryThreshold{Signer: sg.s, Threshold: decOf(th), Ratio: decOf(ra)}
		return &AdminMsg{kind: "SetSymmetryThreshold", desc: fmt.Sprintf("%s %s %s", sg.enc, rawS(th), rawS(ra)), shape: "any", vb: m.ValidateBasic,
			run: func(ctx sdk.Context) error { _, err := w.csrv.SetSymmetryThreshold(sdk.WrapSDKContext(ctx), m); return err }}
	default: // UpdateStakingRewardParams
		p := minttypes.DefaultParams()
		p.MintDenom = "rowan"
		pick := func(def sdk.Dec) (sdk.Dec, string) {
			if valid || r.Chance(1, 2) {
				return def, d2s(def)
			}
			raw := r.ExtDecRaw()
			return decOf(raw), rawS(raw)
		}
		var e1, e2, e3, e4 string
		p.InflationRateChange, e1 = pick(p.InflationRateChange)
		p.InflationMax, e2 = pick(p.InflationMax)
		p.InflationMin, e3 = pick(p.InflationMin)
		p.GoalBonded, e4 = pick(p.GoalBonded)
		p.BlocksPerYear = r.ExtU64(100)
		if valid && p.BlocksPerYear == 0 {
			p.BlocksPerYear = 1
		}
		infl, ap := r.ExtDecRaw(), r.ExtDecRaw()
		if r.Chance(1, 3) {
			infl, ap = big.NewInt(0), big.NewInt(0)
		}
		m := &clptypes.MsgUpdateStakingRewardParams{Signer: sg.s, Params: p, Minter: minttypes.Minter{Inflation: decOf(infl), AnnualProvisions: decOf(ap)}}
		shape := "ok"
		switch {
		case p.BlocksPerYear >= 1<<63:
			shape = "bpy.ge2p63"
		case infl != nil && infl.Sign() < 0:
			shape = "infl.neg"
		case infl != nil && infl.Cmp(pow18) > 0:
			shape = "infl.gt1"
		}
		return &AdminMsg{kind: "UpdateStakingRewardParams", desc: fmt.Sprintf("%s %s %s %s %s %d %s %s", sg.enc, e1, e2, e3, e4, p.BlocksPerYear, rawS(infl), rawS(ap)),
			shape: shape, vb: m.ValidateBasic,
			run: func(ctx sdk.Context) error {
				_, err := w.csrv.UpdateStakingRewardParams(sdk.WrapSDKContext(ctx), m)
				return err
			}}
	}
}

const nAdminKinds = 10

// Submit runs the message through ValidateBasic and the handler as baseapp would (ValidateBasic
// first; a panic anywhere = failed transaction).  Returns accepted?
func (w *World) Submit(m *AdminMsg) bool {
	res := w.Tx(func(ctx sdk.Context) error {
		if err := m.vb(); err != nil {
			return err
		}
		return m.run(ctx)
	})
	return res == "ok"
}

// Directed: the inputs of the confirmed defects (DESIGN.md section 6: F3, F4, F5, F12, F13; found by
// this harness: F18, F19), always run first so that a regression of a repair is reported with its tag.
func (w *World) Directed(i int) *AdminMsg {
	adm := w.admin.String()
	one := sdk.OneDec()
	h := w.height
	uint256max := sdk.NewUintFromBigInt(sub1(pow2(256)))
	thousand := sdk.NewUint(1000)
	switch i {
	case 0: // F3
		m := &clptypes.MsgModifyPmtpRates{Signer: adm, RunningRate: "-1"}
		return &AdminMsg{kind: "ModifyPmtpRates", desc: fmt.Sprintf("adm e %s 0", new(big.Int).Neg(pow18)), shape: "rr.eq-1", vb: m.ValidateBasic,
			run: func(ctx sdk.Context) error { _, err := w.csrv.ModifyPmtpRates(sdk.WrapSDKContext(ctx), m); return err }}
	case 1: // F4 (needs protection active: the caller sets max 100 first)
		lpp := w.app.ClpKeeper.GetLiquidityProtectionParams(w.ctx)
		cur := add1(lpp.MaxRowanLiquidityThreshold.BigInt())
		m := &clptypes.MsgModifyLiquidityProtectionRates{Signer: adm, CurrentRowanLiquidityThreshold: sdk.NewUintFromBigInt(cur)}
		return &AdminMsg{kind: "ModifyLiquidityProtectionRates", desc: fmt.Sprintf("adm %s %s", cur, u2s(lpp.MaxRowanLiquidityThreshold)), shape: "cur.gt.max", vb: m.ValidateBasic,
			run: func(ctx sdk.Context) error {
				_, err := w.csrv.ModifyLiquidityProtectionRates(sdk.WrapSDKContext(ctx), m)
				return err
			}}
	case 2: // F5
		m := &clptypes.MsgAddRewardPeriodRequest{Signer: adm, RewardPeriods: []*clptypes.RewardPeriod{{RewardPeriodId: "x", RewardPeriodStartBlock: 0, RewardPeriodEndBlock: 1<<64 - 1,
			RewardPeriodAllocation: &thousand, RewardPeriodDefaultMultiplier: &one, RewardPeriodMod: 1}}}
		return &AdminMsg{kind: "AddRewardPeriod", desc: fmt.Sprintf("adm 1 0 0 18446744073709551615 1000 1 0 %s 0", pow18), shape: "len.wrap0", vb: m.ValidateBasic,
			run: func(ctx sdk.Context) error { _, err := w.csrv.AddRewardPeriod(sdk.WrapSDKContext(ctx), m); return err }}
	case 3: // F13
		m := &clptypes.MsgAddRewardPeriodRequest{Signer: adm, RewardPeriods: []*clptypes.RewardPeriod{{RewardPeriodId: "x", RewardPeriodStartBlock: uint64(h), RewardPeriodEndBlock: uint64(h + 1),
			RewardPeriodAllocation: &uint256max, RewardPeriodDefaultMultiplier: &one, RewardPeriodMod: 1}}}
		return &AdminMsg{kind: "AddRewardPeriod", desc: fmt.Sprintf("adm 1 0 %d %d %s 1 0 %s 0", h, h+1, uint256max, pow18), shape: "alloc.ge2p254", vb: m.ValidateBasic,
			run: func(ctx sdk.Context) error { _, err := w.csrv.AddRewardPeriod(sdk.WrapSDKContext(ctx), m); return err }}
	case 4: // F18
		m := &clptypes.MsgAddRewardPeriodRequest{Signer: adm, RewardPeriods: []*clptypes.RewardPeriod{{RewardPeriodId: "x", RewardPeriodStartBlock: uint64(h), RewardPeriodEndBlock: uint64(h + 5),
			RewardPeriodDefaultMultiplier: &one, RewardPeriodMod: 1}}}
		return &AdminMsg{kind: "AddRewardPeriod", desc: fmt.Sprintf("adm 1 0 %d %d n 1 0 %s 0", h, h+5, pow18), shape: "alloc.nil", vb: m.ValidateBasic,
			run: func(ctx sdk.Context) error { _, err := w.csrv.AddRewardPeriod(sdk.WrapSDKContext(ctx), m); return err }}
	case 5, 6, 7, 8: // F12: -2 (NaN), -1 (block rate -1), 1e50 (Power overflow), 0.029 over 2^40 epochs (Power overflow)
		g := []string{"-2", "-1", "100000000000000000000000000000000000000000000000000", "0.029"}[i-5]
		el, st := int64(2), h+1
		en := st + 2*el - 1
		shape := []string{"gov.lt-1", "gov.eq-1", "gov.huge", "gov.0to1.long"}[i-5]
		if i == 8 {
			en = st + el*(1<<40) - 1
		}
		raw := sdk.MustNewDecFromStr(g).BigInt()
		m := &clptypes.MsgUpdatePmtpParams{Signer: adm, PmtpPeriodGovernanceRate: g, PmtpPeriodEpochLength: el, PmtpPeriodStartBlock: st, PmtpPeriodEndBlock: en}
		stored := w.app.ClpKeeper.GetPmtpParams(w.ctx).PmtpPeriodGovernanceRate
		return &AdminMsg{kind: "UpdatePmtpParams", desc: fmt.Sprintf("adm %s %d %d %d %s", raw, el, st, en, d2s(stored)), shape: shape, vb: m.ValidateBasic,
			run: func(ctx sdk.Context) error { _, err := w.csrv.UpdatePmtpParams(sdk.WrapSDKContext(ctx), m); return err }}
	case 9, 10: // F19: blocks per year 2^64-1; minter inflation at the top of the Dec range
		p := minttypes.DefaultParams()
		p.MintDenom = "rowan"
		infl, ap := big.NewInt(0), big.NewInt(0)
		shape := "bpy.ge2p63"
		if i == 9 {
			p.BlocksPerYear = 1<<64 - 1
		} else {
			infl, ap, shape = new(big.Int).Set(maxDecRaw), big.NewInt(1), "infl.gt1"
		}
		m := &clptypes.MsgUpdateStakingRewardParams{Signer: adm, Params: p, Minter: minttypes.Minter{Inflation: decOf(infl), AnnualProvisions: decOf(ap)}}
		return &AdminMsg{kind: "UpdateStakingRewardParams", desc: fmt.Sprintf("adm %s %s %s %s %d %s %s", d2s(p.InflationRateChange), d2s(p.InflationMax), d2s(p.InflationMin), d2s(p.GoalBonded), p.BlocksPerYear, infl, ap),
			shape: shape, vb: m.ValidateBasic,
			run: func(ctx sdk.Context) error {
				_, err := w.csrv.UpdateStakingRewardParams(sdk.WrapSDKContext(ctx), m)
				return err
			}}
	case 11: // uint64 -> int64 boundary: provider distribution modulo exactly 2^63 (accepted: only 0 is refused)
		rate := new(big.Int).Div(pow18, big.NewInt(100))
		m := &clptypes.MsgAddProviderDistributionPeriodRequest{Signer: adm, DistributionPeriods: []*clptypes.ProviderDistributionPeriod{{DistributionPeriodBlockRate: decOf(rate),
			DistributionPeriodStartBlock: uint64(h), DistributionPeriodEndBlock: uint64(h + 5), DistributionPeriodMod: 1 << 63}}}
		return &AdminMsg{kind: "AddProviderDistributionPeriod", desc: fmt.Sprintf("adm 1 %s %d %d %d", rate, h, h+5, uint64(1)<<63), shape: "mod.2p63", vb: m.ValidateBasic,
			run: func(ctx sdk.Context) error {
				_, err := w.csrv.AddProviderDistributionPeriod(sdk.WrapSDKContext(ctx), m)
				return err
			}}
	case 12: // … and reward period modulo exactly 2^63
		m := &clptypes.MsgAddRewardPeriodRequest{Signer: adm, RewardPeriods: []*clptypes.RewardPeriod{{RewardPeriodId: "x", RewardPeriodStartBlock: uint64(h), RewardPeriodEndBlock: uint64(h + 5),
			RewardPeriodAllocation: &thousand, RewardPeriodDefaultMultiplier: &one, RewardPeriodMod: 1 << 63}}}
		return &AdminMsg{kind: "AddRewardPeriod", desc: fmt.Sprintf("adm 1 0 %d %d 1000 %d 0 %s 0", h, h+5, uint64(1)<<63, pow18), shape: "mod.2p63", vb: m.ValidateBasic,
			run: func(ctx sdk.Context) error { _, err := w.csrv.AddRewardPeriod(sdk.WrapSDKContext(ctx), m); return err }}
	case 13: // a policy of zero blocks: end = start - 1, start in the future, non-zero rate (0 % epochLength == 0, 0 epochs)
		el, st := int64(2), h+3
		en := st - 1
		raw := sdk.MustNewDecFromStr("0.10").BigInt()
		m := &clptypes.MsgUpdatePmtpParams{Signer: adm, PmtpPeriodGovernanceRate: "0.10", PmtpPeriodEpochLength: el, PmtpPeriodStartBlock: st, PmtpPeriodEndBlock: en}
		stored := w.app.ClpKeeper.GetPmtpParams(w.ctx).PmtpPeriodGovernanceRate
		return &AdminMsg{kind: "UpdatePmtpParams", desc: fmt.Sprintf("adm %s %d %d %d %s", raw, el, st, en, d2s(stored)), shape: "gov.0to1.len0", vb: m.ValidateBasic,
			run: func(ctx sdk.Context) error { _, err := w.csrv.UpdatePmtpParams(sdk.WrapSDKContext(ctx), m); return err }}
	}
	return nil
}

const nDirected = 14

// GenLP: a valid UpdateLiquidityProtectionParams (active) with the given maximum and epoch length.
func (w *World) GenLP(max uint64, epoch uint64) *AdminMsg {
	m := &clptypes.MsgUpdateLiquidityProtectionParams{Signer: w.admin.String(), MaxRowanLiquidityThreshold: sdk.NewUint(max), MaxRowanLiquidityThresholdAsset: "rowan", EpochLength: epoch, IsActive: true}
	return &AdminMsg{kind: "UpdateLiquidityProtectionParams", desc: fmt.Sprintf("adm %d %d 1", max, epoch), shape: "epoch.pos", vb: m.ValidateBasic,
		run: func(ctx sdk.Context) error {
			_, err := w.csrv.UpdateLiquidityProtectionParams(sdk.WrapSDKContext(ctx), m)
			return err
		}}
}
