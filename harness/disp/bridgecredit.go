package main

// family "bridgecredit" (C20: "no other Sifchain code path creates rowan except consensus-approved
// bridge credits"): block histories on the real keepers (sifapp.Setup; dispensation BeginBlocker —
// messages on a CacheContext written only on success — clp EndBlocker) with ethbridge claims for
// rowan (CLAIM_TYPE_BURN of symbol rowan) and for other tokens through the REAL handler
// (ethbridge.NewHandler → CreateEthBridgeClaim → oracle ProcessClaim → ProcessSuccessfulClaim), by
// bonded whitelisted validators of several power distributions: first witnesses, the witness that
// reaches consensus, late witnesses after finalisation, duplicates while pending, conflicting
// contents, claims of a non-whitelisted validator, and RE-SENT IDENTICAL claims after finalisation.
// Judged on the implementation: per transaction "rowan is created only by the claim that takes its
// prophecy from not-final to SUCCESS, exactly the credited amount"; after every block the supply
// equation "rowan created since the baseline = ecosystem mint (counter delta) + reward allocation
// (created by the clp EndBlocker) + Σ consensus-approved bridge credits, each prophecy once" with
// the approved credits read back from the oracle keeper.

import (
	"fmt"
	"math/big"
	"strings"

	sifapp "github.com/Sifchain/sifnode/app"
	"github.com/Sifchain/sifnode/x/clp"
	clptypes "github.com/Sifchain/sifnode/x/clp/types"
	"github.com/Sifchain/sifnode/x/dispensation"
	"github.com/Sifchain/sifnode/x/ethbridge"
	ethbridgetypes "github.com/Sifchain/sifnode/x/ethbridge/types"
	oracletypes "github.com/Sifchain/sifnode/x/oracle/types"
	sdk "github.com/cosmos/cosmos-sdk/types"
	stakingtypes "github.com/cosmos/cosmos-sdk/x/staking/types"
	"github.com/tendermint/tendermint/crypto"
	tmproto "github.com/tendermint/tendermint/proto/tendermint/types"
)

type brEvent struct {
	nonce    int64
	symbol   string
	burn     bool
	amount   int64
	sender   string
	receiver sdk.AccAddress
	sent     map[int]*ethbridgetypes.EthBridgeClaim // what validator i sent first
}

func (e *brEvent) id() string {
	return fmt.Sprintf("%d%d%s", ethbridgetypes.TestEthereumChainID, e.nonce, e.sender)
}

func init() {
	families["bridgecredit"] = func(rng *Rng, n int, out *Out, replay string) {
		sifapp.SetConfig(false)
		txs := 0
		for txs < n {
			app := sifapp.Setup(false)
			ctx := app.BaseApp.NewContext(false, tmproto.Header{Height: 1, ChainID: "verif-bridge"})
			powerSets := [][]int64{{40, 40, 20}, {34, 33, 33}, {25, 25, 25, 25}, {60, 30, 10}, {70, 20, 10}, {50, 50}}
			powers := powerSets[rng.Intn(len(powerSets))]
			pubKeys := sifapp.CreateTestPubKeys(len(powers))
			bondDenom := app.StakingKeeper.BondDenom(ctx)
			valAddrs := make([]sdk.ValAddress, len(powers))
			for i, power := range powers {
				tokens := sdk.TokensFromConsensusPower(power, sdk.DefaultPowerReduction)
				stake := sdk.NewCoins(sdk.NewCoin(bondDenom, tokens))
				if err := app.BankKeeper.MintCoins(ctx, ethbridgetypes.ModuleName, stake); err != nil {
					panic(err)
				}
				if err := app.BankKeeper.SendCoinsFromModuleToModule(ctx, ethbridgetypes.ModuleName, stakingtypes.NotBondedPoolName, stake); err != nil {
					panic(err)
				}
				valAddrs[i] = sdk.ValAddress(pubKeys[i].Address().Bytes())
				validator, err := stakingtypes.NewValidator(valAddrs[i], pubKeys[i], stakingtypes.Description{})
				if err != nil {
					panic(err)
				}
				validator, _ = validator.AddTokensFromDel(tokens)
				app.StakingKeeper.SetValidator(ctx, validator)
				app.StakingKeeper.SetValidatorByPowerIndex(ctx, validator)
				if _, err := app.StakingKeeper.ApplyAndReturnValidatorSetUpdates(ctx); err != nil {
					panic(err)
				}
			}
			white := valAddrs
			if len(powers) > 2 && rng.Chance(1, 4) {
				white = valAddrs[:len(valAddrs)-1] // the last validator is bonded but not whitelisted
			}
			app.OracleKeeper.SetOracleWhiteList(ctx, white)
			// depth rewards run as well: one pool, one short period
			asset := clptypes.NewAsset("cusdc")
			depth := new(big.Int).Add(rng.Amount(80), big.NewInt(1000))
			pool := clptypes.NewPool(&asset, sdk.NewUintFromBigInt(depth), sdk.NewUintFromBigInt(depth), sdk.NewUint(1000))
			if err := app.ClpKeeper.SetPool(ctx, &pool); err != nil {
				panic(err)
			}
			if rng.Chance(2, 3) {
				alloc := sdk.NewUintFromBigInt(new(big.Int).Add(rng.Amount(70), big.NewInt(100)))
				one := sdk.OneDec()
				params := app.ClpKeeper.GetRewardsParams(ctx)
				params.RewardPeriods = []*clptypes.RewardPeriod{{RewardPeriodId: "rp", RewardPeriodStartBlock: 3, RewardPeriodEndBlock: uint64(6 + rng.Intn(8)),
					RewardPeriodAllocation: &alloc, RewardPeriodDefaultMultiplier: &one, RewardPeriodMod: uint64(1 + rng.Intn(3))}}
				app.ClpKeeper.SetRewardParams(ctx, params)
			}
			handler := ethbridge.NewHandler(app.EthbridgeKeeper)
			var events []*brEvent
			for i := 0; i < 2+rng.Intn(4); i++ {
				ev := &brEvent{nonce: int64(1 + i), symbol: "rowan", burn: true, amount: int64(1 + rng.Intn(100000)), sender: ethbridgetypes.TestEthereumAddress,
					receiver: sdk.AccAddress(crypto.AddressHash([]byte(fmt.Sprintf("verif-bridge-rcv-%d", rng.Intn(3))))), sent: map[int]*ethbridgetypes.EthBridgeClaim{}}
				switch rng.Intn(6) {
				case 0:
					ev.symbol, ev.burn = "eth", false // lock of ether: creates ceth, no rowan
				case 1:
					ev.symbol, ev.burn = "rowan", false // lock of a token called rowan: creates crowan, no rowan
				}
				events = append(events, ev)
			}
			supply := func() *big.Int { return app.BankKeeper.GetSupply(ctx, "rowan").Amount.BigInt() }
			counter := func() *big.Int {
				c, _ := app.DispensationKeeper.GetMintController(ctx)
				return c.TotalCounter.Amount.BigInt()
			}
			supply0, counter0 := supply(), counter()
			rewards := big.NewInt(0)
			out.Emit("br.init", "ok", "init", false)
			blocksN := 8 + rng.Intn(8)
			for b := 0; b < blocksN && txs < n; b++ {
				ctx = ctx.WithBlockHeight(int64(2 + b))
				dispensation.BeginBlocker(ctx, app.DispensationKeeper)
				for k := 0; k < 1+rng.Intn(3); k++ {
					ei := rng.Intn(len(events))
					ev := events[ei]
					vi := rng.Intn(len(valAddrs))
					kind := "first"
					var claim *ethbridgetypes.EthBridgeClaim
					if prev, ok := ev.sent[vi]; ok && rng.Chance(4, 5) {
						cp := *prev
						claim = &cp // the relayer re-broadcasts exactly what it sent before
						kind = "resend"
					} else {
						amt := ev.amount
						if rng.Chance(1, 8) {
							amt++ // a validator that saw something else
							kind = "conflicting"
						}
						ct := ethbridgetypes.ClaimType_CLAIM_TYPE_LOCK
						token := "0x0000000000000000000000000000000000000000"
						if ev.burn {
							ct = ethbridgetypes.ClaimType_CLAIM_TYPE_BURN
							token = "0x07baC35846e5eD502aA91AdF6A9e7aA210F2DcbE"
						} else if ev.symbol != "eth" {
							token = "0x07baC35846e5eD502aA91AdF6A9e7aA210F2DcbE"
						}
						claim = ethbridgetypes.NewEthBridgeClaim(ethbridgetypes.TestEthereumChainID, ethbridgetypes.NewEthereumAddress(ethbridgetypes.TestBridgeContractAddress),
							ev.nonce, ev.symbol, ethbridgetypes.NewEthereumAddress(token), ethbridgetypes.NewEthereumAddress(ev.sender), ev.receiver, valAddrs[vi], sdk.NewInt(amt), ct)
						if _, ok := ev.sent[vi]; !ok {
							ev.sent[vi] = claim
						}
					}
					msg := ethbridgetypes.NewMsgCreateEthBridgeClaim(claim)
					before, found := app.OracleKeeper.GetProphecy(ctx, ev.id())
					finalBefore := found && before.Status.Text != oracletypes.StatusText_STATUS_TEXT_PENDING
					supBefore := supply()
					res := "err"
					if msg.ValidateBasic() == nil {
						cctx, write := ctx.CacheContext()
						res = protect(func() string {
							if _, err := handler(cctx, &msg); err != nil {
								return "err"
							}
							return "ok"
						})
						if res == "ok" {
							write()
						}
					}
					txs++
					after, _ := app.OracleKeeper.GetProphecy(ctx, ev.id())
					successAfter := after.Status.Text == oracletypes.StatusText_STATUS_TEXT_SUCCESS
					amount, rowan := claim.Amount.BigInt(), claim.ClaimType == ethbridgetypes.ClaimType_CLAIM_TYPE_BURN && claim.Symbol == "rowan"
					if successAfter {
						if fc, err := ethbridgetypes.CreateOracleClaimFromOracleString(after.Status.FinalClaim); err == nil {
							amount, rowan = fc.Amount.BigInt(), fc.ClaimType == ethbridgetypes.ClaimType_CLAIM_TYPE_BURN && fc.Symbol == "rowan"
						}
					}
					delta := new(big.Int).Sub(supply(), supBefore)
					if res == "panic" || delta.Sign() < 0 {
						out.Emit(fmt.Sprintf("br.claim %d %s %s 0 0", ei, amount, b2s(rowan)), "panic-or-negative "+delta.String(), "claim.panic", false)
						continue
					}
					cls := fmt.Sprintf("claim.%s.%s", kind, res)
					if finalBefore {
						cls += ".final"
					} else if successAfter && res == "ok" {
						cls += ".consensus"
					}
					out.Emit(fmt.Sprintf("br.claim %d %s %s %s %s", ei, amount, b2s(rowan), b2s(res == "ok"), b2s(successAfter)),
						fmt.Sprintf("res=%s created=%s", res, delta), cls, res == "ok")
					out.Emit(fmt.Sprintf("chk c20.bridgetx tag=bridge.claim.creates-only-on-consensus %s %s %s %s %s %s", b2s(finalBefore), b2s(res == "ok"), b2s(successAfter), b2s(rowan), amount, delta),
						"true", "chk.bridgetx", false)
				}
				supMid := supply()
				clp.EndBlocker(ctx, app.ClpKeeper)
				rewards.Add(rewards, new(big.Int).Sub(supply(), supMid))
				// consensus-approved rowan credits, read back from the oracle keeper: each prophecy once
				var approved []string
				for i, ev := range events {
					p, found := app.OracleKeeper.GetProphecy(ctx, ev.id())
					if !found || p.Status.Text != oracletypes.StatusText_STATUS_TEXT_SUCCESS {
						continue
					}
					fc, err := ethbridgetypes.CreateOracleClaimFromOracleString(p.Status.FinalClaim)
					if err == nil && fc.ClaimType == ethbridgetypes.ClaimType_CLAIM_TYPE_BURN && fc.Symbol == "rowan" {
						approved = append(approved, fmt.Sprintf("%d:%s", i, fc.Amount))
					}
				}
				ap := "-"
				if len(approved) > 0 {
					ap = strings.Join(approved, ",")
				}
				out.Emit(fmt.Sprintf("chk c20.supplyeq tag=supply.rowan.eco+rewards+approved-bridge-credits %s %s %s %s %s", supply0, supply(), new(big.Int).Sub(counter(), counter0), rewards, ap),
					"true", "chk.supplyeq", false)
			}
		}
	}
}
