package main

// family "restart" (C20, restart clause; L2 without transactions): the full SifchainApp on a
// database that outlives the application object, driven through BeginBlock / EndBlock / Commit
// (all modules' hooks in app.go order).  At random heights the application object is thrown away
// and a new one is opened on the same database (`loadLatest`), as after a node restart; the mint
// counter (key 0x03) and the reward accumulator (key 0x0b) must continue exactly as the model —
// which knows nothing of restarts: its state is exactly the stored counters — predicts.

import (
	"encoding/json"
	"fmt"
	"math/big"
	"strings"

	sifapp "github.com/Sifchain/sifnode/app"
	clptypes "github.com/Sifchain/sifnode/x/clp/types"
	disptypes "github.com/Sifchain/sifnode/x/dispensation/types"
	sdk "github.com/cosmos/cosmos-sdk/types"
	"github.com/cosmos/cosmos-sdk/version"
	banktypes "github.com/cosmos/cosmos-sdk/x/bank/types"
	upgradetypes "github.com/cosmos/cosmos-sdk/x/upgrade/types"
	abci "github.com/tendermint/tendermint/abci/types"
	"github.com/tendermint/tendermint/libs/log"
	tmproto "github.com/tendermint/tendermint/proto/tendermint/types"
	dbm "github.com/tendermint/tm-db"
)

// consensus versions of the modules on the released chain (the pinned tree): the module version map
// a chain "written by the previous binary" has in committed state
var releasedVersions = map[string]uint64{"dispensation": 2, "clp": 5}

var upgradeSerial int

func openApp(db dbm.DB) *sifapp.SifchainApp {
	return sifapp.NewSifApp(log.NewNopLogger(), db, nil, true, map[int64]bool{}, sifapp.DefaultNodeHome, 5, sifapp.MakeTestEncodingConfig(), sifapp.EmptyAppOptions{})
}

func init() {
	families["restart"] = func(rng *Rng, n int, out *Out, replay string) {
		sifapp.SetConfig(false)
		cap_, _ := new(big.Int).SetString(disptypes.MaxMintAmount, 10)
		per, _ := new(big.Int).SetString(disptypes.MintAmountPerBlock, 10)
		eco, _ := sdk.AccAddressFromBech32(disptypes.EcoPool)
		mod := disptypes.GetDistributionModuleAddress()
		blocks := 0
		for blocks < n {
			db := dbm.NewMemDB()
			version.Version = "" // the binary that starts the chain
			app := openApp(db)
			enc := sifapp.MakeTestEncodingConfig()
			gs := sifapp.NewDefaultGenesisState(enc.Marshaler)
			stateBytes, err := json.MarshalIndent(gs, "", " ")
			if err != nil {
				panic(err)
			}
			chainID := []string{"sifchain-1", "sifchain-testnet-1", "sifchain-devnet-1", "localnet"}[rng.Intn(4)]
			app.InitChain(abci.RequestInitChain{ChainId: chainID, Validators: []abci.ValidatorUpdate{}, ConsensusParams: sifapp.DefaultConsensusParams, AppStateBytes: stateBytes})
			h := int64(1)
			// block 1: set the stage through the keepers inside a block (deliver state), then commit
			app.BeginBlock(abci.RequestBeginBlock{Header: tmproto.Header{Height: h, ChainID: chainID}})
			ctx := app.BaseApp.NewContext(false, tmproto.Header{Height: h, ChainID: chainID})
			j := int64(1 + rng.Intn(6))
			c0 := new(big.Int).Sub(cap_, new(big.Int).Mul(per, big.NewInt(j)))
			c0.Sub(c0, new(big.Int).Mod(rng.BigBits(70), per))
			app.DispensationKeeper.SetMintController(ctx, disptypes.MintController{TotalCounter: sdk.NewCoin("rowan", sdk.NewIntFromBigInt(c0))})
			asset := clptypes.NewAsset("cusdc")
			pool := clptypes.NewPool(&asset, sdk.NewUintFromBigInt(rng.Amount(90)), sdk.NewUintFromBigInt(rng.Amount(90)), sdk.NewUint(1000))
			if err := app.ClpKeeper.SetPool(ctx, &pool); err != nil {
				panic(err)
			}
			// software upgrades: 0 none; 1 one upgrade of a chain written by the previous binary; 2 an
			// upgrade with no version change; 3 two upgrades
			scenario := rng.Intn(4)
			u1 := int64(4 + rng.Intn(5))
			var rps []*clptypes.RewardPeriod
			var toks []string
			at := uint64(3)
			addPeriod := func(i int, start, end uint64, alloc sdk.Uint, m uint64) {
				def := sdk.OneDec()
				rps = append(rps, &clptypes.RewardPeriod{RewardPeriodId: fmt.Sprintf("rp%d", i), RewardPeriodStartBlock: start, RewardPeriodEndBlock: end,
					RewardPeriodAllocation: &alloc, RewardPeriodDefaultMultiplier: &def, RewardPeriodDistribute: false, RewardPeriodMod: m})
				toks = append(toks, fmt.Sprintf("%d %d %s %d", start, end, alloc, m))
			}
			if scenario >= 1 && u1 >= 5 && rng.Chance(2, 3) {
				// two OVERLAPPING periods around the upgrade height: P0, listed first, ends in the block before
				// the upgrade on a non-distribution block of its mod (its accumulator is not empty); P1, listed
				// after it, started earlier and is current from the upgrade block on
				p0end := uint64(u1 - 1)
				m0 := p0end - 3 + 1 // > p0end-3: the only distribution block of P0 is its first
				addPeriod(0, 3, p0end, sdk.NewUintFromBigInt(new(big.Int).Mul(new(big.Int).Add(rng.Amount(80), big.NewInt(1000)), big.NewInt(int64(p0end-2)))), m0)
				s1 := 4 + uint64(rng.Intn(int(p0end-3)))
				e1 := p0end + uint64(3+rng.Intn(6))
				addPeriod(1, s1, e1, sdk.NewUintFromBigInt(big.NewInt(int64(e1-s1+1)*int64(1+rng.Intn(20)))), uint64(1+rng.Intn(2)))
				at = e1 + 1
			} else {
				// two adjacent reward periods starting at block 3
				for i := 0; i < 2; i++ {
					length := uint64(2 + rng.Intn(8))
					addPeriod(i, at, at+length-1, sdk.NewUintFromBigInt(rng.Amount(90)), uint64(1+rng.Intn(4)))
					at += length
				}
			}
			params := app.ClpKeeper.GetRewardsParams(ctx)
			params.RewardPeriods = rps
			app.ClpKeeper.SetRewardParams(ctx, params)
			if scenario == 1 || scenario == 3 {
				vm := app.UpgradeKeeper.GetModuleVersionMap(ctx)
				for mod, v := range releasedVersions {
					if vm[mod] > v {
						vm[mod] = v
					}
				}
				app.UpgradeKeeper.SetModuleVersionMap(ctx, vm)
			}
			app.EndBlock(abci.RequestEndBlock{Height: h})
			app.Commit()

			view := func() sdk.Context { return app.BaseApp.NewContext(true, tmproto.Header{Height: h, ChainID: chainID}) }
			counter := func() string {
				c, found := app.DispensationKeeper.GetMintController(view())
				if !found {
					return "none"
				}
				return c.TotalCounter.Amount.String()
			}
			bal := func(a sdk.AccAddress) *big.Int { return app.BankKeeper.GetBalance(view(), a, "rowan").Amount.BigInt() }
			sup := func() *big.Int { return app.BankKeeper.GetSupply(view(), "rowan").Amount.BigInt() }

			out.Emit("mint.chain "+chainID, "ok", "chain."+chainID, false)
			out.Emit(fmt.Sprintf("mint.cfg %s 0", mod.String()), fmt.Sprintf("cap=%s per=%s eco=%s", disptypes.MaxMintAmount, disptypes.MintAmountPerBlock, disptypes.EcoPool), "cfg", false)
			out.Emit(fmt.Sprintf("mint.init %s %s %s %s", counter(), sup(), bal(eco), bal(mod)), "ok", "init", false)
			out.Emit("rw.periods "+strings.Join(toks, " "), "ok", "periods", false)
			out.Emit("rw.init "+app.ClpKeeper.GetBlockDistributionAccu(view()).String(), "ok", "init", false)
			last := int64(at) + 2
			// upgrade heights and plan names
			upgrades := map[int64]string{}
			if scenario >= 1 {
				upgradeSerial++
				upgrades[u1] = fmt.Sprintf("verif-release-%d-a", upgradeSerial)
				if scenario == 3 {
					upgrades[u1+int64(2+rng.Intn(4))] = fmt.Sprintf("verif-release-%d-b", upgradeSerial)
				}
			}
			c0s := counter()
			c0v, _ := new(big.Int).SetString(c0s, 10)
			mintedSum := big.NewInt(0)
			for h = 2; h <= last && blocks < n; h++ {
				cPrev, supPrev := counter(), sup()
				ecoPrevB, modPrevB := bal(eco), bal(mod)
				holdPrev := new(big.Int).Add(ecoPrevB, modPrevB)
				stepTag := "app.beginblock.dispensation.per-block"
				if name, ok := upgrades[h]; ok {
					// the node is stopped and the new release is started: its SetupHandlers registers, under its
					// version name, the handler that runs RunMigrations on the stored version map; the
					// x/upgrade BeginBlocker applies the plan in this block
					version.Version = name
					app = openApp(db)
					out.Emit(fmt.Sprintf("restart %d", h-1), fmt.Sprintf("c=%s accu=%s", counter(), app.ClpKeeper.GetBlockDistributionAccu(view())), "restart.release", true)
					stepTag = "app.upgrade.mint-state-preserved"
				}
				beginRes := protect(func() string {
					app.BeginBlock(abci.RequestBeginBlock{Header: tmproto.Header{Height: h, ChainID: chainID}})
					return "ok"
				})
				if beginRes != "ok" {
					out.Emit(fmt.Sprintf("mint.appbegin %d %s", h, cPrev), "panic", "begin.panic", false)
					break
				}
				if name, ok := upgrades[h]; ok {
					// the plan must have been applied by the x/upgrade BeginBlocker of this block
					actx := app.BaseApp.NewContext(false, tmproto.Header{Height: h, ChainID: chainID})
					if _, pending := app.UpgradeKeeper.GetUpgradePlan(actx); pending || app.UpgradeKeeper.GetDoneHeight(actx, name) != h {
						panic("harness: upgrade " + name + " was not applied")
					}
					out.Hist["upgrade.applied"]++
				}
				if rng.Chance(1, 4) {
					// a passed parameter-change proposal on the bank's SendEnabled parameters: rowan transfers
					// frozen ({rowan,false} or DefaultSendEnabled=false) or enabled again
					bctx := app.BaseApp.NewContext(false, tmproto.Header{Height: h, ChainID: chainID})
					bp := banktypes.Params{DefaultSendEnabled: true}
					def, row := "1", "1"
					switch rng.Intn(3) {
					case 0:
						bp.SendEnabled = []*banktypes.SendEnabled{{Denom: "rowan", Enabled: false}}
						row = "0"
					case 1:
						bp.DefaultSendEnabled = false
						def = "0"
					}
					app.BankKeeper.SetParams(bctx, bp)
					out.Emit(fmt.Sprintf("mint.bankparams %s %s", def, row), "ok", "bankparams."+def+row, false)
				}
				if name, ok := upgrades[h+2]; ok {
					// a passed SoftwareUpgradeProposal schedules the plan
					sctx := app.BaseApp.NewContext(false, tmproto.Header{Height: h, ChainID: chainID})
					if err := app.UpgradeKeeper.ScheduleUpgrade(sctx, upgradetypes.Plan{Name: name, Height: h + 2}); err != nil {
						panic(err)
					}
				}
				// the begin blockers have run; look at the deliver state before the end blockers
				dctx := app.BaseApp.NewContext(false, tmproto.Header{Height: h, ChainID: chainID})
				cMid := "none"
				if c, found := app.DispensationKeeper.GetMintController(dctx); found {
					cMid = c.TotalCounter.Amount.String()
				}
				supMid := app.BankKeeper.GetSupply(dctx, "rowan").Amount.BigInt()
				ecoMid := app.BankKeeper.GetBalance(dctx, eco, "rowan").Amount.BigInt()
				modMid := app.BankKeeper.GetBalance(dctx, mod, "rowan").Amount.BigInt()
				out.Emit(fmt.Sprintf("mint.appbegin %d %s", h, cPrev), fmt.Sprintf("c=%s sup=%s eco=%s mod=%s", cMid, supMid, ecoMid, modMid), "begin", cMid != cPrev)
				out.Emit(fmt.Sprintf("chk c20.mintstep tag=%s %s %s %s %s %s %s %s", stepTag, per, cPrev, cMid, supPrev, supMid, holdPrev, new(big.Int).Add(ecoMid, modMid)), "true", "chk.mintstep", false)
				// wired app, ecosystem pool not blocked: what was counted reached the pool, the module account keeps none of it
				if cp, ok1 := new(big.Int).SetString(cPrev, 10); ok1 && cMid != "none" {
					out.Emit(fmt.Sprintf("chk c20.minteco tag=app.beginblock.mint-reaches-eco-pool %s %s %s %s %s %s", cp, cMid, ecoPrevB, ecoMid, modPrevB, modMid), "true", "chk.minteco", false)
				}
				// the programme's running total: counter = initial counter + everything created in the begin blocks, and <= cap
				mintedSum.Add(mintedSum, new(big.Int).Sub(supMid, supPrev))
				if c0v != nil && cMid != "none" {
					out.Emit(fmt.Sprintf("chk c20.minttotal tag=app.mint.counter-is-total-minted-le-cap %s %s %s", c0v, mintedSum, cMid), "true", fmt.Sprintf("chk.minttotal.s%d", scenario), false)
				}
				app.EndBlock(abci.RequestEndBlock{Height: h})
				app.Commit()
				blocks++
				delta := new(big.Int).Sub(sup(), supMid)
				accu := app.ClpKeeper.GetBlockDistributionAccu(view())
				// the model's bank sees the reward coins as other traffic at the clp module: tell it the supply moved
				out.Emit(fmt.Sprintf("rw.end %d %s", h, delta), fmt.Sprintf("accu=%s minted=%s", accu, delta), "end", delta.Sign() != 0)
				if delta.Sign() != 0 {
					out.Emit(fmt.Sprintf("mint.addsupply %s", delta), "ok", "addsupply", false)
				}
				cur := app.ClpKeeper.GetCurrentRewardPeriod(view(), app.ClpKeeper.GetRewardsParams(view()))
				curS := "cur=none"
				if cur != nil {
					curS = fmt.Sprintf("cur=%d,%d,%s,%d", cur.RewardPeriodStartBlock, cur.RewardPeriodEndBlock, cur.RewardPeriodAllocation, cur.RewardPeriodMod)
				}
				rwTag := "clp.endblock.rewards.per-block"
				for uh := range upgrades {
					if h >= uh {
						rwTag = "clp.endblock.rewards.per-block.after-upgrade"
					}
				}
				out.Emit(fmt.Sprintf("chk c20.rwblock tag=%s %d %s %s", rwTag, h, delta, curS), "true", "chk.rwblock", false)
				if rng.Chance(1, 3) {
					// node restart: a new application object on the same database
					app = openApp(db)
					if app.LastBlockHeight() != h {
						panic(fmt.Sprintf("restart: height %d, expected %d", app.LastBlockHeight(), h))
					}
					out.Emit(fmt.Sprintf("restart %d", h), fmt.Sprintf("c=%s accu=%s", counter(), app.ClpKeeper.GetBlockDistributionAccu(view())), "restart", true)
				}
			}
		}
	}
}
