package main

// family "mint" (C20 a): the real dispensation BeginBlocker on the real keeper and bank
// (`sifapp.Setup` / `SetupWithBlacklist`), histories of blocks with the counter started near the
// cap, at the cap, beyond it, absent; with the ecosystem pool blocked (send fails) or not; with
// other traffic (coins arriving at the module account / the pool) in between.

import (
	"fmt"
	"math/big"

	sifapp "github.com/Sifchain/sifnode/app"
	"github.com/Sifchain/sifnode/x/dispensation"
	disptypes "github.com/Sifchain/sifnode/x/dispensation/types"
	sdk "github.com/cosmos/cosmos-sdk/types"
	minttypes "github.com/cosmos/cosmos-sdk/x/mint/types"
	tmproto "github.com/tendermint/tendermint/proto/tendermint/types"
)

type mintEnv struct {
	app     *sifapp.SifchainApp
	ctx     sdk.Context
	eco     sdk.AccAddress
	mod     sdk.AccAddress
	blocked bool
	height  int64
}

func newMintEnv(blocked bool) *mintEnv {
	sifapp.SetConfig(false)
	eco, err := sdk.AccAddressFromBech32(disptypes.EcoPool)
	if err != nil {
		panic(err)
	}
	var app *sifapp.SifchainApp
	if blocked {
		app = sifapp.SetupWithBlacklist(false, []sdk.AccAddress{eco})
	} else {
		app = sifapp.Setup(false)
	}
	e := &mintEnv{app: app, eco: eco, mod: disptypes.GetDistributionModuleAddress(), blocked: blocked, height: 1}
	e.ctx = app.BaseApp.NewContext(false, tmproto.Header{Height: 1})
	return e
}

func (e *mintEnv) counter() string {
	c, found := e.app.DispensationKeeper.GetMintController(e.ctx)
	if !found {
		return "none"
	}
	return c.TotalCounter.Amount.String()
}

func (e *mintEnv) sup() *big.Int {
	return e.app.BankKeeper.GetSupply(e.ctx, "rowan").Amount.BigInt()
}
func (e *mintEnv) bal(a sdk.AccAddress) *big.Int {
	return e.app.BankKeeper.GetBalance(e.ctx, a, "rowan").Amount.BigInt()
}

// other traffic: coins arrive at the module account or at the pool (minted by x/mint's module
// account, which exists for this purpose in the test app)
func (e *mintEnv) add(to sdk.AccAddress, amt *big.Int) {
	coins := sdk.NewCoins(sdk.NewCoin("rowan", sdk.NewIntFromBigInt(amt)))
	if err := e.app.BankKeeper.MintCoins(e.ctx, minttypes.ModuleName, coins); err != nil {
		panic(err)
	}
	if to.Equals(e.mod) {
		if err := e.app.BankKeeper.SendCoinsFromModuleToModule(e.ctx, minttypes.ModuleName, disptypes.ModuleName, coins); err != nil {
			panic(err)
		}
		return
	}
	// direct keeper send (not subject to the blocked-address list, which only guards module→account helpers)
	if err := e.app.BankKeeper.SendCoins(e.ctx, e.app.AccountKeeper.GetModuleAddress(minttypes.ModuleName), to, coins); err != nil {
		panic(err)
	}
}

func init() {
	families["mint"] = func(rng *Rng, n int, out *Out, replay string) {
		cap_, _ := new(big.Int).SetString(disptypes.MaxMintAmount, 10)
		per, _ := new(big.Int).SetString(disptypes.MintAmountPerBlock, 10)
		if cap_ == nil {
			cap_ = big.NewInt(0)
		}
		if per == nil {
			per = big.NewInt(0)
		}
		envs := []*mintEnv{newMintEnv(false), newMintEnv(true)}
		blocks := 0
		for blocks < n {
			e := envs[rng.Intn(2)]
			// the chain id of the block headers is a dimension of the history
			chainID := []string{"sifchain-1", "sifchain-testnet-1", "sifchain-devnet-1", "localnet", "", "sifchain-testnet-042"}[rng.Intn(6)]
			e.ctx = e.ctx.WithChainID(chainID)
			cid := chainID
			if cid == "" {
				cid = "-"
			}
			out.Emit("mint.chain "+cid, "ok", "chain."+cid, false)
			out.Emit(fmt.Sprintf("mint.cfg %s %s", e.mod.String(), b2s(e.blocked)),
				fmt.Sprintf("cap=%s per=%s eco=%s", disptypes.MaxMintAmount, disptypes.MintAmountPerBlock, disptypes.EcoPool), "cfg", false)
			// starting counter
			var c0 *big.Int
			absent := false
			switch rng.Intn(12) {
			case 0:
				c0 = new(big.Int).Set(cap_)
			case 1:
				c0 = new(big.Int).Add(cap_, rng.Amount(90))
			case 2:
				c0 = big.NewInt(0)
			case 3:
				absent = true
			default:
				// j whole blocks and a remainder below the cap
				j := int64(rng.Intn(7))
				var r *big.Int
				switch rng.Intn(5) {
				case 0:
					r = big.NewInt(0)
				case 1:
					r = big.NewInt(1)
				case 2:
					r = new(big.Int).Sub(per, big.NewInt(1))
				default:
					r = new(big.Int).Mod(rng.BigBits(80), new(big.Int).Add(per, big.NewInt(1)))
				}
				c0 = new(big.Int).Sub(cap_, new(big.Int).Mul(per, big.NewInt(j)))
				c0.Sub(c0, r)
				if c0.Sign() < 0 {
					c0.SetInt64(0)
				}
			}
			store := e.ctx.KVStore(e.app.GetKey(disptypes.StoreKey))
			if absent {
				store.Delete(disptypes.MintControllerPrefix)
			} else {
				e.app.DispensationKeeper.SetMintController(e.ctx, disptypes.MintController{TotalCounter: sdk.NewCoin("rowan", sdk.NewIntFromBigInt(c0))})
			}
			out.Emit(fmt.Sprintf("mint.init %s %s %s %s", e.counter(), e.sup(), e.bal(e.eco), e.bal(e.mod)), "ok", "init", false)
			nb := 1 + rng.Intn(12)
			startC := e.counter()
			for i := 0; i < nb; i++ {
				if rng.Chance(1, 4) {
					who, to := "mod", e.mod
					if rng.Bool() {
						who, to = "eco", e.eco
					}
					amt := rng.Amount(80)
					if amt.Sign() > 0 {
						e.add(to, amt)
						out.Emit(fmt.Sprintf("mint.add %s %s", who, amt), "ok", "add", false)
					}
				}
				cPrev, supPrev := e.counter(), e.sup()
				holdPrev := new(big.Int).Add(e.bal(e.eco), e.bal(e.mod))
				e.height++
				e.ctx = e.ctx.WithBlockHeight(e.height)
				ans := protect(func() string {
					dispensation.BeginBlocker(e.ctx, e.app.DispensationKeeper)
					return fmt.Sprintf("c=%s sup=%s eco=%s mod=%s", e.counter(), e.sup(), e.bal(e.eco), e.bal(e.mod))
				})
				cNow := e.counter()
				cls := "begin.minted"
				if cNow == cPrev {
					cls = "begin.nothing"
				} else if cNow == disptypes.MaxMintAmount {
					cls = "begin.last"
				}
				if e.blocked && cls != "begin.nothing" {
					cls += ".sendfail"
				}
				out.Emit(fmt.Sprintf("mint.begin %d %s", e.height, cPrev), ans, cls, cls != "begin.nothing")
				blocks++
				if cPrev != "none" && ans != "panic" {
					holdNow := new(big.Int).Add(e.bal(e.eco), e.bal(e.mod))
					out.Emit(fmt.Sprintf("chk c20.mintstep tag=disp.beginblock.counter %s %s %s %s %s %s %s", per, cPrev, cNow, supPrev, e.sup(), holdPrev, holdNow), "true", "chk.mintstep", false)
				}
			}
			if startC != "none" {
				s0, _ := new(big.Int).SetString(startC, 10)
				if s0.Cmp(cap_) <= 0 {
					out.Emit(fmt.Sprintf("chk c20.mintafter tag=disp.beginblock.after-n %s %s %d %s", per, startC, nb, e.counter()), "true", "chk.mintafter", false)
				}
			}
		}
	}
}

func b2s(b bool) string {
	if b {
		return "1"
	}
	return "0"
}
