package main

// family "rewards" (C20 b): the real clp EndBlocker over block histories with reward periods of any
// allocation / length / mod / distribute flag / multipliers (sequential, non-overlapping, with gaps),
// pools whose depth changes (also zero depth), liquidity providers one of which cannot receive
// (module account: its share is burned again).  Observed per block: the accumulator stored under
// key 0x0b and the change of the rowan supply across the EndBlocker (= net amount created).

import (
	"fmt"
	"math/big"
	"strings"

	sifapp "github.com/Sifchain/sifnode/app"
	"github.com/Sifchain/sifnode/x/clp"
	clptypes "github.com/Sifchain/sifnode/x/clp/types"
	sdk "github.com/cosmos/cosmos-sdk/types"
	authtypes "github.com/cosmos/cosmos-sdk/x/auth/types"
	"github.com/tendermint/tendermint/crypto"
	tmproto "github.com/tendermint/tendermint/proto/tendermint/types"
)

type rwEnv struct {
	app    *sifapp.SifchainApp
	ctx    sdk.Context
	assets []string
	lps    []sdk.AccAddress
	equal  []sdk.AccAddress // providers with equal shares (tiny-allocation chains)
	tiny   bool
}

func newRwEnv(rng *Rng) *rwEnv {
	sifapp.SetConfig(false)
	e := &rwEnv{app: sifapp.Setup(false), assets: []string{"cusdc", "ceth", "cdash"}}
	e.ctx = e.app.BaseApp.NewContext(false, tmproto.Header{Height: 1})
	for i := 0; i < 3; i++ {
		e.lps = append(e.lps, sdk.AccAddress(crypto.AddressHash([]byte(fmt.Sprintf("verif-lp-%d", i)))))
	}
	for i := 0; i < 6; i++ {
		e.equal = append(e.equal, sdk.AccAddress(crypto.AddressHash([]byte(fmt.Sprintf("verif-equal-lp-%d", i)))))
	}
	// a provider that cannot receive: the address of a module account is blocked in x/bank
	e.lps = append(e.lps, authtypes.NewModuleAddress("margin"))
	return e
}

// (re)write pools and providers: depth changes between blocks, providers join and leave
// tiny-allocation chains: one pool, 2-6 providers with EQUAL units (every share of a 1..3 unit
// block distribution rounds to zero for most of them)
func (e *rwEnv) equalProviders(rng *Rng) {
	asset := clptypes.NewAsset("cusdc")
	n := 2 + rng.Intn(5)
	depth := new(big.Int).Add(rng.Amount(80), big.NewInt(1000))
	pool := clptypes.NewPool(&asset, sdk.NewUintFromBigInt(depth), sdk.NewUintFromBigInt(depth), sdk.NewUint(uint64(1000*n)))
	if err := e.app.ClpKeeper.SetPool(e.ctx, &pool); err != nil {
		panic(err)
	}
	for j, a := range e.equal {
		if j < n {
			lp := clptypes.NewLiquidityProvider(&asset, sdk.NewUint(1000), a, e.ctx.BlockHeight())
			e.app.ClpKeeper.SetLiquidityProvider(e.ctx, &lp)
		} else if lp, err := e.app.ClpKeeper.GetLiquidityProvider(e.ctx, "cusdc", a.String()); err == nil {
			e.app.ClpKeeper.DestroyLiquidityProvider(e.ctx, lp.Asset.Symbol, lp.LiquidityProviderAddress)
		}
	}
}

func (e *rwEnv) shufflePools(rng *Rng) {
	if e.tiny {
		e.equalProviders(rng)
		return
	}
	npools := 1 + rng.Intn(len(e.assets))
	for i, sym := range e.assets {
		asset := clptypes.NewAsset(sym)
		if i >= npools {
			continue
		}
		var native *big.Int
		switch rng.Intn(6) {
		case 0:
			native = big.NewInt(0)
		case 1:
			native = big.NewInt(int64(1 + rng.Intn(10)))
		default:
			native = rng.Amount(100)
		}
		units := rng.Amount(90)
		if units.Sign() == 0 {
			units = big.NewInt(1)
		}
		pool := clptypes.NewPool(&asset, sdk.NewUintFromBigInt(native), sdk.NewUintFromBigInt(rng.Amount(100)), sdk.NewUintFromBigInt(units))
		if err := e.app.ClpKeeper.SetPool(e.ctx, &pool); err != nil {
			panic(err)
		}
		// providers of this pool: shares of the pool units
		for j, a := range e.lps {
			// every pool keeps at least its first provider (a pool with units but no provider is not a
			// reachable state: pool units = Σ provider units, property C02)
			if j > 0 && rng.Chance(1, 3) {
				lp, err := e.app.ClpKeeper.GetLiquidityProvider(e.ctx, sym, a.String())
				if err == nil {
					e.app.ClpKeeper.DestroyLiquidityProvider(e.ctx, lp.Asset.Symbol, lp.LiquidityProviderAddress)
				}
				continue
			}
			u := new(big.Int).Div(units, big.NewInt(int64(2+j)))
			lp := clptypes.NewLiquidityProvider(&asset, sdk.NewUintFromBigInt(u), a, e.ctx.BlockHeight())
			e.app.ClpKeeper.SetLiquidityProvider(e.ctx, &lp)
		}
	}
}

// rowan held by all provider accounts, Σ native balances of all pools, rowan of the clp module account
func (e *rwEnv) holdings() (*big.Int, *big.Int, *big.Int) {
	holders := big.NewInt(0)
	for _, a := range append(append([]sdk.AccAddress{}, e.lps...), e.equal...) {
		holders.Add(holders, e.app.BankKeeper.GetBalance(e.ctx, a, "rowan").Amount.BigInt())
	}
	pools := big.NewInt(0)
	for _, p := range e.app.ClpKeeper.GetPools(e.ctx) {
		pools.Add(pools, p.NativeAssetBalance.BigInt())
	}
	return holders, pools, e.app.BankKeeper.GetBalance(e.ctx, clptypes.GetCLPModuleAddress(), "rowan").Amount.BigInt()
}

type rwPeriod struct {
	start, end, mod uint64
	alloc           *big.Int
	total           *big.Int // observed: created at heights of this period
}

func (p *rwPeriod) String() string { return fmt.Sprintf("%d %d %s %d", p.start, p.end, p.alloc, p.mod) }

func (e *rwEnv) genPeriods(rng *Rng, h0 uint64) ([]*rwPeriod, []*clptypes.RewardPeriod) {
	var ps []*rwPeriod
	var rps []*clptypes.RewardPeriod
	n := 1 + rng.Intn(3)
	at := h0 + uint64(rng.Intn(3))
	for i := 0; i < n; i++ {
		length := uint64(1 + rng.Intn(12))
		var alloc *big.Int
		switch rng.Intn(8) {
		case 0:
			alloc = big.NewInt(0)
		case 1:
			alloc = big.NewInt(int64(rng.Intn(30)))
		case 2:
			alloc = big.NewInt(1000)
		default:
			alloc = rng.Amount(100)
		}
		mod := uint64(rng.Intn(7))
		if rng.Chance(1, 10) {
			mod = length + uint64(rng.Intn(3))
		}
		if e.tiny {
			// 1..3 base units per block, or 1..40 per period
			if rng.Bool() {
				alloc = big.NewInt(int64(length) * int64(1+rng.Intn(3)))
			} else {
				alloc = big.NewInt(int64(1 + rng.Intn(40)))
			}
			mod = uint64(rng.Intn(3))
		}
		p := &rwPeriod{start: at, end: at + length - 1, mod: mod, alloc: alloc, total: big.NewInt(0)}
		ps = append(ps, p)
		au := sdk.NewUintFromBigInt(alloc)
		def := sdk.NewDecWithPrec(int64(rng.Intn(3)), 0)
		if rng.Chance(2, 3) {
			def = sdk.OneDec()
		}
		var mults []*clptypes.PoolMultiplier
		if rng.Chance(1, 2) {
			m := sdk.NewDecWithPrec(int64(rng.Intn(25)), 1)
			mults = append(mults, &clptypes.PoolMultiplier{PoolMultiplierAsset: e.assets[rng.Intn(len(e.assets))], Multiplier: &m})
		}
		rps = append(rps, &clptypes.RewardPeriod{RewardPeriodId: fmt.Sprintf("rp%d", i), RewardPeriodStartBlock: p.start, RewardPeriodEndBlock: p.end,
			RewardPeriodAllocation: &au, RewardPeriodPoolMultipliers: mults, RewardPeriodDefaultMultiplier: &def,
			RewardPeriodDistribute: rng.Bool() || (e.tiny && rng.Chance(2, 3)), RewardPeriodMod: mod})
		at = p.end + 1 + uint64(rng.Intn(4)/3*(1+rng.Intn(3))) // mostly adjacent, sometimes a gap
	}
	return ps, rps
}

func init() {
	families["rewards"] = func(rng *Rng, n int, out *Out, replay string) {
		blocks := 0
		for blocks < n {
			e := newRwEnv(rng)
			e.tiny = rng.Chance(1, 3)
			h := uint64(1 + rng.Intn(50))
			// several schedules in a row on the same chain: the accumulator left by one is what the next starts with
			for round := 0; round < 4 && blocks < n; round++ {
				ps, rps := e.genPeriods(rng, h)
				msg := clptypes.MsgAddRewardPeriodRequest{Signer: e.lps[0].String(), RewardPeriods: rps}
				if err := msg.ValidateBasic(); err != nil {
					continue
				}
				params := e.app.ClpKeeper.GetRewardsParams(e.ctx)
				params.RewardPeriods = rps
				e.app.ClpKeeper.SetRewardParams(e.ctx, params)
				var toks []string
				for _, p := range ps {
					toks = append(toks, p.String())
				}
				out.Emit("rw.periods "+strings.Join(toks, " "), "ok", "periods", false)
				accu0 := e.app.ClpKeeper.GetBlockDistributionAccu(e.ctx)
				out.Emit("rw.init "+accu0.String(), "ok", "init", false)
				last := ps[len(ps)-1].end + uint64(rng.Intn(3))
				total := big.NewInt(0)
				for ; h <= last && blocks < n; h++ {
					if rng.Chance(1, 3) || h == ps[0].start {
						e.shufflePools(rng)
					}
					e.ctx = e.ctx.WithBlockHeight(int64(h))
					supBefore := e.app.BankKeeper.GetSupply(e.ctx, "rowan").Amount
					cur := e.app.ClpKeeper.GetCurrentRewardPeriod(e.ctx, e.app.ClpKeeper.GetRewardsParams(e.ctx))
					holdersBefore, poolsBefore, modBefore := e.holdings()
					res := protect(func() string {
						clp.EndBlocker(e.ctx, e.app.ClpKeeper)
						return "ok"
					})
					holdersAfter, poolsAfter, modAfter := e.holdings()
					supAfter := e.app.BankKeeper.GetSupply(e.ctx, "rowan").Amount
					accu := e.app.ClpKeeper.GetBlockDistributionAccu(e.ctx)
					delta := supAfter.Sub(supBefore)
					blocks++
					if res == "panic" || delta.IsNegative() {
						out.Emit(fmt.Sprintf("rw.end %d 0", h), "panic-or-negative "+delta.String(), "end.panic", false)
						continue
					}
					cls := "end.idle"
					if cur != nil && !cur.RewardPeriodAllocation.IsZero() {
						cls = "end.carry"
						if accu.IsZero() {
							cls = "end.dist"
							if delta.IsZero() {
								cls = "end.dist.nothing"
							}
						}
					}
					out.Emit(fmt.Sprintf("rw.end %d %s", h, delta), fmt.Sprintf("accu=%s minted=%s", accu, delta), cls, !delta.IsZero())
					curS := "cur=none"
					if cur != nil {
						curS = fmt.Sprintf("cur=%d,%d,%s,%d", cur.RewardPeriodStartBlock, cur.RewardPeriodEndBlock, cur.RewardPeriodAllocation, cur.RewardPeriodMod)
					}
					out.Emit(fmt.Sprintf("chk c20.rwblock tag=clp.endblock.rewards.per-block %d %s %s", h, delta, curS), "true", "chk.rwblock", false)
					// where the created coins are: providers' accounts + pools' native balances (module account backs the latter)
					paid, pooled, modDelta := new(big.Int).Sub(holdersAfter, holdersBefore), new(big.Int).Sub(poolsAfter, poolsBefore), new(big.Int).Sub(modAfter, modBefore)
					if paid.Sign() >= 0 && pooled.Sign() >= 0 && modDelta.Sign() >= 0 {
						acls := "chk.rwaccount"
						if e.tiny {
							acls = "chk.rwaccount.tiny"
						}
						out.Emit(fmt.Sprintf("chk c20.rwaccount tag=clp.endblock.rewards.in-pool-or-provider %s %s %s %s", delta, paid, pooled, modDelta), "true", acls, false)
					} else {
						out.Emit(fmt.Sprintf("chk c20.rwaccount tag=clp.endblock.rewards.in-pool-or-provider.negative %s 0 0 1", delta), "true", "chk.rwaccount.neg", false)
					}
					total.Add(total, delta.BigInt())
					for _, p := range ps {
						if p.start <= h && h <= p.end {
							p.total.Add(p.total, delta.BigInt())
							out.Emit(fmt.Sprintf("chk c20.rwperiod tag=clp.endblock.rewards.per-period %s %s", p.String(), p.total), "true", "chk.rwperiod", false)
						}
					}
					out.Emit(fmt.Sprintf("chk c20.rwcum tag=clp.endblock.rewards.cumulative %s %s", total, accu), "true", "chk.rwcum", false)
				}
			}
		}
	}
}
