package main

// family "disp" (C11): L1 histories on the real dispensation keeper (`sifapp.SetupWithBlacklist`,
// a CacheContext per message written only on success, ValidateBasic first — the discipline of
// baseapp).  Operations: create-distribution (several per block, duplicate recipients,
// multi-denom, insufficient funds, invalid outputs), run-distribution (right/wrong runner, name,
// type; counts 1..20 and invalid ones), create-claim, next block (real BeginBlocker), funding and
// transfers.  After every operation: `d.obs` (whole module store, in iteration order) and `d.bal`
// lines compared with the model, and `chk` lines carrying the implementation's own state for the
// Lean predicates of Sif/Spec/C11.

import (
	"fmt"
	"math/big"
	"sort"
	"strings"

	sifapp "github.com/Sifchain/sifnode/app"
	"github.com/Sifchain/sifnode/x/dispensation"
	dispkeeper "github.com/Sifchain/sifnode/x/dispensation/keeper"
	disptypes "github.com/Sifchain/sifnode/x/dispensation/types"
	sdk "github.com/cosmos/cosmos-sdk/types"
	authtypes "github.com/cosmos/cosmos-sdk/x/auth/types"
	banktypes "github.com/cosmos/cosmos-sdk/x/bank/types"
	minttypes "github.com/cosmos/cosmos-sdk/x/mint/types"
	"github.com/tendermint/tendermint/crypto"
	tmproto "github.com/tendermint/tendermint/proto/tendermint/types"
)

var dispDenoms = []string{"ceth", "cusdc", "rowan"}

type dispEnv struct {
	app           *sifapp.SifchainApp
	ctx           sdk.Context
	srv           disptypes.MsgServer
	mod           sdk.AccAddress
	users         []sdk.AccAddress // ordinary accounts
	rcpts         []string         // recipient pool: users + blocked addresses
	names         []string         // distribution names created so far
	created       map[string]sdk.Coins
	paid          map[string]sdk.Coins
	height        int64
	out           *Out
	pendingChk    string     // emitted by after(): the supply check of the last message
	pendingCreate string     // emitted by after(): the escrow check of the last create message
	createCtx     *createObs // set before delivering a create message
	extra         []string   // further recipient accounts of the big directed distribution (observed in runs)
}

func coinsStr(c sdk.Coins) string {
	if len(c) == 0 {
		return "-"
	}
	parts := make([]string, len(c))
	for i, x := range c {
		parts[i] = x.Denom + ":" + x.Amount.String()
	}
	return strings.Join(parts, ",")
}

func recStr(r *disptypes.DistributionRecord) string {
	return fmt.Sprintf("%s|%d|%s|%s|%s|%d|%d", r.DistributionName, int32(r.DistributionType), r.RecipientAddress, coinsStr(r.Coins), r.AuthorizedRunner, r.DistributionStartHeight, r.DistributionCompletedHeight)
}

func (e *dispEnv) storeDump(status disptypes.DistributionStatus, withKey bool) string {
	it := e.app.DispensationKeeper.GetDistributionRecordsIterator(e.ctx, status)
	defer it.Close()
	var parts []string
	for ; it.Valid(); it.Next() {
		var dr disptypes.DistributionRecord
		e.app.DispensationKeeper.Codec().MustUnmarshal(it.Value(), &dr)
		s := recStr(&dr)
		if withKey {
			s = string(it.Key()[1:]) + "#" + s
		}
		parts = append(parts, s)
	}
	if len(parts) == 0 {
		return "-"
	}
	return strings.Join(parts, ";")
}

func (e *dispEnv) keysDump(prefix []byte) string {
	store := e.ctx.KVStore(e.app.GetKey(disptypes.StoreKey))
	it := sdk.KVStorePrefixIterator(store, prefix)
	defer it.Close()
	var parts []string
	for ; it.Valid(); it.Next() {
		parts = append(parts, string(it.Key()[len(prefix):]))
	}
	if len(parts) == 0 {
		return "-"
	}
	return strings.Join(parts, ";")
}

func (e *dispEnv) obs() string {
	return fmt.Sprintf("pending=%s completed=%s failed=%s dists=%s claims=%s",
		e.storeDump(disptypes.DistributionStatus_DISTRIBUTION_STATUS_PENDING, true),
		e.storeDump(disptypes.DistributionStatus_DISTRIBUTION_STATUS_COMPLETED, true),
		e.storeDump(disptypes.DistributionStatus_DISTRIBUTION_STATUS_FAILED, true),
		e.keysDump(disptypes.DistributionsPrefix), e.keysDump(disptypes.UserClaimPrefix))
}

func keyCoinsDump(m map[string]sdk.Coins) string {
	keys := make([]string, 0, len(m))
	for k := range m {
		keys = append(keys, k)
	}
	sort.Strings(keys)
	var parts []string
	for _, k := range keys {
		parts = append(parts, k+"|"+coinsStr(m[k]))
	}
	if len(parts) == 0 {
		return "-"
	}
	return strings.Join(parts, ";")
}

func (e *dispEnv) balances(accts []string) map[string]sdk.Coins {
	res := map[string]sdk.Coins{}
	for _, a := range accts {
		addr, err := sdk.AccAddressFromBech32(a)
		if err != nil {
			continue
		}
		res[a] = e.app.BankKeeper.GetAllBalances(e.ctx, addr)
	}
	return res
}

// emit the observation and invariant lines that follow every operation
func (e *dispEnv) after() {
	if e.pendingCreate != "" {
		e.out.Emit(e.pendingCreate, "true", "chk.create", false)
		e.pendingCreate = ""
	}
	if e.pendingChk != "" {
		e.out.Emit(e.pendingChk, "true", "chk.txsupply", false)
		e.pendingChk = ""
	}
	e.out.Emit("d.obs", e.obs(), "obs", false)
	// balances of the module account and of a few accounts
	accts := append([]string{e.mod.String(), disptypes.EcoPool}, e.rcpts...)
	for _, a := range accts {
		addr, err := sdk.AccAddressFromBech32(a)
		if err != nil {
			continue
		}
		for _, d := range dispDenoms {
			e.out.Emit(fmt.Sprintf("d.bal %s %s", a, d), e.app.BankKeeper.GetBalance(e.ctx, addr, d).Amount.String(), "bal", false)
		}
	}
	var bals []string
	for _, d := range dispDenoms {
		bals = append(bals, e.app.BankKeeper.GetBalance(e.ctx, e.mod, d).Amount.String())
	}
	pend := e.storeDump(disptypes.DistributionStatus_DISTRIBUTION_STATUS_PENDING, false)
	fail := e.storeDump(disptypes.DistributionStatus_DISTRIBUTION_STATUS_FAILED, false)
	comp := e.storeDump(disptypes.DistributionStatus_DISTRIBUTION_STATUS_COMPLETED, false)
	e.out.Emit(fmt.Sprintf("chk c11.escrow tag=disp.escrow-covers %s %s pending=%s failed=%s", strings.Join(dispDenoms, ","), strings.Join(bals, ","), pend, fail), "true", "chk.escrow", false)
	e.out.Emit(fmt.Sprintf("chk c11.ledger tag=disp.ledger.paid-once %s created=%s paid=%s pending=%s failed=%s completed=%s", strings.Join(dispDenoms, ","), keyCoinsDump(e.created), keyCoinsDump(e.paid), pend, fail, comp), "true", "chk.ledger", false)
}

// deliver runs one message the way baseapp does: ValidateBasic, handler on a cache, write on success
type createObs struct {
	distributor string
	outs        []banktypes.Output
}

func (e *dispEnv) supplies() string {
	var parts []string
	for _, d := range dispDenoms {
		parts = append(parts, e.app.BankKeeper.GetSupply(e.ctx, d).Amount.String())
	}
	return strings.Join(parts, ",")
}

func (e *dispEnv) deliver(validate func() error, handle func(ctx sdk.Context) error) (res string) {
	before := e.supplies()
	// C20: a message never creates coins — judged after the message, whatever its result
	defer func() {
		e.pendingChk = fmt.Sprintf("chk c20.txsupply tag=disp.msg.supply-unchanged %s %s", before, e.supplies())
	}()
	// a create message moves exactly the sum of ITS outputs from the distributor to the module account
	if co := e.createCtx; co != nil {
		e.createCtx = nil
		if daddr, err := sdk.AccAddressFromBech32(co.distributor); err == nil {
			distBefore := e.app.BankKeeper.GetAllBalances(e.ctx, daddr)
			modBefore := e.app.BankKeeper.GetAllBalances(e.ctx, e.mod)
			defer func() {
				dec, neg1 := distBefore.SafeSub(e.app.BankKeeper.GetAllBalances(e.ctx, daddr))
				inc, neg2 := e.app.BankKeeper.GetAllBalances(e.ctx, e.mod).SafeSub(modBefore)
				ds, ms := coinsStr(dec), coinsStr(inc)
				if neg1 {
					ds = "NEGATIVE"
				}
				if neg2 {
					ms = "NEGATIVE"
				}
				var os []string
				for _, o := range co.outs {
					os = append(os, coinsStr(o.Coins))
				}
				if len(os) == 0 {
					os = []string{"-"}
				}
				e.pendingCreate = fmt.Sprintf("chk c11.create tag=disp.create.moves-exactly-outputs %s %s outs=%s dist=%s mod=%s", strings.Join(dispDenoms, ","), b2s(res == "ok"), strings.Join(os, ";"), ds, ms)
			}()
		}
	}
	if err := validate(); err != nil {
		return "err"
	}
	cctx, write := e.ctx.CacheContext()
	res = protect(func() string {
		if err := handle(cctx); err != nil {
			return "err"
		}
		return "ok"
	})
	if res == "ok" {
		write()
	}
	return res
}

func newDispEnv(rng *Rng, out *Out) *dispEnv {
	sifapp.SetConfig(false)
	e := &dispEnv{out: out, created: map[string]sdk.Coins{}, paid: map[string]sdk.Coins{}, height: 1}
	for i := 0; i < 6; i++ {
		e.users = append(e.users, sdk.AccAddress(crypto.AddressHash([]byte(fmt.Sprintf("verif-user-%d-%d", i, rng.Intn(1000))))))
	}
	black := sdk.AccAddress(crypto.AddressHash([]byte("verif-blacklisted")))
	e.app = sifapp.SetupWithBlacklist(false, []sdk.AccAddress{black})
	e.ctx = e.app.BaseApp.NewContext(false, tmproto.Header{Height: 1})
	e.srv = dispkeeper.NewMsgServerImpl(e.app.DispensationKeeper)
	e.mod = disptypes.GetDistributionModuleAddress()
	for _, u := range e.users {
		e.rcpts = append(e.rcpts, u.String())
	}
	blockedList := []string{black.String(), e.mod.String(), authtypes.NewModuleAddress("clp").String()}
	e.rcpts = append(e.rcpts, blockedList...)
	// the model is told every blocked address of the bank keeper that can occur on a line
	out.Emit(fmt.Sprintf("d.cfg %s %s", e.mod.String(), strings.Join(blockedList, ",")),
		fmt.Sprintf("max=%d per=%s", disptypes.MaxRecordsPerBlock, disptypes.MintAmountPerBlock), "cfg", false)
	return e
}

func (e *dispEnv) genCoins(rng *Rng, allowInvalid bool) sdk.Coins {
	var c sdk.Coins
	n := 1 + rng.Intn(2)
	if rng.Chance(1, 8) {
		n = 3
	}
	perm := []int{0, 1, 2}
	// choose n distinct denoms in sorted order
	chosen := map[int]bool{}
	for len(chosen) < n {
		chosen[perm[rng.Intn(3)]] = true
	}
	for i, d := range dispDenoms {
		if chosen[i] {
			var amt *big.Int
			switch rng.Intn(4) {
			case 0:
				amt = big.NewInt(int64(1 + rng.Intn(5)))
			case 1:
				amt = rng.Amount(70)
			default:
				amt = big.NewInt(int64(1 + rng.Intn(1000)))
			}
			if amt.Sign() == 0 {
				amt = big.NewInt(1)
			}
			c = append(c, sdk.Coin{Denom: d, Amount: sdk.NewIntFromBigInt(amt)})
		}
	}
	if allowInvalid && rng.Chance(1, 60) {
		switch rng.Intn(2) {
		case 0:
			c[0].Amount = sdk.ZeroInt()
		case 1:
			c = append(c, c[len(c)-1]) // duplicate denom
		}
	}
	return c
}

func (e *dispEnv) user(rng *Rng) string { return e.users[rng.Intn(len(e.users))].String() }

func (e *dispEnv) opFund(rng *Rng, i int) {
	a := e.users[rng.Intn(len(e.users))]
	if i >= 0 {
		a = e.users[i%len(e.users)]
	}
	var c sdk.Coins
	for _, d := range dispDenoms {
		if i >= 0 || rng.Chance(2, 3) {
			amt := big.NewInt(int64(1 + rng.Intn(5000)))
			if i >= 0 || rng.Chance(3, 4) {
				amt = new(big.Int).Add(rng.Amount(75), new(big.Int).Exp(big.NewInt(10), big.NewInt(24), nil))
			}
			if amt.Sign() > 0 {
				c = append(c, sdk.NewCoin(d, sdk.NewIntFromBigInt(amt)))
			}
		}
	}
	if len(c) == 0 {
		c = sdk.NewCoins(sdk.NewCoin("rowan", sdk.NewInt(1000)))
	}
	if err := sifapp.AddCoinsToAccount(minttypes.ModuleName, e.app.BankKeeper, e.ctx, a, c); err != nil {
		panic(err)
	}
	e.out.Emit(fmt.Sprintf("d.fund %s %s", a.String(), coinsStr(c)), "ok", "fund", false)
}

func (e *dispEnv) opTransfer(rng *Rng) {
	f := e.users[rng.Intn(len(e.users))]
	t := e.users[rng.Intn(len(e.users))]
	c := e.genCoins(rng, false)
	res := "ok"
	cctx, write := e.ctx.CacheContext()
	if err := e.app.BankKeeper.SendCoins(cctx, f, t, c); err != nil {
		res = "err"
	} else {
		write()
	}
	e.out.Emit(fmt.Sprintf("d.transfer %s %s %s", f.String(), t.String(), coinsStr(c)), res, "transfer."+res, false)
}

func (e *dispEnv) opBegin() {
	e.height++
	e.ctx = e.ctx.WithBlockHeight(e.height)
	ans := protect(func() string {
		dispensation.BeginBlocker(e.ctx, e.app.DispensationKeeper)
		c, found := e.app.DispensationKeeper.GetMintController(e.ctx)
		cs := "none"
		if found {
			cs = c.TotalCounter.Amount.String()
		}
		return fmt.Sprintf("ok h=%d c=%s", e.height, cs)
	})
	e.out.Emit("d.begin", ans, "begin", false)
}

func (e *dispEnv) opCreate(rng *Rng) {
	distributor := e.user(rng)
	runner := e.user(rng)
	if rng.Chance(1, 40) {
		runner = "bad_addr"
	}
	t := int32(1 + rng.Intn(3))
	if rng.Chance(1, 30) {
		t = []int32{0, 7}[rng.Intn(2)]
	}
	n := 1 + rng.Intn(5)
	if rng.Chance(1, 40) {
		n = 0
	}
	var outs []banktypes.Output
	var toks []string
	for i := 0; i < n; i++ {
		a := e.rcpts[rng.Intn(len(e.rcpts))]
		if i > 0 && rng.Chance(1, 4) {
			a = outs[rng.Intn(len(outs))].Address // duplicate recipient
		}
		if rng.Chance(1, 60) {
			a = "bad_addr"
		}
		// bech32 is case-insensitive: an all-upper-case spelling is valid and names the same account
		if rng.Chance(1, 5) {
			if a == strings.ToUpper(a) {
				a = strings.ToLower(a)
			} else {
				a = strings.ToUpper(a)
			}
		}
		c := e.genCoins(rng, true)
		outs = append(outs, banktypes.Output{Address: a, Coins: c})
		toks = append(toks, a, coinsStr(c))
	}
	msg := disptypes.MsgCreateDistribution{Distributor: distributor, AuthorizedRunner: runner, DistributionType: disptypes.DistributionType(t), Output: outs}
	e.createCtx = &createObs{msg.Distributor, msg.Output}
	res := e.deliver(msg.ValidateBasic, func(ctx sdk.Context) error {
		_, err := e.srv.CreateDistribution(sdk.WrapSDKContext(ctx), &msg)
		return err
	})
	name := fmt.Sprintf("%d_%s", e.height, distributor)
	if res == "ok" {
		e.names = append(e.names, name)
		for _, o := range outs {
			k := fmt.Sprintf("%s|%d|%s", name, t, o.Address)
			e.created[k] = e.created[k].Add(o.Coins...)
		}
	}
	e.out.Emit(strings.TrimSpace(fmt.Sprintf("d.create %s %s %d %s", distributor, runner, t, strings.Join(toks, " "))), res, "create."+res, res == "ok")
}

func (e *dispEnv) opRun(rng *Rng) {
	// mostly aim at an existing pending record
	var name, runner string
	t := int32(1 + rng.Intn(3))
	pend := e.app.DispensationKeeper.GetRecords(e.ctx).DistributionRecords
	var pendOnly []*disptypes.DistributionRecord
	for _, r := range pend {
		if r.DistributionStatus == disptypes.DistributionStatus_DISTRIBUTION_STATUS_PENDING {
			pendOnly = append(pendOnly, r)
		}
	}
	if len(pendOnly) > 0 && rng.Chance(9, 10) {
		r := pendOnly[rng.Intn(len(pendOnly))]
		name, runner, t = r.DistributionName, r.AuthorizedRunner, int32(r.DistributionType)
	} else if len(e.names) > 0 {
		name, runner = e.names[rng.Intn(len(e.names))], e.user(rng)
	} else {
		name, runner = "1_nobody", e.user(rng)
	}
	kind := "right"
	switch rng.Intn(12) {
	case 0:
		runner = e.user(rng)
		kind = "otherrunner"
	case 1:
		if len(e.names) > 0 {
			name = e.names[rng.Intn(len(e.names))]
		}
		kind = "othername"
	case 2:
		t = int32(1 + rng.Intn(3))
		kind = "othertype"
	}
	count := int64(1 + rng.Intn(20))
	switch rng.Intn(30) {
	case 0:
		count = 0
	case 1:
		count = 21
	case 2:
		count = -1
	case 3, 4, 5:
		count = 1
	case 6, 7:
		count = 2
	}
	e.runMsg(runner, name, t, count, kind)
}

func (e *dispEnv) runMsg(runner, name string, t int32, count int64, kind string) {
	pend := e.app.DispensationKeeper.GetRecords(e.ctx).DistributionRecords
	msg := disptypes.MsgRunDistribution{AuthorizedRunner: runner, DistributionName: name, DistributionType: disptypes.DistributionType(t), DistributionCount: count}
	pre := e.storeDump(disptypes.DistributionStatus_DISTRIBUTION_STATUS_PENDING, false)
	preCompleted := map[string]bool{}
	for _, r := range pend {
		if r.DistributionStatus == disptypes.DistributionStatus_DISTRIBUTION_STATUS_COMPLETED {
			preCompleted[recStr(r)] = true
		}
	}
	accts := append(append([]string{}, e.rcpts...), e.extra...)
	before := e.balances(accts)
	res := e.deliver(msg.ValidateBasic, func(ctx sdk.Context) error {
		_, err := e.srv.RunDistribution(sdk.WrapSDKContext(ctx), &msg)
		return err
	})
	e.out.Emit(fmt.Sprintf("d.run %s %s %d %d", runner, name, t, count), res, "run."+kind+"."+res, res == "ok")
	// observed effects of this transaction
	after := e.balances(accts)
	var deltas []string
	npaid := 0
	for _, a := range accts {
		if a == e.mod.String() {
			continue
		}
		d, neg := after[a].SafeSub(before[a])
		if neg {
			deltas = append(deltas, a+"|NEGATIVE")
			continue
		}
		if !d.IsZero() {
			deltas = append(deltas, a+"|"+coinsStr(d))
			k := fmt.Sprintf("%s|%d|%s", name, t, a)
			e.paid[k] = e.paid[k].Add(d...)
			npaid++
		}
	}
	ds := "-"
	if len(deltas) > 0 {
		ds = strings.Join(deltas, ";")
	}
	post := e.storeDump(disptypes.DistributionStatus_DISTRIBUTION_STATUS_PENDING, false)
	postFailed := e.storeDump(disptypes.DistributionStatus_DISTRIBUTION_STATUS_FAILED, false)
	e.out.Emit(fmt.Sprintf("chk c11.run tag=disp.run.paid-by-runner-in-full %s %s %s %d %d pre=%s post=%s postfailed=%s deltas=%s", strings.Join(dispDenoms, ","), runner, name, t, count, pre, post, postFailed, ds), "true", fmt.Sprintf("chk.run.paid%d", minInt(npaid, 3)), false)
	// nothing is silently dropped: whatever left pending was paid in full or is in the failed store
	e.out.Emit(fmt.Sprintf("chk c11.leavers tag=disp.run.leaver-paid-or-failed %s pre=%s post=%s postfailed=%s deltas=%s", strings.Join(dispDenoms, ","), pre, post,
		e.storeDump(disptypes.DistributionStatus_DISTRIBUTION_STATUS_FAILED, false), ds), "true", "chk.leavers", false)
	// claims: one per (user,type); the claims of records completed by this run are gone
	var newly []string
	for _, r := range e.app.DispensationKeeper.GetRecords(e.ctx).DistributionRecords {
		if r.DistributionStatus == disptypes.DistributionStatus_DISTRIBUTION_STATUS_COMPLETED && !preCompleted[recStr(r)] {
			newly = append(newly, recStr(r))
		}
	}
	nw := "-"
	if len(newly) > 0 {
		nw = strings.Join(newly, ";")
	}
	e.out.Emit(fmt.Sprintf("chk c11.claims tag=disp.claim.one-per-account-and-type claims=%s paid=%s", e.keysDump(disptypes.UserClaimPrefix), nw), "true", "chk.claims", false)
}

func minInt(a, b int) int {
	if a < b {
		return a
	}
	return b
}

func (e *dispEnv) opClaim(rng *Rng) {
	user := e.rcpts[rng.Intn(len(e.rcpts))]
	if rng.Chance(1, 3) {
		user = strings.ToUpper(user) // the same account in its other valid spelling
	}
	if rng.Chance(1, 30) {
		user = "bad_addr"
	}
	t := int32(2 + rng.Intn(2))
	if rng.Chance(1, 10) {
		t = int32(rng.Intn(2)) // 0 or 1: not claimable
	}
	msg := disptypes.MsgCreateUserClaim{UserClaimAddress: user, UserClaimType: disptypes.DistributionType(t)}
	res := e.deliver(msg.ValidateBasic, func(ctx sdk.Context) error {
		_, err := e.srv.CreateUserClaim(sdk.WrapSDKContext(ctx), &msg)
		return err
	})
	e.out.Emit(fmt.Sprintf("d.claim %s %d", user, t), res, "claim."+res, res == "ok")
	e.out.Emit(fmt.Sprintf("chk c11.claims tag=disp.claim.one-per-account-and-type claims=%s paid=-", e.keysDump(disptypes.UserClaimPrefix)), "true", "chk.claims", false)
}

// directed history (DESIGN 4/C11 candidate): same block, same distributor and type, two creations
// with different runners and a shared recipient: the second merges into the pending record and
// overwrites its AuthorizedRunner; the first runner's run then pays nothing, the second runner's
// run pays the merged record in full.
func (e *dispEnv) directedMerge(rng *Rng) {
	D, R1, R2, U, V := e.users[0].String(), e.users[1].String(), e.users[2].String(), e.users[3].String(), e.rcpts[len(e.rcpts)-1]
	mk := func(runner string, outs []banktypes.Output) {
		msg := disptypes.MsgCreateDistribution{Distributor: D, AuthorizedRunner: runner, DistributionType: disptypes.DistributionType_DISTRIBUTION_TYPE_AIRDROP, Output: outs}
		e.createCtx = &createObs{msg.Distributor, msg.Output}
		res := e.deliver(msg.ValidateBasic, func(ctx sdk.Context) error {
			_, err := e.srv.CreateDistribution(sdk.WrapSDKContext(ctx), &msg)
			return err
		})
		name := fmt.Sprintf("%d_%s", e.height, D)
		var toks []string
		for _, o := range outs {
			toks = append(toks, o.Address, coinsStr(o.Coins))
			if res == "ok" {
				k := fmt.Sprintf("%s|%d|%s", name, 1, o.Address)
				e.created[k] = e.created[k].Add(o.Coins...)
			}
		}
		if res == "ok" {
			e.names = append(e.names, name)
		}
		e.out.Emit(fmt.Sprintf("d.create %s %s 1 %s", D, runner, strings.Join(toks, " ")), res, "directed.create."+res, true)
		e.after()
	}
	c := func(n int64) sdk.Coins { return sdk.NewCoins(sdk.NewCoin("rowan", sdk.NewInt(n))) }
	mk(R1, []banktypes.Output{{Address: U, Coins: c(5)}, {Address: U, Coins: c(2)}})
	mk(R2, []banktypes.Output{{Address: U, Coins: c(3)}, {Address: V, Coins: c(4)}})
	mk(R2, []banktypes.Output{{Address: U, Coins: c(1)}}) // same (name,type,runner): refused
	name := fmt.Sprintf("%d_%s", e.height, D)
	e.runMsg(R1, name, 1, 5, "directed.oldrunner")
	e.after()
	e.opBegin()
	e.after()
	e.runMsg(R2, name, 1, 5, "directed.newrunner")
	e.after()
}

// directed history (seeded change C11-3 and the colliding-completed-record semantics): ONE block,
// one distributor and type: create (runner A) → run by A (full or partial) → recipients re-file
// claims → create (runner B != A, overlapping recipients) → run by B → run by B again.
// A recipient paid by the first run has a COMPLETED record under the same key name_type_recipient
// when its second PENDING record is created; the unchanged code pays the second record in full and
// overwrites the completed record under that key (the store keeps one completed record per key;
// the payments are 2).
func (e *dispEnv) directedTwoRunners(rng *Rng) {
	D, A, B := e.users[0].String(), e.users[1].String(), e.users[2].String()
	t := int32(2 + rng.Intn(2)) // claim-type records
	rs := []string{e.users[3].String(), e.users[4].String(), e.users[5].String(), e.rcpts[len(e.rcpts)-1]}
	name := fmt.Sprintf("%d_%s", e.height, D)
	mk := func(runner string, idx []int) {
		var outs []banktypes.Output
		var toks []string
		for _, i := range idx {
			c := e.genCoins(rng, false)
			outs = append(outs, banktypes.Output{Address: rs[i], Coins: c})
			toks = append(toks, rs[i], coinsStr(c))
		}
		msg := disptypes.MsgCreateDistribution{Distributor: D, AuthorizedRunner: runner, DistributionType: disptypes.DistributionType(t), Output: outs}
		e.createCtx = &createObs{msg.Distributor, msg.Output}
		res := e.deliver(msg.ValidateBasic, func(ctx sdk.Context) error {
			_, err := e.srv.CreateDistribution(sdk.WrapSDKContext(ctx), &msg)
			return err
		})
		if res == "ok" {
			e.names = append(e.names, name)
			for _, o := range outs {
				k := fmt.Sprintf("%s|%d|%s", name, t, o.Address)
				e.created[k] = e.created[k].Add(o.Coins...)
			}
		}
		e.out.Emit(fmt.Sprintf("d.create %s %s %d %s", D, runner, t, strings.Join(toks, " ")), res, "directed2.create."+res, true)
		e.after()
	}
	claim := func(i int) {
		msg := disptypes.MsgCreateUserClaim{UserClaimAddress: rs[i], UserClaimType: disptypes.DistributionType(t)}
		res := e.deliver(msg.ValidateBasic, func(ctx sdk.Context) error {
			_, err := e.srv.CreateUserClaim(sdk.WrapSDKContext(ctx), &msg)
			return err
		})
		e.out.Emit(fmt.Sprintf("d.claim %s %d", rs[i], t), res, "directed2.claim."+res, res == "ok")
		e.after()
	}
	claim(0)
	claim(1)
	mk(A, []int{0, 1, 2, 3})
	cnt := int64(20)
	if rng.Bool() {
		cnt = int64(1 + rng.Intn(3)) // partial first run
	}
	e.runMsg(A, name, t, cnt, "directed2.first")
	e.after()
	claim(0) // re-filed after being paid
	claim(1)
	mk(B, []int{0, 1, 1, 3})
	e.runMsg(A, name, t, 20, "directed2.oldrunner")
	e.after()
	e.runMsg(B, name, t, int64(1+rng.Intn(2)), "directed2.second.partial")
	e.after()
	e.runMsg(B, name, t, 20, "directed2.second.rest")
	e.after()
}

// directed history (non-canonical recipient spellings): one distribution whose output list names
// the same account in lower-case and in UPPER-CASE bech32 (two pending records under two keys, one
// account), another account only in upper case and a blocked account in upper case; runs of 1 and
// of the rest; in the same block a second distribution (other runner) to the upper-case spelling
// again, and its run.
func (e *dispEnv) directedSpelling(rng *Rng) {
	D, A, B := e.users[0].String(), e.users[1].String(), e.users[2].String()
	U, V, X := e.users[3].String(), e.users[4].String(), e.rcpts[len(e.rcpts)-1]
	t := int32(2 + rng.Intn(2)) // claim-type records
	name := fmt.Sprintf("%d_%s", e.height, D)
	claim := func(a string) {
		msg := disptypes.MsgCreateUserClaim{UserClaimAddress: a, UserClaimType: disptypes.DistributionType(t)}
		res := e.deliver(msg.ValidateBasic, func(ctx sdk.Context) error {
			_, err := e.srv.CreateUserClaim(sdk.WrapSDKContext(ctx), &msg)
			return err
		})
		e.out.Emit(fmt.Sprintf("d.claim %s %d", a, t), res, "directed3.claim."+res, res == "ok")
		e.out.Emit(fmt.Sprintf("chk c11.claims tag=disp.claim.one-per-account-and-type claims=%s paid=-", e.keysDump(disptypes.UserClaimPrefix)), "true", "chk.claims", false)
		e.after()
	}
	// the same account files its claim under both spellings: one claim per account and type;
	// V files it in lower case and is later named in upper case by the distribution
	claim(U)
	claim(strings.ToUpper(U))
	claim(V)
	mk := func(runner string, addrs []string) {
		var outs []banktypes.Output
		var toks []string
		for _, a := range addrs {
			c := e.genCoins(rng, false)
			outs = append(outs, banktypes.Output{Address: a, Coins: c})
			toks = append(toks, a, coinsStr(c))
		}
		msg := disptypes.MsgCreateDistribution{Distributor: D, AuthorizedRunner: runner, DistributionType: disptypes.DistributionType(t), Output: outs}
		e.createCtx = &createObs{msg.Distributor, msg.Output}
		res := e.deliver(msg.ValidateBasic, func(ctx sdk.Context) error {
			_, err := e.srv.CreateDistribution(sdk.WrapSDKContext(ctx), &msg)
			return err
		})
		if res == "ok" {
			e.names = append(e.names, name)
			for _, o := range outs {
				k := fmt.Sprintf("%s|%d|%s", name, t, o.Address)
				e.created[k] = e.created[k].Add(o.Coins...)
			}
		}
		e.out.Emit(fmt.Sprintf("d.create %s %s %d %s", D, runner, t, strings.Join(toks, " ")), res, "directed3.create."+res, true)
		e.after()
	}
	mk(A, []string{U, strings.ToUpper(U), strings.ToUpper(V), strings.ToUpper(X), strings.ToUpper(U)})
	e.runMsg(A, name, t, 1, "directed3.one")
	e.after()
	claim(strings.ToUpper(U)) // re-filed in the other spelling after being paid (or still held)
	mk(B, []string{strings.ToUpper(U), V})
	e.runMsg(A, name, t, 20, "directed3.rest")
	e.after()
	e.runMsg(B, name, t, 20, "directed3.second")
	e.after()
	e.runMsg(A, name, t, 20, "directed3.again")
	e.after()
}

// directed history (per-run limit across the runs of one block): one distribution with 26..36
// recipients; in ONE block several run messages, each with a count in 1..20, that together handle
// exactly 20 (or 19, or 21) records, then one more run with a small count for the same distribution
// — which still has pending records — ; next block: the rest.  Every run must pay at most the
// number of records it asked for.
func (e *dispEnv) directedBigRun(rng *Rng) {
	D, A := e.users[0].String(), e.users[1].String()
	t := int32(1 + rng.Intn(3))
	nrec := 26 + rng.Intn(11)
	e.extra = nil
	var outs []banktypes.Output
	var toks []string
	for i := 0; i < nrec; i++ {
		a := sdk.AccAddress(crypto.AddressHash([]byte(fmt.Sprintf("verif-big-%d-%d", e.height, i)))).String()
		e.extra = append(e.extra, a)
		c := sdk.NewCoins(sdk.NewCoin("rowan", sdk.NewInt(int64(1+rng.Intn(50)))))
		outs = append(outs, banktypes.Output{Address: a, Coins: c})
		toks = append(toks, a, coinsStr(c))
	}
	name := fmt.Sprintf("%d_%s", e.height, D)
	msg := disptypes.MsgCreateDistribution{Distributor: D, AuthorizedRunner: A, DistributionType: disptypes.DistributionType(t), Output: outs}
	e.createCtx = &createObs{msg.Distributor, msg.Output}
	res := e.deliver(msg.ValidateBasic, func(ctx sdk.Context) error {
		_, err := e.srv.CreateDistribution(sdk.WrapSDKContext(ctx), &msg)
		return err
	})
	if res == "ok" {
		e.names = append(e.names, name)
		for _, o := range outs {
			k := fmt.Sprintf("%s|%d|%s", name, t, o.Address)
			e.created[k] = e.created[k].Add(o.Coins...)
		}
	}
	e.out.Emit(fmt.Sprintf("d.create %s %s %d %s", D, A, t, strings.Join(toks, " ")), res, "directed4.create."+res, true)
	e.after()
	if rng.Bool() {
		e.opBegin() // the runs happen in the block after the creation (or in the same block)
		e.after()
	}
	// counts that sum to 19, 20 or 21
	target := []int{20, 20, 19, 21}[rng.Intn(4)]
	var counts []int64
	for left := target; left > 0; {
		c := 1 + rng.Intn(minInt(left, 20))
		if rng.Chance(1, 3) {
			c = minInt(left, 20)
		}
		counts = append(counts, int64(c))
		left -= c
	}
	for _, c := range counts {
		e.runMsg(A, name, t, c, "directed4.fill")
		e.after()
	}
	e.runMsg(A, name, t, int64(1+rng.Intn(5)), "directed4.next")
	e.after()
	e.runMsg(A, name, t, int64(1+rng.Intn(3)), "directed4.next2")
	e.after()
	e.opBegin()
	e.after()
	e.runMsg(A, name, t, 20, "directed4.rest")
	e.after()
}

func init() {
	families["disp"] = func(rng *Rng, n int, out *Out, replay string) {
		ops := 0
		for ops < n {
			e := newDispEnv(rng, out)
			// initial funding
			for i := 0; i < 5; i++ { // the sixth user starts with nothing
				e.opFund(rng, i)
			}
			e.after()
			if ops == 0 || rng.Chance(1, 10) {
				e.directedMerge(rng)
				ops += 6
			} else if ops < 60 || rng.Chance(1, 6) {
				e.directedTwoRunners(rng)
				ops += 11
			} else if ops < 120 || rng.Chance(1, 6) {
				e.directedSpelling(rng)
				ops += 6
			} else if ops < 180 || rng.Chance(1, 8) {
				e.directedBigRun(rng)
				ops += 10
			}
			L := 20 + rng.Intn(40)
			for i := 0; i < L && ops < n; i++ {
				switch x := rng.Intn(100); {
				case x < 30:
					e.opCreate(rng)
				case x < 65:
					e.opRun(rng)
				case x < 75:
					e.opClaim(rng)
				case x < 87:
					e.opBegin()
				case x < 94:
					e.opFund(rng, -1)
				default:
					e.opTransfer(rng)
				}
				e.after()
				ops++
			}
		}
	}
}
