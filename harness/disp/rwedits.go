package main

// family "rwedits" (C20 b): histories in which the reward-period parameter set is EDITED while a
// period runs.  The edit is a real `MsgAddRewardPeriodRequest` signed by the rewards admin,
// validated (ValidateBasic) and executed through clp.NewHandler on a CacheContext written only on
// success, delivered inside a block before that block's EndBlocker.  A running period A with
// RewardPeriodMod >= 2 is cut short BETWEEN two of its distribution blocks (its accumulator is
// non-zero) by
//   V1  replacing the set with a period B that starts at the cut, right after it, or later;
//   V2  replacing it with a set [B, A, (C)] in which B, listed first, starts before A's end and
//       ends after it (A keeps running until B takes over);
//   V3  no edit at all: the set [B, A, (C)] from the beginning, B starting mid-interval of A;
//   V4  switching rewards off (empty set), then adding B some blocks later;
// then the history runs on through the new period(s).  Every switch is "clean" in the sense of
// Sif.Spec.C20.cleanSwitches (a period takes over only at its own start block) — the hypothesis of
// rewards_per_block_edits / rewards_per_period_edits.  After every block: the stored accumulator
// and the net amount created are compared with the model (whose state keeps the accumulator
// across edits), and the per-block / per-period / cumulative predicates are judged on the
// implementation's values; the per-period total is kept per (start,end,allocation,mod) of the
// period the implementation itself reports as current.

import (
	"fmt"
	"math/big"
	"strings"

	sifapp "github.com/Sifchain/sifnode/app"
	admintypes "github.com/Sifchain/sifnode/x/admin/types"
	"github.com/Sifchain/sifnode/x/clp"
	clptypes "github.com/Sifchain/sifnode/x/clp/types"
	sdk "github.com/cosmos/cosmos-sdk/types"
	"github.com/tendermint/tendermint/crypto"
	tmproto "github.com/tendermint/tendermint/proto/tendermint/types"
)

type edPeriod struct {
	start, end, mod uint64
	alloc           *big.Int
	distribute      bool
	id              string // RewardPeriodId: stable for one period across the lists it is re-submitted in
}

type edEnv struct {
	app     *sifapp.SifchainApp
	ctx     sdk.Context
	handler sdk.Handler
	admin   sdk.AccAddress
	out     *Out
	totals  map[string]*big.Int
	total   *big.Int
	nid     int
	list    []*edPeriod // the harness's own ledger: the list of the last accepted AddRewardPeriod message
	tag     string      // "edited": every period takes over at its own start block; "midflight": one does not (F27)
}

func newEdEnv(rng *Rng, out *Out, onePool bool) *edEnv {
	sifapp.SetConfig(false)
	e := &edEnv{app: sifapp.Setup(false), out: out, totals: map[string]*big.Int{}, total: big.NewInt(0)}
	e.ctx = e.app.BaseApp.NewContext(false, tmproto.Header{Height: 1})
	e.handler = clp.NewHandler(e.app.ClpKeeper)
	e.admin = sdk.AccAddress(crypto.AddressHash([]byte("verif-rewards-admin")))
	e.app.AdminKeeper.SetAdminAccount(e.ctx, &admintypes.AdminAccount{AdminType: admintypes.AdminType_PMTPREWARDS, AdminAddress: e.admin.String()})
	// one or two pools with depth, one provider each (so that both reward modes pay out)
	for i, sym := range []string{"ceth", "cusdc"} {
		if i == 1 && (onePool || rng.Bool()) {
			break
		}
		asset := clptypes.NewAsset(sym)
		depth := new(big.Int).Add(rng.Amount(90), big.NewInt(1000))
		pool := clptypes.NewPool(&asset, sdk.NewUintFromBigInt(depth), sdk.NewUintFromBigInt(depth), sdk.NewUint(1000))
		if err := e.app.ClpKeeper.SetPool(e.ctx, &pool); err != nil {
			panic(err)
		}
		lp := clptypes.NewLiquidityProvider(&asset, sdk.NewUint(1000), sdk.AccAddress(crypto.AddressHash([]byte("verif-ed-lp"))), 1)
		e.app.ClpKeeper.SetLiquidityProvider(e.ctx, &lp)
	}
	return e
}

// edit delivers the admin message the way DeliverTx does and tells the model the new stored list
func (e *edEnv) edit(h uint64, ps []*edPeriod) {
	e.ctx = e.ctx.WithBlockHeight(int64(h))
	var rps []*clptypes.RewardPeriod
	var toks []string
	for _, p := range ps {
		au := sdk.NewUintFromBigInt(p.alloc)
		one := sdk.OneDec()
		if p.id == "" {
			e.nid++
			p.id = fmt.Sprintf("rp%d", e.nid)
		}
		rps = append(rps, &clptypes.RewardPeriod{RewardPeriodId: p.id, RewardPeriodStartBlock: p.start, RewardPeriodEndBlock: p.end,
			RewardPeriodAllocation: &au, RewardPeriodDefaultMultiplier: &one, RewardPeriodDistribute: p.distribute, RewardPeriodMod: p.mod})
		toks = append(toks, fmt.Sprintf("%d %d %s %d", p.start, p.end, p.alloc, p.mod))
	}
	msg := clptypes.MsgAddRewardPeriodRequest{Signer: e.admin.String(), RewardPeriods: rps}
	res := "ok"
	if err := msg.ValidateBasic(); err != nil {
		res = "err"
	} else {
		cctx, write := e.ctx.CacheContext()
		res = protect(func() string {
			if _, err := e.handler(cctx, &msg); err != nil {
				return "err"
			}
			return "ok"
		})
		if res == "ok" {
			write()
			e.list = ps
		}
	}
	e.out.Emit(strings.TrimSpace(fmt.Sprintf("rw.edit %d %s", e.ctx.BlockHeight(), strings.Join(toks, " "))), res, "edit."+res, res == "ok")
}

// block runs the EndBlocker of height h; `edits` are delivered in the block before it
func (e *edEnv) block(h uint64, cls string) {
	e.ctx = e.ctx.WithBlockHeight(int64(h))
	supBefore := e.app.BankKeeper.GetSupply(e.ctx, "rowan").Amount
	// the current period by the property's rule, from the harness's own ledger of submitted periods
	// (first period of the list covering the height; mod 0 runs every block) — not from a helper of the code under test
	var cur *edPeriod
	for _, p := range e.list {
		if p.start <= h && h <= p.end {
			cp := *p
			if cp.mod == 0 {
				cp.mod = 1
			}
			cur = &cp
			break
		}
	}
	res := protect(func() string {
		clp.EndBlocker(e.ctx, e.app.ClpKeeper)
		return "ok"
	})
	delta := e.app.BankKeeper.GetSupply(e.ctx, "rowan").Amount.Sub(supBefore)
	accu := e.app.ClpKeeper.GetBlockDistributionAccu(e.ctx)
	if res == "panic" || delta.IsNegative() {
		e.out.Emit(fmt.Sprintf("rw.end %d 0", h), "panic-or-negative "+delta.String(), "end.panic", false)
		return
	}
	e.out.Emit(fmt.Sprintf("rw.end %d %s", h, delta), fmt.Sprintf("accu=%s minted=%s", accu, delta), cls, !delta.IsZero())
	curS := "cur=none"
	if cur != nil {
		curS = fmt.Sprintf("cur=%d,%d,%s,%d", cur.start, cur.end, cur.alloc, cur.mod)
	}
	e.out.Emit(fmt.Sprintf("chk c20.rwblock tag=clp.endblock.rewards.per-block.%s %d %s %s", e.tag, h, delta, curS), "true", "chk.rwblock", false)
	e.total.Add(e.total, delta.BigInt())
	if cur != nil {
		key := fmt.Sprintf("%d %d %s %d", cur.start, cur.end, cur.alloc, cur.mod)
		if e.totals[key] == nil {
			e.totals[key] = big.NewInt(0)
		}
		e.totals[key].Add(e.totals[key], delta.BigInt())
		e.out.Emit(fmt.Sprintf("chk c20.rwperiod tag=clp.endblock.rewards.per-period.%s %s %s", e.tag, key, e.totals[key]), "true", "chk.rwperiod", false)
	}
	e.out.Emit(fmt.Sprintf("chk c20.rwcum tag=clp.endblock.rewards.cumulative.%s %s %s", e.tag, e.total, accu), "true", "chk.rwcum", false)
}

func smallPeriod(rng *Rng, start uint64, minEnd uint64) *edPeriod {
	length := uint64(1 + rng.Intn(10))
	end := start + length - 1
	if end < minEnd {
		end = minEnd + uint64(rng.Intn(3))
	}
	var alloc *big.Int
	switch rng.Intn(4) {
	case 0:
		alloc = big.NewInt(int64(1 + rng.Intn(30)))
	case 1:
		alloc = big.NewInt(int64(end-start+1) * int64(1+rng.Intn(5)))
	default:
		alloc = rng.Amount(60)
	}
	return &edPeriod{start: start, end: end, mod: uint64(rng.Intn(4)), alloc: alloc, distribute: rng.Chance(1, 3)}
}

// directed histories for F27 (a period that becomes current in mid-flight must not pay out what
// its predecessor accumulated), small numbers:
//
//	(a) the running period is edited between two distribution blocks: A=[10..29] 20000 rowan (1000
//	    per block) mod 4 runs 10..15 (distribution blocks 10, 14; block 15 carries 1000); in block 16
//	    the admin replaces it with A'=[10..29] 20 rowan (1 per block) mod 4; the next distribution
//	    block 18 may create at most 4;
//	(b) no edit: [A=[10..15] 6000 rowan mod 4, B=[12..30] 19 rowan mod 1], B listed after A: A's last
//	    block 15 is not a distribution block and carries 1000; block 16 (B, 1 per block) may create 1.
func directedMidflight(rng *Rng, out *Out) int {
	n := 0
	for _, which := range []int{0, 1, 2} {
		e := newEdEnv(rng, out, false)
		e.tag = "midflight"
		out.Emit("rw.periods", "ok", "periods.empty", false)
		out.Emit("rw.init "+e.app.ClpKeeper.GetBlockDistributionAccu(e.ctx).String(), "ok", "init", false)
		if which == 0 {
			e.edit(9, []*edPeriod{{start: 10, end: 29, mod: 4, alloc: big.NewInt(20000)}})
			for h := uint64(9); h <= 15; h++ {
				e.block(h, "end.directed.a")
				n++
			}
			e.edit(16, []*edPeriod{{start: 10, end: 29, mod: 4, alloc: big.NewInt(20)}})
			for h := uint64(16); h <= 31; h++ {
				e.block(h, "end.directed.a")
				n++
			}
		} else if which == 2 {
			// (c) the running period P=[10..29] 20000 rowan mod 10 is kept unchanged, but the new list
			// puts the overlapping X=[15..24] 10 rowan mod 5 ahead of it; block 20 is a distribution
			// block of X, which may create 1 (P had accumulated 9000 over blocks 11..19)
			e.edit(9, []*edPeriod{{start: 10, end: 29, mod: 10, alloc: big.NewInt(20000), id: "P"}})
			for h := uint64(9); h <= 19; h++ {
				e.block(h, "end.directed.c")
				n++
			}
			e.edit(20, []*edPeriod{{start: 15, end: 24, mod: 5, alloc: big.NewInt(10), id: "X"}, {start: 10, end: 29, mod: 10, alloc: big.NewInt(20000), id: "P"}})
			for h := uint64(20); h <= 31; h++ {
				e.block(h, "end.directed.c")
				n++
			}
		} else {
			e.edit(9, []*edPeriod{{start: 10, end: 15, mod: 4, alloc: big.NewInt(6000)}, {start: 12, end: 30, mod: 1, alloc: big.NewInt(19)}})
			for h := uint64(9); h <= 32; h++ {
				e.block(h, "end.directed.b")
				n++
			}
		}
	}
	return n
}

// extreme period shapes (all accepted by MsgAddRewardPeriodRequest.ValidateBasic): lengths
// 2^61 .. 2^64-1 (end = MaxInt64, MaxUint64, start + 4e18 - 1, …; start 0, 1, at or right after the
// current height), allocations k*length + {-4..+4}, length +- small, near the 2^128-1 limit.  One
// pool with multiplier 1, so that the whole block distribution is created and the per-block bound
// floor(allocation/length)*mod — computed exactly by the Lean judge — is tight.  Only the first few
// blocks of such a period run.
func (e *edEnv) extreme(rng *Rng, h uint64, directed int) int {
	e.tag = "extreme"
	two := big.NewInt(2)
	maxU64 := new(big.Int).Sub(new(big.Int).Exp(two, big.NewInt(64), nil), big.NewInt(1))
	maxI64 := new(big.Int).Sub(new(big.Int).Exp(two, big.NewInt(63), nil), big.NewInt(1))
	maxAlloc := new(big.Int).Sub(new(big.Int).Exp(two, big.NewInt(128), nil), big.NewInt(1))
	start := []uint64{0, 1, h, h + 1}[rng.Intn(4)]
	var end *big.Int
	switch rng.Intn(6) {
	case 0:
		end = maxI64
	case 1:
		end = maxU64
	case 2:
		end = new(big.Int).Add(new(big.Int).SetUint64(start), new(big.Int).SetUint64(4000000000000000000-1))
	case 3:
		end = new(big.Int).Add(new(big.Int).SetUint64(start), new(big.Int).Exp(two, big.NewInt(61), nil))
	default:
		end = new(big.Int).Add(new(big.Int).SetUint64(start), rng.BigBits(62+rng.Intn(3)))
	}
	if end.Cmp(maxU64) > 0 {
		end = maxU64
	}
	if start == 0 && end.Cmp(maxU64) == 0 {
		start = 1 // [0, 2^64-1] has uint64 length 0 and is refused by ValidateBasic
	}
	length := new(big.Int).Sub(end, new(big.Int).SetUint64(start))
	length.Add(length, big.NewInt(1))
	kmax := new(big.Int).Div(maxAlloc, length)
	var k *big.Int
	switch rng.Intn(4) {
	case 0:
		k = big.NewInt(1)
	case 1:
		k = big.NewInt(int64(2 + rng.Intn(100)))
	case 2:
		k = new(big.Int).Set(kmax)
	default:
		k = new(big.Int).Mod(rng.BigBits(70), new(big.Int).Add(kmax, big.NewInt(1)))
	}
	if k.Sign() == 0 {
		k = big.NewInt(1)
	}
	alloc := new(big.Int).Mul(k, length)
	alloc.Add(alloc, big.NewInt(int64(rng.Intn(9)-4)))
	if rng.Chance(1, 8) {
		alloc = new(big.Int).Sub(maxAlloc, big.NewInt(int64(rng.Intn(5))))
	}
	mod := uint64(1 + rng.Intn(3))
	switch directed {
	case 1: // the seeded demo: 4e18 blocks, one unit short of 50 per block
		start, mod = 10, 1
		end = new(big.Int).SetUint64(10 + 4000000000000000000 - 1)
		alloc = new(big.Int).Sub(new(big.Int).Mul(big.NewInt(50), big.NewInt(4000000000000000000)), big.NewInt(1))
	case 2: // open ended: [10, MaxInt64], three units short of 7 per block
		start, mod = 10, 2
		end = maxI64
		l := new(big.Int).Sub(maxI64, big.NewInt(9))
		alloc = new(big.Int).Sub(new(big.Int).Mul(big.NewInt(7), l), big.NewInt(3))
	}
	if alloc.Sign() <= 0 || alloc.Cmp(maxAlloc) > 0 {
		alloc = new(big.Int).Set(length)
	}
	e.out.Emit("rw.periods", "ok", "periods.empty", false)
	e.out.Emit("rw.init "+e.app.ClpKeeper.GetBlockDistributionAccu(e.ctx).String(), "ok", "init", false)
	e.edit(h, []*edPeriod{{start: start, end: end.Uint64(), mod: mod, alloc: alloc}})
	n := 0
	lastBlock := h + 5
	if start > h {
		lastBlock = start + 5
	}
	for ; h <= lastBlock; h++ {
		e.block(h, "end.extreme")
		n++
	}
	return n
}

func init() {
	families["rwedits"] = func(rng *Rng, n int, out *Out, replay string) {
		blocks := directedMidflight(rng, out)
		blocks += newEdEnv(rng, out, true).extreme(rng, 9, 1)
		blocks += newEdEnv(rng, out, true).extreme(rng, 9, 2)
		for blocks < n {
			if rng.Chance(1, 3) {
				blocks += newEdEnv(rng, out, true).extreme(rng, uint64(2+rng.Intn(20)), 0)
				continue
			}
			e := newEdEnv(rng, out, false)
			h := uint64(2 + rng.Intn(20))
			// the running period A: mod >= 2, several distribution cycles long, a sizeable per-block share
			modA := uint64(2 + rng.Intn(9))
			sA := h + uint64(rng.Intn(3))
			lenA := modA*uint64(3+rng.Intn(4)) + uint64(rng.Intn(int(modA)))
			allocA := new(big.Int).Mul(new(big.Int).Add(rng.Amount(70), big.NewInt(1000)), big.NewInt(int64(lenA)))
			A := &edPeriod{start: sA, end: sA + lenA - 1, mod: modA, alloc: allocA, distribute: rng.Chance(1, 4)}
			// the cut: block c, between two distribution blocks of A with a non-empty accumulator
			k := uint64(1 + rng.Intn(2))
			o := uint64(2 + rng.Intn(int(modA)-1)) // 2 .. modA
			c := sA + k*modA + o
			variant := rng.Intn(7)
			e.tag = "edited"
			if variant >= 4 {
				e.tag = "midflight"
			}
			g := []uint64{0, 1, 1, 2, 5}[rng.Intn(5)]
			B := smallPeriod(rng, c+g, 0)
			var C *edPeriod
			if rng.Bool() {
				C = smallPeriod(rng, 0, 0)
			}
			setC := func(after uint64) {
				if C != nil {
					l := C.end - C.start
					C.start = after + 1 + uint64(rng.Intn(3)/2)
					C.end = C.start + l
				}
			}
			out.Emit("rw.periods", "ok", "periods.empty", false)
			out.Emit("rw.init "+e.app.ClpKeeper.GetBlockDistributionAccu(e.ctx).String(), "ok", "init", false)
			last := uint64(0)
			withList := func(ps ...*edPeriod) []*edPeriod {
				var r []*edPeriod
				for _, p := range ps {
					if p != nil {
						r = append(r, p)
						if p.end > last {
							last = p.end
						}
					}
				}
				return r
			}
			cls := fmt.Sprintf("end.v%d", variant+1)
			switch variant {
			case 0: // V1: replaced by [B (, C)]
				setC(B.end)
				e.edit(h, withList(A))
				for ; h < c && blocks < n; h++ {
					e.block(h, cls)
					blocks++
				}
				last = 0
				e.edit(h, withList(B, C))
			case 1: // V2: replaced by [B, A (, C)], B overtakes A before A's end and outlasts it
				B = smallPeriod(rng, c+g, A.end)
				setC(B.end)
				e.edit(h, withList(A))
				for ; h < c && blocks < n; h++ {
					e.block(h, cls)
					blocks++
				}
				e.edit(h, withList(B, A, C))
			case 2: // V3: no edit while running: [B, A (, C)] from the start, B starts mid-interval of A
				B = smallPeriod(rng, c, A.end)
				setC(B.end)
				e.edit(h, withList(B, A, C))
			case 3: // V4: rewards switched off at the cut, B (, C) added a few blocks later
				e.edit(h, withList(A))
				for ; h < c && blocks < n; h++ {
					e.block(h, cls)
					blocks++
				}
				e.edit(h, nil)
				off := uint64(1 + rng.Intn(3))
				for j := uint64(0); j < off && blocks < n; j++ {
					e.block(h, cls)
					h++
					blocks++
				}
				B = smallPeriod(rng, h+uint64(rng.Intn(3)), 0)
				setC(B.end)
				last = 0
				e.edit(h, withList(B, C))
			case 4: // V5 (F27): [A, B]: B, listed AFTER A, overlaps A's tail and takes over in mid-flight when A ends between two distribution blocks
				A.end = sA + k*modA + o - 1 // A's last block is not a distribution block: accumulator non-empty
				B = smallPeriod(rng, A.end-uint64(rng.Intn(int(o))), A.end+1)
				setC(B.end)
				e.edit(h, withList(A, B, C))
			case 6: // V7: the running period A is KEPT unchanged but an overlapping period X that started earlier is listed ahead of it: [X, A (, C)]; the cut block is a distribution block of X
				e.edit(h, withList(A))
				for ; h < c && blocks < n; h++ {
					e.block(h, cls)
					blocks++
				}
				modX := uint64(1 + rng.Intn(3))
				d := modX * uint64(1+rng.Intn(2))
				if d >= c {
					d = modX
				}
				X := smallPeriod(rng, c-d, c+uint64(rng.Intn(8)))
				X.mod = modX
				setC(A.end)
				if C != nil && C.start <= X.end {
					C = nil
				}
				e.edit(h, withList(X, A, C))
			case 5: // V6 (F27): the running period itself is edited (smaller allocation and/or other mod / end) between two distribution blocks
				e.edit(h, withList(A))
				for ; h < c && blocks < n; h++ {
					e.block(h, cls)
					blocks++
				}
				A2 := &edPeriod{start: A.start, end: A.end, mod: A.mod, alloc: new(big.Int).Set(A.alloc), distribute: A.distribute}
				switch rng.Intn(3) {
				case 0:
					A2.alloc = big.NewInt(int64(1 + rng.Intn(1000)))
				case 1:
					A2.alloc = big.NewInt(int64(1 + rng.Intn(1000)))
					A2.mod = uint64(1 + rng.Intn(3))
				case 2:
					A2.alloc = big.NewInt(int64(1 + rng.Intn(1000)))
					A2.end = c + uint64(rng.Intn(6))
				}
				last = 0
				e.edit(h, withList(A2))
			}
			for ; h <= last+2 && blocks < n; h++ {
				e.block(h, cls)
				blocks++
			}
		}
	}
}
