package main

// family "ammrt": L1 two-message round trips on the real message server (C04):
//   swap there and back; add then remove the units received; backing per unit across every user
//   message with ratio shifting off.  The measured amounts are judged by Spec.C04.

import (
	"fmt"
	"math/big"

	clp "github.com/Sifchain/sifnode/x/clp"
	clptypes "github.com/Sifchain/sifnode/x/clp/types"
	sdk "github.com/cosmos/cosmos-sdk/types"
)

func (w *ammWorld) bal(a sdk.AccAddress, d string) *big.Int {
	return w.app.BankKeeper.GetBalance(w.ctx, a, d).Amount.BigInt()
}

type poolSnap struct{ R, A, P *big.Int }

func (w *ammWorld) snap(sym string) *poolSnap {
	p := w.pool(sym)
	if p == nil {
		return nil
	}
	nD, eD := poolDepths(p)
	return &poolSnap{nD.BigInt(), eD.BigInt(), p.PoolUnits.BigInt()}
}

func (w *ammWorld) rZero() bool {
	return w.storedRunningRate().Sign() == 0
}

func (w *ammWorld) backing(tag string, before, after *poolSnap) {
	if before == nil || after == nil || !w.rZero() {
		return
	}
	w.out.Emit(fmt.Sprintf("chk c04.backing tag=%s.backing %s %s %s %s %s %s", tag, before.R, before.A, before.P, after.R, after.A, after.P), "true", "chk.backing", false)
}

func init() {
	families["ammrt"] = func(rng *Rng, n int, out *Out, replay string) {
		// directed opening: few, valuable units — a pool emptied down to a handful of units and then filled again by
		// swaps at fee rate 1 (everything sent stays in the pool), so that one unit backs ~10^23 of each token; a
		// newcomer adds a few base units (the units calculation floors to 0) and removes whatever it was given
		for _, left := range []int64{4, 1, int64(2 + rng.Intn(7))} {
			w := newAmmWorld(rng, out, 6, -1)
			w.fundAll()
			sym := ammTokens[rng.Intn(len(ammTokens))]
			w.opCreate(w.users[0], sym, new(big.Int).Set(pow18), new(big.Int).Set(pow18))
			p := w.pool(sym)
			if p == nil {
				continue
			}
			w.opRmu(w.users[0], sym, new(big.Int).Sub(p.PoolUnits.BigInt(), big.NewInt(left)))
			setFee := func(f *big.Int) {
				sp := clptypes.SwapFeeParams{DefaultSwapFeeRate: decRaw(f)}
				w.app.ClpKeeper.SetSwapFeeParams(w.ctx, &sp)
				w.cfg("fee " + f.String())
			}
			setFee(new(big.Int).Set(pow18))
			big24 := new(big.Int).Mul(pow18, big.NewInt(1000000))
			w.opSwap(w.users[1], "rowan", sym, big24, big.NewInt(0))
			w.opSwap(w.users[1], sym, "rowan", big24, big.NewInt(0))
			setFee(new(big.Int).Quo(new(big.Int).Mul(pow18, big.NewInt(3)), big.NewInt(1000)))
			for i, amts := range [][2]int64{{1, 1}, {1, 0}, {0, 2}, {3, 3}} {
				u := w.users[2+i]
				s0 := w.snap(sym)
				if s0 == nil {
					break
				}
				bn, be := w.bal(u, "rowan"), w.bal(u, sym)
				nAmt, eAmt := big.NewInt(amts[0]), big.NewInt(amts[1])
				w.opAdd(u, sym, nAmt, eAmt)
				w.backing("add.tiny", s0, w.snap(sym))
				lp, err := w.app.ClpKeeper.GetLiquidityProvider(w.ctx, sym, u.String())
				if err != nil || lp.LiquidityProviderUnits.IsZero() {
					continue
				}
				s1 := w.snap(sym)
				w.opRmu(u, sym, lp.LiquidityProviderUnits.BigInt())
				w.backing("remove.tiny", s1, w.snap(sym))
				n2 := new(big.Int).Sub(w.bal(u, "rowan"), new(big.Int).Sub(bn, nAmt))
				e2 := new(big.Int).Sub(w.bal(u, sym), new(big.Int).Sub(be, eAmt))
				out.Emit(fmt.Sprintf("chk c04.addremove tag=add.remove.tiny 0 %s %s %s %s %s %s %s %s", w.configuredFee("rowan"), w.configuredFee(sym), s0.R, s0.A, nAmt, eAmt, n2, e2), "true", "chk.addremove", false)
			}
			// the holder of the few units removes by basis points: the claim is a fraction of a unit (and of several)
			for _, wb := range []int64{400, 1200, 2400, 10, 5100, int64(1 + rng.Intn(9999))} {
				s1 := w.snap(sym)
				if s1 == nil {
					break
				}
				w.opRm(w.users[0], sym, wb)
				w.backing("remove.bp.tiny", s1, w.snap(sym))
			}
		}
		for done := 0; done < n; {
			w := newAmmWorld(rng, out, 6, -1)
			w.fundAll()
			// pools of assorted depth ratios
			for _, sym := range ammTokens {
				nat := new(big.Int).Add(rng.Amount(95), pow18)
				ext := rng.Amount(95)
				if rng.Chance(1, 4) { // the far end of the property's depth range (1 .. 10^33)
					ext = new(big.Int).Mul(rng.Amount(40), new(big.Int).Exp(big.NewInt(10), big.NewInt(int64(18+rng.Intn(4))), nil))
				}
				if ext.Sign() == 0 {
					ext = big.NewInt(1)
				}
				w.opCreate(w.users[0], sym, nat, ext)
				if rng.Bool() {
					w.opAdd(w.users[1], sym, w.frac(nat), w.frac(ext))
				}
			}
			// fees: default rate and per-token overrides (each token with probability 1/2), so that the
			// two directions of a pool and the two legs of an external→external swap are charged differently
			if rng.Bool() {
				w.policy()
			}
			{
				sp := w.app.ClpKeeper.GetSwapFeeParams(w.ctx)
				for _, tok := range w.denoms {
					if rng.Bool() {
						f := new(big.Int).Quo(rng.Rate01(), big.NewInt(int64(1+rng.Intn(20))))
						found := false
						for _, tp := range sp.TokenParams {
							if tp.Asset == tok {
								tp.SwapFeeRate = decRaw(f)
								found = true
							}
						}
						if !found {
							sp.TokenParams = append(sp.TokenParams, &clptypes.SwapFeeTokenParams{Asset: tok, SwapFeeRate: decRaw(f)})
						}
						w.cfg("feetoken " + tok + " " + f.String())
					}
				}
				w.app.ClpKeeper.SetSwapFeeParams(w.ctx, &sp)
			}
			// some pools margin-enabled (no liabilities here: the pool-health gate passes)
			if rng.Chance(1, 3) {
				for _, sym := range ammTokens {
					if rng.Bool() {
						w.setMarginPool(sym, true)
					}
				}
			}
			if rng.Bool() {
				r := rng.Rate01()
				rp := w.app.ClpKeeper.GetPmtpRateParams(w.ctx)
				rp.PmtpCurrentRunningRate = decRaw(r)
				w.app.ClpKeeper.SetPmtpRateParams(w.ctx, rp)
				w.cfg("r " + r.String())
			}
			// a ratio-shifting (PMTP) policy window running through this world (1 world in 3): the real clp BeginBlocker
			// drives the running rate block by block; the model takes the STORED running rate after every BeginBlocker
			// as configuration (cfg r), which is what swaps and liquidity messages must both use
			policyEnd := int64(0)
			if rng.Chance(1, 3) {
				start := w.height + 1
				length := int64(1 + rng.Intn(6))
				policyEnd = start + length - 1
				gov := new(big.Int).Quo(rng.Rate01(), big.NewInt(int64(1+rng.Intn(10))))
				w.app.ClpKeeper.SetPmtpParams(w.ctx, &clptypes.PmtpParams{PmtpPeriodGovernanceRate: decRaw(gov), PmtpPeriodEpochLength: int64(1 + rng.Intn(3)), PmtpPeriodStartBlock: start, PmtpPeriodEndBlock: policyEnd})
				w.app.ClpKeeper.SetPmtpEpoch(w.ctx, clptypes.PmtpEpoch{EpochCounter: 0, BlockCounter: 0})
			}
			nextBlock := func() {
				w.setHeight(w.height + 1)
				res := "ok"
				func() {
					defer func() {
						if r := recover(); r != nil {
							res = "panic"
						}
					}()
					clp.BeginBlocker(w.ctx, w.app.ClpKeeper)
				}()
				// the liquidity-protection part of BeginBlocker is in the model; the PMTP part is taken over below
				w.out.Emit(fmt.Sprintf("lpbegin %d", w.app.ClpKeeper.GetLiquidityProtectionParams(w.ctx).EpochLength), res, "lpbegin", false)
				r := w.app.ClpKeeper.GetPmtpRateParams(w.ctx).PmtpCurrentRunningRate.BigInt()
				w.cfg("r " + r.String())
			}
			for i := 0; i < 40 && done < n; i++ {
				done++
				if policyEnd > 0 && w.height <= policyEnd+1 && i%4 == 3 {
					nextBlock()
				}
				if rng.Chance(1, 10) {
					w.opDiscardedTx()
				}
				sym := ammTokens[rng.Intn(len(ammTokens))]
				p := w.pool(sym)
				if p == nil {
					continue
				}
				u := w.users[2+rng.Intn(3)] // users 2..4 hold no liquidity: a fresh provider every time
				switch rng.Intn(4) {
				case 3: // external → external swap (two legs, both at the sold token's rate)
					other := ammTokens[rng.Intn(len(ammTokens))]
					if other == sym || w.pool(other) == nil {
						continue
					}
					x := w.frac(p.ExternalAssetBalance.BigInt())
					if x.Sign() == 0 {
						x = big.NewInt(1)
					}
					w.opSwap(u, sym, other, x, big.NewInt(0))
				case 0: // swap there and back
					sent, recv := "rowan", sym
					depth := p.NativeAssetBalance.BigInt()
					if rng.Bool() {
						sent, recv = sym, "rowan"
						depth = p.ExternalAssetBalance.BigInt()
					}
					x := w.frac(depth)
					if x.Sign() == 0 {
						x = big.NewInt(1)
					}
					b0s, b0r := w.bal(u, sent), w.bal(u, recv)
					s0 := w.snap(sym)
					w.opSwap(u, sent, recv, x, big.NewInt(0))
					y := new(big.Int).Sub(w.bal(u, recv), b0r)
					w.backing("swap", s0, w.snap(sym))
					if y.Sign() <= 0 {
						continue
					}
					s1 := w.snap(sym)
					w.opSwap(u, recv, sent, y, big.NewInt(0))
					w.backing("swap", s1, w.snap(sym))
					if new(big.Int).Sub(w.bal(u, recv), b0r).Sign() != 0 {
						continue // the way back failed: not a round trip
					}
					back := new(big.Int).Sub(w.bal(u, sent), new(big.Int).Sub(b0s, x))
					out.Emit(fmt.Sprintf("chk c04.swapback tag=swap.roundtrip %s %s", x, back), "true", "chk.swapback", false)
				default: // add, then remove the units received
					if _, err := w.app.ClpKeeper.GetLiquidityProvider(w.ctx, sym, u.String()); err == nil {
						continue
					}
					s0 := w.snap(sym)
					var nAmt, eAmt *big.Int
					switch rng.Intn(6) {
					case 4, 5: // slightly asymmetric: one side short of the pool ratio by 10^-3 .. 10^-8 relative
						nAmt = w.frac(s0.R)
						eAmt = new(big.Int).Mul(nAmt, s0.A)
						if s0.R.Sign() > 0 {
							eAmt.Quo(eAmt, s0.R)
						}
						k := new(big.Int).Exp(big.NewInt(10), big.NewInt(int64(3+rng.Intn(6))), nil)
						if rng.Bool() {
							eAmt.Sub(eAmt, new(big.Int).Quo(eAmt, k))
						} else {
							nAmt.Sub(nAmt, new(big.Int).Quo(nAmt, k))
						}
					case 0:
						nAmt, eAmt = w.frac(s0.R), big.NewInt(0)
					case 1:
						nAmt, eAmt = big.NewInt(0), w.frac(s0.A)
					case 2: // nearly symmetric
						nAmt = w.frac(s0.R)
						eAmt = new(big.Int).Mul(nAmt, s0.A)
						if s0.R.Sign() > 0 {
							eAmt.Quo(eAmt, s0.R)
						}
					default:
						nAmt, eAmt = w.frac(s0.R), w.frac(s0.A)
					}
					bn, be := w.bal(u, "rowan"), w.bal(u, sym)
					w.opAdd(u, sym, nAmt, eAmt)
					lp, err := w.app.ClpKeeper.GetLiquidityProvider(w.ctx, sym, u.String())
					if err != nil {
						continue
					}
					w.backing("add", s0, w.snap(sym))
					s1 := w.snap(sym)
					if rng.Chance(1, 4) {
						// first ask for more units than the provider holds (one more, twice as many, half-way to the pool's
						// units): refused, nothing changes — were it paid, the round trip below would return more of both tokens
						held := lp.LiquidityProviderUnits.BigInt()
						over := new(big.Int).Add(held, big.NewInt(1))
						switch rng.Intn(3) {
						case 1:
							over = new(big.Int).Lsh(held, 1)
						case 2:
							over = new(big.Int).Rsh(new(big.Int).Add(held, s1.P), 1)
							if over.Cmp(held) <= 0 {
								over = new(big.Int).Add(held, big.NewInt(1))
							}
						}
						w.opRmu(u, sym, over)
					}
					w.opRmu(u, sym, lp.LiquidityProviderUnits.BigInt())
					if _, err := w.app.ClpKeeper.GetLiquidityProvider(w.ctx, sym, u.String()); err == nil {
						// removal refused (e.g. zero units): take the provider out of the way for later cases
						continue
					}
					w.backing("remove", s1, w.snap(sym))
					n2 := new(big.Int).Sub(w.bal(u, "rowan"), new(big.Int).Sub(bn, nAmt))
					e2 := new(big.Int).Sub(w.bal(u, sym), new(big.Int).Sub(be, eAmt))
					rr := w.storedRunningRate()
					fS := w.configuredFee("rowan")
					fB := w.configuredFee(sym)
					// the round-trip clauses of C04 quantify over ratio-shifting rates in [0,1]: outside that domain the
					// round trip is still compared with the model, but the clause is not judged (the rounding of the
					// internal swap amount is amplified by 1+r, beyond the dust the property allows)
					if rr.Sign() >= 0 && rr.Cmp(pow18) <= 0 {
						out.Emit(fmt.Sprintf("chk c04.addremove tag=add.remove %s %s %s %s %s %s %s %s %s", rr, fS, fB, s0.R, s0.A, nAmt, eAmt, n2, e2), "true", "chk.addremove", false)
					}
				}
			}
		}
	}
}

var _ = clptypes.ModuleName
