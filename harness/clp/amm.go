package main

// family "amm": L1 correspondence on the real clp keeper / message server / block hooks.
// Every simulated transaction runs on a cached context that is written only on success (the
// discipline of baseapp's runMsgs); hooks run on the live context (no rollback, as in the chain).
// After every operation the full AMM state is dumped (`obs`, compared with the model) and the
// Lean predicates of Sif/Spec/C01 are evaluated on that dump (`chk`).

import (
	"bytes"
	"fmt"
	"math/big"
	"sort"
	"strings"
	"time"

	sifapp "github.com/Sifchain/sifnode/app"
	admintypes "github.com/Sifchain/sifnode/x/admin/types"
	clp "github.com/Sifchain/sifnode/x/clp"
	clpkeeper "github.com/Sifchain/sifnode/x/clp/keeper"
	clptypes "github.com/Sifchain/sifnode/x/clp/types"
	tokenregistrytypes "github.com/Sifchain/sifnode/x/tokenregistry/types"
	sdk "github.com/cosmos/cosmos-sdk/types"
	tmproto "github.com/tendermint/tendermint/proto/tendermint/types"
)

// "cet" is a prefix of "cet1" (prefix scans of the provider store); "ibc/A1F2" has upper-case characters, like every
// IBC voucher denomination (string comparisons of denominations must not normalise case)
var ammTokens = []string{"cusdc", "ceth", "cet1", "cet", "ibc/A1F2"}

type ammWorld struct {
	app     *sifapp.SifchainApp
	ctx     sdk.Context
	srv     clptypes.MsgServer
	users   []sdk.AccAddress
	denoms  []string
	height  int64
	out     *Out
	rng     *Rng
	blocked map[string]bool
	halted  bool
	// what the provider refunds of successful decommissions so far may have left behind per token (see opDecom)
	decomBudget int
	// the harness's own ledger: pool symbol + "/" + address -> height of the provider's last ACCEPTED create / add
	lastAdd map[string]int64
	// quiet: no observation lines after a message (long set-up runs of identical messages; the state is compared
	// again at the next observed step)
	quiet bool
}

func userAddr(i int) sdk.AccAddress { return sdk.AccAddress(bytes.Repeat([]byte{byte(0x10 + i)}, 20)) }

func newAmmWorld(rng *Rng, out *Out, nUsers int, blockedIdx int) *ammWorld {
	sifapp.SetConfig(false)
	var bl []sdk.AccAddress
	w := &ammWorld{out: out, rng: rng, blocked: map[string]bool{}, lastAdd: map[string]int64{}}
	for i := 0; i < nUsers; i++ {
		w.users = append(w.users, userAddr(i))
	}
	if blockedIdx >= 0 {
		bl = append(bl, w.users[blockedIdx])
		w.blocked[w.users[blockedIdx].String()] = true
	}
	w.app = sifapp.SetupWithBlacklist(false, bl)
	w.height = 1
	w.ctx = w.app.BaseApp.NewContext(false, tmproto.Header{Height: 1})
	w.srv = clpkeeper.NewMsgServerImpl(w.app.ClpKeeper)
	w.denoms = append([]string{"rowan"}, ammTokens...)
	out.Emit("reset", "ok", "reset", false)
	// registry: rowan + tokens with the CLP permission
	entries := []*tokenregistrytypes.RegistryEntry{{Denom: "rowan", Decimals: 18, Permissions: []tokenregistrytypes.Permission{tokenregistrytypes.Permission_CLP}}}
	w.cfg("register rowan")
	// registry decimals vary per token (18, 18, 6, 0, 8): no AMM message may depend on them
	for i, t := range ammTokens {
		dec := []int64{18, 18, 6, 0, 8}[i%5]
		if i == 0 && rng.Chance(1, 2) {
			dec = 6 // cusdc as on mainnet in half of the worlds
		}
		entries = append(entries, &tokenregistrytypes.RegistryEntry{Denom: t, Decimals: dec, Permissions: []tokenregistrytypes.Permission{tokenregistrytypes.Permission_CLP}})
		w.cfg("register " + t)
	}
	w.app.TokenRegistryKeeper.SetRegistry(w.ctx, tokenregistrytypes.Registry{Entries: entries})
	// policy defaults of this family (see Sif/Model/Clp/Msgs.lean header)
	w.app.ClpKeeper.SetPmtpRateParams(w.ctx, clptypes.PmtpRateParams{PmtpPeriodBlockRate: sdk.ZeroDec(), PmtpCurrentRunningRate: sdk.ZeroDec(), PmtpInterPolicyRate: sdk.ZeroDec()})
	w.app.ClpKeeper.SetRewardParams(w.ctx, &clptypes.RewardParams{LiquidityRemovalLockPeriod: 0, LiquidityRemovalCancelPeriod: 2, RewardsLockPeriod: 0, RewardsEpochIdentifier: "hour", RewardsDistribute: false})
	w.app.ClpKeeper.SetProviderDistributionParams(w.ctx, &clptypes.ProviderDistributionParams{})
	// liquidity protection: off at the start, threshold 0 (policy() / the directed histories turn it on)
	w.setLiquidityProtection(false, big.NewInt(0), "cusdc", big.NewInt(0))
	w.app.ClpKeeper.SetSwapFeeParams(w.ctx, &clptypes.SwapFeeParams{DefaultSwapFeeRate: sdk.NewDecWithPrec(3, 3)})
	w.app.ClpKeeper.SetClpWhiteList(w.ctx, []sdk.AccAddress{w.users[0]})
	w.cfg("whitelist " + w.users[0].String())
	// margin: no pool enabled at the start; the removal-queue threshold is whatever genesis says
	mp := w.app.MarginKeeper.GetParams(w.ctx)
	mp.Pools = []string{}
	w.app.MarginKeeper.SetParams(w.ctx, &mp)
	w.cfg("removalthreshold " + mp.RemovalQueueThreshold.BigInt().String())
	// module accounts are blocked recipients
	if blockedIdx >= 0 {
		w.cfg("block " + w.users[blockedIdx].String())
	}
	return w
}

func (w *ammWorld) cfg(s string) { w.out.Emit("cfg "+s, "ok", "cfg", false) }

func (w *ammWorld) fund(a sdk.AccAddress, denom string, amt *big.Int) {
	coins := sdk.NewCoins(sdk.NewCoin(denom, sdk.NewIntFromBigInt(amt)))
	if err := w.app.BankKeeper.MintCoins(w.ctx, clptypes.ModuleName, coins); err != nil {
		panic(err)
	}
	if err := w.app.BankKeeper.SendCoins(w.ctx, clptypes.GetCLPModuleAddress(), a, coins); err != nil {
		panic(err)
	}
	w.out.Emit(fmt.Sprintf("fund %s %s %s", a, denom, amt), "ok", "fund", false)
}

// dump renders the implementation's AMM state in the token format of Sif/Driver/Amm.lean.
// rawPools / rawProviders: every pool and provider record in the clp store, read with a plain prefix iterator and
// decoded here — not through the keeper's list getters, which are code under test (a getter that pages or caps
// its answer would otherwise hide records from the judge).
func (w *ammWorld) rawPools() []*clptypes.Pool {
	var l []*clptypes.Pool
	it := sdk.KVStorePrefixIterator(w.ctx.KVStore(w.app.GetKey(clptypes.StoreKey)), clptypes.PoolPrefix)
	defer it.Close()
	for ; it.Valid(); it.Next() {
		var p clptypes.Pool
		w.app.AppCodec().MustUnmarshal(it.Value(), &p)
		l = append(l, &p)
	}
	return l
}

func (w *ammWorld) rawProviders() []*clptypes.LiquidityProvider {
	var l []*clptypes.LiquidityProvider
	it := sdk.KVStorePrefixIterator(w.ctx.KVStore(w.app.GetKey(clptypes.StoreKey)), clptypes.LiquidityProviderPrefix)
	defer it.Close()
	for ; it.Valid(); it.Next() {
		var p clptypes.LiquidityProvider
		w.app.AppCodec().MustUnmarshal(it.Value(), &p)
		l = append(l, &p)
	}
	return l
}

func (w *ammWorld) dump() string {
	k := w.app.ClpKeeper
	var sb strings.Builder
	pools := w.rawPools()
	sort.Slice(pools, func(i, j int) bool {
		return pools[i].ExternalAsset.Symbol+"_rowan" < pools[j].ExternalAsset.Symbol+"_rowan"
	})
	fmt.Fprintf(&sb, "pools %d", len(pools))
	for _, p := range pools {
		fmt.Fprintf(&sb, " %s %s %s %s %s %s %s %s %s %s", p.ExternalAsset.Symbol, p.NativeAssetBalance, p.ExternalAssetBalance, p.PoolUnits,
			p.NativeLiabilities, p.ExternalLiabilities, p.NativeCustody, p.ExternalCustody, p.RewardPeriodNativeDistributed, p.RewardAmountExternal)
	}
	lps := w.rawProviders()
	// canonical order of the dump: by pool symbol, then address (store order within a pool)
	sort.Slice(lps, func(i, j int) bool {
		if lps[i].Asset.Symbol != lps[j].Asset.Symbol {
			return lps[i].Asset.Symbol < lps[j].Asset.Symbol
		}
		return lps[i].LiquidityProviderAddress < lps[j].LiquidityProviderAddress
	})
	fmt.Fprintf(&sb, " lps %d", len(lps))
	for _, l := range lps {
		fmt.Fprintf(&sb, " %s %s %s %d", l.Asset.Symbol, l.LiquidityProviderAddress, l.LiquidityProviderUnits, l.LastUpdatedBlock)
	}
	bks := k.GetAllRewardsBucket(w.ctx)
	sort.Slice(bks, func(i, j int) bool { return bks[i].Denom < bks[j].Denom })
	fmt.Fprintf(&sb, " buckets %d", len(bks))
	for _, b := range bks {
		fmt.Fprintf(&sb, " %s %s", b.Denom, b.Amount)
	}
	type be struct{ k, a, d, v string }
	var bank []be
	accts := []string{"clp"}
	addrs := []sdk.AccAddress{clptypes.GetCLPModuleAddress()}
	for _, u := range w.users {
		accts = append(accts, u.String())
		addrs = append(addrs, u)
	}
	for i, a := range addrs {
		for _, d := range w.denoms {
			bal := w.app.BankKeeper.GetBalance(w.ctx, a, d)
			if !bal.Amount.IsZero() {
				bank = append(bank, be{accts[i] + "/" + d, accts[i], d, bal.Amount.String()})
			}
		}
	}
	sort.Slice(bank, func(i, j int) bool {
		if bank[i].a != bank[j].a {
			return bank[i].a < bank[j].a
		}
		return bank[i].d < bank[j].d
	})
	fmt.Fprintf(&sb, " bank %d", len(bank))
	for _, b := range bank {
		fmt.Fprintf(&sb, " %s %s %s", b.a, b.d, b.v)
	}
	fmt.Fprintf(&sb, " accu %s height %d lpcur %s", k.GetBlockDistributionAccu(w.ctx), w.height, k.GetLiquidityProtectionRateParams(w.ctx).CurrentRowanLiquidityThreshold)
	return sb.String()
}

func (w *ammWorld) observe(tag string) {
	if w.quiet {
		return
	}
	d := w.dump()
	w.out.Emit("obs", d, "obs", false)
	w.out.Emit("chk c01.solvent tag="+tag+".solvent "+d, "true", "chk.solvent", false)
	w.out.Emit(fmt.Sprintf("chk c01.exact tag=%s.exact %d %s", tag, w.decomBudget, d), "true", "chk.exact", false)
	w.out.Emit("chk c02.units tag="+tag+".units "+d, "true", "chk.units", false)
}

// tx runs one message on a cached context, written only when the handler returned nil.
func (w *ammWorld) tx(op, class string, f func(ctx sdk.Context) (string, error)) {
	cctx, write := w.ctx.CacheContext()
	ans := func() (res string) {
		defer func() {
			if r := recover(); r != nil {
				res = "fail"
			}
		}()
		extra, err := f(cctx)
		if err != nil {
			return "fail"
		}
		write()
		if extra != "" {
			return "ok " + extra
		}
		return "ok"
	}()
	w.out.Emit(op, ans, class+"."+strings.Fields(ans)[0], ans != "fail")
	w.observe(class)
}

// hook runs a block hook on the live context; a panic halts the history (as it halts the chain).
func (w *ammWorld) hook(op, class string, f func()) {
	pre := w.dump()
	snap := w.bankSnapshot(w.ctx)
	lock := w.app.ClpKeeper.GetRewardsParams(w.ctx).RewardsLockPeriod
	ans := func() (res string) {
		defer func() {
			if r := recover(); r != nil {
				res = "panic"
			}
		}()
		f()
		return "ok"
	}()
	w.out.Emit(op, ans, class+"."+ans, true)
	if ans == "panic" {
		w.halted = true
		return
	}
	w.observe(class)
	// who was paid by the hook: judged by Spec.C18.recipientsOK against the pre-hook provider records
	after := w.bankSnapshot(w.ctx)
	keys := make([]string, 0, len(snap))
	for k := range snap {
		keys = append(keys, k)
	}
	sort.Strings(keys)
	var sb strings.Builder
	nch := 0
	for _, k := range keys {
		if snap[k] != after[k] {
			fmt.Fprintf(&sb, " %s %s %s", k, snap[k], after[k])
			nch++
		}
	}
	w.out.Emit(fmt.Sprintf("chk c18.recipients tag=%s.recipients %s %d %d%s %s", class, class, lock, nch, sb.String(), pre), "true", "chk.recipients", false)
	if class == "endblock" && len(w.blocked) == 0 {
		// provider distribution: every account gained its shares of the pools it is a provider of, nothing else
		w.out.Emit(fmt.Sprintf("chk c18.l1lppd tag=endblock.lppd %d%s %s", nch, sb.String(), pre), "true", "chk.l1lppd", nch > 0)
	}
	if class == "epoch" {
		// eligibility judged from the harness's own ledger of accepted adds (not from the stored LastUpdatedBlock):
		// whoever gained an asset from its bucket last added to that pool more than the lock period ago
		w.out.Emit(fmt.Sprintf("chk c18.l1elig tag=epoch.eligible-by-ledger %d %d %d%s ||%s", lock, w.height, nch, sb.String(), w.ledgerString()), "true", "chk.l1elig", nch > 0)
	}
	if class == "epoch" {
		// whatever left a bucket reached a wallet or the asset's pool (both modes)
		w.out.Emit("chk c18.l1flow tag=epoch.flow "+pre+" || "+w.dump(), "true", "chk.l1flow", nch > 0)
	}
	// epoch hook in wallet mode, no blocked recipient in this world: every eligible provider got its share
	if class == "epoch" && len(w.blocked) == 0 && w.app.ClpKeeper.GetRewardsParams(w.ctx).RewardsDistribute {
		w.out.Emit(fmt.Sprintf("chk c18.l1bucket tag=epoch.bucket %d %d%s %s", lock, nch, sb.String(), pre), "true", "chk.l1bucket", nch > 0)
		// the same with eligibility taken from the harness's own ledger of accepted creates / adds / removals
		// instead of the stored update heights: a hook may not restart anybody's lock period
		w.out.Emit(fmt.Sprintf("chk c18.l1bucketl tag=epoch.bucket-by-ledger %d %d%s %s ||%s", lock, nch, sb.String(), pre, w.ledgerString()), "true", "chk.l1bucketl", nch > 0)
	}
}

// ledgerString: " <sym> <addr> <height>" for every entry of the harness's ledger of accepted provider updates
func (w *ammWorld) ledgerString() string {
	var lk []string
	for k := range w.lastAdd {
		lk = append(lk, k)
	}
	sort.Strings(lk)
	var lb strings.Builder
	for _, k := range lk {
		parts := strings.SplitN(k, "/", 2)
		if strings.HasPrefix(parts[0], "ibc") { // the symbol itself contains a slash
			i := strings.LastIndex(k, "/")
			parts = []string{k[:i], k[i+1:]}
		}
		fmt.Fprintf(&lb, " %s %s %d", parts[0], parts[1], w.lastAdd[k])
	}
	return lb.String()
}

func (w *ammWorld) setHeight(h int64) {
	w.height = h
	w.ctx = w.ctx.WithBlockHeight(h)
	w.out.Emit(fmt.Sprintf("height %d", h), "ok", "height", false)
}

// poolDepths: the pricing depths of a pool as the property defines them — the pool's balance plus the liabilities
// of the margin positions that are still open — computed from the stored fields, not through the code under test.
func poolDepths(p *clptypes.Pool) (sdk.Uint, sdk.Uint) {
	return p.NativeAssetBalance.Add(p.NativeLiabilities), p.ExternalAssetBalance.Add(p.ExternalLiabilities)
}

func asset(s string) *clptypes.Asset { a := clptypes.NewAsset(s); return &a }

func (w *ammWorld) pool(sym string) *clptypes.Pool {
	p, err := w.app.ClpKeeper.GetPool(w.ctx, sym)
	if err != nil {
		return nil
	}
	return &p
}

// frac returns v * num / 2^k for random small num, k: a random fraction of v over many magnitudes.
func (w *ammWorld) frac(v *big.Int) *big.Int {
	if v.Sign() == 0 {
		return big.NewInt(int64(w.rng.Intn(3)))
	}
	k := uint(w.rng.Intn(40))
	r := new(big.Int).Mul(v, big.NewInt(int64(1+w.rng.Intn(7))))
	r.Rsh(r, k)
	if w.rng.Chance(1, 12) {
		r = w.rng.Amount(100)
	}
	return r
}

func (w *ammWorld) step() {
	rng := w.rng
	if rng.Chance(1, 25) {
		w.opDiscardedTx()
	}
	u := w.users[rng.Intn(len(w.users))]
	sym := ammTokens[rng.Intn(len(ammTokens))]
	p := w.pool(sym)
	switch c := rng.Intn(100); {
	case c < 8 || (p == nil && c < 40): // create
		n := new(big.Int).Add(rng.Amount(100), new(big.Int).Exp(big.NewInt(10), big.NewInt(18), nil))
		if rng.Chance(1, 10) {
			n = rng.Amount(70)
		}
		e := rng.Amount(100)
		w.opCreate(u, sym, n, e)
	case c < 30: // add
		var n, e *big.Int
		if p == nil {
			n, e = rng.Amount(80), rng.Amount(80)
		} else {
			n = w.frac(p.NativeAssetBalance.BigInt())
			switch rng.Intn(5) {
			case 0: // symmetric
				e = new(big.Int).Mul(n, p.ExternalAssetBalance.BigInt())
				if p.NativeAssetBalance.BigInt().Sign() > 0 {
					e.Quo(e, p.NativeAssetBalance.BigInt())
				}
			case 1:
				e = big.NewInt(0)
			case 2:
				e = w.frac(p.ExternalAssetBalance.BigInt())
				n = big.NewInt(0)
			default:
				e = w.frac(p.ExternalAssetBalance.BigInt())
			}
		}
		w.opAdd(u, sym, n, e)
	case c < 40: // remove by basis points
		wb := int64(1 + rng.Intn(10000))
		if rng.Chance(1, 5) {
			wb = 10000
		}
		if rng.Chance(1, 30) {
			wb = int64(10001 + rng.Intn(10))
		}
		w.opRm(u, sym, wb)
	case c < 50: // remove by units
		units := big.NewInt(1)
		if lp, err := w.app.ClpKeeper.GetLiquidityProvider(w.ctx, sym, u.String()); err == nil {
			units = w.frac(lp.LiquidityProviderUnits.BigInt())
			if rng.Chance(1, 5) {
				units = lp.LiquidityProviderUnits.BigInt()
			}
		}
		w.opRmu(u, sym, units)
	case c < 75: // swap, three routes
		var sent, recv string
		switch rng.Intn(3) {
		case 0:
			sent, recv = "rowan", sym
		case 1:
			sent, recv = sym, "rowan"
		default:
			sent, recv = sym, ammTokens[rng.Intn(len(ammTokens))]
			if recv == sent {
				recv = "rowan"
			}
		}
		amt := rng.Amount(90)
		if p != nil {
			if sent == "rowan" {
				amt = w.frac(p.NativeAssetBalance.BigInt())
			} else {
				amt = w.frac(p.ExternalAssetBalance.BigInt())
			}
		}
		minR := big.NewInt(0)
		if rng.Chance(1, 6) {
			minR = rng.Amount(60)
		}
		if rng.Chance(1, 4) {
			// minimum placed at the exact output: what the same message credits on a discarded copy of the state
			// (minimum 0).  One above it (or a little more) must be refused, the exact output itself accepted.
			if y0 := w.swapDryRun(u, sent, recv, amt); y0 != nil && y0.Sign() > 0 {
				switch rng.Intn(3) {
				case 0:
					minR = new(big.Int).Add(y0, big.NewInt(1))
				case 1:
					minR = new(big.Int).Add(y0, new(big.Int).Quo(y0, big.NewInt(int64(100+rng.Intn(900)))))
					minR.Add(minR, big.NewInt(1))
				}
				if minR.Cmp(y0) > 0 {
					w.opSwap(u, sent, recv, amt, minR)
				}
				minR = y0
			}
		}
		w.opSwap(u, sent, recv, amt, minR)
	case c < 80: // rewards bucket funding
		d := w.denoms[rng.Intn(len(w.denoms))]
		amt := rng.Amount(80)
		if rng.Chance(1, 3) { // k * 10^18, the magnitudes where rounded shares overshoot
			amt = new(big.Int).Mul(big.NewInt(int64(1+rng.Intn(12))), new(big.Int).Exp(big.NewInt(10), big.NewInt(18), nil))
		}
		w.tx(fmt.Sprintf("bucket %s %s %s", u, d, amt), "bucket", func(ctx sdk.Context) (string, error) {
			_, err := w.srv.AddLiquidityToRewardsBucket(sdk.WrapSDKContext(ctx), &clptypes.MsgAddLiquidityToRewardsBucketRequest{Signer: u.String(), Amount: sdk.NewCoins(sdk.NewCoin(d, sdk.NewIntFromBigInt(amt)))})
			return "", err
		})
	case c < 84: // epoch end (rewards bucket payout)
		w.hook("epoch", "epoch", func() { w.app.ClpKeeper.AfterEpochEnd(w.ctx, "hour", 1) })
	case c < 94: // end of block, next height
		// (the per-pool split probe of opEndBlock is used in the directed histories only: in random histories the
		// per-period counters it reads are reset and the balances move inside the same EndBlocker)
		w.hook("endblock", "endblock", func() { clp.EndBlocker(w.ctx, w.app.ClpKeeper) })
		if !w.halted {
			w.setHeight(w.height + 1 + int64(rng.Intn(2)))
		}
	case c < 95: // decommission (only small pools pass)
		w.opDecom(sym)
	default: // policy changes
		w.policy()
	}
}

func (w *ammWorld) policy() {
	rng := w.rng
	k := w.app.ClpKeeper
	switch rng.Intn(11) {
	case 10:
		w.randomLiquidityProtection()
	case 8: // enable / disable margin on a pool (x/margin params.Pools)
		w.setMarginPool(ammTokens[rng.Intn(len(ammTokens))], rng.Chance(2, 3))
	case 9: // the pool-health threshold below which removals from a margin-enabled pool are refused
		var t *big.Int
		switch rng.Intn(4) {
		case 0:
			t = big.NewInt(0)
		case 1:
			t = new(big.Int).Quo(pow18, big.NewInt(10))
		case 2:
			t = new(big.Int).Set(pow18)
		default:
			t = rng.Rate01()
		}
		w.setRemovalThreshold(t)
	case 7: // margin bookkeeping on a pool (what x/margin's Borrow / TakeInCustody / Repay leave behind)
		w.randomPoolMargin()
	case 0:
		r := rng.RateNonNeg()
		if rng.Bool() {
			r = rng.Rate01()
		}
		rp := k.GetPmtpRateParams(w.ctx)
		rp.PmtpCurrentRunningRate = decRaw(r)
		k.SetPmtpRateParams(w.ctx, rp)
		w.cfg("r " + r.String())
	case 1:
		f := rng.Rate01()
		sp := k.GetSwapFeeParams(w.ctx)
		sp.DefaultSwapFeeRate = decRaw(f)
		k.SetSwapFeeParams(w.ctx, &sp)
		w.cfg("fee " + f.String())
	case 2:
		f := rng.Rate01()
		tok := w.denoms[rng.Intn(len(w.denoms))]
		sp := k.GetSwapFeeParams(w.ctx)
		if len(sp.TokenParams) > 0 && rng.Chance(1, 3) {
			// an update whose token list no longer names one of the tokens: that token pays the default rate again
			i := rng.Intn(len(sp.TokenParams))
			gone := sp.TokenParams[i].Asset
			sp.TokenParams = append(append([]*clptypes.SwapFeeTokenParams{}, sp.TokenParams[:i]...), sp.TokenParams[i+1:]...)
			k.SetSwapFeeParams(w.ctx, &sp)
			w.cfg("nofeetoken " + gone)
			return
		}
		found := false
		for _, tp := range sp.TokenParams {
			if tp.Asset == tok {
				tp.SwapFeeRate = decRaw(f)
				found = true
			}
		}
		if !found {
			sp.TokenParams = append(sp.TokenParams, &clptypes.SwapFeeTokenParams{Asset: tok, SwapFeeRate: decRaw(f)})
		}
		k.SetSwapFeeParams(w.ctx, &sp)
		w.cfg("feetoken " + tok + " " + f.String())
	case 3:
		d := rng.Bool()
		p := k.GetRewardsParams(w.ctx)
		p.RewardsDistribute = d
		k.SetRewardParams(w.ctx, p)
		w.cfg("distribute " + b2s(d))
	case 4:
		l := uint64(rng.Intn(4))
		p := k.GetRewardsParams(w.ctx)
		p.RewardsLockPeriod = l
		k.SetRewardParams(w.ctx, p)
		w.cfg(fmt.Sprintf("lock %d", l))
	case 5: // a reward period starting now or soon
		start := uint64(w.height) + uint64(rng.Intn(2))
		stop := start + uint64(rng.Intn(12))
		alloc := rng.Amount(90)
		if rng.Chance(1, 5) {
			// a tiny allocation: a few base units per block, so that providers' shares round to zero
			alloc = big.NewInt(int64(1 + rng.Intn(40)))
		}
		mod := uint64(1 + rng.Intn(3))
		dist := rng.Bool()
		dm := rng.Rate01()
		if rng.Bool() {
			dm = new(big.Int).Set(pow18)
		}
		if rng.Chance(1, 4) {
			dm = big.NewInt(0) // only the pools listed in the period earn depth rewards
		}
		def := decRaw(dm)
		period := &clptypes.RewardPeriod{RewardPeriodId: "rp", RewardPeriodStartBlock: start, RewardPeriodEndBlock: stop, RewardPeriodAllocation: &sdk.Uint{}, RewardPeriodDefaultMultiplier: &def, RewardPeriodDistribute: dist, RewardPeriodMod: mod}
		a := uintOf(alloc)
		period.RewardPeriodAllocation = &a
		line := fmt.Sprintf("rewardperiod %d %d %s %d %s %s", start, stop, alloc, mod, b2s(dist), dm)
		if rng.Bool() {
			tok := ammTokens[rng.Intn(len(ammTokens))]
			m := new(big.Int).Mul(big.NewInt(int64(rng.Intn(11))), pow18)
			md := decRaw(m)
			period.RewardPeriodPoolMultipliers = []*clptypes.PoolMultiplier{{PoolMultiplierAsset: tok, Multiplier: &md}}
			line += " " + tok + " " + m.String()
		}
		p := k.GetRewardsParams(w.ctx)
		p.RewardPeriods = []*clptypes.RewardPeriod{period}
		k.SetRewardParams(w.ctx, p)
		w.cfg(line)
	case 6: // an LPPD period
		start := uint64(w.height) + uint64(rng.Intn(2))
		stop := start + uint64(rng.Intn(12))
		rate := rng.Rate01()
		if rng.Chance(2, 3) { // realistic small block rates
			rate = new(big.Int).Quo(rate, big.NewInt(1000))
		}
		mod := uint64(1 + rng.Intn(3))
		k.SetProviderDistributionParams(w.ctx, &clptypes.ProviderDistributionParams{DistributionPeriods: []*clptypes.ProviderDistributionPeriod{{DistributionPeriodBlockRate: decRaw(rate), DistributionPeriodStartBlock: start, DistributionPeriodEndBlock: stop, DistributionPeriodMod: mod}}})
		w.cfg(fmt.Sprintf("lppd %d %d %s %d", start, stop, rate, mod))
	}
}

// configuredFee is the swap-fee rate the stored parameters configure for a token: the override whose asset
// string is exactly the token's denomination, else the default rate. (Read from the parameters as stored, not
// through the keeper's own lookup, which is part of what is being checked.)
// storedRunningRate / storedSwapFeeParams: the ratio-shifting running rate and the swap fee parameters as the
// committed store of this block holds them, decoded from the raw bytes — not through the keeper's getters, which
// are code under test (a getter that answers from memory would otherwise judge itself).
func (w *ammWorld) storedRunningRate() *big.Int {
	bz := w.ctx.KVStore(w.app.GetKey(clptypes.StoreKey)).Get(clptypes.PmtpRateParamsPrefix)
	if bz == nil {
		return big.NewInt(0)
	}
	var p clptypes.PmtpRateParams
	w.app.AppCodec().MustUnmarshal(bz, &p)
	if p.PmtpCurrentRunningRate.IsNil() {
		return big.NewInt(0)
	}
	return p.PmtpCurrentRunningRate.BigInt()
}

func (w *ammWorld) storedSwapFeeParams() clptypes.SwapFeeParams {
	bz := w.ctx.KVStore(w.app.GetKey(clptypes.StoreKey)).Get(clptypes.SwapFeeParamsPrefix)
	if bz == nil {
		return *clptypes.GetDefaultSwapFeeParams()
	}
	var p clptypes.SwapFeeParams
	w.app.AppCodec().MustUnmarshal(bz, &p)
	return p
}

// opDiscardedTx: a transaction whose first messages are accepted parameter changes by their admin (running rate,
// swap fee parameters, symmetry threshold, rewards lock period — through the real message server) and whose last
// message fails: the whole transaction is discarded, so nothing may have changed — neither the state nor what the
// following messages of the same block see.  The model is told nothing.
func (w *ammWorld) opDiscardedTx() {
	rng := w.rng
	admin := w.users[0]
	for _, t := range []admintypes.AdminType{admintypes.AdminType_PMTPREWARDS, admintypes.AdminType_CLPDEX} {
		w.app.AdminKeeper.SetAdminAccount(w.ctx, &admintypes.AdminAccount{AdminType: t, AdminAddress: admin.String()})
	}
	cctx, _ := w.ctx.CacheContext()
	g := sdk.WrapSDKContext(cctx)
	func() {
		defer func() { _ = recover() }()
		for i := 0; i < 1+rng.Intn(2); i++ {
			switch rng.Intn(4) {
			case 0:
				r := sdk.NewDecWithPrec(int64(1+rng.Intn(3000)), 3)
				_, _ = w.srv.ModifyPmtpRates(g, &clptypes.MsgModifyPmtpRates{Signer: admin.String(), RunningRate: r.String()})
			case 1:
				req := &clptypes.MsgUpdateSwapFeeParamsRequest{Signer: admin.String(), DefaultSwapFeeRate: sdk.NewDecWithPrec(int64(rng.Intn(1000)), 3)}
				for _, tok := range w.denoms {
					if rng.Chance(1, 3) {
						req.TokenParams = append(req.TokenParams, &clptypes.SwapFeeTokenParams{Asset: tok, SwapFeeRate: sdk.NewDecWithPrec(int64(rng.Intn(1000)), 3)})
					}
				}
				_, _ = w.srv.UpdateSwapFeeParams(g, req)
			case 2:
				_, _ = w.srv.SetSymmetryThreshold(g, &clptypes.MsgSetSymmetryThreshold{Signer: admin.String(), Threshold: sdk.NewDecWithPrec(int64(rng.Intn(1000)), 4), Ratio: sdk.NewDecWithPrec(int64(rng.Intn(1000)), 4)})
			default:
				rp := w.app.ClpKeeper.GetRewardsParams(cctx)
				_, _ = w.srv.UpdateRewardsParams(g, &clptypes.MsgUpdateRewardsParamsRequest{Signer: admin.String(), LiquidityRemovalLockPeriod: rp.LiquidityRemovalLockPeriod + 7, LiquidityRemovalCancelPeriod: rp.LiquidityRemovalCancelPeriod + 3, RewardsLockPeriod: rp.RewardsLockPeriod + 5, RewardsEpochIdentifier: rp.RewardsEpochIdentifier, RewardsDistribute: !rp.RewardsDistribute})
			}
		}
	}()
	// the last message failed: the branch is dropped
	w.observe("tx.discarded")
}

func (w *ammWorld) configuredFee(tok string) *big.Int {
	sp := w.storedSwapFeeParams()
	for _, tp := range sp.TokenParams {
		if tp.Asset == tok {
			return tp.SwapFeeRate.BigInt()
		}
	}
	return sp.DefaultSwapFeeRate.BigInt()
}

func (w *ammWorld) setMarginPool(sym string, on bool) {
	mp := w.app.MarginKeeper.GetParams(w.ctx)
	var l []string
	for _, p := range mp.Pools {
		if p != sym {
			l = append(l, p)
		}
	}
	if on {
		l = append(l, sym)
	}
	mp.Pools = l
	w.app.MarginKeeper.SetParams(w.ctx, &mp)
	w.cfg("marginpool " + sym + " " + b2s(on))
}

// setLiquidityProtection writes both liquidity-protection records (params: switch, maximum, the asset
// the threshold is denominated in; rate params: the current threshold).
func (w *ammWorld) setLiquidityProtection(active bool, max *big.Int, asset string, cur *big.Int) {
	k := w.app.ClpKeeper
	lpp := k.GetLiquidityProtectionParams(w.ctx)
	lpp.IsActive = active
	lpp.MaxRowanLiquidityThreshold = sdk.NewUintFromBigInt(max)
	lpp.MaxRowanLiquidityThresholdAsset = asset
	k.SetLiquidityProtectionParams(w.ctx, lpp)
	k.SetLiquidityProtectionCurrentRowanLiquidityThreshold(w.ctx, sdk.NewUintFromBigInt(cur))
	w.cfg(fmt.Sprintf("lp %s %s %s %s", b2s(active), max, asset, cur))
}

// randomLiquidityProtection: on 3/4; denominated in the native token, in cusdc (the default) or in any
// token (which may have no pool); the current threshold full, partly used, exhausted or (an admin lowered
// the maximum) above the maximum.
func (w *ammWorld) randomLiquidityProtection() {
	rng := w.rng
	asset := "rowan"
	switch rng.Intn(3) {
	case 0:
		asset = "cusdc"
	case 1:
		asset = ammTokens[rng.Intn(len(ammTokens))]
	}
	max := rng.Amount(85)
	cur := new(big.Int).Set(max)
	switch rng.Intn(6) {
	case 0:
		cur = big.NewInt(0)
	case 1, 2:
		cur = new(big.Int).Mod(rng.BigBits(96), new(big.Int).Add(max, big.NewInt(1)))
	case 3:
		if rng.Chance(1, 4) {
			cur = new(big.Int).Add(max, rng.Amount(40))
		}
	}
	lpp := w.app.ClpKeeper.GetLiquidityProtectionParams(w.ctx)
	lpp.EpochLength = []uint64{1, 3, 14400}[rng.Intn(3)] // blocks to replenish the whole threshold (BeginBlocker)
	w.app.ClpKeeper.SetLiquidityProtectionParams(w.ctx, lpp)
	w.setLiquidityProtection(rng.Chance(3, 4), max, asset, cur)
}

func (w *ammWorld) setRemovalThreshold(t *big.Int) {
	mp := w.app.MarginKeeper.GetParams(w.ctx)
	mp.RemovalQueueThreshold = decRaw(t)
	w.app.MarginKeeper.SetParams(w.ctx, &mp)
	w.cfg("removalthreshold " + t.String())
}

// poolMargin writes the margin fields of a pool the way x/margin does: liabilities are pure bookkeeping
// (no coins move), custody is carved out of the pool's own balance (balance + custody is unchanged).
func (w *ammWorld) poolMargin(sym string, nL, eL, nC, eC *big.Int) {
	p := w.pool(sym)
	if p == nil {
		return
	}
	nTot := new(big.Int).Add(p.NativeAssetBalance.BigInt(), p.NativeCustody.BigInt())
	eTot := new(big.Int).Add(p.ExternalAssetBalance.BigInt(), p.ExternalCustody.BigInt())
	if nC.Cmp(nTot) > 0 || eC.Cmp(eTot) > 0 {
		return
	}
	p.NativeLiabilities, p.ExternalLiabilities = uintOf(nL), uintOf(eL)
	p.NativeCustody, p.ExternalCustody = uintOf(nC), uintOf(eC)
	// bad debt x/margin wrote off when it closed under-water positions: pure bookkeeping that no clp path reads
	// (pool depths are balance + liabilities of OPEN positions only), so the model does not carry it
	switch w.rng.Intn(3) {
	case 0:
		p.UnsettledNativeLiabilities, p.UnsettledExternalLiabilities = sdk.ZeroUint(), sdk.ZeroUint()
	case 1:
		p.UnsettledNativeLiabilities = uintOf(new(big.Int).Rsh(nTot, uint(1+w.rng.Intn(8))))
		p.UnsettledExternalLiabilities = uintOf(new(big.Int).Rsh(eTot, uint(1+w.rng.Intn(8))))
	default:
		p.UnsettledNativeLiabilities = uintOf(w.rng.Amount(80))
		p.UnsettledExternalLiabilities = uintOf(w.rng.Amount(80))
	}
	p.NativeAssetBalance, p.ExternalAssetBalance = uintOf(new(big.Int).Sub(nTot, nC)), uintOf(new(big.Int).Sub(eTot, eC))
	if err := w.app.ClpKeeper.SetPool(w.ctx, p); err != nil {
		panic(err)
	}
	w.cfg(fmt.Sprintf("poolmargin %s %s %s %s %s", sym, nL, eL, nC, eC))
}

func (w *ammWorld) randomPoolMargin() {
	rng := w.rng
	sym := ammTokens[rng.Intn(len(ammTokens))]
	p := w.pool(sym)
	if p == nil {
		return
	}
	frac := func(x *big.Int) *big.Int { // 0, a small part, or up to twice x
		switch rng.Intn(4) {
		case 0:
			return big.NewInt(0)
		case 1:
			return new(big.Int).Quo(x, big.NewInt(int64(2+rng.Intn(50))))
		case 2:
			return rng.Near(x)
		default:
			return new(big.Int).Quo(new(big.Int).Mul(x, big.NewInt(int64(rng.Intn(200)))), big.NewInt(100))
		}
	}
	nTot := new(big.Int).Add(p.NativeAssetBalance.BigInt(), p.NativeCustody.BigInt())
	eTot := new(big.Int).Add(p.ExternalAssetBalance.BigInt(), p.ExternalCustody.BigInt())
	nC, eC := frac(nTot), frac(eTot)
	if nC.Cmp(nTot) > 0 || nC.Sign() < 0 {
		nC = big.NewInt(0)
	}
	if eC.Cmp(eTot) > 0 || eC.Sign() < 0 {
		eC = big.NewInt(0)
	}
	nL, eL := frac(nTot), frac(eTot)
	if nL.Sign() < 0 {
		nL = big.NewInt(0)
	}
	if eL.Sign() < 0 {
		eL = big.NewInt(0)
	}
	w.poolMargin(sym, nL, eL, nC, eC)
}

// ---- explicit operations (used by the directed family) ----

func (w *ammWorld) opCreate(u sdk.AccAddress, sym string, n, e *big.Int) {
	w.tx(fmt.Sprintf("create %s %s %s %s", u, sym, n, e), "create", func(ctx sdk.Context) (string, error) {
		_, err := w.srv.CreatePool(sdk.WrapSDKContext(ctx), &clptypes.MsgCreatePool{Signer: u.String(), ExternalAsset: asset(sym), NativeAssetAmount: uintOf(n), ExternalAssetAmount: uintOf(e)})
		if err == nil {
			w.lastAdd[sym+"/"+u.String()] = w.height
		}
		return "", err
	})
}

func (w *ammWorld) opAdd(u sdk.AccAddress, sym string, n, e *big.Int) {
	class := "add"
	if p := w.pool(sym); p != nil {
		nD, eD := poolDepths(p)
		if nD.IsZero() || eD.IsZero() {
			class = "add.emptyside" // the ErrorEmptyPool branch of CalculatePoolUnits on an existing pool
		}
	}
	// one add in eight is signed under the all-upper-case bech32 spelling of the same account (valid: ValidateBasic
	// and GetSigners decode it to the same address); the model is told the account, not the spelling
	signer := u.String()
	if w.rng.Chance(1, 8) {
		signer = strings.ToUpper(signer)
		if class == "add" { // an empty-side add keeps its own class (known finding F17 is identified by it)
			class += ".spelled"
		}
	}
	w.tx(fmt.Sprintf("add %s %s %s %s", u, sym, n, e), class, func(ctx sdk.Context) (string, error) {
		m := &clptypes.MsgAddLiquidity{Signer: signer, ExternalAsset: asset(sym), NativeAssetAmount: uintOf(n), ExternalAssetAmount: uintOf(e)}
		if err := m.ValidateBasic(); err != nil && signer != u.String() {
			panic("harness: the upper-case spelling must be a valid signer: " + err.Error())
		}
		_, err := w.srv.AddLiquidity(sdk.WrapSDKContext(ctx), m)
		if err == nil {
			w.lastAdd[sym+"/"+u.String()] = w.height
		}
		return "", err
	})
}

// removalProbe records what a removal burned and paid, for Spec.C01.payoutOK.
type removalProbe struct {
	w         *ammWorld
	u         sdk.AccAddress
	sym       string
	P, nD, eD *big.Int
	units     *big.Int
	bn, be    *big.Int
	ok        bool
}

func (w *ammWorld) probeRemoval(u sdk.AccAddress, sym string) *removalProbe {
	pr := &removalProbe{w: w, u: u, sym: sym}
	p := w.pool(sym)
	lp, err := w.app.ClpKeeper.GetLiquidityProvider(w.ctx, sym, u.String())
	if p == nil || err != nil {
		return pr
	}
	nD, eD := poolDepths(p)
	pr.P, pr.nD, pr.eD = p.PoolUnits.BigInt(), nD.BigInt(), eD.BigInt()
	pr.units = lp.LiquidityProviderUnits.BigInt()
	pr.bn = w.app.BankKeeper.GetBalance(w.ctx, u, "rowan").Amount.BigInt()
	pr.be = w.app.BankKeeper.GetBalance(w.ctx, u, sym).Amount.BigInt()
	pr.ok = true
	return pr
}

func (pr *removalProbe) emit(class string) {
	if !pr.ok {
		return
	}
	w := pr.w
	left := big.NewInt(0)
	if lp, err := w.app.ClpKeeper.GetLiquidityProvider(w.ctx, pr.sym, pr.u.String()); err == nil {
		left = lp.LiquidityProviderUnits.BigInt()
	}
	n2 := new(big.Int).Sub(w.app.BankKeeper.GetBalance(w.ctx, pr.u, "rowan").Amount.BigInt(), pr.bn)
	e2 := new(big.Int).Sub(w.app.BankKeeper.GetBalance(w.ctx, pr.u, pr.sym).Amount.BigInt(), pr.be)
	burned := new(big.Int).Sub(pr.units, left)
	if n2.Sign() == 0 && e2.Sign() == 0 && burned.Sign() == 0 {
		return // the removal was refused
	}
	if burned.Sign() < 0 || n2.Sign() < 0 || e2.Sign() < 0 {
		burned, n2, e2 = big.NewInt(0), new(big.Int).Abs(n2), new(big.Int).Abs(e2) // cannot happen; judged false below
	}
	w.out.Emit(fmt.Sprintf("chk c02.payout tag=%s.payout %s %s %s %s %s %s", class, pr.P, pr.nD, pr.eD, burned, n2, e2), "true", "chk.payout", false)
}

func (w *ammWorld) opRmu(u sdk.AccAddress, sym string, units *big.Int) {
	pr := w.probeRemoval(u, sym)
	w.tx(fmt.Sprintf("rmu %s %s %s", u, sym, units), "rmu", func(ctx sdk.Context) (string, error) {
		_, err := w.srv.RemoveLiquidityUnits(sdk.WrapSDKContext(ctx), &clptypes.MsgRemoveLiquidityUnits{Signer: u.String(), ExternalAsset: asset(sym), WithdrawUnits: uintOf(units)})
		if err == nil {
			w.lastAdd[sym+"/"+u.String()] = w.height // an accepted removal is an update of the provider too
		}
		return "", err
	})
	pr.emit("rmu")
}

func (w *ammWorld) opRm(u sdk.AccAddress, sym string, wb int64) {
	// one removal in twelve asks for an asymmetric payout (asymmetry != 0), which the handler refuses
	if w.rng.Chance(1, 12) {
		asym := []int64{1, -1, 5000, -5000, 10000, -10000}[w.rng.Intn(6)]
		w.tx(fmt.Sprintf("rma %s %s %d %d", u, sym, wb, asym), "rma", func(ctx sdk.Context) (string, error) {
			_, err := w.srv.RemoveLiquidity(sdk.WrapSDKContext(ctx), &clptypes.MsgRemoveLiquidity{Signer: u.String(), ExternalAsset: asset(sym), WBasisPoints: sdk.NewInt(wb), Asymmetry: sdk.NewInt(asym)})
			return "", err
		})
		return
	}
	pr := w.probeRemoval(u, sym)
	w.tx(fmt.Sprintf("rm %s %s %d", u, sym, wb), "rm", func(ctx sdk.Context) (string, error) {
		_, err := w.srv.RemoveLiquidity(sdk.WrapSDKContext(ctx), &clptypes.MsgRemoveLiquidity{Signer: u.String(), ExternalAsset: asset(sym), WBasisPoints: sdk.NewInt(wb), Asymmetry: sdk.ZeroInt()})
		if err == nil {
			w.lastAdd[sym+"/"+u.String()] = w.height
		}
		return "", err
	})
	pr.emit("rm")
}

func (w *ammWorld) opBucket(u sdk.AccAddress, d string, amt *big.Int) {
	w.tx(fmt.Sprintf("bucket %s %s %s", u, d, amt), "bucket", func(ctx sdk.Context) (string, error) {
		_, err := w.srv.AddLiquidityToRewardsBucket(sdk.WrapSDKContext(ctx), &clptypes.MsgAddLiquidityToRewardsBucketRequest{Signer: u.String(), Amount: sdk.NewCoins(sdk.NewCoin(d, sdk.NewIntFromBigInt(amt)))})
		return "", err
	})
}

// bankSnapshot returns the balance of every known account in every known denomination.
func (w *ammWorld) bankSnapshot(ctx sdk.Context) map[string]string {
	m := map[string]string{}
	accts := []string{"clp"}
	addrs := []sdk.AccAddress{clptypes.GetCLPModuleAddress()}
	for _, u := range w.users {
		accts = append(accts, u.String())
		addrs = append(addrs, u)
	}
	for i, a := range addrs {
		for _, d := range w.denoms {
			m[accts[i]+" "+d] = w.app.BankKeeper.GetBalance(ctx, a, d).Amount.String()
		}
	}
	return m
}

// swapDryRun: the amount the swap message with minimum 0 credits, measured on a copy of the state that is thrown
// away (nil when the message fails).  Nothing is emitted.
func (w *ammWorld) swapDryRun(u sdk.AccAddress, sent, recv string, amt *big.Int) (y *big.Int) {
	defer func() {
		if r := recover(); r != nil {
			y = nil
		}
	}()
	cctx, _ := w.ctx.CacheContext()
	before := w.app.BankKeeper.GetBalance(cctx, u, recv).Amount
	_, err := w.srv.Swap(sdk.WrapSDKContext(cctx), &clptypes.MsgSwap{Signer: u.String(), SentAsset: asset(sent), ReceivedAsset: asset(recv), SentAmount: uintOf(amt), MinReceivingAmount: sdk.ZeroUint()})
	if err != nil {
		return nil
	}
	return w.app.BankKeeper.GetBalance(cctx, u, recv).Amount.Sub(before).BigInt()
}

func (w *ammWorld) opSwap(u sdk.AccAddress, sent, recv string, amt, minR *big.Int) {
	class := "swap.single"
	if sent != "rowan" && recv != "rowan" {
		class = "swap.double"
	}
	var settle string
	// depths before the swap and the fee rate configured for the sold token, for Spec.C03.swapBoundOK
	bound := ""
	{
		depth := func(sym string) (n, e *big.Int, ok bool) {
			p := w.pool(sym)
			if p == nil {
				return nil, nil, false
			}
			nD, eD := poolDepths(p)
			return nD.BigInt(), eD.BigInt(), true
		}
		rr := w.storedRunningRate()
		ff := w.configuredFee(sent)
		switch {
		case sent == "rowan":
			if n, e, ok := depth(recv); ok {
				bound = fmt.Sprintf("0 0 %s %s 0 0 %s %s %s", n, e, amt, rr, ff)
			}
		case recv == "rowan":
			if n, e, ok := depth(sent); ok {
				bound = fmt.Sprintf("0 1 %s %s 0 0 %s %s %s", e, n, amt, rr, ff)
			}
		default:
			n1, e1, ok1 := depth(sent)
			n2, e2, ok2 := depth(recv)
			if ok1 && ok2 {
				bound = fmt.Sprintf("1 0 %s %s %s %s %s %s %s", e1, n1, n2, e2, amt, rr, ff)
			}
		}
	}
	// the real balance (not the pricing depth) of the output token in the pool that pays it out
	below := ""
	if recv == "rowan" {
		if p := w.pool(sent); p != nil {
			below = p.NativeAssetBalance.String()
		}
	} else if p := w.pool(recv); p != nil {
		below = p.ExternalAssetBalance.String()
	}
	w.tx(fmt.Sprintf("swap %s %s %s %s %s", u, sent, recv, amt, minR), class, func(ctx sdk.Context) (string, error) {
		snap := w.bankSnapshot(ctx)
		before := w.app.BankKeeper.GetBalance(ctx, u, recv).Amount
		_, err := w.srv.Swap(sdk.WrapSDKContext(ctx), &clptypes.MsgSwap{Signer: u.String(), SentAsset: asset(sent), ReceivedAsset: asset(recv), SentAmount: uintOf(amt), MinReceivingAmount: uintOf(minR)})
		if err != nil {
			return "", err
		}
		y := w.app.BankKeeper.GetBalance(ctx, u, recv).Amount.Sub(before).String()
		after := w.bankSnapshot(ctx)
		keys := make([]string, 0, len(snap))
		for k := range snap {
			keys = append(keys, k)
		}
		sort.Strings(keys)
		var sb strings.Builder
		for _, k := range keys {
			if snap[k] != after[k] {
				fmt.Fprintf(&sb, " %s %s %s", k, snap[k], after[k])
			}
		}
		settle = fmt.Sprintf("chk c03.settle tag=%s.settle %s %s %s %s %s %s%s", class, u, sent, recv, amt, minR, y, sb.String())
		if bound != "" {
			bound = fmt.Sprintf("chk c03.bound tag=%s.bound %s %s", class, bound, y)
		}
		return y, nil
	})
	if settle != "" {
		// the implementation's own balance changes, judged by Spec.C03.settleOK
		w.out.Emit(settle, "true", "chk.settle", false)
		if strings.HasPrefix(bound, "chk") {
			w.out.Emit(bound, "true", "chk.bound", false)
		}
		if below != "" {
			y := strings.Fields(settle)[8]
			w.out.Emit(fmt.Sprintf("chk c03.below tag=%s.below %s %s", class, y, below), "true", "chk.below", false)
		}
	}
}

func (w *ammWorld) opDecom(sym string) {
	// the refunds of a successful decommission may each leave a truncated remainder in the module account
	n := 0
	if all, err := w.app.ClpKeeper.GetAllLiquidityProviders(w.ctx); err == nil {
		for _, l := range all {
			if l.Asset.Symbol == sym {
				n++
			}
		}
	}
	// what one refund may leave behind per token: the truncated base unit plus the 18-decimal rounding of the
	// quotients inside CalculateWithdrawal, whose absolute error scales with the depth (<= depth * 1e-17, generous)
	perRefund := 2
	if p := w.pool(sym); p != nil {
		nD, eD := poolDepths(p)
		m := nD.BigInt()
		if eD.BigInt().Cmp(m) > 0 {
			m = eD.BigInt()
		}
		q := new(big.Int).Quo(m, new(big.Int).Exp(big.NewInt(10), big.NewInt(17), nil))
		if q.IsInt64() && q.Int64() < 1<<40 {
			perRefund += int(q.Int64())
		} else {
			perRefund += 1 << 40
		}
	}
	w.tx(fmt.Sprintf("decom %s %s", w.users[0], sym), "decom", func(ctx sdk.Context) (string, error) {
		_, err := w.srv.DecommissionPool(sdk.WrapSDKContext(ctx), &clptypes.MsgDecommissionPool{Signer: w.users[0].String(), Symbol: sym})
		if err == nil {
			w.decomBudget += n * perRefund
		}
		return "", err
	})
}

func (w *ammWorld) opEpoch() {
	w.hook("epoch", "epoch", func() { w.app.ClpKeeper.AfterEpochEnd(w.ctx, "hour", 1) })
}

// opEpochsBegin: a block at time t whose BeginBlock runs the REAL x/epochs BeginBlocker (which calls the clp
// hook for every epoch that ends).  Whether the rewards epoch is due is read from the stored epoch infos and the
// stored rewards parameters before the call: if it is, the model runs its epoch payout and every epoch
// predicate is judged as for a direct hook call; if not, nothing may change.
func (w *ammWorld) opEpochsBegin(t time.Time) {
	w.ctx = w.ctx.WithBlockTime(t)
	id := w.app.ClpKeeper.GetRewardsParams(w.ctx).RewardsEpochIdentifier
	due := false
	for _, info := range w.app.EpochsKeeper.AllEpochInfos(w.ctx) {
		if info.Identifier == id && info.EpochCountingStarted && !info.StartTime.After(t) && t.After(info.CurrentEpochStartTime.Add(info.Duration)) {
			due = true
		}
	}
	if due {
		w.hook("epoch", "epoch", func() { w.app.EpochsKeeper.BeginBlocker(w.ctx) })
		return
	}
	func() {
		defer func() {
			if r := recover(); r != nil {
				w.halted = true
				w.out.Emit("epoch", "panic", "epochs.idle.panic", true)
			}
		}()
		w.app.EpochsKeeper.BeginBlocker(w.ctx)
	}()
	if !w.halted {
		w.observe("epochs.idle")
	}
}

// setRewardsEpoch: the epoch whose end pays the rewards buckets (stored parameter; the model has one payout op)
func (w *ammWorld) setRewardsEpoch(id string) {
	p := w.app.ClpKeeper.GetRewardsParams(w.ctx)
	p.RewardsEpochIdentifier = id
	w.app.ClpKeeper.SetRewardParams(w.ctx, p)
}

// splitProbe records, for Spec.C18.splitObservedOK, the configured weight of every pool (multiplier of the
// stored reward period × native balance) before an EndBlocker and what the block added to the pool's
// per-period reward counter.
func (w *ammWorld) splitProbe() func() {
	k := w.app.ClpKeeper
	rp := k.GetRewardsParams(w.ctx)
	if len(rp.RewardPeriods) == 0 {
		return func() {}
	}
	per := rp.RewardPeriods[0]
	h := uint64(w.height)
	if h < per.RewardPeriodStartBlock || h > per.RewardPeriodEndBlock || per.RewardPeriodDefaultMultiplier == nil {
		return func() {}
	}
	// an LPPD run in the same EndBlocker changes the native balances before the depth rewards are split: the
	// weights at the moment of the split cannot be observed from outside, so such blocks are not judged
	if pd := k.GetProviderDistributionParams(w.ctx); pd != nil {
		for _, p := range pd.DistributionPeriods {
			if h >= p.DistributionPeriodStartBlock && h <= p.DistributionPeriodEndBlock {
				return func() {}
			}
		}
	}
	pools := k.GetPools(w.ctx)
	sort.Slice(pools, func(i, j int) bool { return pools[i].ExternalAsset.Symbol < pools[j].ExternalAsset.Symbol })
	type pw struct {
		sym    string
		weight *big.Int
		pre    *big.Int
	}
	var l []pw
	for _, p := range pools {
		m := per.RewardPeriodDefaultMultiplier.BigInt()
		for _, pm := range per.RewardPeriodPoolMultipliers {
			if pm.PoolMultiplierAsset == p.ExternalAsset.Symbol && pm.Multiplier != nil {
				m = pm.Multiplier.BigInt()
				break
			}
		}
		if m.Sign() < 0 {
			return func() {}
		}
		l = append(l, pw{p.ExternalAsset.Symbol, new(big.Int).Mul(m, p.NativeAssetBalance.BigInt()), p.RewardPeriodNativeDistributed.BigInt()})
	}
	return func() {
		if w.halted {
			return
		}
		var sb strings.Builder
		reset := false
		post := make([]*big.Int, len(l))
		for i, e := range l {
			p := w.pool(e.sym)
			if p == nil {
				return
			}
			post[i] = p.RewardPeriodNativeDistributed.BigInt()
			if post[i].Cmp(e.pre) < 0 {
				reset = true // the counters were reset at the period start
			}
		}
		any := false
		for i, e := range l {
			r := new(big.Int).Set(post[i])
			if !reset {
				r.Sub(r, e.pre)
			}
			if r.Sign() != 0 {
				any = true
			}
			fmt.Fprintf(&sb, " %s %s", e.weight, r)
		}
		w.out.Emit("chk c18.l1split tag=endblock.split"+sb.String(), "true", "chk.l1split", any)
	}
}

func (w *ammWorld) opEndBlock() {
	done := w.splitProbe()
	w.hook("endblock", "endblock", func() { clp.EndBlocker(w.ctx, w.app.ClpKeeper) })
	done()
	if !w.halted {
		w.setHeight(w.height + 1)
	}
}

func (w *ammWorld) setDistribute(d bool) {
	p := w.app.ClpKeeper.GetRewardsParams(w.ctx)
	p.RewardsDistribute = d
	w.app.ClpKeeper.SetRewardParams(w.ctx, p)
	w.cfg("distribute " + b2s(d))
}

func (w *ammWorld) setLock(l uint64) {
	p := w.app.ClpKeeper.GetRewardsParams(w.ctx)
	p.RewardsLockPeriod = l
	w.app.ClpKeeper.SetRewardParams(w.ctx, p)
	w.cfg(fmt.Sprintf("lock %d", l))
}

func (w *ammWorld) fundAll() {
	huge := new(big.Int).Exp(big.NewInt(10), big.NewInt(38), nil)
	for _, u := range w.users {
		for _, d := range w.denoms {
			w.fund(u, d, huge)
		}
	}
}

func e18(k int64) *big.Int { return new(big.Int).Mul(big.NewInt(k), pow18) }

// family "ammdir": directed histories named in DESIGN.md 4/C01, 4/C02, 4/C18.
func init() {
	families["ammdir"] = func(rng *Rng, n int, out *Out, replay string) {
		// D1/D2: nProv equal providers, bucket of k*10^18 (rounded shares overshoot), wallet / re-invest mode
		for _, nProv := range []int{1, 2, 3, 6, 7, 12} {
			for _, k := range []int64{1, 6, 7} {
				for _, dist := range []bool{true, false} {
					w := newAmmWorld(rng, out, nProv, -1)
					w.fundAll()
					w.setDistribute(dist)
					w.opCreate(w.users[0], "cusdc", e18(1000), e18(1000))
					for i := 1; i < nProv; i++ {
						w.opAdd(w.users[i], "cusdc", e18(1000), e18(1000))
					}
					w.opBucket(w.users[0], "cusdc", e18(k))
					w.setHeight(5)
					w.opEpoch()
					w.opEpoch()
					if !w.halted {
						w.opSwap(w.users[0], "rowan", "cusdc", e18(1), big.NewInt(0))
					}
				}
			}
		}
		// D3: a blocked provider during wallet payout, LPPD and depth rewards in distribute mode
		for _, blocked := range []int{1, 2} {
			w := newAmmWorld(rng, out, 4, blocked)
			w.fundAll()
			w.setDistribute(true)
			w.opCreate(w.users[0], "ceth", e18(500), e18(7))
			for i := 1; i < 4; i++ {
				w.opAdd(w.users[i], "ceth", e18(int64(100*i)), big.NewInt(0))
			}
			w.opBucket(w.users[0], "ceth", e18(3))
			def := sdk.OneDec()
			a := sdk.NewUintFromString("1000000000000000000000")
			per := &clptypes.RewardPeriod{RewardPeriodId: "rp", RewardPeriodStartBlock: 1, RewardPeriodEndBlock: 10, RewardPeriodAllocation: &a, RewardPeriodDefaultMultiplier: &def, RewardPeriodDistribute: true, RewardPeriodMod: 1}
			p := w.app.ClpKeeper.GetRewardsParams(w.ctx)
			p.RewardPeriods = []*clptypes.RewardPeriod{per}
			w.app.ClpKeeper.SetRewardParams(w.ctx, p)
			w.cfg("rewardperiod 1 10 1000000000000000000000 1 1 1000000000000000000")
			w.app.ClpKeeper.SetProviderDistributionParams(w.ctx, &clptypes.ProviderDistributionParams{DistributionPeriods: []*clptypes.ProviderDistributionPeriod{{DistributionPeriodBlockRate: sdk.NewDecWithPrec(1, 3), DistributionPeriodStartBlock: 1, DistributionPeriodEndBlock: 10, DistributionPeriodMod: 1}}})
			w.cfg("lppd 1 10 1000000000000000 1")
			for i := 0; i < 4 && !w.halted; i++ {
				w.opEndBlock()
			}
			if !w.halted {
				w.opEpoch()
			}
		}
		// D4: decommission with 1..5 providers, odd balances, pools first / not first in the provider store
		for _, sym := range []string{"cet1", "cusdc"} {
			for nProv := 1; nProv <= 5; nProv++ {
				w := newAmmWorld(rng, out, 5, -1)
				w.fundAll()
				// a big pool that sorts between the two candidates so that the provider store has other entries
				w.opCreate(w.users[1], "ceth", e18(50), e18(3))
				w.opCreate(w.users[0], sym, e18(2), big.NewInt(777777777))
				for i := 1; i < nProv; i++ {
					w.opAdd(w.users[i], sym, big.NewInt(int64(1000003*i)), big.NewInt(int64(333*i)))
				}
				// shrink the pool below the decommission threshold
				if lp, err := w.app.ClpKeeper.GetLiquidityProvider(w.ctx, sym, w.users[0].String()); err == nil {
					u := new(big.Int).Mul(lp.LiquidityProviderUnits.BigInt(), big.NewInt(3))
					w.opRmu(w.users[0], sym, u.Quo(u, big.NewInt(4)))
				}
				w.opDecom(sym)
				w.opSwap(w.users[2], "rowan", "ceth", e18(1), big.NewInt(0))
			}
		}
		// D6: a reward period with mod > 1 whose first distribution blocks find nothing to reward (no pool yet,
		// then a pool with multiplier 0), then depth appears: the accumulator must be cleared on every
		// distribution block
		for _, dist := range []bool{false, true} {
			w := newAmmWorld(rng, out, 3, -1)
			w.fundAll()
			def := sdk.OneDec()
			a := sdk.NewUint(30000)
			per := &clptypes.RewardPeriod{RewardPeriodId: "rp", RewardPeriodStartBlock: 1, RewardPeriodEndBlock: 30, RewardPeriodAllocation: &a, RewardPeriodDefaultMultiplier: &def, RewardPeriodDistribute: dist, RewardPeriodMod: 3}
			p := w.app.ClpKeeper.GetRewardsParams(w.ctx)
			p.RewardPeriods = []*clptypes.RewardPeriod{per}
			w.app.ClpKeeper.SetRewardParams(w.ctx, p)
			w.cfg("rewardperiod 1 30 30000 3 " + b2s(dist) + " 1000000000000000000")
			for i := 0; i < 5 && !w.halted; i++ {
				w.opEndBlock()
			}
			w.opCreate(w.users[0], "cusdc", e18(10), e18(10))
			for i := 0; i < 8 && !w.halted; i++ {
				w.opEndBlock()
			}
		}
		// D10: more providers than one page of the SDK's default pagination (100): every eligible provider of the
		// pool is paid its share of the bucket, whatever its place in store order
		for _, dist := range []bool{true, false} {
			const nProv = 130
			w := newAmmWorld(rng, out, nProv, -1)
			for _, u := range w.users {
				w.fund(u, "rowan", e18(1000000))
				w.fund(u, "cusdc", e18(1000000))
			}
			w.setDistribute(dist)
			w.opCreate(w.users[0], "cusdc", e18(1000), e18(1000))
			for i := 1; i < nProv; i++ {
				w.opAdd(w.users[i], "cusdc", e18(int64(1+i%7)), e18(int64(1+i%7)))
			}
			w.opBucket(w.users[0], "cusdc", e18(500))
			w.setLock(3)
			w.setHeight(9)
			w.opAdd(w.users[3], "cusdc", e18(1), e18(1)) // refreshed: inside the lock period at the epoch end
			w.setHeight(15)
			w.opEpoch()
		}
		// D23: the buckets paid through the real x/epochs BeginBlocker, rewards epoch = hour / day / week, block times
		// stepping over hour, day and week boundaries (several epochs end in one block at a day and at a week
		// boundary); the bucket is refilled before every block: it must be paid exactly in the blocks where the
		// configured epoch ends, in both modes
		for _, id := range []string{"day", "hour", "week"} {
			for _, dist := range []bool{true, false} {
				w := newAmmWorld(rng, out, 4, -1)
				w.fundAll()
				w.setDistribute(dist)
				w.setRewardsEpoch(id)
				w.opCreate(w.users[0], "ceth", e18(1000), e18(50))
				w.opAdd(w.users[1], "ceth", e18(3000), e18(150))
				t0 := time.Unix(1700000000, 0).UTC()
				w.opEpochsBegin(t0) // the epochs start counting
				at := t0
				for _, d := range []time.Duration{30 * time.Minute, 31 * time.Minute, time.Hour, 22*time.Hour + time.Second, time.Second, time.Second, time.Hour, 6 * 24 * time.Hour, time.Second, time.Second, time.Second, time.Second} {
					if w.halted {
						break
					}
					at = at.Add(d)
					w.setHeight(w.height + 1)
					w.opBucket(w.users[2], "ceth", e18(1))
					w.opBucket(w.users[2], "rowan", e18(4))
					w.opEpochsBegin(at)
				}
			}
		}
		// D24: two rewards epochs closer together than the rewards lock period, the first in pool mode (re-invested),
		// then the distribute flag flipped: everybody past the lock period by its own messages is paid at the second
		// (and the same with both epochs in pool mode / both in wallet mode)
		for _, modes := range [][2]bool{{false, true}, {false, false}, {true, true}} {
			w := newAmmWorld(rng, out, 4, -1)
			w.fundAll()
			w.setLock(10)
			w.setDistribute(modes[0])
			w.setHeight(100)
			w.opCreate(w.users[0], "cusdc", e18(1000), e18(1000))
			w.opAdd(w.users[1], "cusdc", e18(1000), e18(1000))
			w.setHeight(195)
			w.opAdd(w.users[2], "cusdc", e18(2000), e18(2000))
			w.setHeight(196)
			w.opBucket(w.users[3], "cusdc", e18(100))
			w.setHeight(200)
			w.opEpoch()
			w.setHeight(203)
			w.opBucket(w.users[3], "cusdc", e18(100))
			w.setDistribute(modes[1])
			w.setHeight(208)
			w.opEpoch()
		}
		// D25: more pools than any page size (201): every pool takes part in the provider distribution and in the depth
		// rewards of a block, and every record is in the dump (read from the raw store)
		{
			old := ammTokens
			var toks []string
			for i := 0; i < 201; i++ {
				toks = append(toks, fmt.Sprintf("ct%03d", i))
			}
			ammTokens = toks
			w := newAmmWorld(rng, out, 2, -1)
			ammTokens = old
			w.fundAll()
			for i, t := range toks {
				if w.halted {
					break
				}
				w.quiet = i > 2 && i < len(toks)-1 // observe only the first and the last creations
				w.opCreate(w.users[0], t, e18(1000), e18(10))
			}
			w.quiet = false
			w.opAdd(w.users[1], toks[len(toks)-1], e18(1000), e18(10))
			w.app.ClpKeeper.SetProviderDistributionParams(w.ctx, &clptypes.ProviderDistributionParams{DistributionPeriods: []*clptypes.ProviderDistributionPeriod{{DistributionPeriodBlockRate: sdk.NewDecWithPrec(1, 3), DistributionPeriodStartBlock: 2, DistributionPeriodEndBlock: 2, DistributionPeriodMod: 1}}})
			w.cfg("lppd 2 2 1000000000000000 1")
			def := sdk.OneDec()
			a := sdk.NewUintFromString("2010000000000000000000")
			per := &clptypes.RewardPeriod{RewardPeriodId: "rp", RewardPeriodStartBlock: 3, RewardPeriodEndBlock: 4, RewardPeriodAllocation: &a, RewardPeriodDefaultMultiplier: &def, RewardPeriodDistribute: false, RewardPeriodMod: 1}
			p := w.app.ClpKeeper.GetRewardsParams(w.ctx)
			p.RewardPeriods = []*clptypes.RewardPeriod{per}
			w.app.ClpKeeper.SetRewardParams(w.ctx, p)
			w.cfg("rewardperiod 3 4 2010000000000000000000 1 0 1000000000000000000")
			w.setHeight(2)
			for i := 0; i < 3 && !w.halted; i++ {
				w.opEndBlock()
			}
		}
		// D28: a pool with 100, 101 and 102 providers (around the default page size), another pool sorting after it, then
		// the decommission: every provider is refunded and every record goes with the pool
		for _, nProv := range []int{101, 100, 102} {
			w := newAmmWorld(rng, out, nProv+1, -1)
			w.quiet = true
			for _, u := range w.users {
				for _, d := range []string{"rowan", "ceth", "cusdc"} {
					w.fund(u, d, new(big.Int).Exp(big.NewInt(10), big.NewInt(30), nil))
				}
			}
			w.opCreate(w.users[0], "ceth", e18(1), new(big.Int).Quo(e18(1), big.NewInt(40)))
			w.opCreate(w.users[nProv], "cusdc", e18(3), e18(3))
			for i := 1; i < nProv && !w.halted; i++ {
				w.quiet = i > 2 && i < nProv-1
				w.opAdd(w.users[i], "ceth", big.NewInt(1000000000000), big.NewInt(25000000000))
			}
			w.quiet = false
			w.opRm(w.users[0], "ceth", 6000) // below the decommission threshold
			w.opRm(w.users[0], "ceth", 6000)
			w.opDecom("ceth")
			w.opCreate(w.users[0], "ceth", e18(1), e18(1))
		}
		// D26: two provider-distribution periods that share a block (A = 10..12, B = 12..14, both mod 1): the policy in
		// force at a height is the FIRST listed period covering it — the model is told that one before every block —
		// so block 12 pays A's rate once; whatever is paid to providers is taken off the pools
		{
			w := newAmmWorld(rng, out, 3, -1)
			w.fundAll()
			w.opCreate(w.users[0], "ceth", e18(1000), e18(50))
			w.opCreate(w.users[1], "cusdc", e18(3000), e18(3000))
			w.opAdd(w.users[2], "cusdc", e18(1000), e18(1000))
			type per struct {
				a, b uint64
				rate int64 // 10^-3
			}
			list := []per{{10, 12, 10}, {12, 14, 25}}
			var pp []*clptypes.ProviderDistributionPeriod
			for _, x := range list {
				pp = append(pp, &clptypes.ProviderDistributionPeriod{DistributionPeriodBlockRate: sdk.NewDecWithPrec(x.rate, 3), DistributionPeriodStartBlock: x.a, DistributionPeriodEndBlock: x.b, DistributionPeriodMod: 1})
			}
			w.app.ClpKeeper.SetProviderDistributionParams(w.ctx, &clptypes.ProviderDistributionParams{DistributionPeriods: pp})
			w.setHeight(9)
			for !w.halted && w.height <= 15 {
				w.cfg("nolppd")
				for _, x := range list {
					if uint64(w.height) >= x.a && uint64(w.height) <= x.b {
						w.cfg(fmt.Sprintf("lppd %d %d %s %d", x.a, x.b, sdk.NewDecWithPrec(x.rate, 3).BigInt(), 1))
						break
					}
				}
				w.opEndBlock()
			}
		}
		// D27: a ratio-shifting policy compounding past every bound an administrator could set directly (governance
		// rate 1, one-block epochs, 25 blocks: running rate 2^25 − 1), driven by the real BeginBlocker; swaps in both
		// directions are then bounded with the STORED running rate
		{
			w := newAmmWorld(rng, out, 3, -1)
			w.fundAll()
			w.opCreate(w.users[0], "ceth", e18(100000), e18(5000))
			w.app.ClpKeeper.SetPmtpParams(w.ctx, &clptypes.PmtpParams{PmtpPeriodGovernanceRate: sdk.OneDec(), PmtpPeriodEpochLength: 1, PmtpPeriodStartBlock: w.height + 1, PmtpPeriodEndBlock: w.height + 25})
			w.app.ClpKeeper.SetPmtpEpoch(w.ctx, clptypes.PmtpEpoch{EpochCounter: 0, BlockCounter: 0})
			for i := 0; i < 27 && !w.halted; i++ {
				w.setHeight(w.height + 1)
				func() {
					defer func() {
						if r := recover(); r != nil {
							w.halted = true
						}
					}()
					clp.BeginBlocker(w.ctx, w.app.ClpKeeper)
				}()
				w.cfg("r " + w.storedRunningRate().String())
				if i%6 == 5 || i >= 25 {
					w.opSwap(w.users[1], "ceth", "rowan", e18(1), big.NewInt(0))
					w.opSwap(w.users[1], "rowan", "ceth", e18(10), big.NewInt(0))
				}
			}
		}
		// D22: a provider record holding zero units (an add too small to mint a unit) in a pool that is then
		// decommissioned: either the decommission is refused as a whole or every record goes with the pool
		{
			w := newAmmWorld(rng, out, 3, -1)
			w.fundAll()
			hundred := new(big.Int).Mul(e18(1), big.NewInt(100))
			w.opCreate(w.users[0], "ceth", e18(1), hundred)
			w.opAdd(w.users[1], "ceth", big.NewInt(0), big.NewInt(1))
			w.opRm(w.users[0], "ceth", 6000)
			w.opDecom("ceth")
			w.opCreate(w.users[0], "ceth", e18(1), hundred)
		}
		// D21: a reward period that takes over late — P1 = blocks 2..5, then at block 7 a period P2 = blocks 6..9 is
		// configured (its start block has passed, so the per-period counters of the pools still hold P1's totals):
		// two pools of equal depth must keep receiving equal shares of every block of P2 (accumulate and distribute)
		for _, dist := range []bool{false, true} {
			w := newAmmWorld(rng, out, 3, -1)
			w.fundAll()
			w.opCreate(w.users[0], "ceth", e18(1000), e18(50))
			w.opCreate(w.users[1], "cusdc", e18(1000), e18(70))
			setPeriod := func(start, stop uint64, alloc int64) {
				def := sdk.OneDec()
				a := sdk.NewUint(uint64(alloc))
				per := &clptypes.RewardPeriod{RewardPeriodId: fmt.Sprintf("rp%d", start), RewardPeriodStartBlock: start, RewardPeriodEndBlock: stop, RewardPeriodAllocation: &a, RewardPeriodDefaultMultiplier: &def, RewardPeriodDistribute: dist, RewardPeriodMod: 1}
				p := w.app.ClpKeeper.GetRewardsParams(w.ctx)
				p.RewardPeriods = []*clptypes.RewardPeriod{per}
				w.app.ClpKeeper.SetRewardParams(w.ctx, p)
				w.cfg(fmt.Sprintf("rewardperiod %d %d %d 1 %s 1000000000000000000", start, stop, alloc, b2s(dist)))
			}
			setPeriod(2, 5, 4000)
			for !w.halted && w.height <= 6 {
				w.opEndBlock()
			}
			setPeriod(6, 9, 4800)
			for !w.halted && w.height <= 10 {
				w.opEndBlock()
			}
		}
		// D20: depth rewards accumulated in the pools when the remaining-amount clamp binds: three pools of 1, 1 and 4
		// whole rowan (weights 1/6, 1/6, 4/6 round up at 18 decimals), 6·10¹⁸ per block — the pools may record only
		// what was minted; the same with five pools and in distribute mode
		for _, dist := range []bool{false, true} {
			w := newAmmWorld(rng, out, 3, -1)
			w.fundAll()
			for i, sym := range []string{"cusdc", "ceth", "cet1"} {
				n := int64(1)
				if i == 2 {
					n = 4
				}
				w.opCreate(w.users[0], sym, e18(n), e18(int64(3+i)))
				w.opAdd(w.users[1], sym, big.NewInt(0), e18(1))
			}
			def := sdk.OneDec()
			a := sdk.NewUintFromString("60000000000000000000")
			per := &clptypes.RewardPeriod{RewardPeriodId: "rp", RewardPeriodStartBlock: 1, RewardPeriodEndBlock: 10, RewardPeriodAllocation: &a, RewardPeriodDefaultMultiplier: &def, RewardPeriodDistribute: dist, RewardPeriodMod: 1}
			p := w.app.ClpKeeper.GetRewardsParams(w.ctx)
			p.RewardPeriods = []*clptypes.RewardPeriod{per}
			w.app.ClpKeeper.SetRewardParams(w.ctx, p)
			w.cfg(fmt.Sprintf("rewardperiod 1 10 60000000000000000000 1 %s 1000000000000000000", b2s(dist)))
			for i := 0; i < 3 && !w.halted; i++ {
				w.opEndBlock()
			}
		}
		// D19: depth rewards paid to providers with a tiny allocation (1 base unit per block, 3 equal providers; 2
		// per block, 5 providers; 1 per block, 2 providers): every share rounds to zero — whatever is minted and
		// cannot be paid must be burned again, nothing may stay in the module account
		for _, c := range [][2]int64{{10, 3}, {20, 5}, {10, 2}} {
			w := newAmmWorld(rng, out, int(c[1])+1, -1)
			w.fundAll()
			w.opCreate(w.users[0], "ceth", e18(1000), e18(50))
			for i := 1; i < int(c[1]); i++ {
				w.opAdd(w.users[i], "ceth", e18(1000), e18(50))
			}
			def := sdk.OneDec()
			a := sdk.NewUint(uint64(c[0]))
			per := &clptypes.RewardPeriod{RewardPeriodId: "rp", RewardPeriodStartBlock: 1, RewardPeriodEndBlock: 10, RewardPeriodAllocation: &a, RewardPeriodDefaultMultiplier: &def, RewardPeriodDistribute: true, RewardPeriodMod: 1}
			p := w.app.ClpKeeper.GetRewardsParams(w.ctx)
			p.RewardPeriods = []*clptypes.RewardPeriod{per}
			w.app.ClpKeeper.SetRewardParams(w.ctx, p)
			w.cfg(fmt.Sprintf("rewardperiod 1 10 %d 1 1 1000000000000000000", c[0]))
			for i := 0; i < 4 && !w.halted; i++ {
				w.opEndBlock()
			}
		}
		// D18: pools whose symbols are in a prefix relation (cet, cet1, ceth), each with its own provider besides the
		// creator, under a provider distribution (LPPD) and under depth rewards paid to providers: a provider is paid
		// out of the pools it is a provider of only
		for _, mode := range []int{0, 1} {
			w := newAmmWorld(rng, out, 5, -1)
			w.fundAll()
			for i, sym := range []string{"cet", "cet1", "ceth"} {
				w.opCreate(w.users[0], sym, e18(int64(1000*(i+1))), e18(int64(50*(i+1))))
				w.opAdd(w.users[i+1], sym, e18(int64(300*(i+1))), e18(int64(15*(i+1))))
			}
			if mode == 0 {
				w.app.ClpKeeper.SetProviderDistributionParams(w.ctx, &clptypes.ProviderDistributionParams{DistributionPeriods: []*clptypes.ProviderDistributionPeriod{{DistributionPeriodBlockRate: sdk.NewDecWithPrec(1, 3), DistributionPeriodStartBlock: 1, DistributionPeriodEndBlock: 10, DistributionPeriodMod: 1}}})
				w.cfg("lppd 1 10 1000000000000000 1")
			} else {
				def := sdk.OneDec()
				a := sdk.NewUintFromString("1000000000000000000000")
				per := &clptypes.RewardPeriod{RewardPeriodId: "rp", RewardPeriodStartBlock: 1, RewardPeriodEndBlock: 10, RewardPeriodAllocation: &a, RewardPeriodDefaultMultiplier: &def, RewardPeriodDistribute: true, RewardPeriodMod: 1}
				p := w.app.ClpKeeper.GetRewardsParams(w.ctx)
				p.RewardPeriods = []*clptypes.RewardPeriod{per}
				w.app.ClpKeeper.SetRewardParams(w.ctx, p)
				w.cfg("rewardperiod 1 10 1000000000000000000000 1 1 1000000000000000000")
			}
			for i := 0; i < 3 && !w.halted; i++ {
				w.opEndBlock()
			}
		}
		// D17: per-token fee overrides set, changed and dropped again (the token then pays the default rate), the
		// default raised above the dropped override; swaps selling the token on the single and the double route
		{
			w := newAmmWorld(rng, out, 3, -1)
			w.fundAll()
			w.opCreate(w.users[0], "ceth", e18(100000), e18(5000))
			w.opCreate(w.users[0], "cusdc", e18(100000), e18(90000))
			k := w.app.ClpKeeper
			setFees := func(def int64, toks map[string]int64) {
				sp := clptypes.SwapFeeParams{DefaultSwapFeeRate: sdk.NewDecWithPrec(def, 4)}
				for _, t := range []string{"ceth", "cusdc", "rowan"} {
					if r, ok := toks[t]; ok {
						sp.TokenParams = append(sp.TokenParams, &clptypes.SwapFeeTokenParams{Asset: t, SwapFeeRate: sdk.NewDecWithPrec(r, 4)})
					}
				}
				old := k.GetSwapFeeParams(w.ctx)
				k.SetSwapFeeParams(w.ctx, &sp)
				for _, tp := range old.TokenParams {
					w.cfg("nofeetoken " + tp.Asset)
				}
				w.cfg("fee " + sp.DefaultSwapFeeRate.BigInt().String())
				for _, tp := range sp.TokenParams {
					w.cfg("feetoken " + tp.Asset + " " + tp.SwapFeeRate.BigInt().String())
				}
			}
			// each route also with the minimum one above (and half a percent above) what the message would credit:
			// refused; and with the minimum at exactly that amount: accepted
			atMin := func(sent, recv string, amt *big.Int) {
				if y0 := w.swapDryRun(w.users[1], sent, recv, amt); y0 != nil && y0.Sign() > 0 {
					w.opSwap(w.users[1], sent, recv, amt, new(big.Int).Add(y0, big.NewInt(1)))
					w.opSwap(w.users[1], sent, recv, amt, new(big.Int).Add(y0, new(big.Int).Quo(y0, big.NewInt(200))))
					w.opSwap(w.users[1], sent, recv, amt, y0)
				}
			}
			swaps := func() {
				w.opSwap(w.users[1], "ceth", "rowan", e18(100), big.NewInt(0))
				w.opSwap(w.users[1], "ceth", "cusdc", e18(100), big.NewInt(0))
				w.opSwap(w.users[1], "rowan", "ceth", e18(1000), big.NewInt(0))
				w.opSwap(w.users[1], "cusdc", "ceth", e18(1000), big.NewInt(0))
				atMin("ceth", "cusdc", e18(10))
				atMin("cusdc", "ceth", e18(100))
				atMin("ceth", "rowan", e18(10))
				atMin("rowan", "cusdc", e18(100))
			}
			setFees(30, map[string]int64{"ceth": 1, "rowan": 5})
			swaps()
			setFees(30, map[string]int64{"ceth": 100})
			swaps()
			setFees(100, map[string]int64{"rowan": 5})
			swaps()
			setFees(100, map[string]int64{"cusdc": 200})
			swaps()
			setFees(50, nil)
			swaps()
		}
		// D16: runs of store-adjacent providers inside the rewards lock period at an epoch (one pool: 5 providers,
		// every pattern of who refreshed its record at block 30; two pools: the run crosses the pool boundary),
		// lock period 10, wallet mode and pool mode — only the providers past the lock period may receive anything
		for _, dist := range []bool{true, false} {
			for pat := 1; pat < 32; pat += 2 + rng.Intn(3) {
				w := newAmmWorld(rng, out, 6, -1)
				w.fundAll()
				w.setDistribute(dist)
				w.setLock(10)
				w.opCreate(w.users[0], "ceth", e18(500), e18(7))
				w.opCreate(w.users[0], "cusdc", e18(300), e18(9))
				for i := 1; i < 5; i++ {
					w.opAdd(w.users[i], "ceth", e18(int64(100*i)), e18(1))
					if i%2 == 1 {
						w.opAdd(w.users[i], "cusdc", e18(int64(10*i)), e18(1))
					}
				}
				w.setHeight(30)
				for i := 0; i < 5; i++ {
					if pat>>uint(i)&1 == 1 {
						w.opAdd(w.users[i], "ceth", e18(1), big.NewInt(0))
						if i%2 == 1 || i == 0 {
							w.opAdd(w.users[i], "cusdc", big.NewInt(0), e18(1))
						}
					}
				}
				w.opBucket(w.users[5], "ceth", e18(3))
				w.opBucket(w.users[5], "cusdc", big.NewInt(1000000))
				w.setHeight(35)
				w.opEpoch()
			}
		}
		// D15: liquidity protection on, the threshold denominated in (a) a token without a pool (the default
		// cusdc while only ceth has a pool), (b) the native token, (c) the pool's own token; swaps in both
		// directions around the threshold, asymmetric adds on both sides, then the epoch hook in pool mode
		// and in wallet mode (re-investment and payout must not depend on the protection settings)
		for _, asset := range []string{"cusdc", "rowan", "ceth"} {
			for _, dist := range []bool{false, true} {
				w := newAmmWorld(rng, out, 4, -1)
				w.fundAll()
				w.setDistribute(dist)
				w.opCreate(w.users[0], "ceth", e18(1000), e18(50))
				w.opAdd(w.users[1], "ceth", e18(200), e18(10))
				w.setLiquidityProtection(true, e18(40), asset, e18(25))
				w.opSwap(w.users[2], "rowan", "ceth", e18(30), big.NewInt(0))
				w.opSwap(w.users[2], "rowan", "ceth", e18(20), big.NewInt(0))
				w.opSwap(w.users[2], "ceth", "rowan", e18(1), big.NewInt(0))
				w.opSwap(w.users[2], "ceth", "rowan", e18(3), big.NewInt(0))
				w.opAdd(w.users[3], "ceth", e18(50), big.NewInt(0))
				w.opAdd(w.users[3], "ceth", big.NewInt(0), e18(2))
				w.opAdd(w.users[3], "ceth", e18(1000), big.NewInt(0))
				w.opBucket(w.users[0], "ceth", e18(3))
				w.setHeight(5)
				w.opEpoch()
				w.opSwap(w.users[2], "rowan", "ceth", e18(1), big.NewInt(0))
				w.opAdd(w.users[1], "ceth", e18(5), e18(1))
			}
		}
		// D14: a pool with margin liabilities on the output side and a swap whose priced output equals the pool's
		// real balance of the output token exactly (found by bisection on the real CalcSwapResult): it must fail,
		// as must the amounts next to it that price above the balance
		{
			w := newAmmWorld(rng, out, 3, -1)
			w.fundAll()
			w.opCreate(w.users[0], "cusdc", e18(1), e18(1))
			tenth := new(big.Int).Quo(e18(1), big.NewInt(10))
			w.poolMargin("cusdc", big.NewInt(0), tenth, big.NewInt(0), big.NewInt(0))
			if p := w.pool("cusdc"); p != nil {
				X, Y := poolDepths(p)
				f := decRaw(w.configuredFee("rowan"))
				target := p.ExternalAssetBalance
				lo, hi := big.NewInt(1), new(big.Int).Mul(e18(1), big.NewInt(1000))
				for lo.Cmp(hi) < 0 {
					mid := new(big.Int).Rsh(new(big.Int).Add(lo, hi), 1)
					y, _ := clpkeeper.CalcSwapResult(false, X, uintOf(mid), Y, sdk.ZeroDec(), f)
					if y.LT(target) {
						lo = new(big.Int).Add(mid, big.NewInt(1))
					} else {
						hi = mid
					}
				}
				for _, d := range []int64{0, 1, 1000, -1} { // the refused amounts first: they leave the pool as it is
					w.opSwap(w.users[1], "rowan", "cusdc", new(big.Int).Add(lo, big.NewInt(d)), big.NewInt(0))
				}
			}
		}
		// D13: pool-mode epoch on a pool whose native side an LPPD run at block rate 1 has emptied (two equal
		// providers, even balance): CalculatePoolUnits refuses the re-investment — the bucket must stay intact —
		// then wallet mode pays it out
		{
			w := newAmmWorld(rng, out, 3, -1)
			w.fundAll()
			w.setDistribute(false)
			w.opCreate(w.users[0], "ceth", e18(1000), e18(1000))
			w.opAdd(w.users[1], "ceth", e18(1000), e18(1000))
			w.opBucket(w.users[2], "ceth", e18(600))
			w.setLock(0)
			w.setHeight(10)
			w.app.ClpKeeper.SetProviderDistributionParams(w.ctx, &clptypes.ProviderDistributionParams{DistributionPeriods: []*clptypes.ProviderDistributionPeriod{{DistributionPeriodBlockRate: sdk.OneDec(), DistributionPeriodStartBlock: 10, DistributionPeriodEndBlock: 10, DistributionPeriodMod: 1}}})
			w.cfg("lppd 10 10 1000000000000000000 1")
			w.opEndBlock()
			w.opEpoch()
			w.setDistribute(true)
			w.setHeight(13)
			w.opEpoch()
			// known finding F17 (kept reproducible on every run): an addition into this pool, whose native side is
			// empty, resets the pool units to the native amount added while the two providers keep theirs
			w.opAdd(w.users[2], "ceth", big.NewInt(2), new(big.Int).Add(e18(10), big.NewInt(1)))
		}
		// D12: decommission of a pool with more providers than any page size a reader might assume (205): every
		// provider is refunded and deleted, nothing but the truncation remainders stays behind
		{
			const nProv = 205
			w := newAmmWorld(rng, out, nProv+2, -1)
			for _, u := range w.users {
				w.fund(u, "rowan", e18(1000000))
				w.fund(u, "ceth", e18(1000000))
				w.fund(u, "cusdc", e18(1000000))
			}
			w.opCreate(w.users[0], "cusdc", e18(50), e18(50))
			w.opCreate(w.users[0], "ceth", e18(1), e18(1))
			tiny := new(big.Int).Quo(e18(1), big.NewInt(1000))
			for i := 1; i < nProv; i++ {
				w.opAdd(w.users[i], "ceth", new(big.Int).Add(tiny, big.NewInt(int64(i))), new(big.Int).Add(tiny, big.NewInt(int64(7*i))))
			}
			// take the pool's native side below the decommission threshold
			w.opSwap(w.users[nProv], "ceth", "rowan", e18(1), big.NewInt(0))
			w.opDecom("ceth")
			w.opSwap(w.users[nProv], "rowan", "cusdc", e18(1), big.NewInt(0))
		}
		// D11: a removal whose payout truncates to zero on both sides still burns the same units from the pool and
		// from the provider (basis points and units)
		{
			w := newAmmWorld(rng, out, 3, -1)
			w.fundAll()
			w.opCreate(w.users[0], "ceth", e18(1), e18(1))
			w.opAdd(w.users[1], "ceth", big.NewInt(100), big.NewInt(100))
			w.opRm(w.users[1], "ceth", 1)
			w.opRm(w.users[1], "ceth", 50)
			w.opCreate(w.users[0], "cusdc", e18(1), big.NewInt(1000))
			w.opAdd(w.users[1], "cusdc", big.NewInt(1000000000000), big.NewInt(0))
			w.opRmu(w.users[1], "cusdc", big.NewInt(1))
			w.opRm(w.users[1], "ceth", 10000)
		}
		// D9: a dust provider (its pro-rata refund truncates to zero on both sides) at decommission time, then the
		// pool is created again by somebody else: no provider record may survive the decommission
		{
			w := newAmmWorld(rng, out, 4, -1)
			w.fundAll()
			w.opCreate(w.users[0], "cusdc", e18(1), big.NewInt(1000000))
			w.opAdd(w.users[1], "cusdc", big.NewInt(1000000000000), big.NewInt(1))
			if lp, err := w.app.ClpKeeper.GetLiquidityProvider(w.ctx, "cusdc", w.users[1].String()); err == nil {
				u := new(big.Int).Sub(lp.LiquidityProviderUnits.BigInt(), big.NewInt(1))
				if u.Sign() > 0 {
					w.opRmu(w.users[1], "cusdc", u)
				}
			}
			w.opSwap(w.users[2], "cusdc", "rowan", big.NewInt(200000), big.NewInt(0))
			w.opDecom("cusdc")
			w.opCreate(w.users[3], "cusdc", e18(1), big.NewInt(1000000))
			w.opRm(w.users[1], "cusdc", 10000)
			w.opRm(w.users[3], "cusdc", 5000)
		}
		// D8: default multiplier 0 — only the pool listed in the period earns depth rewards; the unlisted pool
		// is three times as deep
		for _, dist := range []bool{false, true} {
			w := newAmmWorld(rng, out, 3, -1)
			w.fundAll()
			w.opCreate(w.users[0], "cusdc", e18(1000), e18(1000))
			w.opCreate(w.users[1], "ceth", e18(3000), e18(3000))
			def := sdk.ZeroDec()
			one := sdk.OneDec()
			a := sdk.NewUint(40000000)
			per := &clptypes.RewardPeriod{RewardPeriodId: "rp", RewardPeriodStartBlock: 1, RewardPeriodEndBlock: 10, RewardPeriodAllocation: &a, RewardPeriodDefaultMultiplier: &def, RewardPeriodDistribute: dist, RewardPeriodMod: 1,
				RewardPeriodPoolMultipliers: []*clptypes.PoolMultiplier{{PoolMultiplierAsset: "cusdc", Multiplier: &one}}}
			p := w.app.ClpKeeper.GetRewardsParams(w.ctx)
			p.RewardPeriods = []*clptypes.RewardPeriod{per}
			w.app.ClpKeeper.SetRewardParams(w.ctx, p)
			w.cfg("rewardperiod 1 10 40000000 1 " + b2s(dist) + " 0 cusdc 1000000000000000000")
			for i := 0; i < 4 && !w.halted; i++ {
				w.opEndBlock()
			}
		}
		// D7: decommission of a small pool that carries margin liabilities, next to another pool and a bucket
		// that share the module account: the refunds are computed on depth = balance + liabilities
		for _, native := range []bool{true, false} {
			w := newAmmWorld(rng, out, 3, -1)
			w.fundAll()
			w.opCreate(w.users[0], "cusdc", e18(5), e18(5))
			w.opBucket(w.users[0], "ceth", e18(2))
			half := new(big.Int).Quo(e18(1), big.NewInt(2))
			w.opCreate(w.users[0], "ceth", e18(1), e18(1))
			w.opAdd(w.users[1], "ceth", new(big.Int).Quo(half, big.NewInt(2)), new(big.Int).Quo(half, big.NewInt(2)))
			// shrink the pool below the decommission threshold
			if lp, err := w.app.ClpKeeper.GetLiquidityProvider(w.ctx, "ceth", w.users[0].String()); err == nil {
				u := new(big.Int).Mul(lp.LiquidityProviderUnits.BigInt(), big.NewInt(3))
				w.opRmu(w.users[0], "ceth", u.Quo(u, big.NewInt(4)))
			}
			tenth := new(big.Int).Quo(e18(1), big.NewInt(10))
			if native {
				w.poolMargin("ceth", tenth, big.NewInt(0), big.NewInt(0), new(big.Int).Quo(tenth, big.NewInt(2)))
			} else {
				w.poolMargin("ceth", big.NewInt(0), tenth, new(big.Int).Quo(tenth, big.NewInt(2)), big.NewInt(0))
			}
			w.opDecom("ceth")
			w.opSwap(w.users[2], "rowan", "cusdc", e18(1), big.NewInt(0))
		}
		// D5: a zero-unit provider is the only eligible provider of an asset with a funded bucket (both modes)
		for _, dist := range []bool{false, true} {
			w := newAmmWorld(rng, out, 3, -1)
			w.fundAll()
			w.setDistribute(dist)
			w.opCreate(w.users[0], "cusdc", e18(1), e18(1000000))
			w.opAdd(w.users[1], "cusdc", big.NewInt(0), big.NewInt(1)) // rounds to zero units
			w.opBucket(w.users[0], "cusdc", e18(5))
			w.setLock(3)
			w.setHeight(10)
			w.opAdd(w.users[0], "cusdc", e18(1), e18(1)) // refreshes the creator: not eligible for 3 blocks
			w.setHeight(11)
			w.opEpoch()
		}
	}
}

func init() {
	families["amm"] = func(rng *Rng, n int, out *Out, replay string) {
		histLen := 60
		for done := 0; done < n; {
			blockedIdx := -1
			if rng.Chance(1, 3) {
				blockedIdx = 1 + rng.Intn(4)
			}
			w := newAmmWorld(rng, out, 5, blockedIdx)
			huge := new(big.Int).Exp(big.NewInt(10), big.NewInt(38), nil)
			for _, u := range w.users {
				for _, d := range w.denoms {
					w.fund(u, d, huge)
				}
			}
			if rng.Chance(1, 3) {
				w.randomLiquidityProtection()
			}
			w.observe("init")
			for i := 0; i < histLen && done < n && !w.halted; i++ {
				w.step()
				done++
			}
		}
	}
}
