package main

// family "dist": L0 correspondence on the three payout collectors of x/clp (C18):
// provider distribution (LPPD / depth-reward payouts), the depth split between pools, and the
// epoch rewards-bucket shares.  The implementation's payout vectors are judged by Spec.C18.

import (
	"fmt"
	"math/big"
	"strings"

	clpkeeper "github.com/Sifchain/sifnode/x/clp/keeper"
	clptypes "github.com/Sifchain/sifnode/x/clp/types"
	sdk "github.com/cosmos/cosmos-sdk/types"
)

// unitVector draws provider units over many shapes: equal, one dominant, dust shares, random.
func unitVector(rng *Rng, n int) []*big.Int {
	us := make([]*big.Int, n)
	shape := rng.Intn(5)
	base := rng.Amount(100)
	for i := range us {
		switch shape {
		case 0:
			us[i] = new(big.Int).Set(base)
		case 1:
			if i == 0 {
				us[i] = rng.Amount(110)
			} else {
				us[i] = rng.Amount(20)
			}
		case 2:
			us[i] = big.NewInt(int64(rng.Intn(3)))
		default:
			us[i] = rng.Amount(100)
		}
	}
	return us
}

func sumBig(us []*big.Int) *big.Int {
	s := new(big.Int)
	for _, u := range us {
		s.Add(s, u)
	}
	return s
}

func joinBig(us []*big.Int) string {
	ss := make([]string, len(us))
	for i, u := range us {
		ss[i] = u.String()
	}
	return strings.Join(ss, " ")
}

func distAddr(i int) sdk.AccAddress {
	b := make([]byte, 20)
	b[0] = byte(i >> 8)
	b[1] = byte(i)
	b[19] = 0x77
	return sdk.AccAddress(b)
}

func init() {
	families["dist"] = func(rng *Rng, n int, out *Out, replay string) {
		sdkCtx := sdk.Context{}
		k := clpkeeper.Keeper{}
		for c := 0; c < n; c++ {
			switch c % 4 {
			case 0: // one provider amount
				pd := rng.RateNonNeg()
				if rng.Bool() {
					pd = new(big.Int).Mul(rng.Amount(100), pow18)
				}
				pu := rng.Amount(110)
				lu := rng.Near(pu)
				if rng.Bool() {
					lu = new(big.Int).Rsh(pu, uint(rng.Intn(pu.BitLen()+1)))
				}
				op := fmt.Sprintf("provamt %s %s %s", pd, pu, lu)
				ans := protect(func() string {
					return "ok " + clpkeeper.CalcProviderDistributionAmount(decRaw(pd), uintOf(pu), uintOf(lu)).String()
				})
				out.Emit(op, ans, "provamt."+ans[:2], ans != "panic")
				if ans != "panic" && pu.Sign() > 0 {
					out.Emit(fmt.Sprintf("chk c18.fair tag=provamt.fair %s %s %s %s", pd, pu, lu, ans[3:]), "true", "chk.fair", false)
				}
			case 1: // a whole pool
				np := 1 + rng.Intn(12)
				if rng.Chance(1, 10) {
					np = 50 + rng.Intn(150)
				}
				us := unitVector(rng, np)
				pu := sumBig(us)
				if rng.Chance(1, 3) { // other providers exist that are not in the list
					pu = new(big.Int).Add(pu, rng.Amount(100))
				}
				if pu.Sign() == 0 {
					pu = big.NewInt(1)
				}
				rate := rng.Rate01()
				if rng.Chance(1, 2) {
					rate = new(big.Int).Quo(rate, big.NewInt(100000))
				}
				depth := rng.Amount(110)
				if rng.Chance(1, 3) {
					depth = new(big.Int).Mul(big.NewInt(int64(1+rng.Intn(12))), pow18)
				}
				op := fmt.Sprintf("collect %s %s %s %d %s", rate, depth, pu, np, joinBig(us))
				var amts []string
				ans := protect(func() string {
					lps := make([]clpkeeper.ValidLiquidityProvider, np)
					for i, u := range us {
						a := distAddr(i)
						lps[i] = clpkeeper.ValidLiquidityProvider{Address: a, LP: &clptypes.LiquidityProvider{Asset: &clptypes.Asset{Symbol: "p"}, LiquidityProviderUnits: uintOf(u), LiquidityProviderAddress: a.String()}}
					}
					lpMap := make(clpkeeper.LpRowanMap)
					lpPool := make(clpkeeper.LpPoolMap)
					pool := &clptypes.Pool{ExternalAsset: &clptypes.Asset{Symbol: "p"}}
					tot := clpkeeper.CollectProviderDistribution(sdkCtx, pool, sdk.NewDecFromBigInt(depth), decRaw(rate), uintOf(pu), lps, lpMap, lpPool)
					amts = make([]string, np)
					for i := range us {
						amts[i] = lpMap[distAddr(i).String()].String()
					}
					return "ok " + tot.String() + " " + strings.Join(amts, " ")
				})
				out.Emit(op, ans, "collect."+ans[:2], ans != "panic")
				if ans != "panic" {
					out.Emit(fmt.Sprintf("chk c18.pool tag=collect.pool %s %s %s %d %s %s", rate, depth, pu, np, joinBig(us), ans[3:]), "true", "chk.pool", false)
				}
			case 2: // depth split between pools
				npools := 1 + rng.Intn(8)
				bd := rng.Amount(100)
				dm := new(big.Int).Set(pow18)
				if rng.Bool() {
					dm = new(big.Int).Mul(big.NewInt(int64(rng.Intn(11))), pow18)
				}
				def := decRaw(dm)
				period := &clptypes.RewardPeriod{RewardPeriodDefaultMultiplier: &def}
				pools := make([]*clptypes.Pool, npools)
				totalDepth := sdk.ZeroDec()
				var sb strings.Builder
				bad := false
				for i := 0; i < npools; i++ {
					nb := rng.Amount(105)
					m := new(big.Int).Mul(big.NewInt(int64(rng.Intn(11))), pow18)
					if rng.Chance(1, 3) {
						m = rng.Rate01()
					}
					name := fmt.Sprintf("p%03d", i)
					md := decRaw(m)
					period.RewardPeriodPoolMultipliers = append(period.RewardPeriodPoolMultipliers, &clptypes.PoolMultiplier{PoolMultiplierAsset: name, Multiplier: &md})
					pools[i] = &clptypes.Pool{ExternalAsset: &clptypes.Asset{Symbol: name}, NativeAssetBalance: uintOf(nb)}
					fmt.Fprintf(&sb, " %s %s", nb, m)
					func() {
						defer func() {
							if recover() != nil {
								bad = true
							}
						}()
						totalDepth = totalDepth.Add(sdk.NewDecFromBigInt(nb).Mul(md))
					}()
				}
				op := fmt.Sprintf("tuples %s %s %d%s", bd, dm, npools, sb.String())
				ans := protect(func() string {
					if bad {
						panic("overflow")
					}
					if totalDepth.LTE(sdk.ZeroDec()) {
						z := make([]string, npools)
						for i := range z {
							z[i] = "0"
						}
						return "ok 0 " + strings.Join(z, " ")
					}
					tuples, mint := clpkeeper.CollectPoolRewardTuples(pools, uintOf(bd), totalDepth, period)
					rs := make([]string, npools)
					for i := range rs {
						rs[i] = "0"
						for _, t := range tuples {
							if t.Pool == pools[i] {
								rs[i] = t.Reward.String()
							}
						}
					}
					return "ok " + mint.String() + " " + strings.Join(rs, " ")
				})
				out.Emit(op, ans, "tuples."+ans[:2], ans != "panic")
				if ans != "panic" {
					out.Emit(fmt.Sprintf("chk c18.split tag=tuples.split %s %s %d%s %s", bd, dm, npools, sb.String(), ans[3:]), "true", "chk.split", false)
				}
			default: // epoch bucket shares
				np := 1 + rng.Intn(12)
				us := unitVector(rng, np)
				b := rng.Amount(100)
				if rng.Chance(1, 3) {
					b = new(big.Int).Mul(big.NewInt(int64(1+rng.Intn(12))), pow18)
				}
				op := fmt.Sprintf("bucket %s %d %s", b, np, joinBig(us))
				ans := protect(func() string {
					lps := make([]*clptypes.LiquidityProvider, np)
					for i, u := range us {
						lps[i] = &clptypes.LiquidityProvider{LiquidityProviderUnits: uintOf(u)}
					}
					shares := k.CalculateRewardShareForLiquidityProviders(sdkCtx, lps)
					amts := k.CalculateRewardAmountForLiquidityProviders(sdkCtx, shares, sdk.NewIntFromBigInt(b))
					ss := make([]string, np)
					for i, a := range amts {
						ss[i] = a.String()
					}
					return "ok " + strings.Join(ss, " ")
				})
				out.Emit(op, ans, "bucket."+ans[:2], ans != "panic")
				if ans != "panic" {
					out.Emit(fmt.Sprintf("chk c18.bucket tag=bucket.fair %s %d %s %s", b, np, joinBig(us), ans[3:]), "true", "chk.bucket", false)
				}
			}
		}
	}
}
