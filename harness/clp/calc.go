package main

// family "calc": L0 correspondence on the exported pure calculators of x/clp/keeper.

import (
	"fmt"
	"math/big"

	clpkeeper "github.com/Sifchain/sifnode/x/clp/keeper"
	sdk "github.com/cosmos/cosmos-sdk/types"
)

func decRaw(i *big.Int) sdk.Dec  { return sdk.NewDecFromBigIntWithPrec(i, 18) }
func uintOf(i *big.Int) sdk.Uint { return sdk.NewUintFromBigInt(i) }

func b2s(b bool) string {
	if b {
		return "1"
	}
	return "0"
}

func calcUnitsCase(rng *Rng, out *Out) {
	// pool state: units of the magnitude of the native depth (as after a creation), perturbed
	R := rng.Amount(110)
	A := rng.Amount(110)
	P := rng.Near(R)
	if rng.Chance(1, 6) {
		P = rng.Amount(110)
	}
	var r, a *big.Int
	switch rng.Intn(6) {
	case 0: // symmetric-ish: a = r*A/R
		r = rng.Amount(100)
		a = new(big.Int).Mul(r, A)
		if R.Sign() > 0 {
			a.Quo(a, R)
		}
		if rng.Bool() {
			a = rng.Near(a)
		}
	case 1:
		r = big.NewInt(0)
		a = rng.Amount(110)
	case 2:
		a = big.NewInt(0)
		r = rng.Amount(110)
	default:
		r = rng.Amount(110)
		a = rng.Amount(110)
	}
	fS := rng.Rate01()
	fB := rng.Rate01()
	p := rng.RateNonNeg()
	if rng.Chance(1, 2) {
		p = big.NewInt(0)
	}
	op := fmt.Sprintf("poolunits %s %s %s %s %s %s %s %s", P, R, A, r, a, fS, fB, p)
	cls := "poolunits.ok"
	ans := protect(func() string {
		pu, lu, st, sa, err := clpkeeper.CalculatePoolUnits(uintOf(P), uintOf(R), uintOf(A), uintOf(r), uintOf(a), decRaw(fS), decRaw(fB), decRaw(p))
		if err != nil {
			cls = "poolunits.err"
			return "err"
		}
		sas := "0"
		if st != clpkeeper.NoSwap {
			sas = sa.String()
		}
		return fmt.Sprintf("ok %s %s %d %s", pu, lu, st, sas)
	})
	if ans == "panic" {
		cls = "poolunits.panic"
	} else if len(ans) > 3 {
		var a1, a2, a4 string
		var st int
		fmt.Sscanf(ans, "ok %s %s %d %s", &a1, &a2, &st, &a4)
		cls = fmt.Sprintf("poolunits.status%d", st)
	}
	out.Emit(op, ans, cls, cls != "poolunits.err")
}

func calcWithdrawCase(rng *Rng, out *Out) {
	R := rng.Amount(110)
	A := rng.Amount(110)
	P := rng.Near(R)
	if P.Sign() == 0 {
		P = big.NewInt(1)
	}
	// provider units <= pool units, over all share magnitudes
	lp := new(big.Int).Rsh(P, uint(rng.Intn(P.BitLen()+1)))
	if rng.Chance(1, 4) {
		lp = new(big.Int).Set(P)
	}
	if lp.Sign() == 0 {
		lp = big.NewInt(1)
	}
	if rng.Bool() {
		w := int64(1 + rng.Intn(10000))
		if rng.Chance(1, 4) {
			w = 10000
		}
		op := fmt.Sprintf("withdraw %s %s %s %s %d", P, R, A, lp, w)
		ans := protect(func() string {
			n, e, l, _ := clpkeeper.CalculateWithdrawal(uintOf(P), R.String(), A.String(), lp.String(), fmt.Sprint(w), sdk.ZeroInt())
			return fmt.Sprintf("ok %s %s %s", n, e, l)
		})
		out.Emit(op, ans, "withdraw."+ans[:2], ans != "panic")
	} else {
		wu := new(big.Int).Rsh(lp, uint(rng.Intn(lp.BitLen()+1)))
		if wu.Sign() == 0 {
			wu = big.NewInt(1)
		}
		op := fmt.Sprintf("withdrawunits %s %s %s %s %s", P, R, A, lp, wu)
		ans := protect(func() string {
			n, e, l := clpkeeper.CalculateWithdrawalFromUnits(uintOf(P), R.String(), A.String(), lp.String(), uintOf(wu))
			return fmt.Sprintf("ok %s %s %s", n, e, l)
		})
		out.Emit(op, ans, "withdrawunits."+ans[:2], ans != "panic")
	}
}

func init() {
	families["calc"] = func(rng *Rng, n int, out *Out, replay string) {
		for k := 0; k < n; k++ {
			switch k % 4 {
			case 1:
				calcUnitsCase(rng, out)
				continue
			case 3:
				calcWithdrawCase(rng, out)
				continue
			}
			toRowan := rng.Bool()
			X := rng.Amount(110)
			Y := rng.Amount(110)
			var x *big.Int
			switch rng.Intn(4) {
			case 0:
				x = rng.Near(X)
			case 1:
				x = rng.Amount(128)
			default:
				x = rng.Amount(110)
			}
			r := rng.RateNonNeg()
			f := rng.Rate01()
			op := fmt.Sprintf("calcswap %s %s %s %s %s %s", b2s(toRowan), X, x, Y, r, f)
			ans := protect(func() string {
				y, fee := clpkeeper.CalcSwapResult(toRowan, uintOf(X), uintOf(x), uintOf(Y), decRaw(r), decRaw(f))
				return fmt.Sprintf("ok %s %s", y, fee)
			})
			cls := "calcswap.ok"
			if ans == "panic" {
				cls = "calcswap.panic"
			} else if ans == "ok 0 0" {
				cls = "calcswap.zero"
			}
			out.Emit(op, ans, cls, cls == "calcswap.ok")
			if ans != "panic" {
				// the implementation's own output, judged by the Lean predicate of Sif/Spec/C03
				var y, fee string
				fmt.Sscanf(ans, "ok %s %s", &y, &fee)
				out.Emit(fmt.Sprintf("chk c03.leg tag=calcswap.bound %s %s %s %s %s %s %s", b2s(toRowan), X, x, Y, r, f, y), "true", "chk.leg", false)
			}
		}
	}
}
